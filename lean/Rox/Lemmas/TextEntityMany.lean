/-
  Rox.Lemmas.TextEntityMany — C07 in character data, any number of references: a text token
  `t0 &n1; t1 &n2; t2 … &nk; tk` (every `ti` plain character data — no `&`, no `<`, CR and LF
  allowed —, every `ni` the name of a declared entity whose replacement text is plain character data
  too; the same entity may occur several times) makes `process_text`, at entity depth 0, do exactly
  `append_text` of the §2.11 normalisation of each of the `2k + 1` parts, one fragment per non-empty
  part, in order — and nothing else: no other node, the loop detector at rest, the entity table
  unchanged.  The analogue for character data of `Rox.Lemmas.AttrEntityMany`, and the
  generalisation of `C04.text_run_decoded` to runs with general-entity references.

  Main results: `processText_entities_all` (k ≥ 0, what `process_text` did), `processText_entities`
  (k ≥ 1), `token_text_entities` (the builder's `token`), `processText_entities_fields` (the pending
  text, loop detector, entity table, arena), `processText_entities_node` (the text node finally
  produced).  Each part is normalised on its own: `<!ENTITY e 'a CR'>` followed by `LF b` gives
  `a LF LF b` — the CR and the LF were not adjacent in the entity they were written in, and the
  model (like the code) flushes its buffer, pending CR included, at every reference.
-/
import Rox.Lemmas.AttrEntityMany
import Rox.Lemmas.PosIndep
import Rox.Lemmas.ContentLen

namespace Rox.Lemmas
open Rox Rox.Spec Rox.Props.C04

namespace TextEnt

/-! ### What is expected -/

/-- `lineEnds e1.value ++ lineEnds t1 ++ … ++ lineEnds ek.value ++ lineEnds tk` -/
def expectedTextTail : List Seg → Bytes
  | [] => []
  | (_, e, q) :: segs => lineEnds e.value.bytes ++ lineEnds q ++ expectedTextTail segs

/-- `lineEnds t0 ++ lineEnds e1.value ++ lineEnds t1 ++ … ++ lineEnds ek.value ++ lineEnds tk`:
every part is §2.11-normalised on its own (a CR that ends one part and an LF that begins the next
one are two line ends: they were not adjacent in the entity they were written in). -/
def expectedText (t0 : Bytes) (segs : List Seg) : Bytes := lineEnds t0 ++ expectedTextTail segs

/-- A fragment as `append_text` receives it. -/
abbrev Frag := Str × Range

/-- What a literal part of the token contributes: nothing if it is empty, otherwise one owned
fragment, its §2.11 normalisation, with the range of the token. -/
def litFrag (range : Range) (t : Bytes) : List Frag :=
  if t = [] then [] else [(.owned (lineEnds t), range)]

/-- What a reference to an entity with plain replacement text contributes: nothing if the text is
empty, otherwise one fragment with the range of the replacement text — the text itself, borrowed,
if it contains no CR, and its §2.11 normalisation, owned, if it does. -/
def entFrag (e : Entity) : List Frag :=
  if e.value.bytes = [] then []
  else if e.value.bytes.contains bCR then
    [(.owned (lineEnds e.value.bytes), (e.value.off, e.value.off + e.value.bytes.length))]
  else [(.borrowed e.value, (e.value.off, e.value.off + e.value.bytes.length))]

def fragsTail (range : Range) : List Seg → List Frag
  | [] => []
  | (_, e, q) :: segs => entFrag e ++ litFrag range q ++ fragsTail range segs

/-- The fragments of `t0 &n1; t1 … &nk; tk`. -/
def frags (range : Range) (t0 : Bytes) (segs : List Seg) : List Frag :=
  litFrag range t0 ++ fragsTail range segs

/-- `append_text` of the fragments, one after the other. -/
def appendFrags : Ctx → List Frag → Res Ctx
  | c, [] => .ok c
  | c, (f, r) :: fs => c.appendText f r >>= fun c1 => appendFrags c1 fs

/-- The tokenizer on the replacement text of every referenced entity (taken as hypothesis, like
`RefsOk` for the reference lexer): the replacement text is the slice of the input at its offset,
and `parse_content` over it yields one text token — none if it is empty — and no error. -/
def ValsOk (T : Tables) (txt : Bytes) (segs : List Seg) : Prop :=
  ∀ s ∈ segs,
    s.2.1.value.bytes = sliceBytes txt s.2.1.value.off (s.2.1.value.off + s.2.1.value.bytes.length) ∧
    ∃ st, tokenizeContent T txt s.2.1.value.off s.2.1.value.stop =
      ((if s.2.1.value.bytes = [] then []
        else [Token.text s.2.1.value (s.2.1.value.off, s.2.1.value.off + s.2.1.value.bytes.length)]),
       .ok st)

/-! ### The ghost part of the context -/

/-- The context without what the expansion of an entity touches besides the tree: the trace, the
loop detector, the deepest re-entry seen, and the tag name and entity floor that are saved and
restored around it. -/
def eg (c : Ctx) : Ctx :=
  { c with trace := [], ld := {}, maxDepth := 0, tagName := {}, entityFloor := 0 }

/-- `append_node` reads the arena, the limit, the `positions` feature, the current parent and the
awaiting list, and writes the arena and the awaiting list — nothing else. -/
theorem appendNode_transfer (c c0 : Ctx) (k : Kind) (r : Range) (h1 : c0.doc = c.doc)
    (h2 : c0.nodesLimit = c.nodesLimit) (h3 : c0.positions = c.positions)
    (h4 : c0.parentId = c.parentId) (h5 : c0.awaiting = c.awaiting) :
    c0.appendNode k r =
      Res.mapOk (fun p => ({ c0 with doc := { c0.doc with nodes := p.1.doc.nodes },
                                     awaiting := p.1.awaiting }, p.2))
        (c.appendNode k r) := by
  unfold Ctx.appendNode
  rw [h1, h2, h3, h4, h5]
  by_cases hlim : c.doc.nodes.size ≥ c.nodesLimit
  · simp only [hlim, if_true]; rfl
  · simp only [hlim, if_false]
    apply PosIndep.bind_same
    intro newId
    generalize c.doc.nodes.push _ = nodes
    cases nodes[c.parentId]? with
    | none => rfl
    | some p =>
      cases nodes[newId]? with
      | none => rfl
      | some n =>
        dsimp only
        generalize nodes.setIfInBounds newId _ = nodes2
        cases nodes2[c.parentId]? with
        | none => rfl
        | some p2 =>
          dsimp only
          generalize Ctx.setNextSubtree _ _ _ = res
          cases res <;> rfl

theorem appendNode_shape {a a' : Ctx} {k : Kind} {r : Range} {id : Nat}
    (h : a.appendNode k r = .ok (a', id)) : a' = { a with doc := { a.doc with nodes := a'.doc.nodes }, awaiting := a'.awaiting } := by
  have := appendNode_transfer a a k r rfl rfl rfl rfl rfl
  rw [h] at this
  simp only [PosIndep.mapOk_ok, Res.ok.injEq, Prod.mk.injEq, and_true] at this
  exact this

theorem eg_log (c : Ctx) (e : Ev) : eg (c.log e) = eg c := rfl

theorem eg_fields {a b : Ctx} (hab : eg a = eg b) :
    a.doc = b.doc ∧ a.nodesLimit = b.nodesLimit ∧ a.positions = b.positions ∧
    a.parentId = b.parentId ∧ a.awaiting = b.awaiting ∧ a.afterText = b.afterText :=
  ⟨(congrArg Ctx.doc hab : (eg a).doc = (eg b).doc),
    (congrArg Ctx.nodesLimit hab : (eg a).nodesLimit = (eg b).nodesLimit),
    (congrArg Ctx.positions hab : (eg a).positions = (eg b).positions),
    (congrArg Ctx.parentId hab : (eg a).parentId = (eg b).parentId),
    (congrArg Ctx.awaiting hab : (eg a).awaiting = (eg b).awaiting),
    (congrArg Ctx.afterText hab : (eg a).afterText = (eg b).afterText)⟩

theorem appendNode_sim {a b a' : Ctx} {k : Kind} {r : Range} {id : Nat} (hab : eg a = eg b)
    (h : a.appendNode k r = .ok (a', id)) :
    ∃ b', b.appendNode k r = .ok (b', id) ∧ eg b' = eg a' := by
  obtain ⟨h1, h2, h3, h4, h5, _⟩ := eg_fields hab
  have hb := appendNode_transfer a b k r h1.symm h2.symm h3.symm h4.symm h5.symm
  rw [h] at hb
  refine ⟨_, hb, ?_⟩
  have hs := appendNode_shape h
  dsimp only
  rw [hs]
  show { eg b with doc := { b.doc with nodes := a'.doc.nodes }, awaiting := a'.awaiting } =
    { eg a with doc := { a.doc with nodes := a'.doc.nodes }, awaiting := a'.awaiting }
  rw [hab, h1]

theorem eg_afterText {a b : Ctx} (hab : eg a = eg b) : a.afterText = b.afterText :=
  (eg_fields hab).2.2.2.2.2

theorem appendText_sim {a b a' : Ctx} {f : Str} {r : Range} (hab : eg a = eg b)
    (h : a.appendText f r = .ok a') : ∃ b', b.appendText f r = .ok b' ∧ eg b' = eg a' := by
  unfold Ctx.appendText at h ⊢
  dsimp only at h ⊢
  have hat : (b.log (.textFragment f r)).afterText = (a.log (.textFragment f r)).afterText :=
    (eg_afterText hab).symm
  rw [hat]
  split at h
  · rename_i he
    rw [Res.bind_eq_ok] at h
    obtain ⟨⟨a1, id⟩, hn, h⟩ := h
    res_norm at h
    subst h
    obtain ⟨b1, hb1, e1⟩ := appendNode_sim (a := a.log (.textFragment f r))
      (b := b.log (.textFragment f r)) (by rw [eg_log, eg_log]; exact hab) hn
    simp only [he, if_true, hb1, Res.bind_ok, Res.pure_eq]
    refine ⟨_, rfl, ?_⟩
    show { eg b1 with afterText := (eg b1).afterText ++ [f] } =
      { eg a1 with afterText := (eg a1).afterText ++ [f] }
    rw [e1]
  · rename_i he
    res_norm at h
    subst h
    simp only [he, Res.pure_eq, Res.bind_ok]
    refine ⟨_, rfl, ?_⟩
    show { eg b with afterText := (eg b).afterText ++ [f] } =
      { eg a with afterText := (eg a).afterText ++ [f] }
    rw [hab]


/-- What `append_text` leaves alone. -/
structure Keeps (c c' : Ctx) : Prop where
  ld : c'.ld = c.ld
  ents : c'.entities = c.entities
  tag : c'.tagName = c.tagName
  fl : c'.entityFloor = c.entityFloor
  md : c'.maxDepth = c.maxDepth
  pp : c'.parentPrefixes = c.parentPrefixes
  pid : c'.parentId = c.parentId
  lim : c'.nodesLimit = c.nodesLimit
  cur : c'.curAttrs = c.curAttrs
  attrs : c'.doc.attrs = c.doc.attrs
  ns : c'.doc.ns = c.doc.ns

theorem Keeps.refl (c : Ctx) : Keeps c c := ⟨rfl, rfl, rfl, rfl, rfl, rfl, rfl, rfl, rfl, rfl, rfl⟩

theorem Keeps.trans {a b c : Ctx} (h1 : Keeps a b) (h2 : Keeps b c) : Keeps a c :=
  ⟨h2.ld.trans h1.ld, h2.ents.trans h1.ents, h2.tag.trans h1.tag, h2.fl.trans h1.fl,
    h2.md.trans h1.md, h2.pp.trans h1.pp, h2.pid.trans h1.pid, h2.lim.trans h1.lim,
    h2.cur.trans h1.cur, h2.attrs.trans h1.attrs, h2.ns.trans h1.ns⟩

/-- `append_text`, when it succeeds: the fragment is pending; the arena is untouched if a fragment
was pending already, and has received the text node of the run — by the one `append_node` —
otherwise. -/
theorem appendText_inv {c c' : Ctx} {f : Str} {r : Range} (h : c.appendText f r = .ok c') :
    Keeps c c' ∧ c'.afterText = c.afterText ++ [f] ∧
    (c.afterText ≠ [] → c'.doc = c.doc) ∧
    (c.afterText = [] → ∃ c1 id, (c.log (.textFragment f r)).appendNode (.text f) r = .ok (c1, id) ∧
      c'.doc = c1.doc) := by
  unfold Ctx.appendText at h
  dsimp only at h
  split at h
  · rename_i he
    rw [Res.bind_eq_ok] at h
    obtain ⟨⟨c1, id⟩, hn, h⟩ := h
    res_norm at h
    subst h
    have hs := appendNode_shape hn
    have hat : c.afterText = [] := by simpa [Ctx.log] using he
    refine ⟨?_, ?_, fun hne => absurd hat hne, fun _ => ⟨c1, id, hn, rfl⟩⟩
    · rw [hs]
      exact ⟨rfl, rfl, rfl, rfl, rfl, rfl, rfl, rfl, rfl, rfl, rfl⟩
    · rw [hs]; rfl
  · rename_i he
    res_norm at h
    subst h
    have hat : c.afterText ≠ [] := by simpa [Ctx.log] using he
    exact ⟨⟨rfl, rfl, rfl, rfl, rfl, rfl, rfl, rfl, rfl, rfl, rfl⟩, rfl, fun _ => rfl,
      fun h0 => absurd h0 hat⟩


/-! ### `append_text` of a list of fragments -/

theorem appendFrags_append (l1 l2 : List Frag) : ∀ c : Ctx,
    appendFrags c (l1 ++ l2) = appendFrags c l1 >>= fun c1 => appendFrags c1 l2 := by
  induction l1 with
  | nil => intro c; rfl
  | cons x l1 ih =>
    intro c
    obtain ⟨f, r⟩ := x
    simp only [List.cons_append, appendFrags]
    cases c.appendText f r with
    | ok c1 => simp only [Res.bind_ok]; exact ih c1
    | err e => rfl
    | panic e => rfl
    | fuel => rfl

theorem appendFrags_sim (fs : List Frag) : ∀ {a b a' : Ctx}, eg a = eg b →
    appendFrags a fs = .ok a' → ∃ b', appendFrags b fs = .ok b' ∧ eg b' = eg a' := by
  induction fs with
  | nil =>
    intro a b a' hab h
    simp only [appendFrags, Res.ok.injEq] at h
    subst h
    exact ⟨b, rfl, hab.symm⟩
  | cons x fs ih =>
    intro a b a' hab h
    obtain ⟨f, r⟩ := x
    simp only [appendFrags] at h ⊢
    rw [Res.bind_eq_ok] at h
    obtain ⟨a1, h1, h⟩ := h
    obtain ⟨b1, hb1, e1⟩ := appendText_sim hab h1
    obtain ⟨b', hb', e'⟩ := ih e1.symm h
    exact ⟨b', by rw [hb1]; exact hb', e'⟩

/-- What `append_text` of a list of fragments does, when it succeeds: the fragments are pending, in
order, after those that were; the arena has received at most one node — none if a fragment was
pending already or there is no fragment, and otherwise the text node of the run, by the one
`append_node` of the first fragment. -/
theorem appendFrags_inv (fs : List Frag) : ∀ {c c' : Ctx}, appendFrags c fs = .ok c' →
    Keeps c c' ∧ c'.afterText = c.afterText ++ fs.map (·.1) ∧
    (c.afterText ≠ [] ∨ fs = [] → c'.doc = c.doc) ∧
    (c.afterText = [] → ∀ f r rest, fs = (f, r) :: rest →
      ∃ c1 id, (c.log (.textFragment f r)).appendNode (.text f) r = .ok (c1, id) ∧ c'.doc = c1.doc) := by
  induction fs with
  | nil =>
    intro c c' h
    simp only [appendFrags, Res.ok.injEq] at h
    subst h
    exact ⟨Keeps.refl _, by simp, fun _ => rfl, fun _ f r rest h => by cases h⟩
  | cons x fs ih =>
    intro c c' h
    obtain ⟨f, r⟩ := x
    simp only [appendFrags] at h
    rw [Res.bind_eq_ok] at h
    obtain ⟨c1, h1, h⟩ := h
    obtain ⟨k1, a1, d1, n1⟩ := appendText_inv h1
    obtain ⟨k2, a2, d2, _⟩ := ih h
    have hne1 : c1.afterText ≠ [] := by rw [a1]; simp
    refine ⟨k1.trans k2, by rw [a2, a1]; simp, ?_, ?_⟩
    · intro hh
      rcases hh with hh | hh
      · rw [d2 (Or.inl hne1), d1 hh]
      · cases hh
    · intro h0 f' r' rest hfs
      simp only [List.cons.injEq, Prod.mk.injEq] at hfs
      obtain ⟨⟨rfl, rfl⟩, rfl⟩ := hfs
      obtain ⟨c2, id, hn, hd⟩ := n1 h0
      exact ⟨c2, id, hn, by rw [d2 (Or.inl hne1), hd]⟩

/-! ### The buffer at a flush -/

theorem lineEnds_ne_nil {t : Bytes} (h : t ≠ []) : lineEnds t ≠ [] := by
  intro h0
  unfold lineEnds at h0
  split at h0 <;> simp_all

theorem lineEnds_eq_nil_iff (t : Bytes) : lineEnds t = [] ↔ t = [] :=
  ⟨fun h => Classical.byContradiction fun hne => lineEnds_ne_nil hne h, fun h => by subst h; rfl⟩

/-- Flushing the buffer that has received a literal part (and nothing else) is `append_text` of
its §2.11 normalisation — nothing at all if the part is empty. -/
theorem flush_lit {c c' : Ctx} {t : Bytes} {r : Range}
    (h : flushBuffer c (TextBuffer.pushBytesText {} t) r = .ok c') :
    appendFrags c (litFrag r t) = .ok c' := by
  obtain ⟨hi, hc⟩ := pushLit_content t {} inv_empty
  have hc' : Props.C04.content (TextBuffer.pushBytesText {} t) = lineEnds t := by
    rw [hc]; simp [Props.C04.content, TextBuffer.resolvePendingCr]
  unfold flushBuffer at h
  by_cases ht : t = []
  · subst ht
    simp only [TextBuffer.pushBytesText, List.foldl, TextBuffer.isEmpty, List.isEmpty_nil,
      Bool.not_true, Bool.false_eq_true, if_false, Res.ok.injEq] at h
    subst h
    simp [litFrag, appendFrags]
  · have hne : (TextBuffer.pushBytesText {} t).isEmpty = false := by
      cases hb : (TextBuffer.pushBytesText {} t).isEmpty with
      | false => rfl
      | true =>
        exfalso
        apply lineEnds_ne_nil ht
        rw [← hc']
        simp only [TextBuffer.isEmpty, List.isEmpty_iff] at hb
        unfold Props.C04.content TextBuffer.resolvePendingCr
        rw [hb]
        split <;> simp [hb]
    simp only [hne, Bool.not_false, if_true] at h
    rw [Res.bind_eq_ok] at h
    obtain ⟨out, hfin, h⟩ := h
    have ho := finish_content _ _ hfin
    rw [hc'] at ho
    subst ho
    simp [litFrag, ht, appendFrags, h]

section loop
variable (T : Tables) (txt : Bytes)

/-- The chunk loop on a literal part that ends the stream. -/
theorem ptl_lit_end (lower : Token → Ctx → Res Ctx) (range : Range) (c : Ctx) (lit : Bytes)
    (res : TextBuffer × Ctx) (fuel pos : Nat) (buf : TextBuffer) (hl : ∀ x ∈ lit, x ≠ bAmp)
    (h : processTextLoop T txt lower range fuel ⟨pos, lit⟩ buf c = .ok res) :
    res = (buf.pushBytesText lit, c) := by
  have h' : processTextLoop T txt lower range fuel ⟨pos, lit ++ []⟩ buf c = .ok res := by
    rw [List.append_nil]; exact h
  obtain ⟨fuel2, h2⟩ := processTextLoop_lit T txt lower range c [] res lit fuel pos buf hl h'
  cases fuel2 with
  | zero => simp [processTextLoop] at h2
  | succ f =>
    rw [processTextLoop] at h2
    simp only [Stream.atEnd, List.isEmpty_nil, if_true, Res.ok.injEq] at h2
    exact h2.symm

/-- The builder one level down on the text token of a plain replacement text. -/
theorem lower_value (lower2 : Token → Ctx → Res Ctx) {c c3 : Ctx} {e : Entity}
    (hv : litOk e.value.bytes)
    (hsl : e.value.bytes = sliceBytes txt e.value.off (e.value.off + e.value.bytes.length))
    (hne : e.value.bytes ≠ [])
    (h : tokenStep T txt lower2
      (.text e.value (e.value.off, e.value.off + e.value.bytes.length)) c = .ok c3) :
    appendFrags (c.log (.token (.text e.value (e.value.off, e.value.off + e.value.bytes.length))))
      (entFrag e) = .ok c3 := by
  unfold tokenStep at h
  dsimp only at h
  unfold processText at h
  have hamp : ∀ x ∈ e.value.bytes, x ≠ bAmp := fun x hx => (hv x hx).1
  by_cases hcr : e.value.bytes.contains bCR = true
  · have hany : e.value.bytes.any (fun b => b == bAmp || b == bCR) = true := by
      rw [List.any_eq_true]
      rw [List.contains_iff_mem] at hcr
      exact ⟨bCR, hcr, by simp⟩
    simp only [hany, Bool.not_true, Bool.false_eq_true, if_false, Stream.ofRange] at h
    rw [← hsl, Res.bind_eq_ok] at h
    obtain ⟨⟨buf, c1⟩, hloop, hfl⟩ := h
    have := ptl_lit_end T txt _ _ _ _ _ _ _ _ hamp hloop
    simp only [Prod.mk.injEq] at this
    obtain ⟨rfl, rfl⟩ := this
    have := flush_lit hfl
    rw [List.contains_iff_mem] at hcr
    simpa [entFrag, litFrag, hne, hcr] using this
  · have hany : e.value.bytes.any (fun b => b == bAmp || b == bCR) = false := by
      rw [List.any_eq_false]
      intro x hx
      have h1 : (x == bAmp) = false := by simpa using hamp x hx
      have h2 : (x == bCR) = false := by
        rw [beq_eq_false_iff_ne]
        intro h0
        subst h0
        exact hcr (List.contains_iff_mem.mpr hx)
      simp [h1, h2]
    simp only [hany, Bool.not_false, if_true] at h
    rw [List.contains_iff_mem] at hcr
    simp [entFrag, hne, hcr, appendFrags, h]

/-- The context in which the replacement text is processed. -/
def enter (c : Ctx) : Ctx :=
  let c1 := { c with ld := c.ld }.log (.loop 0 true c.ld.depth c.ld.refs)
  let ld2 : LD := { c.ld with depth := c.ld.depth + 1 }
  let c2 := { c1 with ld := ld2 }.log (.loop 1 true ld2.depth ld2.refs)
  { c2 with tagName := {}, entityFloor := c2.parentPrefixes.length,
            maxDepth := max c2.maxDepth ld2.depth }

/-- The context after the replacement text has been processed (`c3`), back at the reference. -/
def leave (c c3 : Ctx) : Ctx :=
  let c4 := { c3 with entityFloor := c.entityFloor, tagName := c.tagName }
  let ld3 := c4.ld.decDepth
  { c4 with ld := ld3 }.log (.loop 2 true ld3.depth ld3.refs)

theorem parseNextChunk_ref (ents : List Entity) (p : Nat) (R : Bytes) (s' : Stream) (n : Span)
    (e : Entity)
    (hcr : (Stream.mk p (bAmp :: R)).consumeReference T txt = .ok (s', some (.entity n)))
    (he : findEntity ents n.bytes = some e) :
    parseNextChunk T txt ents ⟨p, bAmp :: R⟩ = .ok (s', .text e.value) := by
  unfold parseNextChunk
  have h : (bAmp == bAmp) = true := by decide
  simp only [h, if_true, hcr, Res.bind_ok, he, Res.pure_eq]

/-- The chunk loop at a reference to a declared entity, entity depth 0: flush, enter, the tokens
of the replacement text, leave, go on with an empty buffer. -/
theorem ptl_ref (lower : Token → Ctx → Res Ctx) (range : Range) (f p : Nat) (R : Bytes)
    (buf : TextBuffer) (c c1 : Ctx) (s' : Stream) (n : Span) (e : Entity) (toks : List Token)
    (st : Stream)
    (hcr : (Stream.mk p (bAmp :: R)).consumeReference T txt = .ok (s', some (.entity n)))
    (he : findEntity c.entities n.bytes = some e)
    (hfl : flushBuffer c buf range = .ok c1) (hld : c1.ld.depth = 0)
    (htc : tokenizeContent T txt e.value.off e.value.stop = (toks, .ok st)) :
    processTextLoop T txt lower range (f + 1) ⟨p, bAmp :: R⟩ buf c =
      (runTokens lower toks (.ok st) (enter c1) >>= fun c3 =>
        if c3.parentPrefixes.length != c3.entityFloor then .err .unexpectedEndOfStream
        else processTextLoop T txt lower range f s' {} (leave c1 c3)) := by
  have h1 : c1.ld.incRefs = some c1.ld := by simp [LD.incRefs, hld]
  have h2 : c1.ld.incDepth = some { c1.ld with depth := c1.ld.depth + 1 } := by
    simp [LD.incDepth, hld]
  rw [processTextLoop]
  simp only [Stream.atEnd, List.isEmpty_cons, Bool.false_eq_true, if_false,
    parseNextChunk_ref T txt c.entities p R s' n e hcr he, Res.bind_ok, hfl, h1]
  dsimp only [Ctx.log]
  simp only [h2, htc]
  rfl

theorem litFrag_keeps {c c' : Ctx} {r : Range} {t : Bytes}
    (h : appendFrags c (litFrag r t) = .ok c') : Keeps c c' := (appendFrags_inv _ h).1

/-- **The chunk loop and the final flush on `q &n1; t1 … &nk; tk`** (positioned at the beginning
of the literal part `q`, with an empty buffer, at entity depth 0): if they succeed, what they did is
`append_text` of the fragments, up to the ghost part of the context, which is at rest. -/
theorem ptl_segs (lower2 : Token → Ctx → Res Ctx) (range : Range) :
    ∀ (segs : List Seg) (pos fuel : Nat) (q : Bytes) (c cF cf : Ctx) (bufF : TextBuffer),
      c.ld.depth = 0 → litOk q → SegsOk c.entities segs → RefsOk T txt (pos + q.length) segs →
      ValsOk T txt segs →
      processTextLoop T txt (tokenStep T txt lower2) range fuel ⟨pos, q ++ valueTail segs⟩ {} c =
        .ok (bufF, cF) →
      flushBuffer cF bufF range = .ok cf →
      ∃ c'', appendFrags c (litFrag range q ++ fragsTail range segs) = .ok c'' ∧ eg cf = eg c'' ∧
        cf.ld = (if segs = [] then c.ld else ⟨0, 0⟩) ∧ cf.tagName = c.tagName ∧
        cf.entityFloor = c.entityFloor ∧
        cf.maxDepth = (if segs = [] then c.maxDepth else max c.maxDepth 1) := by
  intro segs
  induction segs with
  | nil =>
    intro pos fuel q c cF cf bufF _ hq _ _ _ hloop hfl
    simp only [valueTail, List.append_nil] at hloop
    have := ptl_lit_end T txt _ _ _ _ _ _ _ _ (fun x hx => (hq x hx).1) hloop
    simp only [Prod.mk.injEq] at this
    obtain ⟨rfl, rfl⟩ := this
    have ha := flush_lit hfl
    have hk := litFrag_keeps ha
    exact ⟨cf, by simpa [fragsTail] using ha, rfl, by simp [hk.ld], hk.tag, hk.fl, by simp [hk.md]⟩
  | cons s segs ih =>
    obtain ⟨n, e, q'⟩ := s
    intro pos fuel q c cF cf bufF hd hq hs hr hvs hloop hfl
    obtain ⟨hfind, hv, hq'⟩ := hs (n, e, q') (by simp)
    have hs' : SegsOk c.entities segs := fun x hx => hs x (by simp [hx])
    obtain ⟨hsl, st, htc⟩ := hvs (n, e, q') (by simp)
    have hvs' : ValsOk T txt segs := fun x hx => hvs x (by simp [hx])
    obtain ⟨hcr, hr'⟩ := hr
    dsimp only at hfind hv hq' hsl htc
    have hvt : valueTail ((n, e, q') :: segs) = bAmp :: (n.bytes ++ (bSemi :: (q' ++ valueTail segs))) := by
      simp [valueTail]
    have hcr' : (Stream.mk (pos + q.length) (bAmp :: (n.bytes ++ (bSemi :: (q' ++ valueTail segs))))).consumeReference
        T txt = .ok (⟨pos + q.length + n.bytes.length + 2, q' ++ valueTail segs⟩, some (.entity n)) := by
      have : bAmp :: (n.bytes ++ (bSemi :: (q' ++ valueTail segs))) =
          [bAmp] ++ n.bytes ++ [bSemi] ++ q' ++ valueTail segs := by simp
      rw [this]; exact hcr
    rw [hvt] at hloop
    obtain ⟨fuel1, h1⟩ := processTextLoop_lit T txt _ range c _ _ q fuel pos {}
      (fun x hx => (hq x hx).1) hloop
    cases fuel1 with
    | zero => simp [processTextLoop] at h1
    | succ f1 =>
      -- the flush before the reference
      cases hfl1 : flushBuffer c (TextBuffer.pushBytesText {} q) range with
      | ok c1 =>
        have ha1 := flush_lit hfl1
        have hk1 := litFrag_keeps ha1
        have hld1 : c1.ld.depth = 0 := by rw [hk1.ld]; exact hd
        rw [ptl_ref T txt _ range f1 _ _ _ c c1 _ n e _ st hcr' hfind hfl1 hld1 htc,
          Res.bind_eq_ok] at h1
        obtain ⟨c3, hrun, h1⟩ := h1
        split at h1
        · simp at h1
        · -- the replacement text
          have hB : ∃ cE, eg cE = eg c1 ∧ cE.ld = (enter c1).ld ∧ cE.maxDepth = (enter c1).maxDepth ∧
              cE.entities = c1.entities ∧ appendFrags cE (entFrag e) = .ok c3 := by
            by_cases hve : e.value.bytes = []
            · simp only [hve, if_true] at hrun
              simp only [runTokens, feed, Res.ok.injEq] at hrun
              subst hrun
              exact ⟨enter c1, rfl, rfl, rfl, rfl, by simp [entFrag, hve, appendFrags]⟩
            · simp only [hve, if_false] at hrun
              have hstep : tokenStep T txt lower2
                  (.text e.value (e.value.off, e.value.off + e.value.bytes.length)) (enter c1) = .ok c3 := by
                unfold runTokens feed at hrun
                cases hst : tokenStep T txt lower2
                    (.text e.value (e.value.off, e.value.off + e.value.bytes.length)) (enter c1) with
                | ok c3' =>
                  rw [hst] at hrun
                  simp only [feed, Res.ok.injEq] at hrun
                  rw [hrun]
                | err x => rw [hst] at hrun; simp at hrun
                | panic x => rw [hst] at hrun; simp at hrun
                | fuel => rw [hst] at hrun; simp at hrun
              exact ⟨(enter c1).log (.token (.text e.value
                  (e.value.off, e.value.off + e.value.bytes.length))), rfl, rfl, rfl, rfl,
                lower_value T txt lower2 hv hsl hve hstep⟩
          obtain ⟨cE, hE1, hE2, hE3, hE4, hB⟩ := hB
          have hk3 := (appendFrags_inv _ hB).1
          have hld3 : c3.ld = ⟨1, c1.ld.refs⟩ := by
            rw [hk3.ld, hE2]
            show ({ c1.ld with depth := c1.ld.depth + 1 } : LD) = _
            rw [hld1]
          have hldL : (leave c1 c3).ld = ⟨0, 0⟩ := by
            show c3.ld.decDepth = _
            rw [hld3]; rfl
          have hentL : (leave c1 c3).entities = c.entities := by
            show c3.entities = _
            rw [hk3.ents, hE4, hk1.ents]
          obtain ⟨c'', hC, hegC, hldC, htagC, hflC, hmdC⟩ := ih _ f1 q' (leave c1 c3) cF cf bufF
            (by rw [hldL]) hq' (by rw [hentL]; exact hs') hr' hvs' h1 hfl
          -- the three stretches, one after the other
          obtain ⟨d3, hD3, heD3⟩ := appendFrags_sim _ hE1 hB
          have hL : eg (leave c1 c3) = eg d3 := by
            rw [heD3]; rfl
          obtain ⟨d'', hD'', heD''⟩ := appendFrags_sim _ hL hC
          refine ⟨d'', ?_, by rw [hegC, heD''], ?_, ?_, ?_, ?_⟩
          · simp only [fragsTail, List.append_assoc]
            rw [appendFrags_append, ha1, Res.bind_ok, appendFrags_append, hD3, Res.bind_ok]
            exact hD''
          · rw [hldC, hldL]; simp
          · rw [htagC]; exact hk1.tag
          · rw [hflC]; exact hk1.fl
          · have hmdL : (leave c1 c3).maxDepth = max c.maxDepth 1 := by
              show c3.maxDepth = _
              rw [hk3.md, hE3]
              show max c1.maxDepth (c1.ld.depth + 1) = _
              rw [hk1.md, hld1]
            rw [hmdC, hmdL]
            by_cases hsg : segs = []
            · simp [hsg]
            · simp only [hsg, if_false, List.cons_ne_nil]
              omega
      | err x =>
        rw [processTextLoop] at h1
        simp only [Stream.atEnd, List.isEmpty_cons, Bool.false_eq_true, if_false,
          parseNextChunk_ref T txt c.entities _ _ _ n e hcr' hfind, Res.bind_ok, hfl1] at h1
        simp at h1
      | panic x =>
        rw [processTextLoop] at h1
        simp only [Stream.atEnd, List.isEmpty_cons, Bool.false_eq_true, if_false,
          parseNextChunk_ref T txt c.entities _ _ _ n e hcr' hfind, Res.bind_ok, hfl1] at h1
        simp at h1
      | fuel =>
        rw [processTextLoop] at h1
        simp only [Stream.atEnd, List.isEmpty_cons, Bool.false_eq_true, if_false,
          parseNextChunk_ref T txt c.entities _ _ _ n e hcr' hfind, Res.bind_ok, hfl1] at h1
        simp at h1

end loop

/-! ### The bytes of the fragments -/

theorem litFrag_bytes (r : Range) (t : Bytes) :
    ((litFrag r t).map (·.1.bytes)).flatten = lineEnds t := by
  by_cases ht : t = []
  · subst ht; simp [litFrag, lineEnds]
  · simp [litFrag, ht, Str.bytes]

theorem entFrag_bytes (e : Entity) :
    ((entFrag e).map (·.1.bytes)).flatten = lineEnds e.value.bytes := by
  unfold entFrag
  by_cases hv : e.value.bytes = []
  · simp [hv, lineEnds]
  · by_cases hcr : e.value.bytes.contains bCR = true
    · simp only [hv, hcr, if_false, if_true]
      simp [Str.bytes]
    · simp only [hv, hcr, if_false, Bool.false_eq_true]
      rw [List.contains_iff_mem] at hcr
      simp [Str.bytes, lineEnds_no_cr _ hcr]

theorem fragsTail_bytes (r : Range) : ∀ segs : List Seg,
    ((fragsTail r segs).map (·.1.bytes)).flatten = expectedTextTail segs
  | [] => rfl
  | (_, e, q) :: segs => by
    simp only [fragsTail, expectedTextTail, List.map_append, List.flatten_append, litFrag_bytes,
      entFrag_bytes, fragsTail_bytes r segs]

/-- The fragments, joined (as `merge_text` joins them), are the expected text. -/
theorem frags_bytes (r : Range) (t0 : Bytes) (segs : List Seg) :
    ((frags r t0 segs).map (·.1.bytes)).flatten = expectedText t0 segs := by
  simp only [frags, expectedText, List.map_append, List.flatten_append, litFrag_bytes,
    fragsTail_bytes]

/-- The fragments for every `k ≥ 0`: a token without `&` and without CR takes the fast path and
is appended as it is, borrowed. -/
def fragsAll (text : Span) (range : Range) (t0 : Bytes) (segs : List Seg) : List Frag :=
  if segs = [] ∧ t0.contains bCR = false then [(.borrowed text, range)] else frags range t0 segs

theorem fragsAll_bytes (text : Span) (r : Range) (t0 : Bytes) (segs : List Seg)
    (hval : text.bytes = valueOf t0 segs) :
    ((fragsAll text r t0 segs).map (·.1.bytes)).flatten = expectedText t0 segs := by
  unfold fragsAll
  split
  · rename_i h
    obtain ⟨rfl, hcr⟩ := h
    have hcr' : ¬ (13 : UInt8) ∈ t0 := by
      intro hm
      have : t0.contains bCR = true := List.contains_iff_mem.mpr hm
      rw [hcr] at this
      cases this
    simp [Str.bytes, hval, valueOf, valueTail, expectedText, expectedTextTail, lineEnds_no_cr _ hcr']
  · exact frags_bytes r t0 segs

theorem eq_of_eg {a b : Ctx} (h : eg a = eg b) (h1 : a.tagName = b.tagName)
    (h2 : a.entityFloor = b.entityFloor) :
    a = { b with trace := a.trace, ld := a.ld, maxDepth := a.maxDepth } := by
  cases a
  cases b
  simp only [eg, Ctx.mk.injEq] at h
  simp only [Ctx.mk.injEq] at h1 h2 ⊢
  simp_all

end TextEnt

open TextEnt

/-- **Any number of entity references in character data, entity depth 0** — `text_run_decoded`
for runs with references.  The text token is `t0 &n1; t1 … &nk; tk` with `k ≥ 0`; every `ti` is
plain character data (no `&`, no `<`; CR and LF allowed); every `ni` is declared, with plain
replacement text; every reference is recognised by `consume_reference` at its position (`hcr`) and
the tokenizer yields one text token — or nothing — on every replacement text (`hvs`).  If
`process_text` succeeds, then what it did is `append_text` of the fragments — the §2.11
normalisation of every non-empty part, each part on its own, in order —, and nothing else: the
resulting context is the one after these `append_text`s, up to the ghost trace, with the loop
detector at rest (untouched if there was no reference). -/
theorem processText_entities_all (T : Tables) (txt : Bytes) (lower2 : Token → Ctx → Res Ctx)
    (c c' : Ctx) (text : Span) (range : Range) (t0 : Bytes) (segs : List Seg)
    (hr : range = (text.off, text.off + text.bytes.length))
    (hs : text.bytes = sliceBytes txt text.off (text.off + text.bytes.length))
    (hd : c.ld.depth = 0)
    (hval : text.bytes = valueOf t0 segs)
    (hp : litOk t0) (hsegs : SegsOk c.entities segs)
    (hcr : RefsOk T txt (text.off + t0.length) segs)
    (hvs : ValsOk T txt segs)
    (h : processText T txt (tokenStep T txt lower2) c text range = .ok c') :
    ∃ c'', appendFrags c (fragsAll text range t0 segs) = .ok c'' ∧
      c' = { c'' with trace := c'.trace,
                      ld := (if segs = [] then c.ld else ⟨0, 0⟩),
                      maxDepth := (if segs = [] then c.maxDepth else max c.maxDepth 1) } := by
  unfold processText at h
  by_cases hany : text.bytes.any (fun b => b == bAmp || b == bCR) = true
  · -- the chunk loop
    have hfa : fragsAll text range t0 segs = litFrag range t0 ++ fragsTail range segs := by
      unfold fragsAll
      split
      · rename_i h0
        obtain ⟨rfl, hc0⟩ := h0
        exfalso
        rw [hval, List.any_eq_true] at hany
        obtain ⟨x, hx, hx'⟩ := hany
        simp only [valueOf, valueTail, List.append_nil] at hx
        rcases Bool.or_eq_true _ _ ▸ hx' with h1 | h1
        · exact (hp x hx).1 (by simpa using h1)
        · have : x = bCR := by simpa using h1
          subst this
          have : t0.contains bCR = true := List.contains_iff_mem.mpr hx
          rw [hc0] at this
          cases this
      · rfl
    simp only [hany, Bool.not_true, Bool.false_eq_true, if_false] at h
    have hstream : Stream.ofRange txt range.1 range.2 = ⟨text.off, text.bytes⟩ := by
      rw [hr]; simp only [Stream.ofRange]; rw [← hs]
    rw [hstream, Res.bind_eq_ok] at h
    obtain ⟨⟨bufF, cF⟩, hloop, hflush⟩ := h
    rw [hval, valueOf] at hloop
    obtain ⟨c'', hA, hE, hld, htag, hfl, hmd⟩ := ptl_segs T txt lower2 range segs text.off _ t0 c cF c'
      bufF hd hp hsegs hcr hvs hloop hflush
    have hk := (appendFrags_inv _ hA).1
    refine ⟨c'', by rw [hfa]; exact hA, ?_⟩
    have := eq_of_eg hE (by rw [htag, hk.tag]) (by rw [hfl, hk.fl])
    rw [hld, hmd] at this
    exact this
  · -- the fast path
    have hany' : text.bytes.any (fun b => b == bAmp || b == bCR) = false := by
      simpa using hany
    simp only [hany', Bool.not_false, if_true] at h
    rw [List.any_eq_false] at hany'
    have hsg : segs = [] := by
      cases segs with
      | nil => rfl
      | cons s segs =>
        obtain ⟨n, e, q⟩ := s
        exfalso
        have := hany' bAmp (by rw [hval]; simp [valueOf, valueTail])
        simp at this
    subst hsg
    have hc0 : t0.contains bCR = false := by
      cases hcc : t0.contains bCR with
      | false => rfl
      | true =>
        exfalso
        have := hany' bCR (by rw [hval]; simpa [valueOf, valueTail] using List.contains_iff_mem.mp hcc)
        simp at this
    have hk := (appendText_inv h).1
    refine ⟨c', ?_, ?_⟩
    · unfold fragsAll
      simp only [hc0, and_self, if_true, appendFrags, h, Res.bind_ok]
    · simp only [if_true]
      have := eq_of_eg (a := c') (b := c') rfl rfl rfl
      rw [hk.ld, hk.md] at this
      exact this

/-- The same for the builder itself (`<Context as XmlEvents>::token` on the text token, with at
least one level of entity re-entry available): it logs the token and does the `append_text`s. -/
theorem token_text_entities (T : Tables) (txt : Bytes) (d : Nat)
    (c c' : Ctx) (text : Span) (range : Range) (t0 : Bytes) (segs : List Seg)
    (hr : range = (text.off, text.off + text.bytes.length))
    (hs : text.bytes = sliceBytes txt text.off (text.off + text.bytes.length))
    (hd : c.ld.depth = 0)
    (hval : text.bytes = valueOf t0 segs)
    (hp : litOk t0) (hsegs : SegsOk c.entities segs)
    (hcr : RefsOk T txt (text.off + t0.length) segs)
    (hvs : ValsOk T txt segs)
    (h : token T txt (d + 2) (.text text range) c = .ok c') :
    ∃ c'', appendFrags (c.log (.token (.text text range))) (fragsAll text range t0 segs) = .ok c'' ∧
      c' = { c'' with trace := c'.trace,
                      ld := (if segs = [] then c.ld else ⟨0, 0⟩),
                      maxDepth := (if segs = [] then c.maxDepth else max c.maxDepth 1) } :=
  processText_entities_all T txt (token T txt d) (c.log (.token (.text text range))) c' text range t0
    segs hr hs hd hval hp hsegs hcr hvs h

/-- **The same for `k ≥ 1`**: the fragments are those of the `2k + 1` parts, the loop detector is
at rest. -/
theorem processText_entities (T : Tables) (txt : Bytes) (lower2 : Token → Ctx → Res Ctx)
    (c c' : Ctx) (text : Span) (range : Range) (t0 : Bytes) (segs : List Seg)
    (hr : range = (text.off, text.off + text.bytes.length))
    (hs : text.bytes = sliceBytes txt text.off (text.off + text.bytes.length))
    (hd : c.ld.depth = 0)
    (hk : segs ≠ [])
    (hval : text.bytes = valueOf t0 segs)
    (hp : litOk t0) (hsegs : SegsOk c.entities segs)
    (hcr : RefsOk T txt (text.off + t0.length) segs)
    (hvs : ValsOk T txt segs)
    (h : processText T txt (tokenStep T txt lower2) c text range = .ok c') :
    ∃ c'', appendFrags c (frags range t0 segs) = .ok c'' ∧
      c' = { c'' with trace := c'.trace, ld := ⟨0, 0⟩, maxDepth := max c.maxDepth 1 } := by
  obtain ⟨c'', hA, hc'⟩ := processText_entities_all T txt lower2 c c' text range t0 segs hr hs hd hval
    hp hsegs hcr hvs h
  refine ⟨c'', ?_, ?_⟩
  · simpa [fragsAll, hk] using hA
  · simpa [hk] using hc'

/-- **Read on the fields of the context** (`k ≥ 0`): after a successful `process_text`
* the pending text has received the fragments, whose concatenation — what `merge_text` will store
  in the text node of the run — is
  `lineEnds t0 ++ lineEnds e1.value ++ lineEnds t1 ++ … ++ lineEnds ek.value ++ lineEnds tk`;
* the loop detector is at rest (untouched if there was no reference), the entity table is
  unchanged;
* no node has been created other than, at most, the one text node of the run: none at all if text
  was pending already (the run goes on), and attributes, namespaces, the current parent, the open
  prefixes, the tag name and the entity floor are as they were. -/
theorem processText_entities_fields (T : Tables) (txt : Bytes) (lower2 : Token → Ctx → Res Ctx)
    (c c' : Ctx) (text : Span) (range : Range) (t0 : Bytes) (segs : List Seg)
    (hr : range = (text.off, text.off + text.bytes.length))
    (hs : text.bytes = sliceBytes txt text.off (text.off + text.bytes.length))
    (hd : c.ld.depth = 0)
    (hval : text.bytes = valueOf t0 segs)
    (hp : litOk t0) (hsegs : SegsOk c.entities segs)
    (hcr : RefsOk T txt (text.off + t0.length) segs)
    (hvs : ValsOk T txt segs)
    (h : processText T txt (tokenStep T txt lower2) c text range = .ok c') :
    c'.afterText = c.afterText ++ (fragsAll text range t0 segs).map (·.1) ∧
    (c'.afterText.map (·.bytes)).flatten =
      (c.afterText.map (·.bytes)).flatten ++ expectedText t0 segs ∧
    c'.ld = (if segs = [] then c.ld else ⟨0, 0⟩) ∧
    c'.entities = c.entities ∧
    c.doc.nodes.size ≤ c'.doc.nodes.size ∧ c'.doc.nodes.size ≤ c.doc.nodes.size + 1 ∧
    (c.afterText ≠ [] → c'.doc = c.doc) ∧
    c'.doc.attrs = c.doc.attrs ∧ c'.doc.ns = c.doc.ns ∧ c'.parentId = c.parentId ∧
    c'.parentPrefixes = c.parentPrefixes ∧ c'.tagName = c.tagName ∧
    c'.entityFloor = c.entityFloor := by
  obtain ⟨c'', hA, hc'⟩ := processText_entities_all T txt lower2 c c' text range t0 segs hr hs hd hval
    hp hsegs hcr hvs h
  obtain ⟨hk, hat, hdoc, hnode⟩ := appendFrags_inv _ hA
  have e1 : c'.afterText = c''.afterText := by have := congrArg Ctx.afterText hc'; exact this
  have e2 : c'.doc = c''.doc := by have := congrArg Ctx.doc hc'; exact this
  have e3 : c'.ld = (if segs = [] then c.ld else ⟨0, 0⟩) := by
    have := congrArg Ctx.ld hc'; exact this
  have e4 : c'.entities = c''.entities := by have := congrArg Ctx.entities hc'; exact this
  have e5 : c'.parentId = c''.parentId := by have := congrArg Ctx.parentId hc'; exact this
  have e6 : c'.parentPrefixes = c''.parentPrefixes := by
    have := congrArg Ctx.parentPrefixes hc'; exact this
  have e7 : c'.tagName = c''.tagName := by have := congrArg Ctx.tagName hc'; exact this
  have e8 : c'.entityFloor = c''.entityFloor := by have := congrArg Ctx.entityFloor hc'; exact this
  have hsz : c.doc.nodes.size ≤ c''.doc.nodes.size ∧ c''.doc.nodes.size ≤ c.doc.nodes.size + 1 := by
    by_cases h0 : c.afterText ≠ [] ∨ fragsAll text range t0 segs = []
    · rw [hdoc h0]; omega
    · have h1 : c.afterText = [] := Classical.byContradiction fun hh => h0 (Or.inl hh)
      cases hfs : fragsAll text range t0 segs with
      | nil => exact absurd (Or.inr hfs) h0
      | cons x rest =>
        obtain ⟨f, r⟩ := x
        obtain ⟨c1, id, hn, hd1⟩ := hnode h1 f r rest hfs
        have := (appendNode_size _ _ _ _ _ hn).2.1
        rw [hd1, this]
        show c.doc.nodes.size ≤ c.doc.nodes.size + 1 ∧ _
        exact ⟨by omega, Nat.le_refl _⟩
  refine ⟨by rw [e1, hat], ?_, e3, e4.trans hk.ents, by rw [e2]; exact hsz.1,
    by rw [e2]; exact hsz.2, fun hne => by rw [e2]; exact hdoc (Or.inl hne), by rw [e2]; exact hk.attrs,
    by rw [e2]; exact hk.ns, e5.trans hk.pid, e6.trans hk.pp, e7.trans hk.tag, e8.trans hk.fl⟩
  rw [e1, hat]
  simp only [List.map_append, List.flatten_append, List.map_map]
  rw [← fragsAll_bytes text range t0 segs hval]
  rfl

/-- **The node finally produced** (`k ≥ 0`): if no text was pending before the token and the
expected text is not empty, then, when the run ends (`reset_after_text`, called by the next markup
token), the arena has exactly one node more than before the token, and that node is a text node
holding `lineEnds t0 ++ lineEnds e1.value ++ lineEnds t1 ++ … ++ lineEnds ek.value ++ lineEnds tk`. -/
theorem processText_entities_node (T : Tables) (txt : Bytes) (lower2 : Token → Ctx → Res Ctx)
    (c c' c0 : Ctx) (text : Span) (range : Range) (t0 : Bytes) (segs : List Seg)
    (hr : range = (text.off, text.off + text.bytes.length))
    (hs : text.bytes = sliceBytes txt text.off (text.off + text.bytes.length))
    (hd : c.ld.depth = 0)
    (hval : text.bytes = valueOf t0 segs)
    (hp : litOk t0) (hsegs : SegsOk c.entities segs)
    (hcr : RefsOk T txt (text.off + t0.length) segs)
    (hvs : ValsOk T txt segs)
    (hat : c.afterText = []) (hne : expectedText t0 segs ≠ [])
    (h : processText T txt (tokenStep T txt lower2) c text range = .ok c')
    (hreset : c'.resetAfterText = .ok c0) :
    c0.afterText = [] ∧ c0.doc.nodes.size = c.doc.nodes.size + 1 ∧
    ∃ n X, c0.doc.nodes[c.doc.nodes.size]? = some n ∧ n.kind = .text X ∧
      X.bytes = expectedText t0 segs := by
  obtain ⟨c'', hA, hc'⟩ := processText_entities_all T txt lower2 c c' text range t0 segs hr hs hd hval
    hp hsegs hcr hvs h
  obtain ⟨hk, hat'', hdoc, hnode⟩ := appendFrags_inv _ hA
  have e1 : c'.afterText = c''.afterText := by have := congrArg Ctx.afterText hc'; exact this
  have e2 : c'.doc = c''.doc := by have := congrArg Ctx.doc hc'; exact this
  have hbytes := fragsAll_bytes text range t0 segs hval
  cases hfs : fragsAll text range t0 segs with
  | nil => rw [hfs] at hbytes; exact absurd hbytes.symm hne
  | cons x rest =>
    obtain ⟨f, r⟩ := x
    obtain ⟨c1, id, hn, hd1⟩ := hnode hat f r rest hfs
    have hsz1 := (appendNode_size _ _ _ _ _ hn).2.1
    have hkinds := (appendNode_kinds hn).1
    have hsz : c'.doc.nodes.size = c.doc.nodes.size + 1 := by rw [e2, hd1, hsz1]; rfl
    have haft : c'.afterText = f :: rest.map (·.1) := by
      rw [e1, hat'', hat, hfs]; rfl
    have hjoin : (c'.afterText.map (·.bytes)).flatten = expectedText t0 segs := by
      rw [← hbytes, haft, hfs]
      simp [List.map_map, Function.comp_def]
    have hlast : ∃ n, c'.doc.nodes[c.doc.nodes.size]? = some n ∧ n.kind = .text f := by
      rw [e2, hd1]
      have hlen : c.doc.nodes.size < c1.doc.nodes.size := by rw [hsz1]; exact Nat.lt_succ_self _
      refine ⟨c1.doc.nodes[c.doc.nodes.size], by simp [hlen], ?_⟩
      have : (kinds c1.doc.nodes)[c.doc.nodes.size]? = some (.text f) := by
        rw [hkinds]
        have : (kinds (c.log (.textFragment f r)).doc.nodes).length = c.doc.nodes.size := by
          simp [kinds, Ctx.log]
        rw [List.getElem?_append_right (by rw [this]; exact Nat.le_refl _), this]
        simp
      simp only [kinds, List.getElem?_map, Array.getElem?_toList, Option.map_eq_some_iff] at this
      obtain ⟨n, hn1, hn2⟩ := this
      have : c1.doc.nodes[c.doc.nodes.size] = n := by
        have h0 : c1.doc.nodes[c.doc.nodes.size]? = some c1.doc.nodes[c.doc.nodes.size] := by
          simp [hlen]
        rw [h0] at hn1
        exact Option.some.inj hn1
      rw [this]; exact hn2
    obtain ⟨nl, hnl, hknl⟩ := hlast
    unfold Ctx.resetAfterText at hreset
    have hemp : c'.afterText.isEmpty = false := by rw [haft]; rfl
    simp only [hemp, Bool.false_eq_true, if_false] at hreset
    split at hreset
    · -- several fragments: `merge_text`
      rw [Res.bind_eq_ok] at hreset
      obtain ⟨cm, hm, hreset⟩ := hreset
      res_norm at hreset
      subst hreset
      refine ⟨rfl, ?_⟩
      unfold Ctx.mergeText at hm
      have h0 : (c'.doc.nodes.size == 0) = false := by rw [hsz]; simp
      have hidx : c'.doc.nodes.size - 1 = c.doc.nodes.size := by rw [hsz]; simp
      simp only [h0, Bool.false_eq_true, if_false, hidx, hnl, hknl, Res.ok.injEq] at hm
      subst hm
      refine ⟨by simp [Ctx.setNode, hsz], ?_⟩
      refine ⟨{ nl with kind := .text (.owned (c'.afterText.map (·.bytes)).flatten) }, _, ?_, rfl, ?_⟩
      · have hlt : c.doc.nodes.size < c'.doc.nodes.size := by rw [hsz]; exact Nat.lt_succ_self _
        simp [Ctx.setNode, hlt]
      · exact hjoin
    · -- one fragment
      rename_i hlen
      res_norm at hreset
      subst hreset
      refine ⟨rfl, hsz, nl, f, hnl, hknl, ?_⟩
      rw [← hjoin, haft]
      have : rest = [] := by
        rw [haft] at hlen
        cases rest with
        | nil => rfl
        | cons y ys => simp at hlen
      subst this
      simp

/-- The instance `k = 1`, written out: on `t1 &name; t2` `process_text` appends the (non-empty
ones of the) three fragments `lineEnds t1`, the replacement text, `lineEnds t2`.  (For `t1`, `t2`
and the replacement text without CR these are the fragments
`optOwned t1 ++ optBorrowed off v ++ optOwned t2` of the round-trip lemma `RtB6.step_textrun`,
which shows — for the canonical documents — that `process_text` does succeed.) -/
example (T : Tables) (txt : Bytes) (lower2 : Token → Ctx → Res Ctx) (c c' : Ctx) (text : Span)
    (t1 t2 : Bytes) (name : Span) (e : Entity) (st : Stream)
    (hs : text.bytes = sliceBytes txt text.off (text.off + text.bytes.length))
    (hd : c.ld.depth = 0)
    (hval : text.bytes = t1 ++ [bAmp] ++ name.bytes ++ [bSemi] ++ t2)
    (h1 : litOk t1) (h2 : litOk t2) (hv : litOk e.value.bytes)
    (hcr : (Stream.mk (text.off + t1.length) ([bAmp] ++ name.bytes ++ [bSemi] ++ t2)).consumeReference T txt =
      .ok (⟨text.off + t1.length + name.bytes.length + 2, t2⟩, some (.entity name)))
    (hfind : findEntity c.entities name.bytes = some e)
    (hsl : e.value.bytes = sliceBytes txt e.value.off (e.value.off + e.value.bytes.length))
    (htc : tokenizeContent T txt e.value.off e.value.stop =
      ((if e.value.bytes = [] then []
        else [Token.text e.value (e.value.off, e.value.off + e.value.bytes.length)]), .ok st))
    (h : processText T txt (tokenStep T txt lower2) c text (text.off, text.off + text.bytes.length) =
      .ok c') :
    ∃ c'', appendFrags c (litFrag (text.off, text.off + text.bytes.length) t1 ++ entFrag e ++
        litFrag (text.off, text.off + text.bytes.length) t2) = .ok c'' ∧
      c' = { c'' with trace := c'.trace, ld := ⟨0, 0⟩, maxDepth := max c.maxDepth 1 } ∧
      (c'.afterText.map (·.bytes)).flatten =
        (c.afterText.map (·.bytes)).flatten ++
          (lineEnds t1 ++ lineEnds e.value.bytes ++ lineEnds t2) := by
  have hvalO : text.bytes = valueOf t1 [(name, e, t2)] := by simp [hval, valueOf, valueTail]
  have hsegs : SegsOk c.entities [(name, e, t2)] := by
    intro s hs; simp at hs; subst hs; exact ⟨hfind, hv, h2⟩
  have hrefs : RefsOk T txt (text.off + t1.length) [(name, e, t2)] := by
    simpa [RefsOk, valueTail] using hcr
  have hvals : ValsOk T txt [(name, e, t2)] := by
    intro s hs; simp at hs; subst hs; exact ⟨hsl, st, htc⟩
  obtain ⟨c'', hA, hc'⟩ := processText_entities T txt lower2 c c' text _ t1 [(name, e, t2)] rfl hs hd
    (by simp) hvalO h1 hsegs hrefs hvals h
  have hf := (processText_entities_fields T txt lower2 c c' text _ t1 [(name, e, t2)] rfl hs hd
    hvalO h1 hsegs hrefs hvals h).2.1
  refine ⟨c'', by simpa [frags, fragsTail] using hA, hc', ?_⟩
  simpa [expectedText, expectedTextTail] using hf

/-! ### The hypotheses are satisfiable: the text of `r` in
`<!DOCTYPE r [<!ENTITY e 'x\ry'><!ENTITY f 'z'>]><r>a\r\nb&e;&f;c&e;\r</r>` -/

namespace TextManyExample

/-- the document above -/
def txt : Bytes :=
  [60, 33, 68, 79, 67, 84, 89, 80, 69, 32, 114, 32, 91, 60, 33, 69, 78, 84, 73, 84, 89, 32, 101, 32,
   39, 120, 13, 121, 39, 62, 60, 33, 69, 78, 84, 73, 84, 89, 32, 102, 32, 39, 122, 39, 62, 93, 62,
   60, 114, 62, 97, 13, 10, 98, 38, 101, 59, 38, 102, 59, 99, 38, 101, 59, 13, 60, 47, 114, 62]
/-- `e` = `x CR y` (at offset 25), `f` = `z` (at offset 42) -/
def entE : Entity := ⟨⟨22, [101]⟩, ⟨25, [120, 13, 121]⟩⟩
def entF : Entity := ⟨⟨39, [102]⟩, ⟨42, [122]⟩⟩
/-- `a CR LF b &e; &f; c &e; CR` at offset 50 -/
def text : Span := ⟨50, [97, 13, 10, 98, 38, 101, 59, 38, 102, 59, 99, 38, 101, 59, 13]⟩
def range : Range := (50, 65)
def t0 : Bytes := [97, 13, 10, 98]
def segs : List Seg := [(⟨55, [101]⟩, entE, []), (⟨58, [102]⟩, entF, [99]), (⟨62, [101]⟩, entE, [13])]
/-- a context in which the run can be appended: the root node only, nothing pending -/
def ctx : Ctx :=
  { nodesLimit := 10, positions := true, entities := [entE, entF],
    doc := ⟨#[⟨none, none, none, none, .root, (0, 69)⟩], #[], {}⟩ }

example : range = (text.off, text.off + text.bytes.length) := by decide
example : text.bytes = sliceBytes txt text.off (text.off + text.bytes.length) := by decide
example : text.bytes = valueOf t0 segs := by decide
example : litOk t0 := by unfold litOk; decide
example : SegsOk ctx.entities segs := by unfold SegsOk litOk; decide
example : RefsOk Generated.tables txt (text.off + t0.length) segs := by
  simp only [segs, RefsOk, valueTail]; decide +kernel
example : ValsOk Generated.tables txt segs := by
  unfold ValsOk
  intro s hs
  simp only [segs, List.mem_cons, List.not_mem_nil, or_false] at hs
  rcases hs with rfl | rfl | rfl
  · exact ⟨by decide, ⟨28, []⟩, by decide +kernel⟩
  · exact ⟨by decide, ⟨43, []⟩, by decide +kernel⟩
  · exact ⟨by decide, ⟨28, []⟩, by decide +kernel⟩
/-- each part is normalised on its own: `a LF b`, `x LF y`, (nothing), `z`, `c`, `x LF y`, `LF` -/
example : frags range t0 segs =
    [(.owned [97, 10, 98], (50, 65)), (.owned [120, 10, 121], (25, 28)), (.borrowed ⟨42, [122]⟩, (42, 43)),
     (.owned [99], (50, 65)), (.owned [120, 10, 121], (25, 28)), (.owned [10], (50, 65))] := by decide
example : expectedText t0 segs = [97, 10, 98, 120, 10, 121, 122, 99, 120, 10, 121, 10] := by decide

/-- … and `process_text` does succeed on it, with these fragments pending, the loop detector at rest
and one node more. -/
example : (processText Generated.tables txt
      (tokenStep Generated.tables txt (token Generated.tables txt 3)) ctx text range).toOption.map
        (fun c => (c.afterText, c.ld, c.doc.nodes.size)) =
    some ((frags range t0 segs).map (·.1), ⟨0, 0⟩, 2) := by decide +kernel
/-- … and the whole document is accepted, its one text node holding the expected text. -/
example : (parse Generated.tables txt { allowDtd := true }).toOption.map
      (fun d => d.nodes.toList.filterMap fun n =>
        match n.kind with
        | .text s => some s.bytes
        | _ => none) =
    some [expectedText t0 segs] := by decide +kernel

/-- The theorem applied to the example. -/
example (lower2 : Token → Ctx → Res Ctx) (c' : Ctx)
    (h : processText Generated.tables txt (tokenStep Generated.tables txt lower2) ctx text range = .ok c') :
    (c'.afterText.map (·.bytes)).flatten = [97, 10, 98, 120, 10, 121, 122, 99, 120, 10, 121, 10] ∧
    c'.ld = ⟨0, 0⟩ ∧ c'.entities = [entE, entF] ∧ c'.doc.nodes.size ≤ 2 := by
  have hvals : ValsOk Generated.tables txt segs := by
    unfold ValsOk
    intro s hs
    simp only [segs, List.mem_cons, List.not_mem_nil, or_false] at hs
    rcases hs with rfl | rfl | rfl
    · exact ⟨by decide, ⟨28, []⟩, by decide +kernel⟩
    · exact ⟨by decide, ⟨43, []⟩, by decide +kernel⟩
    · exact ⟨by decide, ⟨28, []⟩, by decide +kernel⟩
  have := processText_entities_fields Generated.tables txt lower2 ctx c' text range t0 segs (by decide)
    (by decide) rfl (by decide) (by unfold litOk; decide) (by unfold SegsOk litOk; decide)
    (by simp only [segs, RefsOk, valueTail]; decide +kernel) hvals h
  obtain ⟨_, h2, h3, h4, _, h6, _⟩ := this
  exact ⟨h2, h3, h4, h6⟩

end TextManyExample

-- #print axioms processText_entities_all     -- [propext, Classical.choice, Quot.sound]
-- #print axioms token_text_entities          -- [propext, Classical.choice, Quot.sound]
-- #print axioms processText_entities         -- [propext, Classical.choice, Quot.sound]
-- #print axioms processText_entities_fields  -- [propext, Classical.choice, Quot.sound]
-- #print axioms processText_entities_node    -- [propext, Classical.choice, Quot.sound]

end Rox.Lemmas
