/-
  Rox.Lemmas.MirrorNsAll — for EVERY input that `parse` accepts without a DOCTYPE, names and in-scope
  namespaces resolve as "Namespaces in XML 1.0" prescribes for the abstract document
  (`Rox.Spec.MirrorNs`).
-/
import Rox.Spec.MirrorNs
import Rox.Lemmas.MirrorAll
import Rox.Lemmas.MirrorNsBuild4
import Rox.Lemmas.MirrorNsAsm

namespace Rox.Lemmas
open Rox Rox.Spec.Grammar Rox.Spec.Canon4 Rox.Spec.Mirror Rox.Spec.MirrorNs

/-- **Namespaces resolve per the specification, for every accepted input** (every valid UTF-8
input, `allow_dtd = false`, every node limit): if `parse` returns a tree, then for the abstract
document `x` the input is the concrete syntax of — the same `x` whose tree the arena is
(`accepted_tree_mirrors`) — the element nodes of the arena, read in id order, carry exactly
`nsDoc x`: for every element the namespace name of its name, its in-scope bindings (own declarations
in source order, then the inherited ones that are not overridden), and the namespace names of its
attributes in source order. -/
theorem accepted_namespaces_resolve (T : Tables) (hT : TablesOK T) (hG : TablesGrammar T) (txt : Bytes)
    (hv : ValidUtf8 txt) (opt : Opt) (hdtd : opt.allowDtd = false) (d : Doc)
    (h : parse T txt opt = .ok d) :
    ∃ x : GDoc, GDocWf T x ∧ DocNormal T x ∧ RDoc T x txt ∧
      d.nodes.toList.map (viewM d) = (none, YKind.root) :: expectAllY 0 1 (docTree x) ∧
      d.nodes.toList.filterMap (viewNs d) = nsDoc x := by
  unfold parse at h
  rw [Res.bind_eq_ok] at h
  obtain ⟨c, hc, hd⟩ := h
  simp only [Res.pure_eq, Res.ok.injEq] at hd
  subst hd
  -- the tokenizer succeeded
  have htok : ∃ toks, tokenize T txt false = (toks, .ok ()) := by
    have hc' := hc
    unfold parseCtx at hc'
    rw [Res.bind_eq_ok] at hc'
    obtain ⟨c0, _, hc'⟩ := hc'
    rw [hdtd] at hc'
    dsimp only at hc'
    rw [Res.bind_eq_ok] at hc'
    obtain ⟨c1, hrun, _⟩ := hc'
    obtain ⟨⟨u, hu⟩, _⟩ := runTokens_feed _ _ _ _ _ hrun
    cases u
    exact ⟨(tokenize T txt false).1, Prod.ext rfl hu⟩
  obtain ⟨toks, htoks⟩ := htok
  -- Stage A'
  obtain ⟨bom, decl, pre, root, post, htxt, hbom, hdecl, hpre, hpost, hroot, hlex, hpin, hit⟩ :=
    tokenize_itemsM T hT hG txt hv toks htoks
  have hit' : ItemsToksM (pre ++ root ++ post) (tokenize T txt false).1 := by rw [htoks]; exact hit
  -- Stage B (what the builder checked)
  obtain ⟨hrun, hsem, hstag⟩ := parseCtx_items T hT txt hv opt hdtd c hc _ hit'.toItemsToks hlex
  -- Stage C''
  obtain ⟨x, hwf, hnorm, hrdoc, hpend, hout, hns⟩ :=
    assembleMN T bom decl pre root post hbom hdecl hpre hpost hroot hlex hsem hpin hrun hstag
  -- Stage B' and B'' (what the builder built)
  have hview := parseCtx_itemsM T hT txt hv opt hdtd c hc _ hit' hlex hpend
  have hviewN := parseCtx_itemsN T hT txt hv opt hdtd c hc _ hit' hlex
  refine ⟨x, hwf, hnorm, ?_, ?_, ?_⟩
  · rw [htxt]; exact hrdoc
  · rw [hview, hout]
  · rw [hviewN, hns]

end Rox.Lemmas
