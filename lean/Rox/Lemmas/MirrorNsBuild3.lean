/-
  Rox.Lemmas.MirrorNsBuild3 — Stage B'' of the proof of `accepted_namespaces_resolve`, part 3: start
  tags. The attribute tokens that are namespace declarations push (prefix, normalised value) onto
  `tree_order` (`NTInv`: the entries pending since `nsStartIdx` read as `declsOf` of the attributes
  seen so far); `process_element` then appends the element node whose in-scope range reads as
  `scopeOf parent attrs`, whose name and attributes resolve in that scope.
-/
import Rox.Lemmas.MirrorNsBuild2

namespace Rox.Lemmas.MN
open Rox Rox.Spec Rox.Spec.Grammar Rox.Spec.Canon4 Rox.Spec.Mirror Rox.Spec.MirrorNs
open Rox.Props.C06 Rox.Lemmas.RtB Rox.Lemmas.GB Rox.Lemmas.MB

/-! ### Pure facts -/

/-- the attributes of a start tag as (name, value) pairs -/
abbrev pairsOf (attrs : List AttrC) : List (Bytes × Bytes) := attrs.map fun a => (a.n, a.v)

theorem declsOf_snoc (l : List (Bytes × Bytes)) (x : Bytes × Bytes) :
    declsOf (l ++ [x]) = declsOf l ++
      (match declKey (qparts x.1) with
       | some p => [(p, decodeAttr x.2)]
       | none => []) := by
  rw [declsOf_append, declsOf_eq [x]]
  simp only [List.filterMap_cons, List.filterMap_nil]
  cases declKey (qparts x.1) <;> rfl

/-- namespace name of an attribute name, from its prefix -/
def attrNsP (sc : Scope) (p : Bytes) : Option Bytes :=
  if p == Lit.xml then some nsXmlUri
  else if p.isEmpty then none
  else lookup sc (some p)

theorem attrNs_eq (sc : Scope) (n : Bytes) : attrNs sc n = attrNsP sc (qparts n).1 := rfl

theorem isNsDecl_isC (n : Bytes) : (!isNsDecl n) = isC (qparts n) := by
  unfold isNsDecl isC
  cases (qparts n).1 == Lit.xmlns <;> cases ((qparts n).1.isEmpty && (qparts n).2 == Lit.xmlns) <;> rfl

theorem spec_attrs (sc : Scope) (attrs : List AttrC) :
    ((pairsOf attrs).filter fun a => !isNsDecl a.1).map (fun a => attrNs sc a.1) =
      ((attrs.map fun a => qparts a.n).filter isC).map fun k => attrNsP sc k.1 := by
  induction attrs with
  | nil => rfl
  | cons a r ih =>
    simp only [pairsOf, List.map_cons, List.filter_cons] at ih ⊢
    rw [isNsDecl_isC]
    cases isC (qparts a.n) with
    | true =>
      simp only [if_true, List.map_cons]
      rw [ih]
      rfl
    | false => simpa using ih

/-! ### More about the correspondence -/

theorem TExt.vsize {d d' : Doc} (h : TExt d d') : d.ns.values.size ≤ d'.ns.values.size := by
  by_cases h0 : d.ns.values.size = 0
  · omega
  · have hlt : d.ns.values.size - 1 < d.ns.values.size := by omega
    have := h.vals _ hlt
    rw [Array.getElem?_eq_getElem hlt] at this
    have := (Array.getElem?_eq_some_iff.mp this).1
    omega

theorem TExt.tsize {d d' : Doc} (h : TExt d d') : d.ns.treeOrder.size ≤ d'.ns.treeOrder.size := by
  obtain ⟨m, hm⟩ := h.tree
  rw [← Array.length_toList, ← Array.length_toList, hm, List.length_append]; omega

theorem NCore.goodAt {ids : List Nat} {n : NStk} {c : Ctx} (h : NCore ids n c) {i : Nat}
    {nd : NodeData} (hi : c.doc.nodes[i]? = some nd) : GoodE c.doc nd.kind := by
  cases he : nd.kind.isElement with
  | true => exact h.good _ (mem_ekinds hi he)
  | false => cases hk : nd.kind <;> first | trivial | (rw [hk] at he; cases he)

/-- the namespace table grows, nothing else changes -/
theorem NCore.grow {ids : List Nat} {n : NStk} {c c' : Ctx} (h : NCore ids n c)
    (hn : c'.doc.nodes = c.doc.nodes) (ha : c'.doc.attrs = c.doc.attrs)
    (hs : c'.nsStartIdx = c.nsStartIdx) (hinv : NsInv c'.doc.ns)
    (hv : ∀ k, k < c.doc.ns.values.size → c'.doc.ns.values[k]? = c.doc.ns.values[k]?)
    (ht : ∃ more, c'.doc.ns.treeOrder.toList = c.doc.ns.treeOrder.toList ++ more) :
    NCore ids n c' := by
  have he : TExt c.doc c'.doc := ⟨hv, ht, ⟨[], by rw [ha]; simp⟩⟩
  have hek : ekinds c' = ekinds c := by unfold ekinds kps; rw [hn]
  obtain ⟨v, hv0, hu⟩ := h.xml0
  refine ⟨hinv, ⟨v, ?_, hu⟩, ?_, ?_, ?_, ?_, ?_, h.nd⟩
  · rw [hv 0 (Array.getElem?_eq_some_iff.mp hv0).1]; exact hv0
  · rw [hs]; have := h.start; have := he.tsize; omega
  · intro k hk
    rw [hek] at hk
    exact (h.good k hk).ext he
  · intro a ham j hj
    rw [ha] at ham
    have := h.agood a ham j hj
    have := he.vsize
    omega
  · rw [hek, ← h.out]
    apply filterMap_congr'
    intro k hk
    exact viewE_ext he h.nsinv h.agood k (h.good k hk)
  · refine StkOk.mono ?_ ids n.stk h.stk
    intro id nd hnd
    refine ⟨nd, by rw [hn]; exact hnd, ?_⟩
    exact scopeK_ext he h.nsinv nd.kind (h.goodAt hnd)

/-- inside a start tag, after the attributes `seenA` (as written) -/
structure NTInv (ids : List Nat) (n : NStk) (seenA : List AttrC) (c : Ctx) : Prop where
  core : NCore ids n c
  pend : readIdx c.doc.ns.values (c.doc.ns.treeOrder.toList.drop c.nsStartIdx) =
    declsOf (pairsOf seenA)

theorem NTInv.keep {ids : List Nat} {n : NStk} {seenA : List AttrC} {c c' : Ctx}
    (h : NTInv ids n seenA c) (hk : NKeep c c') : NTInv ids n seenA c' :=
  ⟨h.core.keep hk, by rw [hk.ns, hk.nsi]; exact h.pend⟩

/-- a declaration is pushed -/
theorem ntinv_push {ids : List Nat} {n : NStk} {seenA : List AttrC} {c : Ctx}
    (hm : NTInv ids n seenA c) {name : Option Span} {value : Str} {ns : Namespaces}
    (hns : c.doc.ns.pushNs name value = .ok ns) (x : AttrC)
    (hx : declKey (qparts x.n) = some (name.map (·.bytes))) (hv : value.bytes = decodeAttr x.v) :
    NTInv ids n (seenA ++ [x]) { c with doc := { c.doc with ns := ns } } := by
  obtain ⟨hinv', idx, v, ht, _, hvi, hname, huri, hk⟩ :=
    pushNs_spec c.doc.ns ns name value hm.core.nsinv hns
  have htl : ns.treeOrder.toList = c.doc.ns.treeOrder.toList ++ [idx] := by
    rw [ht, Array.toList_push]
  refine ⟨hm.core.grow rfl rfl rfl hinv' hk ⟨[idx], htl⟩, ?_⟩
  show readIdx ns.values (ns.treeOrder.toList.drop c.nsStartIdx) = _
  rw [htl, List.drop_append_of_le_length (by simpa using hm.core.start), readIdx_append,
    readIdx_congr _ hk (fun k hkm => hm.core.nsinv.tree_lt k (List.mem_of_mem_drop hkm)), hm.pend]
  have : pairsOf (seenA ++ [x]) = pairsOf seenA ++ [(x.n, x.v)] := by simp [pairsOf]
  rw [this, declsOf_snoc, hx]
  congr 1
  unfold readIdx entryAt
  simp only [List.filterMap_cons, List.filterMap_nil, hvi, Option.map_some]
  have : (v.name.map fun x => x.bytes) = v.nameBytes := rfl
  rw [this, hname, huri, hv]

/-- an attribute that is not a pushed declaration -/
theorem ntinv_skip {ids : List Nat} {n : NStk} {seenA : List AttrC} {c c' : Ctx}
    (hm : NTInv ids n seenA c) (hd : c'.doc = c.doc) (hs : c'.nsStartIdx = c.nsStartIdx) (x : AttrC)
    (hx : declKey (qparts x.n) = none) : NTInv ids n (seenA ++ [x]) c' := by
  refine ⟨hm.core.keep (NKeep.of_eq hd hs), ?_⟩
  rw [hd, hs, hm.pend]
  have : pairsOf (seenA ++ [x]) = pairsOf seenA ++ [(x.n, x.v)] := by simp [pairsOf]
  rw [this, declsOf_snoc, hx]
  simp

section
variable (T : Tables) (txt : Bytes)

/-- `process_attribute` -/
theorem mn_attr (hN : NormOk T txt) {ids : List Nat} {n : NStk} {seenA : List AttrC} {c c' : Ctx}
    {at_ : AttrC} {r : Range} {q e : Nat} {pfx loc v : Span} (hents : c.entities = [])
    (hld : c.ld.depth = 0) (hm : NTInv ids n seenA c)
    (hat : qparts at_.n = (pfx.bytes, loc.bytes) ∧ v.bytes = at_.v) (hlt : bLt ∉ v.bytes)
    (h : processAttribute T txt c r q e pfx loc v = .ok c') : NTInv ids n (seenA ++ [at_]) c' := by
  unfold processAttribute at h
  rw [Res.bind_eq_ok] at h
  obtain ⟨⟨c1, value⟩, h1, h⟩ := h
  obtain ⟨hs, tr, e1⟩ := hN c c1 v value hents hld hlt h1
  have hm1 : NTInv ids n seenA (c1.log (.attrValue value)) := by
    subst e1
    exact hm.keep (NKeep.of_eq rfl rfl)
  have hval : value.bytes = decodeAttr at_.v := by rw [hs, hat.2]
  clear h1 e1 hm
  try dsimp only at h
  generalize c1.log (.attrValue value) = cL at h hm1
  split at h
  · rename_i hpfx
    split at h
    · exact absurd h (errPos_ne_ok _ _ _ _)
    · split at h
      · exact absurd h (errPos_ne_ok _ _ _ _)
      · try dsimp only at h
        split at h
        · exact absurd h (errPos_ne_ok _ _ _ _)
        · rename_i hc1
          split at h
          · exact absurd h (errPos_ne_ok _ _ _ _)
          · rename_i hc2
            rw [Res.bind_eq_ok] at h
            obtain ⟨ex, hex, h⟩ := h
            split at h
            · exact absurd h (errPos_ne_ok _ _ _ _)
            · split at h
              · rename_i hnx
                rw [Res.bind_eq_ok] at h
                obtain ⟨ns, hns, h⟩ := h
                res_norm at h; subst h
                refine ntinv_push hm1 hns at_ ?_ hval
                unfold declKey
                rw [hat.1]
                simp only [hpfx, if_true]
                have : (loc.bytes == Lit.xml) = false := by
                  cases hl : loc.bytes == Lit.xml with
                  | false => rfl
                  | true =>
                    exfalso
                    apply hc1
                    simp only [hl, Bool.true_and]
                    simpa using hnx
                simp [this]
              · rename_i hnx
                res_norm at h; subst h
                refine ntinv_skip (c' := { cL with xmlDeclared := true }) hm1 rfl rfl at_ ?_
                unfold declKey
                rw [hat.1]
                simp only [hpfx, if_true]
                have hux : (value.bytes == nsXmlUri) = true := by simpa using hnx
                have : (loc.bytes == Lit.xml) = true := by
                  cases hl : loc.bytes == Lit.xml with
                  | true => rfl
                  | false =>
                    exfalso
                    apply hc2
                    have hb : (loc.bytes != Lit.xml) = true := by simp [bne, hl]
                    rw [hb, hux]; rfl
                simp [this]
  · rename_i hpfx
    split at h
    · rename_i hb
      split at h
      · exact absurd h (errPos_ne_ok _ _ _ _)
      · split at h
        · exact absurd h (errPos_ne_ok _ _ _ _)
        · rw [Res.bind_eq_ok] at h
          obtain ⟨ex, hex, h⟩ := h
          split at h
          · exact absurd h (errPos_ne_ok _ _ _ _)
          · rw [Res.bind_eq_ok] at h
            obtain ⟨ns, hns, h⟩ := h
            res_norm at h; subst h
            refine ntinv_push (name := none) hm1 hns at_ ?_ hval
            unfold declKey
            rw [hat.1]
            simp only [hpfx, hb]
            rfl
    · rename_i hb
      res_norm at h; subst h
      refine ntinv_skip (c' := { cL with curAttrs := cL.curAttrs ++ [⟨pfx, loc, value, r, q, e⟩] })
        hm1 rfl rfl at_ ?_
      unfold declKey
      rw [hat.1]
      simp only [hpfx, hb]
      rfl

/-! ### `process_element` for `>` and `/>` -/

theorem getNs_uri (d : Doc) (nss : Range) (pp : Nat) (pfx : Bytes) (r : Option Nat)
    (hinv : NsInv d.ns) (hx0 : ∃ v, d.ns.values[0]? = some v ∧ v.uri.bytes = nsXmlUri)
    (h : getNsIdxByPrefix txt d nss pp pfx = .ok r) :
    uriAt d r = if pfx == Lit.xml then some nsXmlUri
      else lookup (readRange d.ns nss) (if pfx.isEmpty then none else some pfx) := by
  by_cases hx : pfx = Lit.xml
  · subst hx
    rw [xml_prefix_implicit] at h
    simp only [Res.ok.injEq] at h
    subst h
    obtain ⟨v, hv, hu⟩ := hx0
    simp only [beq_self_eq_true, if_true]
    unfold uriAt
    simp only [Option.bind_some, hv, Option.map_some, hu]
  · have := getNsIdxByPrefix_scope txt d nss pp pfx hx r h
    rw [this, uriAt_scopeFind d _ (rangeList_mem_lt hinv nss)]
    have : (pfx == Lit.xml) = false := by simpa using hx
    rw [this]
    rfl

theorem attrNsLocal_uri (d : Doc) (nss : Range) (pfx : Bytes) (hinv : NsInv d.ns)
    (hx0 : ∃ v, d.ns.values[0]? = some v ∧ v.uri.bytes = nsXmlUri) :
    uriAt d (attrNsLocal d.ns nss pfx) = attrNsP (readRange d.ns nss) pfx := by
  unfold attrNsLocal attrNsP
  by_cases hx : pfx = Lit.xml
  · obtain ⟨v, hv, hu⟩ := hx0
    rw [if_pos hx]
    have : (pfx == Lit.xml) = true := by simpa using hx
    rw [this]
    unfold uriAt
    simp only [Option.bind_some, hv, Option.map_some, hu, if_true]
  · rw [if_neg hx]
    have : (pfx == Lit.xml) = false := by simpa using hx
    rw [this]
    simp only [Bool.false_eq_true, if_false]
    split
    · rfl
    · exact uriAt_scopeFind d _ (rangeList_mem_lt hinv nss) _

/-- the element node `process_element` appends for `>` and `/>`, and the state of the tables
afterwards -/
theorem mn_append {stk : List QP} {tn : TagName} {ids : List Nat} {n : NStk} {attrsC : List AttrC}
    {c c1 c2 c3 : Ctx} {nss attrs rg : Range} {tagNs : Option Nat} {newId : Nat} (q : Bytes)
    (hi : TInv stk tn (attrsC.map fun a => qparts a.n) c) (hq : tn.pfx = (qparts q).1)
    (hm : NTInv ids n attrsC c) (hne : ids ≠ []) (hp : c.parentId = ids.headD 0)
    (h1 : resolveNamespaces c = .ok (c1, nss))
    (h2 : resolveAttributes txt { c1 with nsStartIdx := c1.doc.ns.treeOrder.size, xmlDeclared := false }
      nss = .ok (c2, attrs))
    (hg : getNsIdxByPrefix txt c2.doc nss c2.tagName.prefixPos c2.tagName.pfx = .ok tagNs)
    (h3 : c2.appendNode (.element tagNs c2.tagName.nameSpan attrs nss) rg = .ok (c3, newId)) :
    newId = c.doc.nodes.size ∧
      NCore ids ⟨n.out ++ [nsViewOf n.top q (pairsOf attrsC)], n.stk⟩ c3 ∧
      c3.nsStartIdx = c3.doc.ns.treeOrder.size ∧
      ∃ nd, c3.doc.nodes[c.doc.nodes.size]? = some nd ∧
        scopeK c3.doc.ns nd.kind = scopeOf n.top (pairsOf attrsC) := by
  have hnsok := hm.core.nsOk
  have hpid := hi.core.binv.pid_lt
  obtain ⟨hps, hndp⟩ := hm.core.parent hne hp
  obtain ⟨lv, ⟨more1, lt⟩, lr⟩ :=
    resolveNamespaces_list c c1 nss hpid hnsok (by rw [hps]; exact hndp) h1
  rw [hm.pend, hps] at lr
  have lr' : readRange c1.doc.ns nss = scopeOf n.top (pairsOf attrsC) := lr
  obtain ⟨hns1, hn1, hn2, _⟩ := (resolveNamespaces_safe c hpid hnsok).post _ h1
  dsimp only at hns1 hn1 hn2
  obtain ⟨hb2, hn, _, _, _, htag, _, _, _⟩ := mb_prelude hi.core.binv h1 h2
  obtain ⟨ns1, e1⟩ := gb_resolveNamespaces_sh h1
  subst e1
  have hns1' : NsOk ({ ({ c with doc := { c.doc with ns := ns1 } } : Ctx) with
      nsStartIdx := ns1.treeOrder.size, xmlDeclared := false } : Ctx).doc ns1.treeOrder.size :=
    ⟨hns1.ns, hns1.xml0, Nat.le_refl _, hns1.elem, hns1.attrNs⟩
  obtain ⟨hns2, ha1, ha2, _, hnsEq2, hfr2⟩ :=
    (resolveAttributes_safe txt _ nss _ hns1' ⟨hn1, hn2⟩).post _ h2
  dsimp only at hns2 ha1 ha2 hnsEq2 hfr2
  obtain ⟨hmap, _⟩ := resolveAttributes_spec txt _ c2 nss attrs h2
  obtain ⟨⟨new, hnew⟩, _⟩ := mb_resolveAttributes h2
  have hnew' : c2.doc.attrs.toList = c.doc.attrs.toList ++ new := hnew
  have hns2eq : c2.doc.ns = ns1 := hnsEq2
  have htb := (getNsIdxByPrefix_safe txt c2.doc hns2.ns hns2.xml0 nss
    ⟨hn1, by rw [hns2eq]; exact hn2⟩ _ _).post _ hg
  obtain ⟨g1, g2, g3, g4, hid, ⟨nd, hnd3, hk3⟩, g5⟩ := appendNode_ekinds hb2 h3
  have hns3 : c3.doc.ns = ns1 := g1.trans hns2eq
  have lv' : ns1.values = c.doc.ns.values := lv
  have lt' : ns1.treeOrder.toList = c.doc.ns.treeOrder.toList ++ more1 := lt
  have he : TExt c.doc c3.doc := by
    refine ⟨fun k _ => by rw [hns3, lv'], ⟨more1, by rw [hns3]; exact lt'⟩, ⟨new, by rw [g2]; exact hnew'⟩⟩
  have hek2 : ekinds c2 = ekinds c := by unfold ekinds kps; rw [hn]
  have hx0 : ∃ v, c3.doc.ns.values[0]? = some v ∧ v.uri.bytes = nsXmlUri := by
    rw [hns3, lv']; exact hm.core.xml0
  have hsc3 : readRange c3.doc.ns nss = scopeOf n.top (pairsOf attrsC) := by
    rw [hns3]; exact lr'
  have hstart3 : c3.nsStartIdx = c3.doc.ns.treeOrder.size := by
    rw [g3, hns3, hfr2]
  have hinv3 : NsInv c3.doc.ns := by rw [g1]; exact hns2.ns
  have hid' : newId = c.doc.nodes.size := by rw [hid, hn]
  -- the new node is good
  have hgoodNew : GoodE c3.doc (.element tagNs c2.tagName.nameSpan attrs nss) := by
    refine ⟨hn1, by rw [hns3]; exact hn2, ha1, by rw [g2]; exact ha2, ?_⟩
    intro j hj
    rw [g1]
    exact htb j hj
  -- what is read of the new node
  have hview : viewE c3.doc (.element tagNs c2.tagName.nameSpan attrs nss) =
      some (nsViewOf n.top q (pairsOf attrsC)) := by
    show some (uriAt c3.doc tagNs, readRange c3.doc.ns nss,
        ((c3.doc.attrs.toList.drop attrs.1).take (attrs.2 - attrs.1)).map fun a =>
          uriAt c3.doc a.nsIdx) = _
    unfold nsViewOf
    congr 1
    refine Prod.ext ?_ (Prod.ext hsc3 ?_)
    · show uriAt c3.doc tagNs = elemNs (scopeOf n.top (pairsOf attrsC)) q
      have e3 : uriAt c3.doc tagNs = uriAt c2.doc tagNs := by unfold uriAt; rw [g1]
      have hx2 : ∃ v, c2.doc.ns.values[0]? = some v ∧ v.uri.bytes = nsXmlUri := by
        rw [hns2eq, lv']; exact hm.core.xml0
      have hsc2 : readRange c2.doc.ns nss = scopeOf n.top (pairsOf attrsC) := by
        rw [hns2eq]; exact lr'
      rw [e3, getNs_uri txt c2.doc nss _ _ _ hns2.ns hx2 hg, hsc2, htag, hi.tag, hq]
      rfl
    · show ((c3.doc.attrs.toList.drop attrs.1).take (attrs.2 - attrs.1)).map
          (fun a => uriAt c3.doc a.nsIdx) = _
      rw [spec_attrs, ← hi.i3]
      rw [g2]
      have hm' := congrArg (List.map fun (t : Option Nat × Span × Str) => uriAt c3.doc t.1) hmap
      simp only [List.map_map] at hm' ⊢
      refine hm'.trans ?_
      apply List.map_congr_left
      intro a _
      show uriAt c3.doc (attrNsLocal ns1 nss a.pfx.bytes) = _
      have := attrNsLocal_uri c3.doc nss a.pfx.bytes hinv3 hx0
      rw [hns3] at this
      rw [this, ← hns3, hsc3]
      rfl
  refine ⟨hid', ⟨hinv3, hx0, Nat.le_of_eq hstart3, ?_, ?_, ?_, ?_, hm.core.nd⟩, hstart3, ?_⟩
  · intro k hk
    rw [g5, hek2] at hk
    simp only [Kind.isElement, if_true, List.mem_append, List.mem_singleton] at hk
    rcases hk with hk | rfl
    · exact (hm.core.good k hk).ext he
    · exact hgoodNew
  · intro a ham j hj
    rw [g2] at ham
    obtain ⟨k, hk⟩ := List.getElem?_of_mem ham
    rw [g1]
    exact hns2.attrNs k a (by simpa using hk) j hj
  · rw [g5, hek2]
    simp only [Kind.isElement, if_true, List.filterMap_append, List.filterMap_cons,
      List.filterMap_nil, hview]
    congr 1
    rw [← hm.core.out]
    apply filterMap_congr'
    intro k hk
    exact viewE_ext he hm.core.nsinv hm.core.agood k (hm.core.good k hk)
  · refine StkOk.mono ?_ ids n.stk hm.core.stk
    intro id nd0 hnd0
    rw [← hn] at hnd0
    obtain ⟨nd', k1, _, k3⟩ := g4 id nd0 hnd0
    refine ⟨nd', k1, ?_⟩
    rw [scopeK_keep k3]
    rw [hn] at hnd0
    exact scopeK_ext he hm.core.nsinv nd0.kind (hm.core.goodAt hnd0)
  · refine ⟨nd, by rw [← hid']; exact hnd3, ?_⟩
    rw [hk3]
    exact hsc3

/-- `process_element` for `>` -/
theorem mn_open {stk : List QP} {tn : TagName} {ids : List Nat} {n : NStk} {attrsC : List AttrC}
    {c c' : Ctx} {r : Range} (q : Bytes)
    (hi : TInv stk tn (attrsC.map fun a => qparts a.n) c) (hq : tn.pfx = (qparts q).1)
    (hm : NTInv ids n attrsC c) (hne : ids ≠ []) (hp : c.parentId = ids.headD 0)
    (hnd : NdScope (scopeOf n.top (pairsOf attrsC)))
    (h : processElement txt c .open r = .ok c') :
    NCore (c'.parentId :: ids)
      ⟨n.out ++ [nsViewOf n.top q (pairsOf attrsC)], scopeOf n.top (pairsOf attrsC) :: n.stk⟩ c' := by
  unfold processElement at h
  split at h
  · simp at h
  · rw [Res.bind_eq_ok] at h
    obtain ⟨⟨c1, nss⟩, h1, h⟩ := h
    try dsimp only at h
    rw [Res.bind_eq_ok] at h
    obtain ⟨⟨c2, attrs⟩, h2, h⟩ := h
    try dsimp only at h
    rw [Res.bind_eq_ok] at h
    obtain ⟨tagNs, hg, h⟩ := h
    rw [Res.bind_eq_ok] at h
    obtain ⟨⟨c3, newId⟩, h3, h⟩ := h
    res_norm at h
    subst h
    obtain ⟨hid, hc3, _, hnew⟩ := mn_append txt q hi hq hm hne hp h1 h2 hg h3
    rw [← hid] at hnew
    refine ⟨hc3.nsinv, hc3.xml0, hc3.start, hc3.good, hc3.agood, hc3.out, ⟨hnew, hc3.stk⟩, ?_⟩
    intro sc hsc
    rcases List.mem_cons.mp hsc with rfl | hsc
    · exact hnd
    · exact hc3.nd sc hsc

/-- `process_element` for `/>` -/
theorem mn_empty {stk : List QP} {tn : TagName} {ids : List Nat} {n : NStk} {attrsC : List AttrC}
    {c c' : Ctx} {r : Range} (q : Bytes)
    (hi : TInv stk tn (attrsC.map fun a => qparts a.n) c) (hq : tn.pfx = (qparts q).1)
    (hm : NTInv ids n attrsC c) (hne : ids ≠ []) (hp : c.parentId = ids.headD 0)
    (h : processElement txt c .empty r = .ok c') :
    NCore ids ⟨n.out ++ [nsViewOf n.top q (pairsOf attrsC)], n.stk⟩ c' := by
  unfold processElement at h
  split at h
  · simp at h
  · rw [Res.bind_eq_ok] at h
    obtain ⟨⟨c1, nss⟩, h1, h⟩ := h
    try dsimp only at h
    rw [Res.bind_eq_ok] at h
    obtain ⟨⟨c2, attrs⟩, h2, h⟩ := h
    try dsimp only at h
    rw [Res.bind_eq_ok] at h
    obtain ⟨tagNs, hg, h⟩ := h
    rw [Res.bind_eq_ok] at h
    obtain ⟨⟨c3, newId⟩, h3, h⟩ := h
    res_norm at h
    subst h
    obtain ⟨_, hc3, _, _⟩ := mn_append txt q hi hq hm hne hp h1 h2 hg h3
    exact hc3.keep (NKeep.of_eq rfl rfl)

variable (lower : Token → Ctx → Res Ctx)

/-- `ElementStart` -/
theorem mn_tok_start {stk : List QP} {ids : List Nat} {n : NStk} {c c' : Ctx} {p l : Span}
    {st : Nat} (hg : GInv stk c) (hn : NCore ids n c)
    (h : tokenStep T txt lower (.elementStart p l st) c = .ok c') : NTInv ids n [] c' := by
  unfold tokenStep at h
  dsimp only at h
  rw [Res.bind_eq_ok] at h
  obtain ⟨c1, h1, h⟩ := h
  split at h
  · exact absurd h (errPos_ne_ok _ _ _ _)
  · res_norm at h
    subst h
    have hk : NKeep c { c1 with tagName := ⟨p.bytes, l.bytes, l, st, st + 1⟩ } :=
      ((nkeep_log c _).trans (nkeep_reset h1)).trans (NKeep.of_eq rfl rfl)
    refine ⟨hn.keep hk, ?_⟩
    rw [hk.ns, hk.nsi, hg.nsi, List.drop_of_length_le (by simp)]
    rfl

/-- one `Attribute` token -/
theorem mn_tok_attr (hN : NormOk T txt) {stk : List QP} {tn : TagName} {seen : List QP} {a : AS}
    {ids : List Nat} {n : NStk} {seenA : List AttrC} {c c' : Ctx} {at_ : AttrC} {r : Range} {q e : Nat}
    {pfx loc v : Span} (hi : TInv stk tn seen c) (hmt : MTInv a seenA c) (hm : NTInv ids n seenA c)
    (hat : AttrTok at_ (.attribute r q e pfx loc v)) (hlt : bLt ∉ v.bytes)
    (h : tokenStep T txt lower (.attribute r q e pfx loc v) c = .ok c') :
    NTInv ids n (seenA ++ [at_]) c' := by
  unfold tokenStep at h
  dsimp only at h
  have hm0 : NTInv ids n seenA (c.log (.token (.attribute r q e pfx loc v))) :=
    hm.keep (nkeep_log c _)
  exact mn_attr T txt hN (c := c.log (.token (.attribute r q e pfx loc v))) hi.core.ents
    hmt.core.ld hm0 hat hlt h

/-- the attribute tokens of a start tag -/
theorem mn_attrs (hN : NormOk T txt)
    (hB : ∀ t c c', BInv c → tokenStep T txt lower t c = .ok c' → BInv c')
    {stk : List QP} {tn : TagName} {a : AS} {ids : List Nat} {n : NStk} :
    ∀ (attrs : List AttrC) (ats : List Token), AttrToks attrs ats → (∀ x ∈ attrs, bLt ∉ x.v) →
      ∀ (seen : List QP) (seenA : List AttrC) (c c' : Ctx), TInv stk tn seen c → MTInv a seenA c →
        NTInv ids n seenA c → feed (tokenStep T txt lower) ats c = .ok c' →
        NTInv ids n (seenA ++ attrs) c' := by
  intro attrs ats hat
  induction hat with
  | nil =>
    intro _ seen seenA c c' _ _ hm h
    simp only [feed, Res.ok.injEq] at h
    subst h
    rw [List.append_nil]
    exact hm
  | cons x t as ts hat _ ih =>
    intro hlt seen seenA c c' hi hmt hm h
    simp only [feed] at h
    split at h
    · rename_i c1 h1
      have hb1 := hB _ _ _ hi.core.binv h1
      cases t with
      | «attribute» r q e pfx loc v =>
        have hlt1 : bLt ∉ v.bytes := by rw [hat.2]; exact hlt x (by simp)
        obtain ⟨hi1, _⟩ := gb_tok_attr T txt lower hi hb1 hlt1 h1
        have hmt1 := mb_tok_attr T txt lower hN hi hmt hat hlt1 h1
        have hm1 := mn_tok_attr T txt lower hN hi hmt hm hat hlt1 h1
        have := ih (fun b hb => hlt b (by simp [hb])) _ _ _ _ hi1 hmt1 hm1 h
        rw [List.append_assoc] at this
        exact this
      | _ => exact absurd hat (by simp [AttrTok])
    · simp at h
    · simp at h
    · simp at h

/-- `ElementEnd(Open)` -/
theorem mn_tok_open {stk : List QP} {tn : TagName} {ids : List Nat} {n : NStk} {attrsC : List AttrC}
    {c c' : Ctx} {r : Range} (q : Bytes)
    (hi : TInv stk tn (attrsC.map fun a => qparts a.n) c) (hq : tn.pfx = (qparts q).1)
    (hm : NTInv ids n attrsC c) (hne : ids ≠ []) (hp : c.parentId = ids.headD 0)
    (hnd : NdScope (scopeOf n.top (pairsOf attrsC)))
    (h : tokenStep T txt lower (.elementEnd .open r) c = .ok c') :
    NCore (c'.parentId :: ids)
      ⟨n.out ++ [nsViewOf n.top q (pairsOf attrsC)], scopeOf n.top (pairsOf attrsC) :: n.stk⟩ c' := by
  unfold tokenStep at h
  dsimp only at h
  rw [Res.bind_eq_ok] at h
  obtain ⟨c1, h1, h⟩ := h
  have hk : NKeep c c1 := (nkeep_log c _).trans (nkeep_reset h1)
  have hi1 := gb_treset hi h1
  have hp1 : c1.parentId = ids.headD 0 := by
    have hf := (resetAfterText_sfr (txt := []) h1).1
    rw [hf.pid]; exact hp
  exact mn_open txt q hi1 hq (hm.keep hk) hne hp1 hnd h

/-- `ElementEnd(Empty)` -/
theorem mn_tok_empty {stk : List QP} {tn : TagName} {ids : List Nat} {n : NStk} {attrsC : List AttrC}
    {c c' : Ctx} {r : Range} (q : Bytes)
    (hi : TInv stk tn (attrsC.map fun a => qparts a.n) c) (hq : tn.pfx = (qparts q).1)
    (hm : NTInv ids n attrsC c) (hne : ids ≠ []) (hp : c.parentId = ids.headD 0)
    (h : tokenStep T txt lower (.elementEnd .empty r) c = .ok c') :
    NCore ids ⟨n.out ++ [nsViewOf n.top q (pairsOf attrsC)], n.stk⟩ c' := by
  unfold tokenStep at h
  dsimp only at h
  rw [Res.bind_eq_ok] at h
  obtain ⟨c1, h1, h⟩ := h
  have hk : NKeep c c1 := (nkeep_log c _).trans (nkeep_reset h1)
  have hi1 := gb_treset hi h1
  have hp1 : c1.parentId = ids.headD 0 := by
    have hf := (resetAfterText_sfr (txt := []) h1).1
    rw [hf.pid]; exact hp
  exact mn_empty txt q hi1 hq (hm.keep hk) hne hp1 h

end

end Rox.Lemmas.MN
