/-
  Rox.Lemmas.EntFrame — the entity table and the loop detector are only touched by
  `EntityDeclaration` tokens and by entity expansion: the frame needed for C16 ("with
  allow_dtd = false no entity is ever declared or expanded").
-/
import Rox.Lemmas.Size
import Rox.Lemmas.Emits

namespace Rox.Lemmas
open Rox

/-- The entity table is kept, and as long as it is empty the loop detector is not touched
(every entity expansion goes through `inc_references`). -/
def EntOk (c c' : Ctx) : Prop :=
  c'.entities = c.entities ∧ (c.entities = [] → c'.ld = c.ld ∧ c'.maxDepth = c.maxDepth)

theorem EntOk.refl (c : Ctx) : EntOk c c := ⟨rfl, fun _ => ⟨rfl, rfl⟩⟩

theorem EntOk.trans {a b c : Ctx} (h1 : EntOk a b) (h2 : EntOk b c) : EntOk a c :=
  ⟨by rw [h2.1, h1.1], fun h => by
    have e2 := h2.2 (by rw [h1.1]; exact h)
    have e1 := h1.2 h
    exact ⟨by rw [e2.1, e1.1], by rw [e2.2, e1.2]⟩⟩

theorem EntOk.of_eq {c c' : Ctx} (he : c'.entities = c.entities) (hl : c'.ld = c.ld)
    (hm : c'.maxDepth = c.maxDepth := by rfl) : EntOk c c' :=
  ⟨he, fun _ => ⟨hl, hm⟩⟩

theorem appendNode_entOk (c c' : Ctx) (k : Kind) (r : Range) (id : Nat)
    (h : c.appendNode k r = .ok (c', id)) : EntOk c c' := by
  unfold Ctx.appendNode at h
  split at h
  · simp at h
  · rw [Res.bind_eq_ok] at h
    obtain ⟨newId, hid, h⟩ := h
    simp only at h
    split at h
    · simp at h
    · split at h
      · simp at h
      · split at h
        · simp at h
        · rw [Res.bind_eq_ok] at h
          obtain ⟨nodes', hs, h⟩ := h
          simp only [pure, Res.ok.injEq, Prod.mk.injEq] at h
          obtain ⟨hc, hi⟩ := h
          subst hc
          exact EntOk.of_eq rfl rfl

theorem log_entOk (c : Ctx) (e : Ev) : EntOk c (c.log e) := EntOk.of_eq rfl rfl

theorem setNode_entOk (c : Ctx) (i : Nat) (n : NodeData) : EntOk c (c.setNode i n) :=
  EntOk.of_eq rfl (by simp [Ctx.setNode])

theorem appendText_entOk (c c' : Ctx) (t : Str) (r : Range) (h : c.appendText t r = .ok c') :
    EntOk c c' := by
  unfold Ctx.appendText at h
  try dsimp only at h
  split at h
  · rw [Res.bind_eq_ok] at h
    obtain ⟨⟨c2, id⟩, h2, h1⟩ := h
    res_norm at h1
    subst h1
    exact EntOk.trans (log_entOk c _) (EntOk.trans (appendNode_entOk _ _ _ _ _ h2) (EntOk.of_eq rfl rfl))
  · res_norm at h
    subst h
    exact EntOk.of_eq rfl rfl

theorem mergeText_entOk (c c' : Ctx) (h : c.mergeText = .ok c') : EntOk c c' := by
  unfold Ctx.mergeText at h
  try dsimp only at h
  split at h
  · simp at h
  · split at h
    · simp at h
    · split at h
      · simp only [Res.ok.injEq] at h; subst h; exact setNode_entOk _ _ _
      · simp at h

theorem resetAfterText_entOk (c c' : Ctx) (h : c.resetAfterText = .ok c') : EntOk c c' := by
  unfold Ctx.resetAfterText at h
  try dsimp only at h
  split at h
  · simp only [Res.ok.injEq] at h; subst h; exact EntOk.refl _
  · split at h
    · rw [Res.bind_eq_ok] at h
      obtain ⟨c1, h1, h⟩ := h
      res_norm at h
      subst h
      exact EntOk.trans (mergeText_entOk _ _ h1) (EntOk.of_eq rfl rfl)
    · res_norm at h; subst h; exact EntOk.of_eq rfl rfl

theorem resolveNamespaces_entOk (c c' : Ctx) (r : Range) (h : resolveNamespaces c = .ok (c', r)) :
    EntOk c c' := by
  unfold resolveNamespaces at h
  rw [Res.bind_eq_ok] at h
  obtain ⟨p, _, h⟩ := h
  split at h
  · split at h
    · res_norm at h; rw [← h.1]; exact EntOk.refl _
    · rw [Res.bind_eq_ok] at h
      obtain ⟨ns, _, h⟩ := h
      res_norm at h
      rw [← h.1]; exact EntOk.of_eq rfl rfl
  · res_norm at h; rw [← h.1]; exact EntOk.refl _

theorem resolveAttributes_entOk (txt : Bytes) (c c' : Ctx) (nss r : Range)
    (h : resolveAttributes txt c nss = .ok (c', r)) : EntOk c c' := by
  unfold resolveAttributes at h
  split at h
  · res_norm at h; rw [← h.1]; exact EntOk.refl _
  · split at h
    · simp at h
    · rw [Res.bind_eq_ok] at h
      obtain ⟨doc, hd, h⟩ := h
      res_norm at h
      have := resolveAttrsLoop_nodes _ _ _ _ _ _ _ hd
      rw [← h.1]
      exact EntOk.of_eq rfl (by simp [this])

theorem processElement_entOk (txt : Bytes) (c c' : Ctx) (e : EndKind) (r : Range)
    (h : processElement txt c e r = .ok c') : EntOk c c' := by
  unfold processElement at h
  split at h
  · split at h
    · exact absurd h (errPos_ne_ok _ _ _ _)
    · simp at h
  · rw [Res.bind_eq_ok] at h
    obtain ⟨⟨c1, nss⟩, h1, h⟩ := h
    try dsimp only at h
    rw [Res.bind_eq_ok] at h
    obtain ⟨⟨c2, attrs⟩, h2, h⟩ := h
    have s1 := resolveNamespaces_entOk _ _ _ h1
    have s2 := resolveAttributes_entOk _ _ _ _ _ h2
    have s12 : EntOk c c2 := EntOk.trans s1 (EntOk.trans (EntOk.of_eq rfl rfl) s2)
    try dsimp only at h
    split at h
    · -- empty
      rw [Res.bind_eq_ok] at h
      obtain ⟨tagNs, _, h⟩ := h
      rw [Res.bind_eq_ok] at h
      obtain ⟨⟨c3, newId⟩, h3, h⟩ := h
      res_norm at h
      subst h
      exact EntOk.trans s12 (EntOk.trans (appendNode_entOk _ _ _ _ _ h3) (EntOk.of_eq rfl rfl))
    · -- close
      split at h
      · exact absurd h (errPos_ne_ok _ _ _ _)
      · rw [Res.bind_eq_ok] at h
        obtain ⟨p, _, h⟩ := h
        split at h
        · simp at h
        · split at h
          · exact absurd h (errPos_ne_ok _ _ _ _)
          · split at h
            · res_norm at h
              subst h
              exact EntOk.trans s12 (EntOk.of_eq rfl (by simp [Ctx.setNode]))
            · exact absurd h (errPos_ne_ok _ _ _ _)
    · -- open
      rw [Res.bind_eq_ok] at h
      obtain ⟨tagNs, _, h⟩ := h
      rw [Res.bind_eq_ok] at h
      obtain ⟨⟨c3, newId⟩, h3, h⟩ := h
      res_norm at h
      subst h
      exact EntOk.trans s12 (EntOk.trans (appendNode_entOk _ _ _ _ _ h3) (EntOk.of_eq rfl rfl))


/-- With an empty entity table the attribute normaliser never touches the loop detector (and
never calls itself one level deeper). -/
theorem normAttrLoop_ld_nil (T : Tables) (txt : Bytes)
    (rec : Span → TextBuffer → LD → List Ev → Res (TextBuffer × LD × List Ev)) :
    ∀ (fuel : Nat) (s : Stream) (buf : TextBuffer) (ld : LD) (tr : List Ev) (buf' : TextBuffer) (ld' : LD)
      (tr' : List Ev), normAttrLoop T txt [] rec fuel s buf ld tr = .ok (buf', ld', tr') → ld' = ld := by
  intro fuel
  induction fuel with
  | zero => intro s buf ld tr buf' ld' tr' h; simp [normAttrLoop] at h
  | succ f ih =>
    intro s buf ld tr buf' ld' tr' h
    simp only [normAttrLoop] at h
    split at h
    · simp only [Res.ok.injEq, Prod.mk.injEq] at h; exact h.2.1.symm
    · split at h
      · split at h
        · exact absurd h (errAt_ne_ok _ _ _ _)
        · exact ih _ _ _ _ _ _ _ h
      · rw [Res.bind_eq_ok] at h
        obtain ⟨⟨s', ref⟩, _, h⟩ := h
        try dsimp only at h
        split at h
        · try dsimp only at h
          split at h
          · split at h
            · exact absurd h (errFrom_ne_ok _ _ _ _)
            · exact ih _ _ _ _ _ _ _ h
          · exact ih _ _ _ _ _ _ _ h
        · simp only [findEntity, List.find?_nil] at h
          exact absurd h (errFrom_ne_ok _ _ _ _)
        · exact absurd h (errFrom_ne_ok _ _ _ _)

theorem normAttrRec_ld_nil (T : Tables) (txt : Bytes) (d : Nat) (v : Span) (buf : TextBuffer) (ld : LD)
    (tr : List Ev) (buf' : TextBuffer) (ld' : LD) (tr' : List Ev)
    (h : normAttrRec T txt [] d v buf ld tr = .ok (buf', ld', tr')) : ld' = ld := by
  cases d with
  | zero => simp [normAttrRec] at h
  | succ d => simp only [normAttrRec] at h; exact normAttrLoop_ld_nil T txt _ _ _ _ _ _ _ _ _ h

theorem normalizeAttribute_entOk (T : Tables) (txt : Bytes) (c c' : Ctx) (v : Span) (s : Str)
    (h : normalizeAttribute T txt c v = .ok (c', s)) : EntOk c c' := by
  unfold normalizeAttribute at h
  split at h
  · rw [Res.bind_eq_ok] at h
    obtain ⟨⟨buf, ld, tr⟩, hn, h⟩ := h
    rw [Res.bind_eq_ok] at h
    obtain ⟨out, _, h⟩ := h
    res_norm at h
    rw [← h.1]
    refine ⟨rfl, fun he => ?_⟩
    rw [he] at hn
    exact ⟨normAttrRec_ld_nil T txt _ _ _ _ _ _ _ _ hn, rfl⟩
  · res_norm at h; rw [← h.1]; exact EntOk.refl _

theorem processAttribute_entOk (T : Tables) (txt : Bytes) (c c' : Ctx) (r : Range) (q e : Nat)
    (pfx loc v : Span) (h : processAttribute T txt c r q e pfx loc v = .ok c') : EntOk c c' := by
  unfold processAttribute at h
  rw [Res.bind_eq_ok] at h
  obtain ⟨⟨c1, value⟩, h1, h⟩ := h
  have s1 := normalizeAttribute_entOk _ _ _ _ _ _ h1
  try dsimp only at h
  split at h
  · split at h
    · exact absurd h (errPos_ne_ok _ _ _ _)
    · split at h
      · exact absurd h (errPos_ne_ok _ _ _ _)
      · try dsimp only at h
        split at h
        · exact absurd h (errPos_ne_ok _ _ _ _)
        · split at h
          · exact absurd h (errPos_ne_ok _ _ _ _)
          · rw [Res.bind_eq_ok] at h
            obtain ⟨ex, _, h⟩ := h
            split at h
            · exact absurd h (errPos_ne_ok _ _ _ _)
            · split at h
              · rw [Res.bind_eq_ok] at h
                obtain ⟨ns, _, h⟩ := h
                res_norm at h; subst h
                exact EntOk.trans s1 (EntOk.of_eq rfl rfl)
              · res_norm at h; subst h
                exact EntOk.trans s1 (EntOk.of_eq rfl rfl)
  · split at h
    · split at h
      · exact absurd h (errPos_ne_ok _ _ _ _)
      · split at h
        · exact absurd h (errPos_ne_ok _ _ _ _)
        · rw [Res.bind_eq_ok] at h
          obtain ⟨ex, _, h⟩ := h
          split at h
          · exact absurd h (errPos_ne_ok _ _ _ _)
          · rw [Res.bind_eq_ok] at h
            obtain ⟨ns, _, h⟩ := h
            res_norm at h; subst h
            exact EntOk.trans s1 (EntOk.of_eq rfl rfl)
    · res_norm at h; subst h
      exact EntOk.trans s1 (EntOk.of_eq rfl rfl)

theorem processCdata_entOk (c c' : Ctx) (t : Span) (r : Range) (h : processCdata c t r = .ok c') :
    EntOk c c' := by
  unfold processCdata at h
  split at h <;> exact appendText_entOk _ _ _ _ h

theorem flushBuffer_entOk (c c' : Ctx) (b : TextBuffer) (r : Range) (h : flushBuffer c b r = .ok c') :
    EntOk c c' := by
  unfold flushBuffer at h
  split at h
  · rw [Res.bind_eq_ok] at h
    obtain ⟨out, _, h⟩ := h
    exact appendText_entOk _ _ _ _ h
  · res_norm at h; subst h; exact EntOk.refl _

theorem feed_entOk (step : Token → Ctx → Res Ctx)
    (hstep : ∀ t c c', t.isEntityDecl = false → step t c = .ok c' → EntOk c c') :
    ∀ (toks : List Token), (∀ t ∈ toks, t.isEntityDecl = false) →
      ∀ (c c' : Ctx), feed step toks c = .ok c' → EntOk c c' := by
  intro toks
  induction toks with
  | nil => intro _ c c' h; simp [feed] at h; subst h; exact EntOk.refl _
  | cons t ts ih =>
    intro hall c c' h
    simp only [feed] at h
    split at h
    · rename_i c1 h1
      exact EntOk.trans (hstep _ _ _ (hall t (by simp)) h1)
        (ih (fun t ht => hall t (by simp [ht])) _ _ h)
    · simp at h
    · simp at h
    · simp at h

theorem runTokens_entOk {α} (step : Token → Ctx → Res Ctx)
    (hstep : ∀ t c c', t.isEntityDecl = false → step t c = .ok c' → EntOk c c')
    (toks : List Token) (hall : ∀ t ∈ toks, t.isEntityDecl = false)
    (stop : Res α) (c c' : Ctx) (h : runTokens step toks stop c = .ok c') :
    EntOk c c' := by
  unfold runTokens at h
  split at h
  · rename_i c1 h1
    split at h <;> simp at h
    subst h
    exact feed_entOk step hstep _ hall _ _ h1
  · rename_i hne
    cases hf : feed step toks c <;> simp_all

theorem tokenizeContent_no_entityDecl (T : Tables) (txt : Bytes) (a b : Nat) :
    ∀ t ∈ (tokenizeContent T txt a b).1, t.isEntityDecl = false := by
  intro t ht
  have := parseContent_emits T txt _ _ _ t ht
  simpa [Token.isContent] using this

/-- A reference can only resolve to an entity if the table is not empty. -/
theorem parseNextChunk_text_ne (T : Tables) (txt : Bytes) (ents : List Entity) (s s' : Stream)
    (f : Span) (h : parseNextChunk T txt ents s = .ok (s', .text f)) : ents ≠ [] := by
  rintro rfl
  unfold parseNextChunk at h
  split at h
  · simp at h
  · split at h
    · rw [Res.bind_eq_ok] at h
      obtain ⟨⟨s1, ref⟩, _, h⟩ := h
      try dsimp only at h
      split at h
      · simp [pure] at h
      · simp only [findEntity, List.find?_nil] at h
        exact absurd h (errFrom_ne_ok _ _ _ _)
      · exact absurd h (errFrom_ne_ok _ _ _ _)
    · simp at h

theorem processTextLoop_entOk (T : Tables) (txt : Bytes) (lower : Token → Ctx → Res Ctx)
    (hlower : ∀ t c c', t.isEntityDecl = false → lower t c = .ok c' → EntOk c c') (range : Range) :
    ∀ (fuel : Nat) (s : Stream) (buf buf' : TextBuffer) (c c' : Ctx),
      processTextLoop T txt lower range fuel s buf c = .ok (buf', c') → EntOk c c' := by
  intro fuel
  induction fuel with
  | zero => intro s buf buf' c c' h; simp [processTextLoop] at h
  | succ fuel ih =>
    intro s buf buf' c c' h
    simp only [processTextLoop] at h
    split at h
    · res_norm at h; rw [← h.2]; exact EntOk.refl _
    · rw [Res.bind_eq_ok] at h
      obtain ⟨⟨s1, chunk⟩, hchunk, h⟩ := h
      try dsimp only at h
      split at h
      · exact ih _ _ _ _ _ h
      · try dsimp only at h
        split at h <;> exact ih _ _ _ _ _ h
      · have hne := parseNextChunk_text_ne _ _ _ _ _ _ hchunk
        rw [Res.bind_eq_ok] at h
        obtain ⟨c1, hfl, h⟩ := h
        have sfl := flushBuffer_entOk _ _ _ _ hfl
        split at h
        · exact absurd h (errAt_ne_ok _ _ _ _)
        · try dsimp only at h
          split at h
          · exact absurd h (errAt_ne_ok _ _ _ _)
          · try dsimp only at h
            rw [Res.bind_eq_ok] at h
            obtain ⟨c2, hrun, h⟩ := h
            have srun := runTokens_entOk lower hlower _ (tokenizeContent_no_entityDecl T txt _ _)
              _ _ _ hrun
            split at h
            · simp at h
            · have := ih _ _ _ _ _ h
              refine ⟨?_, fun he => absurd he hne⟩
              rw [this.1]
              show c2.entities = c.entities
              rw [srun.1]
              exact sfl.1

theorem processText_entOk (T : Tables) (txt : Bytes) (lower : Token → Ctx → Res Ctx)
    (hlower : ∀ t c c', t.isEntityDecl = false → lower t c = .ok c' → EntOk c c') (c c' : Ctx) (t : Span) (r : Range)
    (h : processText T txt lower c t r = .ok c') : EntOk c c' := by
  unfold processText at h
  split at h
  · exact appendText_entOk _ _ _ _ h
  · dsimp only at h
    rw [Res.bind_eq_ok] at h
    obtain ⟨⟨buf, c1⟩, h1, h⟩ := h
    exact EntOk.trans (processTextLoop_entOk T txt lower hlower _ _ _ _ _ _ _ h1)
      (flushBuffer_entOk _ _ _ _ h)

theorem tokenStep_entOk (T : Tables) (txt : Bytes) (lower : Token → Ctx → Res Ctx)
    (hlower : ∀ t c c', t.isEntityDecl = false → lower t c = .ok c' → EntOk c c') (t : Token) (c c' : Ctx)
    (hk : t.isEntityDecl = false) (h : tokenStep T txt lower t c = .ok c') : EntOk c c' := by
  unfold tokenStep at h
  try dsimp only at h
  have slog : EntOk c (c.log (.token t)) := log_entOk _ _
  split at h
  · rw [Res.bind_eq_ok] at h
    obtain ⟨c1, h1, h⟩ := h
    rw [Res.bind_eq_ok] at h
    obtain ⟨⟨c2, id⟩, h2, h⟩ := h
    res_norm at h; subst h
    exact EntOk.trans slog (EntOk.trans (resetAfterText_entOk _ _ h1) (appendNode_entOk _ _ _ _ _ h2))
  · rw [Res.bind_eq_ok] at h
    obtain ⟨c1, h1, h⟩ := h
    rw [Res.bind_eq_ok] at h
    obtain ⟨⟨c2, id⟩, h2, h⟩ := h
    res_norm at h; subst h
    exact EntOk.trans slog (EntOk.trans (resetAfterText_entOk _ _ h1) (appendNode_entOk _ _ _ _ _ h2))
  · simp [Token.isEntityDecl] at hk
  · rw [Res.bind_eq_ok] at h
    obtain ⟨c1, h1, h⟩ := h
    split at h
    · exact absurd h (errPos_ne_ok _ _ _ _)
    · res_norm at h; subst h
      exact EntOk.trans slog (EntOk.trans (resetAfterText_entOk _ _ h1) (EntOk.of_eq rfl rfl))
  · exact EntOk.trans slog (processAttribute_entOk _ _ _ _ _ _ _ _ _ _ h)
  · rw [Res.bind_eq_ok] at h
    obtain ⟨c1, h1, h⟩ := h
    exact EntOk.trans slog (EntOk.trans (resetAfterText_entOk _ _ h1) (processElement_entOk _ _ _ _ _ h))
  · exact EntOk.trans slog (processText_entOk T txt lower hlower _ _ _ _ h)
  · exact EntOk.trans slog (processCdata_entOk _ _ _ _ h)

theorem token_entOk (T : Tables) (txt : Bytes) :
    ∀ (d : Nat) (t : Token) (c c' : Ctx), t.isEntityDecl = false → token T txt d t c = .ok c' →
      EntOk c c' := by
  intro d
  induction d with
  | zero => intro t c c' _ h; simp [token] at h
  | succ d ih => intro t c c' hk h; exact tokenStep_entOk T txt (token T txt d) ih t c c' hk h


end Rox.Lemmas
