/-
  Rox.Lemmas.GrammarBuild2 — Stage B of the grammar-soundness proof, part 2: start tags. The
  attributes of a start tag are processed one by one (`TInv`: which names have been seen, and where
  the builder recorded them); `process_element` then refuses a repeated name.
-/
import Rox.Lemmas.GrammarBuild1

namespace Rox.Lemmas.GB
open Rox Rox.Spec.Grammar

/-- an ordinary attribute (neither `xmlns:l` nor `xmlns`) -/
def isC (k : QP) : Bool := !(k.1 == Lit.xmlns) && !(k.1.isEmpty && k.2 == Lit.xmlns)

theorem gb_nodup_split {α} (f : α → Bool) : ∀ l : List α, (l.filter f).Nodup →
    (l.filter fun x => !f x).Nodup → l.Nodup := by
  intro l
  induction l with
  | nil => intro _ _; exact List.nodup_nil
  | cons a r ih =>
    intro h1 h2
    rw [List.nodup_cons]
    cases hf : f a with
    | true =>
      simp only [List.filter_cons, hf, if_true, Bool.not_true, Bool.false_eq_true, if_false] at h1 h2
      rw [List.nodup_cons] at h1
      refine ⟨fun hm => h1.1 (List.mem_filter.mpr ⟨hm, hf⟩), ih h1.2 h2⟩
    | false =>
      simp only [List.filter_cons, hf, if_true, Bool.not_false, Bool.false_eq_true, if_false] at h1 h2
      rw [List.nodup_cons] at h2
      refine ⟨fun hm => h2.1 (List.mem_filter.mpr ⟨hm, by simp [hf]⟩), ih h1 h2.2⟩

theorem gb_filter_snoc_true {α} (f : α → Bool) (l : List α) (a : α) (h : f a = true) :
    (l ++ [a]).filter f = l.filter f ++ [a] := by
  simp [List.filter_append, h]

theorem gb_filter_snoc_false {α} (f : α → Bool) (l : List α) (a : α) (h : f a = false) :
    (l ++ [a]).filter f = l.filter f := by
  simp [List.filter_append, h]

theorem gb_nodup_snoc {α} (l : List α) (a : α) (h : l.Nodup) (ha : a ∉ l) : (l ++ [a]).Nodup := by
  induction l with
  | nil => simp
  | cons b r ih =>
    rw [List.nodup_cons] at h
    simp only [List.mem_cons, not_or] at ha
    simp only [List.cons_append, List.nodup_cons, List.mem_append, List.mem_singleton, not_or]
    exact ⟨⟨h.1, fun e => ha.1 e.symm⟩, ih h.2 ha.2⟩

/-- a namespace declaration that has not been seen in this tag -/
theorem gb_seen_ab (seen : List QP) (k : QP) (hk : isC k = false) (hf : k ∉ seen)
    (h4 : (seen.filter fun k => !isC k).Nodup) :
    ((seen ++ [k]).filter fun k => !isC k).Nodup ∧ (seen ++ [k]).filter isC = seen.filter isC := by
  rw [gb_filter_snoc_true _ _ _ (by simp [hk]), gb_filter_snoc_false _ _ _ hk]
  exact ⟨gb_nodup_snoc _ _ h4 (fun hm => hf (List.mem_filter.mp hm).1), rfl⟩

theorem gb_seen_c (seen : List QP) (k : QP) (hk : isC k = true)
    (h4 : (seen.filter fun k => !isC k).Nodup) :
    ((seen ++ [k]).filter fun k => !isC k).Nodup ∧
      (seen ++ [k]).filter isC = seen.filter isC ++ [k] := by
  rw [gb_filter_snoc_false _ _ _ (by simp [hk]), gb_filter_snoc_true _ _ _ hk]
  exact ⟨h4, rfl⟩

/-- inside a start tag, after the attributes with the names `seen` -/
structure TInv (stk : List QP) (tn : TagName) (seen : List QP) (c : Ctx) : Prop where
  core : GCore stk c
  tag : c.tagName = tn
  i1 : ∀ l, (Lit.xmlns, l) ∈ seen → (l = Lit.xml ∧ c.xmlDeclared = true) ∨
    c.doc.ns.exists c.nsStartIdx (some l) = .ok true
  i2 : ([], Lit.xmlns) ∈ seen → c.doc.ns.exists c.nsStartIdx none = .ok true
  i3 : (c.curAttrs.map fun a => (a.pfx.bytes, a.loc.bytes)) = seen.filter isC
  i4 : (seen.filter fun k => !isC k).Nodup

section
variable (T : Tables) (txt : Bytes)

theorem gb_attr {stk : List QP} {tn : TagName} {seen : List QP} {c c' : Ctx} {r : Range}
    {q e : Nat} {pfx loc v : Span} (hi : TInv stk tn seen c) (hb' : BInv c')
    (hlt : bLt ∉ v.bytes) (h : processAttribute T txt c r q e pfx loc v = .ok c') :
    TInv stk tn (seen ++ [(pfx.bytes, loc.bytes)]) c' ∧ RefText T v.bytes := by
  unfold processAttribute at h
  rw [Res.bind_eq_ok] at h
  obtain ⟨⟨c1, value⟩, h1, h⟩ := h
  obtain ⟨hrt, ld, tr, e1⟩ := normalizeAttribute_noent T txt c c1 v value hi.core.ents hlt h1
  refine ⟨?_, hrt⟩
  have hi1 : TInv stk tn seen (c1.log (.attrValue value)) := by
    subst e1
    exact ⟨⟨hi.core.binv.congr rfl rfl rfl, hi.core.ents, hi.core.floor, hi.core.pp, hi.core.chain⟩,
      hi.tag, hi.i1, hi.i2, hi.i3, hi.i4⟩
  clear h1 e1 hi
  try dsimp only at h
  generalize c1.log (.attrValue value) = cL at h hi1
  split at h
  · split at h
    · exact absurd h (errPos_ne_ok _ _ _ _)
    · split at h
      · exact absurd h (errPos_ne_ok _ _ _ _)
      · try dsimp only at h
        split at h
        · exact absurd h (errPos_ne_ok _ _ _ _)
        · split at h
          · exact absurd h (errPos_ne_ok _ _ _ _)
          · rw [Res.bind_eq_ok] at h
            obtain ⟨ex, hex, h⟩ := h
            split at h
            · exact absurd h (errPos_ne_ok _ _ _ _)
            · split at h
              · rw [Res.bind_eq_ok] at h
                obtain ⟨ns, hns, h⟩ := h
                res_norm at h; subst h
                rename_i hpfx _ _ hx1 hx2 hdup huri
                have hpx : pfx.bytes = Lit.xmlns := by simpa using hpfx
                have hu : ¬ value.bytes = nsXmlUri := by simpa using huri
                have hlx : loc.bytes ≠ Lit.xml := by
                  intro hl; apply hx1; simp [hl, hu]
                have hexf : ex = false := by
                  cases ex with
                  | false => rfl
                  | true => exact absurd (by simp) hdup
                subst hexf
                have hk : isC (pfx.bytes, loc.bytes) = false := by simp [isC, hpx]
                have hfresh : (pfx.bytes, loc.bytes) ∉ seen := by
                  intro hm
                  rw [hpx] at hm
                  rcases hi1.i1 _ hm with ⟨hl, _⟩ | hx
                  · exact hlx hl
                  · rw [hex] at hx; simp at hx
                obtain ⟨n4, n3⟩ := gb_seen_ab seen _ hk hfresh hi1.i4
                refine ⟨⟨hb', hi1.core.ents, hi1.core.floor, hi1.core.pp, hi1.core.chain⟩, hi1.tag,
                  ?_, ?_, ?_, n4⟩
                · intro l0 hm
                  rw [List.mem_append, List.mem_singleton] at hm
                  rcases hm with hm | hm
                  · rcases hi1.i1 _ hm with hl | hx
                    · exact Or.inl hl
                    · exact Or.inr (exists_mono_pushNs _ _ _ _ _ hns _ hx)
                  · simp only [Prod.mk.injEq] at hm
                    rw [hm.2]
                    exact Or.inr (exists_after_pushNs _ _ _ (some loc) _ hns hex)
                · intro hm
                  rw [List.mem_append, List.mem_singleton] at hm
                  rcases hm with hm | hm
                  · exact exists_mono_pushNs _ _ _ _ _ hns _ (hi1.i2 hm)
                  · simp only [Prod.mk.injEq] at hm
                    rw [hpx] at hm
                    exact absurd hm.1 (by decide)
                · rw [n3]; exact hi1.i3
              · res_norm at h; subst h
                rename_i hpfx _ _ hx1 hx2 hdup huri
                have hpx : pfx.bytes = Lit.xmlns := by simpa using hpfx
                have hu : value.bytes = nsXmlUri := by simpa using huri
                have hlx : loc.bytes = Lit.xml := by
                  apply Classical.byContradiction
                  intro hl; apply hx2; simp [hl, hu]
                have hexf : ex = false := by
                  cases ex with
                  | false => rfl
                  | true => exact absurd (by simp) hdup
                subst hexf
                have hxd : cL.xmlDeclared = false := by
                  cases hx : cL.xmlDeclared with
                  | false => rfl
                  | true => exact absurd (by simp [hu, hx]) hdup
                have hk : isC (pfx.bytes, loc.bytes) = false := by simp [isC, hpx]
                have hfresh : (pfx.bytes, loc.bytes) ∉ seen := by
                  intro hm
                  rw [hpx] at hm
                  rcases hi1.i1 _ hm with ⟨_, hl⟩ | hx
                  · rw [hxd] at hl; simp at hl
                  · rw [hex] at hx; simp at hx
                obtain ⟨n4, n3⟩ := gb_seen_ab seen _ hk hfresh hi1.i4
                refine ⟨⟨hb', hi1.core.ents, hi1.core.floor, hi1.core.pp, hi1.core.chain⟩, hi1.tag,
                  ?_, hi1.i2 ∘ ?_, ?_, n4⟩
                · intro l0 hm
                  rw [List.mem_append, List.mem_singleton] at hm
                  rcases hm with hm | hm
                  · rcases hi1.i1 _ hm with hl | hx
                    · exact Or.inl ⟨hl.1, rfl⟩
                    · exact Or.inr hx
                  · simp only [Prod.mk.injEq] at hm
                    rw [hm.2]
                    exact Or.inl ⟨hlx, rfl⟩
                · intro hm
                  rw [List.mem_append, List.mem_singleton] at hm
                  rcases hm with hm | hm
                  · exact hm
                  · simp only [Prod.mk.injEq] at hm
                    rw [hpx] at hm
                    exact absurd hm.1 (by decide)
                · rw [n3]; exact hi1.i3
  · split at h
    · split at h
      · exact absurd h (errPos_ne_ok _ _ _ _)
      · split at h
        · exact absurd h (errPos_ne_ok _ _ _ _)
        · rw [Res.bind_eq_ok] at h
          obtain ⟨ex, hex, h⟩ := h
          split at h
          · exact absurd h (errPos_ne_ok _ _ _ _)
          · rw [Res.bind_eq_ok] at h
            obtain ⟨ns, hns, h⟩ := h
            res_norm at h; subst h
            rename_i hpfx hb _ _ hdup
            have hpx : pfx.bytes ≠ Lit.xmlns := by simpa using hpfx
            simp only [Bool.and_eq_true, List.isEmpty_iff, beq_iff_eq] at hb
            obtain ⟨hp0, hl0⟩ := hb
            have hexf : ex = false := by simpa using hdup
            subst hexf
            have hk : isC (pfx.bytes, loc.bytes) = false := by simp [isC, hp0, hl0]
            have hfresh : (pfx.bytes, loc.bytes) ∉ seen := by
              intro hm
              rw [hp0, hl0] at hm
              have hx := hi1.i2 hm
              rw [hex] at hx; simp at hx
            obtain ⟨n4, n3⟩ := gb_seen_ab seen _ hk hfresh hi1.i4
            refine ⟨⟨hb', hi1.core.ents, hi1.core.floor, hi1.core.pp, hi1.core.chain⟩, hi1.tag,
              ?_, ?_, ?_, n4⟩
            · intro l0 hm
              rw [List.mem_append, List.mem_singleton] at hm
              rcases hm with hm | hm
              · rcases hi1.i1 _ hm with hl | hx
                · exact Or.inl hl
                · exact Or.inr (exists_mono_pushNs _ _ _ _ _ hns _ hx)
              · simp only [Prod.mk.injEq] at hm
                rw [hp0] at hm
                exact absurd hm.1 (by decide)
            · intro _
              exact exists_after_pushNs _ _ _ none _ hns hex
            · rw [n3]; exact hi1.i3
    · res_norm at h; subst h
      rename_i hpfx hb
      have hpx : pfx.bytes ≠ Lit.xmlns := by simpa using hpfx
      have hk : isC (pfx.bytes, loc.bytes) = true := by
        simp only [isC, Bool.and_eq_true, Bool.not_eq_true', beq_eq_false_iff_ne, ne_eq]
        refine ⟨hpx, ?_⟩
        cases hh : (pfx.bytes.isEmpty && loc.bytes == Lit.xmlns) with
        | false => rfl
        | true => exact absurd hh hb
      obtain ⟨n4, n3⟩ := gb_seen_c seen _ hk hi1.i4
      refine ⟨⟨hb', hi1.core.ents, hi1.core.floor, hi1.core.pp, hi1.core.chain⟩, hi1.tag,
        ?_, hi1.i2 ∘ ?_, ?_, n4⟩
      · intro l0 hm
        rw [List.mem_append, List.mem_singleton] at hm
        rcases hm with hm | hm
        · exact hi1.i1 _ hm
        · simp only [Prod.mk.injEq] at hm
          exact absurd hm.1.symm hpx
      · intro hm
        rw [List.mem_append, List.mem_singleton] at hm
        rcases hm with hm | hm
        · exact hm
        · simp only [Prod.mk.injEq] at hm
          exfalso; apply hb; simp [← hm.1, ← hm.2]
      · rw [n3]
        show List.map _ (cL.curAttrs ++ [_]) = _
        rw [List.map_append, hi1.i3]
        rfl

/-- the common part of `process_element` for `>` and `/>` -/
theorem gb_stag_prelude {stk : List QP} {tn : TagName} {seen : List QP} {c c1 c2 : Ctx}
    {nss attrs : Range} (hi : TInv stk tn seen c)
    (h1 : resolveNamespaces c = .ok (c1, nss))
    (h2 : resolveAttributes txt { c1 with nsStartIdx := c1.doc.ns.treeOrder.size, xmlDeclared := false }
      nss = .ok (c2, attrs)) :
    seen.Nodup ∧ GInv stk c2 ∧ c2.tagName = tn := by
  obtain ⟨hg2, _, ht2, hc1⟩ := gb_prelude txt hi.core h1 h2
  refine ⟨?_, hg2, ht2.trans hi.tag⟩
  have hnd := resolveAttributes_nodup txt _ _ _ _ h2
  have : (c1.curAttrs.map fun a => (a.pfx.bytes, a.loc.bytes)) = seen.filter isC := by
    rw [hc1]; exact hi.i3
  rw [show ({ c1 with nsStartIdx := c1.doc.ns.treeOrder.size, xmlDeclared := false } : Ctx).curAttrs
    = c1.curAttrs from rfl, this] at hnd
  exact gb_nodup_split isC seen hnd hi.i4

theorem gb_open {stk : List QP} {tn : TagName} {seen : List QP} {c c' : Ctx} {r : Range}
    (hi : TInv stk tn seen c) (hb' : BInv c') (h : processElement txt c .open r = .ok c') :
    seen.Nodup ∧ GInv ((tn.pfx, tn.nameSpan.bytes) :: stk) c' := by
  unfold processElement at h
  split at h
  · simp at h
  · rw [Res.bind_eq_ok] at h
    obtain ⟨⟨c1, nss⟩, h1, h⟩ := h
    try dsimp only at h
    rw [Res.bind_eq_ok] at h
    obtain ⟨⟨c2, attrs⟩, h2, h⟩ := h
    obtain ⟨hnd, hg2, ht2⟩ := gb_stag_prelude txt hi h1 h2
    refine ⟨hnd, ?_⟩
    clear h1 h2 hi
    try dsimp only at h
    rw [Res.bind_eq_ok] at h
    obtain ⟨tagNs, _, h⟩ := h
    rw [Res.bind_eq_ok] at h
    obtain ⟨⟨c3, newId⟩, h3, h⟩ := h
    res_norm at h
    subst h
    obtain ⟨f3, _, nd, hnd, hndp, hndk⟩ := appendNode_sfr (txt := []) hg2.binv h3
    obtain ⟨nodes, aw, af, tr, e3⟩ := gb_appendNode_sh h3
    have hch := GChain.mono f3.keep stk _ hg2.chain
    subst e3
    refine ⟨⟨hb', hg2.ents, hg2.floor, ?_, ?_⟩, hg2.cur, hg2.xd, hg2.nsi⟩
    · show c2.tagName.pfx :: c2.parentPrefixes = _
      rw [hg2.pp, ht2]; rfl
    · exact ⟨nd, _, _, _, _, _, hnd, hndk, by rw [ht2], hndp, hch⟩

theorem gb_empty {stk : List QP} {tn : TagName} {seen : List QP} {c c' : Ctx} {r : Range}
    (hi : TInv stk tn seen c) (hb' : BInv c') (h : processElement txt c .empty r = .ok c') :
    seen.Nodup ∧ GInv stk c' := by
  unfold processElement at h
  split at h
  · simp at h
  · rw [Res.bind_eq_ok] at h
    obtain ⟨⟨c1, nss⟩, h1, h⟩ := h
    try dsimp only at h
    rw [Res.bind_eq_ok] at h
    obtain ⟨⟨c2, attrs⟩, h2, h⟩ := h
    obtain ⟨hnd, hg2, ht2⟩ := gb_stag_prelude txt hi h1 h2
    refine ⟨hnd, ?_⟩
    clear h1 h2 hi
    try dsimp only at h
    rw [Res.bind_eq_ok] at h
    obtain ⟨tagNs, _, h⟩ := h
    rw [Res.bind_eq_ok] at h
    obtain ⟨⟨c3, newId⟩, h3, h⟩ := h
    res_norm at h
    subst h
    obtain ⟨f3, _, _⟩ := appendNode_sfr (txt := []) hg2.binv h3
    obtain ⟨nodes, aw, af, tr, e3⟩ := gb_appendNode_sh h3
    have hch := GChain.mono f3.keep stk _ hg2.chain
    subst e3
    exact ⟨⟨hb', hg2.ents, hg2.floor, hg2.pp, hch⟩, hg2.cur, hg2.xd, hg2.nsi⟩

variable (lower : Token → Ctx → Res Ctx)

theorem gb_tok_start {stk : List QP} {c c' : Ctx} {p l : Span} {st : Nat} (hg : GInv stk c)
    (hb' : BInv c') (h : tokenStep T txt lower (.elementStart p l st) c = .ok c') :
    TInv stk ⟨p.bytes, l.bytes, l, st, st + 1⟩ [] c' := by
  unfold tokenStep at h
  dsimp only at h
  rw [Res.bind_eq_ok] at h
  obtain ⟨c1, h1, h⟩ := h
  obtain ⟨hg1, _, _⟩ := gb_reset hg h1
  split at h
  · exact absurd h (errPos_ne_ok _ _ _ _)
  · res_norm at h
    subst h
    refine ⟨⟨hb', hg1.ents, hg1.floor, hg1.pp, hg1.chain⟩, rfl, ?_, ?_, ?_, List.nodup_nil⟩
    · intro l0 hm; simp at hm
    · intro hm; simp at hm
    · show List.map _ c1.curAttrs = _
      rw [hg1.cur]; rfl

theorem gb_tok_attr {stk : List QP} {tn : TagName} {seen : List QP} {c c' : Ctx} {r : Range}
    {q e : Nat} {pfx loc v : Span} (hi : TInv stk tn seen c) (hb' : BInv c')
    (hlt : bLt ∉ v.bytes) (h : tokenStep T txt lower (.attribute r q e pfx loc v) c = .ok c') :
    TInv stk tn (seen ++ [(pfx.bytes, loc.bytes)]) c' ∧ RefText T v.bytes := by
  unfold tokenStep at h
  dsimp only at h
  have hi0 : TInv stk tn seen (c.log (.token (.attribute r q e pfx loc v))) :=
    ⟨⟨hi.core.binv.congr rfl rfl rfl, hi.core.ents, hi.core.floor, hi.core.pp, hi.core.chain⟩,
      hi.tag, hi.i1, hi.i2, hi.i3, hi.i4⟩
  exact gb_attr T txt hi0 hb' hlt h

/-- the attribute tokens of a start tag -/
theorem gb_attrs (hB : ∀ t c c', BInv c → tokenStep T txt lower t c = .ok c' → BInv c')
    {stk : List QP} {tn : TagName} :
    ∀ (attrs : List AttrC) (ats : List Token), AttrToks attrs ats → (∀ a ∈ attrs, bLt ∉ a.v) →
      ∀ (seen : List QP) (c c' : Ctx), TInv stk tn seen c →
        feed (tokenStep T txt lower) ats c = .ok c' →
        TInv stk tn (seen ++ attrs.map fun a => qparts a.n) c' ∧ ∀ a ∈ attrs, RefText T a.v := by
  intro attrs ats hat
  induction hat with
  | nil =>
    intro _ seen c c' hi h
    simp only [feed, Res.ok.injEq] at h
    subst h
    simp only [List.map_nil, List.append_nil]
    exact ⟨hi, fun a ha => by simp at ha⟩
  | cons a t as ts hat _ ih =>
    intro hlt seen c c' hi h
    simp only [feed] at h
    split at h
    · rename_i c1 h1
      have hb1 := hB _ _ _ hi.core.binv h1
      cases t with
      | «attribute» r q e pfx loc v =>
        obtain ⟨hq, hv⟩ := hat
        have hlt1 : bLt ∉ v.bytes := by rw [hv]; exact hlt a (by simp)
        obtain ⟨hi1, hr1⟩ := gb_tok_attr T txt lower hi hb1 hlt1 h1
        obtain ⟨hi2, hr2⟩ := ih (fun b hb => hlt b (by simp [hb])) _ _ _ hi1 h
        rw [← hq, List.append_assoc] at hi2
        refine ⟨hi2, ?_⟩
        intro b hb
        rw [List.mem_cons] at hb
        rcases hb with rfl | hb
        · rw [← hv]; exact hr1
        · exact hr2 b hb
      | _ => exact absurd hat (by simp [AttrTok])
    · simp at h
    · simp at h
    · simp at h

theorem TInv.frame {stk : List QP} {tn : TagName} {seen : List QP} {c c' : Ctx}
    (h : TInv stk tn seen c) (hs : GSh c c') (hf : SFr c c') (hb : BInv c') :
    TInv stk tn seen c' := by
  have hc := h.core.frame hs hf hb
  have ht := hf.tag.trans h.tag
  obtain ⟨n, a, f, t, rfl⟩ := hs
  exact ⟨hc, ht, h.i1, h.i2, h.i3, h.i4⟩

theorem gb_treset {stk : List QP} {tn : TagName} {seen : List QP} {c c1 : Ctx} {e : Ev}
    (hi : TInv stk tn seen c) (h1 : (c.log e).resetAfterText = .ok c1) : TInv stk tn seen c1 := by
  have hb0 : BInv (c.log e) := hi.core.binv.congr rfl rfl rfl
  have s0 := gb_log_sh c e
  have f0 : SFr c (c.log e) := SFr.of_eq rfl rfl rfl rfl rfl rfl
  have s1 := gb_resetAfterText_sh h1
  obtain ⟨f1, _⟩ := resetAfterText_sfr (txt := []) h1
  exact hi.frame (s0.trans s1) (f0.trans f1) (binv_resetAfterText hb0 h1)

theorem gb_tok_open {stk : List QP} {tn : TagName} {seen : List QP} {c c' : Ctx} {r : Range}
    (hi : TInv stk tn seen c) (hb' : BInv c')
    (h : tokenStep T txt lower (.elementEnd .open r) c = .ok c') :
    seen.Nodup ∧ GInv ((tn.pfx, tn.nameSpan.bytes) :: stk) c' := by
  unfold tokenStep at h
  dsimp only at h
  rw [Res.bind_eq_ok] at h
  obtain ⟨c1, h1, h⟩ := h
  exact gb_open txt (gb_treset hi h1) hb' h

theorem gb_tok_empty {stk : List QP} {tn : TagName} {seen : List QP} {c c' : Ctx} {r : Range}
    (hi : TInv stk tn seen c) (hb' : BInv c')
    (h : tokenStep T txt lower (.elementEnd .empty r) c = .ok c') :
    seen.Nodup ∧ GInv stk c' := by
  unfold tokenStep at h
  dsimp only at h
  rw [Res.bind_eq_ok] at h
  obtain ⟨c1, h1, h⟩ := h
  exact gb_empty txt (gb_treset hi h1) hb' h

end

end Rox.Lemmas.GB
