/-
  Rox.Lemmas.CompleteTok3 — Stage A⁻¹ of the completeness proof, the loops: `parse_content` follows
  the items of the root element (`Bal`), `parse_misc` the Misc items of prolog and epilog, and the
  whole tokenizer succeeds on `bom ++ decl ++ flat (pre ++ root ++ post)` with the tokens of the
  items (`ItemsToks`), for both values of `allow_dtd`.
-/
import Rox.Lemmas.CompleteDefs
import Rox.Lemmas.CompleteTok2

namespace Rox.Lemmas.CT
open Rox Rox.Spec Rox.Spec.Grammar Rox.Spec.Complete Rox.TM

/-! ### The writer monad, items and tokens -/

/-- two successful computations in sequence -/
theorem tm_bind_ok_ok {α β} {m : TM α} {k : α → TM β} {t1 t2 : List Token} {a : α} {b : β}
    (h1 : m = (t1, .ok a)) (h2 : k a = (t2, .ok b)) : (m >>= k) = (t1 ++ t2, .ok b) := by
  subst h1
  show (t1 ++ (k a).1, (k a).2) = _
  rw [h2]

theorem itemsToks_append {a b : List Item} {ta tb : List Token} (ha : ItemsToks a ta)
    (hb : ItemsToks b tb) : ItemsToks (a ++ b) (ta ++ tb) := by
  induction ha with
  | nil => simpa using hb
  | cons it its ts tss h1 _ ih =>
    rw [List.cons_append, List.append_assoc]
    exact .cons _ _ _ _ h1 ih

theorem itemsToks_one {it : Item} {ts : List Token} (h : ItemToks it ts) : ItemsToks [it] ts := by
  have := ItemsToks.cons it [] ts [] h .nil
  rwa [List.append_nil] at this

theorem flat_append (a b : List Item) : flat (a ++ b) = flat a ++ flat b := by
  induction a with
  | nil => rfl
  | cons it r ih => simp only [List.cons_append, flat, ih, List.append_assoc]

/-! ### The first bytes of the items -/

theorem comment_head (b rest : Bytes) :
    (Item.comment b).bytes ++ rest = 60 :: 33 :: 45 :: 45 :: (b ++ Lit.commentEnd ++ rest) := by
  simp [Item.bytes, Lit.commentStart]

theorem cdata_head (b rest : Bytes) :
    (Item.cdata b).bytes ++ rest =
      60 :: 33 :: 91 :: 67 :: 68 :: 65 :: 84 :: 65 :: 91 :: (b ++ Lit.cdataEnd ++ rest) := by
  simp [Item.bytes, Lit.cdataStart]

theorem pi_head (t s v rest : Bytes) :
    (Item.pi t s v).bytes ++ rest = 60 :: 63 :: (t ++ s ++ v ++ Lit.piEnd ++ rest) := by
  simp [Item.bytes, Lit.piStart]

theorem etag_head (q s2 rest : Bytes) :
    (Item.etag q s2).bytes ++ rest = 60 :: 47 :: (q ++ s2 ++ [bGt] ++ rest) := by
  simp [Item.bytes, bLt, bSlash]

/-- every item has at least one byte -/
theorem item_bytes_pos (T : Tables) (it : Item) (h : it.Lex T) : 1 ≤ it.bytes.length := by
  cases it with
  | sp s =>
    have : s ≠ [] := h.1
    cases s with
    | nil => exact absurd rfl this
    | cons b r => simp [Item.bytes]
  | text t =>
    have : t ≠ [] := h.1
    cases t with
    | nil => exact absurd rfl this
    | cons b r => simp [Item.bytes]
  | comment b => simp [Item.bytes, Lit.commentStart]
  | pi t s v => simp [Item.bytes, Lit.piStart]
  | cdata b => simp [Item.bytes, Lit.cdataStart]
  | stag q attrs s1 e => simp [Item.bytes]
  | etag q s2 => simp [Item.bytes]

theorem items_length_le (T : Tables) (its : List Item) (h : ∀ it ∈ its, it.Lex T) :
    its.length ≤ (flat its).length := by
  induction its with
  | nil => simp
  | cons it r ih =>
    have h1 := item_bytes_pos T it (h it (by simp))
    have h2 := ih (fun x hx => h x (by simp [hx]))
    simp only [flat, List.length_cons, List.length_append]
    omega

/-! ### One round of the content loop -/

section
variable (T : Tables) (txt : Bytes)

theorem pc_comment (fuel d : Nat) (s s' s'' : Stream) (R : Bytes) (t1 t2 : List Token)
    (hs : s.rest = 60 :: 33 :: 45 :: 45 :: R)
    (h1 : parseComment T txt s = (t1, .ok s'))
    (h2 : parseContent T txt fuel d s' = (t2, .ok s'')) :
    parseContent T txt (fuel + 1) d s = (t1 ++ t2, .ok s'') := by
  have e1 : ((60 : UInt8) == bLt) = true := by decide
  have e2 : Stream.nextByte s = .ok 33 := by simp [Stream.nextByte, hs]
  have e3 : ((33 : UInt8) == bBang) = true := by decide
  have e4 : Stream.startsWith s Lit.commentStart = true := by
    simp [Stream.startsWith, hs, Lit.commentStart]
  simp only [parseContent, hs, e1, e2, e3, e4, if_true]
  exact tm_bind_ok_ok h1 h2

theorem pc_cdata (fuel d : Nat) (s s' s'' : Stream) (R : Bytes) (t1 t2 : List Token)
    (hs : s.rest = 60 :: 33 :: 91 :: 67 :: 68 :: 65 :: 84 :: 65 :: 91 :: R)
    (h1 : parseCdata T txt s = (t1, .ok s'))
    (h2 : parseContent T txt fuel d s' = (t2, .ok s'')) :
    parseContent T txt (fuel + 1) d s = (t1 ++ t2, .ok s'') := by
  have e1 : ((60 : UInt8) == bLt) = true := by decide
  have e2 : Stream.nextByte s = .ok 33 := by simp [Stream.nextByte, hs]
  have e3 : ((33 : UInt8) == bBang) = true := by decide
  have e4 : Stream.startsWith s Lit.commentStart = false := by
    simp [Stream.startsWith, hs, Lit.commentStart, List.isPrefixOf]
  have e5 : Stream.startsWith s Lit.cdataStart = true := by
    simp [Stream.startsWith, hs, Lit.cdataStart]
  simp only [parseContent, hs, e1, e2, e3, e4, e5, if_true, Bool.false_eq_true, if_false]
  exact tm_bind_ok_ok h1 h2

theorem pc_pi (fuel d : Nat) (s s' s'' : Stream) (R : Bytes) (t1 t2 : List Token)
    (hs : s.rest = 60 :: 63 :: R)
    (h1 : parsePi T txt s = (t1, .ok s'))
    (h2 : parseContent T txt fuel d s' = (t2, .ok s'')) :
    parseContent T txt (fuel + 1) d s = (t1 ++ t2, .ok s'') := by
  have e1 : ((60 : UInt8) == bLt) = true := by decide
  have e2 : Stream.nextByte s = .ok 63 := by simp [Stream.nextByte, hs]
  have e3 : ((63 : UInt8) == bBang) = false := by decide
  have e4 : ((63 : UInt8) == bQuest) = true := by decide
  simp only [parseContent, hs, e1, e2, e3, e4, if_true, Bool.false_eq_true, if_false]
  exact tm_bind_ok_ok h1 h2

theorem pc_text (fuel d : Nat) (s s' s'' : Stream) (b : UInt8) (R : Bytes) (t1 t2 : List Token)
    (hs : s.rest = b :: R) (hb : b ≠ bLt)
    (h1 : parseText T txt s = (t1, .ok s'))
    (h2 : parseContent T txt fuel d s' = (t2, .ok s'')) :
    parseContent T txt (fuel + 1) d s = (t1 ++ t2, .ok s'') := by
  have e1 : (b == bLt) = false := by rw [beq_eq_false_iff_ne]; exact hb
  simp only [parseContent, hs, e1, Bool.false_eq_true, if_false]
  exact tm_bind_ok_ok h1 h2

theorem pc_close (fuel d : Nat) (s s' s'' : Stream) (R : Bytes) (t1 t2 : List Token)
    (hs : s.rest = 60 :: 47 :: R)
    (h1 : parseCloseElement T txt s = (t1, .ok s'))
    (h2 : parseContent T txt fuel d s' = (t2, .ok s'')) :
    parseContent T txt (fuel + 1) (d + 1) s = (t1 ++ t2, .ok s'') := by
  have e1 : ((60 : UInt8) == bLt) = true := by decide
  have e2 : Stream.nextByte s = .ok 47 := by simp [Stream.nextByte, hs]
  have e3 : ((47 : UInt8) == bBang) = false := by decide
  have e4 : ((47 : UInt8) == bQuest) = false := by decide
  have e5 : ((47 : UInt8) == bSlash) = true := by decide
  have e6 : (d + 1 == 0) = false := by simp
  simp only [parseContent, hs, e1, e2, e3, e4, e5, e6, if_true, Bool.false_eq_true, if_false,
    Nat.add_sub_cancel]
  exact tm_bind_ok_ok h1 h2

theorem pc_close0 (fuel : Nat) (s s' : Stream) (R : Bytes) (t1 : List Token)
    (hs : s.rest = 60 :: 47 :: R)
    (h1 : parseCloseElement T txt s = (t1, .ok s')) :
    parseContent T txt (fuel + 1) 0 s = (t1, .ok s') := by
  have e1 : ((60 : UInt8) == bLt) = true := by decide
  have e2 : Stream.nextByte s = .ok 47 := by simp [Stream.nextByte, hs]
  have e3 : ((47 : UInt8) == bBang) = false := by decide
  have e4 : ((47 : UInt8) == bQuest) = false := by decide
  have e5 : ((47 : UInt8) == bSlash) = true := by decide
  have e6 : ((0 : Nat) == 0) = true := by simp
  simp only [parseContent, hs, e1, e2, e3, e4, e5, e6, if_true, Bool.false_eq_true, if_false]
  have := tm_bind_ok_ok (k := fun s => (pure s : TM Stream)) h1 (t2 := []) (b := s') rfl
  rw [List.append_nil] at this
  exact this

theorem pc_open (fuel d : Nat) (s s' s'' : Stream) (o : Bool) (b : UInt8) (R : Bytes)
    (t1 t2 : List Token)
    (hs : s.rest = 60 :: b :: R) (hb1 : b ≠ bBang) (hb2 : b ≠ bQuest) (hb3 : b ≠ bSlash)
    (h1 : parseStartTag T txt s = (t1, .ok (s', o)))
    (h2 : parseContent T txt fuel (if o then d + 1 else d) s' = (t2, .ok s'')) :
    parseContent T txt (fuel + 1) d s = (t1 ++ t2, .ok s'') := by
  have e1 : ((60 : UInt8) == bLt) = true := by decide
  have e2 : Stream.nextByte s = .ok b := by simp [Stream.nextByte, hs]
  have e3 : (b == bBang) = false := by rw [beq_eq_false_iff_ne]; exact hb1
  have e4 : (b == bQuest) = false := by rw [beq_eq_false_iff_ne]; exact hb2
  have e5 : (b == bSlash) = false := by rw [beq_eq_false_iff_ne]; exact hb3
  simp only [parseContent, hs, e1, e2, e3, e4, e5, if_true, Bool.false_eq_true, if_false]
  exact tm_bind_ok_ok h1 h2

end

/-! ### The content loop over a balanced list of items -/

theorem leaf_cases {it : Item} (h : it.isLeafNT = true) :
    (∃ b, it = .comment b) ∨ (∃ t s v, it = .pi t s v) ∨ (∃ b, it = .cdata b) := by
  cases it with
  | comment b => exact .inl ⟨b, rfl⟩
  | pi t s v => exact .inr (.inl ⟨t, s, v, rfl⟩)
  | cdata b => exact .inr (.inr ⟨b, rfl⟩)
  | sp s => simp [Item.isLeafNT] at h
  | text t => simp [Item.isLeafNT] at h
  | stag q attrs s1 e => simp [Item.isLeafNT] at h
  | etag q s2 => simp [Item.isLeafNT] at h

/-- every item but white space and character data begins with `<` -/
theorem bytes_lt_head (it : Item) (h1 : ∀ t, it ≠ .text t) (h2 : ∀ s, it ≠ .sp s) :
    ∃ R, it.bytes = bLt :: R := by
  cases it with
  | sp s => exact absurd rfl (h2 s)
  | text t => exact absurd rfl (h1 t)
  | comment b => exact ⟨_, rfl⟩
  | pi t s v => exact ⟨_, rfl⟩
  | cdata b => exact ⟨_, rfl⟩
  | stag q attrs s1 e => exact ⟨_, rfl⟩
  | etag q s2 => exact ⟨_, rfl⟩

/-- a balanced list is not empty, and what is not character data begins with `<` -/
theorem bal_head {d : Nat} {its : List Item} (h : Bal d its) (hn : ∀ t' r, its ≠ .text t' :: r)
    (rest : Bytes) : ∃ R, flat its ++ rest = bLt :: R := by
  have key : ∀ (it : Item) (r : List Item), (∀ t, it ≠ .text t) → (∀ s, it ≠ .sp s) →
      ∃ R, flat (it :: r) ++ rest = bLt :: R := by
    intro it r a b
    obtain ⟨R, hR⟩ := bytes_lt_head it a b
    exact ⟨R ++ flat r ++ rest, by simp [flat, hR]⟩
  cases h with
  | leaf d it its hl _ =>
    rcases leaf_cases hl with ⟨b, rfl⟩ | ⟨t, s, v, rfl⟩ | ⟨b, rfl⟩ <;>
      exact key _ _ (fun _ e => by cases e) (fun _ e => by cases e)
  | text d t its _ _ => exact absurd rfl (hn t its)
  | «open» d q attrs s1 its _ => exact key _ _ (fun _ e => by cases e) (fun _ e => by cases e)
  | empty d q attrs s1 its _ => exact key _ _ (fun _ e => by cases e) (fun _ e => by cases e)
  | close d q s2 its _ => exact key _ _ (fun _ e => by cases e) (fun _ e => by cases e)
  | last q s2 => exact key _ _ (fun _ e => by cases e) (fun _ e => by cases e)

section
variable (T : Tables) (hT : TablesOK T) (hG : TablesGrammar T) (hX : TablesComplete T) (txt : Bytes)

include hT hG hX in
/-- `parse_content` at depth `d` follows a list of items balanced at depth `d`, one unit of fuel
per item, and returns behind the end tag that closes the element it was called for. -/
theorem parseContent_bal {d : Nat} {its : List Item} (h : Bal d its) :
    (∀ it ∈ its, it.Lex T ∧ it.StrictI) → ∀ (fuel p : Nat) (rest : Bytes), its.length < fuel →
    ∃ toks p', parseContent T txt fuel d ⟨p, flat its ++ rest⟩ = (toks, .ok ⟨p', rest⟩) ∧
      ItemsToks its toks := by
  induction h with
  | leaf d it its hl hb ih =>
    intro hlex fuel p rest hf
    obtain ⟨fuel, rfl⟩ : ∃ f, fuel = f + 1 := ⟨fuel - 1, by simp at hf; omega⟩
    have hlex' : ∀ x ∈ its, x.Lex T ∧ x.StrictI := fun x hx => hlex x (by simp [hx])
    have hf' : its.length < fuel := by simp at hf; omega
    have e : flat (it :: its) ++ rest = it.bytes ++ (flat its ++ rest) := by
      simp only [flat, List.append_assoc]
    have h0 := hlex it (by simp)
    rw [e]
    rcases leaf_cases hl with ⟨b, rfl⟩ | ⟨t, s, v, rfl⟩ | ⟨b, rfl⟩
    · obtain ⟨t1, p1, h1, ht1⟩ := parseComment_item T hT hG hX txt b (flat its ++ rest) h0.1 p
      obtain ⟨t2, p2, h2, ht2⟩ := ih hlex' fuel p1 rest hf'
      exact ⟨t1 ++ t2, p2, pc_comment T txt fuel d _ _ _ _ t1 t2 (comment_head b _) h1 h2,
        .cons _ _ _ _ ht1 ht2⟩
    · obtain ⟨t1, p1, h1, ht1⟩ := parsePi_item T hT hG hX ⟨hX.sp_not_name⟩ txt t s v (flat its ++ rest) h0.1 h0.2 p
      obtain ⟨t2, p2, h2, ht2⟩ := ih hlex' fuel p1 rest hf'
      exact ⟨t1 ++ t2, p2, pc_pi T txt fuel d _ _ _ _ t1 t2 (pi_head t s v _) h1 h2,
        .cons _ _ _ _ ht1 ht2⟩
    · obtain ⟨t1, p1, h1, ht1⟩ := parseCdata_item T hT hG hX txt b (flat its ++ rest) h0.1 p
      obtain ⟨t2, p2, h2, ht2⟩ := ih hlex' fuel p1 rest hf'
      exact ⟨t1 ++ t2, p2, pc_cdata T txt fuel d _ _ _ _ t1 t2 (cdata_head b _) h1 h2,
        .cons _ _ _ _ ht1 ht2⟩
  | text d t its hn hb ih =>
    intro hlex fuel p rest hf
    obtain ⟨fuel, rfl⟩ : ∃ f, fuel = f + 1 := ⟨fuel - 1, by simp at hf; omega⟩
    have hlex' : ∀ x ∈ its, x.Lex T ∧ x.StrictI := fun x hx => hlex x (by simp [hx])
    have hf' : its.length < fuel := by simp at hf; omega
    obtain ⟨R, hR⟩ := bal_head hb hn rest
    have e : flat (Item.text t :: its) ++ rest = t ++ bLt :: R := by
      simp only [flat, Item.bytes, List.append_assoc, hR]
    have h0 := (hlex (.text t) (by simp)).1
    obtain ⟨t1, p1, h1, ht1⟩ := parseText_item T hT hG hX txt t R h0 p
    obtain ⟨t2, p2, h2, ht2⟩ := ih hlex' fuel p1 rest hf'
    rw [hR] at h2
    rw [e]
    refine ⟨t1 ++ t2, p2, ?_, .cons _ _ _ _ ht1 ht2⟩
    cases t with
    | nil => exact absurd rfl h0.1
    | cons b t' =>
      have hb : b ≠ bLt := fun e => h0.2.2.1 (by simp [e])
      exact pc_text T txt fuel d _ _ _ b (t' ++ bLt :: R) t1 t2 rfl hb h1 h2
  | «open» d q attrs s1 its hb ih =>
    intro hlex fuel p rest hf
    obtain ⟨fuel, rfl⟩ : ∃ f, fuel = f + 1 := ⟨fuel - 1, by simp at hf; omega⟩
    have hlex' : ∀ x ∈ its, x.Lex T ∧ x.StrictI := fun x hx => hlex x (by simp [hx])
    have hf' : its.length < fuel := by simp at hf; omega
    have e : flat (Item.stag q attrs s1 false :: its) ++ rest =
        (Item.stag q attrs s1 false).bytes ++ (flat its ++ rest) := by
      simp only [flat, List.append_assoc]
    have h0 := (hlex (.stag q attrs s1 false) (by simp)).1
    obtain ⟨b, R, hR, hb1, hb2, hb3⟩ := stag_head T hT hG hX q attrs s1 false h0
    obtain ⟨t1, p1, h1, ht1⟩ := parseStartTag_item T hT hG hX txt q attrs s1 false (flat its ++ rest) h0 p
    obtain ⟨t2, p2, h2, ht2⟩ := ih hlex' fuel p1 rest hf'
    rw [e]
    refine ⟨t1 ++ t2, p2, ?_, .cons _ _ _ _ ht1 ht2⟩
    exact pc_open T txt fuel d _ _ _ (!false) b (R ++ (flat its ++ rest)) t1 t2
      (by simp [hR, bLt]) hb1 hb2 hb3 h1 h2
  | empty d q attrs s1 its hb ih =>
    intro hlex fuel p rest hf
    obtain ⟨fuel, rfl⟩ : ∃ f, fuel = f + 1 := ⟨fuel - 1, by simp at hf; omega⟩
    have hlex' : ∀ x ∈ its, x.Lex T ∧ x.StrictI := fun x hx => hlex x (by simp [hx])
    have hf' : its.length < fuel := by simp at hf; omega
    have e : flat (Item.stag q attrs s1 true :: its) ++ rest =
        (Item.stag q attrs s1 true).bytes ++ (flat its ++ rest) := by
      simp only [flat, List.append_assoc]
    have h0 := (hlex (.stag q attrs s1 true) (by simp)).1
    obtain ⟨b, R, hR, hb1, hb2, hb3⟩ := stag_head T hT hG hX q attrs s1 true h0
    obtain ⟨t1, p1, h1, ht1⟩ := parseStartTag_item T hT hG hX txt q attrs s1 true (flat its ++ rest) h0 p
    obtain ⟨t2, p2, h2, ht2⟩ := ih hlex' fuel p1 rest hf'
    rw [e]
    refine ⟨t1 ++ t2, p2, ?_, .cons _ _ _ _ ht1 ht2⟩
    exact pc_open T txt fuel d _ _ _ (!true) b (R ++ (flat its ++ rest)) t1 t2
      (by simp [hR, bLt]) hb1 hb2 hb3 h1 h2
  | close d q s2 its hb ih =>
    intro hlex fuel p rest hf
    obtain ⟨fuel, rfl⟩ : ∃ f, fuel = f + 1 := ⟨fuel - 1, by simp at hf; omega⟩
    have hlex' : ∀ x ∈ its, x.Lex T ∧ x.StrictI := fun x hx => hlex x (by simp [hx])
    have hf' : its.length < fuel := by simp at hf; omega
    have e : flat (Item.etag q s2 :: its) ++ rest =
        (Item.etag q s2).bytes ++ (flat its ++ rest) := by
      simp only [flat, List.append_assoc]
    have h0 := (hlex (.etag q s2) (by simp)).1
    obtain ⟨t1, p1, h1, ht1⟩ := parseCloseElement_item T hT hG hX txt q s2 (flat its ++ rest) h0 p
    obtain ⟨t2, p2, h2, ht2⟩ := ih hlex' fuel p1 rest hf'
    rw [e]
    exact ⟨t1 ++ t2, p2, pc_close T txt fuel d _ _ _ _ t1 t2 (etag_head q s2 _) h1 h2,
      .cons _ _ _ _ ht1 ht2⟩
  | last q s2 =>
    intro hlex fuel p rest hf
    obtain ⟨fuel, rfl⟩ : ∃ f, fuel = f + 1 := ⟨fuel - 1, by simp at hf; omega⟩
    have e : flat [Item.etag q s2] ++ rest = (Item.etag q s2).bytes ++ rest := by
      simp only [flat, List.append_nil]
    have h0 := (hlex (.etag q s2) (by simp)).1
    obtain ⟨t1, p1, h1, ht1⟩ := parseCloseElement_item T hT hG hX txt q s2 rest h0 p
    rw [e]
    exact ⟨t1, p1, pc_close0 T txt fuel _ _ _ t1 (etag_head q s2 _) h1, itemsToks_one ht1⟩

end

/-! ### Misc: white space, comments and processing instructions -/

section
variable (T : Tables) (txt : Bytes)

theorem skipSpacesAux_sp0 (X : Bytes) : ∀ (s : Bytes), Sp0 T s → ∀ p,
    Stream.skipSpacesAux T p (s ++ X) = Stream.skipSpacesAux T (p + s.length) X := by
  intro s
  induction s with
  | nil => intro _ p; rfl
  | cons b s ih =>
    intro h p
    have hb : byteIsSpace T b = true := h b (by simp)
    have hs : Sp0 T s := fun x hx => h x (by simp [hx])
    simp only [List.cons_append, Stream.skipSpacesAux, hb, if_true, ih hs, List.length_cons]
    congr 1
    omega

theorem skipSpaces_sp0 (s X : Bytes) (hs : Sp0 T s) (p : Nat) :
    Stream.skipSpaces T ⟨p, s ++ X⟩ = Stream.skipSpaces T ⟨p + s.length, X⟩ :=
  skipSpacesAux_sp0 T X s hs p

/-- the loop of `parse_misc` skips white space at its head -/
theorem parseMisc_sp (fuel p : Nat) (s X : Bytes) (hs : Sp0 T s) :
    parseMisc T txt (fuel + 1) ⟨p, s ++ X⟩ = parseMisc T txt (fuel + 1) ⟨p + s.length, X⟩ := by
  have hsk := skipSpaces_sp0 T s X hs p
  cases X with
  | nil =>
    cases s with
    | nil => rfl
    | cons b s' =>
      have hsk' : Stream.skipSpaces T ⟨p, b :: s' ++ []⟩ = ⟨p + (b :: s').length, []⟩ := by
        rw [hsk]; rfl
      have a1 : Stream.atEnd ⟨p, b :: s' ++ []⟩ = false := rfl
      have a2 : Stream.atEnd ⟨p + (b :: s').length, []⟩ = true := rfl
      have a3 : Stream.startsWith ⟨p + (b :: s').length, []⟩ Lit.commentStart = false := rfl
      have a4 : Stream.startsWith ⟨p + (b :: s').length, []⟩ Lit.piStart = false := rfl
      simp only [parseMisc, a1, a2, hsk', a3, a4, Bool.false_eq_true, if_false, if_true]
  | cons c r =>
    have a1 : Stream.atEnd ⟨p, s ++ c :: r⟩ = false := by simp [Stream.atEnd]
    have a2 : Stream.atEnd ⟨p + s.length, c :: r⟩ = false := rfl
    simp only [parseMisc, a1, a2, hsk, Bool.false_eq_true, if_false]

theorem pm_comment (fuel : Nat) (s s' s'' : Stream) (R : Bytes) (t1 t2 : List Token)
    (hs : s.rest = 60 :: 33 :: 45 :: 45 :: R) (h60 : byteIsSpace T 60 = false)
    (h1 : parseComment T txt s = (t1, .ok s'))
    (h2 : parseMisc T txt fuel s' = (t2, .ok s'')) :
    parseMisc T txt (fuel + 1) s = (t1 ++ t2, .ok s'') := by
  obtain ⟨p, r⟩ := s
  simp only at hs
  subst hs
  have a1 : Stream.atEnd ⟨p, 60 :: 33 :: 45 :: 45 :: R⟩ = false := rfl
  have a2 := skipSpaces_ns T p 60 (33 :: 45 :: 45 :: R) h60
  have a3 : Stream.startsWith ⟨p, 60 :: 33 :: 45 :: 45 :: R⟩ Lit.commentStart = true := by
    simp [Stream.startsWith, Lit.commentStart]
  simp only [parseMisc, a1, a2, a3, Bool.false_eq_true, if_false, if_true]
  exact tm_bind_ok_ok h1 h2

theorem pm_pi (fuel : Nat) (s s' s'' : Stream) (R : Bytes) (t1 t2 : List Token)
    (hs : s.rest = 60 :: 63 :: R) (h60 : byteIsSpace T 60 = false)
    (h1 : parsePi T txt s = (t1, .ok s'))
    (h2 : parseMisc T txt fuel s' = (t2, .ok s'')) :
    parseMisc T txt (fuel + 1) s = (t1 ++ t2, .ok s'') := by
  obtain ⟨p, r⟩ := s
  simp only at hs
  subst hs
  have a1 : Stream.atEnd ⟨p, 60 :: 63 :: R⟩ = false := rfl
  have a2 := skipSpaces_ns T p 60 (63 :: R) h60
  have a3 : Stream.startsWith ⟨p, 60 :: 63 :: R⟩ Lit.commentStart = false := by
    simp [Stream.startsWith, Lit.commentStart, List.isPrefixOf]
  have a4 : Stream.startsWith ⟨p, 60 :: 63 :: R⟩ Lit.piStart = true := by
    simp [Stream.startsWith, Lit.piStart]
  simp only [parseMisc, a1, a2, a3, a4, Bool.false_eq_true, if_false, if_true]
  exact tm_bind_ok_ok h1 h2

/-- the loop of `parse_misc` stops where no Misc item begins -/
theorem pm_stop (fuel p : Nat) (rest : Bytes) (hr : StopMisc T rest) :
    parseMisc T txt (fuel + 1) ⟨p, rest⟩ = ([], .ok ⟨p, rest⟩) := by
  cases rest with
  | nil => rfl
  | cons b r =>
    have a1 : Stream.atEnd ⟨p, b :: r⟩ = false := rfl
    have a2 := skipSpaces_noSp T (b :: r) hr.nosp p
    have a3 : Stream.startsWith ⟨p, b :: r⟩ Lit.commentStart = false := hr.nocomment
    have a4 : Stream.startsWith ⟨p, b :: r⟩ Lit.piStart = false := hr.nopi
    simp only [parseMisc, a1, a2, a3, a4, Bool.false_eq_true, if_false]
    rfl

end

theorem misc_cases {it : Item} (h : it.isMiscI = true) :
    (∃ s, it = .sp s) ∨ (∃ b, it = .comment b) ∨ (∃ t s v, it = .pi t s v) := by
  cases it with
  | sp s => exact .inl ⟨s, rfl⟩
  | comment b => exact .inr (.inl ⟨b, rfl⟩)
  | pi t s v => exact .inr (.inr ⟨t, s, v, rfl⟩)
  | cdata b => simp [Item.isMiscI] at h
  | text t => simp [Item.isMiscI] at h
  | stag q attrs s1 e => simp [Item.isMiscI] at h
  | etag q s2 => simp [Item.isMiscI] at h

section
variable (T : Tables) (hT : TablesOK T) (hG : TablesGrammar T) (hX : TablesComplete T) (txt : Bytes)

include hT hG hX in
/-- `parse_misc` follows a list of Misc items (white space costs no fuel) up to where no Misc item
begins. -/
theorem parseMisc_items (rest : Bytes) (hr : StopMisc T rest) : ∀ (ms : List Item),
    (∀ it ∈ ms, it.isMiscI = true) → (∀ it ∈ ms, it.Lex T ∧ it.StrictI) →
    ∀ (fuel p : Nat), ms.length < fuel →
    ∃ toks p', parseMisc T txt fuel ⟨p, flat ms ++ rest⟩ = (toks, .ok ⟨p', rest⟩) ∧
      ItemsToks ms toks := by
  have h60 : byteIsSpace T 60 = false := hX.delim_not_space 60 (by simp)
  intro ms
  induction ms with
  | nil =>
    intro _ _ fuel p hf
    obtain ⟨fuel, rfl⟩ : ∃ f, fuel = f + 1 := ⟨fuel - 1, by simp at hf; omega⟩
    exact ⟨[], p, pm_stop T txt fuel p rest hr, .nil⟩
  | cons it ms ih =>
    intro hm hlex fuel p hf
    obtain ⟨fuel, rfl⟩ : ∃ f, fuel = f + 1 := ⟨fuel - 1, by simp at hf; omega⟩
    have hm' : ∀ x ∈ ms, x.isMiscI = true := fun x hx => hm x (by simp [hx])
    have hlex' : ∀ x ∈ ms, x.Lex T ∧ x.StrictI := fun x hx => hlex x (by simp [hx])
    have hf' : ms.length < fuel := by simp at hf; omega
    have e : flat (it :: ms) ++ rest = it.bytes ++ (flat ms ++ rest) := by
      simp only [flat, List.append_assoc]
    have h0 := hlex it (by simp)
    rw [e]
    rcases misc_cases (hm it (by simp)) with ⟨s, rfl⟩ | ⟨b, rfl⟩ | ⟨t, s, v, rfl⟩
    · obtain ⟨t2, p2, h2, ht2⟩ := ih hm' hlex' (fuel + 1) (p + s.length) (by omega)
      refine ⟨t2, p2, ?_, .cons _ _ [] t2 (.sp s) ht2⟩
      have hs : Sp0 T s := h0.1.2
      show parseMisc T txt (fuel + 1) ⟨p, s ++ (flat ms ++ rest)⟩ = _
      rw [parseMisc_sp T txt fuel p s _ hs, h2]
    · obtain ⟨t1, p1, h1, ht1⟩ := parseComment_item T hT hG hX txt b (flat ms ++ rest) h0.1 p
      obtain ⟨t2, p2, h2, ht2⟩ := ih hm' hlex' fuel p1 hf'
      exact ⟨t1 ++ t2, p2, pm_comment T txt fuel _ _ _ _ t1 t2 (comment_head b _) h60 h1 h2,
        .cons _ _ _ _ ht1 ht2⟩
    · obtain ⟨t1, p1, h1, ht1⟩ := parsePi_item T hT hG hX ⟨hX.sp_not_name⟩ txt t s v (flat ms ++ rest) h0.1 h0.2 p
      obtain ⟨t2, p2, h2, ht2⟩ := ih hm' hlex' fuel p1 hf'
      exact ⟨t1 ++ t2, p2, pm_pi T txt fuel _ _ _ _ t1 t2 (pi_head t s v _) h60 h1 h2,
        .cons _ _ _ _ ht1 ht2⟩

end

/-! ### The root element -/

theorem rootBal_head {root : List Item} (h : RootBal root) :
    ∃ q attrs s1 e tl, root = .stag q attrs s1 e :: tl := by
  rcases h with ⟨q, attrs, s1, rfl⟩ | ⟨q, attrs, s1, content, rfl, _⟩
  · exact ⟨q, attrs, s1, true, [], rfl⟩
  · exact ⟨q, attrs, s1, false, content, rfl⟩

section
variable (T : Tables) (hT : TablesOK T) (hG : TablesGrammar T) (hX : TablesComplete T) (txt : Bytes)

include hT hG hX in
/-- the root element begins with `<` and a byte that is none of `!`, `?`, `/` -/
theorem root_head {root : List Item} (h : RootBal root) (hlex : ∀ it ∈ root, it.Lex T ∧ it.StrictI)
    (X : Bytes) : ∃ b R, flat root ++ X = 60 :: b :: R ∧ b ≠ bBang ∧ b ≠ bQuest ∧ b ≠ bSlash := by
  obtain ⟨q, attrs, s1, e, tl, rfl⟩ := rootBal_head h
  obtain ⟨b, R, hR, h1, h2, h3⟩ := stag_head T hT hG hX q attrs s1 e (hlex _ (by simp)).1
  exact ⟨b, R ++ flat tl ++ X, by simp [flat, hR, bLt], h1, h2, h3⟩

include hX in
theorem stop_tagC (b : UInt8) (r : Bytes) (h1 : b ≠ bBang) (h2 : b ≠ bQuest) :
    StopMisc T (60 :: b :: r) := by
  have e1 : ((33 : UInt8) == b) = false := by
    rw [beq_eq_false_iff_ne]; exact fun e => h1 e.symm
  have e2 : ((63 : UInt8) == b) = false := by
    rw [beq_eq_false_iff_ne]; exact fun e => h2 e.symm
  refine ⟨noSp_cons T (hX.delim_not_space 60 (by simp)), ?_, ?_, ?_⟩
  · simp [Lit.commentStart, List.isPrefixOf, e1]
  · simp [Lit.piStart, List.isPrefixOf, e2]
  · simp [Lit.bom, List.isPrefixOf]

include hT hG hX in
/-- `parse_element` follows the items of the root element -/
theorem parseElement_root {root : List Item} (h : RootBal root)
    (hlex : ∀ it ∈ root, it.Lex T ∧ it.StrictI) (p : Nat) (rest : Bytes) :
    ∃ toks p', parseElement T txt ⟨p, flat root ++ rest⟩ = (toks, .ok ⟨p', rest⟩) ∧
      ItemsToks root toks := by
  rcases h with ⟨q, attrs, s1, rfl⟩ | ⟨q, attrs, s1, content, rfl, hb⟩
  · have h0 := (hlex (.stag q attrs s1 true) (by simp)).1
    obtain ⟨t1, p1, h1, ht1⟩ := parseStartTag_item T hT hG hX txt q attrs s1 true rest h0 p
    have e : flat [Item.stag q attrs s1 true] ++ rest = (Item.stag q attrs s1 true).bytes ++ rest := by
      simp only [flat, List.append_nil]
    rw [e]
    refine ⟨t1 ++ [], p1, ?_, .cons _ _ _ _ ht1 .nil⟩
    unfold parseElement
    exact tm_bind_ok_ok h1 rfl
  · have h0 := (hlex (.stag q attrs s1 false) (by simp)).1
    have hlex' : ∀ x ∈ content, x.Lex T ∧ x.StrictI := fun x hx => hlex x (by simp [hx])
    obtain ⟨t1, p1, h1, ht1⟩ :=
      parseStartTag_item T hT hG hX txt q attrs s1 false (flat content ++ rest) h0 p
    obtain ⟨t2, p2, h2, ht2⟩ := parseContent_bal T hT hG hX txt hb hlex'
      ((flat content ++ rest).length + 1) p1 rest (by
        have := items_length_le T content (fun x hx => (hlex' x hx).1)
        simp only [List.length_append]; omega)
    have e : flat (Item.stag q attrs s1 false :: content) ++ rest =
        (Item.stag q attrs s1 false).bytes ++ (flat content ++ rest) := by
      simp only [flat, List.append_assoc]
    rw [e]
    refine ⟨t1 ++ t2, p2, ?_, .cons _ _ _ _ ht1 ht2⟩
    unfold parseElement
    exact tm_bind_ok_ok h1 h2

/-! ### The document -/

include hT hG hX in
/-- what follows the XML declaration is neither a byte order mark nor an XML declaration -/
theorem misc_start (pre : List Item) (hpre : ∀ it ∈ pre, it.isMiscI = true)
    (hlex : ∀ it ∈ pre, it.Lex T ∧ it.StrictI) (rest : Bytes) (hr : StopMisc T rest) :
    Lit.bom.isPrefixOf (flat pre ++ rest) = false ∧
      ∀ p, Stream.startsWithXmlDecl T ⟨p, flat pre ++ rest⟩ = false := by
  cases pre with
  | nil => exact ⟨hr.nobom, fun p => noPi_noDeclW T _ hr.nopi p⟩
  | cons it ms =>
    have e : flat (it :: ms) ++ rest = it.bytes ++ (flat ms ++ rest) := by
      simp only [flat, List.append_assoc]
    have h0 := hlex it (by simp)
    rw [e]
    rcases misc_cases (hpre it (by simp)) with ⟨s, rfl⟩ | ⟨b, rfl⟩ | ⟨t, s, v, rfl⟩
    · have hs : Sp T s := h0.1
      cases s with
      | nil => exact absurd rfl hs.1
      | cons b s' =>
        have hb : byteIsSpace T b = true := hs.2 b (by simp)
        have h128 : b < 128 := hT.space_ascii b hb
        have hEF : ((0xEF : UInt8) == b) = false := by
          rw [beq_eq_false_iff_ne]; rintro rfl; exact absurd h128 (by decide)
        have h60 : ((60 : UInt8) == b) = false := by
          rw [beq_eq_false_iff_ne]; rintro rfl
          rw [hX.delim_not_space 60 (by simp)] at hb; cases hb
        refine ⟨?_, fun p => startsWithXmlDecl_false_of_open T ?_⟩
        · simp [Item.bytes, Lit.bom, List.isPrefixOf, hEF]
        · simp [Item.bytes, Stream.startsWith, Lit.xmlDeclOpen, List.isPrefixOf, h60]
    · refine ⟨?_, fun p => startsWithXmlDecl_false_of_open T ?_⟩
      · simp [Item.bytes, Lit.commentStart, Lit.bom, List.isPrefixOf]
      · simp [Item.bytes, Lit.commentStart, Stream.startsWith, Lit.xmlDeclOpen, List.isPrefixOf]
    · refine ⟨?_, fun p => pi_not_decl T hT hG hX t s v _ h0.1 h0.2 p⟩
      simp [Item.bytes, Lit.piStart, Lit.bom, List.isPrefixOf]

/-- the XML declaration begins with `<?xml` and a white-space byte -/
theorem xmlDecl_head {decl : Bytes} (h : XmlDecl T decl) (X : Bytes) :
    ∃ b R, byteIsSpace T b = true ∧ decl ++ X = 60 :: 63 :: 120 :: 109 :: 108 :: b :: R := by
  obtain ⟨s1, ver, encd, sd, s4, hs1, _, _, _, _, rfl⟩ := h
  cases s1 with
  | nil => exact absurd rfl hs1.1
  | cons b s1' =>
    exact ⟨b, s1' ++ ver ++ encd ++ sd ++ s4 ++ Lit.piEnd ++ X, hs1.2 b (by simp),
      by simp [litXmlDeclOpen]⟩

include hT hG hX in
/-- byte order mark, XML declaration, Misc items -/
theorem prologFrom_complete (bom decl : Bytes) (pre : List Item)
    (hbom : bom = [] ∨ bom = Lit.bom) (hdecl : decl = [] ∨ XmlDecl T decl)
    (hpre : ∀ it ∈ pre, it.isMiscI = true) (hlex : ∀ it ∈ pre, it.Lex T ∧ it.StrictI)
    (rest : Bytes) (hr : StopMisc T rest) :
    ∃ toks p', prologFrom T txt ⟨0, bom ++ (decl ++ (flat pre ++ rest))⟩ =
        (toks, .ok ⟨p', rest⟩) ∧ ItemsToks pre toks := by
  obtain ⟨hY1, hY2⟩ := misc_start T hT hG hX pre hpre hlex rest hr
  -- the byte order mark
  have hb : Lit.bom.isPrefixOf (decl ++ (flat pre ++ rest)) = false := by
    rcases hdecl with rfl | hd
    · exact hY1
    · obtain ⟨b, R, _, e⟩ := xmlDecl_head T hd (flat pre ++ rest)
      rw [e]; simp [Lit.bom, List.isPrefixOf]
  obtain ⟨p0, hA⟩ : ∃ p0, (if Stream.startsWith ⟨0, bom ++ (decl ++ (flat pre ++ rest))⟩ Lit.bom
      then Stream.advance ⟨0, bom ++ (decl ++ (flat pre ++ rest))⟩ 3
      else .ok ⟨0, bom ++ (decl ++ (flat pre ++ rest))⟩) =
        .ok ⟨p0, decl ++ (flat pre ++ rest)⟩ := by
    rcases hbom with rfl | rfl
    · exact ⟨0, by simp only [List.nil_append, Stream.startsWith, hb, Bool.false_eq_true, if_false]⟩
    · exact ⟨3, by simp [Stream.startsWith, Lit.bom, Stream.advance]⟩
  -- the XML declaration
  obtain ⟨p1, hB⟩ : ∃ p1, (if Stream.startsWithXmlDecl T ⟨p0, decl ++ (flat pre ++ rest)⟩
      then parseDeclaration T txt ⟨p0, decl ++ (flat pre ++ rest)⟩
      else .ok ⟨p0, decl ++ (flat pre ++ rest)⟩) = .ok ⟨p1, flat pre ++ rest⟩ := by
    rcases hdecl with rfl | hd
    · exact ⟨p0, by simp only [List.nil_append, hY2 p0, Bool.false_eq_true, if_false]⟩
    · obtain ⟨b, R, hsp, e⟩ := xmlDecl_head T hd (flat pre ++ rest)
      have hs : Stream.startsWithXmlDecl T ⟨p0, decl ++ (flat pre ++ rest)⟩ = true := by
        rw [e]; exact startsWithXmlDecl_cons T p0 b R hsp
      obtain ⟨p1, h1⟩ := parseDeclaration_decl T hT hG hX txt decl (flat pre ++ rest) hd p0
      exact ⟨p1, by simp only [hs, if_true, h1]⟩
  -- Misc
  obtain ⟨toks, p2, hM, htoks⟩ := parseMisc_items T hT hG hX txt rest hr pre hpre hlex
    ((flat pre ++ rest).length + 1) p1 (by
      have := items_length_le T pre (fun x hx => (hlex x hx).1)
      simp only [List.length_append]; omega)
  have hM' : parseMisc T txt ((flat pre ++ rest).length + 1) ⟨p1, flat pre ++ rest⟩ =
      ret toks ⟨p2, rest⟩ := hM
  have hsk := skipSpaces_noSp T rest hr.nosp p2
  refine ⟨toks, p2, ?_, htoks⟩
  unfold prologFrom
  simp only [hA, lift_ok_bind, hB, hM', ok_bind, hsk]
  exact pre_pure _ _

include hT hG hX in
/-- the root element, Misc items, the end of the input -/
theorem parseBody_complete (root post : List Item) (hroot : RootBal root)
    (hpost : ∀ it ∈ post, it.isMiscI = true)
    (hlexr : ∀ it ∈ root, it.Lex T ∧ it.StrictI) (hlexp : ∀ it ∈ post, it.Lex T ∧ it.StrictI)
    (p : Nat) :
    ∃ toks, parseBody T txt ⟨p, flat root ++ flat post⟩ = (toks, .ok ()) ∧
      ItemsToks (root ++ post) toks := by
  obtain ⟨b, R, e0, _, _, _⟩ := root_head T hT hG hX hroot hlexr (flat post)
  have hsk : Stream.skipSpaces T ⟨p, flat root ++ flat post⟩ = ⟨p, flat root ++ flat post⟩ := by
    rw [e0]; exact skipSpaces_ns T p 60 _ (hX.delim_not_space 60 (by simp))
  have hcb : (Stream.currByte? ⟨p, flat root ++ flat post⟩ == some bLt) = true := by
    rw [e0]; rfl
  obtain ⟨t1, p1, h1, ht1⟩ := parseElement_root T hT hG hX txt hroot hlexr p (flat post)
  obtain ⟨t2, p2, h2, ht2⟩ := parseMisc_items T hT hG hX txt [] (stop_nil T) post hpost hlexp
    ((flat post).length + 1) p1 (by
      have := items_length_le T post (fun x hx => (hlexp x hx).1)
      omega)
  rw [List.append_nil] at h2
  have h1' : parseElement T txt ⟨p, flat root ++ flat post⟩ = ret t1 ⟨p1, flat post⟩ := h1
  have h2' : parseMisc T txt ((flat post).length + 1) ⟨p1, flat post⟩ = ret t2 ⟨p2, []⟩ := h2
  refine ⟨t1 ++ t2, ?_, itemsToks_append ht1 ht2⟩
  unfold parseBody parseRootElement
  simp only [hsk, hcb, if_true, h1', ok_bind, h2', Stream.atEnd, List.isEmpty_nil, Bool.not_true,
    Bool.false_eq_true, if_false]
  rw [pre_pure, pre_mk]
  rfl

include hT hG hX in
/-- **Stage A⁻¹**: the tokenizer accepts every concrete syntax and delivers the tokens of its
items. -/
theorem tokenize_complete (bom decl : Bytes) (pre root post : List Item)
    (hbom : bom = [] ∨ bom = Lit.bom) (hdecl : decl = [] ∨ XmlDecl T decl)
    (hpre : ∀ it ∈ pre, it.isMiscI = true) (hpost : ∀ it ∈ post, it.isMiscI = true)
    (hroot : RootBal root)
    (hlex : ∀ it ∈ pre ++ root ++ post, it.Lex T ∧ it.StrictI) (allowDtd : Bool) :
    ∃ toks, tokenize T (bom ++ decl ++ flat (pre ++ root ++ post)) allowDtd = (toks, .ok ()) ∧
      ItemsToks (pre ++ root ++ post) toks := by
  have hlex1 : ∀ it ∈ pre, it.Lex T ∧ it.StrictI := fun x hx => hlex x (by simp [hx])
  have hlex2 : ∀ it ∈ root, it.Lex T ∧ it.StrictI := fun x hx => hlex x (by simp [hx])
  have hlex3 : ∀ it ∈ post, it.Lex T ∧ it.StrictI := fun x hx => hlex x (by simp [hx])
  obtain ⟨b, R, e0, hb1, hb2, _⟩ := root_head T hT hG hX hroot hlex2 (flat post)
  have hstop : StopMisc T (flat root ++ flat post) := by
    rw [e0]; exact stop_tagC T hX b R hb1 hb2
  have eD : bom ++ decl ++ flat (pre ++ root ++ post) =
      bom ++ (decl ++ (flat pre ++ (flat root ++ flat post))) := by
    simp only [flat_append, List.append_assoc]
  generalize htxt : bom ++ decl ++ flat (pre ++ root ++ post) = txt
  obtain ⟨t1, p1, h1, ht1⟩ := prologFrom_complete T hT hG hX txt bom decl pre hbom hdecl hpre hlex1
    (flat root ++ flat post) hstop
  obtain ⟨t2, h2, ht2⟩ := parseBody_complete T hT hG hX txt root post hroot hpost hlex2 hlex3 p1
  have hdoc : Stream.startsWith ⟨p1, flat root ++ flat post⟩ Lit.doctype = false := by
    rw [e0]; exact startsWith_tag5 p1 b R 33 _ hb1
  have h1' : prologFrom T txt ⟨0, bom ++ (decl ++ (flat pre ++ (flat root ++ flat post)))⟩ =
      ret t1 ⟨p1, flat root ++ flat post⟩ := h1
  have h2' : parseBody T txt ⟨p1, flat root ++ flat post⟩ = ret t2 () := h2
  refine ⟨t1 ++ t2, ?_, ?_⟩
  · rw [tokenize_eq]
    conv => lhs; arg 4; rw [← htxt, eD]
    unfold docFrom
    simp only [h1', ok_bind, hdoc, Bool.false_eq_true, if_false, h2', pre_mk]
    rfl
  · rw [List.append_assoc]
    exact itemsToks_append ht1 ht2

end

end Rox.Lemmas.CT
