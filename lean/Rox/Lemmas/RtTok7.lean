/-
  Rox.Lemmas.RtTok7 — the tokenizer on a document whose content is routed through entities in any
  way (`Rox.Spec.Canon7.renderEDoc`): the DOCTYPE with one `<!ENTITY name 'value'>` declaration per
  entity, the root element in which every maximal run of literal text and references is ONE text
  token, and the tokens of every entity's replacement text (re-entering the tokenizer on the value's
  byte range).
-/
import Rox.Lemmas.Rt7Defs
import Rox.Lemmas.RtTok6

namespace Rox.Lemmas
open Rox Rox.Spec Rox.Spec.Canon Rox.Spec.Canon7

namespace Rt7

/-! ### Byte facts -/

theorem entName_ok (i : Nat) : nameOk (entName i) = true := by
  simp only [nameOk, entName, List.isEmpty_cons, Bool.not_false, Bool.true_and, List.all_cons,
    Bool.and_eq_true, List.all_eq_true]
  refine ⟨by decide, ?_⟩
  intro x hx
  rw [List.eq_of_mem_replicate hx]
  decide

theorem entName_length (i : Nat) : (entName i).length = i + 1 := by
  simp [entName]

theorem refBytes_bytes (i : Nat) : ∀ x ∈ refBytes i, isPlain x = true ∧ x ≠ 60 ∧ x ≠ 62 := by
  intro x hx
  simp only [refBytes, entName, List.cons_append, List.mem_cons, List.mem_append, List.not_mem_nil,
    or_false] at hx
  rcases hx with rfl | rfl | hx | rfl
  · exact ⟨by decide, by decide, by decide⟩
  · exact ⟨by decide, by decide, by decide⟩
  · rw [List.eq_of_mem_replicate hx]
    exact ⟨by decide, by decide, by decide⟩
  · exact ⟨by decide, by decide, by decide⟩

theorem items_bytes (bound : Nat) : ∀ (items : List Item), okItems bound items = true →
    ∀ x ∈ renderItems items, isPlain x = true ∧ x ≠ 60 ∧ x ≠ 62
  | [], _, x, hx => by simp [renderItems] at hx
  | .text t :: r, h, x, hx => by
    simp only [okItems, Bool.and_eq_true] at h
    simp only [renderItems, List.mem_append] at hx
    rcases hx with hx | hx
    · have := textOk_all h.1 x hx
      exact ⟨this.1, this.2.1, this.2.2.2⟩
    · exact items_bytes bound r h.2 x hx
  | .ref i :: r, h, x, hx => by
    simp only [okItems, Bool.and_eq_true] at h
    simp only [renderItems, List.mem_append] at hx
    rcases hx with hx | hx
    · exact refBytes_bytes i x hx
    · exact items_bytes bound r h.2 x hx

theorem items_ne (bound : Nat) : ∀ (items : List Item), okItems bound items = true →
    items.isEmpty = false → renderItems items ≠ []
  | [], _, hne => by simp at hne
  | .text t :: r, h, _ => by
    simp only [okItems, Bool.and_eq_true] at h
    cases t with
    | nil => simp [textOk] at h
    | cons b t' => simp [renderItems]
  | .ref i :: r, _, _ => by simp [renderItems, refBytes]

/-! ### A byte string standing at a position of the text -/

/-- `Y` stands at offset `p` of `txt` -/
def Holds (txt : Bytes) (p : Nat) (Y : Bytes) : Prop := ∃ A B, txt = A ++ (Y ++ B) ∧ A.length = p

theorem holds_left {txt : Bytes} {p : Nat} {Y1 Y2 : Bytes} (h : Holds txt p (Y1 ++ Y2)) :
    Holds txt p Y1 := by
  obtain ⟨A, B, e, hl⟩ := h
  exact ⟨A, Y2 ++ B, by rw [e, List.append_assoc], hl⟩

theorem holds_right {txt : Bytes} {p : Nat} {Y1 Y2 : Bytes} (h : Holds txt p (Y1 ++ Y2)) :
    Holds txt (p + Y1.length) Y2 := by
  obtain ⟨A, B, e, hl⟩ := h
  exact ⟨A ++ Y1, B, by rw [e]; simp only [List.append_assoc], by rw [List.length_append, hl]⟩

theorem holds_slice {txt : Bytes} {p : Nat} {Y : Bytes} (h : Holds txt p Y) :
    sliceBytes txt p (p + Y.length) = Y := by
  obtain ⟨A, B, e, hl⟩ := h
  rw [e, sliceBytes, List.drop_left' hl, Nat.add_sub_cancel_left, List.take_left' rfl]

theorem holds_eq {txt : Bytes} {p q : Nat} {Y Z : Bytes} (h : Holds txt p Y) (hp : p = q) (hy : Y = Z) :
    Holds txt q Z := by
  subst hp; subst hy; exact h

/-! ### A run at the end of the input -/

section
variable (T : Tables) (txt : Bytes)

theorem parseContent_plainrun_end (hC : TablesCanon T) (fuel d p : Nat) (X : Bytes)
    (hX : ∀ x ∈ X, isPlain x = true ∧ x ≠ 60 ∧ x ≠ 62) (hne : X ≠ []) :
    parseContent T txt (fuel + 1) d ⟨p, X⟩ =
      pre [.text ⟨p, X⟩ (p, p + X.length)] (parseContent T txt fuel d ⟨p + X.length, []⟩) := by
  have h2 := consumeChars_end T txt hC (fun _ c => c != 60) X
    (by
      intro x hx
      obtain ⟨hp, hne, _⟩ := hX x hx
      refine ⟨hp, fun s => ?_⟩
      have : (x.toNat == 60) = false := by
        rw [beq_eq_false_iff_ne]; exact toNat_ne hne
      simp [bne, this]) p
  have h3 : X.contains bGt = false := by
    rw [Bool.eq_false_iff]
    intro h
    rw [List.contains_iff_mem] at h
    exact (hX _ h).2.2 rfl
  have ht : parseText T txt ⟨p, X⟩ = ret [.text ⟨p, X⟩ (p, p + X.length)] ⟨p + X.length, []⟩ := by
    unfold parseText
    simp only [h2, lift_ok_bind, h3, Bool.false_and, Bool.false_eq_true, if_false, emit_bind]
    rfl
  obtain ⟨b, r, hb, e⟩ : ∃ b r, (b == bLt) = false ∧ X = b :: r := by
    cases X with
    | nil => exact absurd rfl hne
    | cons b t' =>
      refine ⟨b, t', ?_, rfl⟩
      rw [beq_eq_false_iff_ne]
      exact (hX b (by simp)).2.1
  have hstep : ∀ s : Stream, s.rest = b :: r →
      parseContent T txt (fuel + 1) d s =
        (parseText T txt s >>= fun s => parseContent T txt fuel d s) := by
    intro s hs
    simp only [parseContent, hs, hb, Bool.false_eq_true, if_false]
  rw [hstep _ e, ht, ok_bind]

/-- a run followed by the end of the input or by markup is one text token -/
theorem parseContent_grun (hC : TablesCanon T) (fuel d p : Nat) (X rest : Bytes)
    (hX : ∀ x ∈ X, isPlain x = true ∧ x ≠ 60 ∧ x ≠ 62) (hne : X ≠ []) (hr : StopOk rest) :
    parseContent T txt (fuel + 1) d ⟨p, X ++ rest⟩ =
      pre [.text ⟨p, X⟩ (p, p + X.length)] (parseContent T txt fuel d ⟨p + X.length, rest⟩) := by
  rcases hr with rfl | ⟨r, rfl⟩
  · rw [List.append_nil]
    exact parseContent_plainrun_end T txt hC fuel d p X hX hne
  · exact parseContent_plainrun T txt hC fuel d p X r hX hne

end

/-! ### The expected tokens of grouped content -/

mutual
  def gtoks (p : Nat) : GNode → List Token
    | .elem n as ks =>
      [Token.elementStart ⟨p + 1, []⟩ ⟨p + 1, n⟩ p] ++ attrToks (p + 1 + n.length) as ++
        [Token.elementEnd .open (p + 1 + n.length + attrsLen as, p + 1 + n.length + attrsLen as + 1)] ++
        gtoksAll (p + 1 + n.length + attrsLen as + 1) ks ++
        [Token.elementEnd
          (.close ⟨p + 1 + n.length + attrsLen as + 1 + (renderGAll ks).length + 2, []⟩
            ⟨p + 1 + n.length + attrsLen as + 1 + (renderGAll ks).length + 2, n⟩)
          (p + 1 + n.length + attrsLen as + 1 + (renderGAll ks).length,
            p + 1 + n.length + attrsLen as + 1 + (renderGAll ks).length + 3 + n.length)]
    | .comment c => [Token.comment ⟨p + 4, c⟩ (p, p + 7 + c.length)]
    | .run items => [Token.text ⟨p, renderItems items⟩ (p, p + (renderItems items).length)]
  def gtoksAll (p : Nat) : List GNode → List Token
    | [] => []
    | k :: ks => gtoks p k ++ gtoksAll (p + (renderG k).length) ks
end

theorem attrToks_rel' : ∀ (as : List (Bytes × Bytes)) (p : Nat), AttrToks as (attrToks p as)
  | [], _ => .nil
  | (n, v) :: r, p => by
    simp only [attrToks]
    exact .cons n v _ _ _ _ _ _ (attrToks_rel' r _)

mutual
  theorem gtoks_rel (txt : Bytes) : ∀ (g : GNode) (p : Nat), Holds txt p (renderG g) →
      GTokFor txt g (gtoks p g)
    | .elem n as ks, p, h => by
      simp only [gtoks]
      refine .elem n _ _ _ _ _ _ _ (attrToks_rel' as _) (gtoksAll_rel txt ks _ ?_)
      have e : renderG (.elem n as ks) =
          ([60] ++ n ++ renderAttrs as ++ [62]) ++ (renderGAll ks ++ ([60, 47] ++ n ++ [62])) := by
        simp only [renderG, List.append_assoc]
      rw [e] at h
      refine holds_eq (holds_left (holds_right h)) ?_ rfl
      simp only [List.length_append, List.length_cons, List.length_nil, renderAttrs_length]
      omega
    | .comment c, p, _ => by
      simp only [gtoks]
      exact .comment c _ _
    | .run items, p, h => by
      simp only [gtoks]
      exact .run items p (holds_slice (by simpa only [renderG] using h))
  theorem gtoksAll_rel (txt : Bytes) : ∀ (gs : List GNode) (p : Nat), Holds txt p (renderGAll gs) →
      GTokForAll txt gs (gtoksAll p gs)
    | [], _, _ => by simp only [gtoksAll]; exact .nil
    | k :: ks, p, h => by
      simp only [gtoksAll]
      simp only [renderGAll] at h
      exact .cons (gtoks_rel txt k p (holds_left h)) (gtoksAll_rel txt ks _ (holds_right h))
end

/-! ### The content loop over grouped content -/

mutual
  def gsteps : GNode → Nat
    | .elem _ _ ks => 2 + gstepsAll ks
    | .comment _ => 1
    | .run _ => 1
  def gstepsAll : List GNode → Nat
    | [] => 0
    | k :: ks => gsteps k + gstepsAll ks
end

mutual
  theorem gsteps_le (bound : Nat) : ∀ (k : GNode), okG bound k = true → wfG k = true →
      gsteps k ≤ (renderG k).length
    | .elem n as ks, h, hw => by
      simp only [okG, Bool.and_eq_true] at h
      simp only [wfG, Bool.and_eq_true] at hw
      have := gstepsAll_le bound ks h.2 hw.1
      simp only [gsteps, renderG, List.length_append, List.length_cons, List.length_nil]
      omega
    | .comment c, _, _ => by
      simp only [gsteps, renderG, List.length_append, List.length_cons, List.length_nil]
      omega
    | .run items, h, hw => by
      simp only [okG] at h
      simp only [wfG, Bool.not_eq_true'] at hw
      have := items_ne bound items h hw
      simp only [gsteps, renderG]
      cases hx : renderItems items with
      | nil => exact absurd hx this
      | cons _ _ => simp
  theorem gstepsAll_le (bound : Nat) : ∀ (ks : List GNode), okGAll bound ks = true →
      wfGAll ks = true → gstepsAll ks ≤ (renderGAll ks).length
    | [], _, _ => by simp [gstepsAll]
    | k :: ks, h, hw => by
      simp only [okGAll, Bool.and_eq_true] at h
      simp only [wfGAll, Bool.and_eq_true] at hw
      have h1 := gsteps_le bound k h.1 hw.1
      have h2 := gstepsAll_le bound ks h.2 hw.2
      simp only [gstepsAll, renderGAll, List.length_append]
      omega
end

def lastIsRun : List GNode → Bool
  | [] => false
  | [k] => isRun k
  | _ :: r => lastIsRun r

theorem altG_tail {k : GNode} {ks : List GNode} (h : altG (k :: ks) = true) : altG ks = true := by
  cases ks with
  | nil => rfl
  | cons k' r =>
    simp only [altG, Bool.and_eq_true] at h
    exact h.2

theorem renderG_head_lt {k : GNode} (h : isRun k = false) : ∃ r, renderG k = 60 :: r := by
  cases k with
  | elem n as ks =>
    simp only [renderG, List.append_assoc, List.cons_append, List.nil_append]
    exact ⟨_, rfl⟩
  | comment c =>
    simp only [renderG, List.cons_append, List.nil_append]
    exact ⟨_, rfl⟩
  | run items => simp [isRun] at h

theorem gnext_stop {k : GNode} {ks : List GNode} {rest : Bytes} (h : altG (k :: ks) = true)
    (ht : isRun k = true) (hr : lastIsRun (k :: ks) = true → StopOk rest) :
    StopOk (renderGAll ks ++ rest) := by
  cases ks with
  | nil =>
    have := hr (by simpa [lastIsRun] using ht)
    simpa [renderGAll] using this
  | cons k' r =>
    simp only [altG, Bool.and_eq_true, ht, Bool.true_and, Bool.not_eq_true'] at h
    obtain ⟨r', e⟩ := renderG_head_lt h.1
    exact .inr ⟨r' ++ (renderGAll r ++ rest),
      by simp only [renderGAll, e, List.append_assoc, List.cons_append]⟩

section
variable (T : Tables) (txt : Bytes)

mutual
  theorem pc_gnode (hC : TablesCanon T) (bound : Nat) : ∀ (k : GNode), okG bound k = true →
      wfG k = true → ∀ (fuel d p : Nat) (rest : Bytes), (isRun k = true → StopOk rest) →
      parseContent T txt (gsteps k + fuel) d ⟨p, renderG k ++ rest⟩ =
        pre (gtoks p k) (parseContent T txt fuel d ⟨p + (renderG k).length, rest⟩)
    | .elem n as ks, h, hw, fuel, d, p, rest, _ => by
      simp only [okG, Bool.and_eq_true] at h
      simp only [wfG, Bool.and_eq_true] at hw
      obtain ⟨⟨hn, has⟩, hks⟩ := h
      have hr : renderG (.elem n as ks) ++ rest =
          60 :: (n ++ (renderAttrs as ++ 62 :: (renderGAll ks ++ 60 :: 47 :: (n ++ 62 :: rest)))) := by
        simp only [renderG, List.append_assoc, List.cons_append, List.nil_append]
      have hs : gsteps (.elem n as ks) + fuel = (gstepsAll ks + (fuel + 1)) + 1 := by
        simp only [gsteps]; omega
      have hlen : (renderG (.elem n as ks)).length =
          n.length + attrsLen as + (renderGAll ks).length + n.length + 5 := by
        simp only [renderG, List.length_append, List.length_cons, List.length_nil,
          renderAttrs_length]
        omega
      rw [hr, hs, parseContent_open T txt hC _ d p n as _ hn has,
        pc_gall hC bound ks hks hw.1 hw.2 (fuel + 1) (d + 1) _ _ (fun _ => .inr ⟨_, rfl⟩),
        parseContent_close T txt hC fuel d _ n rest hn, pre_pre, pre_pre, hlen]
      simp only [gtoks]
      have e : p + 1 + n.length + attrsLen as + 1 + (renderGAll ks).length + 3 + n.length =
          p + (n.length + attrsLen as + (renderGAll ks).length + n.length + 5) := by omega
      rw [e]
    | .comment c, h, _, fuel, d, p, rest, _ => by
      simp only [okG] at h
      have hr : renderG (.comment c) ++ rest = 60 :: 33 :: 45 :: 45 :: (c ++ 45 :: 45 :: 62 :: rest) := by
        simp only [renderG, List.append_assoc, List.cons_append, List.nil_append]
      have hs : gsteps (.comment c) + fuel = fuel + 1 := by simp only [gsteps]; omega
      have hlen : (renderG (.comment c)).length = 7 + c.length := by
        simp only [renderG, List.length_append, List.length_cons, List.length_nil]
        omega
      rw [hr, hs, parseContent_comment T txt hC fuel d p c rest h, hlen]
      simp only [gtoks]
      have e : p + 7 + c.length = p + (7 + c.length) := by omega
      rw [e]
    | .run items, h, hw, fuel, d, p, rest, hnext => by
      simp only [okG] at h
      simp only [wfG, Bool.not_eq_true'] at hw
      have hs : gsteps (.run items) + fuel = fuel + 1 := by simp only [gsteps]; omega
      simp only [renderG, gtoks]
      rw [hs, parseContent_grun T txt hC fuel d p _ rest (items_bytes bound items h)
        (items_ne bound items h hw) (hnext rfl)]
  theorem pc_gall (hC : TablesCanon T) (bound : Nat) : ∀ (ks : List GNode), okGAll bound ks = true →
      wfGAll ks = true → altG ks = true →
      ∀ (fuel d p : Nat) (rest : Bytes), (lastIsRun ks = true → StopOk rest) →
      parseContent T txt (gstepsAll ks + fuel) d ⟨p, renderGAll ks ++ rest⟩ =
        pre (gtoksAll p ks) (parseContent T txt fuel d ⟨p + (renderGAll ks).length, rest⟩)
    | [], _, _, _, fuel, d, p, rest, _ => by
      simp only [gstepsAll, renderGAll, gtoksAll, List.nil_append, List.length_nil, Nat.zero_add,
        Nat.add_zero, pre_nil]
    | k :: ks, h, hw, hadj, fuel, d, p, rest, hr => by
      simp only [okGAll, Bool.and_eq_true] at h
      simp only [wfGAll, Bool.and_eq_true] at hw
      have hs : gstepsAll (k :: ks) + fuel = gsteps k + (gstepsAll ks + fuel) := by
        simp only [gstepsAll]; omega
      have hrr : renderGAll (k :: ks) ++ rest = renderG k ++ (renderGAll ks ++ rest) := by
        simp only [renderGAll, List.append_assoc]
      have hr' : lastIsRun ks = true → StopOk rest := by
        intro hl
        apply hr
        cases ks with
        | nil => simp [lastIsRun] at hl
        | cons k' r => simpa [lastIsRun] using hl
      rw [hs, hrr, pc_gnode hC bound k h.1 hw.1 _ d p _ (fun ht => gnext_stop hadj ht hr),
        pc_gall hC bound ks h.2 hw.2 (altG_tail hadj) fuel d _ rest hr', pre_pre]
      simp only [gtoksAll, renderGAll, List.length_append, Nat.add_assoc]
end

end


/-! ### The DOCTYPE with its entity declarations -/

section
variable (T : Tables) (txt : Bytes)

theorem parseEntityDecl_gen (hC : TablesCanon T) (hC3 : TablesCanon3 T) (nm v R : Bytes)
    (hnm : nameOk nm = true) (hv : ∀ x ∈ v, x ≠ 39) (p : Nat) :
    parseEntityDecl T txt ⟨p, 60 :: 33 :: 69 :: 78 :: 84 :: 73 :: 84 :: 89 :: 32 :: (nm ++ 32 :: 39 :: (v ++ 39 :: 62 :: R))⟩ =
      ret [.entityDecl ⟨p + 9, nm⟩ ⟨p + 9 + nm.length + 2, v⟩] ⟨p + 9 + nm.length + 2 + v.length + 2, R⟩ := by
  have h39 : byteIsSpace T 39 = false := hC3.brackets_not_space 39 (by simp)
  obtain ⟨b, r, hb, e⟩ := name_head hnm (32 :: 39 :: (v ++ 39 :: 62 :: R))
  have h1 : Stream.advance ⟨p, 60 :: 33 :: 69 :: 78 :: 84 :: 73 :: 84 :: 89 :: 32 :: (nm ++ 32 :: 39 :: (v ++ 39 :: 62 :: R))⟩ 8 =
      .ok ⟨p + 8, 32 :: (nm ++ 32 :: 39 :: (v ++ 39 :: 62 :: R))⟩ := by
    simp [Stream.advance]
  have h2 : Stream.consumeSpaces T txt ⟨p + 8, 32 :: (nm ++ 32 :: 39 :: (v ++ 39 :: 62 :: R))⟩ =
      .ok ⟨p + 8 + 1, nm ++ 32 :: 39 :: (v ++ 39 :: 62 :: R)⟩ := by
    rw [e]
    exact consumeSpaces_sp T txt hC _ b r (hC.lower_not_space b hb)
  have h3 : Stream.tryConsumeByte ⟨p + 8 + 1, nm ++ 32 :: 39 :: (v ++ 39 :: 62 :: R)⟩ bPct =
      (⟨p + 8 + 1, nm ++ 32 :: 39 :: (v ++ 39 :: 62 :: R)⟩, false) := by
    rw [e]
    have : (b == bPct) = false := lower_bne hb (by decide)
    simp [Stream.tryConsumeByte, this]
  have h4 := consumeName_lower T txt hC3 (39 :: (v ++ 39 :: 62 :: R)) nm hnm (p + 8 + 1)
  have h5 := consumeSpaces_sp T txt hC (p + 8 + 1 + nm.length) 39 (v ++ 39 :: 62 :: R) h39
  have h6 := parseEntityDef_run T txt v (62 :: R) hv (p + 8 + 1 + nm.length + 1) true
  have h7 := skipSpaces_ns T (p + 8 + 1 + nm.length + 1 + 1 + v.length + 1) 62 R
    (hC.delims_not_space 62 (by simp))
  have h8 : Stream.consumeByte txt ⟨p + 8 + 1 + nm.length + 1 + 1 + v.length + 1, 62 :: R⟩ bGt =
      .ok ⟨p + 8 + 1 + nm.length + 1 + 1 + v.length + 1 + 1, R⟩ := by
    simp [Stream.consumeByte, bGt]
  unfold parseEntityDecl
  simp only [h1, lift_ok_bind, h2, h3, Bool.false_eq_true, if_false]
  unfold parseEntityDeclBody
  simp only [h4, lift_ok_bind, h5, h6, if_true, emit_bind, h7, h8]
  have e1 : p + 8 + 1 + nm.length + 1 + 1 + v.length + 1 + 1 = p + 9 + nm.length + 2 + v.length + 2 := by
    omega
  have e2 : p + 8 + 1 + nm.length + 1 + 1 = p + 9 + nm.length + 2 := by omega
  have e3 : p + 8 + 1 = p + 9 := by omega
  rw [e1, e2, e3]
  rfl

theorem doctypeLoop_decl (hC : TablesCanon T) (hC3 : TablesCanon3 T) (start fuel p : Nat)
    (nm v R : Bytes) (hnm : nameOk nm = true) (hv : ∀ x ∈ v, x ≠ 39) :
    doctypeLoop T txt start (fuel + 1)
        ⟨p, 60 :: 33 :: 69 :: 78 :: 84 :: 73 :: 84 :: 89 :: 32 :: (nm ++ 32 :: 39 :: (v ++ 39 :: 62 :: R))⟩ =
      pre [.entityDecl ⟨p + 9, nm⟩ ⟨p + 9 + nm.length + 2, v⟩]
        (doctypeLoop T txt start fuel ⟨p + 9 + nm.length + 2 + v.length + 2, R⟩) := by
  have hsk := skipSpaces_ns T p 60
    (33 :: 69 :: 78 :: 84 :: 73 :: 84 :: 89 :: 32 :: (nm ++ 32 :: 39 :: (v ++ 39 :: 62 :: R)))
    (hC.delims_not_space 60 (by simp))
  have a1 : Stream.startsWith
      ⟨p, 60 :: 33 :: 69 :: 78 :: 84 :: 73 :: 84 :: 89 :: 32 :: (nm ++ 32 :: 39 :: (v ++ 39 :: 62 :: R))⟩
      Lit.entity_ = true := by
    simp [Stream.startsWith, Lit.entity_, List.isPrefixOf]
  have hd := parseEntityDecl_gen T txt hC hC3 nm v R hnm hv p
  have hs : doctypeLoop T txt start (fuel + 1)
        ⟨p, 60 :: 33 :: 69 :: 78 :: 84 :: 73 :: 84 :: 89 :: 32 :: (nm ++ 32 :: 39 :: (v ++ 39 :: 62 :: R))⟩ =
      (parseEntityDecl T txt
        ⟨p, 60 :: 33 :: 69 :: 78 :: 84 :: 73 :: 84 :: 89 :: 32 :: (nm ++ 32 :: 39 :: (v ++ 39 :: 62 :: R))⟩ >>=
        fun s => doctypeLoop T txt start fuel s) := by
    simp only [doctypeLoop, Stream.atEnd, List.isEmpty_cons, Bool.false_eq_true, if_false, hsk, a1,
      if_true]
  rw [hs, hd, ok_bind]

end

/-- the name and value spans of the declarations `declsFrom i ents` standing at offset `p` -/
def declSpans (p i : Nat) : List (List ENode) → List (Span × Span)
  | [] => []
  | v :: r => (⟨p + 9, entName i⟩, ⟨p + 9 + (entName i).length + 2, renderAllE v⟩) ::
      declSpans (p + 9 + (entName i).length + 2 + (renderAllE v).length + 2) (i + 1) r

theorem declsFrom_cons_length (i : Nat) (v : List ENode) (r : List (List ENode)) :
    (declsFrom i (v :: r)).length =
      9 + (entName i).length + 2 + (renderAllE v).length + 2 + (declsFrom (i + 1) r).length := by
  simp only [declsFrom, litEntity, List.length_append, List.length_cons, List.length_nil]

theorem declsFrom_length_ge : ∀ (ents : List (List ENode)) (i : Nat),
    ents.length ≤ (declsFrom i ents).length
  | [], _ => by simp
  | v :: r, i => by
    have := declsFrom_length_ge r (i + 1)
    rw [declsFrom_cons_length]
    simp only [List.length_cons]
    omega

theorem declSpans_length : ∀ (ents : List (List ENode)) (p i : Nat),
    (declSpans p i ents).length = ents.length
  | [], _, _ => rfl
  | v :: r, p, i => by simp only [declSpans, List.length_cons, declSpans_length r]

theorem declSpans_get (txt : Bytes) : ∀ (ents : List (List ENode)) (p i : Nat),
    Holds txt p (declsFrom i ents) →
    ∀ j (h1 : j < (declSpans p i ents).length) (h2 : j < ents.length),
      ((declSpans p i ents)[j]).1.bytes = entName (i + j) ∧
      ((declSpans p i ents)[j]).2.bytes = renderAllE ents[j] ∧
      Holds txt ((declSpans p i ents)[j]).2.off (renderAllE ents[j])
  | [], _, _, _, j, _, h2 => by simp at h2
  | v :: r, p, i, h, j, h1, h2 => by
    cases j with
    | zero =>
      simp only [declSpans, List.getElem_cons_zero, Nat.add_zero, true_and]
      have e : declsFrom i (v :: r) = (litEntity ++ entName i ++ [32, 39]) ++
          (renderAllE v ++ ([39, 62] ++ declsFrom (i + 1) r)) := by
        simp only [declsFrom, List.append_assoc]
      rw [e] at h
      refine holds_eq (holds_left (holds_right h)) ?_ rfl
      simp only [litEntity, List.length_append, List.length_cons, List.length_nil]
      omega
    | succ j =>
      simp only [declSpans, List.getElem_cons_succ]
      have e : declsFrom i (v :: r) = (litEntity ++ entName i ++ [32, 39] ++ renderAllE v ++ [39, 62]) ++
          declsFrom (i + 1) r := by
        simp only [declsFrom, List.append_assoc]
      rw [e] at h
      have h' : Holds txt (p + 9 + (entName i).length + 2 + (renderAllE v).length + 2)
          (declsFrom (i + 1) r) := by
        refine holds_eq (holds_right h) ?_ rfl
        simp only [litEntity, List.length_append, List.length_cons, List.length_nil]
        omega
      have := declSpans_get txt r _ (i + 1) h' j (by simpa [declSpans] using h1)
        (by simpa using h2)
      have ei : i + 1 + j = i + (j + 1) := by omega
      rw [ei] at this
      exact this

theorem noApos_of {v : Bytes} (h : v.contains 39 = false) : ∀ x ∈ v, x ≠ 39 := by
  intro x hx e
  subst e
  rw [← List.contains_iff_mem] at hx
  rw [hx] at h
  exact Bool.noConfusion h

section
variable (T : Tables) (txt : Bytes)

theorem doctypeLoop_decls (hC : TablesCanon T) (hC3 : TablesCanon3 T) (start : Nat) (R : Bytes) :
    ∀ (ents : List (List ENode)) (i : Nat), entsOkFrom i ents = true →
      ∀ (fuel p : Nat), ents.length < fuel →
      doctypeLoop T txt start fuel ⟨p, declsFrom i ents ++ 93 :: 62 :: R⟩ =
        ret ((declSpans p i ents).map (fun q => Token.entityDecl q.1 q.2))
          ⟨p + (declsFrom i ents).length + 2, R⟩
  | [], i, _, fuel, p, hf => by
    obtain ⟨fuel, rfl⟩ : ∃ f, fuel = f + 1 := ⟨fuel - 1, by simp at hf; omega⟩
    simp only [declsFrom, List.nil_append, declSpans, List.map_nil, List.length_nil, Nat.add_zero]
    exact doctypeLoop_close T txt hC hC3 start fuel p R
  | v :: r, i, h, fuel, p, hf => by
    obtain ⟨fuel, rfl⟩ : ∃ f, fuel = f + 1 := ⟨fuel - 1, by simp at hf; omega⟩
    simp only [entsOkFrom, Bool.and_eq_true, Bool.not_eq_true'] at h
    have e : declsFrom i (v :: r) ++ 93 :: 62 :: R =
        60 :: 33 :: 69 :: 78 :: 84 :: 73 :: 84 :: 89 :: 32 :: (entName i ++ 32 :: 39 ::
          (renderAllE v ++ 39 :: 62 :: (declsFrom (i + 1) r ++ 93 :: 62 :: R))) := by
      simp only [declsFrom, litEntity, List.append_assoc, List.cons_append, List.nil_append]
    rw [e, doctypeLoop_decl T txt hC hC3 start fuel p (entName i) (renderAllE v) _ (entName_ok i)
      (noApos_of h.1.2),
      doctypeLoop_decls hC hC3 start R r (i + 1) h.2 fuel _ (by simp at hf; omega), pre_mk,
      declsFrom_cons_length]
    simp only [declSpans, List.map_cons, List.cons_append, List.nil_append]
    have e2 : p + 9 + (entName i).length + 2 + (renderAllE v).length + 2 + (declsFrom (i + 1) r).length + 2 =
        p + (9 + (entName i).length + 2 + (renderAllE v).length + 2 + (declsFrom (i + 1) r).length) + 2 := by
      omega
    rw [e2]

theorem parseDoctype_gen (hC : TablesCanon T) (hC3 : TablesCanon3 T) (n R : Bytes)
    (ents : List (List ENode)) (hn : nameOk n = true) (he : entsOkFrom 0 ents = true) (p : Nat) :
    parseDoctype T txt
        ⟨p, 60 :: 33 :: 68 :: 79 :: 67 :: 84 :: 89 :: 80 :: 69 :: 32 :: (n ++ 32 :: 91 :: (declsFrom 0 ents ++ 93 :: 62 :: R))⟩ =
      ret ((declSpans (p + 9 + 1 + n.length + 1 + 1) 0 ents).map (fun q => Token.entityDecl q.1 q.2))
        ⟨p + 9 + 1 + n.length + 1 + 1 + (declsFrom 0 ents).length + 2, R⟩ := by
  have h1 := parseDoctypeStart_run T txt hC hC3 n (declsFrom 0 ents ++ 93 :: 62 :: R) hn p
  have h2 := skipSpaces_ns T (p + 9 + 1 + n.length + 1) 91 (declsFrom 0 ents ++ 93 :: 62 :: R)
    (hC3.brackets_not_space 91 (by simp))
  have h3 : ((91 : UInt8) == bGt) = false := by decide
  have h4 : Stream.advance ⟨p + 9 + 1 + n.length + 1, 91 :: (declsFrom 0 ents ++ 93 :: 62 :: R)⟩ 1 =
      .ok ⟨p + 9 + 1 + n.length + 1 + 1, declsFrom 0 ents ++ 93 :: 62 :: R⟩ := by
    simp [Stream.advance]
  unfold parseDoctype
  simp only [h1, lift_ok_bind, h2, h3, Bool.false_eq_true, if_false, h4]
  exact doctypeLoop_decls T txt hC hC3 _ R ents 0 he _ _
    (by have := declsFrom_length_ge ents 0; simp only [List.length_append]; omega)

end


/-! ### The root element, the document, the replacement texts -/

section
variable (T : Tables) (txt : Bytes)

theorem parseElement_g (hC : TablesCanon T) (bound : Nat) (n : Bytes) (as : List (Bytes × Bytes))
    (ks : List GNode) (hx : okG bound (.elem n as ks) = true) (hw : wfG (.elem n as ks) = true)
    (p : Nat) :
    parseElement T txt ⟨p, renderG (.elem n as ks)⟩ =
      ret (gtoks p (.elem n as ks)) ⟨p + (renderG (.elem n as ks)).length, []⟩ := by
  simp only [okG, Bool.and_eq_true] at hx
  simp only [wfG, Bool.and_eq_true] at hw
  obtain ⟨⟨hn, has⟩, hks⟩ := hx
  have hr : renderG (.elem n as ks) =
      60 :: (n ++ (renderAttrs as ++ 62 :: (renderGAll ks ++ 60 :: 47 :: (n ++ 62 :: [])))) := by
    simp only [renderG, List.append_assoc, List.cons_append, List.nil_append]
  have hlen : (renderG (.elem n as ks)).length =
      n.length + attrsLen as + (renderGAll ks).length + n.length + 5 := by
    simp only [renderG, List.length_append, List.length_cons, List.length_nil, renderAttrs_length]
    omega
  obtain ⟨F, hF⟩ : ∃ F, (renderGAll ks ++ 60 :: 47 :: (n ++ 62 :: [])).length + 1 =
      gstepsAll ks + (F + 1) := by
    have := gstepsAll_le bound ks hks hw.1
    refine ⟨(renderGAll ks ++ 60 :: 47 :: (n ++ 62 :: [])).length - gstepsAll ks, ?_⟩
    simp only [List.length_append]
    omega
  rw [hlen, hr]
  unfold parseElement
  simp only [parseStartTag_run T txt hC n as _ hn has p, ok_bind, if_true]
  rw [hF, pc_gall T txt hC bound ks hks hw.1 hw.2 (F + 1) 0 _ _ (fun _ => .inr ⟨_, rfl⟩),
    parseContent_close0 T txt hC F _ n [] hn, pre_mk, pre_mk]
  simp only [gtoks]
  have e : p + 1 + n.length + attrsLen as + 1 + (renderGAll ks).length + 3 + n.length =
      p + (n.length + attrsLen as + (renderGAll ks).length + n.length + 5) := by omega
  rw [e]
  simp only [List.append_assoc]

/-- re-entering the tokenizer on a byte range that holds grouped content -/
theorem tokenizeContent_g (hC : TablesCanon T) (bound : Nat) (gs : List GNode)
    (hok : okGAll bound gs = true) (hwf : wfGAll gs = true) (halt : altG gs = true) (p : Nat)
    (hh : Holds txt p (renderGAll gs)) :
    tokenizeContent T txt p (p + (renderGAll gs).length) =
      (gtoksAll p gs, .ok ⟨p + (renderGAll gs).length, []⟩) := by
  obtain ⟨F, hF⟩ : ∃ F, (renderGAll gs).length + 1 = gstepsAll gs + (F + 1) :=
    ⟨(renderGAll gs).length - gstepsAll gs, by have := gstepsAll_le bound gs hok hwf; omega⟩
  unfold tokenizeContent Stream.ofRange
  simp only [holds_slice hh]
  rw [hF]
  have h := pc_gall T txt hC bound gs hok hwf halt (F + 1) 0 p [] (fun _ => .inl rfl)
  rw [List.append_nil] at h
  rw [h, parseContent_nil, pre_mk, List.append_nil]
  rfl

end

/-- the document: prolog (nothing), DOCTYPE, root element, end -/
theorem tokenize_doc (T : Tables) (hC : TablesCanon T) (hC3 : TablesCanon3 T) (D n : Bytes)
    (ents : List (List ENode)) (b : UInt8) (r : Bytes) (L : List Token) (e : Nat)
    (hn : nameOk n = true) (he : entsOkFrom 0 ents = true) (hb : isLower b = true)
    (eD : D = 60 :: 33 :: 68 :: 79 :: 67 :: 84 :: 89 :: 80 :: 69 :: 32 :: (n ++ 32 :: 91 ::
      (declsFrom 0 ents ++ 93 :: 62 :: 60 :: b :: r)))
    (hel : parseElement T D ⟨0 + 9 + 1 + n.length + 1 + 1 + (declsFrom 0 ents).length + 2, 60 :: b :: r⟩ =
      ret L ⟨e, []⟩) :
    tokenize T D true =
      ((declSpans (0 + 9 + 1 + n.length + 1 + 1) 0 ents).map (fun q => Token.entityDecl q.1 q.2) ++ L,
        .ok ()) := by
  have hdt := parseDoctype_gen T D hC hC3 n (60 :: b :: r) ents hn he 0
  have hmisc2 := fun fuel => parseMisc_tag T D hC fuel
    (0 + 9 + 1 + n.length + 1 + 1 + (declsFrom 0 ents).length + 2) b r hb
  have hbom : Stream.startsWith ⟨0, D⟩ Lit.bom = false := by
    rw [eD]; simp [Stream.startsWith, Lit.bom, List.isPrefixOf]
  have hdecl : Stream.startsWithXmlDecl T ⟨0, D⟩ = false := by
    rw [eD]; simp [Stream.startsWithXmlDecl, Stream.startsWith, Lit.xmlDeclOpen, List.isPrefixOf]
  have hdoc : Stream.startsWith ⟨0, D⟩ Lit.doctype = true := by
    rw [eD]; simp [Stream.startsWith, Lit.doctype, List.isPrefixOf]
  have hsk : Stream.skipSpaces T ⟨0, D⟩ = ⟨0, D⟩ := by
    rw [eD]; exact skipSpaces_ns T 0 60 _ (hC.delims_not_space 60 (by simp))
  have hmisc : parseMisc T D (D.length + 1) ⟨0, D⟩ = ret [] ⟨0, D⟩ := by
    have h1 : Stream.startsWith ⟨0, D⟩ Lit.commentStart = false := by
      rw [eD]; simp [Stream.startsWith, Lit.commentStart, List.isPrefixOf]
    have h2 : Stream.startsWith ⟨0, D⟩ Lit.piStart = false := by
      rw [eD]; simp [Stream.startsWith, Lit.piStart, List.isPrefixOf]
    have h3 : Stream.atEnd ⟨0, D⟩ = false := by
      rw [eD]; rfl
    simp only [parseMisc, h3, Bool.false_eq_true, if_false, hsk, h1, h2]
    rfl
  have hprolog : parseProlog T D = ret [] ⟨0, D⟩ := by
    unfold parseProlog
    simp only [Stream.new, hbom, hdecl, Bool.false_eq_true, if_false, lift_ok_bind, hmisc, ok_bind,
      hsk, pre_nil]
    rfl
  rw [← eD] at hdt
  have hbody := parseBody_of_element T D hC _ b r _ _ hel
  unfold tokenize parseDocument
  simp only [hprolog, ok_bind, hdoc, if_true, Bool.not_true, Bool.false_eq_true, if_false, hdt,
    List.length_cons, hmisc2, hbody, pre_mk]
  rfl

set_option linter.unusedVariables false in
/-- **Tokenizer, general entity document** (`allow_dtd = true`): the tokens are one
`EntityDeclaration` per entity (name `entName i`, value = the rendering of its replacement text, as a
byte range of the document) followed by tokens presenting the root element with its content grouped
into runs; and re-entering the tokenizer on the byte range of entity `i`'s value delivers tokens
presenting that entity's (grouped) replacement text and stops normally. -/
theorem tokenize_edoc (T : Tables) (hT : TablesOK T) (hC : TablesCanon T) (hC3 : TablesCanon3 T)
    (d : EDoc) (hd : docOkE d = true) :
    ∃ (decls : List (Span × Span)) (rootToks : List Token),
      tokenize T (renderEDoc d) true =
        (decls.map (fun p => Token.entityDecl p.1 p.2) ++ rootToks, .ok ()) ∧
      decls.length = d.ents.length ∧
      (∀ i (h1 : i < decls.length) (h2 : i < d.ents.length),
        decls[i].1.bytes = entName i ∧ decls[i].2.bytes = renderAllE d.ents[i] ∧
        ∃ ts st, tokenizeContent T (renderEDoc d) decls[i].2.off
              (decls[i].2.off + decls[i].2.bytes.length) = (ts, .ok st) ∧
          GTokForAll (renderEDoc d) (groupAll [] d.ents[i]) ts) ∧
      GTokFor (renderEDoc d) (.elem d.name d.attrs (groupAll [] d.kids)) rootToks := by
  obtain ⟨ents, name, attrs, kids⟩ := d
  simp only [docOkE, okE, Bool.and_eq_true] at hd
  obtain ⟨he, ⟨hn, has⟩, hks⟩ := hd
  -- the grouped root element
  have hokG : okG ents.length (.elem name attrs (groupAll [] kids)) = true := by
    simp only [okG, ok_group, okItems, hn, has, hks, Bool.and_self]
  have hwfG : wfG (.elem name attrs (groupAll [] kids)) = true := by
    simp only [wfG, (wf_group [] kids).1, (wf_group [] kids).2, Bool.and_self]
  have hrE : renderE (.elem name attrs kids) = renderG (.elem name attrs (groupAll [] kids)) := by
    simp only [renderE, renderG, render_group, renderItems, List.nil_append]
  obtain ⟨b, r, hb, eRE⟩ : ∃ b r, isLower b = true ∧
      renderG (.elem name attrs (groupAll [] kids)) = 60 :: b :: r := by
    obtain ⟨b, r, hb, e⟩ := name_head hn
      (renderAttrs attrs ++ 62 :: (renderGAll (groupAll [] kids) ++ 60 :: 47 :: (name ++ 62 :: [])))
    refine ⟨b, r, hb, ?_⟩
    rw [← e]
    simp only [renderG, List.append_assoc, List.cons_append, List.nil_append]
  -- the document, byte by byte
  have eD : renderEDoc ⟨ents, name, attrs, kids⟩ =
      60 :: 33 :: 68 :: 79 :: 67 :: 84 :: 89 :: 80 :: 69 :: 32 :: (name ++ 32 :: 91 ::
        (declsFrom 0 ents ++ 93 :: 62 :: 60 :: b :: r)) := by
    rw [← eRE, ← hrE]
    simp only [renderEDoc, litDoctype, List.append_assoc, List.cons_append, List.nil_append]
  have hHd : Holds (renderEDoc ⟨ents, name, attrs, kids⟩) (0 + 9 + 1 + name.length + 1 + 1)
      (declsFrom 0 ents) := by
    refine ⟨litDoctype ++ name ++ [32, 91], [93, 62] ++ renderE (.elem name attrs kids), ?_, ?_⟩
    · simp only [renderEDoc, List.append_assoc]
    · simp only [litDoctype, List.length_append, List.length_cons, List.length_nil]
  have hHr : Holds (renderEDoc ⟨ents, name, attrs, kids⟩)
      (0 + 9 + 1 + name.length + 1 + 1 + (declsFrom 0 ents).length + 2)
      (renderG (.elem name attrs (groupAll [] kids))) := by
    refine ⟨litDoctype ++ name ++ [32, 91] ++ declsFrom 0 ents ++ [93, 62], [], ?_, ?_⟩
    · rw [← hrE]
      simp only [renderEDoc, List.append_assoc, List.append_nil]
    · simp only [litDoctype, List.length_append, List.length_cons, List.length_nil]
  have hel : parseElement T (renderEDoc ⟨ents, name, attrs, kids⟩)
      ⟨0 + 9 + 1 + name.length + 1 + 1 + (declsFrom 0 ents).length + 2, 60 :: b :: r⟩ =
      ret (gtoks (0 + 9 + 1 + name.length + 1 + 1 + (declsFrom 0 ents).length + 2)
          (.elem name attrs (groupAll [] kids)))
        ⟨0 + 9 + 1 + name.length + 1 + 1 + (declsFrom 0 ents).length + 2 +
          (renderG (.elem name attrs (groupAll [] kids))).length, []⟩ := by
    rw [← eRE]
    exact parseElement_g T _ hC ents.length name attrs _ hokG hwfG _
  refine ⟨declSpans (0 + 9 + 1 + name.length + 1 + 1) 0 ents,
    gtoks (0 + 9 + 1 + name.length + 1 + 1 + (declsFrom 0 ents).length + 2)
      (.elem name attrs (groupAll [] kids)), ?_, declSpans_length _ _ _, ?_, gtoks_rel _ _ _ hHr⟩
  · exact tokenize_doc T hC hC3 _ name ents b r _ _ hn he hb eD hel
  · intro i h1 h2
    dsimp only at h2 ⊢
    obtain ⟨g1, g2, g3⟩ := declSpans_get _ ents _ 0 hHd i h1 h2
    rw [Nat.zero_add i] at g1
    refine ⟨g1, g2, ?_⟩
    obtain ⟨hoki, _⟩ := entsOk_get ents 0 he i h2
    have hokg : okGAll (0 + i) (groupAll [] ents[i]) = true := by
      simp only [ok_group, okItems, Bool.true_and, hoki]
    have hrg : renderGAll (groupAll [] ents[i]) = renderAllE ents[i] := by
      simp only [render_group, renderItems, List.nil_append]
    rw [← hrg] at g3
    have := tokenizeContent_g T (renderEDoc ⟨ents, name, attrs, kids⟩) hC (0 + i)
      (groupAll [] ents[i]) hokg (wf_group [] ents[i]).1 (wf_group [] ents[i]).2 _ g3
    rw [g2, ← hrg]
    exact ⟨_, _, this, gtoksAll_rel _ _ _ g3⟩

end Rt7

end Rox.Lemmas
