/-
  Rox.Lemmas.MirrorNsBuild1 — Stage B'' of the proof of `accepted_namespaces_resolve`, part 1: how
  the namespace table is read back (`readIdx`, `readRange`, `viewE`), stability of the reading when
  the tables grow, lookups (`get_ns_idx_by_prefix` ↔ `lookup`), and the LIST form of
  `resolve_namespaces`: the in-scope range of a new element reads as its own declarations in source
  order followed by the bindings of its parent that are not overridden, in the parent's order.
-/
import Rox.Lemmas.MirrorNsDefs
import Rox.Lemmas.AttrNs
import Rox.Lemmas.MirrorBuild1

namespace Rox.Lemmas.MN
open Rox Rox.Spec Rox.Spec.Grammar Rox.Spec.Mirror Rox.Spec.MirrorNs Rox.Props.C06 Rox.Lemmas.RtB

/-! ### Reading the table -/

/-- the binding behind a table index -/
def entryAt (values : Array Namespace) (k : Nat) : Option (Option Bytes × Bytes) :=
  (values[k]?).map fun v => (v.name.map (·.bytes), v.uri.bytes)

/-- a list of table indices, read as bindings -/
def readIdx (values : Array Namespace) (l : List Nat) : Scope := l.filterMap (entryAt values)

/-- the slice `tree_order[r.1 .. r.2]`, read as bindings -/
def readRange (ns : Namespaces) (r : Range) : Scope := readIdx ns.values (rangeList ns r)

/-- total variant of `entryAt` -/
def ent (values : Array Namespace) (k : Nat) : Option Bytes × Bytes :=
  (entryAt values k).getD (none, [])

/-- how `viewNs` reads a node, from its kind -/
def viewE (d : Doc) : Kind → Option NsView
  | .element nsIdx _ attrs nss =>
    some (uriAt d nsIdx, readRange d.ns nss,
      ((d.attrs.toList.drop attrs.1).take (attrs.2 - attrs.1)).map fun a => uriAt d a.nsIdx)
  | _ => none

theorem viewNs_eq (d : Doc) (n : NodeData) : viewNs d n = viewE d n.kind := by
  obtain ⟨p, a, b, c, k, r⟩ := n
  cases k <;> rfl

/-- the in-scope bindings of a node, from its kind (none for a node that is not an element) -/
def scopeK (ns : Namespaces) : Kind → Scope
  | .element _ _ _ nss => readRange ns nss
  | _ => []

theorem readIdx_nil (values : Array Namespace) : readIdx values [] = [] := rfl

theorem readIdx_append (values : Array Namespace) (l1 l2 : List Nat) :
    readIdx values (l1 ++ l2) = readIdx values l1 ++ readIdx values l2 := by
  unfold readIdx
  rw [List.filterMap_append]

theorem entryAt_some {values : Array Namespace} {k : Nat} (h : k < values.size) :
    entryAt values k = some (ent values k) := by
  unfold ent entryAt
  rw [Array.getElem?_eq_getElem h]
  rfl

theorem readIdx_map (values : Array Namespace) (l : List Nat) (h : ∀ k ∈ l, k < values.size) :
    readIdx values l = l.map (ent values) := by
  induction l with
  | nil => rfl
  | cons k t ih =>
    unfold readIdx at ih ⊢
    rw [List.filterMap_cons, entryAt_some (h k (by simp)), List.map_cons,
      ih (fun j hj => h j (by simp [hj]))]

theorem readIdx_congr {values values' : Array Namespace} (l : List Nat)
    (hv : ∀ k, k < values.size → values'[k]? = values[k]?) (h : ∀ k ∈ l, k < values.size) :
    readIdx values' l = readIdx values l := by
  unfold readIdx
  apply filterMap_congr'
  intro k hk
  unfold entryAt
  rw [hv k (h k hk)]

theorem uriAt_congr {d d' : Doc} (i : Option Nat)
    (hv : ∀ k, k < d.ns.values.size → d'.ns.values[k]? = d.ns.values[k]?)
    (h : ∀ j, i = some j → j < d.ns.values.size) : uriAt d' i = uriAt d i := by
  cases i with
  | none => rfl
  | some j =>
    unfold uriAt
    simp only [Option.bind_some]
    rw [hv j (h j rfl)]

/-! ### Stability -/

/-- the tables of `d'` extend those of `d` -/
structure TExt (d d' : Doc) : Prop where
  vals : ∀ k, k < d.ns.values.size → d'.ns.values[k]? = d.ns.values[k]?
  tree : ∃ more, d'.ns.treeOrder.toList = d.ns.treeOrder.toList ++ more
  attrs : ∃ more, d'.attrs.toList = d.attrs.toList ++ more

theorem TExt.refl (d : Doc) : TExt d d := ⟨fun _ _ => rfl, ⟨[], by simp⟩, ⟨[], by simp⟩⟩

theorem TExt.of_eq {d d' : Doc} (hn : d'.ns = d.ns) (ha : d'.attrs = d.attrs) : TExt d d' := by
  refine ⟨fun _ _ => by rw [hn], ⟨[], by rw [hn]; simp⟩, ⟨[], by rw [ha]; simp⟩⟩

/-- what the reading of an element node depends on lies inside the tables -/
def GoodE (d : Doc) : Kind → Prop
  | .element tn _ attrs nss =>
    nss.1 ≤ nss.2 ∧ nss.2 ≤ d.ns.treeOrder.size ∧ attrs.1 ≤ attrs.2 ∧ attrs.2 ≤ d.attrs.size ∧
      (∀ j, tn = some j → j < d.ns.values.size)
  | _ => True

theorem rangeList_mem_lt {ns : Namespaces} (hi : NsInv ns) (r : Range) :
    ∀ k ∈ rangeList ns r, k < ns.values.size := by
  intro k hk
  unfold rangeList at hk
  exact hi.tree_lt k (List.mem_of_mem_drop (List.mem_of_mem_take hk))

theorem rangeList_ext {ns ns' : Namespaces} {more : List Nat}
    (ht : ns'.treeOrder.toList = ns.treeOrder.toList ++ more) (r : Range)
    (h : r.2 ≤ ns.treeOrder.size) : rangeList ns' r = rangeList ns r := by
  unfold rangeList
  rw [ht]
  exact take_drop_append _ _ _ _ (by simpa using h)

theorem readRange_ext {d d' : Doc} (he : TExt d d') (hi : NsInv d.ns) (r : Range)
    (h : r.2 ≤ d.ns.treeOrder.size) : readRange d'.ns r = readRange d.ns r := by
  obtain ⟨more, ht⟩ := he.tree
  unfold readRange
  rw [rangeList_ext ht r h]
  exact readIdx_congr _ he.vals (rangeList_mem_lt hi r)

theorem scopeK_ext {d d' : Doc} (he : TExt d d') (hi : NsInv d.ns) (k : Kind) (hg : GoodE d k) :
    scopeK d'.ns k = scopeK d.ns k := by
  cases k with
  | element tn name attrs nss => exact readRange_ext he hi nss hg.2.1
  | _ => rfl

theorem viewE_ext {d d' : Doc} (he : TExt d d') (hi : NsInv d.ns)
    (ha : ∀ a ∈ d.attrs.toList, ∀ j, a.nsIdx = some j → j < d.ns.values.size)
    (k : Kind) (hg : GoodE d k) : viewE d' k = viewE d k := by
  cases k with
  | element tn name attrs nss =>
    obtain ⟨_, g2, _, g4, g5⟩ := hg
    obtain ⟨more, hat⟩ := he.attrs
    show some (uriAt d' tn, readRange d'.ns nss,
        ((d'.attrs.toList.drop attrs.1).take (attrs.2 - attrs.1)).map fun a => uriAt d' a.nsIdx) =
      some (uriAt d tn, readRange d.ns nss,
        ((d.attrs.toList.drop attrs.1).take (attrs.2 - attrs.1)).map fun a => uriAt d a.nsIdx)
    rw [uriAt_congr tn he.vals g5, readRange_ext he hi nss g2, hat,
      take_drop_append _ _ _ _ (by simpa using g4)]
    congr 3
    apply List.map_congr_left
    intro a ham
    exact uriAt_congr _ he.vals (ha a (List.mem_of_mem_drop (List.mem_of_mem_take ham)))
  | _ => rfl

/-! ### Lookups -/

theorem lookup_cons (b : Option Bytes × Bytes) (r : Scope) (p : Option Bytes) :
    lookup (b :: r) p = if b.1 == p then some b.2 else lookup r p := by
  unfold lookup
  rw [List.find?_cons]
  cases b.1 == p <;> rfl

/-- the first-binding search over table indices is the `lookup` of the bindings read -/
theorem scopeFind_lookup (ns : Namespaces) (po : Option Bytes) :
    ∀ (l : List Nat), (∀ k ∈ l, k < ns.values.size) →
      ((scopeFind ns l po).bind fun k => (ns.values[k]?).map fun v => v.uri.bytes) =
        lookup (readIdx ns.values l) po
  | [], _ => rfl
  | k :: t, h => by
    have hk : k < ns.values.size := h k (by simp)
    have ih := scopeFind_lookup ns po t (fun j hj => h j (by simp [hj]))
    unfold scopeFind at ih ⊢
    unfold readIdx at ih ⊢
    rw [List.find?_cons, List.filterMap_cons]
    unfold entryAt
    rw [Array.getElem?_eq_getElem hk]
    simp only [Option.map_some]
    rw [lookup_cons]
    show (match (ns.values[k].nameBytes == po) with
      | true => some k
      | false => List.find? _ t).bind _ = _
    have : (ns.values[k].name.map fun x => x.bytes) = ns.values[k].nameBytes := rfl
    rw [this]
    cases ns.values[k].nameBytes == po with
    | true =>
      simp only [Option.bind_some, if_true]
      rw [Array.getElem?_eq_getElem hk]
      rfl
    | false =>
      simp only [Bool.false_eq_true, if_false]
      exact ih

theorem uriAt_scopeFind (d : Doc) (l : List Nat) (hl : ∀ k ∈ l, k < d.ns.values.size)
    (po : Option Bytes) : uriAt d (scopeFind d.ns l po) = lookup (readIdx d.ns.values l) po :=
  scopeFind_lookup d.ns po l hl

/-- `Namespaces::exists`' scan, when it does not panic, is `any` over the bindings read -/
theorem existsAux_any (values : Array Namespace) (pfx : Option Bytes) :
    ∀ (l : List Nat) (b : Bool), Namespaces.existsAux values pfx l = .ok b →
      b = (readIdx values l).any fun o => o.1 == pfx
  | [], b, h => by
    simp only [Namespaces.existsAux, Res.ok.injEq] at h
    subst h; rfl
  | idx :: t, b, h => by
    simp only [Namespaces.existsAux] at h
    split at h
    · cases h
    · rename_i v hv
      unfold readIdx
      rw [List.filterMap_cons]
      unfold entryAt
      rw [hv]
      simp only [Option.map_some, List.any_cons]
      have : (v.name.map fun x => x.bytes) = v.nameBytes := rfl
      rw [this]
      split at h
      · rename_i hb
        simp only [Res.ok.injEq] at h
        subst h
        rw [hb]; rfl
      · rename_i hb
        simp only [Bool.not_eq_true] at hb
        rw [hb, Bool.false_or]
        exact existsAux_any values pfx t b h

theorem exists_any (ns : Namespaces) (start : Nat) (pfx : Option Bytes) (b : Bool)
    (h : ns.exists start pfx = .ok b) :
    start ≤ ns.treeOrder.size ∧
      b = (readIdx ns.values (ns.treeOrder.toList.drop start)).any fun o => o.1 == pfx := by
  unfold Namespaces.exists at h
  split at h
  · cases h
  · exact ⟨by omega, existsAux_any ns.values pfx _ b h⟩

/-! ### `resolve_namespaces`, list form -/

/-- Loop invariant of `inheritLoop`, list form: `P` says whether a prefix is declared by the
element itself; the prefixes of the parent's entries are pairwise different. -/
theorem inheritLoop_list (start : Nat) (P : Option Bytes → Bool) :
    ∀ (l : List Nat) (ns ns' : Namespaces), NsInv ns → start ≤ ns.treeOrder.size →
      (∀ i ∈ l, i < ns.treeOrder.size) →
      ((l.filterMap fun i => ns.treeOrder[i]?).map fun k => (ent ns.values k).1).Nodup →
      (∀ k ∈ (l.filterMap fun i => ns.treeOrder[i]?),
        ((readIdx ns.values (ns.treeOrder.toList.drop start)).any fun o => o.1 == (ent ns.values k).1) =
          P (ent ns.values k).1) →
      inheritLoop start l ns = .ok ns' →
      ns'.values = ns.values ∧
      ns'.treeOrder.toList = ns.treeOrder.toList ++
        (l.filterMap fun i => ns.treeOrder[i]?).filter fun k => !P (ent ns.values k).1 := by
  intro l
  induction l with
  | nil =>
    intro ns ns' _ _ _ _ _ h
    simp only [inheritLoop, Res.ok.injEq] at h
    subst h
    exact ⟨rfl, by simp⟩
  | cons i r ih =>
    intro ns ns' hinv hstart hl hnd hP h
    simp only [inheritLoop] at h
    have hi : i < ns.treeOrder.size := hl i (by simp)
    have hr : ∀ j ∈ r, j < ns.treeOrder.size := fun j hj => hl j (by simp [hj])
    rw [Array.getElem?_eq_getElem hi] at h
    dsimp only at h
    rw [List.filterMap_cons, Array.getElem?_eq_getElem hi] at hnd hP ⊢
    dsimp only at hnd hP ⊢
    rw [List.map_cons, List.nodup_cons] at hnd
    split at h
    · cases h
    · rename_i v hv
      have hvlt : ns.treeOrder[i] < ns.values.size := (Array.getElem?_eq_some_iff.mp hv).1
      have hname : (ent ns.values ns.treeOrder[i]).1 = v.nameBytes := by
        unfold ent entryAt
        rw [hv]; rfl
      obtain ⟨ex, hex, h⟩ := Res.bind_eq_ok.mp h
      obtain ⟨_, hex'⟩ := exists_any ns start _ ex hex
      have hexP : ex = P v.nameBytes := by
        rw [hex', ← hname]
        exact hP _ (by simp)
      rw [List.filter_cons, hname, ← hexP]
      cases ex with
      | true =>
        simp only [Bool.not_true, Bool.false_eq_true, if_false, Res.pure_eq, Res.bind_ok] at h ⊢
        exact ih ns ns' hinv hstart hr hnd.2 (fun k hk => hP k (by simp [hk])) h
      | false =>
        simp only [Bool.not_false, if_true] at h ⊢
        obtain ⟨ns1, hpr, h⟩ := Res.bind_eq_ok.mp h
        unfold Namespaces.pushRef at hpr
        rw [Array.getElem?_eq_getElem hi] at hpr
        simp only [Res.ok.injEq] at hpr
        subst hpr
        have hfm : List.filterMap (fun j => (ns.treeOrder.push ns.treeOrder[i])[j]?) r =
            List.filterMap (fun j => ns.treeOrder[j]?) r := by
          apply filterMap_congr'
          intro j hj
          have := hr j hj
          rw [Array.getElem?_push]
          have : j ≠ ns.treeOrder.size := by omega
          simp [this]
        have hinv1 : NsInv { ns with treeOrder := ns.treeOrder.push ns.treeOrder[i] } := by
          refine ⟨hinv.size_le, ?_, hinv.sorted_lt⟩
          intro k hk
          simp only [Array.toList_push, List.mem_append, List.mem_singleton] at hk
          rcases hk with hk | rfl
          · exact hinv.tree_lt k hk
          · exact hvlt
        obtain ⟨g1, g2⟩ := ih { ns with treeOrder := ns.treeOrder.push ns.treeOrder[i] } ns' hinv1
          (by simp only [Array.size_push]; omega)
          (by
            intro j hj
            simp only [Array.size_push]
            have := hr j hj; omega)
          (by simp only [hfm]; exact hnd.2)
          (by
            simp only [hfm, Array.toList_push]
            intro k hk
            rw [List.drop_append_of_le_length (by simpa using hstart), readIdx_append,
              List.any_append, hP k (by simp [hk])]
            have hne : (ent ns.values k).1 ≠ v.nameBytes := by
              intro e
              apply hnd.1
              rw [hname, ← e]
              exact List.mem_map.mpr ⟨k, hk, rfl⟩
            have : (readIdx ns.values [ns.treeOrder[i]]).any (fun o => o.1 == (ent ns.values k).1) =
                false := by
              unfold readIdx
              simp only [List.filterMap_cons, List.filterMap_nil, entryAt_some hvlt, List.any_cons,
                List.any_nil, Bool.or_false, hname]
              simpa using fun e => hne e.symm
            rw [this, Bool.or_false]) h
        refine ⟨g1, ?_⟩
        rw [g2]
        simp only [hfm, Array.toList_push, List.append_assoc, List.singleton_append]

/-- the in-scope bindings of the node with id `id` -/
def nodeScope (d : Doc) (id : Nat) : Scope :=
  match d.nodes[id]? with
  | some n => scopeK d.ns n.kind
  | none => []

theorem filter_not_any_nil (sc : Scope) :
    (sc.filter fun b => !(([] : Scope).any fun o => o.1 == b.1)) = sc := by
  simp

/-- **`resolve_namespaces`, list form**: the range it returns reads as the declarations pending
since `nsStartIdx` (in push order) followed by the parent's bindings whose prefix is not among
them (in the parent's order). -/
theorem resolveNamespaces_list (c c1 : Ctx) (nss : Range) (hp : c.parentId < c.doc.nodes.size)
    (hn : NsOk c.doc c.nsStartIdx) (hnd : NdScope (nodeScope c.doc c.parentId))
    (h : resolveNamespaces c = .ok (c1, nss)) :
    c1.doc.ns.values = c.doc.ns.values ∧
    (∃ more, c1.doc.ns.treeOrder.toList = c.doc.ns.treeOrder.toList ++ more) ∧
    readRange c1.doc.ns nss =
      readIdx c.doc.ns.values (c.doc.ns.treeOrder.toList.drop c.nsStartIdx) ++
        (nodeScope c.doc c.parentId).filter fun b =>
          !((readIdx c.doc.ns.values (c.doc.ns.treeOrder.toList.drop c.nsStartIdx)).any
            fun o => o.1 == b.1) := by
  unfold resolveNamespaces at h
  have hp' : c.nodeAt c.parentId = .ok c.doc.nodes[c.parentId] := by
    unfold Ctx.nodeAt; rw [Array.getElem?_eq_getElem hp]
  rw [hp'] at h
  simp only [Res.bind_ok] at h
  have hsc : nodeScope c.doc c.parentId = scopeK c.doc.ns c.doc.nodes[c.parentId].kind := by
    unfold nodeScope
    rw [Array.getElem?_eq_getElem hp]
  rw [hsc] at hnd ⊢
  split at h
  · rename_i tn name attrs parentNs hk
    rw [hk] at hnd ⊢
    split at h
    · rename_i heq
      have heq' : c.nsStartIdx = c.doc.ns.treeOrder.size := by simpa using heq
      simp only [Res.pure_eq, Res.ok.injEq, Prod.mk.injEq] at h
      obtain ⟨rfl, rfl⟩ := h
      refine ⟨rfl, ⟨[], by simp⟩, ?_⟩
      have : c.doc.ns.treeOrder.toList.drop c.nsStartIdx = [] := by
        rw [heq']; simp
      rw [this, readIdx_nil, List.nil_append, filter_not_any_nil]
      rfl
    · obtain ⟨ns', hl, h⟩ := Res.bind_eq_ok.mp h
      simp only [Res.pure_eq, Res.ok.injEq, Prod.mk.injEq] at h
      obtain ⟨rfl, rfl⟩ := h
      obtain ⟨e1, e2, _, _, _⟩ :=
        hn.elem c.parentId _ tn name attrs parentNs (Array.getElem?_eq_getElem hp) hk
      have hfr := filterMap_range_eq c.doc.ns.treeOrder.toList parentNs.1 (parentNs.2 - parentNs.1)
      simp only [Array.getElem?_toList] at hfr
      have hpar : (List.filterMap (fun i => c.doc.ns.treeOrder[i]?)
          ((List.range (parentNs.2 - parentNs.1)).map (· + parentNs.1))) =
          rangeList c.doc.ns parentNs := hfr
      have hplt := rangeList_mem_lt hn.ns parentNs
      have hscope : scopeK c.doc.ns (Kind.element tn name attrs parentNs) =
          (rangeList c.doc.ns parentNs).map (ent c.doc.ns.values) := readIdx_map _ _ hplt
      obtain ⟨g1, g2⟩ := inheritLoop_list c.nsStartIdx
        (fun p => (readIdx c.doc.ns.values (c.doc.ns.treeOrder.toList.drop c.nsStartIdx)).any
          fun o => o.1 == p) _ c.doc.ns ns' hn.ns hn.start
        (by
          intro i hi
          simp only [List.mem_map, List.mem_range] at hi
          obtain ⟨a, ha, rfl⟩ := hi
          omega)
        (by
          rw [hpar]
          have : NdScope ((rangeList c.doc.ns parentNs).map (ent c.doc.ns.values)) := by
            rw [← hscope]; exact hnd
          unfold NdScope at this
          rw [List.map_map] at this
          exact this)
        (fun k _ => rfl) hl
      rw [hpar] at g2
      refine ⟨g1, ⟨_, g2⟩, ?_⟩
      show readRange ns' (c.nsStartIdx, ns'.treeOrder.size) = _
      unfold readRange
      rw [rangeList_to_end, g2, List.drop_append_of_le_length (by simpa using hn.start),
        readIdx_append, g1, hscope]
      congr 1
      rw [readIdx_map _ _ (fun k hk => hplt k (List.mem_filter.mp hk).1), List.filter_map]
      rfl
  · rename_i hk
    simp only [Res.pure_eq, Res.ok.injEq, Prod.mk.injEq] at h
    obtain ⟨rfl, rfl⟩ := h
    refine ⟨rfl, ⟨[], by simp⟩, ?_⟩
    have : scopeK c.doc.ns c.doc.nodes[c.parentId].kind = [] := by
      cases hkk : c.doc.nodes[c.parentId].kind with
      | element a b c' d => exact absurd hkk (hk _ _ _ _)
      | _ => rfl
    rw [this, List.filter_nil, List.append_nil]
    unfold readRange
    rw [rangeList_to_end]

end Rox.Lemmas.MN
