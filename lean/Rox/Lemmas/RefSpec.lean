/-
  Rox.Lemmas.RefSpec — `consume_reference` at an `&`: progress, and the character a character
  reference denotes is a scalar value (so `encode_utf8` of it is a valid string).
-/
import Rox.Lemmas.Prims3

namespace Rox.Lemmas
open Rox

section
variable (T : Tables) (txt : Bytes)

theorem finishRef_ref (s : Stream) (r r' : Reference) (h : (s.finishRef r).2 = some r') : r' = r := by
  unfold Stream.finishRef at h
  split at h
  · split at h
    · simpa using h.symm
    · simp at h
  · simp at h

theorem numericRef_char (s : Stream) (isHex : Bool) (r : Reference)
    (h : (s.numericRef T isHex).2 = some r) : ∃ ch, r = .char ch ∧ isScalar ch = true := by
  unfold Stream.numericRef at h
  simp only at h
  split at h
  · simp at h
  · rename_i n _
    have hsc : isScalar (if isScalar n = true then n else 0xFFFD) = true := by
      split
      · assumption
      · decide
    generalize (if isScalar n = true then n else 0xFFFD) = c at h hsc
    split at h
    · simp at h
    · exact ⟨c, finishRef_ref _ _ _ h, hsc⟩

theorem namedRef_char (s s' : Stream) (r : Option Reference) (h : s.namedRef T txt = .ok (s', r)) :
    ∀ ch, r = some (.char ch) → isScalar ch = true := by
  unfold Stream.namedRef at h
  split at h
  · simp only [Res.ok.injEq, Prod.mk.injEq] at h; intro ch hc; rw [← h.2] at hc; simp at hc
  · simp at h
  · simp at h
  · rename_i s2 name _
    simp only [Res.ok.injEq] at h
    intro ch hc
    have hall : ∀ r0 : Reference, (r0 = .char 34 ∨ r0 = .char 38 ∨ r0 = .char 39 ∨ r0 = .char 60 ∨
        r0 = .char 62 ∨ r0 = .entity name) → s2.finishRef r0 = (s', r) → isScalar ch = true := by
      intro r0 hr0 hf
      have h2 : (s2.finishRef r0).2 = some (.char ch) := by rw [hf, hc]
      have := finishRef_ref _ _ _ h2
      rcases hr0 with rfl | rfl | rfl | rfl | rfl | rfl <;>
        first
          | (simp only [Reference.char.injEq] at this; subst this; decide)
          | simp at this
    refine hall _ ?_ h
    split
    · exact Or.inl rfl
    · split
      · exact Or.inr (Or.inl rfl)
      · split
        · exact Or.inr (Or.inr (Or.inl rfl))
        · split
          · exact Or.inr (Or.inr (Or.inr (Or.inl rfl)))
          · split
            · exact Or.inr (Or.inr (Or.inr (Or.inr (Or.inl rfl))))
            · exact Or.inr (Or.inr (Or.inr (Or.inr (Or.inr rfl))))

/-- `consume_reference` on a cursor that stands on `&`. -/
theorem consumeReference_amp {s : Stream} (hs : SOk txt s) (r : Bytes) (hr : s.rest = bAmp :: r) :
    RSpec (s.consumeReference T txt) (fun p => p.2.isSome →
      Step txt ⟨s.pos + 1, r⟩ p.1 ∧ ∀ ch, p.2 = some (.char ch) → isScalar ch = true) := by
  have h0 : Step txt s ⟨s.pos + 1, r⟩ := step_ascii hs bAmp r hr (by decide)
  have hamp : s.tryConsumeByte bAmp = (⟨s.pos + 1, r⟩, true) := by
    simp [Stream.tryConsumeByte, hr]
  unfold Stream.consumeReference
  simp only [hamp, Bool.not_true, Bool.false_eq_true, if_false]
  have h1 : Step txt ⟨s.pos + 1, r⟩ ⟨s.pos + 1, r⟩ := Step.refl h0.2
  have h2 := Step.trans h1 (tryConsumeByte_step h1.2 bHash (by decide))
  split
  · have h3 := Step.trans h2 (tryConsumeByte_step h2.2 bX (by decide))
    refine rspec_ok _ _ (fun hsome => ⟨numericRef_step T txt h3 _ hsome, ?_⟩)
    intro ch hch
    obtain ⟨ch', he, hsc⟩ := numericRef_char T _ _ _ hch
    simp only [Reference.char.injEq] at he
    subst he; exact hsc
  · have hn := consumeName_spec T txt h2.2
    have hnr := namedRef_char T txt ((⟨s.pos + 1, r⟩ : Stream).tryConsumeByte bHash).1
    unfold Stream.namedRef at hnr ⊢
    cases hc : ((⟨s.pos + 1, r⟩ : Stream).tryConsumeByte bHash).1.consumeName T txt with
    | err e => exact rspec_ok _ _ (by simp)
    | panic p => rw [hc] at hn; exact absurd hn.safe (by simp [Res.Safe])
    | fuel => rw [hc] at hn; exact absurd hn.safe (by simp [Res.Safe])
    | ok p =>
      obtain ⟨s3, name⟩ := p
      have h3 := Step.trans h2 (hn.post _ hc).1
      rw [hc] at hnr
      simp only at hnr
      exact rspec_ok _ _ (fun hsome => ⟨finishRef_step txt h3 _ hsome, hnr _ _ rfl⟩)

end
end Rox.Lemmas
