/-
  Rox.Lemmas.DocSpans — C18 / C13: every string of a parsed document that carries the input
  lifetime is a slice of the input at its recorded offset, and both ends of every stored range
  are character boundaries inside the input.
-/
import Rox.Parse
import Rox.Lemmas.TokSpec
import Rox.Lemmas.Size

namespace Rox.Lemmas
open Rox

/-- A `StringStorage`: a borrowed one must be a slice of the input. -/
def StrOk (txt : Bytes) : Str → Prop
  | .borrowed sp => SpanOk txt sp
  | .owned _ => True

def KindSpans (txt : Bytes) : Kind → Prop
  | .root => True
  | .element _ name _ _ => SpanOk txt name
  | .pi target value => SpanOk txt target ∧ ∀ v, value = some v → SpanOk txt v
  | .comment s => StrOk txt s
  | .text s => StrOk txt s

/-- both ends of a stored range are usable as slice bounds of the input -/
def EndsOk (txt : Bytes) (r : Range) : Prop :=
  r.1 ≤ txt.length ∧ r.2 ≤ txt.length ∧ isCharBoundary txt r.1 = true ∧ isCharBoundary txt r.2 = true

/-- Entry 0 of the namespace table is the implicit `xml` binding (static strings); every other
entry was declared in the document. -/
structure DocSpans (txt : Bytes) (d : Doc) : Prop where
  nodes : ∀ (i : Nat) (n : NodeData), d.nodes[i]? = some n → KindSpans txt n.kind ∧ EndsOk txt n.range
  attrs : ∀ (k : Nat) (a : AttrData), d.attrs[k]? = some a →
    SpanOk txt a.localName ∧ StrOk txt a.value ∧ EndsOk txt a.range
  ns : ∀ (k : Nat) (v : Namespace), d.ns.values[k]? = some v → 0 < k →
    (∀ nm, v.name = some nm → SpanOk txt nm) ∧ StrOk txt v.uri


/-! ### The invariant on the builder state -/

theorem endsOk_zero (txt : Bytes) : EndsOk txt (0, 0) :=
  ⟨Nat.zero_le _, Nat.zero_le _, by simp [isCharBoundary], by simp [isCharBoundary]⟩

theorem endsOk_pos (txt : Bytes) (p : Bool) (r : Range) (h : EndsOk txt r) :
    EndsOk txt (if p then r else (0, 0)) := by
  cases p
  · exact endsOk_zero txt
  · exact h

theorem RangeOk.ends {txt : Bytes} {r : Range} (h : RangeOk txt r) : EndsOk txt r :=
  ⟨Nat.le_trans h.1 h.2.1, h.2.1, h.2.2.1, h.2.2.2⟩

theorem spanOk_empty (txt : Bytes) : SpanOk txt ⟨0, []⟩ := by
  simp [SpanOk, sliceBytes]

def NodeOk (txt : Bytes) (n : NodeData) : Prop := KindSpans txt n.kind ∧ EndsOk txt n.range

def NodesOk (txt : Bytes) (a : Array NodeData) : Prop := ∀ (i : Nat) (n : NodeData), a[i]? = some n → NodeOk txt n

theorem NodesOk.push {txt : Bytes} {a : Array NodeData} (h : NodesOk txt a) (n : NodeData) (hn : NodeOk txt n) :
    NodesOk txt (a.push n) := by
  intro i m hm
  rw [Array.getElem?_push] at hm
  split at hm
  · simp only [Option.some.injEq] at hm; subst hm; exact hn
  · exact h i m hm

theorem NodesOk.set {txt : Bytes} {a : Array NodeData} (h : NodesOk txt a) (j : Nat) (n : NodeData)
    (hn : NodeOk txt n) : NodesOk txt (a.setIfInBounds j n) := by
  intro i m hm
  rw [Array.getElem?_setIfInBounds] at hm
  split at hm
  · split at hm
    · simp only [Option.some.injEq] at hm; subst hm; exact hn
    · simp at hm
  · exact h i m hm

theorem setNextSubtree_nodesOk (txt : Bytes) (new : Nat) : ∀ (l : List Nat) (nodes nodes' : Array NodeData),
    Ctx.setNextSubtree nodes new l = .ok nodes' → NodesOk txt nodes → NodesOk txt nodes' := by
  intro l
  induction l with
  | nil => intro nodes nodes' h hn; simp [Ctx.setNextSubtree] at h; subst h; exact hn
  | cons id r ih =>
    intro nodes nodes' h hn
    simp only [Ctx.setNextSubtree] at h
    split at h
    · simp at h
    · rename_i n hget
      exact ih _ _ h (hn.set _ _ (show NodeOk txt n from hn _ _ hget))

def TAttrOk (txt : Bytes) (a : TempAttr) : Prop :=
  SpanOk txt a.loc ∧ StrOk txt a.value ∧ EndsOk txt a.range

def NsValsOk (txt : Bytes) (vals : Array Namespace) : Prop :=
  ∀ (k : Nat) (v : Namespace), vals[k]? = some v → 0 < k →
    (∀ nm, v.name = some nm → SpanOk txt nm) ∧ StrOk txt v.uri

/-- The invariant on the builder state. -/
structure DS (txt : Bytes) (c : Ctx) : Prop where
  nodes : NodesOk txt c.doc.nodes
  attrs : ∀ (k : Nat) (a : AttrData), c.doc.attrs[k]? = some a →
    SpanOk txt a.localName ∧ StrOk txt a.value ∧ EndsOk txt a.range
  ns : NsValsOk txt c.doc.ns.values
  tag : SpanOk txt c.tagName.nameSpan
  tagPos : c.tagName.pos ≤ txt.length ∧ isCharBoundary txt c.tagName.pos = true
  cur : ∀ a ∈ c.curAttrs, TAttrOk txt a
  ents : ∀ e ∈ c.entities, SpanU txt e.value

theorem DS.docSpans {txt : Bytes} {c : Ctx} (h : DS txt c) : DocSpans txt c.doc :=
  ⟨h.nodes, h.attrs, h.ns⟩

theorem appendNode_ds (txt : Bytes) (c c' : Ctx) (k : Kind) (r : Range) (id : Nat)
    (h : c.appendNode k r = .ok (c', id)) (hd : DS txt c) (hk : KindSpans txt k) (hr : EndsOk txt r) :
    DS txt c' := by
  unfold Ctx.appendNode at h
  split at h
  · simp at h
  · rw [Res.bind_eq_ok] at h
    obtain ⟨newId, hid, h⟩ := h
    simp only at h
    split at h
    · simp at h
    · rename_i p hp
      split at h
      · simp at h
      · rename_i n hn
        split at h
        · simp at h
        · rename_i p2 hp2
          rw [Res.bind_eq_ok] at h
          obtain ⟨nodes', hs, h⟩ := h
          simp only [pure, Res.ok.injEq, Prod.mk.injEq] at h
          obtain ⟨hc, hi⟩ := h
          subst hc
          have h0 : NodesOk txt (c.doc.nodes.push
              { parent := some c.parentId, prevSibling := none, nextSubtree := none, lastChild := none,
                kind := k, range := if c.positions then r else (0, 0) }) :=
            hd.nodes.push _ ⟨hk, endsOk_pos txt _ _ hr⟩
          have h1 := h0.set newId { n with prevSibling := p.lastChild } (show NodeOk txt n from h0 _ _ hn)
          have h2 := h1.set c.parentId { p2 with lastChild := some newId } (show NodeOk txt p2 from h1 _ _ hp2)
          have h3 := setNextSubtree_nodesOk txt _ _ _ _ hs h2
          exact ⟨h3, hd.attrs, hd.ns, hd.tag, hd.tagPos, hd.cur, hd.ents⟩

theorem log_ds {txt : Bytes} {c : Ctx} (e : Ev) (h : DS txt c) : DS txt (c.log e) :=
  ⟨h.nodes, h.attrs, h.ns, h.tag, h.tagPos, h.cur, h.ents⟩

theorem appendText_ds (txt : Bytes) (c c' : Ctx) (t : Str) (r : Range) (h : c.appendText t r = .ok c')
    (hd : DS txt c) (ht : StrOk txt t) (hr : EndsOk txt r) : DS txt c' := by
  unfold Ctx.appendText at h
  try dsimp only at h
  split at h
  · rw [Res.bind_eq_ok] at h
    obtain ⟨⟨c2, id⟩, h2, h1⟩ := h
    res_norm at h1
    subst h1
    have := appendNode_ds txt _ _ _ _ _ h2 (log_ds _ hd) ht hr
    exact ⟨this.nodes, this.attrs, this.ns, this.tag, this.tagPos, this.cur, this.ents⟩
  · res_norm at h
    subst h
    exact ⟨hd.nodes, hd.attrs, hd.ns, hd.tag, hd.tagPos, hd.cur, hd.ents⟩

theorem setNode_ds {txt : Bytes} {c : Ctx} (i : Nat) (n : NodeData) (h : DS txt c) (hn : NodeOk txt n) :
    DS txt (c.setNode i n) :=
  ⟨h.nodes.set i n hn, h.attrs, h.ns, h.tag, h.tagPos, h.cur, h.ents⟩

theorem mergeText_ds (txt : Bytes) (c c' : Ctx) (h : c.mergeText = .ok c') (hd : DS txt c) : DS txt c' := by
  unfold Ctx.mergeText at h
  try dsimp only at h
  split at h
  · simp at h
  · split at h
    · simp at h
    · rename_i n hn
      split at h
      · simp only [Res.ok.injEq] at h; subst h
        exact setNode_ds _ _ hd ⟨trivial, (hd.nodes _ _ hn).2⟩
      · simp at h

theorem resetAfterText_ds (txt : Bytes) (c c' : Ctx) (h : c.resetAfterText = .ok c') (hd : DS txt c) :
    DS txt c' := by
  unfold Ctx.resetAfterText at h
  try dsimp only at h
  split at h
  · simp only [Res.ok.injEq] at h; subst h; exact hd
  · split at h
    · rw [Res.bind_eq_ok] at h
      obtain ⟨c1, h1, h⟩ := h
      res_norm at h
      subst h
      have := mergeText_ds txt _ _ h1 hd
      exact ⟨this.nodes, this.attrs, this.ns, this.tag, this.tagPos, this.cur, this.ents⟩
    · res_norm at h; subst h
      exact ⟨hd.nodes, hd.attrs, hd.ns, hd.tag, hd.tagPos, hd.cur, hd.ents⟩

theorem inheritLoop_values (st : Nat) : ∀ (l : List Nat) (ns ns' : Namespaces),
    inheritLoop st l ns = .ok ns' → ns'.values = ns.values := by
  intro l
  induction l with
  | nil => intro ns ns' h; simp [inheritLoop] at h; subst h; rfl
  | cons i r ih =>
    intro ns ns' h
    simp only [inheritLoop] at h
    split at h
    · simp at h
    · split at h
      · simp at h
      · rw [Res.bind_eq_ok] at h
        obtain ⟨ex, _, h⟩ := h
        split at h
        · rw [Res.bind_eq_ok] at h
          obtain ⟨ns1, h1, h⟩ := h
          unfold Namespaces.pushRef at h1
          split at h1
          · simp only [Res.ok.injEq] at h1; subst h1
            have := ih _ _ h
            exact this
          · simp at h1
        · res_norm at h
          exact ih _ _ h

theorem resolveNamespaces_ds (txt : Bytes) (c c' : Ctx) (r : Range) (h : resolveNamespaces c = .ok (c', r))
    (hd : DS txt c) : DS txt c' := by
  unfold resolveNamespaces at h
  rw [Res.bind_eq_ok] at h
  obtain ⟨p, _, h⟩ := h
  split at h
  · split at h
    · res_norm at h; rw [← h.1]; exact hd
    · rw [Res.bind_eq_ok] at h
      obtain ⟨ns, hns, h⟩ := h
      res_norm at h
      rw [← h.1]
      have e := inheritLoop_values _ _ _ _ hns
      exact ⟨hd.nodes, hd.attrs, by show NsValsOk txt ns.values; rw [e]; exact hd.ns, hd.tag, hd.tagPos,
        hd.cur, hd.ents⟩
  · res_norm at h; rw [← h.1]; exact hd

theorem resolveAttrsLoop_ds (txt : Bytes) (pos : Bool) (nss : Range) (st : Nat) :
    ∀ (l : List TempAttr) (d d' : Doc), resolveAttrsLoop txt pos nss st l d = .ok d' →
      (∀ a ∈ l, TAttrOk txt a) → DocSpans txt d → DocSpans txt d' := by
  intro l
  induction l with
  | nil => intro d d' h _ hd; simp [resolveAttrsLoop] at h; subst h; exact hd
  | cons a r ih =>
    intro d d' h hl hd
    simp only [resolveAttrsLoop] at h
    rw [Res.bind_eq_ok] at h
    obtain ⟨nsIdx, _, h⟩ := h
    rw [Res.bind_eq_ok] at h
    obtain ⟨en, _, h⟩ := h
    rw [Res.bind_eq_ok] at h
    obtain ⟨dup, _, h⟩ := h
    split at h
    · exact absurd h (errPos_ne_ok _ _ _ _)
    · refine ih _ _ h (fun b hb => hl b (by simp [hb])) ⟨hd.nodes, ?_, hd.ns⟩
      obtain ⟨a1, a2, a3⟩ := hl a (by simp)
      intro k ad hk
      simp only [Array.getElem?_push] at hk
      split at hk
      · simp only [Option.some.injEq] at hk
        subst hk
        cases pos
        · exact ⟨a1, a2, endsOk_zero txt⟩
        · exact ⟨a1, a2, a3⟩
      · exact hd.attrs k ad hk

theorem resolveAttributes_ds (txt : Bytes) (c c' : Ctx) (nss r : Range)
    (h : resolveAttributes txt c nss = .ok (c', r)) (hd : DS txt c) : DS txt c' := by
  unfold resolveAttributes at h
  split at h
  · res_norm at h; rw [← h.1]; exact hd
  · split at h
    · simp at h
    · rw [Res.bind_eq_ok] at h
      obtain ⟨doc, hdoc, h⟩ := h
      res_norm at h
      have := resolveAttrsLoop_ds _ _ _ _ _ _ _ hdoc hd.cur hd.docSpans
      rw [← h.1]
      exact ⟨this.nodes, this.attrs, this.ns, hd.tag, hd.tagPos, by intro a ha; simp at ha, hd.ents⟩

theorem processElement_ds (txt : Bytes) (c c' : Ctx) (e : EndKind) (r : Range)
    (h : processElement txt c e r = .ok c') (hd : DS txt c) (hr : RangeOk txt r) : DS txt c' := by
  unfold processElement at h
  split at h
  · split at h
    · exact absurd h (errPos_ne_ok _ _ _ _)
    · simp at h
  · rw [Res.bind_eq_ok] at h
    obtain ⟨⟨c1, nss⟩, h1, h⟩ := h
    try dsimp only at h
    rw [Res.bind_eq_ok] at h
    obtain ⟨⟨c2, attrs⟩, h2, h⟩ := h
    have s1 := resolveNamespaces_ds txt _ _ _ h1 hd
    have s1' : DS txt { c1 with nsStartIdx := c1.doc.ns.treeOrder.size, xmlDeclared := false } :=
      ⟨s1.nodes, s1.attrs, s1.ns, s1.tag, s1.tagPos, s1.cur, s1.ents⟩
    have s2 := resolveAttributes_ds _ _ _ _ _ h2 s1'
    try dsimp only at h
    have hrange : EndsOk txt (c2.tagName.pos, r.2) :=
      ⟨s2.tagPos.1, hr.2.1, s2.tagPos.2, hr.2.2.2⟩
    split at h
    · -- empty
      rw [Res.bind_eq_ok] at h
      obtain ⟨tagNs, _, h⟩ := h
      rw [Res.bind_eq_ok] at h
      obtain ⟨⟨c3, newId⟩, h3, h⟩ := h
      res_norm at h
      subst h
      have := appendNode_ds txt _ _ _ _ _ h3 s2 s2.tag hrange
      exact ⟨this.nodes, this.attrs, this.ns, this.tag, this.tagPos, this.cur, this.ents⟩
    · -- close
      split at h
      · exact absurd h (errPos_ne_ok _ _ _ _)
      · rw [Res.bind_eq_ok] at h
        obtain ⟨p, hp, h⟩ := h
        have hpok : NodeOk txt p := by
          unfold Ctx.nodeAt at hp
          split at hp
          · rename_i n hn
            simp only [Res.ok.injEq] at hp; subst hp
            exact s2.nodes _ _ hn
          · simp at hp
        split at h
        · simp at h
        · try dsimp only at h
          have hp' : NodeOk txt (if c2.positions then { p with range := (p.range.1, r.2) } else p) := by
            split
            · exact ⟨hpok.1, hpok.2.1, hr.2.1, hpok.2.2.2.1, hr.2.2.2⟩
            · exact hpok
          have s3 := setNode_ds c2.parentId _ s2 hp'
          split at h
          · exact absurd h (errPos_ne_ok _ _ _ _)
          · split at h
            · res_norm at h
              subst h
              exact ⟨s3.nodes, s3.attrs, s3.ns, s3.tag, s3.tagPos, s3.cur, s3.ents⟩
            · exact absurd h (errPos_ne_ok _ _ _ _)
    · -- open
      rw [Res.bind_eq_ok] at h
      obtain ⟨tagNs, _, h⟩ := h
      rw [Res.bind_eq_ok] at h
      obtain ⟨⟨c3, newId⟩, h3, h⟩ := h
      res_norm at h
      subst h
      have := appendNode_ds txt _ _ _ _ _ h3 s2 s2.tag hrange
      exact ⟨this.nodes, this.attrs, this.ns, this.tag, this.tagPos, this.cur, this.ents⟩

theorem normalizeAttribute_ds (T : Tables) (txt : Bytes) (c c' : Ctx) (v : Span) (s : Str)
    (h : normalizeAttribute T txt c v = .ok (c', s)) (hd : DS txt c) (hv : SpanOk txt v) :
    DS txt c' ∧ StrOk txt s := by
  unfold normalizeAttribute at h
  split at h
  · rw [Res.bind_eq_ok] at h
    obtain ⟨⟨buf, ld, tr⟩, _, h⟩ := h
    rw [Res.bind_eq_ok] at h
    obtain ⟨out, _, h⟩ := h
    res_norm at h
    rw [← h.1, ← h.2]
    exact ⟨⟨hd.nodes, hd.attrs, hd.ns, hd.tag, hd.tagPos, hd.cur, hd.ents⟩, trivial⟩
  · res_norm at h; rw [← h.1, ← h.2]; exact ⟨hd, hv⟩

theorem pushNs_values (ns ns' : Namespaces) (name : Option Span) (uri : Str)
    (h : ns.pushNs name uri = .ok ns') :
    ns'.values = ns.values ∨ ns'.values = ns.values.push ⟨name, uri⟩ := by
  unfold Namespaces.pushNs at h
  rw [Res.bind_eq_ok] at h
  obtain ⟨⟨si, found⟩, _, h⟩ := h
  dsimp only at h
  split at h
  · split at h
    · res_norm at h; subst h; exact Or.inl rfl
    · simp at h
  · split at h
    · simp at h
    · res_norm at h; subst h; exact Or.inr rfl

theorem pushNs_valsOk (txt : Bytes) (ns ns' : Namespaces) (name : Option Span) (uri : Str)
    (h : ns.pushNs name uri = .ok ns') (hn : NsValsOk txt ns.values)
    (hname : ∀ nm, name = some nm → SpanOk txt nm) (huri : StrOk txt uri) : NsValsOk txt ns'.values := by
  rcases pushNs_values _ _ _ _ h with e | e
  · rw [e]; exact hn
  · rw [e]
    intro k v hk hpos
    rw [Array.getElem?_push] at hk
    split at hk
    · simp only [Option.some.injEq] at hk; subst hk; exact ⟨hname, huri⟩
    · exact hn k v hk hpos

theorem processAttribute_ds (T : Tables) (txt : Bytes) (c c' : Ctx) (r : Range) (q e : Nat)
    (pfx loc v : Span) (h : processAttribute T txt c r q e pfx loc v = .ok c') (hd : DS txt c)
    (hr : RangeOk txt r) (hloc : SpanOk txt loc) (hv : SpanOk txt v) : DS txt c' := by
  unfold processAttribute at h
  rw [Res.bind_eq_ok] at h
  obtain ⟨⟨c1, value⟩, h1, h⟩ := h
  obtain ⟨s1, hval⟩ := normalizeAttribute_ds _ _ _ _ _ _ h1 hd hv
  try dsimp only at h
  split at h
  · split at h
    · exact absurd h (errPos_ne_ok _ _ _ _)
    · split at h
      · exact absurd h (errPos_ne_ok _ _ _ _)
      · try dsimp only at h
        split at h
        · exact absurd h (errPos_ne_ok _ _ _ _)
        · split at h
          · exact absurd h (errPos_ne_ok _ _ _ _)
          · rw [Res.bind_eq_ok] at h
            obtain ⟨ex, _, h⟩ := h
            split at h
            · exact absurd h (errPos_ne_ok _ _ _ _)
            · split at h
              · rw [Res.bind_eq_ok] at h
                obtain ⟨ns, hns, h⟩ := h
                res_norm at h; subst h
                have := pushNs_valsOk txt _ _ _ _ hns s1.ns
                  (by intro nm hnm; simp only [Option.some.injEq] at hnm; subst hnm; exact hloc) hval
                exact ⟨s1.nodes, s1.attrs, this, s1.tag, s1.tagPos, s1.cur, s1.ents⟩
              · res_norm at h; subst h
                exact ⟨s1.nodes, s1.attrs, s1.ns, s1.tag, s1.tagPos, s1.cur, s1.ents⟩
  · split at h
    · split at h
      · exact absurd h (errPos_ne_ok _ _ _ _)
      · split at h
        · exact absurd h (errPos_ne_ok _ _ _ _)
        · rw [Res.bind_eq_ok] at h
          obtain ⟨ex, _, h⟩ := h
          split at h
          · exact absurd h (errPos_ne_ok _ _ _ _)
          · rw [Res.bind_eq_ok] at h
            obtain ⟨ns, hns, h⟩ := h
            res_norm at h; subst h
            have := pushNs_valsOk txt _ _ _ _ hns s1.ns (by intro nm hnm; simp at hnm) hval
            exact ⟨s1.nodes, s1.attrs, this, s1.tag, s1.tagPos, s1.cur, s1.ents⟩
    · res_norm at h; subst h
      refine ⟨s1.nodes, s1.attrs, s1.ns, s1.tag, s1.tagPos, ?_, s1.ents⟩
      intro a ha
      rcases List.mem_append.mp ha with ha | ha
      · exact s1.cur a ha
      · simp only [List.mem_singleton] at ha
        subst ha
        exact ⟨hloc, hval, hr.ends⟩

theorem processCdata_ds (txt : Bytes) (c c' : Ctx) (t : Span) (r : Range) (h : processCdata c t r = .ok c')
    (hd : DS txt c) (ht : SpanOk txt t) (hr : EndsOk txt r) : DS txt c' := by
  unfold processCdata at h
  split at h
  · exact appendText_ds txt _ _ _ _ h hd ht hr
  · exact appendText_ds txt _ _ _ _ h hd trivial hr

theorem flushBuffer_ds (txt : Bytes) (c c' : Ctx) (b : TextBuffer) (r : Range)
    (h : flushBuffer c b r = .ok c') (hd : DS txt c) (hr : EndsOk txt r) : DS txt c' := by
  unfold flushBuffer at h
  split at h
  · rw [Res.bind_eq_ok] at h
    obtain ⟨out, _, h⟩ := h
    exact appendText_ds txt _ _ _ _ h hd trivial hr
  · res_norm at h; subst h; exact hd

/-- What a builder step preserves, given a well-formed token. -/
def StepDS (txt : Bytes) (step : Token → Ctx → Res Ctx) : Prop :=
  ∀ (t : Token) (c c' : Ctx), TokOk txt t → step t c = .ok c' → DS txt c → DS txt c'

theorem feed_ds (txt : Bytes) (step : Token → Ctx → Res Ctx) (hstep : StepDS txt step) :
    ∀ (toks : List Token), (∀ t ∈ toks, TokOk txt t) →
      ∀ (c c' : Ctx), feed step toks c = .ok c' → DS txt c → DS txt c' := by
  intro toks
  induction toks with
  | nil => intro _ c c' h hd; simp [feed] at h; subst h; exact hd
  | cons t ts ih =>
    intro hall c c' h hd
    simp only [feed] at h
    split at h
    · rename_i c1 h1
      exact ih (fun t ht => hall t (by simp [ht])) _ _ h (hstep _ _ _ (hall t (by simp)) h1 hd)
    · simp at h
    · simp at h
    · simp at h

theorem runTokens_ds {α} (txt : Bytes) (step : Token → Ctx → Res Ctx) (hstep : StepDS txt step)
    (toks : List Token) (hall : ∀ t ∈ toks, TokOk txt t)
    (stop : Res α) (c c' : Ctx) (h : runTokens step toks stop c = .ok c') (hd : DS txt c) :
    DS txt c' := by
  unfold runTokens at h
  split at h
  · rename_i c1 h1
    split at h <;> simp at h
    subst h
    exact feed_ds txt step hstep _ hall _ _ h1 hd
  · rename_i hne
    cases hf : feed step toks c <;> simp_all

theorem parseNextChunk_text_mem (T : Tables) (txt : Bytes) (ents : List Entity) (s s' : Stream)
    (f : Span) (h : parseNextChunk T txt ents s = .ok (s', .text f)) : ∃ e ∈ ents, f = e.value := by
  unfold parseNextChunk at h
  split at h
  · simp at h
  · split at h
    · rw [Res.bind_eq_ok] at h
      obtain ⟨⟨s1, ref⟩, _, h⟩ := h
      try dsimp only at h
      split at h
      · simp [pure] at h
      · split at h
        · rename_i e he
          simp only [pure, Res.ok.injEq, Prod.mk.injEq, NextChunk.text.injEq] at h
          unfold findEntity at he
          exact ⟨e, List.mem_of_find?_eq_some he, h.2.symm⟩
        · exact absurd h (errFrom_ne_ok _ _ _ _)
      · exact absurd h (errFrom_ne_ok _ _ _ _)
    · simp at h

theorem tokenizeContent_tokOk (T : Tables) (hT : TablesOK T) (txt : Bytes) (v : Span) (hv : SpanU txt v) :
    ∀ t ∈ (tokenizeContent T txt v.off v.stop).1, TokOk txt t := by
  have hs0 : SOk txt (Stream.ofRange txt v.off v.stop) := by
    have := hv.sOk
    have e : Stream.ofRange txt v.off v.stop = ⟨v.off, v.bytes⟩ := by
      unfold Stream.ofRange Span.stop
      rw [← hv.1.1]
    rw [e]; exact this
  exact (parseContent_spec T hT txt ((Stream.ofRange txt v.off v.stop).rest.length + 1) 0 _
    (by omega) hs0).toks

theorem processTextLoop_ds (T : Tables) (hT : TablesOK T) (txt : Bytes) (lower : Token → Ctx → Res Ctx)
    (hlower : StepDS txt lower) (range : Range) (hr : EndsOk txt range) :
    ∀ (fuel : Nat) (s : Stream) (buf buf' : TextBuffer) (c c' : Ctx),
      processTextLoop T txt lower range fuel s buf c = .ok (buf', c') → DS txt c → DS txt c' := by
  intro fuel
  induction fuel with
  | zero => intro s buf buf' c c' h; simp [processTextLoop] at h
  | succ fuel ih =>
    intro s buf buf' c c' h hd
    simp only [processTextLoop] at h
    split at h
    · res_norm at h; rw [← h.2]; exact hd
    · rw [Res.bind_eq_ok] at h
      obtain ⟨⟨s1, chunk⟩, hchunk, h⟩ := h
      try dsimp only at h
      split at h
      · exact ih _ _ _ _ _ h hd
      · try dsimp only at h
        split at h <;> exact ih _ _ _ _ _ h hd
      · obtain ⟨e, hmem, hfe⟩ := parseNextChunk_text_mem _ _ _ _ _ _ hchunk
        have hfu : SpanU txt _ := hfe ▸ hd.ents e hmem
        rw [Res.bind_eq_ok] at h
        obtain ⟨c1, hfl, h⟩ := h
        have sfl := flushBuffer_ds txt _ _ _ _ hfl hd hr
        split at h
        · exact absurd h (errAt_ne_ok _ _ _ _)
        · try dsimp only at h
          split at h
          · exact absurd h (errAt_ne_ok _ _ _ _)
          · try dsimp only at h
            rw [Res.bind_eq_ok] at h
            obtain ⟨c2, hrun, h⟩ := h
            have srun := runTokens_ds txt lower hlower _ (tokenizeContent_tokOk T hT txt _ hfu)
              _ _ _ hrun
              ⟨sfl.nodes, sfl.attrs, sfl.ns, spanOk_empty txt,
                ⟨Nat.zero_le _, by simp [isCharBoundary]⟩, sfl.cur, sfl.ents⟩
            split at h
            · simp at h
            · refine ih _ _ _ _ _ h ?_
              exact ⟨srun.nodes, srun.attrs, srun.ns, sfl.tag, sfl.tagPos, srun.cur, srun.ents⟩

theorem processText_ds (T : Tables) (hT : TablesOK T) (txt : Bytes) (lower : Token → Ctx → Res Ctx)
    (hlower : StepDS txt lower) (c c' : Ctx) (t : Span) (r : Range)
    (h : processText T txt lower c t r = .ok c') (hd : DS txt c) (ht : SpanOk txt t)
    (hr : EndsOk txt r) : DS txt c' := by
  unfold processText at h
  split at h
  · exact appendText_ds txt _ _ _ _ h hd ht hr
  · dsimp only at h
    rw [Res.bind_eq_ok] at h
    obtain ⟨⟨buf, c1⟩, h1, h⟩ := h
    exact flushBuffer_ds txt _ _ _ _ h
      (processTextLoop_ds T hT txt lower hlower _ hr _ _ _ _ _ _ h1 hd) hr

theorem tokOk_elementEnd_range {txt : Bytes} {e : EndKind} {r : Range}
    (h : TokOk txt (.elementEnd e r)) : RangeOk txt r := by
  cases e with
  | close p l => exact h.2.2
  | «open» => exact h
  | empty => exact h

theorem tokenStep_ds (T : Tables) (hT : TablesOK T) (txt : Bytes) (lower : Token → Ctx → Res Ctx)
    (hlower : StepDS txt lower) : StepDS txt (tokenStep T txt lower) := by
  intro t c c' hk h hd
  unfold tokenStep at h
  try dsimp only at h
  have slog : DS txt (c.log (.token t)) := log_ds _ hd
  split at h
  · -- pi
    obtain ⟨k1, k2, k3, _⟩ := hk
    rw [Res.bind_eq_ok] at h
    obtain ⟨c1, h1, h⟩ := h
    rw [Res.bind_eq_ok] at h
    obtain ⟨⟨c2, id⟩, h2, h⟩ := h
    res_norm at h; subst h
    exact appendNode_ds txt _ _ _ _ _ h2 (resetAfterText_ds txt _ _ h1 slog)
      ⟨k1, fun v hv => (k2 v hv).1⟩ k3.ends
  · -- comment
    obtain ⟨k1, k2, _⟩ := hk
    rw [Res.bind_eq_ok] at h
    obtain ⟨c1, h1, h⟩ := h
    rw [Res.bind_eq_ok] at h
    obtain ⟨⟨c2, id⟩, h2, h⟩ := h
    res_norm at h; subst h
    exact appendNode_ds txt _ _ _ _ _ h2 (resetAfterText_ds txt _ _ h1 slog) k1 k2.ends
  · -- entityDecl
    obtain ⟨_, k2⟩ := hk
    res_norm at h; subst h
    refine ⟨hd.nodes, hd.attrs, hd.ns, hd.tag, hd.tagPos, hd.cur, ?_⟩
    intro e he
    rcases List.mem_append.mp he with he | he
    · exact hd.ents e he
    · simp only [List.mem_singleton] at he
      subst he
      exact k2
  · -- elementStart
    obtain ⟨_, k2, k3, _, k5⟩ := hk
    rw [Res.bind_eq_ok] at h
    obtain ⟨c1, h1, h⟩ := h
    have s1 := resetAfterText_ds txt _ _ h1 slog
    split at h
    · exact absurd h (errPos_ne_ok _ _ _ _)
    · res_norm at h; subst h
      exact ⟨s1.nodes, s1.attrs, s1.ns, k2, ⟨k3, k5⟩, s1.cur, s1.ents⟩
  · -- attribute
    obtain ⟨k1, _, k3, k4, _⟩ := hk
    exact processAttribute_ds _ _ _ _ _ _ _ _ _ _ h slog k1 k3 k4.1
  · -- elementEnd
    rw [Res.bind_eq_ok] at h
    obtain ⟨c1, h1, h⟩ := h
    exact processElement_ds _ _ _ _ _ h (resetAfterText_ds txt _ _ h1 slog) (tokOk_elementEnd_range hk)
  · -- text
    obtain ⟨k1, k2, _⟩ := hk
    exact processText_ds T hT txt lower hlower _ _ _ _ h slog k1.1 k2.ends
  · -- cdata
    obtain ⟨k1, k2⟩ := hk
    exact processCdata_ds txt _ _ _ _ h slog k1 k2.ends

theorem token_ds (T : Tables) (hT : TablesOK T) (txt : Bytes) : ∀ (d : Nat), StepDS txt (token T txt d) := by
  intro d
  induction d with
  | zero => intro t c c' _ h; simp [token] at h
  | succ d ih => exact tokenStep_ds T hT txt (token T txt d) ih

/-- **Every parsed document only borrows slices of its input** (all valid UTF-8 inputs, all
options). -/
theorem parse_docSpans (T : Tables) (hT : TablesOK T) (txt : Bytes) (hv : ValidUtf8 txt) (opt : Opt)
    (d : Doc) (h : parse T txt opt = .ok d) : DocSpans txt d := by
  unfold parse at h
  rw [Res.bind_eq_ok] at h
  obtain ⟨c, hc, h⟩ := h
  res_norm at h
  subst h
  unfold parseCtx at hc
  rw [Res.bind_eq_ok] at hc
  obtain ⟨c0, h0, hc⟩ := hc
  try dsimp only at hc
  rw [Res.bind_eq_ok] at hc
  obtain ⟨c1, h1, hc⟩ := hc
  -- the initial context
  have d0 : DS txt c0 := by
    unfold initCtx at h0
    rw [Res.bind_eq_ok] at h0
    obtain ⟨ns, hns, h0⟩ := h0
    res_norm at h0
    subst h0
    refine ⟨?_, ?_, ?_, spanOk_empty txt, ⟨Nat.zero_le _, by simp [isCharBoundary]⟩, ?_, ?_⟩
    · intro i n hn
      have : n = rootNode (if opt.positions then (0, txt.length) else (0, 0)) := by
        cases i with
        | zero => simpa using hn.symm
        | succ i => simp at hn
      subst this
      refine ⟨trivial, endsOk_pos txt _ _ ⟨Nat.zero_le _, Nat.le_refl _, by simp [isCharBoundary], ?_⟩⟩
      simp [isCharBoundary]
    · intro k a hk; simp at hk
    · intro k v hk hpos
      rcases pushNs_values _ _ _ _ hns with e | e
      · rw [e] at hk; simp at hk
      · rw [e] at hk
        exfalso
        have : k = 0 := by
          cases k with
          | zero => rfl
          | succ k => simp at hk
        omega
    · intro a ha; simp at ha
    · intro e he; simp at he
  have d1 : DS txt c1 :=
    runTokens_ds txt _ (token_ds T hT txt depthFuel) _ (parseDocument_spec T hT txt hv opt.allowDtd).toks
      _ _ _ h1 d0
  unfold finish at hc
  rw [Res.bind_eq_ok] at hc
  obtain ⟨has, _, hc⟩ := hc
  split at hc
  · simp at hc
  · split at hc
    · simp at hc
    · res_norm at hc
      subst hc
      exact ⟨d1.nodes, d1.attrs, d1.ns⟩

end Rox.Lemmas
