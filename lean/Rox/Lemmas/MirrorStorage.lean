/-
  Rox.Lemmas.MirrorStorage — property C18 at the level of the whole document, as a storage-aware
  refinement of `Rox.Lemmas.accepted_tree_mirrors` (C03): for EVERY valid UTF-8 input accepted under
  `allow_dtd = false`, the arena read back with `viewS` — every string together with the flag "is
  borrowed from the input" — is exactly the root node followed by the nodes of `docTreeS x`, where
  `x` is the abstract document (`Rox.Spec.Grammar`) the input is the concrete syntax of, and the
  flags of `docTreeS x` are computed from the RAW syntax of `x` alone:

    * attribute value: borrowed ⇔ the raw value (as written between the quotes) contains none of
      `&`, TAB, LF, CR (`attrBorrowed`), an owned copy otherwise;
    * text node: borrowed ⇔ its run consists of ONE item, and that item is character data without
      `&` and without CR (`textBorrowed`), or a CDATA section whose body has no CR
      (`cdataBorrowed`); a run of two or more adjacent items (`x<![CDATA[]]>`,
      `<![CDATA[a]]><![CDATA[b]]>`, …) is merged into an OWNED string whatever the items are — even
      when one of them is empty (this is what `Rox.Build` / roxmltree's `merge_text` does);
    * element and attribute local names, comment bodies, PI targets and values: always borrowed.

  Main statement: `Rox.Lemmas.accepted_storage_mirrors` (end of the file). The proof is the proof of
  `accepted_tree_mirrors` once more with the storage carried along: Stage A' (`tokenize_itemsM`) and
  Stage B (`parseCtx_items`) are reused as they are; Stage B' (`MirrorBuild1..4`) and Stage C'
  (`MirrorAsm`) are copied with the flags (`MCoreS`, `runS`, `MachKS`), the step-level facts being
  the fast paths of `normalize_attribute`, `process_text`, `process_cdata` and the fact that
  `merge_text` runs exactly for runs of two or more fragments.
-/
import Rox.Spec.Mirror
import Rox.Lemmas.MirrorDefs
import Rox.Lemmas.MirrorDecode
import Rox.Lemmas.MirrorBuild1
import Rox.Lemmas.MirrorBuild2
import Rox.Props.C04Base
import Rox.Lemmas.MirrorBuild3
import Rox.Lemmas.AttrNs
import Rox.Lemmas.MirrorBuild4
import Rox.Lemmas.MirrorAsm
import Rox.Lemmas.GrammarSound
import Rox.Lemmas.MirrorTok

/-! ## Part 0 — specification with storage (`docTreeS`, `viewS`) and the storage-aware machine `runS` -/

namespace Rox.Spec.Mirror
open Rox Rox.Spec Rox.Spec.Grammar Rox.Spec.Canon4

/-! ### Storage of a string -/

/-- a string as the tree shows it, and whether it is borrowed from the input (`true`) or an owned
copy (`false`) -/
abbrev SStr := Bytes × Bool

def _root_.Rox.Str.isBorrowed : Str → Bool
  | .borrowed _ => true
  | .owned _ => false

/-- a `Str` of the arena read back with its storage -/
def strS (s : Str) : SStr := (s.bytes, s.isBorrowed)

/-- a `Span` of the arena (always a slice of the input) -/
def spanS (s : Span) : SStr := (s.bytes, true)

/-! ### What the raw syntax says about the storage -/

/-- an attribute value is borrowed iff, as written, it has no `&`, TAB, LF, CR -/
def attrBorrowed (raw : Bytes) : Bool :=
  !(raw.any fun b => b == bAmp || b == bTab || b == bLF || b == bCR)

/-- a piece of character data (alone in its run) is borrowed iff, as written, it has no `&` and no CR -/
def textBorrowed (raw : Bytes) : Bool := !(raw.any fun b => b == bAmp || b == bCR)

/-- a CDATA section (alone in its run) is borrowed iff its body has no CR -/
def cdataBorrowed (body : Bytes) : Bool := !(body.contains bCR)

/-- the run collected so far (`pending`) extended by one more item with decoding `b`, which alone
would have storage `fl`: the first item keeps its storage, any further item makes the run owned -/
def joinRun (pending : Option SStr) (b : Bytes) (fl : Bool) : SStr :=
  match pending with
  | none => (b, fl)
  | some p => (p.1 ++ b, false)

theorem attrBorrowed_iff (raw : Bytes) :
    attrBorrowed raw = true ↔ ∀ b ∈ raw, b ≠ bAmp ∧ b ≠ bTab ∧ b ≠ bLF ∧ b ≠ bCR := by
  unfold attrBorrowed
  rw [Bool.not_eq_true', List.any_eq_false]
  constructor
  · intro h b hb
    have := h b hb
    simpa [and_assoc] using this
  · intro h b hb
    have := h b hb
    simpa [and_assoc] using this

theorem textBorrowed_iff (raw : Bytes) :
    textBorrowed raw = true ↔ ∀ b ∈ raw, b ≠ bAmp ∧ b ≠ bCR := by
  unfold textBorrowed
  rw [Bool.not_eq_true', List.any_eq_false]
  constructor
  · intro h b hb
    have := h b hb
    simpa using this
  · intro h b hb
    have := h b hb
    simpa using this

theorem cdataBorrowed_iff (body : Bytes) : cdataBorrowed body = true ↔ bCR ∉ body := by
  unfold cdataBorrowed
  simp

/-- a run of two or more items is owned -/
theorem joinRun_some (p : SStr) (b : Bytes) (fl : Bool) : joinRun (some p) b fl = (p.1 ++ b, false) :=
  rfl

/-- the first item of a run keeps its storage -/
theorem joinRun_none (b : Bytes) (fl : Bool) : joinRun none b fl = (b, fl) := rfl

/-! ### The expected tree with storage -/

/-- nodes of the expected tree; names, comment bodies and PI strings are always borrowed (see
`expectS`), so only attribute values and text nodes carry a flag here -/
inductive SNode where
  | elem (name : Bytes) (attrs : List (Bytes × SStr)) (kids : List SNode)
  | comment (body : Bytes)
  | pi (target : Bytes) (value : Bytes)          -- `value = []`: a PI without value
  | text (body : SStr)

/-- local names and normalised values with their storage, of the attributes proper, in source order -/
def attrsOfS (attrs : List (Bytes × Bytes)) : List (Bytes × SStr) :=
  (attrs.filter fun a => !isNsDecl a.1).map fun a => ((qparts a.1).2, (decodeAttr a.2, attrBorrowed a.2))

def flushS (pending : Option SStr) : List SNode :=
  match pending with
  | some t => [.text t]
  | none => []

mutual
  def treeOfS : GNode → List SNode
    | .elem q attrs kids => [.elem (qparts q).2 (attrsOfS attrs) (treeKidsS none kids)]
    | .comment b => [.comment b]
    | .pi t v => [.pi t v]
    | .text _ => []
    | .cdata _ => []
  /-- as `treeKids`; the run being collected carries its storage -/
  def treeKidsS (pending : Option SStr) : List GNode → List SNode
    | [] => flushS pending
    | .text raw :: r => treeKidsS (some (joinRun pending (decodeText raw) (textBorrowed raw))) r
    | .cdata b :: r => treeKidsS (some (joinRun pending (lineEnds b) (cdataBorrowed b))) r
    | .comment b :: r => flushS pending ++ .comment b :: treeKidsS none r
    | .pi t v :: r => flushS pending ++ .pi t v :: treeKidsS none r
    | .elem q attrs kids :: r =>
      flushS pending ++ .elem (qparts q).2 (attrsOfS attrs) (treeKidsS none kids) :: treeKidsS none r
end

/-- a piece of character data alone between two tags: one text node, borrowed iff there is no `&`
and no CR in it -/
theorem treeKidsS_single_text (raw : Bytes) :
    treeKidsS none [.text raw] = [.text (decodeText raw, textBorrowed raw)] := by
  simp only [treeKidsS, flushS, joinRun]

/-- a CDATA section alone between two tags: one text node, borrowed iff there is no CR in it -/
theorem treeKidsS_single_cdata (body : Bytes) :
    treeKidsS none [.cdata body] = [.text (lineEnds body, cdataBorrowed body)] := by
  simp only [treeKidsS, flushS, joinRun]

/-- character data followed by a CDATA section (for example `x<![CDATA[]]>`): one OWNED text node -/
theorem treeKidsS_text_cdata (raw body : Bytes) :
    treeKidsS none [.text raw, .cdata body] = [.text (decodeText raw ++ lineEnds body, false)] := by
  simp only [treeKidsS, flushS, joinRun]

/-- the children of the root node with the storage of every string -/
def docTreeS (x : GDoc) : List SNode :=
  treeKidsS none x.pre ++ treeOfS x.root ++ treeKidsS none x.post

/-! ### Flat form, in id order -/

/-- what is read of one arena node: every string with its storage -/
inductive SKind where
  | root
  | elem (name : SStr) (attrs : List (SStr × SStr))
  | comment (body : SStr)
  | pi (target : SStr) (value : Option SStr)
  | text (body : SStr)
deriving Repr, DecidableEq

/-- an element node of the flat form: the element's local name and the attributes' local names are
always borrowed -/
def elemS (name : Bytes) (attrs : List (Bytes × SStr)) : SKind :=
  .elem (name, true) (attrs.map fun a => ((a.1, true), a.2))

mutual
  def countS : SNode → Nat
    | .elem _ _ ks => 1 + countAllS ks
    | _ => 1
  def countAllS : List SNode → Nat
    | [] => 0
    | k :: ks => countS k + countAllS ks
end

mutual
  /-- The nodes of the subtree in document order, the first one getting id `id` and parent `parent`.
  Element names, attribute names, comment bodies, PI targets and values: always borrowed. -/
  def expectS (parent id : Nat) : SNode → List (Option Nat × SKind)
    | .elem n as ks => (some parent, elemS n as) :: expectAllS id (id + 1) ks
    | .comment c => [(some parent, .comment (c, true))]
    | .pi t v => [(some parent, .pi (t, true) (if v.isEmpty then none else some (v, true)))]
    | .text t => [(some parent, .text t)]
  def expectAllS (parent id : Nat) : List SNode → List (Option Nat × SKind)
    | [] => []
    | k :: ks => expectS parent id k ++ expectAllS parent (id + countS k) ks
end

/-- How an arena node is read back, every string with its storage (`viewM` with the flags). -/
def viewS (d : Doc) (n : NodeData) : Option Nat × SKind :=
  match n.kind with
  | .root => (n.parent, .root)
  | .comment s => (n.parent, .comment (strS s))
  | .text s => (n.parent, .text (strS s))
  | .pi t v => (n.parent, .pi (spanS t) (v.map spanS))
  | .element _ name attrs _ =>
    let as := (d.attrs.toList.drop attrs.1).take (attrs.2 - attrs.1)
    (n.parent, .elem (spanS name) (as.map fun a => (spanS a.localName, strS a.value)))

end Rox.Spec.Mirror

namespace Rox.Lemmas
open Rox Rox.Spec Rox.Spec.Grammar Rox.Spec.Canon4 Rox.Spec.Mirror

/-! ### The storage-aware abstract arena machine -/

/-- what `viewS` reads of a node -/
abbrev VS := Option Nat × SKind

/-- the attributes of a start tag as the tree shows them, with storage -/
def attrsOfCS (attrs : List AttrC) : List (Bytes × SStr) :=
  attrsOfS (attrs.map fun a => (a.n, a.v))

/-- as `AS`, the run being collected with its storage -/
structure SS where
  out : List VS
  pend : Option SStr
  stk : List Nat

def SS.top (a : SS) : Nat := a.stk.headD 0

def SS.flushed (a : SS) : List VS :=
  a.out ++ (match a.pend with
            | some t => [(some a.top, SKind.text t)]
            | none => [])

def stepS (a : SS) : Item → SS
  | .sp _ => a
  | .comment b => ⟨a.flushed ++ [(some a.top, .comment (b, true))], none, a.stk⟩
  | .pi t _ v =>
    ⟨a.flushed ++ [(some a.top, .pi (t, true) (if v.isEmpty then none else some (v, true)))], none, a.stk⟩
  | .cdata b => ⟨a.out, some (joinRun a.pend (lineEnds b) (cdataBorrowed b)), a.stk⟩
  | .text t => ⟨a.out, some (joinRun a.pend (decodeText t) (textBorrowed t)), a.stk⟩
  | .stag q attrs _ e =>
    ⟨a.flushed ++ [(some a.top, elemS (qparts q).2 (attrsOfCS attrs))], none,
      if e then a.stk else a.flushed.length :: a.stk⟩
  | .etag _ _ => ⟨a.flushed, none, a.stk.tail⟩

def runS : SS → List Item → SS
  | a, [] => a
  | a, it :: r => runS (stepS a it) r

def initS : SS := ⟨[(none, SKind.root)], none, [0]⟩

theorem runS_append (a : SS) (l1 l2 : List Item) : runS a (l1 ++ l2) = runS (runS a l1) l2 := by
  induction l1 generalizing a with
  | nil => rfl
  | cons x r ih => exact ih (stepS a x)

end Rox.Lemmas

/-! ## Part 1 — the decoders with the storage of their result -/

namespace Rox.Lemmas
open Rox Rox.Spec Rox.Spec.Grammar Rox.Spec.Mirror Rox.Props.C04

/-- `process_text` (as `processText_mirror`), with the storage: borrowed exactly when the token has
no `&` and no CR -/
theorem processText_mirrorS (T : Tables) (txt : Bytes) (lower : Token → Ctx → Res Ctx) (c c' : Ctx)
    (t : Span) (r : Range) (hent : c.entities = []) (hd : c.ld.depth = 0)
    (hr : r = (t.off, t.off + t.bytes.length))
    (hs : t.bytes = sliceBytes txt t.off (t.off + t.bytes.length))
    (hne : t.bytes ≠ []) (hlt : bLt ∉ t.bytes)
    (h : processText T txt lower c t r = .ok c') :
    ∃ s : Str, s.bytes = decodeText t.bytes ∧ s.isBorrowed = textBorrowed t.bytes ∧
      c.appendText s r = .ok c' := by
  have _ := hlt
  by_cases hany : (t.bytes.any fun b => b == bAmp || b == bCR) = true
  · have h0 := h
    unfold processText at h0
    simp only [hany, Bool.not_true, Bool.false_eq_true, if_false] at h0
    have hstream : Stream.ofRange txt r.1 r.2 = ⟨t.off, t.bytes⟩ := by
      rw [hr]; simp only [Stream.ofRange]; rw [← hs]
    rw [hstream] at h0
    rw [Res.bind_eq_ok] at h0
    obtain ⟨⟨buf, c1⟩, hloop, _⟩ := h0
    obtain ⟨ps, hp⟩ := processTextLoop_hasPieces T txt lower r c hent (t.bytes.length + 1)
      ⟨t.off, t.bytes⟩ (Nat.lt_succ_self _) _ _ _ hloop
    obtain ⟨_, hdec⟩ := processText_decodes T txt lower c c' t r hr hs hd ps hp hany h
    have hnn := runPieces_decode_ne_nil T txt _ _ _ hp hne
    rw [if_neg hnn] at hdec
    refine ⟨.owned (decodePieces ps), ?_, ?_, hdec⟩
    · exact (runPieces_decodeWith T txt _ _ _ hp _ (Nat.lt_succ_self _)).1
    · show false = !(t.bytes.any fun b => b == bAmp || b == bCR)
      rw [hany]; rfl
  · have hany' : (t.bytes.any fun b => b == bAmp || b == bCR) = false := by simpa using hany
    unfold processText at h
    simp only [hany', Bool.not_false, if_true] at h
    refine ⟨.borrowed t, ?_, ?_, h⟩
    · show t.bytes = decodeText t.bytes
      have hamp : bAmp ∉ t.bytes := by
        intro hm
        have : (t.bytes.any fun b => b == bAmp || b == bCR) = true :=
          List.any_eq_true.mpr ⟨bAmp, hm, by simp⟩
        rw [this] at hany'; cases hany'
      have hcr : ¬ (13 : UInt8) ∈ t.bytes := by
        intro hm
        have : (t.bytes.any fun b => b == bAmp || b == bCR) = true :=
          List.any_eq_true.mpr ⟨13, hm, by simp [bCR]⟩
        rw [this] at hany'; cases hany'
      unfold decodeText
      rw [mir_decodeWith_lit lineEnds rfl _ _ hamp, lineEnds_no_cr _ hcr]
    · show true = !(t.bytes.any fun b => b == bAmp || b == bCR)
      rw [hany']; rfl

/-- the storage of a normalised attribute value: borrowed exactly when the raw value has no `&`,
TAB, LF, CR -/
theorem normalizeAttribute_storage (T : Tables) (txt : Bytes) (c c' : Ctx) (v : Span) (s : Str)
    (h : normalizeAttribute T txt c v = .ok (c', s)) : s.isBorrowed = attrBorrowed v.bytes := by
  unfold attrBorrowed
  unfold normalizeAttribute at h
  split at h
  · rename_i hany
    rw [Res.bind_eq_ok] at h
    obtain ⟨⟨buf, ld, tr⟩, _, h⟩ := h
    rw [Res.bind_eq_ok] at h
    obtain ⟨out, _, h⟩ := h
    simp only [Res.pure_eq, Res.ok.injEq, Prod.mk.injEq] at h
    rw [← h.2, hany]
    rfl
  · rename_i hany
    simp only [Res.ok.injEq, Prod.mk.injEq] at h
    rw [← h.2]
    have : (v.bytes.any fun b => b == bAmp || b == bTab || b == bLF || b == bCR) = false := by
      simpa using hany
    rw [this]
    rfl

/-- `normalize_attribute` (as `normalizeAttribute_mirror`), with the storage -/
theorem normalizeAttribute_mirrorS (T : Tables) (txt : Bytes) (c c' : Ctx) (v : Span) (s : Str)
    (hent : c.entities = []) (hd : c.ld.depth = 0) (hlt : bLt ∉ v.bytes)
    (h : normalizeAttribute T txt c v = .ok (c', s)) :
    s.bytes = decodeAttr v.bytes ∧ s.isBorrowed = attrBorrowed v.bytes ∧
      ∃ tr, c' = { c with trace := tr } := by
  obtain ⟨h1, h2⟩ := normalizeAttribute_mirror T txt c c' v s hent hd hlt h
  exact ⟨h1, normalizeAttribute_storage T txt c c' v s h, h2⟩

end Rox.Lemmas

/-! ## Part 2 — Stage B'' (1): reading the arena back with storage, `MCoreS`, node-appending primitives (storage-aware copy of `Rox.Lemmas.MirrorBuild1`) -/

namespace Rox.Lemmas.MS
open Rox Rox.Spec Rox.Spec.Grammar Rox.Spec.Canon4 Rox.Spec.Mirror Rox.Lemmas.RtB Rox.Lemmas.GB Rox.Lemmas.MB

/-! ### Reading a node back -/

/-- what `viewS` reads of a node, from its kind and parent -/
def viewKS (attrs : List AttrData) (x : Kind × Option Nat) : VS :=
  match x.1 with
  | .root => (x.2, .root)
  | .comment s => (x.2, .comment (strS s))
  | .text s => (x.2, .text (strS s))
  | .pi t v => (x.2, .pi (spanS t) (v.map spanS))
  | .element _ name at_ _ =>
    (x.2, .elem (spanS name)
      (((attrs.drop at_.1).take (at_.2 - at_.1)).map fun a => (spanS a.localName, strS a.value)))

theorem viewS_eq (d : Doc) (n : NodeData) : viewS d n = viewKS d.attrs.toList (kp n) := by
  obtain ⟨p, a, b, c, k, r⟩ := n
  cases k <;> rfl

theorem viewKS_fst (attrs : List AttrData) (x : Kind × Option Nat) : (viewKS attrs x).1 = x.2 := by
  obtain ⟨k, p⟩ := x
  cases k <;> rfl

theorem viewKS_stable (l more : List AttrData) (x : Kind × Option Nat) (h : goodK l.length x.1) :
    viewKS (l ++ more) x = viewKS l x := by
  obtain ⟨k, p⟩ := x
  cases k with
  | element ns name at_ nss =>
    simp only [goodK] at h
    simp only [viewKS, take_drop_append l more at_.1 at_.2 h]
  | _ => rfl

theorem viewKS_map_stable (l more : List AttrData) (xs : List (Kind × Option Nat))
    (h : ∀ x ∈ xs, goodK l.length x.1) : xs.map (viewKS (l ++ more)) = xs.map (viewKS l) := by
  apply List.map_congr_left
  intro x hx
  exact viewKS_stable l more x (h x hx)

/-- a node whose view is a text node is a text node -/
theorem viewKS_text {attrs : List AttrData} {x : Kind × Option Nat} {p : Option Nat} {t : SStr}
    (h : viewKS attrs x = (p, SKind.text t)) : ∃ s, x.1 = .text s ∧ strS s = t ∧ x.2 = p := by
  obtain ⟨k, q⟩ := x
  cases k with
  | text s =>
    simp only [viewKS, Prod.mk.injEq, SKind.text.injEq] at h
    exact ⟨s, rfl, h.2, h.1⟩
  | root => simp [viewKS] at h
  | comment s => simp [viewKS] at h
  | pi a b => simp [viewKS] at h
  | element a b c d => simp [viewKS] at h

/-! ### The stack of open elements, by ids -/

/-- every open element's parent is the next entry of the stack -/
def ChainOS (out : List VS) : List Nat → Prop
  | [] => True
  | [_] => True
  | i :: j :: rest => (∃ k, out[i]? = some (some j, k)) ∧ ChainOS out (j :: rest)

theorem ChainOS.mono {out : List VS} (more : List VS) : ∀ (stk : List Nat), ChainOS out stk →
    ChainOS (out ++ more) stk
  | [], _ => trivial
  | [_], _ => trivial
  | i :: j :: rest, h => by
    obtain ⟨⟨k, hk⟩, hr⟩ := h
    refine ⟨⟨k, ?_⟩, ChainOS.mono more (j :: rest) hr⟩
    have hi : i < out.length := (List.getElem?_eq_some_iff.mp hk).1
    rw [List.getElem?_append_left hi]
    exact hk

theorem ChainOS.tail {out : List VS} : ∀ (stk : List Nat), ChainOS out stk → ChainOS out stk.tail
  | [], _ => trivial
  | [_], _ => trivial
  | _ :: _ :: _, h => h.2

/-! ### The correspondence -/

/-- the text run in progress: nothing pending, or one text node at the end of the arena holding
the first fragment, the fragments so far in `afterText` -/
def PendOkS (a : SS) (c : Ctx) : Prop :=
  match a.pend with
  | none => c.afterText = [] ∧ (kps c).map (viewKS c.doc.attrs.toList) = a.out
  | some t => ∃ s0 rest, c.afterText = s0 :: rest ∧
      (kps c).map (viewKS c.doc.attrs.toList) = a.out ++ [(some a.top, SKind.text (strS s0))] ∧
      ((s0 :: rest).map (·.bytes)).flatten = t.1 ∧ t.2 = (rest.isEmpty && s0.isBorrowed)

/-- the builder context `c` is in the abstract state `a` -/
structure MCoreS (a : SS) (c : Ctx) : Prop where
  ld : c.ld.depth = 0
  pid : c.parentId = a.top
  chain : ChainOS a.out a.stk
  good : ∀ x ∈ kps c, goodK c.doc.attrs.size x.1
  pend : PendOkS a c

theorem PendOkS.none {out : List VS} {stk : List Nat} {c : Ctx}
    (h : PendOkS ⟨out, none, stk⟩ c) :
    c.afterText = [] ∧ (kps c).map (viewKS c.doc.attrs.toList) = out := h

theorem MCoreS.size {out : List VS} {stk : List Nat} {c : Ctx} (h : MCoreS ⟨out, none, stk⟩ c) :
    c.doc.nodes.size = out.length := by
  have := congrArg List.length h.pend.none.2
  simpa [kps_length] using this

/-- only ghost state and fields the correspondence does not read differ -/
theorem MCoreS.congr {a : SS} {c c' : Ctx} (h : MCoreS a c) (hd : c'.doc = c.doc)
    (hl : c'.ld = c.ld) (hp : c'.parentId = c.parentId) (ha : c'.afterText = c.afterText) :
    MCoreS a c' := by
  have hk : kps c' = kps c := by unfold kps; rw [hd]
  refine ⟨by rw [hl]; exact h.ld, by rw [hp]; exact h.pid, h.chain, ?_, ?_⟩
  · rw [hk, hd]; exact h.good
  · have hp := h.pend
    unfold PendOkS at hp ⊢
    rw [hk, hd, ha]
    exact hp

/-! ### `append_node` -/

theorem kps_set_same (a : Array NodeData) (i : Nat) (m m' : NodeData) (hm : a[i]? = some m)
    (h : kp m' = kp m) : (a.setIfInBounds i m').toList.map kp = a.toList.map kp := by
  apply List.ext_getElem?
  intro j
  simp only [List.getElem?_map, Array.getElem?_toList, Array.getElem?_setIfInBounds]
  by_cases hij : i = j
  · subst hij
    obtain ⟨hi, hmi⟩ := Array.getElem?_eq_some_iff.mp hm
    simp [hi, h, hmi]
  · simp [hij]

/-- `append_node`, read backward: one more node; everything else the correspondence reads is
untouched -/
theorem appendNode_kps {c c' : Ctx} {k : Kind} {r : Range} {id : Nat} (hb : BInv c)
    (h : c.appendNode k r = .ok (c', id)) :
    kps c' = kps c ++ [(k, some c.parentId)] ∧ id = c.doc.nodes.size ∧
      c'.doc.attrs = c.doc.attrs ∧ c'.afterText = c.afterText ∧ c'.parentId = c.parentId ∧
      c'.ld = c.ld ∧ c'.curAttrs = c.curAttrs ∧ c'.tagName = c.tagName := by
  obtain ⟨hid, hsz, hold, ⟨p, hp, hnew⟩, _, hpid, haft, _, hattrs, _⟩ :=
    appendNode_spec c c' k r id hb.pid_lt hb.awaiting_lt h
  obtain ⟨nodes, aw, af, tr, e⟩ := gb_appendNode_sh h
  refine ⟨?_, hid, hattrs, haft, hpid, by rw [e], by rw [e], by rw [e]⟩
  apply List.ext_getElem?
  intro i
  unfold kps
  by_cases hi : i < c.doc.nodes.size
  · rw [List.getElem?_append_left (by simpa using hi)]
    simp only [List.getElem?_map, Array.getElem?_toList]
    rw [hold i hi]
    cases c.doc.nodes[i]? <;> simp [kp]
  · by_cases hi' : i = c.doc.nodes.size
    · subst hi'
      rw [List.getElem?_append_right (by simp)]
      simp only [List.getElem?_map, Array.getElem?_toList, hnew]
      simp [kp]
    · have h1 : c'.doc.nodes[i]? = none := by
        apply Array.getElem?_eq_none; omega
      rw [List.getElem?_append_right (by simp; omega)]
      simp only [List.getElem?_map, Array.getElem?_toList, h1]
      have : i - c.doc.nodes.size ≥ 1 := by omega
      simp
      omega

/-- a node that is not an element is appended below the current parent -/
theorem mcoreS_appendLeaf {out : List VS} {stk : List Nat} {c c' : Ctx} {k : Kind} {r : Range}
    {id : Nat} (hm : MCoreS ⟨out, none, stk⟩ c) (hb : BInv c) (hk : k.isElement = false)
    (h : c.appendNode k r = .ok (c', id)) :
    MCoreS ⟨out ++ [(some (SS.top ⟨out, none, stk⟩), (viewKS [] (k, none)).2)], none, stk⟩ c' := by
  obtain ⟨hkps, _, hattrs, haft, hpid, hld, _, _⟩ := appendNode_kps hb h
  obtain ⟨ha, hv⟩ := hm.pend.none
  have hgk : ∀ na, goodK na k := by
    intro na
    cases k <;> first | trivial | (simp [Kind.isElement] at hk)
  refine ⟨by rw [hld]; exact hm.ld, by rw [hpid]; exact hm.pid, ChainOS.mono _ _ hm.chain, ?_, ?_⟩
  · intro x hx
    rw [hkps, List.mem_append, List.mem_singleton] at hx
    rw [hattrs]
    rcases hx with hx | rfl
    · exact hm.good x hx
    · exact hgk _
  · show c'.afterText = [] ∧ (kps c').map (viewKS c'.doc.attrs.toList) = _
    refine ⟨by rw [haft]; exact ha, ?_⟩
    rw [hkps, hattrs, List.map_append, hv, hm.pid]
    congr 1
    cases k <;> first | rfl | (simp [Kind.isElement] at hk)

/-! ### `append_text` -/

theorem mcoreS_appendText {a : SS} {c c' : Ctx} {s : Str} {r : Range} (hm : MCoreS a c) (hb : BInv c)
    (h : c.appendText s r = .ok c') :
    MCoreS ⟨a.out, some (joinRun a.pend s.bytes s.isBorrowed), a.stk⟩ c' := by
  unfold Ctx.appendText at h
  dsimp only at h
  have hm0 : MCoreS a (c.log (.textFragment s r)) := hm.congr rfl rfl rfl rfl
  have hb0 : BInv (c.log (.textFragment s r)) := hb.congr rfl rfl rfl
  generalize c.log (.textFragment s r) = cL at h hm0 hb0
  split at h
  · rename_i hemp
    rw [Res.bind_eq_ok] at h
    obtain ⟨⟨c2, id⟩, h2, h1⟩ := h
    res_norm at h1
    subst h1
    have haft : cL.afterText = [] := by simpa using hemp
    obtain ⟨hkps, _, hattrs, haft2, hpid, hld, _, _⟩ := appendNode_kps hb0 h2
    have hpn : a.pend = none := by
      have hp := hm0.pend
      unfold PendOkS at hp
      cases hq : a.pend with
      | none => rfl
      | some t =>
        rw [hq] at hp
        obtain ⟨s0, rest, e, _⟩ := hp
        rw [haft] at e
        cases e
    have hp := hm0.pend
    unfold PendOkS at hp
    rw [hpn] at hp
    refine ⟨by show c2.ld.depth = 0; rw [hld]; exact hm0.ld,
      by show c2.parentId = _; rw [hpid]; exact hm0.pid, hm0.chain, ?_, ?_⟩
    · intro x hx
      have : kps ({ c2 with afterText := c2.afterText ++ [s] } : Ctx) = kps c2 := rfl
      rw [this, hkps, List.mem_append, List.mem_singleton] at hx
      show goodK c2.doc.attrs.size x.1
      rw [hattrs]
      rcases hx with hx | rfl
      · exact hm0.good x hx
      · trivial
    · show ∃ s0 rest, c2.afterText ++ [s] = s0 :: rest ∧
        (kps c2).map (viewKS c2.doc.attrs.toList) = a.out ++ [(some a.top, SKind.text (strS s0))] ∧
        ((s0 :: rest).map (·.bytes)).flatten = (joinRun a.pend s.bytes s.isBorrowed).1 ∧
        (joinRun a.pend s.bytes s.isBorrowed).2 = (rest.isEmpty && s0.isBorrowed)
      refine ⟨s, [], by rw [haft2, haft]; rfl, ?_, by rw [hpn]; simp [joinRun],
        by rw [hpn]; simp [joinRun]⟩
      rw [hkps, hattrs, List.map_append, hp.2, hm0.pid]
      rfl
  · rename_i hemp
    res_norm at h
    subst h
    have hp := hm0.pend
    unfold PendOkS at hp
    cases hq : a.pend with
    | none =>
      rw [hq] at hp
      rw [hp.1] at hemp
      simp at hemp
    | some t =>
      rw [hq] at hp
      obtain ⟨s0, rest, e, hv, hf, _⟩ := hp
      refine ⟨hm0.ld, hm0.pid, hm0.chain, hm0.good, ?_⟩
      show ∃ s0' rest', cL.afterText ++ [s] = s0' :: rest' ∧
        (kps cL).map (viewKS cL.doc.attrs.toList) = a.out ++ [(some a.top, SKind.text (strS s0'))] ∧
        ((s0' :: rest').map (·.bytes)).flatten = (joinRun (some t) s.bytes s.isBorrowed).1 ∧
        (joinRun (some t) s.bytes s.isBorrowed).2 = (rest'.isEmpty && s0'.isBorrowed)
      refine ⟨s0, rest ++ [s], by rw [e]; rfl, hv, ?_, ?_⟩
      · show _ = t.1 ++ s.bytes
        rw [← hf]
        simp
      · show false = _
        simp

/-! ### `reset_after_text` -/

theorem mcoreS_mergeText {a : SS} {c c' : Ctx} (hm : MCoreS a c) (h : c.mergeText = .ok c')
    (hgt : c.afterText.length > 1) : MCoreS ⟨a.flushed, none, a.stk⟩ { c' with afterText := [] } := by
  have hp := hm.pend
  unfold PendOkS at hp
  cases hq : a.pend with
  | none => rw [hq] at hp; rw [hp.1] at hgt; simp at hgt
  | some t =>
    rw [hq] at hp
    obtain ⟨s0, rest, e, hv, hf, hfl⟩ := hp
    have hrne : rest.isEmpty = false := by
      cases rest with
      | nil => rw [e] at hgt; simp at hgt
      | cons _ _ => rfl
    rw [hrne, Bool.false_and] at hfl
    unfold Ctx.mergeText at h
    dsimp only at h
    split at h
    · simp at h
    · split at h
      · simp at h
      · rename_i n hn
        split at h
        · rename_i sx hkx
          simp only [Res.ok.injEq] at h
          subst h
          have hlen : (kps c).length = a.out.length + 1 := by
            have := congrArg List.length hv
            simpa using this
          have hsz : c.doc.nodes.size = a.out.length + 1 := by rw [← kps_length]; exact hlen
          have hidx : c.doc.nodes.size - 1 = a.out.length := by omega
          -- the last node
          have hlast : (kps c)[a.out.length]? = some (kp n) := by
            rw [kps_getElem?, ← hidx, hn]; rfl
          have hvl : viewKS c.doc.attrs.toList (kp n) = (some a.top, SKind.text (strS s0)) := by
            have := congrArg (fun l => l[a.out.length]?) hv
            simp only [List.getElem?_map, hlast, Option.map_some] at this
            rw [List.getElem?_append_right (Nat.le_refl _)] at this
            simpa using this
          have hpar : n.parent = some a.top := by
            have := viewKS_fst c.doc.attrs.toList (kp n)
            rw [hvl] at this
            exact this.symm
          -- the arena after the merge
          have hkps' : kps (c.setNode (c.doc.nodes.size - 1)
              { n with kind := .text (.owned (c.afterText.map (·.bytes)).flatten) }) =
              (kps c).set a.out.length
                (Kind.text (.owned (c.afterText.map (·.bytes)).flatten), some a.top) := by
            unfold kps Ctx.setNode
            simp only [Array.toList_setIfInBounds, List.map_set, hidx]
            simp [kp, hpar]
          refine ⟨hm.ld, hm.pid, ?_, ?_, ?_⟩
          · show ChainOS (SS.flushed a) a.stk
            unfold SS.flushed
            exact ChainOS.mono _ _ hm.chain
          · intro x hx
            have hx' : x ∈ kps (c.setNode (c.doc.nodes.size - 1)
                { n with kind := .text (.owned (c.afterText.map (·.bytes)).flatten) }) := hx
            rw [hkps'] at hx'
            show goodK c.doc.attrs.size x.1
            rcases List.mem_or_eq_of_mem_set hx' with hx' | rfl
            · exact hm.good x hx'
            · trivial
          · show ([] : List Str) = [] ∧ (kps (c.setNode (c.doc.nodes.size - 1)
                { n with kind := .text (.owned (c.afterText.map (·.bytes)).flatten) })).map
                  (viewKS c.doc.attrs.toList) = SS.flushed a
            refine ⟨rfl, ?_⟩
            rw [hkps', List.map_set, hv]
            unfold SS.flushed
            rw [hq]
            simp only
            rw [List.set_append_right _ _ (Nat.le_refl _)]
            simp only [Nat.sub_self, List.set_cons_zero]
            rw [e, hf]
            show a.out ++ [(some a.top, SKind.text (t.1, false))] = a.out ++ [(some a.top, SKind.text t)]
            rw [← hfl]
        · simp at h

/-- `reset_after_text`: the text run in progress, if any, becomes one finished text node -/
theorem mcoreS_reset {a : SS} {c c1 : Ctx} (hm : MCoreS a c) (h : c.resetAfterText = .ok c1) :
    MCoreS ⟨a.flushed, none, a.stk⟩ c1 ∧ c1.curAttrs = c.curAttrs ∧ c1.doc.attrs = c.doc.attrs := by
  unfold Ctx.resetAfterText at h
  dsimp only at h
  split at h
  · rename_i hemp
    simp only [Res.ok.injEq] at h
    subst h
    have haft : c.afterText = [] := by simpa using hemp
    have hp := hm.pend
    unfold PendOkS at hp
    cases hq : a.pend with
    | some t =>
      rw [hq] at hp
      obtain ⟨s0, rest, e, _⟩ := hp
      rw [haft] at e
      cases e
    | none =>
      rw [hq] at hp
      refine ⟨⟨hm.ld, hm.pid, ?_, hm.good, ?_⟩, rfl, rfl⟩
      · show ChainOS (SS.flushed a) a.stk
        unfold SS.flushed
        exact ChainOS.mono _ _ hm.chain
      · show c.afterText = [] ∧ (kps c).map (viewKS c.doc.attrs.toList) = SS.flushed a
        unfold SS.flushed
        rw [hq]
        simpa using hp
  · rename_i hemp
    have hne : c.afterText ≠ [] := by simpa using hemp
    split at h
    · rw [Res.bind_eq_ok] at h
      obtain ⟨c2, h2, h⟩ := h
      res_norm at h
      subst h
      rename_i hgt
      have := mcoreS_mergeText hm h2 hgt
      obtain ⟨nodes, aw, af, tr, e⟩ := gb_mergeText_sh h2
      exact ⟨this, by rw [e], by rw [e]⟩
    · rename_i hlen
      res_norm at h
      subst h
      have hp := hm.pend
      unfold PendOkS at hp
      cases hq : a.pend with
      | none => rw [hq] at hp; exact absurd hp.1 hne
      | some t =>
        rw [hq] at hp
        obtain ⟨s0, rest, e, hv, hf, hfl⟩ := hp
        have hrest : rest = [] := by
          cases rest with
          | nil => rfl
          | cons x xs => rw [e] at hlen; simp at hlen
        subst hrest
        refine ⟨⟨hm.ld, hm.pid, ?_, hm.good, ?_⟩, rfl, rfl⟩
        · show ChainOS (SS.flushed a) a.stk
          unfold SS.flushed
          exact ChainOS.mono _ _ hm.chain
        · show ([] : List Str) = [] ∧ (kps c).map (viewKS c.doc.attrs.toList) = SS.flushed a
          refine ⟨rfl, ?_⟩
          unfold SS.flushed
          rw [hq, hv]
          simp only
          have ht : strS s0 = t := by
            apply Prod.ext
            · show s0.bytes = t.1
              rw [← hf]; simp
            · show s0.isBorrowed = t.2
              rw [hfl]; simp
          rw [ht]

/-- `reset_after_text` after logging the token -/
theorem mcoreS_logreset {a : SS} {c c1 : Ctx} {e : Ev} (hm : MCoreS a c)
    (h : (c.log e).resetAfterText = .ok c1) :
    MCoreS ⟨a.flushed, none, a.stk⟩ c1 ∧ c1.curAttrs = c.curAttrs ∧ c1.doc.attrs = c.doc.attrs :=
  mcoreS_reset (c := c.log e) (hm.congr rfl rfl rfl rfl) h

end Rox.Lemmas.MS

/-! ## Part 3 — Stage B'' (2): comments, PIs, CDATA, character data, end tags (copy of `MirrorBuild2`) -/

namespace Rox.Lemmas.MS
open Rox Rox.Spec Rox.Spec.Grammar Rox.Spec.Canon4 Rox.Spec.Mirror Rox.Lemmas.RtB Rox.Lemmas.GB Rox.Lemmas.MB

/-- only fields the correspondence does not read differ (the namespace table may) -/
theorem MCoreS.congrNA {a : SS} {c c' : Ctx} (h : MCoreS a c) (hn : c'.doc.nodes = c.doc.nodes)
    (hat : c'.doc.attrs = c.doc.attrs) (hl : c'.ld = c.ld) (hp : c'.parentId = c.parentId)
    (ha : c'.afterText = c.afterText) : MCoreS a c' := by
  have hk : kps c' = kps c := by unfold kps; rw [hn]
  refine ⟨by rw [hl]; exact h.ld, by rw [hp]; exact h.pid, h.chain, ?_, ?_⟩
  · rw [hk, hat]; exact h.good
  · have hp := h.pend
    unfold PendOkS at hp ⊢
    rw [hk, hat, ha]
    exact hp

/-- what `Rox.Lemmas.MirrorDecode.processText_mirror` provides -/
def TextDecS (T : Tables) (txt : Bytes) (lower : Token → Ctx → Res Ctx) : Prop :=
  ∀ (c c' : Ctx) (t : Span) (r : Range), c.entities = [] → c.ld.depth = 0 →
    r = (t.off, t.off + t.bytes.length) →
    t.bytes = sliceBytes txt t.off (t.off + t.bytes.length) → t.bytes ≠ [] → bLt ∉ t.bytes →
    processText T txt lower c t r = .ok c' →
    ∃ s : Str, s.bytes = decodeText t.bytes ∧ s.isBorrowed = textBorrowed t.bytes ∧
      c.appendText s r = .ok c'

section
variable (T : Tables) (txt : Bytes) (lower : Token → Ctx → Res Ctx)

theorem ms_tok_comment {stk : List QP} {a : SS} {c c' : Ctx} {sp : Span} {r : Range}
    (hg : GInv stk c) (hm : MCoreS a c) (h : tokenStep T txt lower (.comment sp r) c = .ok c') :
    MCoreS ⟨a.flushed ++ [(some a.top, .comment (sp.bytes, true))], none, a.stk⟩ c' := by
  unfold tokenStep at h
  dsimp only at h
  rw [Res.bind_eq_ok] at h
  obtain ⟨c1, h1, h⟩ := h
  rw [Res.bind_eq_ok] at h
  obtain ⟨⟨c2, id⟩, h2, h⟩ := h
  res_norm at h
  subst h
  have hb0 : BInv (c.log (.token (.comment sp r))) := hg.binv.congr rfl rfl rfl
  have hb1 := binv_resetAfterText hb0 h1
  obtain ⟨hm1, _, _⟩ := mcoreS_logreset hm h1
  exact mcoreS_appendLeaf hm1 hb1 rfl h2

theorem ms_tok_pi {stk : List QP} {a : SS} {c c' : Ctx} {sp : Span} {vo : Option Span} {r : Range}
    (hg : GInv stk c) (hm : MCoreS a c) (h : tokenStep T txt lower (.pi sp vo r) c = .ok c') :
    MCoreS ⟨a.flushed ++ [(some a.top, .pi (sp.bytes, true) (vo.map spanS))], none, a.stk⟩ c' := by
  unfold tokenStep at h
  dsimp only at h
  rw [Res.bind_eq_ok] at h
  obtain ⟨c1, h1, h⟩ := h
  rw [Res.bind_eq_ok] at h
  obtain ⟨⟨c2, id⟩, h2, h⟩ := h
  res_norm at h
  subst h
  have hb0 : BInv (c.log (.token (.pi sp vo r))) := hg.binv.congr rfl rfl rfl
  have hb1 := binv_resetAfterText hb0 h1
  obtain ⟨hm1, _, _⟩ := mcoreS_logreset hm h1
  exact mcoreS_appendLeaf hm1 hb1 rfl h2

theorem ms_tok_cdata {stk : List QP} {a : SS} {c c' : Ctx} {sp : Span} {r : Range}
    (hg : GInv stk c) (hm : MCoreS a c) (h : tokenStep T txt lower (.cdata sp r) c = .ok c') :
    MCoreS ⟨a.out, some (joinRun a.pend (lineEnds sp.bytes) (cdataBorrowed sp.bytes)), a.stk⟩ c' := by
  unfold tokenStep at h
  dsimp only at h
  have hb0 : BInv (c.log (.token (.cdata sp r))) := hg.binv.congr rfl rfl rfl
  have hm0 : MCoreS a (c.log (.token (.cdata sp r))) := hm.congr rfl rfl rfl rfl
  unfold processCdata at h
  split at h
  · rename_i hcr
    have := mcoreS_appendText hm0 hb0 h
    have hle : lineEnds sp.bytes = sp.bytes := by
      apply Rox.Props.C04.lineEnds_no_cr
      intro hmem
      have hc : sp.bytes.contains bCR = true := List.contains_iff_mem.mpr hmem
      rw [hc] at hcr
      simp at hcr
    have hfl : cdataBorrowed sp.bytes = true := by
      unfold cdataBorrowed
      simpa using hcr
    rw [hle, hfl]
    exact this
  · rename_i hcr
    have := mcoreS_appendText hm0 hb0 h
    have hfl : cdataBorrowed sp.bytes = false := by
      unfold cdataBorrowed
      simpa using hcr
    rw [← Rox.Props.C04.cdata_is_lineEnds, hfl]
    exact this

theorem ms_tok_text (hP : TextDecS T txt lower) {stk : List QP} {a : SS} {c c' : Ctx} {sp : Span}
    {r : Range} (hg : GInv stk c) (hm : MCoreS a c) (htok : TokOk txt (.text sp r))
    (hne : sp.bytes ≠ []) (hlt : bLt ∉ sp.bytes)
    (h : tokenStep T txt lower (.text sp r) c = .ok c') :
    MCoreS ⟨a.out, some (joinRun a.pend (decodeText sp.bytes) (textBorrowed sp.bytes)), a.stk⟩ c' := by
  unfold tokenStep at h
  dsimp only at h
  have hb0 : BInv (c.log (.token (.text sp r))) := hg.binv.congr rfl rfl rfl
  have hm0 : MCoreS a (c.log (.token (.text sp r))) := hm.congr rfl rfl rfl rfl
  obtain ⟨hsu, _, hr, _⟩ := htok
  obtain ⟨s, hs, hfl, happ⟩ := hP (c.log (.token (.text sp r))) c' sp r hg.ents hm.ld hr hsu.1.1 hne hlt h
  rw [← hs, ← hfl]
  exact mcoreS_appendText hm0 hb0 happ

theorem ms_close {stk : List QP} {out : List VS} {ids : List Nat} {c c' : Ctx} {p l : Span}
    {r : Range} (hg : GInv stk c) (hm : MCoreS ⟨out, none, ids⟩ c) (hlen : 2 ≤ ids.length)
    (h : processElement txt c (.close p l) r = .ok c') : MCoreS ⟨out, none, ids.tail⟩ c' := by
  unfold processElement at h
  split at h
  · exact absurd h (errPos_ne_ok _ _ _ _)
  · rw [Res.bind_eq_ok] at h
    obtain ⟨⟨c1, nss⟩, h1, h⟩ := h
    try dsimp only at h
    rw [Res.bind_eq_ok] at h
    obtain ⟨⟨c2, attrs⟩, h2, h⟩ := h
    obtain ⟨e1, e2, e3, e4, e5⟩ := prelude_nil txt hg.cur h1 h2
    have hm2 : MCoreS ⟨out, none, ids⟩ c2 := hm.congrNA e1 e2 e3 e4 e5
    clear h1 h2 hm hg e1 e2 e3 e4 e5
    split at h
    · exact absurd h (errPos_ne_ok _ _ _ _)
    · rw [Res.bind_eq_ok] at h
      obtain ⟨nd, hpn', h⟩ := h
      split at h
      · simp at h
      · rename_i parentPrefix restPrefixes hpp
        split at h
        · exact absurd h (errPos_ne_ok _ _ _ _)
        · rename_i hmis
          split at h
          · rename_i id hid
            dsimp only at hpn' hpp hmis hid
            have hpn : c2.doc.nodes[c2.parentId]? = some nd := by
              unfold Ctx.nodeAt at hpn'
              split at hpn' <;> simp at hpn'
              subst hpn'; assumption
            generalize hpd : (if c2.positions = true then
                ({ nd with range := (nd.range.1, r.2) } : NodeData) else nd) = pnew at h hmis hid
            have hpk : pnew.kind = nd.kind ∧ pnew.parent = nd.parent := by
              subst hpd; split <;> exact ⟨rfl, rfl⟩
            rw [hpk.2] at hid
            res_norm at h
            subst h
            -- the stack
            obtain ⟨hv0, hv⟩ := hm2.pend.none
            cases ids with
            | nil => simp at hlen
            | cons i ids1 =>
              cases ids1 with
              | nil => simp at hlen
              | cons j rest =>
                obtain ⟨⟨k, hk⟩, hch⟩ := hm2.chain
                have hpi : c2.parentId = i := hm2.pid
                have hkpn : (kps c2)[i]? = some (kp nd) := by
                  rw [kps_getElem?, ← hpi, hpn]; rfl
                have hvi : viewKS c2.doc.attrs.toList (kp nd) = (some j, k) := by
                  have := congrArg (fun l => l[i]?) hv
                  simp only [List.getElem?_map, hkpn, Option.map_some] at this
                  rw [hk] at this
                  simpa using this
                have hpar : nd.parent = some j := by
                  have := viewKS_fst c2.doc.attrs.toList (kp nd)
                  rw [hvi] at this
                  exact this.symm
                rw [hpar] at hid
                simp only [Option.some.injEq] at hid
                subst hid
                have hkps : kps (c2.setNode c2.parentId pnew) = kps c2 := by
                  unfold kps Ctx.setNode
                  exact kps_set_same _ _ nd _ hpn (by simp [kp, hpk.1, hpk.2])
                refine ⟨hm2.ld, rfl, hch, ?_, ?_⟩
                · intro x hx
                  have hx' : x ∈ kps (c2.setNode c2.parentId pnew) := hx
                  rw [hkps] at hx'
                  exact hm2.good x hx'
                · show c2.afterText = [] ∧
                    (kps (c2.setNode c2.parentId pnew)).map (viewKS c2.doc.attrs.toList) = out
                  rw [hkps]
                  exact ⟨hv0, hv⟩
          · exact absurd h (errPos_ne_ok _ _ _ _)

theorem ms_tok_close {stk : List QP} {a : SS} {c c' : Ctx} {p l : Span} {r : Range}
    (hg : GInv stk c) (hm : MCoreS a c) (hlen : 2 ≤ a.stk.length)
    (h : tokenStep T txt lower (.elementEnd (.close p l) r) c = .ok c') :
    MCoreS ⟨a.flushed, none, a.stk.tail⟩ c' := by
  unfold tokenStep at h
  dsimp only at h
  rw [Res.bind_eq_ok] at h
  obtain ⟨c1, h1, h⟩ := h
  obtain ⟨hg1, _, _⟩ := gb_reset hg h1
  obtain ⟨hm1, _, _⟩ := mcoreS_logreset hm h1
  exact ms_close txt hg1 hm1 hlen h

end

end Rox.Lemmas.MS

/-! ## Part 4 — Stage B'' (3): start tags (copy of `MirrorBuild3`) -/

namespace Rox.Lemmas.MS
open Rox Rox.Spec Rox.Spec.Grammar Rox.Spec.Canon4 Rox.Spec.Mirror Rox.Lemmas.RtB Rox.Lemmas.GB Rox.Lemmas.MB

/-- inside a start tag, after the attributes `seenA` (as written) -/
structure MTInvS (a : SS) (seenA : List AttrC) (c : Ctx) : Prop where
  core : MCoreS a c
  pnone : a.pend = none
  cur : (c.curAttrs.map fun x => (x.loc.bytes, strS x.value)) = attrsOfCS seenA

/-- what `Rox.Lemmas.MirrorDecode.normalizeAttribute_mirror` provides -/
def NormOkS (T : Tables) (txt : Bytes) : Prop :=
  ∀ (c c' : Ctx) (v : Span) (s : Str), c.entities = [] → c.ld.depth = 0 → bLt ∉ v.bytes →
    normalizeAttribute T txt c v = .ok (c', s) →
    s.bytes = decodeAttr v.bytes ∧ s.isBorrowed = attrBorrowed v.bytes ∧
      ∃ tr, c' = { c with trace := tr }

/-! ### Auxiliary facts -/

/-- like `MCoreS.congr`, but the document may differ outside the arena and the attribute table
(the namespace table is not read by the correspondence) -/
theorem MCoreS.congr' {a : SS} {c c' : Ctx} (h : MCoreS a c) (hn : c'.doc.nodes = c.doc.nodes)
    (hat : c'.doc.attrs = c.doc.attrs) (hl : c'.ld = c.ld) (hp : c'.parentId = c.parentId)
    (ha : c'.afterText = c.afterText) : MCoreS a c' := by
  have hk : kps c' = kps c := by unfold kps; rw [hn]
  refine ⟨by rw [hl]; exact h.ld, by rw [hp]; exact h.pid, h.chain, ?_, ?_⟩
  · rw [hk, hat]; exact h.good
  · have hp := h.pend
    unfold PendOkS at hp ⊢
    rw [hk, hat, ha]
    exact hp

theorem attrsOfCS_snoc (l : List AttrC) (x : AttrC) :
    attrsOfCS (l ++ [x]) =
      attrsOfCS l ++ (if isNsDecl x.n = true then []
        else [((qparts x.n).2, (decodeAttr x.v, attrBorrowed x.v))]) := by
  unfold attrsOfCS attrsOfS
  simp only [List.map_append, List.filter_append, List.map_cons, List.map_nil, List.filter_cons,
    List.filter_nil]
  cases isNsDecl x.n <;> simp

theorem flushedS_none (out : List VS) (ids : List Nat) : SS.flushed ⟨out, none, ids⟩ = out := by
  simp [SS.flushed]

/-- the preparatory steps of `process_element`, as far as the correspondence reads them -/
theorem ms_prelude {txt : Bytes} {c c1 c2 : Ctx} {nss attrs : Range} (hb : BInv c)
    (h1 : resolveNamespaces c = .ok (c1, nss))
    (h2 : resolveAttributes txt { c1 with nsStartIdx := c1.doc.ns.treeOrder.size, xmlDeclared := false }
      nss = .ok (c2, attrs)) :
    BInv c2 ∧ c2.doc.nodes = c.doc.nodes ∧ c2.parentId = c.parentId ∧ c2.afterText = c.afterText ∧
      c2.ld = c.ld ∧ c2.tagName = c.tagName ∧
      (∃ new, c2.doc.attrs.toList = c.doc.attrs.toList ++ new) ∧
      ((c2.doc.attrs.toList.drop attrs.1).take (attrs.2 - attrs.1)).map
          (fun a => (a.localName.bytes, strS a.value)) =
        c.curAttrs.map (fun x => (x.loc.bytes, strS x.value)) ∧
      attrs.2 ≤ c2.doc.attrs.size := by
  have t1 := resolveNamespaces_triEq _ _ _ h1
  have t2 := resolveAttributes_triEq _ _ _ _ _ h2
  have hb2 : BInv c2 := t2.binv ((t1.binv hb).congr rfl rfl rfl)
  obtain ⟨hnew, hle⟩ := mb_resolveAttributes h2
  obtain ⟨hmap, _⟩ := resolveAttributes_spec txt _ c2 nss attrs h2
  have hmap' := congrArg (List.map fun (t : Option Nat × Span × Str) => (t.2.1.bytes, strS t.2.2)) hmap
  simp only [List.map_map] at hmap'
  obtain ⟨ns, e1⟩ := gb_resolveNamespaces_sh h1
  obtain ⟨ats, e2⟩ := gb_resolveAttributes_sh h2
  refine ⟨hb2, by rw [e2, e1], by rw [e2, e1], by rw [e2, e1], by rw [e2, e1], by rw [e2, e1], ?_, ?_,
    hle⟩
  · obtain ⟨new, hnew⟩ := hnew
    refine ⟨new, ?_⟩
    rw [hnew, e1]
  · have : c1.curAttrs = c.curAttrs := by rw [e1]
    rw [← this]
    exact hmap'

/-- an element node is appended below the current parent; its attribute range shows `avs` -/
theorem mcoreS_appendElem {out : List VS} {ids : List Nat} {c c2 c3 : Ctx} {tagNs : Option Nat}
    {name : Span} {attrs nss rg : Range} {id : Nat} {avs : List (Bytes × SStr)}
    (hm : MCoreS ⟨out, none, ids⟩ c) (hb2 : BInv c2) (hn : c2.doc.nodes = c.doc.nodes)
    (hp : c2.parentId = c.parentId) (haf : c2.afterText = c.afterText) (hld : c2.ld = c.ld)
    (hnew : ∃ new, c2.doc.attrs.toList = c.doc.attrs.toList ++ new)
    (hsl : ((c2.doc.attrs.toList.drop attrs.1).take (attrs.2 - attrs.1)).map
      (fun a => (a.localName.bytes, strS a.value)) = avs)
    (hle : attrs.2 ≤ c2.doc.attrs.size)
    (h3 : c2.appendNode (.element tagNs name attrs nss) rg = .ok (c3, id)) :
    id = out.length ∧
      MCoreS ⟨out ++ [(some (SS.top ⟨out, none, ids⟩), elemS name.bytes avs)], none, ids⟩ c3 := by
  obtain ⟨hkps, hid, hattrs, haft, hpid, hld3, _, _⟩ := appendNode_kps hb2 h3
  obtain ⟨ha, hv⟩ := hm.pend.none
  obtain ⟨new, hnew⟩ := hnew
  have hk2 : kps c2 = kps c := by unfold kps; rw [hn]
  have hsz : c2.doc.attrs.size = c.doc.attrs.size + new.length := by
    rw [← Array.length_toList, hnew, List.length_append, Array.length_toList]
  have hgood : ∀ x ∈ kps c, goodK c.doc.attrs.toList.length x.1 := by
    intro x hx
    rw [Array.length_toList]
    exact hm.good x hx
  refine ⟨by rw [hid, hn]; exact hm.size, ?_⟩
  refine ⟨by rw [hld3, hld]; exact hm.ld, by rw [hpid, hp]; exact hm.pid,
    ChainOS.mono _ _ hm.chain, ?_, ?_⟩
  · intro x hx
    rw [hkps, hk2, List.mem_append, List.mem_singleton] at hx
    rw [hattrs]
    rcases hx with hx | rfl
    · exact goodK_mono (hm.good x hx) (by omega)
    · exact hle
  · show c3.afterText = [] ∧ (kps c3).map (viewKS c3.doc.attrs.toList) = _
    refine ⟨by rw [haft, haf]; exact ha, ?_⟩
    rw [hkps, hk2, hattrs, List.map_append]
    congr 1
    · rw [hnew, viewKS_map_stable _ new _ hgood]
      exact hv
    · rw [hp, hm.pid, ← hsl]
      simp only [List.map_cons, List.map_nil, viewKS, elemS, List.map_map, spanS]
      rfl

section
variable (T : Tables) (txt : Bytes)

/-- `process_attribute` -/
theorem ms_attr (hN : NormOkS T txt) {a : SS} {seenA : List AttrC} {c c' : Ctx} {at_ : AttrC}
    {r : Range} {q e : Nat} {pfx loc v : Span} (hents : c.entities = []) (hm : MTInvS a seenA c)
    (hat : qparts at_.n = (pfx.bytes, loc.bytes) ∧ v.bytes = at_.v) (hlt : bLt ∉ v.bytes)
    (h : processAttribute T txt c r q e pfx loc v = .ok c') : MTInvS a (seenA ++ [at_]) c' := by
  unfold processAttribute at h
  rw [Res.bind_eq_ok] at h
  obtain ⟨⟨c1, value⟩, h1, h⟩ := h
  obtain ⟨hs, hfl, tr, e1⟩ := hN c c1 v value hents hm.core.ld hlt h1
  have hm1 : MTInvS a seenA (c1.log (.attrValue value)) := by
    subst e1
    exact ⟨hm.core.congr rfl rfl rfl rfl, hm.pnone, hm.cur⟩
  have hq1 : (qparts at_.n).1 = pfx.bytes := by rw [hat.1]
  have hq2 : (qparts at_.n).2 = loc.bytes := by rw [hat.1]
  clear h1 e1 hm
  try dsimp only at h
  generalize c1.log (.attrValue value) = cL at h hm1
  have hdecl : isNsDecl at_.n = true → ∀ cx : Ctx, cx.doc.nodes = cL.doc.nodes →
      cx.doc.attrs = cL.doc.attrs → cx.ld = cL.ld → cx.parentId = cL.parentId →
      cx.afterText = cL.afterText → cx.curAttrs = cL.curAttrs → MTInvS a (seenA ++ [at_]) cx := by
    intro hd cx g1 g2 g3 g4 g5 g6
    refine ⟨hm1.core.congr' g1 g2 g3 g4 g5, hm1.pnone, ?_⟩
    rw [attrsOfCS_snoc, if_pos hd, List.append_nil, g6]
    exact hm1.cur
  split at h
  · rename_i hpfx
    have hd : isNsDecl at_.n = true := by
      unfold isNsDecl
      rw [hq1, hpfx]
      rfl
    split at h
    · exact absurd h (errPos_ne_ok _ _ _ _)
    · split at h
      · exact absurd h (errPos_ne_ok _ _ _ _)
      · try dsimp only at h
        split at h
        · exact absurd h (errPos_ne_ok _ _ _ _)
        · split at h
          · exact absurd h (errPos_ne_ok _ _ _ _)
          · rw [Res.bind_eq_ok] at h
            obtain ⟨ex, hex, h⟩ := h
            split at h
            · exact absurd h (errPos_ne_ok _ _ _ _)
            · split at h
              · rw [Res.bind_eq_ok] at h
                obtain ⟨ns, hns, h⟩ := h
                res_norm at h; subst h
                exact hdecl hd _ rfl rfl rfl rfl rfl rfl
              · res_norm at h; subst h
                exact hdecl hd _ rfl rfl rfl rfl rfl rfl
  · rename_i hpfx
    split at h
    · rename_i hb
      have hd : isNsDecl at_.n = true := by
        unfold isNsDecl
        rw [hq1, hq2, hb]
        simp
      split at h
      · exact absurd h (errPos_ne_ok _ _ _ _)
      · split at h
        · exact absurd h (errPos_ne_ok _ _ _ _)
        · rw [Res.bind_eq_ok] at h
          obtain ⟨ex, hex, h⟩ := h
          split at h
          · exact absurd h (errPos_ne_ok _ _ _ _)
          · rw [Res.bind_eq_ok] at h
            obtain ⟨ns, hns, h⟩ := h
            res_norm at h; subst h
            exact hdecl hd _ rfl rfl rfl rfl rfl rfl
    · rename_i hb
      res_norm at h; subst h
      have hd : ¬ isNsDecl at_.n = true := by
        unfold isNsDecl
        rw [hq1, hq2]
        simp only [Bool.or_eq_true, not_or]
        exact ⟨hpfx, hb⟩
      refine ⟨hm1.core.congr rfl rfl rfl rfl, hm1.pnone, ?_⟩
      rw [attrsOfCS_snoc, if_neg hd]
      show List.map _ (cL.curAttrs ++ [_]) = _
      rw [List.map_append, hm1.cur, hq2]
      simp only [List.map_cons, List.map_nil]
      show _ ++ [(loc.bytes, (value.bytes, value.isBorrowed))] = _
      rw [hs, hfl, hat.2]

/-- `process_element` for `>` -/
theorem ms_open {stk : List QP} {tn : TagName} {seen : List QP} {out : List VS} {ids : List Nat}
    {avs : List (Bytes × SStr)} {c c' : Ctx} {r : Range} (hi : TInv stk tn seen c)
    (hm : MCoreS ⟨out, none, ids⟩ c)
    (hcur : (c.curAttrs.map fun x => (x.loc.bytes, strS x.value)) = avs)
    (h : processElement txt c .open r = .ok c') :
    MCoreS ⟨out ++ [(some (SS.top ⟨out, none, ids⟩), elemS tn.nameSpan.bytes avs)], none,
      out.length :: ids⟩ c' := by
  unfold processElement at h
  split at h
  · simp at h
  · rw [Res.bind_eq_ok] at h
    obtain ⟨⟨c1, nss⟩, h1, h⟩ := h
    try dsimp only at h
    rw [Res.bind_eq_ok] at h
    obtain ⟨⟨c2, attrs⟩, h2, h⟩ := h
    obtain ⟨hb2, hn, hp, haf, hld, htag, hnew, hsl, hle⟩ := ms_prelude hi.core.binv h1 h2
    clear h1 h2
    try dsimp only at h
    rw [Res.bind_eq_ok] at h
    obtain ⟨tagNs, _, h⟩ := h
    rw [Res.bind_eq_ok] at h
    obtain ⟨⟨c3, newId⟩, h3, h⟩ := h
    res_norm at h
    subst h
    obtain ⟨hid, hm3⟩ := mcoreS_appendElem hm hb2 hn hp haf hld hnew (hsl.trans hcur) hle h3
    rw [htag, hi.tag] at hm3
    refine ⟨hm3.ld, hid, ?_, hm3.good, hm3.pend.none⟩
    show ChainOS _ (out.length :: ids)
    cases ids with
    | nil => trivial
    | cons j rest =>
      refine ⟨⟨elemS tn.nameSpan.bytes avs, ?_⟩, hm3.chain⟩
      rw [List.getElem?_append_right (Nat.le_refl _)]
      simp [SS.top]

/-- `process_element` for `/>` -/
theorem ms_empty {stk : List QP} {tn : TagName} {seen : List QP} {out : List VS} {ids : List Nat}
    {avs : List (Bytes × SStr)} {c c' : Ctx} {r : Range} (hi : TInv stk tn seen c)
    (hm : MCoreS ⟨out, none, ids⟩ c)
    (hcur : (c.curAttrs.map fun x => (x.loc.bytes, strS x.value)) = avs)
    (h : processElement txt c .empty r = .ok c') :
    MCoreS ⟨out ++ [(some (SS.top ⟨out, none, ids⟩), elemS tn.nameSpan.bytes avs)], none, ids⟩ c' := by
  unfold processElement at h
  split at h
  · simp at h
  · rw [Res.bind_eq_ok] at h
    obtain ⟨⟨c1, nss⟩, h1, h⟩ := h
    try dsimp only at h
    rw [Res.bind_eq_ok] at h
    obtain ⟨⟨c2, attrs⟩, h2, h⟩ := h
    obtain ⟨hb2, hn, hp, haf, hld, htag, hnew, hsl, hle⟩ := ms_prelude hi.core.binv h1 h2
    clear h1 h2
    try dsimp only at h
    rw [Res.bind_eq_ok] at h
    obtain ⟨tagNs, _, h⟩ := h
    rw [Res.bind_eq_ok] at h
    obtain ⟨⟨c3, newId⟩, h3, h⟩ := h
    res_norm at h
    subst h
    obtain ⟨_, hm3⟩ := mcoreS_appendElem hm hb2 hn hp haf hld hnew (hsl.trans hcur) hle h3
    rw [htag, hi.tag] at hm3
    exact hm3.congr rfl rfl rfl rfl

variable (lower : Token → Ctx → Res Ctx)

/-- `ElementStart`: the text run in progress is finished, the tag name recorded -/
theorem ms_tok_start {stk : List QP} {a : SS} {c c' : Ctx} {p l : Span} {st : Nat}
    (hg : GInv stk c) (hm : MCoreS a c)
    (h : tokenStep T txt lower (.elementStart p l st) c = .ok c') :
    MTInvS ⟨a.flushed, none, a.stk⟩ [] c' := by
  unfold tokenStep at h
  dsimp only at h
  rw [Res.bind_eq_ok] at h
  obtain ⟨c1, h1, h⟩ := h
  obtain ⟨hm1, hcur, _⟩ := mcoreS_logreset hm h1
  split at h
  · exact absurd h (errPos_ne_ok _ _ _ _)
  · res_norm at h
    subst h
    refine ⟨hm1.congr rfl rfl rfl rfl, rfl, ?_⟩
    show List.map _ c1.curAttrs = _
    rw [hcur, hg.cur]
    rfl

/-- one `Attribute` token -/
theorem ms_tok_attr (hN : NormOkS T txt) {stk : List QP} {tn : TagName} {seen : List QP} {a : SS}
    {seenA : List AttrC} {c c' : Ctx} {at_ : AttrC} {r : Range} {q e : Nat} {pfx loc v : Span}
    (hi : TInv stk tn seen c) (hm : MTInvS a seenA c)
    (hat : AttrTok at_ (.attribute r q e pfx loc v)) (hlt : bLt ∉ v.bytes)
    (h : tokenStep T txt lower (.attribute r q e pfx loc v) c = .ok c') :
    MTInvS a (seenA ++ [at_]) c' := by
  unfold tokenStep at h
  dsimp only at h
  have hm0 : MTInvS a seenA (c.log (.token (.attribute r q e pfx loc v))) :=
    ⟨hm.core.congr rfl rfl rfl rfl, hm.pnone, hm.cur⟩
  exact ms_attr T txt hN (c := c.log (.token (.attribute r q e pfx loc v))) hi.core.ents hm0 hat hlt h

/-- the attribute tokens of a start tag (`TInv` is carried along with `gb_tok_attr`) -/
theorem ms_attrs (hN : NormOkS T txt)
    (hB : ∀ t c c', BInv c → tokenStep T txt lower t c = .ok c' → BInv c')
    {stk : List QP} {tn : TagName} {a : SS} :
    ∀ (attrs : List AttrC) (ats : List Token), AttrToks attrs ats → (∀ x ∈ attrs, bLt ∉ x.v) →
      ∀ (seen : List QP) (seenA : List AttrC) (c c' : Ctx), TInv stk tn seen c → MTInvS a seenA c →
        feed (tokenStep T txt lower) ats c = .ok c' → MTInvS a (seenA ++ attrs) c' := by
  intro attrs ats hat
  induction hat with
  | nil =>
    intro _ seen seenA c c' _ hm h
    simp only [feed, Res.ok.injEq] at h
    subst h
    rw [List.append_nil]
    exact hm
  | cons x t as ts hat _ ih =>
    intro hlt seen seenA c c' hi hm h
    simp only [feed] at h
    split at h
    · rename_i c1 h1
      have hb1 := hB _ _ _ hi.core.binv h1
      cases t with
      | «attribute» r q e pfx loc v =>
        have hlt1 : bLt ∉ v.bytes := by rw [hat.2]; exact hlt x (by simp)
        obtain ⟨hi1, _⟩ := gb_tok_attr T txt lower hi hb1 hlt1 h1
        have hm1 := ms_tok_attr T txt lower hN hi hm hat hlt1 h1
        have := ih (fun b hb => hlt b (by simp [hb])) _ _ _ _ hi1 hm1 h
        rw [List.append_assoc] at this
        exact this
      | _ => exact absurd hat (by simp [AttrTok])
    · simp at h
    · simp at h
    · simp at h

/-- `ElementEnd(Open)`: the element node is appended and becomes the current parent -/
theorem ms_tok_open {stk : List QP} {tn : TagName} {seen : List QP} {out : List VS}
    {ids : List Nat} {seenA : List AttrC} {c c' : Ctx} {r : Range}
    (hi : TInv stk tn seen c) (hm : MTInvS ⟨out, none, ids⟩ seenA c)
    (h : tokenStep T txt lower (.elementEnd .open r) c = .ok c') :
    MCoreS ⟨out ++ [(some (SS.top ⟨out, none, ids⟩), elemS tn.nameSpan.bytes (attrsOfCS seenA))], none,
      out.length :: ids⟩ c' := by
  unfold tokenStep at h
  dsimp only at h
  rw [Res.bind_eq_ok] at h
  obtain ⟨c1, h1, h⟩ := h
  obtain ⟨hm1, hcur1, _⟩ := mcoreS_logreset hm.core h1
  rw [flushedS_none] at hm1
  exact ms_open txt (gb_treset hi h1) hm1 (by rw [hcur1]; exact hm.cur) h

/-- `ElementEnd(Empty)`: the element node is appended, the current parent stays -/
theorem ms_tok_empty {stk : List QP} {tn : TagName} {seen : List QP} {out : List VS}
    {ids : List Nat} {seenA : List AttrC} {c c' : Ctx} {r : Range}
    (hi : TInv stk tn seen c) (hm : MTInvS ⟨out, none, ids⟩ seenA c)
    (h : tokenStep T txt lower (.elementEnd .empty r) c = .ok c') :
    MCoreS ⟨out ++ [(some (SS.top ⟨out, none, ids⟩), elemS tn.nameSpan.bytes (attrsOfCS seenA))], none,
      ids⟩ c' := by
  unfold tokenStep at h
  dsimp only at h
  rw [Res.bind_eq_ok] at h
  obtain ⟨c1, h1, h⟩ := h
  obtain ⟨hm1, hcur1, _⟩ := mcoreS_logreset hm.core h1
  rw [flushedS_none] at hm1
  exact ms_empty txt (gb_treset hi h1) hm1 (by rw [hcur1]; exact hm.cur) h

end

end Rox.Lemmas.MS

/-! ## Part 5 — Stage B'' (4): item by item, the builder follows `runS` (copy of `MirrorBuild4`) -/

namespace Rox.Lemmas.MS
open Rox Rox.Spec Rox.Spec.Grammar Rox.Spec.Canon4 Rox.Spec.Mirror Rox.Lemmas.RtB Rox.Lemmas.GB Rox.Lemmas.MB

/-- the invariant between two items: the grammar-soundness invariant, the correspondence with the
abstract machine, and the two stacks have the same height -/
structure MInvS (stk : List QP) (a : SS) (c : Ctx) : Prop where
  g : GInv stk c
  m : MCoreS a c
  len : a.stk.length = stk.length + 1

section
variable (T : Tables) (txt : Bytes) (lower : Token → Ctx → Res Ctx)
  (hB : ∀ t c c', BInv c → tokenStep T txt lower t c = .ok c' → BInv c')
  (hP : TextDecS T txt lower) (hN : NormOkS T txt)
include hB hP hN

/-- one item -/
theorem ms_item (it : Item) (ts : List Token) (hit : ItemToks it ts) (hpt : PiTok it ts)
    (hlex : it.Lex T) (htok : ∀ t ∈ ts, TokOk txt t) (stk : List QP) (a : SS) (c c' : Ctx)
    (hi : MInvS stk a c) (h : feed (tokenStep T txt lower) ts c = .ok c') :
    ∃ stk', stepStk stk it = some stk' ∧ MInvS stk' (stepS a it) c' := by
  obtain ⟨stk', hs, hg', _, _⟩ := gb_item T txt lower hB it ts hit hlex htok stk c c' hi.g h
  refine ⟨stk', hs, ?_⟩
  cases hit with
  | sp s =>
    simp only [feed, Res.ok.injEq] at h
    subst h
    simp only [stepStk, Option.some.injEq] at hs
    subst hs
    exact ⟨hg', hi.m, hi.len⟩
  | comment b sp r hb =>
    have h1 := gb_feed_one _ _ _ h
    simp only [stepStk, Option.some.injEq] at hs
    subst hs
    have := ms_tok_comment T txt lower hi.g hi.m h1
    rw [hb] at this
    exact ⟨hg', this, hi.len⟩
  | pi t s v tsp vo r hb =>
    have h1 := gb_feed_one _ _ _ h
    simp only [stepStk, Option.some.injEq] at hs
    subst hs
    obtain ⟨tsp', vo', r', e, hvo⟩ := hpt
    simp only [List.cons.injEq, Token.pi.injEq, and_true] at e
    obtain ⟨_, e2, _⟩ := e
    subst e2
    have := ms_tok_pi T txt lower hi.g hi.m h1
    have hvs : vo.map spanS = if v.isEmpty then none else some (v, true) := by
      have e : vo.map spanS = (vo.map Span.bytes).map (fun b => (b, true)) := by
        cases vo <;> rfl
      rw [e, hvo]
      split <;> rfl
    rw [hb, hvs] at this
    exact ⟨hg', this, hi.len⟩
  | cdata b sp r hb =>
    have h1 := gb_feed_one _ _ _ h
    simp only [stepStk, Option.some.injEq] at hs
    subst hs
    have := ms_tok_cdata T txt lower hi.g hi.m h1
    rw [hb] at this
    exact ⟨hg', this, hi.len⟩
  | text t sp r hb =>
    have h1 := gb_feed_one _ _ _ h
    simp only [stepStk, Option.some.injEq] at hs
    subst hs
    obtain ⟨hne, _, hlt, _⟩ := hlex
    have := ms_tok_text T txt lower hP hi.g hi.m (htok _ (List.mem_singleton.mpr rfl))
      (by rw [hb]; exact hne) (by rw [hb]; exact hlt) h1
    rw [hb] at this
    exact ⟨hg', this, hi.len⟩
  | etag q s2 p l r hq =>
    have h1 := gb_feed_one _ _ _ h
    cases stk with
    | nil => simp [stepStk] at hs
    | cons top rest =>
      simp only [stepStk] at hs
      split at hs
      · simp only [Option.some.injEq] at hs
        subst hs
        have hlen := hi.len
        simp only [List.length_cons] at hlen
        have := ms_tok_close T txt lower hi.g hi.m (by omega) h1
        refine ⟨hg', this, ?_⟩
        show a.stk.tail.length = _
        rw [List.length_tail]
        omega
      · simp at hs
  | stag q attrs s1 e p l st ats r hq hat =>
    obtain ⟨c1, h1, h⟩ := gb_feed_cons_ok _ _ _ _ h
    obtain ⟨c2, h2, h⟩ := gb_feed_append_ok _ _ _ _ h
    have h3 := gb_feed_one _ _ _ h
    have hb1 := hB _ _ _ hi.g.binv h1
    have hi1 := gb_tok_start T txt lower hi.g hb1 h1
    have hm1 := ms_tok_start T txt lower hi.g hi.m h1
    obtain ⟨_, _, hla⟩ := hlex
    have hlt : ∀ x ∈ attrs, bLt ∉ x.v := fun x hx => (hla x hx).2.2.2.2.2.2.1
    obtain ⟨hi2, _⟩ := gb_attrs T txt lower hB attrs ats hat hlt [] c1 c2 hi1 h2
    have hm2 := ms_attrs T txt lower hN hB attrs ats hat hlt [] [] c1 c2 hi1 hm1 h2
    rw [List.nil_append] at hi2 hm2
    have hname : (qparts q).2 = l.bytes := by rw [hq]
    cases e with
    | false =>
      simp only [stepStk, Option.some.injEq] at hs
      subst hs
      have := ms_tok_open T txt lower hi2 hm2 h3
      refine ⟨hg', ?_, ?_⟩
      · show MCoreS ⟨a.flushed ++ [(some a.top, elemS (qparts q).2 (attrsOfCS attrs))], none,
          a.flushed.length :: a.stk⟩ c'
        rw [hname]
        exact this
      · show (a.flushed.length :: a.stk).length = (qparts q :: stk).length + 1
        simp only [List.length_cons]
        have := hi.len
        omega
    | true =>
      simp only [stepStk, Option.some.injEq] at hs
      subst hs
      have := ms_tok_empty T txt lower hi2 hm2 h3
      refine ⟨hg', ?_, hi.len⟩
      show MCoreS ⟨a.flushed ++ [(some a.top, elemS (qparts q).2 (attrsOfCS attrs))], none, a.stk⟩ c'
      rw [hname]
      exact this

/-- all items -/
theorem ms_items : ∀ (its : List Item) (toks : List Token), ItemsToksM its toks →
    (∀ it ∈ its, it.Lex T) → (∀ t ∈ toks, TokOk txt t) → ∀ (stk : List QP) (a : SS) (c c' : Ctx),
      MInvS stk a c → feed (tokenStep T txt lower) toks c = .ok c' →
      ∃ stk', runStk stk its = some stk' ∧ MInvS stk' (runS a its) c' := by
  intro its toks hit
  induction hit with
  | nil =>
    intro _ _ stk a c c' hi h
    simp only [feed, Res.ok.injEq] at h
    subst h
    exact ⟨stk, rfl, hi⟩
  | cons it its ts tss h1 hp _ ih =>
    intro hlex htok stk a c c' hi h
    obtain ⟨c1, hf1, hf2⟩ := gb_feed_append_ok _ _ _ _ h
    obtain ⟨stk1, hs1, hi1⟩ := ms_item T txt lower hB hP hN it ts h1 hp (hlex it (by simp))
      (fun t ht => htok t (by simp [ht])) stk a c c1 hi hf1
    obtain ⟨stk2, hs2, hi2⟩ := ih (fun x hx => hlex x (by simp [hx]))
      (fun t ht => htok t (by simp [ht])) stk1 (stepS a it) c1 c' hi1 hf2
    refine ⟨stk2, ?_, hi2⟩
    simp only [runStk, hs1]
    exact hs2

end

theorem ms_init (txt : Bytes) (opt : Opt) (c0 : Ctx) (h0 : initCtx txt opt = .ok c0) :
    MInvS [] initS c0 := by
  obtain ⟨hg0, _⟩ := gb_init txt opt c0 h0
  refine ⟨hg0, ?_, rfl⟩
  unfold initCtx at h0
  rw [Res.bind_eq_ok] at h0
  obtain ⟨ns, hns, h0⟩ := h0
  res_norm at h0
  subst h0
  refine ⟨rfl, rfl, trivial, ?_, ?_⟩
  · intro x hx
    simp only [kps, List.map_cons, List.map_nil, List.mem_singleton] at hx
    subst hx
    trivial
  · show ([] : List Str) = [] ∧ _
    exact ⟨rfl, rfl⟩

end Rox.Lemmas.MS

namespace Rox.Lemmas
open Rox Rox.Spec Rox.Spec.Grammar Rox.Spec.Canon4 Rox.Spec.Mirror Rox.Lemmas.RtB Rox.Lemmas.GB

/-- **Stage B'**: the arena `parse` returns, read back node by node, is the output of the abstract
arena machine run over the items of the input (once no text run is pending, which Stage C' shows
for the item lists of accepted inputs). -/
theorem parseCtx_itemsS (T : Tables) (hT : TablesOK T) (txt : Bytes) (hv : ValidUtf8 txt) (opt : Opt)
    (hdtd : opt.allowDtd = false) (c : Ctx) (h : parseCtx T txt depthFuel opt = .ok c)
    (its : List Item) (hit : ItemsToksM its (tokenize T txt false).1) (hlex : ∀ it ∈ its, it.Lex T)
    (hpend : (runS initS its).pend = none) :
    c.doc.nodes.toList.map (viewS c.doc) = (runS initS its).out := by
  unfold parseCtx at h
  rw [Res.bind_eq_ok] at h
  obtain ⟨c0, h0, h⟩ := h
  try dsimp only at h
  rw [Res.bind_eq_ok] at h
  obtain ⟨c1, h1, h⟩ := h
  rw [hdtd] at h1
  have hi0 := MS.ms_init txt opt c0 h0
  obtain ⟨_, hfeed⟩ := runTokens_feed _ _ _ _ _ h1
  have htoks := (parseDocument_spec T hT txt hv false).toks
  have hstep : token T txt depthFuel = tokenStep T txt (token T txt 11) := rfl
  rw [hstep] at hfeed
  have hP : MS.TextDecS T txt (token T txt 11) := fun c c' t r a1 a2 a3 a4 a5 a6 a7 =>
    processText_mirrorS T txt _ c c' t r a1 a2 a3 a4 a5 a6 a7
  have hN : MS.NormOkS T txt := fun c c' v s a1 a2 a3 a4 =>
    normalizeAttribute_mirrorS T txt c c' v s a1 a2 a3 a4
  obtain ⟨stk', _, hi1⟩ := MS.ms_items T txt (token T txt 11)
    (binv_tokenStep T txt _ (binv_token T txt 11)) hP hN its _ hit hlex htoks [] initS c0 c1 hi0 hfeed
  unfold finish at h
  rw [Res.bind_eq_ok] at h
  obtain ⟨has, _, h⟩ := h
  split at h
  · simp at h
  · split at h
    · simp at h
    · res_norm at h
      subst h
      have hp := hi1.m.pend
      unfold MS.PendOkS at hp
      rw [hpend] at hp
      show c1.doc.nodes.toList.map (viewS { c1.doc with ns := _ }) = _
      rw [← hp.2]
      unfold kps
      rw [List.map_map]
      apply List.map_congr_left
      intro n _
      exact MS.viewS_eq _ n

end Rox.Lemmas

/-! ## Part 6 — Stage C'': the machine run over the items yields `docTreeS x` (copy of `MirrorAsm`, for the same `x`) -/

namespace Rox.Lemmas
open Rox Rox.Spec Rox.Spec.Grammar Rox.Spec.Canon4 Rox.Spec.Mirror

/-! ### Unfolding the mutual definitions -/

theorem sasm_expectAllS_nil (p i : Nat) : expectAllS p i [] = [] := by
  simp only [expectAllS]

theorem sasm_expectAllS_cons (p i : Nat) (k : SNode) (ks : List SNode) :
    expectAllS p i (k :: ks) = expectS p i k ++ expectAllS p (i + countS k) ks := by
  simp only [expectAllS]

theorem sasm_countAllS_nil : countAllS [] = 0 := by
  simp only [countAllS]

theorem sasm_countAllS_cons (k : SNode) (ks : List SNode) :
    countAllS (k :: ks) = countS k + countAllS ks := by
  simp only [countAllS]

theorem sasm_expectS_elem (p i : Nat) (n : Bytes) (as : List (Bytes × SStr)) (ks : List SNode) :
    expectS p i (.elem n as ks) = (some p, elemS n as) :: expectAllS i (i + 1) ks := by
  simp only [expectS]

theorem sasm_countS_elem (n : Bytes) (as : List (Bytes × SStr)) (ks : List SNode) :
    countS (.elem n as ks) = 1 + countAllS ks := by
  simp only [countS]

mutual
  theorem sasm_length_expectS : ∀ (y : SNode) (p i : Nat), (expectS p i y).length = countS y
    | .elem n as ks, p, i => by
      rw [sasm_expectS_elem, sasm_countS_elem, List.length_cons, sasm_length_expectAllS ks i (i + 1)]
      omega
    | .comment c, p, i => by simp only [expectS, countS, List.length_cons, List.length_nil]
    | .pi t v, p, i => by simp only [expectS, countS, List.length_cons, List.length_nil]
    | .text t, p, i => by simp only [expectS, countS, List.length_cons, List.length_nil]
  theorem sasm_length_expectAllS : ∀ (l : List SNode) (p i : Nat),
      (expectAllS p i l).length = countAllS l
    | [], p, i => by rw [sasm_expectAllS_nil, sasm_countAllS_nil]; rfl
    | k :: ks, p, i => by
      rw [sasm_expectAllS_cons, sasm_countAllS_cons, List.length_append, sasm_length_expectS k p i,
        sasm_length_expectAllS ks p (i + countS k)]
end

theorem sasm_expectAllS_append (p : Nat) (l1 l2 : List SNode) : ∀ i : Nat,
    expectAllS p i (l1 ++ l2) = expectAllS p i l1 ++ expectAllS p (i + countAllS l1) l2 := by
  induction l1 with
  | nil => intro i; rw [sasm_countAllS_nil, sasm_expectAllS_nil]; rfl
  | cons k r ih =>
    intro i
    rw [List.cons_append, sasm_expectAllS_cons, sasm_expectAllS_cons, ih, sasm_countAllS_cons,
      List.append_assoc, Nat.add_assoc]

theorem sasm_treeKidsS_nil (pend : Option SStr) : treeKidsS pend [] = flushS pend := by
  simp only [treeKidsS]
theorem sasm_treeKidsS_text (pend : Option SStr) (raw : Bytes) (r : List GNode) :
    treeKidsS pend (.text raw :: r) =
      treeKidsS (some (joinRun pend (decodeText raw) (textBorrowed raw))) r := by
  simp only [treeKidsS]
theorem sasm_treeKidsS_cdata (pend : Option SStr) (b : Bytes) (r : List GNode) :
    treeKidsS pend (.cdata b :: r) = treeKidsS (some (joinRun pend (lineEnds b) (cdataBorrowed b))) r := by
  simp only [treeKidsS]
theorem sasm_treeKidsS_comment (pend : Option SStr) (b : Bytes) (r : List GNode) :
    treeKidsS pend (.comment b :: r) = flushS pend ++ .comment b :: treeKidsS none r := by
  simp only [treeKidsS]
theorem sasm_treeKidsS_pi (pend : Option SStr) (t v : Bytes) (r : List GNode) :
    treeKidsS pend (.pi t v :: r) = flushS pend ++ .pi t v :: treeKidsS none r := by
  simp only [treeKidsS]
theorem sasm_treeKidsS_elem (pend : Option SStr) (q : Bytes) (attrs : List (Bytes × Bytes))
    (kids r : List GNode) :
    treeKidsS pend (.elem q attrs kids :: r) =
      flushS pend ++ .elem (qparts q).2 (attrsOfS attrs) (treeKidsS none kids) :: treeKidsS none r := by
  simp only [treeKidsS]
theorem sasm_treeOfS_elem (q : Bytes) (attrs : List (Bytes × Bytes)) (kids : List GNode) :
    treeOfS (.elem q attrs kids) = [.elem (qparts q).2 (attrsOfS attrs) (treeKidsS none kids)] := by
  simp only [treeOfS]

/-! ### The machine -/

def MachKS (kitems : List Item) (kids : List GNode) : Prop :=
  ∀ (a : SS) (p : Nat) (rest : List Nat), a.stk = p :: rest →
    (runS a kitems).stk = a.stk ∧
    (runS a kitems).flushed = a.out ++ expectAllS p a.out.length (treeKidsS a.pend kids)

/-- the machine reads the items `grp` of one node that is not character data -/
def NodeRunS (grp : List Item) (y : SNode) : Prop :=
  ∀ (a : SS) (p : Nat) (rest : List Nat), a.stk = p :: rest →
    runS a grp = ⟨a.flushed ++ expectS p a.flushed.length y, none, a.stk⟩

theorem sasm_top (a : SS) (p : Nat) (rest : List Nat) (h : a.stk = p :: rest) : a.top = p := by
  unfold SS.top
  rw [h]
  rfl

theorem sasm_flushed (a : SS) (p : Nat) (rest : List Nat) (h : a.stk = p :: rest) :
    a.flushed = a.out ++ expectAllS p a.out.length (flushS a.pend) := by
  have ht := sasm_top a p rest h
  obtain ⟨out, pend, stk⟩ := a
  cases pend with
  | none =>
    show out ++ [] = out ++ expectAllS p out.length []
    rw [sasm_expectAllS_nil]
  | some t =>
    show out ++ [(some (SS.top ⟨out, some t, stk⟩), SKind.text t)] =
      out ++ expectAllS p out.length [SNode.text t]
    rw [ht, sasm_expectAllS_cons, sasm_expectAllS_nil]
    simp only [expectS, List.append_nil]

theorem sasm_mach_nil : MachKS [] [] := by
  intro a p rest h
  refine ⟨rfl, ?_⟩
  rw [sasm_treeKidsS_nil]
  exact sasm_flushed a p rest h

theorem sasm_mach_sp (s : Bytes) (kitems : List Item) (kids : List GNode) (hM : MachKS kitems kids) :
    MachKS (Item.sp s :: kitems) kids := by
  intro a p rest h
  exact hM a p rest h

theorem sasm_mach_char (it : Item) (k : GNode) (c : Bytes) (fl : Bool) (kitems : List Item)
    (kids : List GNode)
    (hs : ∀ a : SS, stepS a it = ⟨a.out, some (joinRun a.pend c fl), a.stk⟩)
    (ht : ∀ pend, treeKidsS pend (k :: kids) = treeKidsS (some (joinRun pend c fl)) kids)
    (hM : MachKS kitems kids) : MachKS (it :: kitems) (k :: kids) := by
  intro a p rest h
  show (runS (stepS a it) kitems).stk = _ ∧ (runS (stepS a it) kitems).flushed = _
  rw [hs, ht]
  exact hM ⟨a.out, some (joinRun a.pend c fl), a.stk⟩ p rest h

theorem sasm_mach_node (grp : List Item) (y : SNode) (k : GNode) (kitems : List Item)
    (kids : List GNode) (hg : NodeRunS grp y)
    (ht : ∀ pend, treeKidsS pend (k :: kids) = flushS pend ++ y :: treeKidsS none kids)
    (hM : MachKS kitems kids) : MachKS (grp ++ kitems) (k :: kids) := by
  intro a p rest h
  rw [runS_append, hg a p rest h, ht]
  have hf := sasm_flushed a p rest h
  have hl : a.flushed.length = a.out.length + countAllS (flushS a.pend) := by
    rw [hf, List.length_append, sasm_length_expectAllS]
  obtain ⟨h1, h2⟩ := hM ⟨a.flushed ++ expectS p a.flushed.length y, none, a.stk⟩ p rest h
  refine ⟨h1, ?_⟩
  rw [h2]
  show (a.flushed ++ expectS p a.flushed.length y) ++
    expectAllS p (a.flushed ++ expectS p a.flushed.length y).length (treeKidsS none kids) = _
  rw [sasm_expectAllS_append, sasm_expectAllS_cons, List.length_append, sasm_length_expectS, hl, hf]
  simp only [List.append_assoc]

theorem sasm_noderun_comment (b : Bytes) : NodeRunS [Item.comment b] (.comment b) := by
  intro a p rest h
  show (⟨a.flushed ++ [(some a.top, SKind.comment (b, true))], none, a.stk⟩ : SS) = _
  rw [sasm_top a p rest h]
  simp only [expectS]

theorem sasm_noderun_pi (t s v : Bytes) : NodeRunS [Item.pi t s v] (.pi t v) := by
  intro a p rest h
  show (⟨a.flushed ++ [(some a.top, SKind.pi (t, true) (if v.isEmpty then none else some (v, true)))], none,
    a.stk⟩ : SS) = _
  rw [sasm_top a p rest h]
  simp only [expectS]

theorem sasm_noderun_empty (q : Bytes) (attrs : List AttrC) (s1 : Bytes) :
    NodeRunS [Item.stag q attrs s1 true] (.elem (qparts q).2 (attrsOfCS attrs) []) := by
  intro a p rest h
  show (⟨a.flushed ++ [(some a.top, elemS (qparts q).2 (attrsOfCS attrs))], none, a.stk⟩ : SS) = _
  rw [sasm_top a p rest h, sasm_expectS_elem, sasm_expectAllS_nil]

theorem sasm_noderun_open (q : Bytes) (attrs : List AttrC) (s1 q' s2 : Bytes) (kit1 : List Item)
    (kids1 : List GNode) (hM : MachKS kit1 kids1) :
    NodeRunS (Item.stag q attrs s1 false :: (kit1 ++ [Item.etag q' s2]))
      (.elem (qparts q).2 (attrsOfCS attrs) (treeKidsS none kids1)) := by
  intro a p rest h
  show runS (stepS a (Item.stag q attrs s1 false)) (kit1 ++ [Item.etag q' s2]) = _
  rw [runS_append]
  have hs : stepS a (Item.stag q attrs s1 false) =
      ⟨a.flushed ++ [(some p, elemS (qparts q).2 (attrsOfCS attrs))], none,
        a.flushed.length :: a.stk⟩ := by
    show (⟨a.flushed ++ [(some a.top, elemS (qparts q).2 (attrsOfCS attrs))], none,
      a.flushed.length :: a.stk⟩ : SS) = _
    rw [sasm_top a p rest h]
  rw [hs]
  obtain ⟨h1, h2⟩ := hM ⟨a.flushed ++ [(some p, elemS (qparts q).2 (attrsOfCS attrs))], none,
    a.flushed.length :: a.stk⟩ a.flushed.length a.stk rfl
  show (⟨(runS _ kit1).flushed, none, (runS _ kit1).stk.tail⟩ : SS) = _
  rw [h1, h2, sasm_expectS_elem]
  simp only [List.length_append, List.length_cons, List.length_nil, List.tail_cons,
    List.append_assoc, List.cons_append, List.nil_append, Nat.zero_add]

theorem sasm_leaf_mach (it : Item) (h : it.isLeafNT = true) (kitems : List Item)
    (kids : List GNode) (hM : MachKS kitems kids) : MachKS (it :: kitems) (asmNode it :: kids) := by
  cases it with
  | comment b =>
    exact sasm_mach_node [Item.comment b] (.comment b) (.comment b) kitems kids
      (sasm_noderun_comment b) (fun pend => sasm_treeKidsS_comment pend b kids) hM
  | pi t s v =>
    exact sasm_mach_node [Item.pi t s v] (.pi t v) (.pi t v) kitems kids
      (sasm_noderun_pi t s v) (fun pend => sasm_treeKidsS_pi pend t v kids) hM
  | cdata b =>
    exact sasm_mach_char (Item.cdata b) (.cdata b) (lineEnds b) (cdataBorrowed b) kitems kids (fun _ => rfl)
      (fun pend => sasm_treeKidsS_cdata pend b kids) hM
  | sp s => exact Bool.noConfusion h
  | text t => exact Bool.noConfusion h
  | stag q a s e => exact Bool.noConfusion h
  | etag q s => exact Bool.noConfusion h

theorem sasm_misc_pend (l : List Item) (h : ∀ it ∈ l, it.isMiscI = true) :
    ∀ a : SS, a.pend = none → (runS a l).pend = none := by
  induction l with
  | nil => intro a ha; exact ha
  | cons x r ih =>
    intro a ha
    have hx := h x (List.mem_cons_self ..)
    have hr : ∀ it ∈ r, it.isMiscI = true := fun it hit => h it (List.mem_cons_of_mem _ hit)
    show (runS (stepS a x) r).pend = none
    cases x with
    | sp s => exact ih hr a ha
    | comment b => exact ih hr _ rfl
    | pi t s v => exact ih hr _ rfl
    | cdata b => exact Bool.noConfusion hx
    | text t => exact Bool.noConfusion hx
    | stag q a s e => exact Bool.noConfusion hx
    | etag q s => exact Bool.noConfusion hx

theorem sasm_rmisc (T : Tables) (l : List Item) (h : ∀ it ∈ l, it.isMiscI = true)
    (hl : ∀ it ∈ l, it.Lex T) (hp : ∀ it ∈ l, it.PiN T) :
    ∃ ms, RMisc T ms (flat l) ∧ (∀ k ∈ ms, isMisc k = true ∧ GWf T k) ∧ NormalAll T ms ∧
      MachK l ms ∧ MachKS l ms := by
  induction l with
  | nil =>
    exact ⟨[], RMisc.nil, fun k hk => absurd hk (List.not_mem_nil), masm_normalAll_nil T,
      masm_mach_nil, sasm_mach_nil⟩
  | cons x r ih =>
    obtain ⟨ms, hm, hw, hN, hM, hMS⟩ := ih (fun it hit => h it (List.mem_cons_of_mem _ hit))
      (fun it hit => hl it (List.mem_cons_of_mem _ hit))
      (fun it hit => hp it (List.mem_cons_of_mem _ hit))
    have hx := h x (List.mem_cons_self ..)
    rcases asm_misc_item T x hx (hl x (List.mem_cons_self ..)) with
      ⟨s, rfl, hs⟩ | ⟨hr, hg, hi⟩
    · exact ⟨ms, RMisc.sp s ms _ hs hm, hw, hN, masm_mach_sp s r ms hM, sasm_mach_sp s r ms hMS⟩
    · refine ⟨asmNode x :: ms, RMisc.item _ _ ms _ hi hr hm, ?_,
        (masm_normalAll_cons T _ _).2 ⟨masm_leaf_normal T x (hp x (List.mem_cons_self ..)), hN⟩, ?_, ?_⟩
      · intro k hk
        rcases List.mem_cons.1 hk with rfl | hk
        · exact ⟨hi, hg⟩
        · exact hw k hk
      · cases x with
        | sp s => exact Bool.noConfusion hi
        | comment b => exact masm_leaf_mach _ rfl r ms hM
        | pi t s v => exact masm_leaf_mach _ rfl r ms hM
        | cdata b => exact Bool.noConfusion hx
        | text t => exact Bool.noConfusion hx
        | stag q a s e => exact Bool.noConfusion hx
        | etag q s => exact Bool.noConfusion hx
      · cases x with
        | sp s => exact Bool.noConfusion hi
        | comment b => exact sasm_leaf_mach _ rfl r ms hMS
        | pi t s v => exact sasm_leaf_mach _ rfl r ms hMS
        | cdata b => exact Bool.noConfusion hx
        | text t => exact Bool.noConfusion hx
        | stag q a s e => exact Bool.noConfusion hx
        | etag q s => exact Bool.noConfusion hx


/-! ### The children of an element -/

/-- `AsmM` of `Rox.Lemmas.MirrorAsm` with the storage-aware machine -/
def AsmS (T : Tables) (d : Nat) (stk : List QP) (its : List Item) : Prop :=
  ∃ (kitems : List Item) (q' s2 : Bytes) (rest : List Item) (kids : List GNode),
    its = kitems ++ Item.etag q' s2 :: rest ∧ RKids T kids (flat kitems) ∧ GWfAll T kids ∧
    noAdjText kids = true ∧
    (∀ k ks, kids = k :: ks → isText k = true → ∃ t r, kitems = Item.text t :: r) ∧
    runStk stk kitems = some stk ∧ Sp0 T s2 ∧
    ((d = 0 ∧ rest = []) ∨ (∃ d', d = d' + 1 ∧ Content d' rest)) ∧
    NormalAll T kids ∧ MachK kitems kids ∧ MachKS kitems kids

theorem sasm_prepend (T : Tables) (d : Nat) (stk : List QP) (it : Item) (tail : List Item)
    (k : GNode) (hr : RNode T k it.bytes) (hg : GWf T k) (hstep : stepStk stk it = some stk)
    (htxt : isText k = true → (∃ t, it = .text t) ∧ ∀ t' r, tail ≠ Item.text t' :: r)
    (hN : Normal T k)
    (hmach : ∀ kitems kids, MachK kitems kids → MachK (it :: kitems) (k :: kids))
    (hmachS : ∀ kitems kids, MachKS kitems kids → MachKS (it :: kitems) (k :: kids))
    (hA : AsmS T d stk tail) : AsmS T d stk (it :: tail) := by
  obtain ⟨kitems, q', s2, rest, kids, rfl, hk, hw, hn, hh, hrun, hs, hd, hNk, hM, hMS⟩ := hA
  refine ⟨it :: kitems, q', s2, rest, k :: kids, rfl, RKids.cons k kids _ _ hr hk,
    (asm_gwfall_cons T k kids).2 ⟨hg, hw⟩, ?_, ?_, ?_, hs, hd,
    (masm_normalAll_cons T k kids).2 ⟨hN, hNk⟩, hmach kitems kids hM, hmachS kitems kids hMS⟩
  · apply asm_noAdj_cons k kids hn
    intro k' r hkr h1 h2
    obtain ⟨t', r', hkit⟩ := hh k' r hkr h2
    exact (htxt h1).2 t' (r' ++ Item.etag q' s2 :: rest) (by rw [hkit]; rfl)
  · intro k0 ks hk0 h1
    injection hk0 with hk0 _
    subst hk0
    obtain ⟨t, rfl⟩ := (htxt h1).1
    exact ⟨t, kitems, rfl⟩
  · rw [asm_runStk_cons_same stk it kitems hstep]
    exact hrun

theorem sasm_main (T : Tables) : ∀ (n : Nat) (its : List Item) (d : Nat) (stk fin : List QP),
    its.length < n → Content d its → stk.length = d + 1 → runStk stk its = some fin →
    (∀ it ∈ its, it.Lex T) → (∀ it ∈ its, it.Sem T) → (∀ it ∈ its, it.PiN T) →
    AsmS T d stk its ∨ stk.length ≤ fin.length := by
  intro n
  induction n with
  | zero => intro its d stk fin h; exact absurd h (Nat.not_lt_zero _)
  | succ n ih =>
    intro its d stk fin hlen hc hstk hrun hlex hsem hpin
    cases hc with
    | eof =>
      right
      have : some stk = some fin := hrun
      injection this with this
      rw [this]; exact Nat.le_refl _
    | leaf _ it tail hleaf hc' =>
      have hstep := asm_step_leaf stk it hleaf
      rw [asm_runStk_cons_same stk it tail hstep] at hrun
      have hl : tail.length < n := Nat.lt_of_succ_lt_succ hlen
      rcases ih tail d stk fin hl hc' hstk hrun
        (fun x hx => hlex x (List.mem_cons_of_mem _ hx))
        (fun x hx => hsem x (List.mem_cons_of_mem _ hx))
        (fun x hx => hpin x (List.mem_cons_of_mem _ hx)) with hA | hB
      · left
        obtain ⟨h1, h2, h3⟩ := asm_leaf T it hleaf (hlex it (List.mem_cons_self ..))
        exact sasm_prepend T d stk it tail (asmNode it) h1 h2 hstep
          (fun h => by rw [h3] at h; exact absurd h (by decide))
          (masm_leaf_normal T it (hpin it (List.mem_cons_self ..)))
          (masm_leaf_mach it hleaf) (sasm_leaf_mach it hleaf) hA
      · exact Or.inr hB
    | text _ t tail hnt hc' =>
      have hstep : stepStk stk (Item.text t) = some stk := rfl
      rw [asm_runStk_cons_same stk _ tail hstep] at hrun
      have hl : tail.length < n := Nat.lt_of_succ_lt_succ hlen
      rcases ih tail d stk fin hl hc' hstk hrun
        (fun x hx => hlex x (List.mem_cons_of_mem _ hx))
        (fun x hx => hsem x (List.mem_cons_of_mem _ hx))
        (fun x hx => hpin x (List.mem_cons_of_mem _ hx)) with hA | hB
      · left
        have hL : (Item.text t).Lex T := hlex _ (List.mem_cons_self ..)
        have hS : RefText T t := hsem _ (List.mem_cons_self ..)
        have hg : GWf T (.text t) := (asm_gwf_text T t).2 ⟨hL.1, hL.2.1, hS, hL.2.2.2⟩
        exact sasm_prepend T d stk (Item.text t) tail (.text t) (RNode.text t) hg hstep
          (fun _ => ⟨⟨t, rfl⟩, hnt⟩) (masm_normal_text T t)
          (fun kitems kids hM => masm_mach_char (Item.text t) (.text t) (decodeText t) kitems kids
            (fun _ => rfl) (fun pend => masm_treeKids_text pend t kids) hM)
          (fun kitems kids hM => sasm_mach_char (Item.text t) (.text t) (decodeText t)
            (textBorrowed t) kitems kids
            (fun _ => rfl) (fun pend => sasm_treeKidsS_text pend t kids) hM) hA
      · exact Or.inr hB
    | empty _ q attrs s1 tail hc' =>
      have hstep : stepStk stk (Item.stag q attrs s1 true) = some stk := rfl
      rw [asm_runStk_cons_same stk _ tail hstep] at hrun
      have hl : tail.length < n := Nat.lt_of_succ_lt_succ hlen
      rcases ih tail d stk fin hl hc' hstk hrun
        (fun x hx => hlex x (List.mem_cons_of_mem _ hx))
        (fun x hx => hsem x (List.mem_cons_of_mem _ hx))
        (fun x hx => hpin x (List.mem_cons_of_mem _ hx)) with hA | hB
      · left
        have hL : (Item.stag q attrs s1 true).Lex T := hlex _ (List.mem_cons_self ..)
        have hS : (Item.stag q attrs s1 true).Sem T := hsem _ (List.mem_cons_self ..)
        have hg := asm_gwf_stag T q attrs s1 true [] hL hS rfl (asm_gwfall_nil T)
        have hr : RNode T (.elem q (attrs.map fun a => (a.n, a.v)) [])
            (Item.stag q attrs s1 true).bytes :=
          RNode.empty q _ (attrsBytes attrs) s1 (asm_rattrs T attrs hL.2.2) hL.2.1
        exact sasm_prepend T d stk _ tail _ hr hg hstep
          (fun h => Bool.noConfusion h)
          ((masm_normal_elem T _ _ _).2 (masm_normalAll_nil T))
          (fun kitems kids hM => masm_mach_node [Item.stag q attrs s1 true]
            (.elem (qparts q).2 (attrsOfC attrs) []) _ kitems kids (masm_noderun_empty q attrs s1)
            (fun pend => by rw [masm_treeKids_elem, masm_treeKids_nil]; rfl) hM)
          (fun kitems kids hM => sasm_mach_node [Item.stag q attrs s1 true]
            (.elem (qparts q).2 (attrsOfCS attrs) []) _ kitems kids (sasm_noderun_empty q attrs s1)
            (fun pend => by rw [sasm_treeKidsS_elem, sasm_treeKidsS_nil]; rfl) hM) hA
      · exact Or.inr hB
    | «open» _ q attrs s1 tail hc' =>
      have hrun1 : runStk (qparts q :: stk) tail = some fin := hrun
      have hl : tail.length < n := Nat.lt_of_succ_lt_succ hlen
      have hL : (Item.stag q attrs s1 false).Lex T := hlex _ (List.mem_cons_self ..)
      have hS : (Item.stag q attrs s1 false).Sem T := hsem _ (List.mem_cons_self ..)
      have hlexT : ∀ x ∈ tail, x.Lex T := fun x hx => hlex x (List.mem_cons_of_mem _ hx)
      have hsemT : ∀ x ∈ tail, x.Sem T := fun x hx => hsem x (List.mem_cons_of_mem _ hx)
      have hpinT : ∀ x ∈ tail, x.PiN T := fun x hx => hpin x (List.mem_cons_of_mem _ hx)
      rcases ih tail (d + 1) (qparts q :: stk) fin hl hc' (by simp [hstk]) hrun1 hlexT hsemT hpinT
        with hA | hB
      · obtain ⟨kit1, q', s2, rest1, kids1, htail, hk1, hw1, hn1, _, hr1, hs2, hd1, hN1, hM1, hMS1⟩ := hA
        have hc1 : Content d rest1 := by
          rcases hd1 with ⟨h0, _⟩ | ⟨d', hd', hc1⟩
          · exact absurd h0 (Nat.succ_ne_zero _)
          · have : d = d' := Nat.succ.inj hd'
            rw [this]; exact hc1
        subst htail
        rw [asm_runStk_append, hr1] at hrun1
        have hrun2 : (match stepStk (qparts q :: stk) (Item.etag q' s2) with
              | some stk' => runStk stk' rest1
              | none => none) = some fin := hrun1
        have hstepE : stepStk (qparts q :: stk) (Item.etag q' s2) =
            if qparts q = qparts q' then some stk else none := rfl
        by_cases hqq : qparts q = qparts q'
        · rw [hstepE, if_pos hqq] at hrun2
          have hrun3 : runStk stk rest1 = some fin := hrun2
          have hl1 : rest1.length < n := by
            have : rest1.length < (kit1 ++ Item.etag q' s2 :: rest1).length := by
              simp only [List.length_append, List.length_cons]; omega
            omega
          have hlexR : ∀ x ∈ rest1, x.Lex T := fun x hx =>
            hlexT x (List.mem_append_right _ (List.mem_cons_of_mem _ hx))
          have hsemR : ∀ x ∈ rest1, x.Sem T := fun x hx =>
            hsemT x (List.mem_append_right _ (List.mem_cons_of_mem _ hx))
          have hpinR : ∀ x ∈ rest1, x.PiN T := fun x hx =>
            hpinT x (List.mem_append_right _ (List.mem_cons_of_mem _ hx))
          rcases ih rest1 d stk fin hl1 hc1 hstk hrun3 hlexR hsemR hpinR with hA2 | hB2
          · left
            obtain ⟨kit2, q2, s22, rest2, kids2, rfl, hk2, hw2, hn2, hh2, hr2, hs22, hd2, hN2, hM2,
              hMS2⟩ :=
              hA2
            have hg : GWf T (.elem q (attrs.map fun a => (a.n, a.v)) kids1) :=
              asm_gwf_stag T q attrs s1 false kids1 hL hS hn1 hw1
            have hrn : RNode T (.elem q (attrs.map fun a => (a.n, a.v)) kids1)
                ((Item.stag q attrs s1 false).bytes ++
                  (flat kit1 ++ (Item.etag q' s2).bytes)) := by
              have := RNode.elem q q' _ kids1 (attrsBytes attrs) s1 (flat kit1) s2
                (asm_rattrs T attrs hL.2.2) hL.2.1 hk1 hs2 hqq.symm
              rw [asm_elem_bytes] at this
              exact this
            have hMach : MachK (Item.stag q attrs s1 false :: (kit1 ++ Item.etag q' s2 :: kit2))
                (.elem q (attrs.map fun a => (a.n, a.v)) kids1 :: kids2) := by
              have := masm_mach_node (Item.stag q attrs s1 false :: (kit1 ++ [Item.etag q' s2]))
                (.elem (qparts q).2 (attrsOfC attrs) (treeKids none kids1))
                (.elem q (attrs.map fun a => (a.n, a.v)) kids1) kit2 kids2
                (masm_noderun_open q attrs s1 q' s2 kit1 kids1 hM1)
                (fun pend => masm_treeKids_elem pend q _ kids1 kids2) hM2
              have e : (Item.stag q attrs s1 false :: (kit1 ++ [Item.etag q' s2])) ++ kit2 =
                  Item.stag q attrs s1 false :: (kit1 ++ Item.etag q' s2 :: kit2) := by
                simp only [List.cons_append, List.append_assoc, List.nil_append]
              rw [e] at this
              exact this
            have hMachS : MachKS (Item.stag q attrs s1 false :: (kit1 ++ Item.etag q' s2 :: kit2))
                (.elem q (attrs.map fun a => (a.n, a.v)) kids1 :: kids2) := by
              have := sasm_mach_node (Item.stag q attrs s1 false :: (kit1 ++ [Item.etag q' s2]))
                (.elem (qparts q).2 (attrsOfCS attrs) (treeKidsS none kids1))
                (.elem q (attrs.map fun a => (a.n, a.v)) kids1) kit2 kids2
                (sasm_noderun_open q attrs s1 q' s2 kit1 kids1 hMS1)
                (fun pend => sasm_treeKidsS_elem pend q _ kids1 kids2) hMS2
              have e : (Item.stag q attrs s1 false :: (kit1 ++ [Item.etag q' s2])) ++ kit2 =
                  Item.stag q attrs s1 false :: (kit1 ++ Item.etag q' s2 :: kit2) := by
                simp only [List.cons_append, List.append_assoc, List.nil_append]
              rw [e] at this
              exact this
            refine ⟨Item.stag q attrs s1 false :: (kit1 ++ Item.etag q' s2 :: kit2), q2, s22,
              rest2, .elem q (attrs.map fun a => (a.n, a.v)) kids1 :: kids2, ?_, ?_,
              (asm_gwfall_cons T _ _).2 ⟨hg, hw2⟩, ?_, ?_, ?_, hs22, hd2,
              (masm_normalAll_cons T _ _).2 ⟨(masm_normal_elem T _ _ _).2 hN1, hN2⟩, hMach, hMachS⟩
            · simp only [List.cons_append, List.append_assoc]
            · have hfl : flat (Item.stag q attrs s1 false :: (kit1 ++ Item.etag q' s2 :: kit2)) =
                  ((Item.stag q attrs s1 false).bytes ++
                    (flat kit1 ++ (Item.etag q' s2).bytes)) ++ flat kit2 := by
                show (Item.stag q attrs s1 false).bytes ++ flat (kit1 ++ Item.etag q' s2 :: kit2) = _
                rw [asm_flat_append]
                show _ ++ (flat kit1 ++ ((Item.etag q' s2).bytes ++ flat kit2)) = _
                simp only [List.append_assoc]
              rw [hfl]
              exact RKids.cons _ _ _ _ hrn hk2
            · apply asm_noAdj_cons _ kids2 hn2
              intro k' r _ h1 _
              exact Bool.noConfusion h1
            · intro k0 ks hk0 h1
              injection hk0 with hk0 _
              subst hk0
              exact Bool.noConfusion h1
            · show runStk (qparts q :: stk) (kit1 ++ Item.etag q' s2 :: kit2) = some stk
              rw [asm_runStk_append, hr1]
              show (match stepStk (qparts q :: stk) (Item.etag q' s2) with
                    | some stk' => runStk stk' kit2
                    | none => none) = some stk
              rw [hstepE, if_pos hqq]
              exact hr2
          · exact Or.inr hB2
        · rw [hstepE, if_neg hqq] at hrun2
          exact absurd hrun2 (by simp)
      · right
        have : (qparts q :: stk).length = stk.length + 1 := rfl
        omega
    | close d' q s2 tail hc' =>
      left
      have hL : (Item.etag q s2).Lex T := hlex _ (List.mem_cons_self ..)
      exact ⟨[], q, s2, tail, [], rfl, RKids.nil, asm_gwfall_nil T, rfl,
        (fun k ks h => by cases h), rfl, hL.2, Or.inr ⟨d', rfl, hc'⟩, masm_normalAll_nil T,
        masm_mach_nil, sasm_mach_nil⟩
    | last q s2 =>
      left
      have hL : (Item.etag q s2).Lex T := hlex _ (List.mem_cons_self ..)
      exact ⟨[], q, s2, [], [], rfl, RKids.nil, asm_gwfall_nil T, rfl,
        (fun k ks h => by cases h), rfl, hL.2, Or.inl ⟨rfl, rfl⟩, masm_normalAll_nil T,
        masm_mach_nil, sasm_mach_nil⟩

/-! ### The document -/

theorem sasm_root (T : Tables) (pre root post : List Item)
    (hpre : ∀ it ∈ pre, it.isMiscI = true) (hpost : ∀ it ∈ post, it.isMiscI = true)
    (hroot : RootShape root)
    (hlex : ∀ it ∈ root, it.Lex T) (hsem : ∀ it ∈ root, it.Sem T) (hpin : ∀ it ∈ root, it.PiN T)
    (hrun : runStk [] (pre ++ root ++ post) = some [])
    (hstag : ∃ it ∈ pre ++ root ++ post, it.isStag = true) :
    ∃ r y ys, isElem r = true ∧ GWf T r ∧ RNode T r (flat root) ∧ Normal T r ∧ treeOf r = [y] ∧
      NodeRun root y ∧ treeOfS r = [ys] ∧ NodeRunS root ys := by
  rcases hroot with rfl | ⟨q, attrs, s1, rfl⟩ | ⟨q, attrs, s1, content, rfl, hcont⟩
  · obtain ⟨it, hit, hs⟩ := hstag
    rw [List.append_nil] at hit
    have hm : it.isMiscI = true := by
      rcases List.mem_append.1 hit with h | h
      · exact hpre it h
      · exact hpost it h
    rw [asm_misc_not_stag it hm] at hs
    exact Bool.noConfusion hs
  · have hL : (Item.stag q attrs s1 true).Lex T := hlex _ (List.mem_cons_self ..)
    have hS : (Item.stag q attrs s1 true).Sem T := hsem _ (List.mem_cons_self ..)
    refine ⟨.elem q (attrs.map fun a => (a.n, a.v)) [],
      .elem (qparts q).2 (attrsOfC attrs) [], .elem (qparts q).2 (attrsOfCS attrs) [], rfl,
      asm_gwf_stag T q attrs s1 true [] hL hS rfl (asm_gwfall_nil T), ?_,
      (masm_normal_elem T _ _ _).2 (masm_normalAll_nil T), ?_, masm_noderun_empty q attrs s1, ?_,
      sasm_noderun_empty q attrs s1⟩
    · show RNode T _ ((Item.stag q attrs s1 true).bytes ++ [])
      rw [List.append_nil]
      exact RNode.empty q _ (attrsBytes attrs) s1 (asm_rattrs T attrs hL.2.2) hL.2.1
    · rw [masm_treeOf_elem, masm_treeKids_nil]; rfl
    · rw [sasm_treeOfS_elem, sasm_treeKidsS_nil]; rfl
  · have hL : (Item.stag q attrs s1 false).Lex T := hlex _ (List.mem_cons_self ..)
    have hS : (Item.stag q attrs s1 false).Sem T := hsem _ (List.mem_cons_self ..)
    have hlexC : ∀ x ∈ content, x.Lex T := fun x hx => hlex x (List.mem_cons_of_mem _ hx)
    have hsemC : ∀ x ∈ content, x.Sem T := fun x hx => hsem x (List.mem_cons_of_mem _ hx)
    have hpinC : ∀ x ∈ content, x.PiN T := fun x hx => hpin x (List.mem_cons_of_mem _ hx)
    rw [List.append_assoc, asm_runStk_append, asm_run_misc [] pre hpre] at hrun
    have hrun1 : runStk [qparts q] (content ++ post) = some [] := hrun
    rw [asm_runStk_append] at hrun1
    cases hfin : runStk [qparts q] content with
    | none => rw [hfin] at hrun1; exact absurd hrun1 (by simp)
    | some fin =>
      rw [hfin] at hrun1
      have hrun2 : runStk fin post = some [] := hrun1
      rw [asm_run_misc fin post hpost] at hrun2
      injection hrun2 with hrun2
      subst hrun2
      rcases sasm_main T (content.length + 1) content 0 [qparts q] [] (Nat.lt_succ_self _) hcont rfl
        hfin hlexC hsemC hpinC with hA | hB
      · obtain ⟨kitems, q', s2, rest, kids, rfl, hk, hw, hn, _, hr, hs2, hd, hN, hM, hMS⟩ := hA
        have hrest : rest = [] := by
          rcases hd with ⟨_, h⟩ | ⟨d', hd', _⟩
          · exact h
          · exact absurd hd' (Nat.succ_ne_zero _).symm
        subst hrest
        rw [asm_runStk_append, hr] at hfin
        have hfin2 : (match stepStk [qparts q] (Item.etag q' s2) with
              | some stk' => runStk stk' []
              | none => none) = some [] := hfin
        have hstepE : stepStk [qparts q] (Item.etag q' s2) =
            if qparts q = qparts q' then some [] else none := rfl
        by_cases hqq : qparts q = qparts q'
        · refine ⟨.elem q (attrs.map fun a => (a.n, a.v)) kids,
            .elem (qparts q).2 (attrsOfC attrs) (treeKids none kids),
            .elem (qparts q).2 (attrsOfCS attrs) (treeKidsS none kids), rfl,
            asm_gwf_stag T q attrs s1 false kids hL hS hn hw, ?_,
            (masm_normal_elem T _ _ _).2 hN, ?_,
            masm_noderun_open q attrs s1 q' s2 kitems kids hM, ?_,
            sasm_noderun_open q attrs s1 q' s2 kitems kids hMS⟩
          · have := RNode.elem q q' _ kids (attrsBytes attrs) s1 (flat kitems) s2
              (asm_rattrs T attrs hL.2.2) hL.2.1 hk hs2 hqq.symm
            rw [asm_elem_bytes] at this
            have hfl : flat (Item.stag q attrs s1 false :: (kitems ++ [Item.etag q' s2])) =
                (Item.stag q attrs s1 false).bytes ++
                  (flat kitems ++ (Item.etag q' s2).bytes) := by
              show (Item.stag q attrs s1 false).bytes ++ flat (kitems ++ [Item.etag q' s2]) = _
              rw [asm_flat_append]
              show _ ++ (flat kitems ++ ((Item.etag q' s2).bytes ++ [])) = _
              rw [List.append_nil]
            rw [hfl]
            exact this
          · rw [masm_treeOf_elem]; rfl
          · rw [sasm_treeOfS_elem]; rfl
        · rw [hstepE, if_neg hqq] at hfin2
          exact absurd hfin2 (by simp)
      · exact absurd hB (Nat.not_succ_le_zero _)

/-- **Stage C'**, with the storage -/
theorem assembleS (T : Tables) (bom decl : Bytes) (pre root post : List Item)
    (hbom : bom = [] ∨ bom = Lit.bom) (hdecl : decl = [] ∨ XmlDecl T decl)
    (hpre : ∀ it ∈ pre, it.isMiscI = true) (hpost : ∀ it ∈ post, it.isMiscI = true)
    (hroot : RootShape root)
    (hlex : ∀ it ∈ pre ++ root ++ post, it.Lex T) (hsem : ∀ it ∈ pre ++ root ++ post, it.Sem T)
    (hpin : ∀ it ∈ pre ++ root ++ post, it.PiN T)
    (hrun : runStk [] (pre ++ root ++ post) = some [])
    (hstag : ∃ it ∈ pre ++ root ++ post, it.isStag = true) :
    ∃ x : GDoc, GDocWf T x ∧ DocNormal T x ∧
      RDoc T x (bom ++ decl ++ flat pre ++ flat root ++ flat post) ∧
      (runA initA (pre ++ root ++ post)).pend = none ∧
      (runA initA (pre ++ root ++ post)).out = (none, YKind.root) :: expectAllY 0 1 (docTree x) ∧
      (runS initS (pre ++ root ++ post)).pend = none ∧
      (runS initS (pre ++ root ++ post)).out = (none, SKind.root) :: expectAllS 0 1 (docTreeS x) := by
  obtain ⟨mpre, hmpre, hwpre, hNpre, hMpre, hMSpre⟩ := sasm_rmisc T pre hpre
    (fun it h => hlex it (List.mem_append_left _ (List.mem_append_left _ h)))
    (fun it h => hpin it (List.mem_append_left _ (List.mem_append_left _ h)))
  obtain ⟨mpost, hmpost, hwpost, hNpost, hMpost, hMSpost⟩ := sasm_rmisc T post hpost
    (fun it h => hlex it (List.mem_append_right _ h))
    (fun it h => hpin it (List.mem_append_right _ h))
  obtain ⟨r, y, ys, he, hg, hr, hNr, hty, hRun, htyS, hRunS⟩ := sasm_root T pre root post hpre hpost
    hroot
    (fun it h => hlex it (List.mem_append_left _ (List.mem_append_right _ h)))
    (fun it h => hsem it (List.mem_append_left _ (List.mem_append_right _ h)))
    (fun it h => hpin it (List.mem_append_left _ (List.mem_append_right _ h))) hrun hstag
  refine ⟨⟨mpre, r, mpost⟩, ⟨he, hg, hwpre, hwpost⟩, ⟨hNpre, hNr, hNpost⟩,
    RDoc.mk mpre r mpost bom decl _ _ _ hbom hdecl hmpre hr hmpost, ?_⟩
  rw [← and_assoc]
  refine ⟨?_, ?_⟩
  · rw [runA_append, runA_append]
    obtain ⟨s1, f1⟩ := hMpre initA 0 [] rfl
    have s1' : (runA initA pre).stk = 0 :: [] := s1
    rw [hRun (runA initA pre) 0 [] s1']
    obtain ⟨s3, f3⟩ := hMpost ⟨(runA initA pre).flushed ++
      expectY 0 (runA initA pre).flushed.length y, none, (runA initA pre).stk⟩ 0 [] s1'
    have p3 := masm_misc_pend post hpost ⟨(runA initA pre).flushed ++
      expectY 0 (runA initA pre).flushed.length y, none, (runA initA pre).stk⟩ rfl
    refine ⟨p3, ?_⟩
    have ho : ∀ a : AS, a.pend = none → a.out = a.flushed := by
      intro a ha
      unfold AS.flushed
      rw [ha, List.append_nil]
    rw [ho _ p3, f3, f1]
    show ([(none, YKind.root)] ++ expectAllY 0 1 (treeKids none mpre) ++
        expectY 0 ([(none, YKind.root)] ++ expectAllY 0 1 (treeKids none mpre)).length y) ++
      expectAllY 0 (([(none, YKind.root)] ++ expectAllY 0 1 (treeKids none mpre) ++
        expectY 0 ([(none, YKind.root)] ++ expectAllY 0 1 (treeKids none mpre)).length y)).length
        (treeKids none mpost) =
      (none, YKind.root) :: expectAllY 0 1 (treeKids none mpre ++ treeOf r ++ treeKids none mpost)
    have hd : treeKids none mpre ++ treeOf r ++ treeKids none mpost =
        treeKids none mpre ++ (y :: treeKids none mpost) := by
      rw [hty, List.append_assoc]
      rfl
    rw [hd, masm_expectAllY_append, masm_expectAllY_cons]
    simp only [List.length_append, List.length_cons, masm_length_expectAllY,
      masm_length_expectY, List.append_assoc, List.cons_append, List.nil_append,
      Nat.add_comm, Nat.add_left_comm]
  · rw [runS_append, runS_append]
    obtain ⟨s1, f1⟩ := hMSpre initS 0 [] rfl
    have s1' : (runS initS pre).stk = 0 :: [] := s1
    rw [hRunS (runS initS pre) 0 [] s1']
    obtain ⟨s3, f3⟩ := hMSpost ⟨(runS initS pre).flushed ++
      expectS 0 (runS initS pre).flushed.length ys, none, (runS initS pre).stk⟩ 0 [] s1'
    have p3 := sasm_misc_pend post hpost ⟨(runS initS pre).flushed ++
      expectS 0 (runS initS pre).flushed.length ys, none, (runS initS pre).stk⟩ rfl
    refine ⟨p3, ?_⟩
    have ho : ∀ a : SS, a.pend = none → a.out = a.flushed := by
      intro a ha
      unfold SS.flushed
      rw [ha, List.append_nil]
    rw [ho _ p3, f3, f1]
    show ([(none, SKind.root)] ++ expectAllS 0 1 (treeKidsS none mpre) ++
        expectS 0 ([(none, SKind.root)] ++ expectAllS 0 1 (treeKidsS none mpre)).length ys) ++
      expectAllS 0 (([(none, SKind.root)] ++ expectAllS 0 1 (treeKidsS none mpre) ++
        expectS 0 ([(none, SKind.root)] ++ expectAllS 0 1 (treeKidsS none mpre)).length ys)).length
        (treeKidsS none mpost) =
      (none, SKind.root) :: expectAllS 0 1 (treeKidsS none mpre ++ treeOfS r ++ treeKidsS none mpost)
    have hd : treeKidsS none mpre ++ treeOfS r ++ treeKidsS none mpost =
        treeKidsS none mpre ++ (ys :: treeKidsS none mpost) := by
      rw [htyS, List.append_assoc]
      rfl
    rw [hd, sasm_expectAllS_append, sasm_expectAllS_cons]
    simp only [List.length_append, List.length_cons, sasm_length_expectAllS,
      sasm_length_expectS, List.append_assoc, List.cons_append, List.nil_append,
      Nat.add_comm, Nat.add_left_comm]

end Rox.Lemmas

/-! ## Part 7 — the theorem -/

namespace Rox.Lemmas
open Rox Rox.Spec.Grammar Rox.Spec.Canon4 Rox.Spec.Mirror

/-- **Storage mirrors the raw syntax, for every accepted input** (every valid UTF-8 input,
`allow_dtd = false`, every node limit, with or without positions): if `parse` returns a tree, the
input is the concrete syntax of a well-formed abstract document `x` such that

  * (`accepted_tree_mirrors`) the arena read back in id order with `viewM` is the root node followed
    by the nodes of `docTree x`, and
  * the arena read back with `viewS` — every string with the flag "is `Str.borrowed` / is a `Span`" —
    is the root node followed by the nodes of `docTreeS x`, whose flags are computed from the raw
    syntax of `x` alone:
      - an attribute value is borrowed iff its raw value (between the quotes) contains none of
        `&`, TAB, LF, CR (`attrBorrowed`), otherwise it is an owned copy;
      - a text node is borrowed iff its run is ONE item that is character data without `&` and CR
        (`textBorrowed`) or a CDATA section without CR (`cdataBorrowed`); a run of two or more
        adjacent items (text next to CDATA, CDATA next to CDATA — even an empty one) is owned;
      - element and attribute local names, comment bodies, PI targets and values are borrowed. -/
theorem accepted_storage_mirrors (T : Tables) (hT : TablesOK T) (hG : TablesGrammar T) (txt : Bytes)
    (hv : ValidUtf8 txt) (opt : Opt) (hdtd : opt.allowDtd = false) (d : Doc)
    (h : parse T txt opt = .ok d) :
    ∃ x : GDoc, GDocWf T x ∧ DocNormal T x ∧ RDoc T x txt ∧
      d.nodes.toList.map (viewM d) = (none, YKind.root) :: expectAllY 0 1 (docTree x) ∧
      d.nodes.toList.map (viewS d) = (none, SKind.root) :: expectAllS 0 1 (docTreeS x) := by
  unfold parse at h
  rw [Res.bind_eq_ok] at h
  obtain ⟨c, hc, hd⟩ := h
  simp only [Res.pure_eq, Res.ok.injEq] at hd
  subst hd
  -- the tokenizer succeeded
  have htok : ∃ toks, tokenize T txt false = (toks, .ok ()) := by
    have hc' := hc
    unfold parseCtx at hc'
    rw [Res.bind_eq_ok] at hc'
    obtain ⟨c0, _, hc'⟩ := hc'
    rw [hdtd] at hc'
    dsimp only at hc'
    rw [Res.bind_eq_ok] at hc'
    obtain ⟨c1, hrun, _⟩ := hc'
    obtain ⟨⟨u, hu⟩, _⟩ := runTokens_feed _ _ _ _ _ hrun
    cases u
    exact ⟨(tokenize T txt false).1, Prod.ext rfl hu⟩
  obtain ⟨toks, htoks⟩ := htok
  -- Stage A'
  obtain ⟨bom, decl, pre, root, post, htxt, hbom, hdecl, hpre, hpost, hroot, hlex, hpin, hit⟩ :=
    tokenize_itemsM T hT hG txt hv toks htoks
  have hit' : ItemsToksM (pre ++ root ++ post) (tokenize T txt false).1 := by rw [htoks]; exact hit
  -- Stage B (what the builder checked)
  obtain ⟨hrun, hsem, hstag⟩ := parseCtx_items T hT txt hv opt hdtd c hc _ hit'.toItemsToks hlex
  -- Stage C' and C''
  obtain ⟨x, hwf, hnorm, hrdoc, hpend, hout, hpendS, houtS⟩ :=
    assembleS T bom decl pre root post hbom hdecl hpre hpost hroot hlex hsem hpin hrun hstag
  -- Stage B' and B'' (what the builder built)
  have hview := parseCtx_itemsM T hT txt hv opt hdtd c hc _ hit' hlex hpend
  have hviewS := parseCtx_itemsS T hT txt hv opt hdtd c hc _ hit' hlex hpendS
  refine ⟨x, hwf, hnorm, ?_, ?_, ?_⟩
  · rw [htxt]; exact hrdoc
  · rw [hview, hout]
  · rw [hviewS, houtS]

end Rox.Lemmas

-- #print axioms Rox.Lemmas.accepted_storage_mirrors
-- 'Rox.Lemmas.accepted_storage_mirrors' depends on axioms: [propext, Classical.choice, Quot.sound]
