/-
  Rox.Lemmas.ErrPayloadDoc — the functions of `Rox.Doc`, `Rox.Api` and the part of the builder that
  raise no error with a payload: the walk of `ErrPos` with the predicate "the payload comes from the
  input".
-/
import Rox.Lemmas.ErrPayloadBase

namespace Rox.Lemmas.EP
open Rox

/-- every error the computation can return has a payload from the input -/
structure EK (txt : Bytes) {α : Type} (r : Res α) : Prop where
  out : ∀ e, r = .err e → POk txt e

theorem ek_ok (txt : Bytes) {α} (a : α) : EK txt (Res.ok a) := ⟨by intro e h; cases h⟩
theorem ek_pure (txt : Bytes) {α} (a : α) : EK txt (pure a : Res α) := ⟨by intro e h; cases h⟩
theorem ek_panic (txt : Bytes) {α} (s : String) : EK txt (Res.panic s : Res α) :=
  ⟨by intro e h; cases h⟩
theorem ek_fuel (txt : Bytes) {α} : EK txt (Res.fuel : Res α) := ⟨by intro e h; cases h⟩
theorem ek_err (txt : Bytes) {α} (e : Err) (h : POk txt e) : EK txt (Res.err e : Res α) :=
  ⟨by intro e' h'; cases h'; exact h⟩

theorem ek_of_ht {txt : Bytes} {α} {r : Res α} {Q : α → Prop} (h : HT txt r Q) : EK txt r := ⟨h.err⟩

theorem ht_of_ek {txt : Bytes} {α} {r : Res α} {Q : α → Prop} (h : EK txt r)
    (hq : ∀ a, r = .ok a → Q a) : HT txt r Q := ⟨hq, h.out⟩

theorem ek_bind (txt : Bytes) {α β} (m : Res α) (k : α → Res β)
    (hm : EK txt m) (hk : ∀ a, EK txt (k a)) : EK txt (m >>= k) := by
  cases m with
  | ok a => exact hk a
  | err e => exact ⟨fun e' h => by rw [Res.bind_err] at h; cases h; exact hm.out e rfl⟩
  | panic s => exact ⟨by intro e h; cases h⟩
  | fuel => exact ⟨by intro e h; cases h⟩

theorem ek_errAt (txt : Bytes) {α} (mk : TextPos → Err) (p : Nat) (hmk : ∀ tp, POk txt (mk tp)) :
    EK txt (errAt txt mk p : Res α) := ek_of_ht (ht_errAt (Q := fun _ => True) txt mk p hmk)

theorem ek_errFrom (txt : Bytes) {α} (mk : TextPos → Err) (p : Nat) (hmk : ∀ tp, POk txt (mk tp)) :
    EK txt (errFrom txt mk p : Res α) := ek_of_ht (ht_errFrom (Q := fun _ => True) txt mk p hmk)

theorem ek_errPos (txt : Bytes) {α} (mk : TextPos → Err) (p : Nat) (hmk : ∀ tp, POk txt (mk tp)) :
    EK txt (errPos txt mk p : Res α) := ek_errFrom txt mk p hmk

/-- try the given lemmas / induction hypotheses -/
syntax "ek_try" term,* : tactic
macro_rules
  | `(tactic| ek_try) => `(tactic| fail "no lemma")
  | `(tactic| ek_try $t:term) => `(tactic| (apply $t <;> try assumption))
  | `(tactic| ek_try $t:term, $ts:term,*) => `(tactic| first | (apply $t <;> try assumption) | ek_try $ts,*)

/-- one step of the error logic -/
syntax "ek_step" term,* : tactic
macro_rules
  | `(tactic| ek_step $ts:term,*) => `(tactic| first
    | exact ek_ok _ _
    | exact ek_pure _ _
    | exact ek_panic _ _
    | exact ek_fuel _
    | exact ek_err _ _ trivial
    | exact ek_errAt _ _ _ (fun _ => trivial)
    | exact ek_errFrom _ _ _ (fun _ => trivial)
    | exact ek_errPos _ _ _ (fun _ => trivial)
    | assumption
    | ek_try $ts,*
    | with_reducible apply ek_bind
    | intro _
    | split
    | dsimp only)

syntax "ek" ("using" term,*)? : tactic
macro_rules
  | `(tactic| ek) => `(tactic| repeat' ek_step)
  | `(tactic| ek using $ts:term,*) => `(tactic| repeat' ek_step $ts,*)

/-! ### `Rox.Doc` and the part of `Rox.Api` the builder uses -/

section
variable (txt : Bytes)

theorem searchGo_ek (ns : Namespaces) (name : Option Bytes) (uri : Bytes) :
    ∀ fuel i, EK txt (ns.searchGo name uri fuel i) := by
  intro fuel
  induction fuel with
  | zero => intro i; unfold Namespaces.searchGo; ek
  | succ n ih => intro i; unfold Namespaces.searchGo; ek using ih

theorem search_ek (ns : Namespaces) (name : Option Bytes) (uri : Bytes) :
    EK txt (ns.search name uri) := by
  unfold Namespaces.search; ek using searchGo_ek

theorem pushNs_ek (ns : Namespaces) (name : Option Span) (uri : Str) :
    EK txt (ns.pushNs name uri) := by
  unfold Namespaces.pushNs; ek using search_ek

theorem pushRef_ek (ns : Namespaces) (i : Nat) : EK txt (ns.pushRef i) := by
  unfold Namespaces.pushRef; ek

theorem existsAux_ek (values : Array Namespace) (pfx : Option Bytes) :
    ∀ l, EK txt (Namespaces.existsAux values pfx l) := by
  intro l
  induction l with
  | nil => unfold Namespaces.existsAux; ek
  | cons a r ih => unfold Namespaces.existsAux; ek using ih

theorem exists_ek (ns : Namespaces) (start : Nat) (pfx : Option Bytes) :
    EK txt (ns.exists start pfx) := by
  unfold Namespaces.exists; ek using existsAux_ek

theorem nodeIdNew_ek (k : Nat) : EK txt (Api.nodeIdNew k) := by
  unfold Api.nodeIdNew; ek

theorem nsByIdx_ek (d : Doc) (k : Nat) : EK txt (Api.nsByIdx d k) := by
  unfold Api.nsByIdx; ek

theorem expandedName_ek (d : Doc) (i : Option Nat) (loc : Span) :
    EK txt (Api.expandedName d i loc) := by
  unfold Api.expandedName; ek using nsByIdx_ek

theorem attrAt_ek (d : Doc) (k : Nat) : EK txt (Api.attrAt d k) := by
  unfold Api.attrAt; ek

theorem attrExpanded_ek (d : Doc) (k : Nat) : EK txt (Api.attrExpanded d k) := by
  unfold Api.attrExpanded; ek using attrAt_ek, expandedName_ek

theorem getNodeUnwrap_ek (d : Doc) (k : Nat) : EK txt (Api.getNodeUnwrap d k) := by
  unfold Api.getNodeUnwrap; ek

theorem follow_ek (d : Doc) (l : Option Nat) : EK txt (Api.follow d l) := by
  unfold Api.follow; ek

theorem firstChild_ek (d : Doc) (k : Nat) : EK txt (Api.firstChild d k) := by
  unfold Api.firstChild; ek using getNodeUnwrap_ek, nodeIdNew_ek

theorem lastChild_ek (d : Doc) (k : Nat) : EK txt (Api.lastChild d k) := by
  unfold Api.lastChild; ek using getNodeUnwrap_ek, follow_ek

theorem nextSibling_ek (d : Doc) (k : Nat) : EK txt (Api.nextSibling d k) := by
  unfold Api.nextSibling; ek using getNodeUnwrap_ek

theorem children_ek (d : Doc) (k : Nat) : EK txt (Api.children d k) := by
  unfold Api.children; ek using firstChild_ek, lastChild_ek

theorem childrenNext_ek (d : Doc) (it : Api.ChildrenIt) : EK txt (it.next d) := by
  unfold Api.ChildrenIt.next; ek using nextSibling_ek

theorem childrenList_ek (d : Doc) : ∀ fuel it, EK txt (Api.childrenList d fuel it) := by
  intro fuel
  induction fuel with
  | zero => intro it; unfold Api.childrenList; ek
  | succ n ih => intro it; unfold Api.childrenList; ek using ih, childrenNext_ek

theorem kindOf_ek (d : Doc) (k : Nat) : EK txt (Api.kindOf d k) := by
  unfold Api.kindOf; ek using getNodeUnwrap_ek

theorem isElement_ek (d : Doc) (k : Nat) : EK txt (Api.isElement d k) := by
  unfold Api.isElement; ek using kindOf_ek

theorem findElement_ek (d : Doc) : ∀ l, EK txt (Api.findElement d l) := by
  intro l
  induction l with
  | nil => unfold Api.findElement; ek
  | cons a r ih => unfold Api.findElement; ek using ih, isElement_ek

theorem anyM_ek {α : Type} (f : α → Res Bool) (hf : ∀ a, EK txt (f a)) :
    ∀ l : List α, EK txt (l.anyM f) := by
  intro l
  induction l with
  | nil => unfold List.anyM; ek
  | cons a r ih => unfold List.anyM; ek using ih, hf

end

/-! ### the payload-free part of `Rox.Build` / `Rox.Parse` -/

section
variable (T : Tables) (txt : Bytes)

theorem nodeAt_ek (c : Ctx) (i : Nat) : EK txt (c.nodeAt i) := by
  unfold Ctx.nodeAt; ek

theorem setNextSubtree_ek (new : Nat) :
    ∀ l nodes, EK txt (Ctx.setNextSubtree nodes new l) := by
  intro l
  induction l with
  | nil => intro nodes; unfold Ctx.setNextSubtree; ek
  | cons a r ih => intro nodes; unfold Ctx.setNextSubtree; ek using ih

theorem appendNode_ek (c : Ctx) (kind : Kind) (range : Range) :
    EK txt (c.appendNode kind range) := by
  unfold Ctx.appendNode; ek using nodeIdNew_ek, setNextSubtree_ek

theorem appendText_ek (c : Ctx) (text : Str) (range : Range) :
    EK txt (c.appendText text range) := by
  unfold Ctx.appendText; ek using appendNode_ek

theorem mergeText_ek (c : Ctx) : EK txt c.mergeText := by
  unfold Ctx.mergeText; ek

theorem resetAfterText_ek (c : Ctx) : EK txt c.resetAfterText := by
  unfold Ctx.resetAfterText; ek using mergeText_ek

theorem getNsFind_ek (doc : Doc) (pfxOpt : Option Bytes) :
    ∀ l, EK txt (getNsIdxByPrefix.find doc pfxOpt l) := by
  intro l
  induction l with
  | nil => unfold getNsIdxByPrefix.find; ek
  | cons a r ih => unfold getNsIdxByPrefix.find; ek using ih

theorem inheritLoop_ek (startIdx : Nat) : ∀ l ns, EK txt (inheritLoop startIdx l ns) := by
  intro l
  induction l with
  | nil => intro ns; unfold inheritLoop; ek
  | cons a r ih => intro ns; unfold inheritLoop; ek using ih, exists_ek, pushRef_ek

theorem resolveNamespaces_ek (c : Ctx) : EK txt (resolveNamespaces c) := by
  unfold resolveNamespaces; ek using nodeAt_ek, inheritLoop_ek

theorem bufFinish_ek (b : TextBuffer) : EK txt b.finish := by
  unfold TextBuffer.finish; ek

theorem processCdata_ek (c : Ctx) (t : Span) (r : Range) : EK txt (processCdata c t r) := by
  unfold processCdata; ek using appendText_ek

theorem flushBuffer_ek (c : Ctx) (buf : TextBuffer) (r : Range) :
    EK txt (flushBuffer c buf r) := by
  unfold flushBuffer; ek using bufFinish_ek, appendText_ek

theorem initCtx_ek (opt : Opt) : EK txt (initCtx txt opt) := by
  unfold initCtx; ek using pushNs_ek

theorem rootHasElement_ek (d : Doc) : EK txt (rootHasElement d) := by
  unfold rootHasElement; ek using children_ek, childrenList_ek, findElement_ek

theorem finish_ek (c : Ctx) : EK txt (finish c) := by
  unfold finish; ek using rootHasElement_ek

end

end Rox.Lemmas.EP
