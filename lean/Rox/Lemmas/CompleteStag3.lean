/-
  Rox.Lemmas.CompleteStag3 — the end of a start tag is accepted: `reset_after_text`,
  `resolve_namespaces`, `resolve_attributes` (every prefix is bound, the expanded names are pairwise
  different), `get_ns_idx_by_prefix` for the tag name, `append_node`; the new element's namespace
  range denotes `scopeOf parent attrs`.
-/
import Rox.Lemmas.CompleteStag2

set_option linter.unusedSimpArgs false

namespace Rox.Lemmas.CB
open Rox Rox.Spec Rox.Spec.Grammar Rox.Spec.Mirror Rox.Spec.MirrorNs Rox.Spec.Complete Rox.Props.C06
  Rox.Lemmas.GB

/-! ### `reset_after_text` -/

theorem mergeText_noErr (c : Ctx) : NoErr c.mergeText := by
  unfold Ctx.mergeText
  dsimp only
  split
  · exact noErr_panic _
  · split
    · exact noErr_panic _
    · split
      · exact noErr_ok _
      · exact noErr_panic _

theorem resetAfterText_noErr (c : Ctx) : NoErr c.resetAfterText := by
  unfold Ctx.resetAfterText
  split
  · exact noErr_ok _
  · dsimp only
    split
    · exact noErr_bind _ _ (mergeText_noErr c) (fun _ _ => noErr_pure _)
    · exact noErr_pure _

theorem mergeText_size {c c' : Ctx} (h : c.mergeText = .ok c') :
    c'.doc.nodes.size = c.doc.nodes.size := by
  unfold Ctx.mergeText at h
  dsimp only at h
  split at h
  · simp at h
  · split at h
    · simp at h
    · split at h
      · simp only [Res.ok.injEq] at h
        subst h
        simp [Ctx.setNode]
      · simp at h

theorem resetAfterText_size {c c' : Ctx} (h : c.resetAfterText = .ok c') :
    c'.doc.nodes.size = c.doc.nodes.size := by
  unfold Ctx.resetAfterText at h
  dsimp only at h
  split at h
  · simp only [Res.ok.injEq] at h; subst h; rfl
  · split at h
    · rw [Res.bind_eq_ok] at h
      obtain ⟨c1, h1, h⟩ := h
      res_norm at h
      subst h
      have := mergeText_size h1
      exact this
    · res_norm at h; subst h; rfl

/-- `reset_after_text` succeeds; only the arena (text of the last node), `afterText` change -/
theorem resetAfterText_fwd {txt : Bytes} (c : Ctx) (ha : AInv txt c) :
    ∃ c', c.resetAfterText = .ok c' ∧ GSh c c' ∧ c'.afterText = [] ∧
      SKeep c.doc.nodes c'.doc.nodes ∧ c'.doc.nodes.size = c.doc.nodes.size := by
  have hs := resetAfterText_safe c ha
  obtain ⟨c', h⟩ := ok_of_safe hs.safe (resetAfterText_noErr c)
  obtain ⟨_, _, haf⟩ := hs.post c' h
  exact ⟨c', h, gb_resetAfterText_sh h, haf, (resetAfterText_sfr (txt := txt) h).1.keep,
    resetAfterText_size h⟩

theorem resetAfterText_nil (c : Ctx) (h : c.afterText = []) : c.resetAfterText = .ok c := by
  unfold Ctx.resetAfterText
  simp [h]

/-! ### Dependence on the namespace table only -/

theorem find_ns' (d0 d1 : Doc) (h : d0.ns = d1.ns) (p : Option Bytes) (l : List Nat) :
    getNsIdxByPrefix.find d0 p l = getNsIdxByPrefix.find d1 p l := by
  induction l with
  | nil => rfl
  | cons i r ih => simp only [getNsIdxByPrefix.find, h, ih]

theorem getNsIdxByPrefix_ns' (txt : Bytes) (d0 d1 : Doc) (h : d0.ns = d1.ns) (nss : Range)
    (pp : Nat) (pfx : Bytes) :
    getNsIdxByPrefix txt d0 nss pp pfx = getNsIdxByPrefix txt d1 nss pp pfx := by
  unfold getNsIdxByPrefix
  simp only [h, find_ns' d0 d1 h]

theorem attrNsIdx_ns' (txt : Bytes) (d0 d1 : Doc) (h : d0.ns = d1.ns) (nss : Range) (a : TempAttr) :
    attrNsIdx txt d0 nss a = attrNsIdx txt d1 nss a := by
  unfold attrNsIdx
  rw [getNsIdxByPrefix_ns' txt d0 d1 h]

theorem expandedName_ns' (d0 d1 : Doc) (h : d0.ns = d1.ns) (i : Option Nat) (loc : Span) :
    Api.expandedName d0 i loc = Api.expandedName d1 i loc := by
  unfold Api.expandedName Api.nsByIdx
  rw [h]

/-! ### `resolve_namespaces` extends the tables -/

theorem inheritLoop_ext (st : Nat) : ∀ (l : List Nat) (ns ns' : Namespaces),
    inheritLoop st l ns = .ok ns' →
      ns'.values = ns.values ∧ ∃ more, ns'.treeOrder.toList = ns.treeOrder.toList ++ more := by
  intro l
  induction l with
  | nil => intro ns ns' h; simp [inheritLoop] at h; subst h; exact ⟨rfl, [], by simp⟩
  | cons i r ih =>
    intro ns ns' h
    simp only [inheritLoop] at h
    split at h
    · simp at h
    · split at h
      · simp at h
      · rw [Res.bind_eq_ok] at h
        obtain ⟨ex, _, h⟩ := h
        split at h
        · rw [Res.bind_eq_ok] at h
          obtain ⟨ns1, h1, h⟩ := h
          unfold Namespaces.pushRef at h1
          split at h1
          · simp only [Res.ok.injEq] at h1; subst h1
            obtain ⟨e1, more, e2⟩ := ih _ _ h
            refine ⟨e1, ?_⟩
            rw [e2]
            simp only [Array.toList_push, List.append_assoc]
            exact ⟨_, rfl⟩
          · simp at h1
        · res_norm at h
          exact ih _ _ h

theorem resolveNamespaces_ext (c c' : Ctx) (r : Range) (h : resolveNamespaces c = .ok (c', r)) :
    c'.doc.ns.values = c.doc.ns.values ∧
      ∃ more, c'.doc.ns.treeOrder.toList = c.doc.ns.treeOrder.toList ++ more := by
  unfold resolveNamespaces at h
  rw [Res.bind_eq_ok] at h
  obtain ⟨p, _, h⟩ := h
  split at h
  · split at h
    · res_norm at h; rw [← h.1]; exact ⟨rfl, [], by simp⟩
    · rw [Res.bind_eq_ok] at h
      obtain ⟨ns, hns, h⟩ := h
      res_norm at h
      rw [← h.1]
      exact inheritLoop_ext _ _ _ _ hns
  · res_norm at h; rw [← h.1]; exact ⟨rfl, [], by simp⟩

/-! ### The namespace of one attribute -/

/-- `attrNs`, from the prefix -/
def attrNsP (sc : Scope) (p : Bytes) : Option Bytes :=
  if p == Lit.xml then some nsXmlUri else if p.isEmpty then none else lookup sc (some p)

theorem attrNs_eq (sc : Scope) (n : Bytes) : attrNs sc n = attrNsP sc (qparts n).1 := rfl

/-- `ScopeRel` depends on the namespace table only -/
theorem scopeRel_ns {d d' : Doc} (h : d'.ns = d.ns) {r : Range} {sc : Scope} (hs : ScopeRel d r sc) :
    ScopeRel d' r sc := by
  obtain ⟨h1, h2, h3⟩ := hs
  refine ⟨h1, by rw [h]; exact h2, ?_⟩
  intro p
  rw [← h3 p, h]
  congr 1
  apply scopeList_congr
  intro i _
  rw [h]

/-- the namespace of an attribute whose prefix is bound, and its expanded name -/
theorem attr_resolve (txt : Bytes) (d : Doc) (hns : NsInv d.ns)
    (hx0 : ∃ v, d.ns.values[0]? = some v ∧ v.uri.bytes = nsXmlUri) (nss : Range) (sc : Scope)
    (hsr : ScopeRel d nss sc) (a : TempAttr) (hb : prefixBound sc a.pfx.bytes = true) :
    ∃ i, attrNsIdx txt d nss a = .ok i ∧
      Api.expandedName d i a.loc = .ok (attrNsP sc a.pfx.bytes, a.loc.bytes) := by
  obtain ⟨v0, hv0, hu0⟩ := hx0
  obtain ⟨hr1, hr2, hlk⟩ := hsr
  unfold attrNsIdx attrNsP
  by_cases hx : (a.pfx.bytes == Lit.xml) = true
  · refine ⟨some 0, by simp only [hx, if_true], ?_⟩
    unfold Api.expandedName Api.nsByIdx
    simp only [hv0, Res.bind_ok, Res.pure_eq, hx, if_true, hu0]
  · have hx' : (a.pfx.bytes == Lit.xml) = false := by simpa using hx
    simp only [hx', Bool.false_eq_true, if_false]
    by_cases he : a.pfx.bytes.isEmpty = true
    · refine ⟨none, by simp only [he, if_true], ?_⟩
      simp only [he, if_true]
      rfl
    · have he' : a.pfx.bytes.isEmpty = false := by simpa using he
      simp only [he', Bool.false_eq_true, if_false]
      unfold prefixBound at hb
      simp only [he', hx', Bool.false_or] at hb
      rw [← hlk, lookup_scopeList_isSome] at hb
      have h0 : 0 < d.ns.values.size := (Array.getElem?_eq_some_iff.mp hv0).1
      have hne : a.pfx.bytes ≠ Lit.xml := by simpa using hx'
      obtain ⟨r, hr⟩ := getNsIdxByPrefix_ok txt d hns h0 nss ⟨hr1, hr2⟩ a.range.1 a.pfx.bytes
        (Or.inr (Or.inr hb))
      have hrs := getNsIdxByPrefix_scope txt d nss a.range.1 a.pfx.bytes hne r hr
      simp only [he', Bool.false_eq_true, if_false] at hrs
      refine ⟨r, hr, ?_⟩
      rw [← hlk, lookup_scopeList, ← hrs]
      cases hrr : r with
      | none => rw [hrr] at hrs; rw [← hrs] at hb; simp at hb
      | some i =>
        rw [hrr] at hrs
        obtain ⟨v, hv, _⟩ := scopeFind_valid hrs.symm
        unfold Api.expandedName Api.nsByIdx uriAt
        simp only [hv, Res.bind_ok, Res.pure_eq, Option.bind_some, Option.map_some]

/-! ### `resolve_attributes` -/

theorem attrExpanded_push_lt (d : Doc) (ad : AttrData) (k : Nat) (hk : k < d.attrs.size) :
    Api.attrExpanded { d with attrs := d.attrs.push ad } k = Api.attrExpanded d k := by
  unfold Api.attrExpanded Api.attrAt
  have : (d.attrs.push ad)[k]? = d.attrs[k]? := by
    rw [Array.getElem?_push]
    have : k ≠ d.attrs.size := by omega
    simp [this]
  simp only [this]
  cases d.attrs[k]? with
  | none => rfl
  | some a =>
    show Api.expandedName _ a.nsIdx a.localName = Api.expandedName d a.nsIdx a.localName
    exact expandedName_ns' _ _ rfl _ _

theorem attrExpanded_push_eq (d : Doc) (ad : AttrData) :
    Api.attrExpanded { d with attrs := d.attrs.push ad } d.attrs.size =
      Api.expandedName d ad.nsIdx ad.localName := by
  unfold Api.attrExpanded Api.attrAt
  have : (d.attrs.push ad)[d.attrs.size]? = some ad := by simp
  simp only [this, Res.bind_ok]
  exact expandedName_ns' _ _ rfl _ _

/-- the loop of `resolve_attributes` succeeds when every prefix is bound and the expanded names `K`
are pairwise different -/
theorem resolveAttrsLoop_ok' (txt : Bytes) (positions : Bool) (nss : Range) (startIdx : Nat)
    (ns : Namespaces) (K : TempAttr → Option Bytes × Bytes) :
    ∀ (l : List TempAttr) (doc : Doc), doc.ns = ns →
    (∀ a ∈ l, ∃ i, ∀ d : Doc, d.ns = ns → attrNsIdx txt d nss a = .ok i ∧
      Api.expandedName d i a.loc = .ok (K a)) →
    (∀ k, startIdx ≤ k → k < doc.attrs.size → ∃ e, Api.attrExpanded doc k = .ok e ∧ e ∉ l.map K) →
    (l.map K).Nodup →
    ∃ doc', resolveAttrsLoop txt positions nss startIdx l doc = .ok doc' ∧ doc'.nodes = doc.nodes ∧
      doc'.ns = doc.ns ∧
      ∃ new, doc'.attrs.toList = doc.attrs.toList ++ new ∧ new.length = l.length := by
  intro l
  induction l with
  | nil =>
    intro doc _ _ _ _
    exact ⟨doc, rfl, rfl, rfl, [], by simp, rfl⟩
  | cons a r ih =>
    intro doc hdoc hres hex hnd
    obtain ⟨i, hi⟩ := hres a (by simp)
    obtain ⟨hi1, hi2⟩ := hi doc hdoc
    simp only [resolveAttrsLoop, hi1, Res.bind_ok, hi2]
    have hany : ((List.range (doc.attrs.size - startIdx)).map (· + startIdx)).anyM (fun k => do
        let e ← Api.attrExpanded doc k
        pure (e == K a)) = .ok false := by
      apply RtB.anyM_false
      intro k hk
      simp only [List.mem_map, List.mem_range] at hk
      obtain ⟨j, hj, rfl⟩ := hk
      obtain ⟨e, he, hne⟩ := hex (j + startIdx) (by omega) (by omega)
      simp only [he, Res.bind_ok, Res.pure_eq]
      have : e ≠ K a := by
        intro h
        apply hne
        simp [h]
      simp [this]
    rw [hany]
    simp only [Res.bind_ok, Bool.false_eq_true, if_false]
    have hnd' : K a ∉ r.map K ∧ (r.map K).Nodup := List.nodup_cons.mp hnd
    generalize had : (if positions = true then
        ({ nsIdx := i, localName := a.loc, value := a.value, range := a.range,
           qnameLen := a.qnameLen, eqLen := a.eqLen } : AttrData)
      else { nsIdx := i, localName := a.loc, value := a.value, range := (0, 0),
             qnameLen := 0, eqLen := 0 }) = ad
    have hadn : ad.nsIdx = i ∧ ad.localName = a.loc := by
      rw [← had]; split <;> exact ⟨rfl, rfl⟩
    obtain ⟨doc', hd, hn, hns, new, hnew, hlen⟩ := ih
      { doc with attrs := doc.attrs.push ad } hdoc
      (fun x hx => hres x (by simp [hx]))
      (by
        intro k hk1 hk2
        simp only [Array.size_push] at hk2
        by_cases hk : k < doc.attrs.size
        · obtain ⟨e, he, hne⟩ := hex k hk1 hk
          refine ⟨e, by rw [attrExpanded_push_lt _ _ _ hk]; exact he, ?_⟩
          intro hm
          apply hne
          simp only [List.map_cons, List.mem_cons]
          exact Or.inr hm
        · have hk' : k = doc.attrs.size := by omega
          subst hk'
          refine ⟨K a, ?_, hnd'.1⟩
          rw [attrExpanded_push_eq, hadn.1, hadn.2]
          exact hi2)
      hnd'.2
    refine ⟨doc', hd, hn, hns, ad :: new, ?_, ?_⟩
    · rw [hnew]; simp
    · simp [hlen]

theorem resolveAttributes_ok' (txt : Bytes) (c : Ctx) (nss : Range)
    (K : TempAttr → Option Bytes × Bytes)
    (hres : ∀ a ∈ c.curAttrs, ∃ i, ∀ d : Doc, d.ns = c.doc.ns → attrNsIdx txt d nss a = .ok i ∧
      Api.expandedName d i a.loc = .ok (K a))
    (hnd : (c.curAttrs.map K).Nodup)
    (hlim : c.doc.attrs.size + c.curAttrs.length < 4294967295) :
    ∃ c' rg, resolveAttributes txt c nss = .ok (c', rg) ∧
      c' = { c with doc := c'.doc, curAttrs := [] } ∧ c'.doc.nodes = c.doc.nodes ∧
      c'.doc.ns = c.doc.ns ∧
      ∃ new, c'.doc.attrs.toList = c.doc.attrs.toList ++ new ∧ new.length = c.curAttrs.length := by
  unfold resolveAttributes
  cases hca : c.curAttrs with
  | nil =>
    refine ⟨c, (0, 0), by simp, ?_, rfl, rfl, [], by simp, by simp⟩
    cases c; simp_all
  | cons a r =>
    have hge : ¬ c.doc.attrs.size + (a :: r).length ≥ 4294967295 := by rw [hca] at hlim; omega
    simp only [List.isEmpty_cons, Bool.false_eq_true, if_false, hge]
    obtain ⟨doc', hd, hn, hns, new, hnew, hlen⟩ :=
      resolveAttrsLoop_ok' txt c.positions nss c.doc.attrs.size c.doc.ns K (a :: r) c.doc rfl
        (by rw [← hca]; exact hres) (by intro k h1 h2; omega) (by rw [← hca]; exact hnd)
    rw [hd]
    simp only [Res.bind_ok, Res.pure_eq]
    exact ⟨_, _, rfl, rfl, hn, hns, new, hnew, hlen⟩

/-! ### The parent's scope -/

/-- the range of the current parent and the abstract scope of the innermost open element answer
every prefix query alike -/
theorem parent_lookup (c : Ctx) (st : SStk) (h : NChain c.doc (st.map (·.2)) c.parentId)
    (p : Option Bytes) :
    lookup (scopeList c.doc (rangeList c.doc.ns (parentRange c))) p = lookup (topSc st) p := by
  cases st with
  | nil =>
    obtain ⟨nd, hn, hk⟩ := h
    have : parentRange c = (0, 0) := by
      unfold parentRange
      rw [hn]
      obtain ⟨a, b, c', d, k, r⟩ := nd
      simp only at hk
      subst hk
      rfl
    rw [this, rangeList_empty]
    rfl
  | cons top rest =>
    obtain ⟨qp, sc⟩ := top
    obtain ⟨nd, ns, tn, as, nss, q, hn, hk, hsr, _, _⟩ := h
    have : parentRange c = nss := by
      unfold parentRange
      rw [hn]
      obtain ⟨a, b, c', d, k, r⟩ := nd
      simp only at hk
      subst hk
      rfl
    rw [this]
    exact hsr.2.2 p

/-! ### `ElementEnd(Open|Empty)` -/

theorem prefixBound_find {d : Doc} {nss : Range} {sc : Scope} (hsr : ScopeRel d nss sc) {p : Bytes}
    (hb : prefixBound sc p = true) :
    p = Lit.xml ∨ p = [] ∨ (scopeFind d.ns (rangeList d.ns nss) (some p)).isSome = true := by
  unfold prefixBound at hb
  simp only [Bool.or_eq_true] at hb
  rcases hb with (he | hx) | hl
  · right; left; simpa using he
  · left; simpa using hx
  · right; right
    rw [← hsr.2.2, lookup_scopeList_isSome] at hl
    exact hl

theorem uriAt_values {d d' : Doc} (h : d'.ns.values = d.ns.values) (i : Option Nat) :
    uriAt d' i = uriAt d i := by
  unfold uriAt
  rw [h]

section
variable (T : Tables) (txt : Bytes)

/-- the end of a start tag -/
theorem cb_end_step (lower : Token → Ctx → Res Ctx) (e : Bool) (r : Range) (c : Ctx)
    (hb : BInv c) (ha : AInv txt c) (haft : c.afterText = []) (htag : c.tagName.name ≠ [])
    (hx0 : ∃ v, c.doc.ns.values[0]? = some v ∧ v.uri.bytes = nsXmlUri)
    (abs : List (Bytes × Bytes)) (psc : Scope)
    (hown : scopeList c.doc (c.doc.ns.treeOrder.toList.drop c.nsStartIdx) = declsOf abs)
    (hpar : ∀ p, lookup (scopeList c.doc (rangeList c.doc.ns (parentRange c))) p = lookup psc p)
    (hcur : (c.curAttrs.map fun a => (a.pfx.bytes, a.loc.bytes, a.value.bytes)) =
      (abs.filter fun a => !isNsDecl a.1).map fun a => ((qparts a.1).1, (qparts a.1).2, decodeAttr a.2))
    (hpt : prefixBound (scopeOf psc abs) c.tagName.pfx = true)
    (hpa : ((abs.filter fun a => !isNsDecl a.1).all
      fun a => prefixBound (scopeOf psc abs) (qparts a.1).1) = true)
    (hnd : ((abs.filter fun a => !isNsDecl a.1).map fun a =>
      (attrNs (scopeOf psc abs) a.1, (qparts a.1).2)).Nodup)
    (hN : c.doc.nodes.size < c.nodesLimit)
    (hA : c.doc.attrs.size + c.curAttrs.length < 4294967295) :
    ∃ c', tokenStep T txt lower (.elementEnd (if e then .empty else .open) r) c = .ok c' ∧
      (∃ nd tagNs as nss, c'.doc.nodes[c.doc.nodes.size]? = some nd ∧
        nd.kind = .element tagNs c.tagName.nameSpan as nss ∧ nd.parent = some c.parentId ∧
        ScopeRel c'.doc nss (scopeOf psc abs)) ∧
      c'.doc.nodes.size = c.doc.nodes.size + 1 ∧ SKeep c.doc.nodes c'.doc.nodes ∧
      MN.TExt c.doc c'.doc ∧ c'.doc.attrs.size = c.doc.attrs.size + c.curAttrs.length ∧
      c'.doc.ns.values = c.doc.ns.values ∧ c'.nodesLimit = c.nodesLimit ∧ c'.afterText = [] ∧
      c'.parentId = (if e then c.parentId else c.doc.nodes.size) ∧ c'.tagName = c.tagName := by
  generalize hsc : scopeOf psc abs = sc at *
  unfold tokenStep
  dsimp only
  generalize hcl : c.log (.token (.elementEnd (if e then .empty else .open) r)) = cl
  have hcld : cl.doc = c.doc := by rw [← hcl]; rfl
  have hclp : cl.parentId = c.parentId := by rw [← hcl]; rfl
  have hbl : BInv cl := by rw [← hcl]; exact hb.log _
  have hal : AInv txt cl := by rw [← hcl]; exact ha.log _
  rw [resetAfterText_nil cl (by rw [← hcl]; exact haft)]
  simp only [Res.bind_ok]
  -- resolve_namespaces
  obtain ⟨c1, nss, h1⟩ := resolveNamespaces_ok cl hbl.pid_lt hal.nsOk
  obtain ⟨hnsok1, hr1, hr2, _⟩ := (resolveNamespaces_safe cl hbl.pid_lt hal.nsOk).post _ h1
  dsimp only at hnsok1 hr1 hr2
  obtain ⟨hv1, more1, ht1⟩ := resolveNamespaces_ext _ _ _ h1
  have hscope := resolveNamespaces_scope cl c1 nss hbl.pid_lt hal.nsOk h1
  obtain ⟨ns1, hc1⟩ := gb_resolveNamespaces_sh h1
  have hns1 : c1.doc.ns = ns1 := by rw [hc1]
  have hsr1 : ScopeRel c1.doc nss sc := by
    refine ⟨hr1, hr2, ?_⟩
    intro p
    rw [lookup_scopeList, hscope p, uriAt_values hv1, ← scopeFind_append, ← lookup_scopeList,
      scopeList_append, lookup_append, rangeList_to_end]
    have e1 : cl.nsStartIdx = c.nsStartIdx := by rw [← hcl]; rfl
    have e2 : parentRange cl = parentRange c := by rw [← hcl]; rfl
    rw [e1, e2, hcld, hown, hpar p, ← hsc, lookup_scopeOf]
  have hx1 : ∃ v, c1.doc.ns.values[0]? = some v ∧ v.uri.bytes = nsXmlUri := by
    rw [hv1, hcld]; exact hx0
  have h01 : 0 < c1.doc.ns.values.size := by
    obtain ⟨v, hv, _⟩ := hx1
    exact (Array.getElem?_eq_some_iff.mp hv).1
  -- resolve_attributes
  have hcur1 : c1.curAttrs = c.curAttrs := by rw [hc1, ← hcl]; rfl
  have hattrs1 : c1.doc.attrs = c.doc.attrs := by rw [hc1, ← hcl]; rfl
  have hnodes1 : c1.doc.nodes = c.doc.nodes := by rw [hc1, ← hcl]; rfl
  obtain ⟨c2, attrs, h2, hc2, hn2, hns2, new, hnew, hlen⟩ := resolveAttributes_ok' txt
    { c1 with nsStartIdx := c1.doc.ns.treeOrder.size, xmlDeclared := false } nss
    (fun a => (attrNsP sc a.pfx.bytes, a.loc.bytes))
    (by
      intro a hm
      have hm' : a ∈ c.curAttrs := by rw [← hcur1]; exact hm
      have hbd : prefixBound sc a.pfx.bytes = true := by
        have : (a.pfx.bytes, a.loc.bytes, a.value.bytes) ∈
            c.curAttrs.map fun a => (a.pfx.bytes, a.loc.bytes, a.value.bytes) :=
          List.mem_map_of_mem hm'
        rw [hcur] at this
        obtain ⟨b, hb1, hb2⟩ := List.mem_map.mp this
        have := (List.all_eq_true.mp hpa) b hb1
        have hq : (qparts b.1).1 = a.pfx.bytes := (Prod.mk.inj hb2).1
        rw [← hq]
        exact this
      obtain ⟨i, hi1, hi2⟩ := attr_resolve txt c1.doc hnsok1.ns hx1 nss sc hsr1 a hbd
      refine ⟨i, ?_⟩
      intro d hd
      have hd' : d.ns = c1.doc.ns := hd
      rw [attrNsIdx_ns' txt d c1.doc hd', expandedName_ns' d c1.doc hd']
      exact ⟨hi1, hi2⟩)
    (by
      show (c1.curAttrs.map _).Nodup
      rw [hcur1]
      have : (c.curAttrs.map fun a => (attrNsP sc a.pfx.bytes, a.loc.bytes)) =
          (c.curAttrs.map fun a => (a.pfx.bytes, a.loc.bytes, a.value.bytes)).map
            fun t => (attrNsP sc t.1, t.2.1) := by
        rw [List.map_map]; rfl
      rw [this, hcur, List.map_map]
      exact hnd)
    (by
      show c1.doc.attrs.size + c1.curAttrs.length < 4294967295
      rw [hattrs1, hcur1]; exact hA)
  dsimp only at hn2 hns2 hnew hlen
  have hp2 : c2.parentId = c.parentId := by rw [hc2, hc1, ← hcl]; rfl
  have haw2 : c2.awaiting = c.awaiting := by rw [hc2, hc1, ← hcl]; rfl
  have htn2 : c2.tagName = c.tagName := by rw [hc2, hc1, ← hcl]; rfl
  have hlim2 : c2.nodesLimit = c.nodesLimit := by rw [hc2, hc1, ← hcl]; rfl
  have haft2 : c2.afterText = [] := by
    have : c2.afterText = c.afterText := by rw [hc2, hc1, ← hcl]; rfl
    rw [this]; exact haft
  have hb2 : BInv c2 := hb.congr (hn2.trans hnodes1) hp2 haw2
  have hsr2 : ScopeRel c2.doc nss sc := scopeRel_ns hns2 hsr1
  have hne : c.tagName.name.isEmpty = false := by
    cases h : c.tagName.name with
    | nil => exact absurd h htag
    | cons _ _ => rfl
  have hne' : cl.tagName.name.isEmpty = false := by rw [← hcl]; exact hne
  -- the tag name, the new node
  obtain ⟨tagNs, h3⟩ := getNsIdxByPrefix_ok txt c2.doc (by rw [hns2]; exact hnsok1.ns)
    (by rw [hns2]; exact h01) nss ⟨hsr2.1, hsr2.2.1⟩ c2.tagName.prefixPos c2.tagName.pfx
    (prefixBound_find hsr2 (by rw [htn2]; exact hpt))
  have hsz2 : c2.doc.nodes.size = c.doc.nodes.size := by rw [hn2, hnodes1]
  obtain ⟨c3, h4⟩ := RtB.appendNode_ok c2 (.element tagNs c2.tagName.nameSpan attrs nss)
    (c2.tagName.pos, r.2) hb2 (by rw [hlim2]; exact ha.lim) (by rw [hsz2, hlim2]; exact hN)
  have hc3 := (appendNode_safe c2 _ _ hb2 (by rw [hlim2]; exact ha.lim)).post _ h4
  dsimp only at hc3
  obtain ⟨_, hsz3, _⟩ := appendNode_spec c2 c3 _ _ _ hb2.pid_lt hb2.awaiting_lt h4
  obtain ⟨hfr3, _, nd, hnd1, hnd2, hnd3⟩ := appendNode_sfr (txt := txt) hb2 h4
  have hns3 : c3.doc.ns = c2.doc.ns := by rw [hc3]
  have hat3 : c3.doc.attrs = c2.doc.attrs := by rw [hc3]
  have hlim3 : c3.nodesLimit = c2.nodesLimit := by rw [hc3]
  have haft3 : c3.afterText = c2.afterText := by rw [hc3]
  have htn3 : c3.tagName = c2.tagName := by rw [hc3]
  have hp3 : c3.parentId = c2.parentId := by rw [hc3]
  have hfacts : (∃ nd tagNs as nss, c3.doc.nodes[c.doc.nodes.size]? = some nd ∧
        nd.kind = .element tagNs c.tagName.nameSpan as nss ∧ nd.parent = some c.parentId ∧
        ScopeRel c3.doc nss sc) ∧
      c3.doc.nodes.size = c.doc.nodes.size + 1 ∧ SKeep c.doc.nodes c3.doc.nodes ∧
      MN.TExt c.doc c3.doc ∧ c3.doc.attrs.size = c.doc.attrs.size + c.curAttrs.length ∧
      c3.doc.ns.values = c.doc.ns.values ∧ c3.nodesLimit = c.nodesLimit ∧ c3.afterText = [] ∧
      c3.tagName = c.tagName := by
    have hvals : c3.doc.ns.values = c.doc.ns.values := by
      rw [hns3, hns2]; exact hv1.trans (by rw [hcld])
    have hattl : c3.doc.attrs.toList = c.doc.attrs.toList ++ new := by
      rw [hat3, hnew, hattrs1]
    refine ⟨⟨nd, tagNs, attrs, nss, by rw [← hsz2]; exact hnd1, by rw [hnd3, htn2],
      by rw [hnd2, hp2], scopeRel_ns (hns3) hsr2⟩, by rw [hsz3, hsz2], ?_, ⟨?_, ?_, ⟨new, hattl⟩⟩,
      ?_, hvals, hlim3.trans hlim2, haft3.trans haft2, htn3.trans htn2⟩
    · have := hfr3.keep
      rw [hn2, hnodes1] at this
      exact this
    · intro k _
      rw [hvals]
    · refine ⟨more1, ?_⟩
      rw [hns3, hns2, ht1, hcld]
    · have := congrArg List.length hattl
      simp only [Array.length_toList, List.length_append] at this
      rw [this, hlen]
      show _ + c1.curAttrs.length = _
      rw [hcur1]
  obtain ⟨f1, f2, f3, f4, f5, f6, f7, f8, f9⟩ := hfacts
  unfold processElement
  simp only [hne', Bool.false_eq_true, if_false, h1, Res.bind_ok, h2]
  cases e with
  | true =>
    simp only [if_true, h3, Res.bind_ok, h4, Res.pure_eq]
    refine ⟨_, rfl, f1, f2, f3, f4, f5, f6, f7, f8, ?_, f9⟩
    exact hp3.trans hp2
  | false =>
    simp only [Bool.false_eq_true, if_false, h3, Res.bind_ok, h4, Res.pure_eq]
    refine ⟨_, rfl, f1, f2, f3, f4, f5, f6, f7, f8, ?_, f9⟩
    exact hsz2

end

end Rox.Lemmas.CB
