/-
  Rox.Lemmas.Children — the `Children` iterator refines a deque over the parent's child list.
-/
import Rox.Lemmas.Nav

namespace Rox.Lemmas
open Rox Rox.Spec Rox.Api

/-- children of `p` with ids in `[lo, hi]`, in document order -/
def kidsIn (a : Arena) (p lo hi : Nat) : List Nat :=
  (List.range' lo (hi + 1 - lo)).filter fun j => par a j == some p

theorem kidsIn_empty (a : Arena) (p lo hi : Nat) (h : hi < lo) : kidsIn a p lo hi = [] := by
  unfold kidsIn
  have : hi + 1 - lo = 0 := by omega
  rw [this]; rfl

theorem kidsIn_cons (a : Arena) (p f b : Nat) (hfb : f ≤ b) (hp : par a f = some p) :
    kidsIn a p f b = f :: kidsIn a p (f + 1) b := by
  unfold kidsIn
  have : b + 1 - f = (b + 1 - (f + 1)) + 1 := by omega
  rw [this, List.range'_succ, List.filter_cons]
  simp [hp]

theorem kidsIn_skip (a : Arena) (p f f' b : Nat) (hff : f ≤ f') (hfb : f' ≤ b + 1)
    (hnone : ∀ k, f ≤ k → k < f' → (par a k == some p) = false) :
    kidsIn a p f b = kidsIn a p f' b := by
  induction hd : f' - f generalizing f with
  | zero =>
    have : f = f' := by omega
    subst this; rfl
  | succ n ih =>
    have hlt : f < f' := by omega
    unfold kidsIn
    have : b + 1 - f = (b + 1 - (f + 1)) + 1 := by omega
    rw [this, List.range'_succ, List.filter_cons]
    simp only [hnone f (Nat.le_refl _) hlt, Bool.false_eq_true, if_false]
    have := ih (f + 1) (by omega) (fun k hk1 hk2 => hnone k (by omega) hk2) (by omega)
    unfold kidsIn at this
    exact this

theorem kidsIn_snoc (a : Arena) (p f b : Nat) (hfb : f ≤ b) (hp : par a b = some p) :
    kidsIn a p f b = kidsIn a p f (b - 1) ++ [b] ∨ (f = b ∧ kidsIn a p f b = [b]) := by
  by_cases hlt : f < b
  · left
    unfold kidsIn
    have h1 : b + 1 - f = (b - 1 + 1 - f) + 1 := by omega
    rw [h1, List.range'_concat, List.filter_append]
    have : f + (b - 1 + 1 - f) = b := by omega
    simp [this, hp]
  · right
    have : f = b := by omega
    subst this
    refine ⟨rfl, ?_⟩
    rw [kidsIn_cons a p f f (Nat.le_refl _) hp, kidsIn_empty a p (f + 1) f (by omega)]

theorem kidsIn_shrink (a : Arena) (p f b b' : Nat) (hbb : b' ≤ b)
    (hnone : ∀ k, b' < k → k ≤ b → (par a k == some p) = false) :
    kidsIn a p f b = kidsIn a p f b' := by
  induction hd : b - b' generalizing b with
  | zero =>
    have : b = b' := by omega
    subst this; rfl
  | succ n ih =>
    have hlt : b' < b := by omega
    by_cases hfb : f ≤ b
    · have step : kidsIn a p f b = kidsIn a p f (b - 1) := by
        unfold kidsIn
        have h1 : b + 1 - f = (b - 1 + 1 - f) + 1 := by omega
        rw [h1, List.range'_concat, List.filter_append]
        have : f + (b - 1 + 1 - f) = b := by omega
        have hb := hnone b hlt (Nat.le_refl _)
        simp only [Nat.one_mul, this, List.filter_cons, hb, Bool.false_eq_true, if_false, List.filter_nil,
          List.append_nil]
      rw [step]
      exact ih (b - 1) (by omega) (fun k hk1 hk2 => hnone k hk1 (by omega)) (by omega)
    · rw [kidsIn_empty a p f b (by omega), kidsIn_empty a p f b' (by omega)]

/-- The states the iterator can be in: both cursors on children of `p`, front not after back; or
exhausted. -/
inductive Reach (a : Arena) (p : Nat) : ChildrenIt → Prop where
  | live (f b : Nat) (hf : par a f = some p) (hb : par a b = some p) (hfb : f ≤ b) (hbn : b < a.size) :
      Reach a p ⟨some f, some b⟩
  | done : Reach a p ⟨none, none⟩

/-- What the iterator still has to yield. -/
def absIt (a : Arena) (p : Nat) : ChildrenIt → List Nat
  | ⟨some f, some b⟩ => kidsIn a p f b
  | _ => []

/-- **Deque refinement, front**: `next` yields the head of what remains and leaves the tail. -/
theorem children_next (d : Doc) (h : LinkWF d.nodes) (p : Nat) (it : ChildrenIt)
    (hr : Reach d.nodes p it) :
    ∃ it', it.next d = .ok ((absIt d.nodes p it).head?, it') ∧ Reach d.nodes p it' ∧
      absIt d.nodes p it' = (absIt d.nodes p it).tail := by
  cases hr with
  | done => exact ⟨⟨none, none⟩, by simp [ChildrenIt.next, absIt], Reach.done, by simp [absIt]⟩
  | live f b hf hb hfb hbn =>
    have hcons := kidsIn_cons d.nodes p f b hfb hf
    by_cases heq : f = b
    · subst heq
      refine ⟨⟨none, none⟩, ?_, Reach.done, ?_⟩
      · simp [ChildrenIt.next, absIt, hcons]
      · simp [absIt, hcons, kidsIn_empty d.nodes p (f + 1) f (by omega)]
    · have hlt : f < b := by omega
      have hne : (some f == some b) = false := by simpa using heq
      -- the next sibling of f exists and is at most b
      have hspec := nextSibling_spec d h f (by omega)
      have hex : ∃ f', nextSibSpec d.nodes f = some f' := by
        cases hs : nextSibSpec d.nodes f with
        | some f' => exact ⟨f', rfl⟩
        | none =>
          exfalso
          unfold nextSibSpec at hs
          rw [find_range'_none] at hs
          have := hs b (by omega) (by omega)
          rw [hf, hb] at this; simp at this
      obtain ⟨f', hf'⟩ := hex
      have hf'' := hf'
      unfold nextSibSpec at hf''
      rw [find_range'_some] at hf''
      obtain ⟨g1, g2, g3, g4⟩ := hf''
      have hpf' : par d.nodes f' = some p := by rw [hf] at g3; simpa using g3
      have hf'b : f' ≤ b := by
        by_cases hc : f' ≤ b
        · exact hc
        · have := g4 b (by omega) (by omega)
          rw [hf, hb] at this; simp at this
      refine ⟨⟨some f', some b⟩, ?_, Reach.live f' b hpf' hb hf'b hbn, ?_⟩
      · simp only [ChildrenIt.next, hne, Bool.false_eq_true, if_false, hspec, hf', Res.bind_ok, pure,
          Res.pure_eq, absIt, hcons, List.head?_cons]
      · simp only [absIt, hcons, List.tail_cons]
        symm
        apply kidsIn_skip d.nodes p (f + 1) f' b g1 (by omega)
        intro k hk1 hk2
        have := g4 k hk1 hk2
        rw [hf] at this; exact this

/-- **Deque refinement, back**: `next_back` yields the last element of what remains and leaves
the rest. -/
theorem children_nextBack (d : Doc) (h : LinkWF d.nodes) (p : Nat) (it : ChildrenIt)
    (hr : Reach d.nodes p it) :
    ∃ it', it.nextBack d = .ok ((absIt d.nodes p it).getLast?, it') ∧ Reach d.nodes p it' ∧
      absIt d.nodes p it' = (absIt d.nodes p it).dropLast := by
  cases hr with
  | done => exact ⟨⟨none, none⟩, by simp [ChildrenIt.nextBack, absIt], Reach.done, by simp [absIt]⟩
  | live f b hf hb hfb hbn =>
    by_cases heq : f = b
    · subst heq
      have hcons := kidsIn_cons d.nodes p f f (Nat.le_refl _) hf
      have he := kidsIn_empty d.nodes p (f + 1) f (by omega)
      refine ⟨⟨none, none⟩, ?_, Reach.done, ?_⟩
      · simp [ChildrenIt.nextBack, absIt, hcons, he]
      · simp [absIt, hcons, he]
    · have hlt : f < b := by omega
      have hne : (some b == some f) = false := by simp; omega
      rcases kidsIn_snoc d.nodes p f b hfb hb with hsn | ⟨hfe, _⟩
      · -- previous sibling of b: the greatest node before b with parent p; it is ≥ f
        have hb0 : b ≠ 0 := by omega
        have hprev := h.prev b hbn
        simp only [hb0, if_false] at hprev
        have hex : ∃ b', prevSibSpec d.nodes b = some b' := by
          cases hs : prevSibSpec d.nodes b with
          | some b' => exact ⟨b', rfl⟩
          | none =>
            exfalso
            unfold prevSibSpec at hs
            rw [find_rev_range_none] at hs
            have := hs f hlt
            rw [hf, hb] at this; simp at this
        obtain ⟨b', hb'⟩ := hex
        have hb'' := hb'
        unfold prevSibSpec at hb''
        rw [find_rev_range_some] at hb''
        obtain ⟨g1, g2, g3⟩ := hb''
        have hpb' : par d.nodes b' = some p := by rw [hb] at g2; simpa using g2
        have hfb' : f ≤ b' := by
          by_cases hc : f ≤ b'
          · exact hc
          · have := g3 f (by omega) hlt
            rw [hf, hb] at this; simp at this
        have hps : prevSibling d b = .ok (some b') := by
          unfold prevSibling getNodeUnwrap follow
          have hn : d.nodes[b]? = some d.nodes[b] := by simp [hbn]
          have : d.nodes[b].prevSibling = some b' := by
            have := hprev; rw [hb'] at this
            simpa [Spec.prevSib, hbn] using this
          simp only [hn, Res.bind_ok, this]
          have : b' < d.nodes.size := by omega
          simp [this]
        refine ⟨⟨some f, some b'⟩, ?_, Reach.live f b' hf hpb' hfb' (by omega), ?_⟩
        · simp only [ChildrenIt.nextBack, hne, Bool.false_eq_true, if_false, hps, Res.bind_ok, pure,
            Res.pure_eq, absIt, hsn]
          simp
        · simp only [absIt, hsn, List.dropLast_concat]
          symm
          apply kidsIn_shrink d.nodes p f (b - 1) b' (by omega)
          intro k hk1 hk2
          have := g3 k hk1 (by omega)
          rw [hb] at this; exact this
      · omega

/-- If a node has children, the node right after it is its first child, and the stored
`last_child` is its last child. -/
theorem first_child_is_next {a : Arena} (h : LinkWF a) (i l : Nat) (hi : i < a.size)
    (hl : lastCh a i = some l) :
    par a (i + 1) = some i ∧ i + 1 ≤ l ∧ l < a.size ∧ par a l = some i ∧
    ∀ k, l < k → k < a.size → (par a k == some i) = false := by
  have hPL := h.parentLt
  rw [h.last i hi] at hl
  unfold lastChildSpec at hl
  rw [find_rev_range_some] at hl
  obtain ⟨h1, h2, h3⟩ := hl
  have hpl : par a l = some i := by simpa using h2
  have hil : i < l := hPL l i hpl
  have hanc : Anc a i l := (anc_step a hPL i l i hpl).mpr (Or.inr (anc_refl _ _))
  have hanc1 : Anc a i (i + 1) := anc_between a hPL h.preorder' h.hasParent l i h1 hanc (i + 1) (by omega) (by omega)
  obtain ⟨q, hq, hql, _⟩ := h.parent_lt (i + 1) (by omega) (by omega)
  rw [anc_step a hPL i (i + 1) q hq] at hanc1
  rcases hanc1 with hx | hx
  · omega
  · have := anc_le a hPL q i hx
    have : q = i := by omega
    subst this
    exact ⟨hq, by omega, h1, hpl, h3⟩

/-- `children()` starts in a reachable state whose remaining sequence is the complete child list
of the node, in document order. -/
theorem children_init (d : Doc) (h : LinkWF d.nodes) (hsmall : d.nodes.size ≤ 4294967295)
    (i : Nat) (hi : i < d.nodes.size) :
    ∃ it, children d i = .ok it ∧ Reach d.nodes i it ∧
      absIt d.nodes i it = kidsIn d.nodes i 0 (d.nodes.size - 1) := by
  have hn : d.nodes[i]? = some d.nodes[i] := by simp [hi]
  have hPL := h.parentLt
  have hbefore : ∀ k, k ≤ i → (par d.nodes k == some i) = false := by
    intro k hk
    cases hp : par d.nodes k with
    | none => simp
    | some q => have := hPL k q hp; simp; omega
  cases hl : d.nodes[i].lastChild with
  | none =>
    refine ⟨⟨none, none⟩, ?_, Reach.done, ?_⟩
    · simp [children, firstChild, lastChild, getNodeUnwrap, hn, hl, follow]
    · -- no child at all
      have hlc : lastCh d.nodes i = none := by simp [Spec.lastCh, hi, hl]
      rw [h.last i hi] at hlc
      unfold lastChildSpec at hlc
      rw [find_rev_range_none] at hlc
      simp only [absIt]
      symm
      unfold kidsIn
      rw [List.filter_eq_nil_iff]
      intro k hk
      rw [List.mem_range'] at hk
      obtain ⟨m, hm, rfl⟩ := hk
      have := hlc (0 + 1 * m) (by omega)
      simpa using this
  | some l =>
    have hlc : lastCh d.nodes i = some l := by simp [Spec.lastCh, hi, hl]
    obtain ⟨hp1, h1l, hll, hpl, hafter⟩ := first_child_is_next h i l hi hlc
    refine ⟨⟨some (i + 1), some l⟩, ?_, Reach.live (i + 1) l hp1 hpl h1l hll, ?_⟩
    · have h2 : i + 1 < 4294967295 := by omega
      have h3 : i + 1 < d.nodes.size := by omega
      simp [children, firstChild, lastChild, getNodeUnwrap, hn, hl, follow, nodeIdNew, h2, h3, hll]
    · simp only [absIt]
      rw [kidsIn_skip d.nodes i 0 (i + 1) (d.nodes.size - 1) (by omega) (by omega)
            (fun k _ hk2 => hbefore k (by omega))]
      symm
      apply kidsIn_shrink d.nodes i (i + 1) (d.nodes.size - 1) l (by omega)
      intro k hk1 hk2
      exact hafter k hk1 (by omega)

end Rox.Lemmas
