/-
  Rox.Lemmas.GrammarUtf8 — helper facts for `Rox.Lemmas.GrammarPrim`: what `decodeChar` read is the
  `encodeChar` of the character it returns; the bytes of encoded characters; `enc`; substring
  freedom (`containsSub`); `List.span`.
-/
import Rox.Lemmas.GrammarTM
import Rox.Lemmas.Shape

namespace Rox.Lemmas
open Rox Rox.Spec.Grammar

/-! ### UTF-8 -/

theorem gp_lt_nat (b : UInt8) (k : UInt8) (kn : Nat) (hk : k.toNat = kn) : b < k ↔ b.toNat < kn := by
  rw [UInt8.lt_iff_toNat_lt, hk]

theorem gp_isCont_nat (b : UInt8) (h : isCont b = true) : 128 ≤ b.toNat ∧ b.toNat < 192 := by
  unfold isCont at h
  simp only [Bool.and_eq_true, decide_eq_true_eq] at h
  obtain ⟨h1, h2⟩ := h
  rw [UInt8.le_iff_toNat_le] at h1
  rw [UInt8.lt_iff_toNat_lt] at h2
  exact ⟨h1, h2⟩

theorem gp_ofNat_eq (b : UInt8) (n : Nat) (h : b.toNat = n) : UInt8.ofNat n = b := by
  subst h; exact UInt8.ofNat_toNat

/-- (0) what `decodeChar` read is the encoding of the character it returns -/
theorem gp_take_encode (l : Bytes) (c w : Nat) (h : decodeChar l = some (c, w))
    (hok : charOk c w = true) : l.take w = encodeChar c := by
  unfold charOk isScalar at hok
  simp only [Bool.and_eq_true, Bool.or_eq_true, beq_iff_eq, decide_eq_true_eq] at hok
  unfold decodeChar at h
  split at h
  · simp at h
  · rename_i b0 r
    split at h
    · rename_i h0
      rw [gp_lt_nat b0 _ 128 rfl] at h0
      simp only [Option.some.injEq, Prod.mk.injEq] at h
      obtain ⟨rfl, rfl⟩ := h
      unfold encodeChar
      simp only [h0, if_true, List.take_succ_cons, List.take_zero]
      rw [gp_ofNat_eq b0 _ rfl]
    · rename_i h0
      rw [gp_lt_nat b0 _ 128 rfl] at h0
      split at h
      · simp at h
      · rename_i h1
        rw [gp_lt_nat b0 _ 192 rfl] at h1
        split at h
        · rename_i h2
          rw [gp_lt_nat b0 _ 224 rfl] at h2
          split at h
          · rename_i b1 r1
            split at h
            · rename_i hc1
              have := gp_isCont_nat b1 hc1
              simp only [Option.some.injEq, Prod.mk.injEq] at h
              obtain ⟨rfl, rfl⟩ := h
              unfold encodeChar
              rw [if_neg (by omega), if_pos (by omega)]
              simp only [List.take_succ_cons, List.take_zero]
              rw [gp_ofNat_eq b0 _ (by omega), gp_ofNat_eq b1 _ (by omega)]
            · simp at h
          · simp at h
        · rename_i h2
          rw [gp_lt_nat b0 _ 224 rfl] at h2
          split at h
          · rename_i h3
            rw [gp_lt_nat b0 _ 240 rfl] at h3
            split at h
            · rename_i b1 b2 r2
              split at h
              · rename_i hc
                simp only [Bool.and_eq_true] at hc
                have c1 := gp_isCont_nat b1 hc.1
                have c2 := gp_isCont_nat b2 hc.2
                simp only [Option.some.injEq, Prod.mk.injEq] at h
                obtain ⟨rfl, rfl⟩ := h
                unfold encodeChar
                rw [if_neg (by omega), if_neg (by omega), if_pos (by omega)]
                simp only [List.take_succ_cons, List.take_zero]
                rw [gp_ofNat_eq b0 _ (by omega), gp_ofNat_eq b1 _ (by omega), gp_ofNat_eq b2 _ (by omega)]
              · simp at h
            · simp at h
          · rename_i h3
            rw [gp_lt_nat b0 _ 240 rfl] at h3
            split at h
            · rename_i h4
              rw [gp_lt_nat b0 _ 248 rfl] at h4
              split at h
              · rename_i b1 b2 b3 r3
                split at h
                · rename_i hc
                  simp only [Bool.and_eq_true] at hc
                  have c1 := gp_isCont_nat b1 hc.1.1
                  have c2 := gp_isCont_nat b2 hc.1.2
                  have c3 := gp_isCont_nat b3 hc.2
                  simp only [Option.some.injEq, Prod.mk.injEq] at h
                  obtain ⟨rfl, rfl⟩ := h
                  unfold encodeChar
                  rw [if_neg (by omega), if_neg (by omega), if_neg (by omega)]
                  simp only [List.take_succ_cons, List.take_zero]
                  rw [gp_ofNat_eq b0 _ (by omega), gp_ofNat_eq b1 _ (by omega), gp_ofNat_eq b2 _ (by omega),
                    gp_ofNat_eq b3 _ (by omega)]
                · simp at h
              · simp at h
            · simp at h

theorem gp_charOk_lt (c w : Nat) (hok : charOk c w = true) : c < 0x110000 := by
  unfold charOk isScalar at hok
  simp only [Bool.and_eq_true, Bool.or_eq_true, decide_eq_true_eq] at hok
  omega

theorem gp_encode_ascii (c : Nat) (h : c < 128) : encodeChar c = [UInt8.ofNat c] := by
  unfold encodeChar
  rw [if_pos (by omega)]

theorem gp_encode_byte (b : UInt8) (h : b < 128) : encodeChar b.toNat = [b] := by
  rw [gp_lt_nat b _ 128 rfl] at h
  rw [gp_encode_ascii _ h, gp_ofNat_eq b _ rfl]

/-- the bytes of a non-ASCII character are not ASCII -/
theorem gp_encode_hi (c : Nat) (h1 : 128 ≤ c) (h2 : c < 0x110000) :
    ∀ b ∈ encodeChar c, ¬ b < 128 := by
  intro b hb
  rw [gp_lt_nat b _ 128 rfl]
  unfold encodeChar at hb
  rw [if_neg (by omega)] at hb
  split at hb
  · simp only [List.mem_cons, List.not_mem_nil, or_false] at hb
    rcases hb with rfl | rfl
    · rw [ofNat_toNat _ (by omega)]; omega
    · rw [ofNat_toNat _ (by omega)]; omega
  · split at hb
    · simp only [List.mem_cons, List.not_mem_nil, or_false] at hb
      rcases hb with rfl | rfl | rfl
      · rw [ofNat_toNat _ (by omega)]; omega
      · rw [ofNat_toNat _ (by omega)]; omega
      · rw [ofNat_toNat _ (by omega)]; omega
    · simp only [List.mem_cons, List.not_mem_nil, or_false] at hb
      rcases hb with rfl | rfl | rfl | rfl
      · rw [ofNat_toNat _ (by omega)]; omega
      · rw [ofNat_toNat _ (by omega)]; omega
      · rw [ofNat_toNat _ (by omega)]; omega
      · rw [ofNat_toNat _ (by omega)]; omega

theorem gp_encode_ne_nil (c : Nat) : encodeChar c ≠ [] := by
  intro h
  have := encodeChar_length c
  rw [h] at this
  unfold charLen at this
  simp only [List.length_nil] at this
  split at this
  · omega
  · split at this
    · omega
    · split at this <;> omega

/-- an encoded character that begins with an ASCII byte is that byte -/
theorem gp_encode_head_ascii (c : Nat) (hc : c < 0x110000) (b : UInt8) (r : Bytes)
    (he : encodeChar c = b :: r) (hb : b < 128) : c = b.toNat ∧ r = [] := by
  by_cases h : c < 128
  · rw [gp_encode_ascii c h] at he
    simp only [List.cons.injEq] at he
    obtain ⟨rfl, rfl⟩ := he
    exact ⟨(ofNat_toNat c (by omega)).symm, rfl⟩
  · exact absurd hb (gp_encode_hi c (by omega) hc b (by rw [he]; simp))

/-- an ASCII byte does not occur in the encoding of another character -/
theorem gp_encode_avoid (c : Nat) (hc : c < 0x110000) (k : UInt8) (hk : k < 128) (hne : c ≠ k.toNat) :
    k ∉ encodeChar c := by
  intro hmem
  by_cases h : c < 128
  · rw [gp_encode_ascii c h] at hmem
    simp only [List.mem_cons, List.not_mem_nil, or_false] at hmem
    subst hmem
    exact hne (ofNat_toNat c (by omega)).symm
  · exact gp_encode_hi c (by omega) hc k hmem hk

/-- one character of a valid string -/
theorem gp_valid_step (l : Bytes) (hv : ValidUtf8 l) (hne : l ≠ []) :
    ∃ c w, decodeChar l = some (c, w) ∧ charOk c w = true ∧ ValidUtf8 (l.drop w) ∧
      l.take w = encodeChar c ∧ 1 ≤ w ∧ w ≤ l.length := by
  cases l with
  | nil => exact absurd rfl hne
  | cons b r =>
    obtain ⟨c, w, hd, hok, hrest⟩ := (valid_cons b r).mp hv
    have hw := decodeChar_width _ _ _ hd
    exact ⟨c, w, hd, hok, hrest, gp_take_encode _ c w hd hok, hw.1, hw.2.2⟩

/-- the facts about a decoded character of a valid string, from `decodeChar` alone -/
theorem gp_decode_facts (l : Bytes) (hv : ValidUtf8 l) (c w : Nat) (hd : decodeChar l = some (c, w)) :
    charOk c w = true ∧ ValidUtf8 (l.drop w) ∧ l.take w = encodeChar c ∧ 1 ≤ w ∧ w ≤ l.length ∧
      c < 0x110000 := by
  have hne : l ≠ [] := by
    intro h; rw [h] at hd; simp [decodeChar] at hd
  obtain ⟨c', w', hd', hok, hrest, htk, h1, h2⟩ := gp_valid_step l hv hne
  rw [hd] at hd'
  simp only [Option.some.injEq, Prod.mk.injEq] at hd'
  obtain ⟨rfl, rfl⟩ := hd'
  exact ⟨hok, hrest, htk, h1, h2, gp_charOk_lt _ _ hok⟩

/-- a decoded character of a valid string that is ASCII is one byte -/
theorem gp_decode_ascii_inv (l : Bytes) (hv : ValidUtf8 l) (c w : Nat) (hd : decodeChar l = some (c, w))
    (hc : c < 128) : ∃ r, l = UInt8.ofNat c :: r ∧ w = 1 := by
  obtain ⟨_, _, htk, h1, h2, _⟩ := gp_decode_facts l hv c w hd
  rw [gp_encode_ascii c hc] at htk
  have hlen := congrArg List.length htk
  simp only [List.length_take, List.length_cons, List.length_nil] at hlen
  have hw : w = 1 := by omega
  subst hw
  cases l with
  | nil => simp at h2
  | cons b r =>
    simp only [List.take_succ_cons, List.take_zero, List.cons.injEq, and_true] at htk
    exact ⟨r, by rw [htk], rfl⟩

/-- a decoded character whose first byte is not ASCII is not ASCII -/
theorem gp_decode_hi (b : UInt8) (r : Bytes) (hv : ValidUtf8 (b :: r)) (c w : Nat)
    (hd : decodeChar (b :: r) = some (c, w)) (hb : ¬ b < 128) : 128 ≤ c := by
  apply Nat.le_of_not_lt
  intro hc
  obtain ⟨r', he, _⟩ := gp_decode_ascii_inv _ hv c w hd hc
  simp only [List.cons.injEq] at he
  apply hb
  rw [he.1, gp_lt_nat _ _ 128 rfl, ofNat_toNat c (by omega)]
  exact hc

/-! ### `enc` -/

theorem gp_enc_nil : enc [] = [] := rfl

theorem gp_enc_cons (c : Nat) (cs : List Nat) : enc (c :: cs) = encodeChar c ++ enc cs := by
  unfold enc; exact List.flatMap_cons

theorem gp_enc_append (a b : List Nat) : enc (a ++ b) = enc a ++ enc b := by
  unfold enc; exact List.flatMap_append

theorem gp_enc_colon : encodeChar 58 = [bColon] := by decide

theorem gp_enc_eq_nil (cs : List Nat) (h : enc cs = []) : cs = [] := by
  cases cs with
  | nil => rfl
  | cons c cs =>
    rw [gp_enc_cons] at h
    exact absurd (List.append_eq_nil_iff.mp h).1 (gp_encode_ne_nil c)

/-- an ASCII byte does not occur in the encoding of characters different from it -/
theorem gp_enc_avoid (k : UInt8) (hk : k < 128) :
    ∀ cs : List Nat, (∀ c ∈ cs, c < 0x110000 ∧ c ≠ k.toNat) → k ∉ enc cs := by
  intro cs
  induction cs with
  | nil => intro _ h; cases h
  | cons c cs ih =>
    intro h hmem
    rw [gp_enc_cons, List.mem_append] at hmem
    rcases hmem with hm | hm
    · exact gp_encode_avoid c (h c (by simp)).1 k hk (h c (by simp)).2 hm
    · exact ih (fun d hd => h d (by simp [hd])) hm

/-! ### Substrings -/

/-- `n` does not occur in `a ++ x` at a position inside `a` -/
def gp_Free (n x : Bytes) : Bytes → Prop
  | [] => True
  | b :: r => n.isPrefixOf (b :: r ++ x) = false ∧ gp_Free n x r

theorem gp_free_append (n x : Bytes) : ∀ a b : Bytes, gp_Free n (b ++ x) a → gp_Free n x b →
    gp_Free n x (a ++ b) := by
  intro a
  induction a with
  | nil => intro b _ hb; exact hb
  | cons y a ih =>
    intro b ha hb
    obtain ⟨h1, h2⟩ := ha
    refine ⟨?_, ih b h2 hb⟩
    have e : (y :: (a ++ b)) ++ x = (y :: a) ++ (b ++ x) := by simp
    show n.isPrefixOf ((y :: (a ++ b)) ++ x) = false
    rw [e]; exact h1

theorem gp_isPrefixOf_append (n a x : Bytes) (h : n.isPrefixOf a = true) : n.isPrefixOf (a ++ x) = true := by
  rw [List.isPrefixOf_iff_prefix] at h ⊢
  exact List.IsPrefix.trans h (List.prefix_append a x)

theorem gp_free_containsSub (k : UInt8) (lit' x : Bytes) : ∀ a : Bytes, gp_Free (k :: lit') x a →
    containsSub a (k :: lit') = false := by
  intro a
  induction a with
  | nil => intro _; rfl
  | cons b r ih =>
    intro h
    obtain ⟨h1, h2⟩ := h
    unfold containsSub
    rw [ih h2, Bool.or_false]
    cases hp : (k :: lit').isPrefixOf (b :: r) with
    | false => rfl
    | true =>
      have := gp_isPrefixOf_append _ _ x hp
      rw [this] at h1; cases h1

/-- bytes different from the first byte of the needle start no match -/
theorem gp_free_of_ne (k : UInt8) (lit' x : Bytes) : ∀ a : Bytes, (∀ b ∈ a, b ≠ k) →
    gp_Free (k :: lit') x a := by
  intro a
  induction a with
  | nil => intro _; trivial
  | cons b r ih =>
    intro h
    refine ⟨?_, ih (fun y hy => h y (by simp [hy]))⟩
    have hb : b ≠ k := h b (by simp)
    simp only [List.cons_append, List.isPrefixOf_cons_cons, Bool.and_eq_false_iff, beq_eq_false_iff_ne]
    left; exact fun e => hb e.symm

/-- the bytes of one encoded character start no match of a needle that begins with an ASCII byte,
unless the character is that byte and the needle follows -/
theorem gp_free_encode (k : UInt8) (hk : k < 128) (lit' x : Bytes) (c : Nat) (hc : c < 0x110000)
    (h : ¬ (c = k.toNat ∧ (k :: lit').isPrefixOf (encodeChar c ++ x) = true)) :
    gp_Free (k :: lit') x (encodeChar c) := by
  by_cases hck : c = k.toNat
  · subst hck
    rw [gp_encode_byte k hk] at h ⊢
    refine ⟨?_, trivial⟩
    cases hp : (k :: lit').isPrefixOf ([k] ++ x) with
    | false => rfl
    | true => exact absurd ⟨rfl, hp⟩ h
  · exact gp_free_of_ne k lit' x _ (fun b hb e => gp_encode_avoid c hc k hk hck (e ▸ hb))

/-! ### `List.span` -/

theorem gp_span_loop_all {α} (p : α → Bool) : ∀ (a acc : List α), (∀ x ∈ a, p x = true) →
    List.span.loop p a acc = (acc.reverse ++ a, []) := by
  intro a
  induction a with
  | nil => intro acc _; simp [List.span.loop]
  | cons y a ih =>
    intro acc h
    have hy : p y = true := h y (by simp)
    simp only [List.span.loop, hy]
    rw [ih (y :: acc) (fun x hx => h x (by simp [hx]))]
    simp

theorem gp_span_loop_stop {α} (p : α → Bool) (y : α) (r : List α) (hy : p y = false) :
    ∀ (a acc : List α), (∀ x ∈ a, p x = true) →
      List.span.loop p (a ++ y :: r) acc = (acc.reverse ++ a, y :: r) := by
  intro a
  induction a with
  | nil => intro acc _; simp [List.span.loop, hy]
  | cons z a ih =>
    intro acc h
    have hz : p z = true := h z (by simp)
    simp only [List.cons_append, List.span.loop, hz]
    rw [ih (z :: acc) (fun x hx => h x (by simp [hx]))]
    simp

theorem gp_span_all {α} (p : α → Bool) (a : List α) (h : ∀ x ∈ a, p x = true) : a.span p = (a, []) := by
  unfold List.span; rw [gp_span_loop_all p a [] h]; simp

theorem gp_span_stop {α} (p : α → Bool) (a : List α) (y : α) (r : List α) (h : ∀ x ∈ a, p x = true)
    (hy : p y = false) : (a ++ y :: r).span p = (a, y :: r) := by
  unfold List.span; rw [gp_span_loop_stop p y r hy a [] h]; simp

theorem gp_span_loop_spec {α} (p : α → Bool) : ∀ (l acc x y : List α), List.span.loop p l acc = (x, y) →
    x ++ y = acc.reverse ++ l ∧ ∀ z t, y = z :: t → p z = false := by
  intro l
  induction l with
  | nil =>
    intro acc x y h
    simp only [List.span.loop, Prod.mk.injEq] at h
    obtain ⟨rfl, rfl⟩ := h
    exact ⟨rfl, by intro z t h; cases h⟩
  | cons a l ih =>
    intro acc x y h
    cases hp : p a with
    | true =>
      simp only [List.span.loop, hp] at h
      obtain ⟨h1, h2⟩ := ih _ _ _ h
      exact ⟨by rw [h1]; simp, h2⟩
    | false =>
      simp only [List.span.loop, hp, Prod.mk.injEq] at h
      obtain ⟨rfl, rfl⟩ := h
      refine ⟨rfl, ?_⟩
      intro z t hzt
      simp only [List.cons.injEq] at hzt
      rw [← hzt.1]; exact hp

theorem gp_span_spec {α} (p : α → Bool) (l x y : List α) (h : l.span p = (x, y)) :
    l = x ++ y ∧ ∀ z t, y = z :: t → p z = false := by
  unfold List.span at h
  obtain ⟨h1, h2⟩ := gp_span_loop_spec p l [] x y h
  exact ⟨by rw [h1]; simp, h2⟩

end Rox.Lemmas
