/-
  Rox.Lemmas.GrammarSound — whatever `parse` accepts (without a DOCTYPE: `allow_dtd = false`) is a
  well-formed XML 1.0 document in the sense of `Rox.Spec.Grammar` (the `document` production with
  its well-formedness constraints and the documented leniencies).

  The proof has three stages (interface: `Rox.Lemmas.GrammarDefs`):
    A. `tokenize_items` (GrammarPrim, GrammarTok): the tokenizer cuts an accepted input into BOM,
       XML declaration and a flat list of lexical items, and checks their lexical syntax;
    B. `parseCtx_items` (GrammarBuild): the builder checks references, attribute uniqueness and the
       nesting of tags with matching names, `parse`'s final checks that there is a root element
       and that it is closed;
    C. `assemble` (GrammarAsm): such an item list is the concrete syntax of a well-formed abstract
       document.
-/
import Rox.Spec.Grammar
import Rox.Lemmas.SafeParse
import Rox.Lemmas.GrammarTok
import Rox.Lemmas.GrammarBuild
import Rox.Lemmas.GrammarAsm

namespace Rox.Lemmas
open Rox Rox.Spec.Grammar

/-- **Grammar soundness** (every valid UTF-8 input, `allow_dtd = false`, every node limit, with or
without positions): if `parse` returns a tree, the input is the concrete syntax of a well-formed
abstract document. -/
theorem accepted_is_wellformed (T : Tables) (hT : TablesOK T) (hG : TablesGrammar T) (txt : Bytes)
    (hv : ValidUtf8 txt) (opt : Opt) (hdtd : opt.allowDtd = false) (d : Doc)
    (h : parse T txt opt = .ok d) : WellFormed T txt := by
  unfold parse at h
  rw [Res.bind_eq_ok] at h
  obtain ⟨c, hc, _⟩ := h
  -- the tokenizer succeeded
  have htok : ∃ toks, tokenize T txt false = (toks, .ok ()) := by
    have hc' := hc
    unfold parseCtx at hc'
    rw [Res.bind_eq_ok] at hc'
    obtain ⟨c0, _, hc'⟩ := hc'
    rw [hdtd] at hc'
    dsimp only at hc'
    rw [Res.bind_eq_ok] at hc'
    obtain ⟨c1, hrun, _⟩ := hc'
    obtain ⟨⟨u, hu⟩, _⟩ := runTokens_feed _ _ _ _ _ hrun
    cases u
    exact ⟨(tokenize T txt false).1, Prod.ext rfl hu⟩
  obtain ⟨toks, htoks⟩ := htok
  obtain ⟨bom, decl, pre, root, post, htxt, hbom, hdecl, hpre, hpost, hroot, hlex, hit⟩ :=
    tokenize_items T hT hG txt hv toks htoks
  have hit' : ItemsToks (pre ++ root ++ post) (tokenize T txt false).1 := by rw [htoks]; exact hit
  obtain ⟨hrun, hsem, hstag⟩ := parseCtx_items T hT txt hv opt hdtd c hc _ hit' hlex
  rw [htxt]
  exact assemble T bom decl pre root post hbom hdecl hpre hpost hroot hlex hsem hrun hstag

end Rox.Lemmas
