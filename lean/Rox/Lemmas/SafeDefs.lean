/-
  Rox.Lemmas.SafeDefs — the invariants under which no builder function can reach a panic site or
  run out of fuel, and a few more rules of the `RSpec` logic. The per-function proofs are in
  `SafeNs` (namespaces, attributes), `SafeAttr` (attribute values), `SafeTree`, `SafeText`,
  `SafeParse`.
-/
import Rox.Lemmas.BufUtf8
import Rox.Lemmas.TokSpec
import Rox.Lemmas.BInv4
import Rox.Props.C06Base
import Rox.Lemmas.RefSpec

namespace Rox.Lemmas
open Rox Rox.Props.C06

/-! ### More `RSpec` rules -/

theorem rspec_bind_eq {α β} (m : Res α) (k : α → Res β) (Q : α → Prop) (R : β → Prop)
    (hm : RSpec m Q) (hk : ∀ a, m = .ok a → Q a → RSpec (k a) R) : RSpec (m >>= k) R := by
  cases m with
  | ok a => exact hk a rfl (hm.post a rfl)
  | err e => exact ⟨by intro b hb; simp at hb, trivial⟩
  | panic s => exact absurd hm.safe (by simp [Res.Safe])
  | fuel => exact absurd hm.safe (by simp [Res.Safe])

theorem rspec_and {α} {r : Res α} {Q Q' : α → Prop} (h : RSpec r Q) (h' : ∀ a, r = .ok a → Q' a) :
    RSpec r (fun a => Q a ∧ Q' a) :=
  ⟨fun a ha => ⟨h.post a ha, h' a ha⟩, h.safe⟩

theorem rspec_pure {α} (a : α) (Q : α → Prop) (h : Q a) : RSpec (pure a : Res α) Q := rspec_ok a Q h

theorem rspec_ite {α} (c : Prop) [Decidable c] (r1 r2 : Res α) (Q : α → Prop)
    (h1 : c → RSpec r1 Q) (h2 : ¬ c → RSpec r2 Q) : RSpec (if c then r1 else r2) Q := by
  split
  · exact h1 ‹_›
  · exact h2 ‹_›

theorem errPos_safe {α} (txt : Bytes) (mk : TextPos → Err) (p : Nat) (Q : α → Prop) :
    RSpec (errPos txt mk p : Res α) Q := errFrom_safe txt mk p Q

/-! ### Cursors that may stand inside a character -/

/-- `SOk` without the claim that the rest is valid UTF-8 (a byte-wise loop stands inside a
character between two of its steps). -/
structure WOk (txt : Bytes) (s : Stream) : Prop where
  slice : s.rest = sliceBytes txt s.pos (s.pos + s.rest.length)
  bound : s.pos + s.rest.length ≤ txt.length
  endb : isCharBoundary txt (s.pos + s.rest.length) = true

theorem SOk.wOk {txt : Bytes} {s : Stream} (h : SOk txt s) : WOk txt s := ⟨h.slice, h.bound, h.endb⟩

theorem WOk.sOk {txt : Bytes} {s : Stream} (h : WOk txt s) (hv : ValidUtf8 s.rest) : SOk txt s :=
  ⟨h.slice, h.bound, hv, h.endb⟩

theorem WOk.next {txt : Bytes} {pos : Nat} {b : UInt8} {r : Bytes} (h : WOk txt ⟨pos, b :: r⟩) :
    WOk txt ⟨pos + 1, r⟩ := by
  obtain ⟨hs, hb, he⟩ := h
  simp only [List.length_cons] at hs hb he
  refine ⟨?_, by simp only; omega, by simp only; rw [show pos + 1 + r.length = pos + (r.length + 1) by omega]; exact he⟩
  show r = sliceBytes txt (pos + 1) (pos + 1 + r.length)
  have := congrArg (List.drop 1) hs
  simp only [List.drop_succ_cons, List.drop_zero] at this
  rw [sliceBytes_drop txt pos _ 1 (by omega)] at this
  rw [show pos + 1 + r.length = pos + (r.length + 1) by omega]
  exact this

/-! ### The invariants -/

/-- Namespace / attribute tables: every stored index is in range. -/
structure NsOk (d : Doc) (nsStart : Nat) : Prop where
  ns : NsInv d.ns
  xml0 : 0 < d.ns.values.size
  start : nsStart ≤ d.ns.treeOrder.size
  elem : ∀ (i : Nat) (n : NodeData) (tn : Option Nat) (name : Span) (attrs nss : Range),
    d.nodes[i]? = some n → n.kind = .element tn name attrs nss →
      nss.1 ≤ nss.2 ∧ nss.2 ≤ d.ns.treeOrder.size ∧ attrs.1 ≤ attrs.2 ∧ attrs.2 ≤ d.attrs.size ∧
      (∀ j, tn = some j → j < d.ns.values.size)
  attrNs : ∀ (k : Nat) (a : AttrData), d.attrs[k]? = some a → ∀ j, a.nsIdx = some j → j < d.ns.values.size

/-- The rest of the builder's state. -/
structure AInv (txt : Bytes) (c : Ctx) : Prop where
  lim : c.nodesLimit ≤ 4294967295
  nsOk : NsOk c.doc c.nsStartIdx
  text : c.afterText ≠ [] → ∃ n s, c.doc.nodes[c.doc.nodes.size - 1]? = some n ∧ n.kind = .text s
  ents : ∀ e ∈ c.entities, SpanU txt e.value
  depth : c.ld.depth ≤ 10

/-- While a start tag is being delivered the builder knows the element's (non-empty) name. -/
def TagInv (q : Bool) (c : Ctx) : Prop := q = true → c.tagName.name ≠ []

end Rox.Lemmas
