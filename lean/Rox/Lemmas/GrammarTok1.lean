/-
  Rox.Lemmas.GrammarTok1 — Stage A2 of the grammar-soundness proof: each construct parser of the
  tokenizer (`parse_comment`, `parse_pi`, `parse_cdata`, `parse_text`, `parse_close_element`,
  `parse_start_tag`, `parse_declaration`), when it succeeds, has consumed exactly the concrete
  syntax of one item (`Rox.Lemmas.GrammarDefs`), checked its lexical syntax and delivered its
  tokens.
-/
import Rox.Lemmas.GrammarPrim

set_option linter.unusedSectionVars false

namespace Rox.Lemmas
open Rox Rox.Spec.Grammar Rox.TM

/-! ### Helpers -/
theorem gt1_isPrefix_mem {l t : Bytes} (h : l.isPrefixOf t = true) (x : UInt8) (hx : x ∈ l) : x ∈ t := by
  obtain ⟨r, hr⟩ := List.isPrefixOf_iff_prefix.mp h
  rw [← hr]; exact List.mem_append_left _ hx

theorem gt1_containsSub_cdataEnd_gt : ∀ t : Bytes, containsSub t [93, 93, 62] = true → t.contains 62 = true := by
  intro t
  induction t with
  | nil => intro h; simp [containsSub] at h
  | cons b r ih =>
    intro h
    unfold containsSub at h
    rcases Bool.or_eq_true _ _ |>.mp h with h | h
    · have := gt1_isPrefix_mem h 62 (by simp)
      simpa using this
    · have := ih h
      simp only [List.contains_cons, Bool.or_eq_true]
      right; exact this

theorem gt1_sp0_append {T : Tables} {a b : Bytes} (ha : Sp0 T a) (hb : Sp0 T b) : Sp0 T (a ++ b) := by
  intro x hx
  rcases List.mem_append.mp hx with h | h
  · exact ha x h
  · exact hb x h

theorem gt1_res_bind_ok {α β} {m : Res α} {f : α → Res β} {b : β} (h : (m >>= f) = .ok b) :
    ∃ a, m = .ok a ∧ f a = .ok b := Res.bind_eq_ok.mp h

/-- a cursor at the end or in front of `?>` does not start with a keyword -/
theorem gt1_stop_not_startsWith {s : Stream} (b : UInt8) (r : Bytes) (hb : b ≠ 63)
    (hstop : s.rest = [] ∨ s.startsWith Lit.piEnd = true) : s.startsWith (b :: r) = false := by
  rcases hstop with h | h
  · simp [Stream.startsWith, h]
  · obtain ⟨t, ht⟩ := List.isPrefixOf_iff_prefix.mp h
    have : s.rest = 63 :: 62 :: t := ht.symm
    simp only [Stream.startsWith, this, List.isPrefixOf]
    simp [hb]

theorem gt1_took_nil_rest {s s' : Stream} (h : Took s s' []) : s'.rest = s.rest := by
  have := h.2.2.1
  simpa using this

section
variable (T : Tables) (hT : TablesOK T) (hG : TablesGrammar T) (txt : Bytes)
include hT hG

theorem parseComment_item {s s' : Stream} {toks : List Token} (hs : SOk txt s)
    (hp : s.startsWith Lit.commentStart = true) (h : parseComment T txt s = (toks, .ok s')) :
    ∃ b, Took s s' (Item.comment b).bytes ∧ SOk txt s' ∧ (Item.comment b).Lex T ∧
      ItemToks (.comment b) toks := by
  unfold parseComment at h
  obtain ⟨s1, h1, h⟩ := tm_lift_bind_ok h
  obtain ⟨⟨s2, text⟩, h2, h⟩ := tm_lift_bind_ok h
  obtain ⟨s3, h3, h⟩ := tm_lift_bind_ok h
  have k1 := (advance_lit hs Lit.commentStart hp (lit_valid _ (by decide))).post _ h1
  have t1 := advance_took Lit.commentStart hp h1
  obtain ⟨k2, _, _, t2⟩ := (consumeChars_spec T txt _ k1.1.2).post _ h2
  have k3 := (skipString_spec k2.2 Lit.commentEnd (lit_valid _ (by decide))).post _ h3
  have t3 := skipString_took Lit.commentEnd h3
  simp only at k2 t2 h
  split at h
  · exact absurd h (tm_lift_ne_ok (errFrom_ne_ok _ _ _))
  · rename_i hdd
    split at h
    · exact absurd h (tm_lift_ne_ok (errFrom_ne_ok _ _ _))
    · rename_i hld
      obtain ⟨t, h, htoks⟩ := tm_emit_bind_ok h
      obtain ⟨ht, hs'⟩ := tm_pure_ok h
      subst ht; subst hs'; subst htoks
      refine ⟨text.bytes, ?_, k3.1.2, ⟨consumeChars_chars T txt _ k1.1.2 h2, by simpa using hdd, by simpa using hld⟩,
        ItemToks.comment _ text _ rfl⟩
      exact Took.trans (Took.trans t1 t2) t3

theorem parseCdata_item {s s' : Stream} {toks : List Token} (hs : SOk txt s)
    (hp : s.startsWith Lit.cdataStart = true) (h : parseCdata T txt s = (toks, .ok s')) :
    ∃ b, Took s s' (Item.cdata b).bytes ∧ SOk txt s' ∧ (Item.cdata b).Lex T ∧
      ItemToks (.cdata b) toks := by
  unfold parseCdata at h
  obtain ⟨s1, h1, h⟩ := tm_lift_bind_ok h
  obtain ⟨⟨s2, text⟩, h2, h⟩ := tm_lift_bind_ok h
  obtain ⟨s3, h3, h⟩ := tm_lift_bind_ok h
  have k1 := (advance_lit hs Lit.cdataStart hp (lit_valid _ (by decide))).post _ h1
  have t1 := advance_took Lit.cdataStart hp h1
  obtain ⟨k2, _, _, t2⟩ := (consumeChars_spec T txt _ k1.1.2).post _ h2
  have k3 := (skipString_spec k2.2 Lit.cdataEnd (lit_valid _ (by decide))).post _ h3
  have t3 := skipString_took Lit.cdataEnd h3
  simp only at k2 t2 h
  obtain ⟨t, h, htoks⟩ := tm_emit_bind_ok h
  obtain ⟨ht, hs'⟩ := tm_pure_ok h
  subst ht; subst hs'; subst htoks
  refine ⟨text.bytes, Took.trans (Took.trans t1 t2) t3, k3.1.2,
    ⟨consumeChars_chars T txt _ k1.1.2 h2, ?_⟩, ItemToks.cdata _ text _ rfl⟩
  exact consumeChars_noSub T txt 93 93 [93, 62] rfl (by decide) k1.1.2 h2

theorem parseText_item {s s' : Stream} {toks : List Token} (hs : SOk txt s)
    (hp : ∃ b r, s.rest = b :: r ∧ b ≠ bLt) (h : parseText T txt s = (toks, .ok s')) :
    ∃ t, Took s s' (Item.text t).bytes ∧ SOk txt s' ∧ (Item.text t).Lex T ∧
      ItemToks (.text t) toks ∧ (s'.rest = [] ∨ ∃ r, s'.rest = bLt :: r) := by
  unfold parseText at h
  obtain ⟨⟨s1, text⟩, h1, h⟩ := tm_lift_bind_ok h
  obtain ⟨k1, _, _, t1⟩ := (consumeChars_spec T txt _ hs).post _ h1
  simp only at k1 t1 h
  obtain ⟨hstop, hne⟩ := consumeChars_text T txt hs h1
  split at h
  · exact absurd h (tm_lift_ne_ok (errAt_ne_ok _ _ _))
  · rename_i hcd
    obtain ⟨t, h, htoks⟩ := tm_emit_bind_ok h
    obtain ⟨ht, hs'⟩ := tm_pure_ok h
    subst ht; subst hs'; subst htoks
    obtain ⟨b, r, hr, hb⟩ := hp
    refine ⟨text.bytes, t1, k1.2, ⟨hne b r hr hb, consumeChars_chars T txt _ hs h1, ?_, ?_⟩,
      ItemToks.text _ text _ rfl, hstop⟩
    · exact consumeChars_avoid T txt _ bLt (by decide) (by intro s c hc; simpa [bLt] using hc) hs h1
    · cases hc : containsSub text.bytes Lit.cdataEnd with
      | false => rfl
      | true =>
        have := gt1_containsSub_cdataEnd_gt text.bytes hc
        exfalso; apply hcd
        rw [hc]; simp only [Bool.and_true]; exact this

theorem parseCloseElement_item {s s' : Stream} {toks : List Token} (hs : SOk txt s)
    (hp : ∃ r, s.rest = bLt :: bSlash :: r) (h : parseCloseElement T txt s = (toks, .ok s')) :
    ∃ q s2, Took s s' (Item.etag q s2).bytes ∧ SOk txt s' ∧ (Item.etag q s2).Lex T ∧
      ItemToks (.etag q s2) toks := by
  obtain ⟨r, hr⟩ := hp
  have hsw : s.startsWith [bLt, bSlash] = true := by
    simp [Stream.startsWith, hr]
  unfold parseCloseElement at h
  obtain ⟨s1, h1, h⟩ := tm_lift_bind_ok h
  obtain ⟨⟨s2, pfx, loc⟩, h2, h⟩ := tm_lift_bind_ok h
  simp only at h
  obtain ⟨s3, h3, h⟩ := tm_lift_bind_ok h
  have k1 := (advance_lit hs [bLt, bSlash] hsw (lit_valid _ (by decide))).post _ h1
  have t1 := advance_took [bLt, bSlash] hsw h1
  obtain ⟨k2, _⟩ := (consumeQName_spec T txt k1.1.2).post _ h2
  obtain ⟨q, t2, hq, hqp⟩ := consumeQName_qname T txt hG k1.1.2 h2
  simp only at k2
  have ksp := skipSpaces_step T hT k2.2
  obtain ⟨sp, tsp, hsp, _⟩ := skipSpaces_took T s2
  have k3 := (consumeByte_spec ksp.2 bGt (by decide)).post _ h3
  have t3 := consumeByte_took bGt h3
  obtain ⟨t, h, htoks⟩ := tm_emit_bind_ok h
  obtain ⟨ht, hs'⟩ := tm_pure_ok h
  subst ht; subst hs'; subst htoks
  exact ⟨q, sp, Took.trans (Took.trans (Took.trans t1 t2) tsp) t3, k3.1.2, ⟨hq, hsp⟩,
    ItemToks.etag _ _ pfx loc _ hqp⟩

theorem parsePi_item {s s' : Stream} {toks : List Token} (hs : SOk txt s)
    (hp : s.startsWith Lit.piStart = true) (h : parsePi T txt s = (toks, .ok s')) :
    ∃ t sp v, Took s s' (Item.pi t sp v).bytes ∧ SOk txt s' ∧ (Item.pi t sp v).Lex T ∧
      ItemToks (.pi t sp v) toks := by
  unfold parsePi at h
  split at h
  · exact absurd h (tm_lift_ne_ok (errAt_ne_ok _ _ _))
  obtain ⟨s1, h1, h⟩ := tm_lift_bind_ok h
  obtain ⟨⟨s2, target⟩, h2, h⟩ := tm_lift_bind_ok h
  obtain ⟨s3, h3, h⟩ := tm_lift_bind_ok h
  obtain ⟨⟨s4, content⟩, h4, h⟩ := tm_lift_bind_ok h
  obtain ⟨s5, h5, h⟩ := tm_lift_bind_ok h
  have k1 := (advance_lit hs Lit.piStart hp (lit_valid _ (by decide))).post _ h1
  have t1 := advance_took Lit.piStart hp h1
  obtain ⟨k2, _, _, t2, _⟩ := (consumeName_spec T txt k1.1.2).post _ h2
  simp only at k2 t2
  have k3 := (declConsumeSpaces_spec T hT txt k2.2).post _ h3
  obtain ⟨sp, t3, hsp, hsp0⟩ := declConsumeSpaces_took T txt h3
  obtain ⟨k4, _, _, t4⟩ := (consumeChars_spec T txt _ k3.2).post _ h4
  simp only at k4 t4 h5 h
  have k5 := (skipString_spec k4.2 Lit.piEnd (lit_valid _ (by decide))).post _ h5
  have t5 := skipString_took Lit.piEnd h5
  obtain ⟨t, h, htoks⟩ := tm_emit_bind_ok h
  obtain ⟨ht, hs'⟩ := tm_pure_ok h
  subst ht; subst hs'; subst htoks
  refine ⟨target.bytes, sp, content.bytes, Took.trans (Took.trans (Took.trans (Took.trans t1 t2) t3) t4) t5,
    k5.1.2, ⟨consumeName_name T txt k1.1.2 h2, hsp, ?_, consumeChars_chars T txt _ k3.2 h4, ?_⟩,
    ItemToks.pi _ _ _ target _ _ rfl⟩
  · intro hv hsp'
    apply hv
    apply consumeChars_nil_of_stop T txt _ h4
    rcases hsp0 hsp' with h0 | h0
    · exact Or.inl h0
    · right
      obtain ⟨r, hr⟩ := List.isPrefixOf_iff_prefix.mp h0
      have hr' : s3.rest = 63 :: 62 :: r := hr.symm
      refine ⟨63, 1, ?_, ?_⟩
      · rw [hr']; exact decodeChar_ascii 63 _ (by decide)
      · simp [h0]
  · exact consumeChars_noSub T txt 63 63 [62] rfl (by decide) k3.2 h4


theorem gt1_startTagLoop : ∀ (fuel : Nat) (s s' : Stream) (opened : Bool) (toks : List Token),
    SOk txt s → startTagLoop T txt fuel s = (toks, .ok (s', some opened)) →
    ∃ attrs s1 ats r,
      Took s s' (attrsBytes attrs ++ s1 ++ (if opened then [bGt] else [bSlash, bGt])) ∧ SOk txt s' ∧
      Sp0 T s1 ∧ (∀ a ∈ attrs, a.Lex T) ∧ AttrToks attrs ats ∧
      toks = ats ++ [.elementEnd (if opened then .open else .empty) r] := by
  intro fuel
  induction fuel with
  | zero =>
    intro s s' opened toks _ h
    unfold startTagLoop at h
    exact absurd h (tm_lift_ne_ok (by intro a; simp))
  | succ n ih =>
    intro s s' opened toks hs h
    unfold startTagLoop at h
    split at h
    · have := (tm_pure_ok h).2
      simp at this
    · simp only at h
      have ksp := skipSpaces_step T hT hs
      obtain ⟨sa, tsa, hsa, hsane⟩ := skipSpaces_took T s
      obtain ⟨c, hc, h⟩ := tm_lift_bind_ok h
      have hr : ∃ r, (s.skipSpaces T).rest = c :: r := by
        unfold Stream.currByte at hc
        split at hc
        · simp at hc
        · rename_i b r hr
          simp only [Res.ok.injEq] at hc
          subst hc; exact ⟨r, hr⟩
      obtain ⟨r, hr⟩ := hr
      split at h
      · rename_i hc1
        have : c = bSlash := by simpa using hc1
        subst this
        have hsw : (s.skipSpaces T).startsWith [bSlash] = true := by simp [Stream.startsWith, hr]
        obtain ⟨s2, h2, h⟩ := tm_lift_bind_ok h
        obtain ⟨s3, h3, h⟩ := tm_lift_bind_ok h
        obtain ⟨t, h, htoks⟩ := tm_emit_bind_ok h
        obtain ⟨ht, hs'⟩ := tm_pure_ok h
        obtain ⟨e1, e2⟩ := Prod.mk.inj hs'
        subst e1
        have e3 : opened = false := by simpa using e2.symm
        subst e3; subst ht; subst htoks
        have k2 := (advance_lit ksp.2 [bSlash] hsw (lit_valid _ (by decide))).post _ h2
        have t2 := advance_took [bSlash] hsw h2
        have k3 := (consumeByte_spec k2.1.2 bGt (by decide)).post _ h3
        have t3 := consumeByte_took bGt h3
        refine ⟨[], sa, [], _, ?_, k3.1.2, hsa, (fun a ha => absurd ha List.not_mem_nil), AttrToks.nil, rfl⟩
        have := Took.trans (Took.trans tsa t2) t3
        simpa [attrsBytes] using this
      · split at h
        · rename_i _ hc1
          have : c = bGt := by simpa using hc1
          subst this
          have hsw : (s.skipSpaces T).startsWith [bGt] = true := by simp [Stream.startsWith, hr]
          obtain ⟨s2, h2, h⟩ := tm_lift_bind_ok h
          obtain ⟨t, h, htoks⟩ := tm_emit_bind_ok h
          obtain ⟨ht, hs'⟩ := tm_pure_ok h
          obtain ⟨e1, e2⟩ := Prod.mk.inj hs'
          subst e1
          have e3 : opened = true := by simpa using e2.symm
          subst e3; subst ht; subst htoks
          have k2 := (advance_lit ksp.2 [bGt] hsw (lit_valid _ (by decide))).post _ h2
          have t2 := advance_took [bGt] hsw h2
          refine ⟨[], sa, [], _, ?_, k2.1.2, hsa, (fun a ha => absurd ha List.not_mem_nil), AttrToks.nil, rfl⟩
          have := Took.trans tsa t2
          simpa [attrsBytes] using this
        · obtain ⟨s2, h2, h⟩ := tm_lift_bind_ok h
          obtain ⟨⟨s3, pfx, loc⟩, h3, h⟩ := tm_lift_bind_ok h
          simp only at h
          obtain ⟨s4, h4, h⟩ := tm_lift_bind_ok h
          obtain ⟨⟨s5, q⟩, h5, h⟩ := tm_lift_bind_ok h
          simp only at h
          obtain ⟨⟨s6, value⟩, h6, h⟩ := tm_lift_bind_ok h
          simp only at h
          obtain ⟨u, h7, h⟩ := tm_lift_bind_ok h
          obtain ⟨s8, h8, h⟩ := tm_lift_bind_ok h
          obtain ⟨t, h, htoks⟩ := tm_emit_bind_ok h
          -- the white space in front of the attribute
          have hs2 : ∃ sb, Took (s.skipSpaces T) s2 sb ∧ SOk txt s2 ∧ Sp T (sa ++ sb) := by
            split at h2
            · have k := (consumeSpaces_spec T hT ksp.2).post _ h2
              obtain ⟨sb, tb, hb⟩ := consumeSpaces_took T txt h2
              refine ⟨sb, tb, k.2, ?_, gt1_sp0_append hsa hb.2⟩
              intro h0
              exact hb.1 (List.append_eq_nil_iff.mp h0).2
            · rename_i hsp
              simp only [Res.ok.injEq] at h2
              subst h2
              refine ⟨[], Took.nil _, ksp.2, ?_, by simpa using hsa⟩
              have := hsane (by simpa using hsp)
              simpa using this
          obtain ⟨sb, tb, k2, hsab⟩ := hs2
          obtain ⟨k3, _⟩ := (consumeQName_spec T txt k2).post _ h3
          obtain ⟨nm, t3, hnm, hqp⟩ := consumeQName_qname T txt hG k2 h3
          simp only at k3
          have k4 := (consumeEq_spec T hT k3.2).post _ h4
          obtain ⟨e2, e3, t4, he2, he3⟩ := consumeEq_took T txt h4
          obtain ⟨k5, hq128, _⟩ := (consumeQuote_spec k4.2).post _ h5
          obtain ⟨t5, hq⟩ := consumeQuote_took txt h5
          simp only at k5 hq128
          obtain ⟨k6, _, _, t6, hv⟩ := (advanceUntil2_spec txt k5.2 q bLt hq128 (by decide)).post _ h6
          simp only at k6 t6 hv
          have hvu := (t6.spanU k5.2 k6.2).2.1
          simp only at hvu
          have hch := gram_isXmlStr_chars T txt hG value hvu h7
          have k8 := (consumeByte_spec k6.2 q hq128).post _ h8
          have t8 := consumeByte_took q h8
          obtain ⟨attrs, s1, ats, rr, tr, ks', hs1, hlex, hats, htk⟩ := ih s8 s' opened t k8.1.2 h
          refine ⟨⟨sa ++ sb, nm, e2, e3, q, value.bytes⟩ :: attrs, s1, _ :: ats, rr, ?_, ks', hs1, ?_,
            AttrToks.cons _ _ _ _ (show AttrTok _ (Token.attribute _ _ _ pfx loc value) from ⟨hqp, rfl⟩) hats, by rw [htoks, htk]; rfl⟩
          · have := Took.trans (Took.trans (Took.trans (Took.trans (Took.trans (Took.trans (Took.trans tsa tb) t3) t4) t5) t6) t8) tr
            simpa [attrsBytes, AttrC.bytes, List.append_assoc] using this
          · intro a ha
            rcases List.mem_cons.mp ha with rfl | ha
            · exact ⟨hsab, hnm, he2, he3, hq, fun hm => (hv q hm).1 rfl, fun hm => (hv bLt hm).2 rfl, hch⟩
            · exact hlex a ha

theorem parseStartTag_item {s s' : Stream} {opened : Bool} {toks : List Token} (hs : SOk txt s)
    (hp : ∃ r, s.rest = bLt :: r) (h : parseStartTag T txt s = (toks, .ok (s', opened))) :
    ∃ q attrs s1, Took s s' (Item.stag q attrs s1 (!opened)).bytes ∧ SOk txt s' ∧
      (Item.stag q attrs s1 (!opened)).Lex T ∧ ItemToks (.stag q attrs s1 (!opened)) toks := by
  obtain ⟨r, hr⟩ := hp
  have hsw : s.startsWith [bLt] = true := by simp [Stream.startsWith, hr]
  unfold parseStartTag at h
  obtain ⟨s1, h1, h⟩ := tm_lift_bind_ok h
  obtain ⟨⟨s2, pfx, loc⟩, h2, h⟩ := tm_lift_bind_ok h
  simp only at h
  obtain ⟨t, h, htoks⟩ := tm_emit_bind_ok h
  obtain ⟨t1, ⟨s3, fin⟩, t2, h3, h, ht⟩ := tm_bind_ok h
  simp only at h
  have k1 := (advance_lit hs [bLt] hsw (lit_valid _ (by decide))).post _ h1
  have tk1 := advance_took [bLt] hsw h1
  obtain ⟨k2, _⟩ := (consumeQName_spec T txt k1.1.2).post _ h2
  obtain ⟨q, tk2, hq, hqp⟩ := consumeQName_qname T txt hG k1.1.2 h2
  simp only at k2
  split at h
  · exact absurd h (tm_lift_ne_ok (by intro a; simp))
  · rename_i op
    obtain ⟨e1, e2⟩ := tm_pure_ok h
    obtain ⟨e3, e4⟩ := Prod.mk.inj e2
    subst e1; subst e3; subst e4
    obtain ⟨attrs, sp1, ats, rr, tk3, k3, hsp1, hlex, hats, htk⟩ :=
      gt1_startTagLoop T hT hG txt _ s2 s3 op t1 k2.2 h3
    subst htoks; subst ht; subst htk
    refine ⟨q, attrs, sp1, ?_, k3, ⟨hq, hsp1, hlex⟩, ?_⟩
    · have := Took.trans (Took.trans tk1 tk2) tk3
      cases op <;> simpa [Item.bytes, List.append_assoc] using this
    · have := ItemToks.stag q attrs sp1 (!op) pfx loc s.pos ats rr hqp hats
      cases op <;> simpa using this


theorem gt1_parsePseudoAttribute {s s' : Stream} (name : Bytes) (hs : SOk txt s)
    (hsw : s.startsWith name = true) (hname : ∃ b r, name = b :: r ∧ b ≠ bColon)
    (h : parsePseudoAttribute T txt s name = .ok s') :
    ∃ a, Took s s' a ∧ SOk txt s' ∧ PseudoAttr T name a := by
  unfold parsePseudoAttribute at h
  obtain ⟨⟨s5, pfx, loc⟩, ha, h⟩ := gt1_res_bind_ok h
  simp only at h
  split at h
  · exact absurd h (errFrom_ne_ok _ _ _ _)
  rename_i hchk
  simp only [Res.pure_eq, Res.ok.injEq] at h
  subst h
  unfold parseAttribute at ha
  obtain ⟨⟨s1, pfx', loc'⟩, h1, ha⟩ := gt1_res_bind_ok ha
  simp only at ha
  obtain ⟨s2, h2, ha⟩ := gt1_res_bind_ok ha
  obtain ⟨⟨s3, q⟩, h3, ha⟩ := gt1_res_bind_ok ha
  simp only at ha
  obtain ⟨⟨s4, val⟩, h4, ha⟩ := gt1_res_bind_ok ha
  simp only at ha
  obtain ⟨s6, h5, ha⟩ := gt1_res_bind_ok ha
  simp only [Res.pure_eq, Res.ok.injEq, Prod.mk.injEq] at ha
  obtain ⟨e1, e2, e3⟩ := ha
  subst e1; subst e2; subst e3
  obtain ⟨k1, _⟩ := (consumeQName_spec T txt hs).post _ h1
  obtain ⟨all, t1, _, hqp⟩ := consumeQName_qname T txt hG hs h1
  simp only at k1
  have k2 := (consumeEq_spec T hT k1.2).post _ h2
  obtain ⟨e2, e3, t2, he2, he3⟩ := consumeEq_took T txt h2
  obtain ⟨k3, hq128, _⟩ := (consumeQuote_spec k2.2).post _ h3
  obtain ⟨t3, hq⟩ := consumeQuote_took txt h3
  simp only at k3 hq128
  obtain ⟨k4, _, _, t4⟩ := (consumeChars_spec T txt _ k3.2).post _ h4
  simp only at k4 t4
  have k5 := (consumeByte_spec k4.2 q hq128).post _ h5
  have t5 := consumeByte_took q h5
  -- the name
  have hpl : pfx'.bytes = [] ∧ loc'.bytes = name := by
    simp only [Bool.or_eq_true, Bool.not_eq_true', List.isEmpty_eq_false_iff, bne_iff_ne, ne_eq, not_or,
      Decidable.not_not] at hchk
    exact hchk
  have hall : all = name := by
    rw [hpl.1, hpl.2] at hqp
    rcases qparts_nil_left hqp with h | h
    · exact h
    · exfalso
      obtain ⟨b, r, hn, hb⟩ := hname
      have e := t1.eq
      obtain ⟨t, ht⟩ := List.isPrefixOf_iff_prefix.mp hsw
      rw [h, ← ht, hn] at e
      simp at e
      exact hb e.1
  subst hall
  refine ⟨_, Took.trans (Took.trans (Took.trans (Took.trans t1 t2) t3) t4) t5, k5.1.2,
    e2, e3, val.bytes, q, he2, he3, hq, consumeChars_chars T txt _ k3.2 h4, ?_, ?_, ?_⟩
  · exact consumeChars_avoid T txt _ q hq128 (by intro s c hc; simp at hc; exact hc.1) k3.2 h4
  · exact consumeChars_avoid T txt _ bLt (by decide) (by intro s c hc; simp at hc; exact hc.2) k3.2 h4
  · simp only [List.append_assoc]

theorem gt1_declEnd {s s' : Stream} (hs : SOk txt s) (h : declEnd T txt s = .ok s') :
    ∃ sB, Took s s' (sB ++ Lit.piEnd) ∧ SOk txt s' ∧ Sp0 T sB := by
  unfold declEnd at h
  have k1 := skipSpaces_step T hT hs
  obtain ⟨sB, t1, hB, _⟩ := skipSpaces_took T s
  have k2 := (skipString_spec k1.2 Lit.piEnd (lit_valid _ (by decide))).post _ h
  exact ⟨sB, Took.trans t1 (skipString_took Lit.piEnd h), k2.1.2, hB⟩

theorem gt1_declStandalone {s s' : Stream} (pend : Bytes) (hpend : Sp0 T pend)
    (hstop : pend = [] → s.rest = [] ∨ s.startsWith Lit.piEnd = true) (hs : SOk txt s)
    (h : declStandalone T txt s = .ok s') :
    ∃ run sd s4, Took s s' run ∧ SOk txt s' ∧ OptPseudo T Lit.standalone sd ∧ Sp0 T s4 ∧
      pend ++ run = sd ++ s4 ++ Lit.piEnd := by
  unfold declStandalone at h
  split at h
  · rename_i hsw
    have hpne : pend ≠ [] := by
      intro h0
      have := gt1_stop_not_startsWith 115 [116, 97, 110, 100, 97, 108, 111, 110, 101] (by decide) (hstop h0)
      rw [show Lit.standalone = 115 :: [116, 97, 110, 100, 97, 108, 111, 110, 101] from rfl] at hsw
      rw [this] at hsw; cases hsw
    obtain ⟨s1, h1, h⟩ := gt1_res_bind_ok h
    obtain ⟨a, t1, k1, ha⟩ := gt1_parsePseudoAttribute T hT hG txt Lit.standalone hs hsw
      ⟨115, _, rfl, by decide⟩ h1
    obtain ⟨sB, t2, k2, hB⟩ := gt1_declEnd T hT hG txt k1 h
    refine ⟨a ++ (sB ++ Lit.piEnd), pend ++ a, sB, Took.trans t1 t2, k2,
      Or.inr ⟨pend, a, ⟨hpne, hpend⟩, ha, rfl⟩, hB, ?_⟩
    simp only [List.append_assoc]
  · obtain ⟨sB, t2, k2, hB⟩ := gt1_declEnd T hT hG txt hs h
    refine ⟨sB ++ Lit.piEnd, [], pend ++ sB, t2, k2, Or.inl rfl, gt1_sp0_append hpend hB, ?_⟩
    simp only [List.append_assoc, List.nil_append]

theorem gt1_declEncoding {s s' : Stream} (pend : Bytes) (hpend : Sp0 T pend)
    (hstop : pend = [] → s.rest = [] ∨ s.startsWith Lit.piEnd = true) (hs : SOk txt s)
    (h : declEncoding T txt s = .ok s') :
    ∃ run encd sd s4, Took s s' run ∧ SOk txt s' ∧ OptPseudo T Lit.encoding encd ∧
      OptPseudo T Lit.standalone sd ∧ Sp0 T s4 ∧ pend ++ run = encd ++ sd ++ s4 ++ Lit.piEnd := by
  unfold declEncoding at h
  split at h
  · rename_i hsw
    have hpne : pend ≠ [] := by
      intro h0
      have := gt1_stop_not_startsWith 101 [110, 99, 111, 100, 105, 110, 103] (by decide) (hstop h0)
      rw [show Lit.encoding = 101 :: [110, 99, 111, 100, 105, 110, 103] from rfl] at hsw
      rw [this] at hsw; cases hsw
    obtain ⟨s1, h1, h⟩ := gt1_res_bind_ok h
    obtain ⟨s2, h2, h⟩ := gt1_res_bind_ok h
    obtain ⟨a, t1, k1, ha⟩ := gt1_parsePseudoAttribute T hT hG txt Lit.encoding hs hsw
      ⟨101, _, rfl, by decide⟩ h1
    have k2 := (declConsumeSpaces_spec T hT txt k1).post _ h2
    obtain ⟨sC, t2, hC, hC0⟩ := declConsumeSpaces_took T txt h2
    obtain ⟨run, sd, s4, t3, k3, hsd, hs4, he⟩ := gt1_declStandalone T hT hG txt sC hC hC0 k2.2 h
    refine ⟨a ++ sC ++ run, pend ++ a, sd, s4, Took.trans (Took.trans t1 t2) t3, k3,
      Or.inr ⟨pend, a, ⟨hpne, hpend⟩, ha, rfl⟩, hsd, hs4, ?_⟩
    have : pend ++ (a ++ sC ++ run) = pend ++ a ++ (sC ++ run) := by simp only [List.append_assoc]
    rw [this, he]
    simp only [List.append_assoc]
  · obtain ⟨run, sd, s4, t3, k3, hsd, hs4, he⟩ := gt1_declStandalone T hT hG txt pend hpend hstop hs h
    exact ⟨run, [], sd, s4, t3, k3, Or.inl rfl, hsd, hs4, by rw [he]; simp only [List.nil_append]⟩

theorem parseDeclaration_decl {s s' : Stream} (hs : SOk txt s)
    (hp : s.startsWithXmlDecl T = true) (h : parseDeclaration T txt s = .ok s') :
    ∃ decl, Took s s' decl ∧ SOk txt s' ∧ XmlDecl T decl := by
  -- `<?xml` and a white-space byte
  simp only [Stream.startsWithXmlDecl, Bool.and_eq_true] at hp
  obtain ⟨h5, h6⟩ := hp
  have h5 : s.startsWith litXmlDeclOpen = true := h5
  obtain ⟨r0, hr0⟩ := List.isPrefixOf_iff_prefix.mp h5
  obtain ⟨b, r, hr', hb⟩ : ∃ b r, s.rest = litXmlDeclOpen ++ b :: r ∧ byteIsSpace T b = true := by
    rw [← hr0] at h6
    have e : (litXmlDeclOpen ++ r0).drop 5 = r0 := rfl
    rw [e] at h6
    cases r0 with
    | nil => cases h6
    | cons b r => exact ⟨b, r, hr0.symm, h6⟩
  unfold parseDeclaration at h
  obtain ⟨s1, h1, h⟩ := gt1_res_bind_ok h
  obtain ⟨s2, h2, h⟩ := gt1_res_bind_ok h
  have k1 := (advance_lit hs litXmlDeclOpen h5 (lit_valid _ (by decide))).post _ h1
  have t1 : Took s s1 litXmlDeclOpen := advance_took litXmlDeclOpen h5 h1
  have hr1 : s1.rest = b :: r := by
    have := t1.eq
    rw [hr'] at this
    exact (List.append_cancel_left this).symm
  have k2 := (declConsumeSpaces_spec T hT txt k1.1.2).post _ h2
  -- the white-space byte is consumed by the first `declConsumeSpaces`
  have hss : s1.startsWithSpace T = true := by
    simp only [Stream.startsWithSpace, hr1, hb]
  have e2 : s2 = s1.skipSpaces T := by
    unfold declConsumeSpaces at h2
    simp only [hss, if_true, Res.ok.injEq] at h2
    exact h2.symm
  obtain ⟨sp1, t2, hsp1, hne⟩ := skipSpaces_took T s1
  rw [← e2] at t2
  have hsp1ne : sp1 ≠ [] := hne hss
  split at h
  · rename_i hnv
    unfold Stream.skipString at h
    simp only [hnv, if_true] at h
    exact absurd h (errAt_ne_ok _ _ _ _)
  · rename_i hv
    have hv' : s2.startsWith Lit.version = true := by simpa using hv
    obtain ⟨s3, h3, h⟩ := gt1_res_bind_ok h
    obtain ⟨s4, h4, h⟩ := gt1_res_bind_ok h
    obtain ⟨ver, t3, k3, hver⟩ := gt1_parsePseudoAttribute T hT hG txt Lit.version k2.2 hv'
      ⟨118, _, rfl, by decide⟩ h3
    have k4 := (declConsumeSpaces_spec T hT txt k3).post _ h4
    obtain ⟨sA, t4, hA, hA0⟩ := declConsumeSpaces_took T txt h4
    obtain ⟨run, encd, sd, s4', t5, k5, hencd, hsd, hs4, he⟩ :=
      gt1_declEncoding T hT hG txt sA hA hA0 k4.2 h
    refine ⟨_, Took.trans (Took.trans (Took.trans (Took.trans t1 t2) t3) t4) t5, k5,
      sp1, ver, encd, sd, s4', ⟨hsp1ne, hsp1⟩, hver, hencd, hsd, hs4, ?_⟩
    have : litXmlDeclOpen ++ sp1 ++ ver ++ sA ++ run = litXmlDeclOpen ++ sp1 ++ ver ++ (sA ++ run) := by
      simp only [List.append_assoc]
    rw [this, he]
    simp only [List.append_assoc]


end

end Rox.Lemmas
