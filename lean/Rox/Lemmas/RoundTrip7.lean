/-
  Rox.Lemmas.RoundTrip7 — C07 in general: a document whose content is routed through entities in any
  way (nested, repeated, unused, next to text or between markup) parses to the tree of the inline
  document.
-/
import Rox.Spec.Canon7
import Rox.Lemmas.RoundTrip3
import Rox.Lemmas.RtTok7
import Rox.Lemmas.RtBuild7

namespace Rox.Lemmas
open Rox Rox.Spec Rox.Spec.Canon Rox.Spec.Canon7

namespace Rt7

/-- the tables of expansions and forests, entry by entry, in grouped form -/
theorem tblOk_of (ents : List (List ENode)) (h : entsOkFrom 0 ents = true) :
    TblOk (expandTable ents) (forestTable ents) (fun j => groupAll [] (ents.getD j [])) ents.length := by
  intro j hj
  obtain ⟨hok, _⟩ := entsOk_get ents 0 h j hj
  obtain ⟨h1, h2⟩ := entsOk_take ents h j hj
  rw [Nat.zero_add] at hok
  have hg : ents.getD j [] = ents[j] := by
    simp [List.getD_eq_getElem?_getD, List.getElem?_eq_getElem hj]
  simp only [hg]
  refine ⟨?_, (wf_group [] ents[j]).1, ?_, ?_⟩
  · rw [ok_group]
    simpa [okItems] using hok
  · rw [expand_group]
    simp only [expandItems, List.nil_append, List.getD_eq_getElem?_getD, h1, Option.getD_some]
  · rw [forest_group]
    simp only [forestItems, Canon7.Forest.append, List.getD_eq_getElem?_getD, h2, Option.getD_some]

end Rt7

open Rt7

/-- **Every way of routing content through entities** (every `EDoc` of the class `docOkE`: any number
of entities, entity `i` referring to entities below `i` any number of times, replacement texts any
mix of elements with attributes, comments, text and references — balanced by construction —, the
root's content referring to any entity any number of times, next to text or between markup; provided
the loop detector accepts the forest of references): parsing (with `allow_dtd = true`) succeeds and
the tree is exactly that of the inline document, in which every reference is written out and
adjacent character data forms one run. -/
theorem parse_renderEDoc (T : Tables) (hT : TablesOK T) (hC : TablesCanon T) (hC3 : TablesCanon3 T)
    (opt : Opt) (hdtd : opt.allowDtd = true) (d : EDoc) (hd : docOkE d = true)
    (hacc : detectorAccepts d = true)
    (hlim : count (inlineTree d) + 1 ≤ opt.nodesLimit) (hl32 : opt.nodesLimit ≤ 4294967295)
    (hattrs : attrCount (inlineTree d) < 4294967295) :
    ∃ doc, parse T (renderEDoc d) opt = .ok doc ∧
      doc.nodes.toList.map (view doc) =
        some (none, XKind.root) :: (expect 0 1 (inlineTree d)).map some := by
  obtain ⟨decls, rootToks, htok, hlen, hdecl, hroot⟩ := tokenize_edoc T hT hC hC3 d hd
  have hd' := hd
  simp only [docOkE, Bool.and_eq_true] at hd'
  obtain ⟨hents, hrootok⟩ := hd'
  simp only [okE, Bool.and_eq_true] at hrootok
  have hx : expandGAll (expandTable d.ents) (groupAll [] d.kids) =
      expandAllE (expandTable d.ents) d.kids := by
    rw [expand_group]; rfl
  have hf : forestGAll (forestTable d.ents) (groupAll [] d.kids) = docForest d := by
    rw [forest_group]; rfl
  have hit : inlineTree d = .elem d.name d.attrs
      (mergeList none (expandGAll (expandTable d.ents) (groupAll [] d.kids))) := by
    rw [hx]; rfl
  rw [hit] at hlim hattrs ⊢
  refine parse_of_edocToks T hC3 (renderEDoc d) opt hdtd (expandTable d.ents) (forestTable d.ents)
    (fun j => groupAll [] (d.ents.getD j [])) d.ents.length d.name d.attrs (groupAll [] d.kids)
    decls rootToks htok hlen ?_ hroot (tblOk_of d.ents hents) ?_ ?_ ?_ hlim hl32 hattrs
  · intro i h1
    have h2 : i < d.ents.length := by rw [← hlen]; exact h1
    obtain ⟨hn, _, ts, st, htc, hrel⟩ := hdecl i h1 h2
    have hg : d.ents.getD i [] = d.ents[i] := by
      simp [List.getD_eq_getElem?_getD, List.getElem?_eq_getElem h2]
    exact ⟨hn, ts, st, htc, by simpa only [hg] using hrel⟩
  · simp only [okG, Bool.and_eq_true]
    refine ⟨hrootok.1, ?_⟩
    rw [ok_group]
    simpa [okItems] using hrootok.2
  · simp only [wfG, Bool.and_eq_true]
    exact wf_group [] d.kids
  · rw [hf]
    exact hacc

end Rox.Lemmas
