/-
  Rox.Lemmas.GrammarAttr — uniqueness of attribute names, as the builder checks it (part of
  Stage B of the grammar-soundness proof): `resolve_attributes` accepts only pairwise different
  (prefix, local name) pairs, and a namespace declaration recorded for the current start tag is
  found again by `Namespaces::exists`.
-/
import Rox.Lemmas.GrammarDefs
import Rox.Lemmas.SafeDefs

namespace Rox.Lemmas
open Rox Rox.Spec.Grammar

/-! ### `resolve_attributes` -/

theorem gattr_anyM_false {α} (f : α → Res Bool) : ∀ (l : List α), l.anyM f = .ok false →
    ∀ k ∈ l, f k = .ok false
  | [], _ => by intro k hk; cases hk
  | x :: r, h => by
    rw [List.anyM_cons, Res.bind_eq_ok] at h
    obtain ⟨b, hb, h⟩ := h
    cases b with
    | true => simp at h
    | false =>
      simp only [Bool.false_eq_true, if_false] at h
      intro k hk
      rcases List.mem_cons.mp hk with rfl | hk
      · exact hb
      · exact gattr_anyM_false f r h k hk

theorem gattr_find_congr (d1 d2 : Doc) (hns : d1.ns = d2.ns) (p : Option Bytes) :
    ∀ l, getNsIdxByPrefix.find d1 p l = getNsIdxByPrefix.find d2 p l := by
  intro l
  induction l with
  | nil => rfl
  | cons idx r ih => simp only [getNsIdxByPrefix.find, hns, ih]

theorem gattr_getNsIdx_congr (txt : Bytes) (d1 d2 : Doc) (hns : d1.ns = d2.ns) (nss : Range)
    (p1 p2 : Nat) (pfx : Bytes) (x y : Option Nat)
    (h1 : getNsIdxByPrefix txt d1 nss p1 pfx = .ok x)
    (h2 : getNsIdxByPrefix txt d2 nss p2 pfx = .ok y) : x = y := by
  unfold getNsIdxByPrefix at h1 h2
  dsimp only at h1 h2
  rw [← hns, ← gattr_find_congr d1 d2 hns] at h2
  split at h1
  · rename_i hx; rw [if_pos hx] at h2; cases h1; cases h2; rfl
  · rename_i hx; rw [if_neg hx] at h2
    split at h1
    · cases h1
    · rename_i hb; rw [if_neg hb] at h2
      rw [Res.bind_eq_ok] at h1 h2
      obtain ⟨r1, hr1, h1⟩ := h1
      obtain ⟨r2, hr2, h2⟩ := h2
      rw [hr1] at hr2
      cases hr2
      cases r1 with
      | some idx => res_norm at h1; res_norm at h2; rw [← h1, ← h2]
      | none =>
        dsimp only at h1 h2
        split at h1
        · exact absurd h1 (errPos_ne_ok _ _ _ _)
        · res_norm at h1; rename_i he; rw [if_neg he] at h2; res_norm at h2; rw [← h1, ← h2]

theorem gattr_attrNsIdx_congr (txt : Bytes) (d1 d2 : Doc) (hns : d1.ns = d2.ns) (nss : Range)
    (a1 a2 : TempAttr) (hp : a1.pfx.bytes = a2.pfx.bytes) (x y : Option Nat)
    (h1 : attrNsIdx txt d1 nss a1 = .ok x) (h2 : attrNsIdx txt d2 nss a2 = .ok y) : x = y := by
  unfold attrNsIdx at h1 h2
  rw [← hp] at h2
  split at h1
  · rename_i hx; rw [if_pos hx] at h2; cases h1; cases h2; rfl
  · rename_i hx; rw [if_neg hx] at h2
    split at h1
    · rename_i he; rw [if_pos he] at h2; cases h1; cases h2; rfl
    · rename_i he; rw [if_neg he] at h2
      exact gattr_getNsIdx_congr txt d1 d2 hns nss _ _ _ x y h1 h2

theorem gattr_expandedName_congr (d1 d2 : Doc) (hns : d1.ns = d2.ns) (n : Option Nat)
    (l1 l2 : Span) (hl : l1.bytes = l2.bytes) :
    Api.expandedName d1 n l1 = Api.expandedName d2 n l2 := by
  unfold Api.expandedName Api.nsByIdx
  rw [hns, hl]

/-- what the loop has recorded about the attributes handled so far: each has an entry at or after
`startIdx` with its local name and its namespace -/
def gattr_Rec (txt : Bytes) (nss : Range) (startIdx : Nat) (doc : Doc) (done : List TempAttr) :
    Prop :=
  ∀ d ∈ done, ∃ (k : Nat) (ad : AttrData) (dj : Doc), startIdx ≤ k ∧ doc.attrs[k]? = some ad ∧
    ad.localName.bytes = d.loc.bytes ∧ dj.ns = doc.ns ∧ attrNsIdx txt dj nss d = .ok ad.nsIdx

def gattr_key (a : TempAttr) : Bytes × Bytes := (a.pfx.bytes, a.loc.bytes)

theorem gattr_loop_nodup (txt : Bytes) (pos : Bool) (nss : Range) (startIdx : Nat) :
    ∀ (rest done : List TempAttr) (doc doc' : Doc),
      resolveAttrsLoop txt pos nss startIdx rest doc = .ok doc' →
      startIdx ≤ doc.attrs.size → gattr_Rec txt nss startIdx doc done → (done.map gattr_key).Nodup →
      ((done ++ rest).map gattr_key).Nodup := by
  intro rest
  induction rest with
  | nil => intro done doc doc' _ _ _ hnd; simpa using hnd
  | cons a r ih =>
    intro done doc doc' h hsz hrec hnd
    unfold resolveAttrsLoop at h
    rw [Res.bind_eq_ok] at h
    obtain ⟨nsIdx, hnsIdx, h⟩ := h
    rw [Res.bind_eq_ok] at h
    obtain ⟨en, hen, h⟩ := h
    rw [Res.bind_eq_ok] at h
    obtain ⟨dup, hdup, h⟩ := h
    cases dup with
    | true => exact absurd h (by simp only [if_true]; exact errPos_ne_ok _ _ _ _)
    | false =>
      simp only [Bool.false_eq_true, if_false] at h
      have hall := gattr_anyM_false _ _ hdup
      -- the new attribute differs from all handled ones
      have hnew : gattr_key a ∉ done.map gattr_key := by
        intro hmem
        obtain ⟨d, hd, hk⟩ := List.mem_map.mp hmem
        obtain ⟨k, ad, dj, hsk, hka, hloc, hdj, hdn⟩ := hrec d hd
        simp only [gattr_key, Prod.mk.injEq] at hk
        have hn : ad.nsIdx = nsIdx :=
          gattr_attrNsIdx_congr txt dj doc hdj nss d a hk.1 _ _ hdn hnsIdx
        have hklt : k < doc.attrs.size := by
          rcases Nat.lt_or_ge k doc.attrs.size with h | h
          · exact h
          · rw [Array.getElem?_eq_none h] at hka; cases hka
        have hmem : k ∈ (List.range (doc.attrs.size - startIdx)).map (· + startIdx) := by
          refine List.mem_map.mpr ⟨k - startIdx, ?_, by omega⟩
          exact List.mem_range.mpr (by omega)
        have hf := hall k hmem
        have hae : Api.attrExpanded doc k = .ok en := by
          unfold Api.attrExpanded Api.attrAt
          rw [hka]
          simp only [Res.bind_ok]
          rw [hn, gattr_expandedName_congr doc doc rfl nsIdx ad.localName a.loc (hloc.trans hk.2)]
          exact hen
        rw [hae] at hf
        simp at hf
      let ad : AttrData :=
        if pos then
          { nsIdx := nsIdx, localName := a.loc, value := a.value, range := a.range,
            qnameLen := a.qnameLen, eqLen := a.eqLen }
        else
          { nsIdx := nsIdx, localName := a.loc, value := a.value, range := (0, 0),
            qnameLen := 0, eqLen := 0 }
      have had : ad.nsIdx = nsIdx ∧ ad.localName = a.loc := by
        cases pos <;> exact ⟨rfl, rfl⟩
      have hrec' : gattr_Rec txt nss startIdx { doc with attrs := doc.attrs.push ad } (done ++ [a]) := by
        intro d hd
        rcases List.mem_append.mp hd with hd | hd
        · obtain ⟨k, ad0, dj, hsk, hka, hloc, hdj, hdn⟩ := hrec d hd
          have hklt : k < doc.attrs.size := by
            rcases Nat.lt_or_ge k doc.attrs.size with h | h
            · exact h
            · rw [Array.getElem?_eq_none h] at hka; cases hka
          refine ⟨k, ad0, dj, hsk, ?_, hloc, hdj, hdn⟩
          simp only [Array.getElem?_push]
          rw [if_neg (by omega)]
          exact hka
        · have : d = a := by simpa using hd
          subst this
          refine ⟨doc.attrs.size, ad, doc, ?_, by simp, by rw [had.2], rfl, by rw [had.1]; exact hnsIdx⟩
          exact hsz
      have := ih (done ++ [a]) _ _ h (by simp only [Array.size_push]; omega) hrec' (by
        rw [List.map_append, List.nodup_append]
        refine ⟨hnd, by simp, ?_⟩
        intro x hx y hy hxy
        simp only [List.map_cons, List.map_nil, List.mem_singleton] at hy
        subst hy; subst hxy
        exact hnew hx)
      simpa using this

/-- **`resolve_attributes` accepts no two attributes with the same prefix and local name**: equal
prefixes resolve to the same namespace, so the expanded names would be equal
(`DuplicatedAttribute`). -/
theorem resolveAttributes_nodup (txt : Bytes) (c c' : Ctx) (nss r : Range)
    (h : resolveAttributes txt c nss = .ok (c', r)) :
    (c.curAttrs.map fun a => (a.pfx.bytes, a.loc.bytes)).Nodup := by
  unfold resolveAttributes at h
  split at h
  · rename_i he
    have : c.curAttrs = [] := by simpa using he
    rw [this]; exact List.nodup_nil
  · split at h
    · cases h
    · rw [Res.bind_eq_ok] at h
      obtain ⟨doc, hd, _⟩ := h
      have := gattr_loop_nodup txt c.positions nss c.doc.attrs.size c.curAttrs [] c.doc doc hd
        (Nat.le_refl _) (by intro d hd; cases hd) List.nodup_nil
      rw [List.nil_append] at this
      exact this

/-! ### `Namespaces::exists` after `push_ns` -/

/-- `values'` extends `values` -/
def gattr_Ext (values values' : Array Namespace) : Prop :=
  ∀ (i : Nat) (v : Namespace), values[i]? = some v → values'[i]? = some v

theorem gattr_existsAux_true_append (values values' : Array Namespace) (p : Option Bytes)
    (hext : gattr_Ext values values') (l2 : List Nat) :
    ∀ l, Namespaces.existsAux values p l = .ok true →
      Namespaces.existsAux values' p (l ++ l2) = .ok true := by
  intro l
  induction l with
  | nil => intro h; simp [Namespaces.existsAux] at h
  | cons idx r ih =>
    intro h
    simp only [Namespaces.existsAux, List.cons_append] at h ⊢
    split at h
    · cases h
    · rename_i v hv
      rw [hext _ _ hv]
      dsimp only
      split at h
      · rename_i hb; simp only [hb, if_true]
      · rename_i hb; simp only [hb]; exact ih h

theorem gattr_existsAux_false_append (values values' : Array Namespace) (p : Option Bytes)
    (hext : gattr_Ext values values') (l2 : List Nat) :
    ∀ l, Namespaces.existsAux values p l = .ok false →
      Namespaces.existsAux values' p (l ++ l2) = Namespaces.existsAux values' p l2 := by
  intro l
  induction l with
  | nil => intro _; rfl
  | cons idx r ih =>
    intro h
    simp only [Namespaces.existsAux, List.cons_append] at h ⊢
    split at h
    · cases h
    · rename_i v hv
      rw [hext _ _ hv]
      dsimp only
      split at h
      · cases h
      · rename_i hb; simp only [hb]; exact ih h

/-- the shape of a successful `push_ns` -/
theorem gattr_pushNs_shape (ns ns' : Namespaces) (name : Option Span) (uri : Str)
    (h : ns.pushNs name uri = .ok ns') :
    ∃ idx v, ns'.treeOrder = ns.treeOrder.push idx ∧ ns'.values[idx]? = some v ∧
      v.nameBytes = name.map (·.bytes) ∧ gattr_Ext ns.values ns'.values := by
  unfold Namespaces.pushNs at h
  rw [Res.bind_eq_ok] at h
  obtain ⟨⟨si, found⟩, hs, h⟩ := h
  dsimp only at h
  split at h
  · rename_i hf
    subst hf
    unfold Namespaces.search at hs
    obtain ⟨vi, v, hvi, hv, hn, _⟩ := Rox.Props.C06.searchGo_found ns _ _ _ _ _ hs
    rw [hvi] at h
    res_norm at h
    subst h
    exact ⟨vi, v, rfl, hv, hn, fun (_ : Nat) _ hw => hw⟩
  · split at h
    · cases h
    · res_norm at h
      subst h
      refine ⟨ns.values.size, ⟨name, uri⟩, rfl, by simp, rfl, ?_⟩
      intro (i : Nat) w hw
      have hi : i < ns.values.size := by
        rcases Nat.lt_or_ge i ns.values.size with h | h
        · exact h
        · rw [Array.getElem?_eq_none h] at hw; cases hw
      simp only [Array.getElem?_push]
      rw [if_neg (by omega)]
      exact hw

theorem gattr_exists_unfold (ns : Namespaces) (start : Nat) (p : Option Bytes) (b : Bool)
    (h : ns.exists start p = .ok b) :
    start ≤ ns.treeOrder.size ∧
      Namespaces.existsAux ns.values p (ns.treeOrder.toList.drop start) = .ok b := by
  unfold Namespaces.exists at h
  split at h
  · cases h
  · exact ⟨by omega, h⟩

theorem gattr_exists_push (ns ns' : Namespaces) (start idx : Nat) (p : Option Bytes)
    (ht : ns'.treeOrder = ns.treeOrder.push idx) (hs : start ≤ ns.treeOrder.size) :
    ns'.exists start p =
      Namespaces.existsAux ns'.values p (ns.treeOrder.toList.drop start ++ [idx]) := by
  unfold Namespaces.exists
  rw [ht, if_neg (by simp only [Array.size_push]; omega), Array.toList_push,
    List.drop_append_of_le_length (by simpa using hs)]

/-- a namespace that `exists` has found is still found after one more `push_ns` -/
theorem exists_mono_pushNs (ns ns' : Namespaces) (start : Nat) (name : Option Span) (uri : Str)
    (hp : ns.pushNs name uri = .ok ns') (p : Option Bytes) (hex : ns.exists start p = .ok true) :
    ns'.exists start p = .ok true := by
  obtain ⟨idx, v, ht, _, _, hext⟩ := gattr_pushNs_shape ns ns' name uri hp
  obtain ⟨hs, ha⟩ := gattr_exists_unfold ns start p true hex
  rw [gattr_exists_push ns ns' start idx p ht hs]
  exact gattr_existsAux_true_append _ _ p hext _ _ ha

/-- the namespace just pushed is found by `exists` (from any start index from which `exists` ran
through without finding the prefix before) -/
theorem exists_after_pushNs (ns ns' : Namespaces) (start : Nat) (name : Option Span) (uri : Str)
    (hp : ns.pushNs name uri = .ok ns') (hex : ns.exists start (name.map (·.bytes)) = .ok false) :
    ns'.exists start (name.map (·.bytes)) = .ok true := by
  obtain ⟨idx, v, ht, hv, hn, hext⟩ := gattr_pushNs_shape ns ns' name uri hp
  obtain ⟨hs, ha⟩ := gattr_exists_unfold ns start _ false hex
  rw [gattr_exists_push ns ns' start idx _ ht hs,
    gattr_existsAux_false_append _ _ _ hext _ _ ha]
  simp only [Namespaces.existsAux, hv, hn, beq_self_eq_true, if_true]

end Rox.Lemmas
