/-
  Rox.Lemmas.AttrEntity — C07 in attribute values: a reference to an internal general entity whose
  replacement text is literal behaves exactly as that text written in its place (each part
  normalised per XML 3.3.3; line ends are normalised per entity, so a CR LF pair is only recognised
  inside one part).
-/
import Rox.Props.C05
import Rox.Lemmas.RefSpec
import Rox.Lemmas.Decode

namespace Rox.Lemmas
open Rox Rox.Spec Rox.Props.C04

/-- literal characters of an attribute value or of an entity's replacement text: neither `&` nor
`<` -/
def litOk (l : Bytes) : Prop := ∀ b ∈ l, b ≠ bAmp ∧ b ≠ bLt

/-- **Entity reference in an attribute value, entity depth 0**: the value is `p &name; q` with
literal `p`, `q`; `name` is declared with a literal replacement text `e.value`; the reference is
recognised by `consume_reference` at its position (`hcr`). If `normalize_attribute` succeeds, the
result is owned and equals the normalisation of the three parts written one after the other, and
the loop detector is back where it was. -/
theorem normalizeAttribute_entity (T : Tables) (txt : Bytes) (c c' : Ctx) (value : Span) (out : Str)
    (p q : Bytes) (name : Span) (e : Entity)
    (hd : c.ld.depth = 0)
    (hval : value.bytes = p ++ [bAmp] ++ name.bytes ++ [bSemi] ++ q)
    (hp : litOk p) (hq : litOk q) (hv : litOk e.value.bytes)
    (hcr : (Stream.mk (value.off + p.length) ([bAmp] ++ name.bytes ++ [bSemi] ++ q)).consumeReference T txt =
      .ok (⟨value.off + p.length + name.bytes.length + 2, q⟩, some (.entity name)))
    (hfind : findEntity c.entities name.bytes = some e)
    (h : normalizeAttribute T txt c value = .ok (c', out)) :
    out = .owned (attrLit p ++ attrLit e.value.bytes ++ attrLit q) ∧ c'.ld = ⟨0, 0⟩ := by
  have hval' : value.bytes = p ++ (bAmp :: (name.bytes ++ (bSemi :: q))) := by
    rw [hval]; simp
  have hcr' : (Stream.mk (value.off + p.length) (bAmp :: (name.bytes ++ (bSemi :: q)))).consumeReference
      T txt = .ok (⟨value.off + p.length + name.bytes.length + 2, q⟩, some (.entity name)) := by
    have : bAmp :: (name.bytes ++ (bSemi :: q)) = [bAmp] ++ name.bytes ++ [bSemi] ++ q := by simp
    rw [this]; exact hcr
  have hneed : value.bytes.any (fun b => b == bAmp || b == bTab || b == bLF || b == bCR) = true := by
    rw [hval']; simp
  unfold normalizeAttribute at h
  simp only [hneed, if_true] at h
  rw [Res.bind_eq_ok] at h
  obtain ⟨⟨buf, ld, tr⟩, hrec, h⟩ := h
  rw [Res.bind_eq_ok] at h
  obtain ⟨o, hfin, h⟩ := h
  res_norm at h
  obtain ⟨rfl, rfl⟩ := h
  have hdf : depthFuel = 11 + 1 := rfl
  rw [hdf, normAttrRec] at hrec
  generalize value.bytes.length + 1 = fuel0 at hrec
  rw [hval'] at hrec
  -- (1) the literal run `p`
  obtain ⟨fuel1, h1⟩ := normAttrLoop_lit T txt c.entities _ c.ld c.trace _ (Or.inr ⟨_, rfl⟩) _ p
    fuel0 value.off {} (fun x hx => (hp x hx).1) hrec
  -- (2) the reference
  cases fuel1 with
  | zero => simp [normAttrLoop] at h1
  | succ f1 =>
    rw [normAttrLoop] at h1
    have hne : (bAmp != bAmp) = false := by decide
    have hir : c.ld.incRefs = some c.ld := by simp [LD.incRefs, hd]
    have hid : c.ld.incDepth = some ⟨1, c.ld.refs⟩ := by simp [LD.incDepth, hd]
    simp only [hne, Bool.false_eq_true, if_false, hcr', Res.bind_ok, hfind, hir, hid] at h1
    rw [Res.bind_eq_ok] at h1
    obtain ⟨_, _, h1⟩ := h1
    rw [Res.bind_eq_ok] at h1
    obtain ⟨⟨buf2, ld3, tr3⟩, hin, h1⟩ := h1
    have h11 : (11 : Nat) = 10 + 1 := rfl
    rw [h11, normAttrRec] at hin
    rw [Props.C05.normAttrLoop_literal T txt c.entities _ _ _ e.value.bytes _ _ _
      (Nat.lt_succ_self _) hv] at hin
    simp only [Res.ok.injEq, Prod.mk.injEq] at hin
    obtain ⟨rfl, rfl, rfl⟩ := hin
    dsimp only at h1
    have hdd : (LD.mk 1 c.ld.refs).decDepth = ⟨0, 0⟩ := by simp [LD.decDepth]
    rw [hdd] at h1
    -- (3) the literal run `q`
    have hq' : q = q ++ [] := by simp
    rw [hq'] at h1
    obtain ⟨fuel2, h2⟩ := normAttrLoop_lit T txt c.entities _ _ _ [] (Or.inl rfl) _ q
      f1 _ _ (fun x hx => (hq x hx).1) h1
    cases fuel2 with
    | zero => simp [normAttrLoop] at h2
    | succ f2 =>
      rw [normAttrLoop] at h2
      simp only [Res.ok.injEq, Prod.mk.injEq] at h2
      obtain ⟨rfl, rfl, rfl⟩ := h2
      refine ⟨?_, rfl⟩
      have ho := finish_content _ _ hfin
      have hpc : (Props.C05.pushLit (Props.C05.pushLit (Props.C05.pushLit {} p) e.value.bytes) q).pendingCr
          = false := by
        rw [pushLit_pending, pushLit_pending, pushLit_pending]
      have hc : Props.C04.content (Props.C05.pushLit (Props.C05.pushLit (Props.C05.pushLit {} p) e.value.bytes) q) =
          Props.C05.out (Props.C05.pushLit (Props.C05.pushLit (Props.C05.pushLit {} p) e.value.bytes) q) := by
        simp [Props.C04.content, TextBuffer.resolvePendingCr, hpc, Props.C05.out]
      rw [hc, Props.C05.pushLit_spec, Props.C05.pushLit_spec, Props.C05.pushLit_spec] at ho
      subst ho
      simp [Props.C05.out]

end Rox.Lemmas
