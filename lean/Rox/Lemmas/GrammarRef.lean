/-
  Rox.Lemmas.GrammarRef — references, as the builder checks them (part of Stage B of the
  grammar-soundness proof): without declared entities (no DOCTYPE), if `process_text` /
  `normalize_attribute` accept a run of character data / an attribute value, every `&` in it begins
  a reference to a predefined entity or a character reference (`Rox.Spec.Grammar.RefText`).
-/
import Rox.Lemmas.GrammarDefs
import Rox.Lemmas.Size
import Rox.Lemmas.RefSpec

namespace Rox.Lemmas
open Rox Rox.Spec.Grammar

/-! ### What the cursor primitives consumed (no validity hypotheses: the outcome is given) -/

theorem gref_try (s : Stream) (c : UInt8) (h : (s.tryConsumeByte c).2 = true) :
    s.rest = c :: (s.tryConsumeByte c).1.rest ∧ (s.tryConsumeByte c).1.pos = s.pos + 1 := by
  unfold Stream.tryConsumeByte at h ⊢
  split
  · rename_i b r hr
    rw [hr] at h
    simp only at h
    split
    · rename_i hb
      have := eq_of_beq hb
      subst this
      exact ⟨hr, rfl⟩
    · rename_i hb
      simp [hb] at h
  · rename_i hr
    rw [hr] at h
    simp at h

theorem gref_try_false (s : Stream) (c : UInt8) (h : (s.tryConsumeByte c).2 = false) :
    (s.tryConsumeByte c).1 = s := by
  unfold Stream.tryConsumeByte at h ⊢
  split
  · rename_i b r hr
    rw [hr] at h
    simp only at h
    split
    · rename_i hb
      simp [hb] at h
    · rfl
  · rfl

theorem gref_span (f : UInt8 → Bool) : ∀ (l : Bytes) (pos : Nat) (acc : Bytes),
    ∃ run, (Stream.spanBytesAux f pos acc l).2 = acc.reverse ++ run ∧
      l = run ++ (Stream.spanBytesAux f pos acc l).1.rest ∧ (∀ b ∈ run, f b = true) ∧
      (Stream.spanBytesAux f pos acc l).1.pos = pos + run.length := by
  intro l
  induction l with
  | nil =>
    intro pos acc
    exact ⟨[], by simp [Stream.spanBytesAux]⟩
  | cons b r ih =>
    intro pos acc
    by_cases hb : f b = true
    · obtain ⟨run, h1, h2, h3, h4⟩ := ih (pos + 1) (b :: acc)
      refine ⟨b :: run, ?_, ?_, ?_, ?_⟩
      · simp only [Stream.spanBytesAux, hb, if_true]
        rw [h1]; simp
      · simp only [Stream.spanBytesAux, hb, if_true]
        simp only [List.cons_append]
        rw [← h2]
      · intro x hx
        rcases List.mem_cons.mp hx with rfl | hx
        · exact hb
        · exact h3 x hx
      · simp only [Stream.spanBytesAux, hb, if_true]
        rw [h4]; simp only [List.length_cons]; omega
    · refine ⟨[], ?_, ?_, ?_, ?_⟩
      · simp [Stream.spanBytesAux, hb]
      · simp [Stream.spanBytesAux, hb]
      · intro x hx; cases hx
      · simp [Stream.spanBytesAux, hb]

theorem gref_consumeBytes (s : Stream) (f : UInt8 → Bool) :
    s.rest = (s.consumeBytes f).2.bytes ++ (s.consumeBytes f).1.rest ∧
    (∀ b ∈ (s.consumeBytes f).2.bytes, f b = true) ∧
    (s.consumeBytes f).1.pos = s.pos + (s.consumeBytes f).2.bytes.length := by
  unfold Stream.consumeBytes
  obtain ⟨run, h1, h2, h3, h4⟩ := gref_span f s.rest s.pos []
  revert h1 h2 h3 h4
  generalize Stream.spanBytesAux f s.pos [] s.rest = res
  obtain ⟨s', run'⟩ := res
  intro h1 h2 h3 h4
  simp only [List.reverse_nil, List.nil_append] at h1
  subst h1
  exact ⟨h2, h3, h4⟩

theorem gref_finishRef (s s' : Stream) (r r' : Reference) (h : s.finishRef r = (s', some r')) :
    r' = r ∧ s.rest = bSemi :: s'.rest ∧ s'.pos = s.pos + 1 := by
  unfold Stream.finishRef at h
  split at h
  · rename_i b r0 hr
    split at h
    · rename_i hb
      have := eq_of_beq hb
      subst this
      simp only [Prod.mk.injEq, Option.some.injEq] at h
      obtain ⟨e1, e2⟩ := h
      subst e1
      exact ⟨e2.symm, hr, rfl⟩
    · simp at h
  · simp at h

theorem gref_numericRef_dec (T : Tables) (s s' : Stream) (r : Reference)
    (h : s.numericRef T false = (s', some r)) :
    ∃ ds n, (∀ d ∈ ds, isDecDigit d = true) ∧ parseU32 ds 10 = some n ∧ charRefOk T n ∧
      s.rest = ds ++ bSemi :: s'.rest ∧ s'.pos = s.pos + ds.length + 1 := by
  unfold Stream.numericRef at h
  simp only [Bool.false_eq_true, if_false] at h
  obtain ⟨h1, h2, h3⟩ := gref_consumeBytes s isDecDigit
  revert h1 h2 h3 h
  generalize s.consumeBytes isDecDigit = sv
  intro h h1 h2 h3
  split at h
  · simp at h
  · rename_i n hn
    try dsimp only at h
    by_cases hx : charIsXmlChar T (if isScalar n then n else 0xFFFD) = true
    · rw [hx] at h
      simp only [Bool.not_true, Bool.false_eq_true, if_false] at h
      obtain ⟨_, e2, e3⟩ := gref_finishRef _ _ _ _ h
      refine ⟨sv.2.bytes, n, h2, hn, hx, ?_, ?_⟩
      · rw [h1, e2]
      · rw [e3, h3]
    · have hx' : charIsXmlChar T (if isScalar n then n else 0xFFFD) = false := by
        simpa using hx
      rw [hx'] at h
      simp at h

theorem gref_numericRef_hex (T : Tables) (s s' : Stream) (r : Reference)
    (h : s.numericRef T true = (s', some r)) :
    ∃ hs n, (∀ d ∈ hs, isHexDigit d = true) ∧ parseU32 hs 16 = some n ∧ charRefOk T n ∧
      s.rest = hs ++ bSemi :: s'.rest ∧ s'.pos = s.pos + hs.length + 1 := by
  unfold Stream.numericRef at h
  simp only [if_true] at h
  obtain ⟨h1, h2, h3⟩ := gref_consumeBytes s isHexDigit
  revert h1 h2 h3 h
  generalize s.consumeBytes isHexDigit = sv
  intro h h1 h2 h3
  split at h
  · simp at h
  · rename_i n hn
    try dsimp only at h
    by_cases hx : charIsXmlChar T (if isScalar n then n else 0xFFFD) = true
    · rw [hx] at h
      simp only [Bool.not_true, Bool.false_eq_true, if_false] at h
      obtain ⟨_, e2, e3⟩ := gref_finishRef _ _ _ _ h
      refine ⟨sv.2.bytes, n, h2, hn, hx, ?_, ?_⟩
      · rw [h1, e2]
      · rw [e3, h3]
    · have hx' : charIsXmlChar T (if isScalar n then n else 0xFFFD) = false := by
        simpa using hx
      rw [hx'] at h
      simp at h

theorem gref_skipNameTail (T : Tables) : ∀ (fuel : Nat) (s : Stream) (acc : Bytes) (s' : Stream)
    (run : Bytes), Stream.skipNameTail T fuel s acc = .ok (s', run) →
    ∃ more, run = acc.reverse ++ more ∧ s.rest = more ++ s'.rest ∧
      s'.pos = s.pos + more.length := by
  intro fuel
  induction fuel with
  | zero => intro s acc s' run h; simp [Stream.skipNameTail] at h
  | succ n ih =>
    intro s acc s' run h
    unfold Stream.skipNameTail at h
    split at h
    · rename_i hr
      simp only [Res.ok.injEq, Prod.mk.injEq] at h
      obtain ⟨e1, e2⟩ := h
      subst e1; subst e2
      exact ⟨[], by simp⟩
    · split at h
      · simp at h
      · rename_i c w hd
        split at h
        · split at h
          · rename_i hw
            obtain ⟨more, h1, h2, h3⟩ := ih _ _ _ _ h
            simp only at h2 h3
            refine ⟨s.rest.take w ++ more, ?_, ?_, ?_⟩
            · rw [h1]; simp
            · rw [List.append_assoc, ← h2, List.take_append_drop]
            · rw [h3, List.length_append, List.length_take, Nat.min_eq_left hw]; omega
          · simp at h
        · simp only [Res.ok.injEq, Prod.mk.injEq] at h
          obtain ⟨e1, e2⟩ := h
          subst e1; subst e2
          exact ⟨[], by simp⟩

theorem gref_consumeName (T : Tables) (txt : Bytes) (s s' : Stream) (name : Span)
    (h : s.consumeName T txt = .ok (s', name)) :
    s.rest = name.bytes ++ s'.rest ∧ s'.pos = s.pos + name.bytes.length := by
  unfold Stream.consumeName at h
  rw [Res.bind_eq_ok] at h
  obtain ⟨⟨s1, n1⟩, h1, h⟩ := h
  simp only at h
  split at h
  · exact absurd h (errFrom_ne_ok _ _ _ _)
  · res_norm at h
    obtain ⟨e1, e2⟩ := h
    subst e1; subst e2
    unfold Stream.skipName at h1
    split at h1
    · simp only [Res.ok.injEq, Prod.mk.injEq] at h1
      obtain ⟨e1, e2⟩ := h1
      subst e1; subst e2
      simp
    · split at h1
      · simp at h1
      · split at h1
        · split at h1
          · rename_i hw
            rw [Res.bind_eq_ok] at h1
            obtain ⟨⟨s2, run⟩, h2, h1⟩ := h1
            res_norm at h1
            obtain ⟨e1, e2⟩ := h1
            subst e1; subst e2
            obtain ⟨more, g1, g2, g3⟩ := gref_skipNameTail T _ _ _ _ _ h2
            simp only [List.reverse_reverse] at g1
            simp only at g2 g3 ⊢
            subst g1
            refine ⟨?_, ?_⟩
            · rw [List.append_assoc, ← g2, List.take_append_drop]
            · rw [g3, List.length_append, List.length_take, Nat.min_eq_left hw]; omega
          · simp at h1
        · exact absurd h1 (errFrom_ne_ok _ _ _ _)

theorem gref_namedRef (T : Tables) (txt : Bytes) (s s' : Stream) (ch : Nat)
    (h : s.namedRef T txt = .ok (s', some (.char ch))) :
    ∃ n, n ∈ predefined ∧ s.rest = n ++ bSemi :: s'.rest ∧ s'.pos = s.pos + n.length + 1 := by
  unfold Stream.namedRef at h
  split at h
  · simp at h
  · simp at h
  · simp at h
  · rename_i s2 name hn
    obtain ⟨hn1, hn2⟩ := gref_consumeName T txt _ _ _ hn
    simp only [Res.ok.injEq] at h
    have hall : ∀ r0 : Reference, (name.bytes ∈ predefined ∨ r0 = .entity name) →
        s2.finishRef r0 = (s', some (.char ch)) →
        ∃ n, n ∈ predefined ∧ s.rest = n ++ bSemi :: s'.rest ∧ s'.pos = s.pos + n.length + 1 := by
      intro r0 hr0 hf
      obtain ⟨e1, e2, e3⟩ := gref_finishRef _ _ _ _ hf
      rcases hr0 with hp | he
      · refine ⟨name.bytes, hp, ?_, ?_⟩
        · rw [hn1, e2]
        · rw [e3, hn2]
      · rw [he] at e1; cases e1
    refine hall _ ?_ h
    split
    · rename_i hb; left; rw [eq_of_beq hb]; simp [predefined]
    · split
      · rename_i hb; left; rw [eq_of_beq hb]; simp [predefined]
      · split
        · rename_i hb; left; rw [eq_of_beq hb]; simp [predefined]
        · split
          · rename_i hb; left; rw [eq_of_beq hb]; simp [predefined]
          · split
            · rename_i hb; left; rw [eq_of_beq hb]; simp [predefined]
            · right; rfl

/-- A recognised character reference (numeric or predefined) is an instance of production [67]
`Reference`, and `consume_reference` has consumed exactly its bytes. -/
theorem gref_consumeReference (T : Tables) (txt : Bytes) (s s' : Stream) (ch : Nat)
    (h : s.consumeReference T txt = .ok (s', some (.char ch))) :
    ∃ ref, Ref T ref ∧ s.rest = ref ++ s'.rest ∧ s'.pos = s.pos + ref.length := by
  unfold Stream.consumeReference at h
  simp only at h
  split at h
  · simp at h
  · rename_i hp1
    have hp1' : (s.tryConsumeByte bAmp).2 = true := by simpa using hp1
    obtain ⟨a1, a2⟩ := gref_try s bAmp hp1'
    revert a1 a2 h
    generalize (s.tryConsumeByte bAmp).1 = s1
    intro h a1 a2
    split at h
    · rename_i hp2
      obtain ⟨b1, b2⟩ := gref_try s1 bHash hp2
      revert b1 b2 h
      generalize (s1.tryConsumeByte bHash).1 = s2
      intro h b1 b2
      simp only [Res.ok.injEq] at h
      cases hx : (s2.tryConsumeByte bX).2 with
      | true =>
        obtain ⟨c1, c2⟩ := gref_try s2 bX hx
        rw [hx] at h
        obtain ⟨hs, n, d1, d2, d3, d4, d5⟩ := gref_numericRef_hex T _ _ _ h
        refine ⟨[bAmp, bHash, bX] ++ hs ++ [bSemi], Ref.hex hs n d1 d2 d3, ?_, ?_⟩
        · rw [a1, b1, c1, d4]; simp
        · rw [d5, c2, b2, a2]; simp only [List.length_append, List.length_cons, List.length_nil]; omega
      | false =>
        have c1 := gref_try_false s2 bX hx
        rw [hx, c1] at h
        obtain ⟨ds, n, d1, d2, d3, d4, d5⟩ := gref_numericRef_dec T _ _ _ h
        refine ⟨[bAmp, bHash] ++ ds ++ [bSemi], Ref.dec ds n d1 d2 d3, ?_, ?_⟩
        · rw [a1, b1, d4]; simp
        · rw [d5, b2, a2]; simp only [List.length_append, List.length_cons, List.length_nil]; omega
    · rename_i hp2
      have hp2' : (s1.tryConsumeByte bHash).2 = false := by simpa using hp2
      rw [gref_try_false s1 bHash hp2'] at h
      obtain ⟨n, d1, d2, d3⟩ := gref_namedRef T txt _ _ _ h
      refine ⟨[bAmp] ++ n ++ [bSemi], Ref.named n d1, ?_, ?_⟩
      · rw [a1, d2]; simp
      · rw [d3, a2]; simp only [List.length_append, List.length_cons, List.length_nil]; omega

/-! ### Runs without `&` and `<` -/

theorem gref_lit_all (T : Tables) : ∀ l : Bytes, bAmp ∉ l → bLt ∉ l → RefText T l := by
  intro l
  induction l with
  | nil => intro _ _; exact RefText.nil
  | cons b r ih =>
    intro h1 h2
    refine RefText.lit b r ?_ ?_ (ih ?_ ?_)
    · intro e; exact h1 (by rw [e]; exact List.mem_cons_self ..)
    · intro e; exact h2 (by rw [e]; exact List.mem_cons_self ..)
    · intro hm; exact h1 (List.mem_cons_of_mem _ hm)
    · intro hm; exact h2 (List.mem_cons_of_mem _ hm)

/-! ### The two loops without declared entities -/

theorem gref_processTextLoop (T : Tables) (txt : Bytes) (lower : Token → Ctx → Res Ctx)
    (range : Range) :
    ∀ (fuel : Nat) (s : Stream) (buf buf' : TextBuffer) (c c' : Ctx), c.entities = [] →
      bLt ∉ s.rest → processTextLoop T txt lower range fuel s buf c = .ok (buf', c') →
      RefText T s.rest ∧ c' = c := by
  intro fuel
  induction fuel with
  | zero => intro s buf buf' c c' _ _ h; simp [processTextLoop] at h
  | succ fuel ih =>
    intro s buf buf' c c' he hlt h
    simp only [processTextLoop] at h
    split at h
    · rename_i hend
      res_norm at h
      have : s.rest = [] := by simpa [Stream.atEnd] using hend
      rw [this]
      exact ⟨RefText.nil, h.2.symm⟩
    · rw [Res.bind_eq_ok] at h
      obtain ⟨⟨s1, chunk⟩, hchunk, h⟩ := h
      try dsimp only at h
      unfold parseNextChunk at hchunk
      split at hchunk
      · simp at hchunk
      · rename_i b r hr
        split at hchunk
        · rw [Res.bind_eq_ok] at hchunk
          obtain ⟨⟨s2, ref⟩, href, hchunk⟩ := hchunk
          try dsimp only at hchunk
          split at hchunk
          · rename_i ch
            res_norm at hchunk
            obtain ⟨e1, e2⟩ := hchunk
            subst e1; subst e2
            obtain ⟨rf, g1, g2, _⟩ := gref_consumeReference T txt _ _ _ href
            have hlt' : bLt ∉ s2.rest := by
              intro hm; apply hlt; rw [g2]; exact List.mem_append_right _ hm
            try dsimp only at h
            split at h
            · obtain ⟨k1, k2⟩ := ih _ _ _ _ _ he hlt' h
              rw [g2]
              exact ⟨RefText.ref rf _ g1 k1, k2⟩
            · obtain ⟨k1, k2⟩ := ih _ _ _ _ _ he hlt' h
              rw [g2]
              exact ⟨RefText.ref rf _ g1 k1, k2⟩
          · rw [he] at hchunk
            simp only [findEntity, List.find?_nil] at hchunk
            exact absurd hchunk (errFrom_ne_ok _ _ _ _)
          · exact absurd hchunk (errFrom_ne_ok _ _ _ _)
        · rename_i hb
          simp only [Res.ok.injEq, Prod.mk.injEq] at hchunk
          obtain ⟨e1, e2⟩ := hchunk
          subst e1; subst e2
          try dsimp only at h
          rw [hr] at hlt ⊢
          have hlt' : bLt ∉ r := fun hm => hlt (List.mem_cons_of_mem _ hm)
          obtain ⟨k1, k2⟩ := ih _ _ _ _ _ he hlt' h
          refine ⟨RefText.lit b r ?_ ?_ k1, k2⟩
          · intro e; apply hb; rw [e]; rfl
          · intro e; apply hlt; rw [e]; exact List.mem_cons_self ..

theorem gref_normAttrLoop (T : Tables) (txt : Bytes)
    (rec : Span → TextBuffer → LD → List Ev → Res (TextBuffer × LD × List Ev)) :
    ∀ (fuel : Nat) (s : Stream) (buf : TextBuffer) (ld : LD) (tr : List Ev)
      (buf' : TextBuffer) (ld' : LD) (tr' : List Ev), bLt ∉ s.rest →
      normAttrLoop T txt [] rec fuel s buf ld tr = .ok (buf', ld', tr') →
      RefText T s.rest := by
  intro fuel
  induction fuel with
  | zero => intro s buf ld tr buf' ld' tr' _ h; simp [normAttrLoop] at h
  | succ fuel ih =>
    intro s buf ld tr buf' ld' tr' hlt h
    simp only [normAttrLoop] at h
    split at h
    · rename_i hr
      rw [hr]; exact RefText.nil
    · rename_i b r hr
      split at h
      · rename_i hb
        split at h
        · exact absurd h (errAt_ne_ok _ _ _ _)
        · rw [hr] at hlt ⊢
          have hlt' : bLt ∉ r := fun hm => hlt (List.mem_cons_of_mem _ hm)
          have k1 := ih _ _ _ _ _ _ _ hlt' h
          refine RefText.lit b r ?_ ?_ k1
          · intro e; rw [e] at hb; simp at hb
          · intro e; apply hlt; rw [e]; exact List.mem_cons_self ..
      · rw [Res.bind_eq_ok] at h
        obtain ⟨⟨s2, ref⟩, href, h⟩ := h
        try dsimp only at h
        split at h
        · rename_i ch
          obtain ⟨rf, g1, g2, _⟩ := gref_consumeReference T txt _ _ _ href
          have hlt' : bLt ∉ s2.rest := by
            intro hm; apply hlt; rw [g2]; exact List.mem_append_right _ hm
          split at h
          · split at h
            · exact absurd h (errFrom_ne_ok _ _ _ _)
            · have k1 := ih _ _ _ _ _ _ _ hlt' h
              rw [g2]
              exact RefText.ref rf _ g1 k1
          · have k1 := ih _ _ _ _ _ _ _ hlt' h
            rw [g2]
            exact RefText.ref rf _ g1 k1
        · simp only [findEntity, List.find?_nil] at h
          exact absurd h (errFrom_ne_ok _ _ _ _)
        · exact absurd h (errFrom_ne_ok _ _ _ _)

/-- `process_text` without declared entities: the raw character data has well-formed references
only, and the context changes by at most one `append_text`. -/
theorem processText_noent (T : Tables) (txt : Bytes) (lower : Token → Ctx → Res Ctx) (c c' : Ctx)
    (t : Span) (r : Range) (hent : c.entities = []) (hsl : sliceBytes txt r.1 r.2 = t.bytes)
    (hlt : bLt ∉ t.bytes) (h : processText T txt lower c t r = .ok c') :
    RefText T t.bytes ∧ (c' = c ∨ ∃ s, c.appendText s r = .ok c') := by
  unfold processText at h
  split at h
  · rename_i hany
    refine ⟨gref_lit_all T _ ?_ hlt, Or.inr ⟨_, h⟩⟩
    intro hm
    have : (t.bytes.any fun b => b == bAmp || b == bCR) = true :=
      List.any_eq_true.mpr ⟨bAmp, hm, by simp⟩
    rw [this] at hany
    simp at hany
  · rw [Res.bind_eq_ok] at h
    obtain ⟨⟨buf, c1⟩, h1, h⟩ := h
    simp only [Stream.ofRange, hsl] at h1
    try dsimp only at h
    obtain ⟨k1, k2⟩ := gref_processTextLoop T txt lower r _ _ _ _ _ _ hent hlt h1
    subst k2
    refine ⟨k1, ?_⟩
    unfold flushBuffer at h
    split at h
    · rw [Res.bind_eq_ok] at h
      obtain ⟨out, _, h⟩ := h
      exact Or.inr ⟨_, h⟩
    · simp only [Res.ok.injEq] at h
      exact Or.inl h.symm

/-- `normalize_attribute` without declared entities: the raw value has well-formed references only;
only the loop detector and the ghost trace of the context may change. -/
theorem normalizeAttribute_noent (T : Tables) (txt : Bytes) (c c' : Ctx) (v : Span) (s : Str)
    (hent : c.entities = []) (hlt : bLt ∉ v.bytes)
    (h : normalizeAttribute T txt c v = .ok (c', s)) :
    RefText T v.bytes ∧ ∃ ld tr, c' = { c with ld := ld, trace := tr } := by
  unfold normalizeAttribute at h
  split at h
  · rw [Res.bind_eq_ok] at h
    obtain ⟨⟨buf, ld, tr⟩, h1, h⟩ := h
    rw [Res.bind_eq_ok] at h
    obtain ⟨out, h2, h⟩ := h
    res_norm at h
    obtain ⟨e1, e2⟩ := h
    subst e1; subst e2
    refine ⟨?_, ld, tr, rfl⟩
    rw [hent] at h1
    simp only [depthFuel, normAttrRec] at h1
    exact gref_normAttrLoop T txt _ _ _ _ _ _ _ _ _ hlt h1
  · rename_i hany
    res_norm at h
    obtain ⟨e1, e2⟩ := h
    subst e1; subst e2
    refine ⟨gref_lit_all T _ ?_ hlt, c.ld, c.trace, rfl⟩
    intro hm
    apply hany
    exact List.any_eq_true.mpr ⟨bAmp, hm, by simp⟩

end Rox.Lemmas
