/-
  Rox.Lemmas.RtBuild5 — the builder fed with the expected tokens of a whole document of the class
  `Rox.Spec.Canon5` (full character repertoire) builds exactly the expected arena.

  The builder looks at the bytes of the payloads only to choose the fast paths of `processText` and
  `normalizeAttribute` (no `&`, CR / TAB, LF byte) and to compare names; a byte below 128 of a UTF-8
  string is one of its characters (`chars_ascii_mem`), so the character predicates of the class give
  the byte facts. Everything else is the proof of `Rox.Lemmas.RtBuild4`.
-/
import Rox.Spec.Canon5
import Rox.Lemmas.RtBuild4

namespace Rox.Lemmas
open Rox Rox.Spec.Canon Rox.Spec.Canon4 Rox.Spec.Canon5

namespace RtB5
open RtB RtB4

/-! ### From characters to bytes -/

theorem isCont_ge {b : UInt8} (h : isCont b = true) : ¬ b < 128 := by
  simp only [isCont, Bool.and_eq_true, decide_eq_true_eq] at h
  intro h2
  exact absurd (UInt8.lt_of_lt_of_le h2 h.1) (UInt8.lt_irrefl _)

theorem charsAux_ascii_mem : ∀ (fuel : Nat) (bs : Bytes) (cs : List Nat),
    charsAux fuel bs = some cs → ∀ (k : Nat) (b : UInt8), bs[k]? = some b → b < 128 → b.toNat ∈ cs
  | 0, _, _, h, _, _, _, _ => by simp [charsAux] at h
  | _+1, [], _, _, _, _, hk, _ => by simp at hk
  | fuel+1, b0 :: r, cs, h, k, b, hk, hb => by
    rw [charsAux] at h
    cases hd : decodeChar (b0 :: r) with
    | none => simp [hd] at h
    | some cw =>
      obtain ⟨c, w⟩ := cw
      simp only [hd] at h
      split at h
      · cases h
      · rename_i hw
        simp only [not_or, Nat.not_lt] at hw
        obtain ⟨cs', hcs', rfl⟩ := Option.map_eq_some_iff.mp h
        by_cases hkw : k < w
        · cases k with
          | zero =>
            simp only [List.getElem?_cons_zero, Option.some.injEq] at hk
            subst hk
            rw [decodeChar_ascii b0 r hb] at hd
            simp only [Option.some.injEq, Prod.mk.injEq] at hd
            rw [← hd.1]; simp
          | succ k =>
            obtain ⟨b', r', hdr, hc⟩ := decodeChar_cont _ c w (k + 1) hd (by omega) hkw
            have : (b0 :: r)[k + 1]? = some b' := by
              have := congrArg (fun l => l[0]?) hdr
              simpa using this
            rw [this] at hk
            simp only [Option.some.injEq] at hk
            subst hk
            exact absurd hb (isCont_ge hc)
        · have : ((b0 :: r).drop w)[k - w]? = some b := by
            rw [List.getElem?_drop]
            rw [show w + (k - w) = k by omega]; exact hk
          exact List.mem_cons_of_mem _ (charsAux_ascii_mem fuel _ cs' hcs' (k - w) b this hb)

theorem chars_ascii_mem {bs : Bytes} {cs : List Nat} (h : chars bs = some cs) {b : UInt8}
    (hm : b ∈ bs) (hb : b < 128) : b.toNat ∈ cs := by
  obtain ⟨k, hk⟩ := List.getElem?_of_mem hm
  exact charsAux_ascii_mem _ bs cs h k b hk hb


theorem xmlCharsOk_byte {T : Tables} {bs : Bytes} {p : Nat → Bool} (h : xmlCharsOk T bs p = true)
    {b : UInt8} (hm : b ∈ bs) (hb : b < 128) : p b.toNat = true := by
  unfold xmlCharsOk at h
  cases hc : chars bs with
  | none => simp [hc] at h
  | some cs =>
    simp only [hc, List.all_eq_true, Bool.and_eq_true] at h
    exact (h _ (chars_ascii_mem hc hm hb)).2

theorem valueOk5_fast {T : Tables} {v : Bytes} (h : valueOk5 T v = true) :
    v.any (fun b => b == bAmp || b == bTab || b == bLF || b == bCR) = false := by
  rw [List.any_eq_false]
  intro x hx hx'
  simp only [Bool.or_eq_true, beq_iff_eq] at hx'
  have h128 : x < 128 := by
    rcases hx' with ((rfl | rfl) | rfl) | rfl <;> decide
  have := xmlCharsOk_byte h hx h128
  rcases hx' with ((rfl | rfl) | rfl) | rfl <;> simp [bAmp, bTab, bLF, bCR] at this

theorem textOk5_fast {T : Tables} {t : Bytes} (h : textOk5 T t = true) :
    t.any (fun b => b == bAmp || b == bCR) = false := by
  rw [List.any_eq_false]
  intro x hx hx'
  simp only [Bool.or_eq_true, beq_iff_eq] at hx'
  simp only [textOk5, Bool.and_eq_true] at h
  have h128 : x < 128 := by
    rcases hx' with rfl | rfl <;> decide
  have := xmlCharsOk_byte h.1.2 hx h128
  rcases hx' with rfl | rfl <;> simp [bAmp, bCR] at this

theorem nameOk5_ne_nil {T : Tables} {n : Bytes} (h : nameOk5 T n = true) : n ≠ [] := by
  rintro rfl
  simp [nameOk5, chars, charsAux] at h

/-- an NCName of the class has no ':' byte -/
theorem nameOk5_no_colon {T : Tables} {n : Bytes} (h : nameOk5 T n = true) : bColon ∉ n := by
  intro hm
  unfold nameOk5 at h
  cases hc : chars n with
  | none => simp [hc] at h
  | some cs =>
    have hmem := chars_ascii_mem hc hm (by decide)
    cases cs with
    | nil => simp [hc] at h
    | cons c cs =>
      simp only [hc, Bool.and_eq_true, List.all_eq_true, bne_iff_ne, ne_eq] at h
      rcases List.mem_cons.mp hmem with h1 | h1
      · exact h.1.2 h1.symm
      · exact (h.2 _ h1).2 rfl

theorem attrsOk5_facts {T : Tables} {as : List (Bytes × Bytes)} (has : attrsOk5 T as = true) :
    (∀ a ∈ as, a.1 ≠ Lit.xmlns ∧
      a.2.any (fun b => b == bAmp || b == bTab || b == bLF || b == bCR) = false) ∧
    (as.map (·.1)).Nodup := by
  simp only [attrsOk5, Bool.and_eq_true, List.all_eq_true, bne_iff_ne, ne_eq,
    decide_eq_true_eq] at has
  exact ⟨fun a ha => ⟨(has.1 a ha).1.2, valueOk5_fast (has.1 a ha).2⟩, has.2⟩

/-! ### The two steps that look at bytes, from the byte facts -/

section steps
variable (T : Tables) (txt : Bytes) (lower : Token → Ctx → Res Ctx)

theorem step_attr5 (c : Ctx) (rg : Range) (q e o1 o2 o3 : Nat) (an v : Bytes)
    (han : an ≠ Lit.xmlns)
    (hv : v.any (fun b => b == bAmp || b == bTab || b == bLF || b == bCR) = false) :
    ∃ c', tokenStep T txt lower (.attribute rg q e ⟨o1, []⟩ ⟨o2, an⟩ ⟨o3, v⟩) c = .ok c' ∧
      core c' = { core c with
        curAttrs := c.curAttrs ++ [⟨⟨o1, []⟩, ⟨o2, an⟩, .borrowed ⟨o3, v⟩, rg, q, e⟩] } := by
  unfold tokenStep
  dsimp only
  unfold processAttribute normalizeAttribute
  have h1 : (([] : Bytes) == Lit.xmlns) = false := by decide
  have h2 : (an == Lit.xmlns) = false := by rw [beq_eq_false_iff_ne]; exact han
  simp only [hv, Bool.false_eq_true, if_false, Res.bind_ok, h1, h2, Bool.and_false,
    Res.pure_eq]
  exact ⟨_, rfl, rfl⟩

theorem feed_attrs5 : ∀ (as : List (Bytes × Bytes)) (p : Nat) (c : Ctx),
    (∀ a ∈ as, a.1 ≠ Lit.xmlns ∧
      a.2.any (fun b => b == bAmp || b == bTab || b == bLF || b == bCR) = false) →
    ∃ c', feed (tokenStep T txt lower) (attrToks p as) c = .ok c' ∧
      ∃ new, core c' = { core c with curAttrs := c.curAttrs ++ new } ∧
        (∀ a ∈ new, a.pfx.bytes = []) ∧
        new.map (fun a => (a.loc.bytes, a.value.bytes)) = as := by
  intro as
  induction as with
  | nil =>
    intro p c _
    refine ⟨c, rfl, [], ?_, by simp, rfl⟩
    simp [core]
  | cons a r ih =>
    intro p c h
    obtain ⟨an, v⟩ := a
    obtain ⟨h1, h2⟩ := h (an, v) (by simp)
    simp only [attrToks]
    obtain ⟨c1, hs, hc1⟩ := step_attr5 T txt lower c
      (p + 1, p + 1 + an.length + 2 + v.length + 1) (min an.length 65535) 1 (p + 1) (p + 1)
      (p + 1 + an.length + 2) an v h1 h2
    obtain ⟨c2, hf, new, hc2, hp, hm⟩ := ih (p + 1 + an.length + 2 + v.length + 1) c1
      (fun x hx => h x (by simp [hx]))
    refine ⟨c2, ?_, canonTA p an v :: new, ?_, ?_, ?_⟩
    · rw [feed_cons_ok hs]; exact hf
    · rw [hc2, hc1]
      have : c1.curAttrs = c.curAttrs ++ [canonTA p an v] :=
        congrArg Core.curAttrs hc1
      rw [this]
      simp
    · intro x hx
      rcases List.mem_cons.mp hx with rfl | hx
      · rfl
      · exact hp x hx
    · simp only [List.map_cons, hm]
      rfl

theorem step_text5 (c : Ctx) (o : Nat) (t : Bytes) (r : Range)
    (hb : BInv c) (hl : c.nodesLimit ≤ 4294967295) (hroom : c.doc.nodes.size < c.nodesLimit)
    (hat : c.afterText = []) (ht : t.any (fun b => b == bAmp || b == bCR) = false) :
    ∃ c', tokenStep T txt lower (.text ⟨o, t⟩ r) c = .ok c' ∧
      core c' = { core c with doc := c'.doc, afterText := [.borrowed ⟨o, t⟩] } ∧
      kps c' = kps c ++ [(.text (.borrowed ⟨o, t⟩), some c.parentId)] ∧
      c'.doc.attrs = c.doc.attrs ∧ c'.doc.ns = c.doc.ns := by
  unfold tokenStep
  dsimp only
  unfold processText
  simp only [ht, Bool.not_false, if_true]
  unfold Ctx.appendText
  obtain ⟨c', h, hk, hc, h1, h2⟩ := appendNode_fwd
    ((c.log (.token (.text ⟨o, t⟩ r))).log (.textFragment (.borrowed ⟨o, t⟩) r))
    (.text (.borrowed ⟨o, t⟩)) r (hb.congr rfl rfl rfl) hl hroom
  have he : ((c.log (.token (.text ⟨o, t⟩ r))).log (.textFragment (.borrowed ⟨o, t⟩) r)).afterText.isEmpty
      = true := by
    show c.afterText.isEmpty = true
    rw [hat]; rfl
  simp only [he, if_true, h, Res.bind_ok, Res.pure_eq]
  have hat' : c'.afterText = [] := by
    have := congrArg Core.afterText hc
    exact this.trans hat
  refine ⟨_, rfl, ?_, hk, h1, h2⟩
  show { core c' with afterText := c'.afterText ++ [Str.borrowed ⟨o, t⟩] } = _
  rw [hat', hc]
  rfl

end steps

/-! ### Feeding the tokens of a subtree of the class -/

section main
variable (T : Tables) (txt : Bytes) (lower : Token → Ctx → Res Ctx)
  (hlower : ∀ t c c', BInv c → lower t c = .ok c' → BInv c')
include hlower

theorem build_textY5 (s p : Nat) (c : Ctx) (t : Bytes) (hi : Inv s c) (ht : t.any (fun b => b == bAmp || b == bCR) = false)
    (hat : c.afterText = [])
    (hroom : c.doc.nodes.size + 1 ≤ c.nodesLimit) :
    ∃ c', feed (tokenStep T txt lower) (toksY p (.text t)) c = .ok c' ∧
      BuiltY s c c' 1 0 (expectY c.parentId c.doc.nodes.size (.text t)) := by
  obtain ⟨c', hs, hc, hk, ha, hns⟩ := step_text5 T txt lower c p t (p, p + t.length)
    hi.binv hi.lim (by omega) hat ht
  have hb' : BInv c' := binv_tokenStep T txt lower hlower _ c c' hi.binv hs
  refine ⟨c', ?_, ?_⟩
  · simp only [toksY]
    rw [feed_cons_ok hs]; rfl
  · simp only [expectY]
    exact built_leafY hi hb' (by simp) hc hk ha hns (fun _ => trivial) (fun _ => rfl)

theorem build_elemY5 (s p : Nat) (c : Ctx) (n : Bytes) (as : List (Bytes × Bytes)) (ks : List YNode)
    (ih : ∀ (p : Nat) (c : Ctx), Inv s c →
      (∀ k r, ks = k :: r → isTextY k = true → c.afterText = []) →
      c.doc.nodes.size + countAllY ks ≤ c.nodesLimit →
      c.doc.attrs.size + attrCountAllY ks < 4294967295 →
      ∃ c', feed (tokenStep T txt lower) (toksAllY p ks) c = .ok c' ∧
        BuiltY s c c' (countAllY ks) (attrCountAllY ks) (expectAllY c.parentId c.doc.nodes.size ks))
    (hn0 : n ≠ [])
    (has' : ∀ a ∈ as, a.1 ≠ Lit.xmlns ∧
      a.2.any (fun b => b == bAmp || b == bTab || b == bLF || b == bCR) = false)
    (hnd : (as.map (·.1)).Nodup) (hi : Inv s c)
    (hroom : c.doc.nodes.size + (1 + countAllY ks) ≤ c.nodesLimit)
    (haroom : c.doc.attrs.size + (as.length + attrCountAllY ks) < 4294967295) :
    ∃ c', feed (tokenStep T txt lower) (toksY p (.elem n as ks)) c = .ok c' ∧
      BuiltY s c c' (1 + countAllY ks) (as.length + attrCountAllY ks)
        (expectY c.parentId c.doc.nodes.size (.elem n as ks)) ∧
      c'.afterText = [] := by
  obtain ⟨p2, hp2⟩ : ∃ p2, p2 = p + 1 + n.length + attrsLen as := ⟨_, rfl⟩
  obtain ⟨p3, hp3⟩ : ∃ p3, p3 = p2 + 1 + (renderAllY ks).length := ⟨_, rfl⟩
  have htoks : toksY p (.elem n as ks) =
      [Token.elementStart ⟨p + 1, []⟩ ⟨p + 1, n⟩ p] ++ attrToks (p + 1 + n.length) as ++
        [Token.elementEnd .open (p2, p2 + 1)] ++ toksAllY (p2 + 1) ks ++
        [Token.elementEnd (.close ⟨p3 + 2, []⟩ ⟨p3 + 2, n⟩) (p3, p3 + 3 + n.length)] := by
    subst hp3; subst hp2; rw [toksY]
  -- start tag
  obtain ⟨c1, hs1, hc1⟩ := step_start T txt lower c (p + 1) (p + 1) p n hi.at1
  have hb1 := binv_tokenStep T txt lower hlower _ c c1 hi.binv hs1
  obtain ⟨c2, hs2, new, hc2, hpfx, hmap⟩ := feed_attrs5 T txt lower as (p + 1 + n.length) c1 has'
  have hb2 := binv_feed _ (binv_tokenStep T txt lower hlower) _ _ _ hb1 hs2
  have d2 : c2.doc = c.doc := (congrArg Core.doc hc2).trans (congrArg Core.doc hc1)
  have cur1 : c1.curAttrs = [] := (congrArg Core.curAttrs hc1).trans hi.cur
  have cur2 : c2.curAttrs = new := by
    have : c2.curAttrs = c1.curAttrs ++ new := congrArg Core.curAttrs hc2
    rw [this, cur1]; rfl
  have lim2 : c2.nodesLimit = c.nodesLimit :=
    (congrArg Core.nodesLimit hc2).trans (congrArg Core.nodesLimit hc1)
  have at2 : c2.afterText = [] := (congrArg Core.afterText hc2).trans (congrArg Core.afterText hc1)
  have tag2 : c2.tagName = ⟨[], n, ⟨p + 1, n⟩, p, p + 1⟩ :=
    (congrArg Core.tagName hc2).trans (congrArg Core.tagName hc1)
  have ns2 : c2.nsStartIdx = c.nsStartIdx :=
    (congrArg Core.nsStartIdx hc2).trans (congrArg Core.nsStartIdx hc1)
  have pid2 : c2.parentId = c.parentId :=
    (congrArg Core.parentId hc2).trans (congrArg Core.parentId hc1)
  have pp2 : c2.parentPrefixes = c.parentPrefixes :=
    (congrArg Core.parentPrefixes hc2).trans (congrArg Core.parentPrefixes hc1)
  have fl2 : c2.entityFloor = c.entityFloor :=
    (congrArg Core.entityFloor hc2).trans (congrArg Core.entityFloor hc1)
  have k2 : kps c2 = kps c := by unfold kps; rw [d2]
  have hnames : new.map (·.loc.bytes) = as.map (·.1) := by
    rw [← hmap, List.map_map]; rfl
  have hnewlen : new.length = as.length := by
    have := congrArg List.length hmap
    simpa using this
  obtain ⟨c3, hs3, rg, new3, hc3, hk3, hns3, hat3, hmap3, hrg, htake⟩ :=
    step_open T txt lower c2 s (p2, p2 + 1) (p + 1) p n hn0 hb2 (by rw [lim2]; exact hi.lim)
      (by rw [lim2, d2]; omega) (by rw [at2]; simp) tag2 (by rw [ns2]; exact hi.ns1)
      (by rw [d2]; exact hi.ns2) (by rw [k2, d2]; exact hi.good) (by rw [cur2]; exact hpfx)
      (by rw [cur2, hnames]; exact hnd) (by rw [cur2, d2, hnewlen]; omega)
  have hb3 := binv_tokenStep T txt lower hlower _ c2 c3 hb2 hs3
  obtain ⟨hany, hvals⟩ := akey_split new3 c2.curAttrs hmap3
  have hvals' : new3.map (fun a => (a.localName.bytes, a.value.bytes)) = as := by
    rw [hvals, cur2]; exact hmap
  have hnew3len : new3.length = as.length := by
    have := congrArg List.length hvals'
    simpa using this
  have hview : viewKPY c3.doc.attrs.toList
      (Kind.element none ⟨p + 1, n⟩ rg (s, s), some c2.parentId) =
      some (some c.parentId, YKind.elem n as) := by
    simp only [viewKPY, htake, hany, hvals', pid2]
    rfl
  have d3n : c3.doc.nodes.size = c.doc.nodes.size + 1 := by
    have := congrArg List.length hk3
    rw [k2] at this
    simpa [kps_length] using this
  have d3a : c3.doc.attrs.size = c.doc.attrs.size + as.length := by
    have := congrArg List.length hat3
    rw [d2] at this
    simpa [hnew3len] using this
  have lim3 : c3.nodesLimit = c.nodesLimit := (congrArg Core.nodesLimit hc3).trans lim2
  have at3 : c3.afterText = [] := congrArg Core.afterText hc3
  have pid3 : c3.parentId = c.doc.nodes.size := by
    have : c3.parentId = c2.doc.nodes.size := congrArg Core.parentId hc3
    rw [this, d2]
  have pp3 : c3.parentPrefixes = [] :: c.parentPrefixes := by
    have : c3.parentPrefixes = [] :: c2.parentPrefixes := congrArg Core.parentPrefixes hc3
    rw [this, pp2]
  have tag3 : c3.tagName = c2.tagName := congrArg Core.tagName hc3
  have fl3 : c3.entityFloor = c.entityFloor := (congrArg Core.entityFloor hc3).trans fl2
  have hi3 : Inv s c3 := by
    refine ⟨hb3, by rw [lim3]; exact hi.lim, congrArg Core.curAttrs hc3, ?_, by rw [hns3, d2]; exact hi.ns2,
      by rw [fl3, pp3]; exact Nat.le_succ_of_le hi.floor, by rw [at3]; simp, ?_⟩
    · have : c3.nsStartIdx = c2.doc.ns.treeOrder.size := congrArg Core.nsStartIdx hc3
      rw [this, d2]; exact hi.ns2
    · intro x hx
      rw [hk3, k2] at hx
      rcases List.mem_append.mp hx with hx | hx
      · exact good_mono (hi.good x hx) (by rw [d3a]; omega)
      · simp only [List.mem_singleton] at hx
        subst hx
        exact ⟨hrg, rfl⟩
  -- children
  obtain ⟨c4, hs4, hB4⟩ := ih (p2 + 1) c3 hi3 (fun _ _ _ _ => at3) (by rw [d3n, lim3]; omega)
    (by rw [d3a]; omega)
  obtain ⟨K4, more4, hk4, ha4, hv4⟩ := hB4.grow
  have hi4 := hB4.inv
  have pid4 : c4.parentId = c.doc.nodes.size := hB4.pid.trans pid3
  have hnode : (kps c4)[c.doc.nodes.size]? =
      some (Kind.element none ⟨p + 1, n⟩ rg (s, s), some c2.parentId) := by
    rw [hk4, hk3, k2]
    rw [List.getElem?_append_left (by simp [kps_length])]
    rw [List.getElem?_append_right (by simp [kps_length])]
    simp [kps_length]
  rw [kps_getElem?] at hnode
  obtain ⟨pn, hpn, hkp⟩ := Option.map_eq_some_iff.mp hnode
  simp only [kp, Prod.mk.injEq] at hkp
  have tag4 : c4.tagName.name ≠ [] := by
    apply hB4.tag
    rw [tag3, tag2]; exact hn0
  -- end tag
  obtain ⟨c5, hs5, hc5, hk5, ha5, hns5⟩ :=
    step_close T txt lower c4 s c.parentId (p3, p3 + 3 + n.length) (p3 + 2) (p3 + 2) n c.parentPrefixes
      pn none ⟨p + 1, n⟩ rg (s, s) hi4.at1 tag4 hi4.ns1 hi4.ns2 hi4.cur
      (by rw [hB4.fl, fl3]; exact hi.floor) (hB4.pp.trans pp3)
      (by rw [pid4]; exact hpn) hkp.1 rfl rfl (by rw [hkp.2, pid2])
  have hb5 := binv_tokenStep T txt lower hlower _ c4 c5 hi4.binv hs5
  have at5 : c5.afterText = [] := congrArg Core.afterText hc5
  have lim5 : c5.nodesLimit = c.nodesLimit := (congrArg Core.nodesLimit hc5).trans (hB4.lim.trans lim3)
  have tag5 : c5.tagName = c4.tagName := congrArg Core.tagName hc5
  have fl5 : c5.entityFloor = c.entityFloor :=
    (congrArg Core.entityFloor hc5).trans (hB4.fl.trans fl3)
  have pp5 : c5.parentPrefixes = c.parentPrefixes := congrArg Core.parentPrefixes hc5
  have hi5 : Inv s c5 := by
    refine ⟨hb5, by rw [lim5]; exact hi.lim, (congrArg Core.curAttrs hc5).trans hi4.cur, ?_,
      by rw [hns5]; exact hi4.ns2, by rw [fl5, pp5]; exact hi.floor,
      by rw [at5]; simp, by rw [hk5, ha5]; exact hi4.good⟩
    have : c5.nsStartIdx = c4.doc.ns.treeOrder.size := congrArg Core.nsStartIdx hc5
    rw [this]; exact hi4.ns2
  refine ⟨c5, ?_, ⟨hi5, congrArg Core.parentId hc5, pp5, fl5, lim5,
    fun _ => by rw [tag5]; exact tag4, ?_, ?_, ?_⟩, at5⟩
  · rw [htoks]
    refine feed_append_ok _ _ c c4 c5 ?_ (by rw [feed_cons_ok hs5]; rfl)
    refine feed_append_ok _ _ c c3 c4 ?_ hs4
    refine feed_append_ok _ _ c c2 c3 ?_ (by rw [feed_cons_ok hs3]; rfl)
    show feed _ (_ :: attrToks _ as) c = _
    rw [feed_cons_ok hs1]; exact hs2
  · have h5 : c5.doc.nodes.size = c4.doc.nodes.size := by
      have := congrArg List.length hk5
      simpa [kps_length] using this
    rw [h5, hB4.size, d3n]; omega
  · rw [ha5, hB4.asize, d3a]; omega
  · refine ⟨(Kind.element none ⟨p + 1, n⟩ rg (s, s), some c2.parentId) :: K4, new3 ++ more4, ?_, ?_, ?_⟩
    · rw [hk5, hk4, hk3, k2]; simp
    · rw [ha5, ha4, hat3, d2]; simp
    · rw [expectY, List.map_cons, List.map_cons, ha5]
      congr 1
      · rw [ha4, viewKPY_stable s c3.doc.attrs.toList more4
          (Kind.element none ⟨p + 1, n⟩ rg (s, s), some c2.parentId) ⟨by simpa using hrg, rfl⟩]
        exact hview
      · rw [hv4, pid3, d3n]

set_option linter.unusedSectionVars false in
mutual
  theorem build_nodeY5 (s : Nat) : ∀ (k : YNode) (p : Nat) (c : Ctx), okY5 T k = true → Inv s c →
      (isTextY k = true → c.afterText = []) →
      c.doc.nodes.size + countY k ≤ c.nodesLimit →
      c.doc.attrs.size + attrCountY k < 4294967295 →
      ∃ c', feed (tokenStep T txt lower) (toksY p k) c = .ok c' ∧
        BuiltY s c c' (countY k) (attrCountY k) (expectY c.parentId c.doc.nodes.size k) ∧
        (isTextY k = false → c'.afterText = [])
    | .elem n as ks, p, c, hok, hi, _, hroom, haroom => by
      simp only [okY5, Bool.and_eq_true] at hok
      obtain ⟨⟨⟨hn, has⟩, hadj⟩, hks⟩ := hok
      simp only [countY] at hroom
      simp only [attrCountY] at haroom
      obtain ⟨c', h1, h2, h3⟩ := build_elemY5 T txt lower hlower s p c n as ks
        (fun p c hi hat hr har => build_allY5 s ks p c hks hadj hi hat hr har) (nameOk5_ne_nil hn)
        (attrsOk5_facts has).1 (attrsOk5_facts has).2 hi hroom haroom
      exact ⟨c', h1, by simpa only [countY, attrCountY] using h2, fun _ => h3⟩
    | .comment b, p, c, _, hi, _, hroom, _ => by
      simp only [countY] at hroom
      obtain ⟨c', h1, h2, h3⟩ := build_commentY T txt lower hlower s p c b hi hroom
      exact ⟨c', h1, by simpa only [countY, attrCountY] using h2, fun _ => h3⟩
    | .pi t v, p, c, _, hi, _, hroom, _ => by
      simp only [countY] at hroom
      obtain ⟨c', h1, h2, h3⟩ := build_piY T txt lower hlower s p c t v hi hroom
      exact ⟨c', h1, by simpa only [countY, attrCountY] using h2, fun _ => h3⟩
    | .text t, p, c, hok, hi, hat, hroom, _ => by
      simp only [okY5] at hok
      simp only [countY] at hroom
      obtain ⟨c', h1, h2⟩ := build_textY5 T txt lower hlower s p c t hi (textOk5_fast hok) (hat rfl) hroom
      exact ⟨c', h1, by simpa only [countY, attrCountY] using h2, fun h => by simp [isTextY] at h⟩
  theorem build_allY5 (s : Nat) : ∀ (ks : List YNode) (p : Nat) (c : Ctx), okAllY5 T ks = true →
      noAdjTextY ks = true → Inv s c →
      (∀ k r, ks = k :: r → isTextY k = true → c.afterText = []) →
      c.doc.nodes.size + countAllY ks ≤ c.nodesLimit →
      c.doc.attrs.size + attrCountAllY ks < 4294967295 →
      ∃ c', feed (tokenStep T txt lower) (toksAllY p ks) c = .ok c' ∧
        BuiltY s c c' (countAllY ks) (attrCountAllY ks) (expectAllY c.parentId c.doc.nodes.size ks)
    | [], p, c, _, _, hi, _, _, _ => by
      simp only [toksAllY, countAllY, attrCountAllY, expectAllY]
      exact ⟨c, rfl, BuiltY.refl hi⟩
    | k :: ks, p, c, hok, hadj, hi, hat, hroom, haroom => by
      simp only [okAllY5, Bool.and_eq_true] at hok
      simp only [countAllY] at hroom
      simp only [attrCountAllY] at haroom
      obtain ⟨c1, h1, hB1, hat1⟩ := build_nodeY5 s k p c hok.1 hi (hat k ks rfl) (by omega) (by omega)
      have hadj' : noAdjTextY ks = true := by
        cases ks with
        | nil => rfl
        | cons k2 r =>
          simp only [noAdjTextY, Bool.and_eq_true] at hadj
          exact hadj.2
      obtain ⟨c2, h2, hB2⟩ := build_allY5 s ks (p + (renderY k).length) c1 hok.2 hadj' hB1.inv
        (by
          intro k2 r hks ht2
          subst hks
          simp only [noAdjTextY, Bool.and_eq_true, Bool.not_eq_true', Bool.and_eq_false_iff] at hadj
          rcases hadj.1 with h | h
          · exact hat1 h
          · rw [ht2] at h; cases h)
        (by rw [hB1.size, hB1.lim]; omega) (by rw [hB1.asize]; omega)
      rw [hB1.pid, hB1.size] at hB2
      simp only [toksAllY, countAllY, attrCountAllY, expectAllY]
      exact ⟨c2, feed_append_ok _ _ _ _ _ h1 h2, hB1.trans hB2⟩
end

set_option linter.unusedSectionVars false in
theorem build_seq5 (s : Nat) : ∀ (ks : List YNode) (ts : List Token), TokSeq ks ts → ∀ (c : Ctx),
    (∀ k ∈ ks, okY5 T k = true ∧ isTextY k = false) → Inv s c →
    c.doc.nodes.size + countAllY ks ≤ c.nodesLimit →
    c.doc.attrs.size + attrCountAllY ks < 4294967295 →
    ∃ c', feed (tokenStep T txt lower) ts c = .ok c' ∧
      BuiltY s c c' (countAllY ks) (attrCountAllY ks) (expectAllY c.parentId c.doc.nodes.size ks) := by
  intro ks ts h
  induction h with
  | nil =>
    intro c _ hi _ _
    simp only [countAllY, attrCountAllY, expectAllY]
    exact ⟨c, rfl, BuiltY.refl hi⟩
  | @cons p k ks ts _ ih =>
    intro c hok hi hroom haroom
    simp only [countAllY] at hroom
    simp only [attrCountAllY] at haroom
    obtain ⟨hk1, hk2⟩ := hok k (by simp)
    obtain ⟨c1, h1, hB1, _⟩ := build_nodeY5 T txt lower hlower s k p c hk1 hi
      (by intro h; rw [hk2] at h; cases h) (by omega) (by omega)
    obtain ⟨c2, h2, hB2⟩ := ih c1 (fun x hx => hok x (by simp [hx])) hB1.inv
      (by rw [hB1.size, hB1.lim]; omega) (by rw [hB1.asize]; omega)
    rw [hB1.pid, hB1.size] at hB2
    simp only [countAllY, attrCountAllY, expectAllY]
    exact ⟨c2, feed_append_ok _ _ _ _ _ h1 h2, hB1.trans hB2⟩

end main

theorem miscOk5_ok {T : Tables} {k : YNode} (h : miscOk5 T k = true) :
    okY5 T k = true ∧ isTextY k = false := by
  cases k with
  | comment c => exact ⟨by simpa [miscOk5, okY5] using h, rfl⟩
  | pi t v => exact ⟨by simpa [miscOk5, okY5] using h, rfl⟩
  | elem _ _ _ => simp [miscOk5] at h
  | text _ => simp [miscOk5] at h

theorem items_ok5 (T : Tables) (y : YDoc) (hy : docOk5 T y = true) :
    ∀ k ∈ y.items, okY5 T k = true ∧ isTextY k = false := by
  simp only [docOk5, Bool.and_eq_true, List.all_eq_true] at hy
  obtain ⟨⟨⟨⟨⟨_, hpre⟩, hmid⟩, hpost⟩, hroot⟩, _⟩ := hy
  intro k hk
  simp only [YDoc.items, List.mem_append, List.mem_singleton] at hk
  rcases hk with ((hk | hk) | hk) | hk
  · exact miscOk5_ok (hpre k hk)
  · exact miscOk5_ok (hmid k hk)
  · subst hk; exact ⟨hroot, rfl⟩
  · exact miscOk5_ok (hpost k hk)

end RtB5

open RtB RtB4 RtB5

/-- **Builder, whole documents, full repertoire**: if the tokenizer delivered `docToks y` and succeeded, then `parse`
succeeds and the arena, read back node by node in id order, is the root followed by the nodes of
`y.items` in document order, each with the right parent id and content. -/
theorem parse_of_docToks5 (T : Tables) (txt : Bytes) (opt : Opt) (y : YDoc)
    (hy : docOk5 T y = true)
    (htok : tokenize T txt opt.allowDtd = (docToks y, .ok ()))
    (hlim : countAllY y.items + 1 ≤ opt.nodesLimit) (hl32 : opt.nodesLimit ≤ 4294967295)
    (hattrs : attrCountAllY y.items < 4294967295) :
    ∃ d, parse T txt opt = .ok d ∧
      d.nodes.toList.map (viewY d) =
        some (none, YKind.root) :: (expectAllY 0 1 y.items).map some := by
  obtain ⟨c0, h0, l0, ns0, ts0, cur0, fl0, at0, pid0, pp0, attrs0, k0, sz0⟩ := initCtx_ok txt opt
  have hb0 : BInv c0 := binv_init txt opt c0 h0
  have hi0 : Inv 1 c0 := by
    refine ⟨hb0, by rw [l0]; exact hl32, cur0, ns0, ts0, by rw [fl0]; exact Nat.zero_le _,
      by rw [at0]; simp, ?_⟩
    intro x hx
    rw [k0] at hx
    simp only [List.mem_singleton] at hx
    subst hx
    trivial
  obtain ⟨c1, hf, hB⟩ := build_seq5 T txt (token T txt 11) (binv_token T txt 11) 1 y.items
    (docToks y) (docToks_seq y) c0 (items_ok5 T y hy) hi0 (by rw [sz0, l0]; omega)
    (by rw [attrs0]; simpa using hattrs)
  obtain ⟨K, more, hk, ha, hv⟩ := hB.grow
  rw [pid0, sz0] at hv
  have hrun : runTokens (token T txt depthFuel) (docToks y) (.ok ()) c0 = .ok c1 := by
    unfold runTokens
    have : token T txt depthFuel = tokenStep T txt (token T txt 11) := rfl
    rw [this, hf]
  have hb1 : BInv c1 := hB.inv.binv
  have hhas : rootHasElement c1.doc = .ok true := by
    have hmem : (some 0, YKind.elem y.name y.attrs) ∈ expectAllY 0 1 y.items :=
      mem_expectAllY 0 y.name y.attrs y.kids y.items 1 (by simp [YDoc.items, YDoc.root])
    have hmem' : some (some 0, YKind.elem y.name y.attrs) ∈
        K.map (viewKPY c1.doc.attrs.toList) := by
      rw [hv]; exact List.mem_map_of_mem hmem
    obtain ⟨x, hxK, hxv⟩ := List.mem_map.mp hmem'
    obtain ⟨he, hpar⟩ := viewKPY_elem hxv
    have hx1 : x ∈ kps c1 := by rw [hk]; exact List.mem_append_right _ hxK
    unfold kps at hx1
    obtain ⟨nj, hnj, hkp⟩ := List.mem_map.mp hx1
    subst hkp
    rw [Array.mem_toList_iff] at hnj
    obtain ⟨j, hjlt, hje⟩ := Array.mem_iff_getElem.mp hnj
    exact rootHasElement_any c1.doc hb1.wf j nj (by simp [hjlt, hje]) hpar he
  refine ⟨{ c1.doc with ns := { c1.doc.ns with sortedOrder := #[] } }, ?_, ?_⟩
  · unfold parse parseCtx
    rw [h0]
    simp only [Res.bind_ok]
    rw [htok]
    simp only
    rw [hrun]
    simp only [Res.bind_ok]
    unfold finish
    rw [hhas]
    have : c1.parentPrefixes.length = 1 := by rw [hB.pp, pp0]; rfl
    simp [this]
  · have hview : ∀ (D : Doc), D.attrs = c1.doc.attrs →
        List.map (viewY D) c1.doc.nodes.toList = (kps c1).map (viewKPY c1.doc.attrs.toList) := by
      intro D hD
      unfold kps
      rw [List.map_map]
      apply List.map_congr_left
      intro nd _
      rw [viewY_eq, hD]; rfl
    refine (hview _ rfl).trans ?_
    rw [hk, k0, List.map_append, hv]
    rfl

end Rox.Lemmas
