/-
  Rox.Lemmas.CompleteStag2 — the attributes of a start tag are accepted: the invariant `SInv`
  inside a start tag (relative to the context `c0` after `ElementStart`) and one `Attribute` token.
-/
import Rox.Lemmas.CompleteStag1
import Rox.Lemmas.CompleteRef

set_option linter.unusedSimpArgs false

namespace Rox.Lemmas.CB
open Rox Rox.Spec Rox.Spec.Grammar Rox.Spec.Mirror Rox.Spec.MirrorNs Rox.Spec.Complete Rox.Props.C06
  Rox.Lemmas.GB

/-- inside a start tag, after the attributes `seen`; `c0` is the context after `ElementStart` -/
structure SInv (c0 : Ctx) (seen : List (Bytes × Bytes)) (c : Ctx) : Prop where
  nodes : c.doc.nodes = c0.doc.nodes
  attrs : c.doc.attrs = c0.doc.attrs
  lim : c.nodesLimit = c0.nodesLimit
  pid : c.parentId = c0.parentId
  nsi : c.nsStartIdx = c0.nsStartIdx
  aft : c.afterText = []
  tag : c.tagName = c0.tagName
  ents : c.entities = []
  ld : c.ld.depth = 0
  /-- the declarations pushed so far, in order -/
  tree : ∃ own, c.doc.ns.treeOrder.toList = c0.doc.ns.treeOrder.toList ++ own ∧
    scopeList c.doc own = declsOf seen
  vals : ∀ k, k < c0.doc.ns.values.size → c.doc.ns.values[k]? = c0.doc.ns.values[k]?
  vsz : c.doc.ns.values.size ≤ c0.doc.ns.values.size + (declsOf seen).length
  xd : c.xmlDeclared = true → some Lit.xml ∈ declaredPrefixes seen
  cur : (c.curAttrs.map fun a => (a.pfx.bytes, a.loc.bytes, a.value.bytes)) =
    (seen.filter fun a => !isNsDecl a.1).map fun a => ((qparts a.1).1, (qparts a.1).2, decodeAttr a.2)

theorem declaredPrefixes_append (l1 l2 : List (Bytes × Bytes)) :
    declaredPrefixes (l1 ++ l2) = declaredPrefixes l1 ++ declaredPrefixes l2 := by
  unfold declaredPrefixes
  rw [List.filterMap_append]

theorem declsOf_fst_mem {l : List (Bytes × Bytes)} {p : Option Bytes}
    (h : p ∈ (declsOf l).map (·.1)) : p ∈ declaredPrefixes l := by
  unfold declsOf at h
  unfold declaredPrefixes
  simp only [List.mem_map, List.mem_filterMap] at h ⊢
  obtain ⟨b, ⟨a, ha, hb⟩, rfl⟩ := h
  refine ⟨a, ha, ?_⟩
  split at hb
  · rename_i h1
    split at hb
    · cases hb
    · simp only [Option.some.injEq] at hb
      subst hb
      simp [h1]
  · rename_i h1
    split at hb
    · rename_i h2
      simp only [Option.some.injEq] at hb
      subst hb
      simp only [h1, Bool.false_eq_true, if_false, h2, if_true]
    · cases hb

/-- a prefix that is not among the declared ones is not bound by the entries pushed so far -/
theorem sinv_exists_false {c0 c : Ctx} {seen : List (Bytes × Bytes)} (hs : SInv c0 seen c)
    (hns : NsInv c.doc.ns) (h0 : c0.nsStartIdx = c0.doc.ns.treeOrder.size) (p : Option Bytes)
    (hp : p ∉ declaredPrefixes seen) : c.doc.ns.exists c.nsStartIdx p = .ok false := by
  obtain ⟨own, ht, ho⟩ := hs.tree
  have hlen : c.doc.ns.treeOrder.size = c0.doc.ns.treeOrder.size + own.length := by
    have := congrArg List.length ht
    simpa using this
  rw [exists_ok c.doc.ns hns c.nsStartIdx (by rw [hs.nsi, h0]; omega) p]
  have hdrop : c.doc.ns.treeOrder.toList.drop c.nsStartIdx = own := by
    rw [ht, hs.nsi, h0]
    have : c0.doc.ns.treeOrder.size = c0.doc.ns.treeOrder.toList.length := by simp
    rw [this, List.drop_left]
  rw [hdrop, ← lookup_scopeList_isSome, ho]
  congr 1
  cases hl : (lookup (declsOf seen) p).isSome with
  | false => rfl
  | true => exact absurd (declsOf_fst_mem ((lookup_isSome_iff _ _).mp hl)) hp

/-- pushing one declaration -/
theorem sinv_push {c0 c : Ctx} {seen : List (Bytes × Bytes)} (hs : SInv c0 seen c)
    (hns : NsInv c.doc.ns) (name : Option Span) (uri : Str) (a : Bytes × Bytes) (ns' : Namespaces)
    (hp : c.doc.ns.pushNs name uri = .ok ns') (hsz : ns'.values.size ≤ c.doc.ns.values.size + 1)
    (hd : declsOf [a] = [(name.map (·.bytes), uri.bytes)]) (hnd : isNsDecl a.1 = true)
    (c' : Ctx) (h1 : c'.doc.nodes = c.doc.nodes) (h2 : c'.doc.attrs = c.doc.attrs)
    (h3 : c'.nodesLimit = c.nodesLimit) (h4 : c'.parentId = c.parentId)
    (h5 : c'.nsStartIdx = c.nsStartIdx) (h6 : c'.afterText = c.afterText)
    (h7 : c'.tagName = c.tagName) (h8 : c'.entities = c.entities) (h9 : c'.ld = c.ld)
    (h10 : c'.doc.ns = ns') (h11 : c'.xmlDeclared = c.xmlDeclared) (h12 : c'.curAttrs = c.curAttrs) :
    SInv c0 (seen ++ [a]) c' := by
  obtain ⟨own, ht, ho⟩ := hs.tree
  obtain ⟨hinv', idx, v, hto, _, hv, hvn, hvu, hold⟩ := pushNs_spec c.doc.ns ns' name uri hns hp
  have hc0le : c0.doc.ns.values.size ≤ c.doc.ns.values.size := by
    by_cases hz : c0.doc.ns.values.size = 0
    · omega
    · have := hs.vals (c0.doc.ns.values.size - 1) (by omega)
      have hlt : c0.doc.ns.values.size - 1 < c0.doc.ns.values.size := by omega
      rw [Array.getElem?_eq_getElem hlt] at this
      have := (Array.getElem?_eq_some_iff.mp this).1
      omega
  refine ⟨h1.trans hs.nodes, h2.trans hs.attrs, h3.trans hs.lim, h4.trans hs.pid, h5.trans hs.nsi,
    h6.trans hs.aft, h7.trans hs.tag, h8.trans hs.ents, by rw [h9]; exact hs.ld, ?_, ?_, ?_, ?_, ?_⟩
  · refine ⟨own ++ [idx], ?_, ?_⟩
    · rw [h10, hto, Array.toList_push, ht, List.append_assoc]
    · rw [scopeList_append, declsOf_append, hd]
      congr 1
      · rw [← ho]
        apply scopeList_congr
        intro i hi
        rw [h10]
        apply hold
        apply hns.tree_lt
        rw [ht]
        exact List.mem_append_right _ hi
      · unfold scopeList nsPair
        rw [h10]
        simp only [List.filterMap_cons, hv, Option.map_some, List.filterMap_nil, hvn, hvu]
  · intro k hk
    rw [h10, hold k (by omega)]
    exact hs.vals k hk
  · rw [h10, declsOf_append, hd, List.length_append]
    have := hs.vsz
    simp only [List.length_cons, List.length_nil]
    omega
  · intro hx
    rw [h11] at hx
    rw [declaredPrefixes_append]
    exact List.mem_append_left _ (hs.xd hx)
  · rw [h12, hs.cur, List.filter_append]
    simp [hnd]

section
variable (T : Tables) (hT : TablesOK T) (hX : TablesComplete T) (txt : Bytes)

include hT hX in
/-- one `Attribute` token -/
theorem cb_attr_step (lower : Token → Ctx → Res Ctx) {c0 c : Ctx} {seen : List (Bytes × Bytes)}
    (hs : SInv c0 seen c) (hns : NsInv c.doc.ns) (h0 : c0.nsStartIdx = c0.doc.ns.treeOrder.size)
    (a : Bytes × Bytes) (r : Range) (q e : Nat) (pfx loc v : Span)
    (hq : qparts a.1 = (pfx.bytes, loc.bytes)) (hv : v.bytes = a.2) (hvu : SpanU txt v)
    (hlt : bLt ∉ v.bytes) (hrt : RefText T a.2) (hdecl : declOk a = true)
    (hnd : (declaredPrefixes (seen ++ [a])).Nodup)
    (hV : c0.doc.ns.values.size + (declsOf (seen ++ [a])).length ≤ 65535) :
    ∃ c', tokenStep T txt lower (.attribute r q e pfx loc v) c = .ok c' ∧ SInv c0 (seen ++ [a]) c' := by
  unfold tokenStep
  dsimp only
  have hents : (c.log (.token (.attribute r q e pfx loc v))).entities = [] := hs.ents
  have hld : (c.log (.token (.attribute r q e pfx loc v))).ld.depth = 0 := hs.ld
  obtain ⟨c1, s, h1⟩ := normalizeAttribute_ok T hT hX txt _ v hvu hents hld (by rw [hv]; exact hrt)
  obtain ⟨hsb, tr, hc1⟩ := normalizeAttribute_mirror T txt _ c1 v s hents hld hlt h1
  rw [hv] at hsb
  subst hc1
  unfold processAttribute
  rw [h1]
  simp only [Res.bind_ok]
  -- what the tag declares
  have hq1 : (qparts a.1).1 = pfx.bytes := by rw [hq]
  have hq2 : (qparts a.1).2 = loc.bytes := by rw [hq]
  rw [declaredPrefixes_append, List.nodup_append] at hnd
  obtain ⟨_, _, hdisj⟩ := hnd
  have hfresh : ∀ p, declaredPrefixes [a] = [p] → p ∉ declaredPrefixes seen := by
    intro p hp hm
    exact hdisj _ hm _ (by rw [hp]; simp) rfl
  rw [declsOf_append, List.length_append] at hV
  have hvsz := hs.vsz
  unfold declOk at hdecl
  rw [hq1, hq2] at hdecl
  by_cases hP : (pfx.bytes == Lit.xmlns) = true
  · -- `xmlns:l="u"`
    simp only [hP, if_true, Bool.and_eq_true, bne_iff_ne, ne_eq] at hdecl
    obtain ⟨⟨hu1, hl1⟩, hu2⟩ := hdecl
    have hu1' : (s.bytes == nsXmlnsUri) = false := by rw [hsb]; simpa using hu1
    have hl1' : (loc.bytes == Lit.xmlns) = false := by simpa using hl1
    have hdp : declaredPrefixes [a] = [some loc.bytes] := by
      unfold declaredPrefixes
      simp only [List.filterMap_cons, List.filterMap_nil, hq1, hq2, hP, if_true, Bool.false_eq_true, if_false, Bool.and_false, Bool.false_and]
    have hex := sinv_exists_false hs hns h0 (some loc.bytes) (hfresh _ hdp)
    simp only [hP, if_true, hu1', Bool.false_eq_true, if_false, hl1']
    dsimp only [Ctx.log]
    rw [hex]
    simp only [Res.bind_ok]
    by_cases hL : (loc.bytes == Lit.xml) = true
    · -- `xmlns:xml`
      simp only [hL, if_true] at hu2
      have hu2' : (s.bytes == nsXmlUri) = true := by rw [hsb]; exact hu2
      have hxd : c.xmlDeclared = false := by
        cases hx : c.xmlDeclared with
        | false => rfl
        | true =>
          have := hs.xd hx
          have hl : loc.bytes = Lit.xml := by simpa using hL
          exact absurd this (by rw [← hl]; exact hfresh _ hdp)
      simp only [bne, hL, hu2', Bool.not_true, Bool.and_false, Bool.false_eq_true, if_false,
        Bool.false_and, hxd, Bool.and_self, Bool.or_self, Res.pure_eq]
      refine ⟨_, rfl, ?_⟩
      have hd : declsOf [a] = [] := by
        unfold declsOf
        simp only [List.filterMap_cons, List.filterMap_nil, hq1, hq2, hP, hL, if_true, Bool.false_eq_true, if_false, Bool.and_false, Bool.false_and]
      have hnsd : isNsDecl a.1 = true := by
        unfold isNsDecl
        rw [hq1, hP]
        rfl
      obtain ⟨own, ht, ho⟩ := hs.tree
      refine ⟨hs.nodes, hs.attrs, hs.lim, hs.pid, hs.nsi, hs.aft, hs.tag, hs.ents, hs.ld,
        ⟨own, ht, ?_⟩, hs.vals, ?_, ?_, ?_⟩
      · rw [declsOf_append, hd, List.append_nil]; exact ho
      · rw [declsOf_append, hd, List.append_nil]; exact hs.vsz
      · intro _
        rw [declaredPrefixes_append, hdp]
        have hl : loc.bytes = Lit.xml := by simpa using hL
        rw [hl]
        simp
      · show (c.curAttrs.map _) = _
        rw [hs.cur, List.filter_append]
        simp [hnsd]
    · -- `xmlns:l`, `l ≠ xml`
      have hL' : (loc.bytes == Lit.xml) = false := by simpa using hL
      simp only [hL', Bool.false_eq_true, if_false, bne_iff_ne, ne_eq] at hu2
      have hu2' : (s.bytes == nsXmlUri) = false := by rw [hsb]; simpa using hu2
      have hd : declsOf [a] = [(some loc.bytes, s.bytes)] := by
        unfold declsOf
        simp only [List.filterMap_cons, List.filterMap_nil, hq1, hq2, hP, hL', hsb, if_true, Bool.false_eq_true, if_false, Bool.and_false, Bool.false_and]
      have hnsd : isNsDecl a.1 = true := by
        unfold isNsDecl
        rw [hq1, hP]
        rfl
      rw [hd] at hV
      simp only [List.length_cons, List.length_nil] at hV
      obtain ⟨ns', hp, hsz⟩ := pushNs_ok c.doc.ns hns (some loc) s (by omega)
      simp only [bne, hL', hu2', Bool.false_and, Bool.false_eq_true, if_false, Bool.not_false, Bool.and_false,
        Bool.or_self, if_true, hp, Res.bind_ok, Res.pure_eq]
      refine ⟨_, rfl, ?_⟩
      exact sinv_push hs hns (some loc) s a ns' hp hsz hd hnsd _ rfl rfl rfl rfl rfl rfl rfl rfl rfl
        rfl rfl rfl
  · have hP' : (pfx.bytes == Lit.xmlns) = false := by simpa using hP
    simp only [hP', Bool.false_eq_true, if_false] at hdecl ⊢
    by_cases hD : (pfx.bytes.isEmpty && loc.bytes == Lit.xmlns) = true
    · -- `xmlns="u"`
      simp only [hD, if_true, Bool.and_eq_true, bne_iff_ne, ne_eq] at hdecl
      obtain ⟨hu1, hu2⟩ := hdecl
      have hu1' : (s.bytes == nsXmlUri) = false := by rw [hsb]; simpa using hu1
      have hu2' : (s.bytes == nsXmlnsUri) = false := by rw [hsb]; simpa using hu2
      have hdp : declaredPrefixes [a] = [none] := by
        unfold declaredPrefixes
        simp only [List.filterMap_cons, List.filterMap_nil, hq1, hq2, hP', hD, if_true, Bool.false_eq_true, if_false, Bool.and_false, Bool.false_and]
      have hex := sinv_exists_false hs hns h0 none (hfresh _ hdp)
      have hd : declsOf [a] = [(none, s.bytes)] := by
        unfold declsOf
        simp only [List.filterMap_cons, List.filterMap_nil, hq1, hq2, hP', hD, hsb, if_true, Bool.false_eq_true, if_false, Bool.and_false, Bool.false_and]
      have hnsd : isNsDecl a.1 = true := by
        unfold isNsDecl
        rw [hq1, hq2, hP', hD]
        rfl
      rw [hd] at hV
      simp only [List.length_cons, List.length_nil] at hV
      obtain ⟨ns', hp, hsz⟩ := pushNs_ok c.doc.ns hns none s (by omega)
      simp only [hD, if_true, hu1', hu2', Bool.false_eq_true, if_false]
      dsimp only [Ctx.log]
      rw [hex]
      simp only [Res.bind_ok, Bool.false_eq_true, if_false, hp, Res.pure_eq]
      refine ⟨_, rfl, ?_⟩
      exact sinv_push hs hns none s a ns' hp hsz hd hnsd _ rfl rfl rfl rfl rfl rfl rfl rfl rfl
        rfl rfl rfl
    · -- an attribute proper
      have hD' : (pfx.bytes.isEmpty && loc.bytes == Lit.xmlns) = false := by simpa using hD
      simp only [hD', Bool.false_eq_true, if_false, Res.pure_eq]
      refine ⟨_, rfl, ?_⟩
      have hd : declsOf [a] = [] := by
        unfold declsOf
        simp only [List.filterMap_cons, List.filterMap_nil, hq1, hq2, hP', hD', if_true, Bool.false_eq_true, if_false, Bool.and_false, Bool.false_and]
      have hdp : declaredPrefixes [a] = [] := by
        unfold declaredPrefixes
        simp only [List.filterMap_cons, List.filterMap_nil, hq1, hq2, hP', hD', if_true, Bool.false_eq_true, if_false, Bool.and_false, Bool.false_and]
      have hnsd : isNsDecl a.1 = false := by
        unfold isNsDecl
        rw [hq1, hq2, hP', hD']
        rfl
      obtain ⟨own, ht, ho⟩ := hs.tree
      refine ⟨hs.nodes, hs.attrs, hs.lim, hs.pid, hs.nsi, hs.aft, hs.tag, hs.ents, hs.ld,
        ⟨own, ht, ?_⟩, hs.vals, ?_, ?_, ?_⟩
      · rw [declsOf_append, hd, List.append_nil]; exact ho
      · rw [declsOf_append, hd, List.append_nil]; exact hs.vsz
      · intro hx
        rw [declaredPrefixes_append, hdp, List.append_nil]
        exact hs.xd hx
      · show ((c.curAttrs ++ [_]).map _) = _
        rw [List.map_append, hs.cur, List.filter_append, List.map_append]
        simp [hnsd, hq1, hq2, hsb]

end

end Rox.Lemmas.CB
