/-
  Rox.Lemmas.Shift — C13 (and the accepted-document half of C14): prefixing a document with `k`
  spaces of prolog white space shifts every range and every borrowed string by exactly `k` and
  changes nothing else.
-/
import Rox.Parse
import Rox.Lemmas.Size
import Rox.Lemmas.PosIndep

namespace Rox.Lemmas
open Rox

def shiftSpan (k : Nat) (s : Span) : Span := ⟨s.off + k, s.bytes⟩

def shiftStr (k : Nat) : Str → Str
  | .borrowed s => .borrowed (shiftSpan k s)
  | .owned b => .owned b

def shiftRange (k : Nat) (r : Range) : Range := (r.1 + k, r.2 + k)

def shiftKind (k : Nat) : Kind → Kind
  | .root => .root
  | .element ns name attrs nss => .element ns (shiftSpan k name) attrs nss
  | .pi target value => .pi (shiftSpan k target) (value.map (shiftSpan k))
  | .comment s => .comment (shiftStr k s)
  | .text s => .text (shiftStr k s)

/-- a node of the shifted document (`positions`: whether ranges are stored at all; the root's
range is the whole input, so only its end moves) -/
def shiftNode (k : Nat) (positions : Bool) (n : NodeData) : NodeData :=
  { n with
    kind := shiftKind k n.kind
    range := if positions then (match n.kind with
                                | .root => (n.range.1, n.range.2 + k)
                                | _ => shiftRange k n.range)
             else n.range }

def shiftAttr (k : Nat) (positions : Bool) (a : AttrData) : AttrData :=
  { a with localName := shiftSpan k a.localName, value := shiftStr k a.value,
           range := if positions then shiftRange k a.range else a.range }

/-- entry 0 of the namespace table is the implicit `xml` binding (static strings): not shifted -/
def shiftNsValues (k : Nat) (vs : Array Namespace) : Array Namespace :=
  (vs.toList.zipIdx.map fun (v, i) =>
    if i = 0 then v else { name := v.name.map (shiftSpan k), uri := shiftStr k v.uri }).toArray

def shiftDoc (k : Nat) (positions : Bool) (d : Doc) : Doc :=
  { nodes := d.nodes.map (shiftNode k positions),
    attrs := d.attrs.map (shiftAttr k positions),
    ns := { d.ns with values := shiftNsValues k d.ns.values } }

namespace Shift
set_option linter.unusedSimpArgs false
set_option linter.unusedVariables false

/-! ### The conditional simulation: if the original run succeeds, so does the shifted run, with
the shifted result -/

/-- if `r` succeeds with `a` then `I a` holds and `r'` succeeds with `f a` -/
def Sim {α β} (I : α → Prop) (f : α → β) (r : Res α) (r' : Res β) : Prop :=
  ∀ a, r = .ok a → I a ∧ r' = .ok (f a)

abbrev OkTo {α β} (f : α → β) (r : Res α) (r' : Res β) : Prop := Sim (fun _ => True) f r r'

theorem Sim.ok {α β} {I : α → Prop} {f : α → β} {a : α} {a' : β} (hi : I a) (h : a' = f a) :
    Sim I f (.ok a) (.ok a') := by
  intro b hb; cases hb; exact ⟨hi, by rw [h]⟩

theorem OkTo.ok {α β} {f : α → β} {a : α} {a' : β} (h : a' = f a) : OkTo f (.ok a) (.ok a') :=
  Sim.ok trivial h

theorem Sim.pure {α β} {I : α → Prop} {f : α → β} {a : α} {a' : β} (hi : I a) (h : a' = f a) :
    Sim I f (pure a) (pure a') := Sim.ok hi h

theorem Sim.err {α β} {I : α → Prop} {f : α → β} {e : Err} {r' : Res β} : Sim I f (.err e) r' := by
  intro b hb; cases hb
theorem Sim.panic {α β} {I : α → Prop} {f : α → β} {s : String} {r' : Res β} :
    Sim I f (.panic s) r' := by
  intro b hb; cases hb
theorem Sim.fuel {α β} {I : α → Prop} {f : α → β} {r' : Res β} : Sim I f .fuel r' := by
  intro b hb; cases hb
theorem Sim.errAt {α β} {I : α → Prop} {f : α → β} {txt : Bytes} {mk : TextPos → Err} {p : Nat}
    {r' : Res β} : Sim I f (errAt txt mk p) r' := by
  intro b hb; exact absurd hb (errAt_ne_ok _ _ _ _)
theorem Sim.errFrom {α β} {I : α → Prop} {f : α → β} {txt : Bytes} {mk : TextPos → Err} {p : Nat}
    {r' : Res β} : Sim I f (errFrom txt mk p) r' := by
  intro b hb; exact absurd hb (errFrom_ne_ok _ _ _ _)
theorem Sim.errPos {α β} {I : α → Prop} {f : α → β} {txt : Bytes} {mk : TextPos → Err} {p : Nat}
    {r' : Res β} : Sim I f (errPos txt mk p) r' := by
  intro b hb; exact absurd hb (errPos_ne_ok _ _ _ _)

theorem Sim.bind {α α' β β'} {I : α → Prop} {J : β → Prop} {f : α → α'} {g : β → β'}
    {m : Res α} {m' : Res α'} {k : α → Res β} {k' : α' → Res β'}
    (hm : Sim I f m m') (hk : ∀ a, m = .ok a → I a → Sim J g (k a) (k' (f a))) :
    Sim J g (m >>= k) (m' >>= k') := by
  intro b hb
  cases m with
  | ok a =>
    obtain ⟨hi, hm'⟩ := hm a rfl
    subst hm'
    exact hk a rfl hi b hb
  | err e => cases hb
  | panic s => cases hb
  | fuel => cases hb

theorem Sim.ite {α β} {I : α → Prop} {f : α → β} {c : Prop} [Decidable c] {a b : Res α}
    {a' b' : Res β} (h1 : c → Sim I f a a') (h2 : ¬ c → Sim I f b b') :
    Sim I f (if c then a else b) (if c then a' else b') := by
  by_cases h : c
  · simp only [h, ↓reduceIte]; exact h1 h
  · simp only [h, ↓reduceIte]; exact h2 h

theorem Sim.weaken {α β} {I J : α → Prop} {f : α → β} {r : Res α} {r' : Res β}
    (h : Sim I f r r') (hij : ∀ a, r = .ok a → I a → J a) : Sim J f r r' := by
  intro a ha
  obtain ⟨hi, h'⟩ := h a ha
  exact ⟨hij a ha hi, h'⟩

theorem Sim.of_eq {α β} {f : α → β} {r : Res α} {r' : Res β}
    (h : ∀ a, r = .ok a → r' = .ok (f a)) : OkTo f r r' := fun a ha => ⟨trivial, h a ha⟩

/-- closes the error / panic / fuel leaves -/
macro "sim_err" : tactic =>
  `(tactic| first
    | exact Sim.errAt | exact Sim.errFrom | exact Sim.errPos | exact Sim.err | exact Sim.panic
    | exact Sim.fuel)

/-! ### Cursor level -/

/-- the cursor of the shifted run -/
def sh (k : Nat) (s : Stream) : Stream := ⟨s.pos + k, s.rest⟩

/-- position arithmetic after unfolding the shifts -/
macro "sh_arith" : tactic =>
  `(tactic| ((try simp only [sh, shiftSpan, shiftRange, Stream.mk.injEq, Span.mk.injEq, Prod.mk.injEq, and_true,
      true_and, and_self]) <;> (try omega)))

@[simp] theorem sh_rest (k : Nat) (s : Stream) : (sh k s).rest = s.rest := rfl
@[simp] theorem sh_pos (k : Nat) (s : Stream) : (sh k s).pos = s.pos + k := rfl
theorem sh_mk (k p : Nat) (r : Bytes) : sh k ⟨p, r⟩ = ⟨p + k, r⟩ := rfl

@[simp] theorem shiftSpan_bytes (k : Nat) (s : Span) : (shiftSpan k s).bytes = s.bytes := rfl
@[simp] theorem shiftSpan_off (k : Nat) (s : Span) : (shiftSpan k s).off = s.off + k := rfl
@[simp] theorem shiftStr_bytes (k : Nat) (s : Str) : (shiftStr k s).bytes = s.bytes := by
  cases s <;> rfl

section
variable (T : Tables) (k : Nat) (txt txt' : Bytes)

theorem advance_sh (s : Stream) (n : Nat) : OkTo (sh k) (s.advance n) ((sh k s).advance n) := by
  unfold Stream.advance
  simp only [sh_rest, sh_pos]
  refine Sim.ite (fun _ => OkTo.ok ?_) (fun _ => Sim.panic)
  simp only [sh, Nat.add_right_comm]

theorem skipSpacesAux_sh : ∀ (r : Bytes) (p : Nat),
    Stream.skipSpacesAux T (p + k) r = sh k (Stream.skipSpacesAux T p r) := by
  intro r
  induction r with
  | nil => intro p; rfl
  | cons b r ih =>
    intro p
    simp only [Stream.skipSpacesAux]
    by_cases h : byteIsSpace T b = true
    · simp only [h, ↓reduceIte, Nat.add_right_comm p k 1, ih]
    · simp only [h, ↓reduceIte]; rfl

theorem skipSpaces_sh (s : Stream) : (sh k s).skipSpaces T = sh k (s.skipSpaces T) :=
  skipSpacesAux_sh T k s.rest s.pos

theorem consumeByte_sh (s : Stream) (c : UInt8) :
    OkTo (sh k) (s.consumeByte txt c) ((sh k s).consumeByte txt' c) := by
  obtain ⟨p, r⟩ := s
  cases r with
  | nil => exact Sim.err
  | cons b r =>
    simp only [Stream.consumeByte, sh]
    refine Sim.ite (fun _ => Sim.errAt) (fun _ => OkTo.ok ?_)
    sh_arith

theorem tryConsumeByte_sh (s : Stream) (c : UInt8) :
    (sh k s).tryConsumeByte c = (sh k (s.tryConsumeByte c).1, (s.tryConsumeByte c).2) := by
  obtain ⟨p, r⟩ := s
  cases r with
  | nil => rfl
  | cons b r =>
    simp only [Stream.tryConsumeByte, sh]
    by_cases h : (b == c) = true
    · simp only [h, ↓reduceIte, Nat.add_right_comm]
    · simp only [h, ↓reduceIte, Bool.false_eq_true]

theorem skipString_sh (s : Stream) (lit : Bytes) :
    OkTo (sh k) (s.skipString txt lit) ((sh k s).skipString txt' lit) := by
  unfold Stream.skipString
  refine Sim.ite (fun _ => Sim.errAt) (fun _ => advance_sh k s _)

theorem spanBytesAux_sh (f : UInt8 → Bool) : ∀ (r : Bytes) (p : Nat) (acc : Bytes),
    Stream.spanBytesAux f (p + k) acc r =
      (sh k (Stream.spanBytesAux f p acc r).1, (Stream.spanBytesAux f p acc r).2) := by
  intro r
  induction r with
  | nil => intro p acc; rfl
  | cons b r ih =>
    intro p acc
    simp only [Stream.spanBytesAux]
    by_cases h : f b = true
    · simp only [h, ↓reduceIte, Nat.add_right_comm p k 1, ih]
    · simp only [h, ↓reduceIte]; rfl

theorem consumeBytes_sh (s : Stream) (f : UInt8 → Bool) :
    (sh k s).consumeBytes f = (sh k (s.consumeBytes f).1, shiftSpan k (s.consumeBytes f).2) := by
  simp only [Stream.consumeBytes, sh_pos, sh_rest, spanBytesAux_sh]
  rfl

theorem consumeSpaces_sh (s : Stream) :
    OkTo (sh k) (s.consumeSpaces T txt) ((sh k s).consumeSpaces T txt') := by
  unfold Stream.consumeSpaces
  simp only [sh_rest]
  cases hr : s.rest with
  | nil => exact Sim.err
  | cons b r =>
    dsimp only
    refine Sim.ite (fun _ => Sim.errAt) (fun _ => OkTo.ok (skipSpaces_sh T k s))

theorem consumeEq_sh (s : Stream) :
    OkTo (sh k) (s.consumeEq T txt) ((sh k s).consumeEq T txt') := by
  unfold Stream.consumeEq
  simp only [skipSpaces_sh]
  refine Sim.bind (consumeByte_sh k txt txt' _ _) (fun a _ _ => ?_)
  exact Sim.pure trivial (skipSpaces_sh T k a)

theorem consumeQuote_sh (s : Stream) :
    OkTo (fun p => (sh k p.1, p.2)) (s.consumeQuote txt) ((sh k s).consumeQuote txt') := by
  obtain ⟨p, r⟩ := s
  cases r with
  | nil => exact Sim.err
  | cons b r =>
    simp only [Stream.consumeQuote, sh]
    refine Sim.ite (fun _ => OkTo.ok ?_) (fun _ => Sim.errAt)
    simp only [Nat.add_right_comm]

end
section
variable (T : Tables) (k : Nat) (txt txt' : Bytes)

theorem skipCharsAux_sh (f f' : Stream → Nat → Bool) (hf : ∀ p r c, f' ⟨p + k, r⟩ c = f ⟨p, r⟩ c) :
    ∀ (fuel p : Nat) (r acc : Bytes),
      OkTo (fun q => (sh k q.1, q.2)) (Stream.skipCharsAux T txt f fuel ⟨p, r⟩ acc)
        (Stream.skipCharsAux T txt' f' fuel ⟨p + k, r⟩ acc) := by
  intro fuel
  induction fuel with
  | zero => intro p r acc; exact Sim.fuel
  | succ fuel ih =>
    intro p r acc
    cases r with
    | nil => exact OkTo.ok rfl
    | cons b r =>
      simp only [Stream.skipCharsAux]
      cases hd : decodeChar (b :: r) with
      | none => exact Sim.panic
      | some cw =>
        obtain ⟨c, w⟩ := cw
        dsimp only
        refine Sim.ite (fun _ => Sim.errAt) (fun _ => ?_)
        rw [hf]
        refine Sim.ite (fun _ => ?_) (fun _ => OkTo.ok rfl)
        refine Sim.ite (fun _ => ?_) (fun _ => Sim.panic)
        rw [Nat.add_right_comm p k w]
        exact ih _ _ _

theorem consumeChars_sh (f f' : Stream → Nat → Bool) (hf : ∀ p r c, f' ⟨p + k, r⟩ c = f ⟨p, r⟩ c)
    (s : Stream) :
    OkTo (fun q => (sh k q.1, shiftSpan k q.2)) (s.consumeChars T txt f)
      ((sh k s).consumeChars T txt' f') := by
  unfold Stream.consumeChars
  refine Sim.bind (skipCharsAux_sh T k txt txt' f f' hf _ s.pos s.rest []) (fun a _ _ => ?_)
  exact Sim.pure trivial rfl

theorem skipXmlChars_sh (s : Stream) :
    OkTo (sh k) (s.skipXmlChars T txt) ((sh k s).skipXmlChars T txt') := by
  unfold Stream.skipXmlChars
  refine Sim.bind (skipCharsAux_sh T k txt txt' _ _ (fun _ _ _ => rfl) _ s.pos s.rest [])
    (fun a _ _ => ?_)
  exact Sim.pure trivial rfl

theorem advanceUntil2_sh (s : Stream) (n1 n2 : UInt8) :
    OkTo (fun q => (sh k q.1, shiftSpan k q.2)) (s.advanceUntil2 n1 n2)
      ((sh k s).advanceUntil2 n1 n2) := by
  unfold Stream.advanceUntil2
  simp only [sh_pos, sh_rest, spanBytesAux_sh]
  refine Sim.ite (fun _ => Sim.err) (fun _ => OkTo.ok rfl)

theorem skipNameTail_sh : ∀ (fuel p : Nat) (r acc : Bytes),
    OkTo (fun q => (sh k q.1, q.2)) (Stream.skipNameTail T fuel ⟨p, r⟩ acc)
      (Stream.skipNameTail T fuel ⟨p + k, r⟩ acc) := by
  intro fuel
  induction fuel with
  | zero => intro p r acc; exact Sim.fuel
  | succ fuel ih =>
    intro p r acc
    cases r with
    | nil => exact OkTo.ok rfl
    | cons b r =>
      simp only [Stream.skipNameTail]
      cases hd : decodeChar (b :: r) with
      | none => exact Sim.panic
      | some cw =>
        obtain ⟨c, w⟩ := cw
        dsimp only
        refine Sim.ite (fun _ => ?_) (fun _ => OkTo.ok rfl)
        refine Sim.ite (fun _ => ?_) (fun _ => Sim.panic)
        rw [Nat.add_right_comm p k w]
        exact ih _ _ _

theorem skipName_sh (s : Stream) :
    OkTo (fun q => (sh k q.1, shiftSpan k q.2)) (s.skipName T txt) ((sh k s).skipName T txt') := by
  obtain ⟨p, r⟩ := s
  cases r with
  | nil => exact OkTo.ok rfl
  | cons b r =>
    simp only [Stream.skipName, sh]
    cases hd : decodeChar (b :: r) with
    | none => exact Sim.panic
    | some cw =>
      obtain ⟨c, w⟩ := cw
      dsimp only
      refine Sim.ite (fun _ => ?_) (fun _ => Sim.errFrom)
      refine Sim.ite (fun _ => ?_) (fun _ => Sim.panic)
      rw [Nat.add_right_comm p k w]
      refine Sim.bind (skipNameTail_sh T k _ _ _ _) (fun a _ _ => ?_)
      exact Sim.pure trivial rfl

theorem consumeName_sh (s : Stream) :
    OkTo (fun q => (sh k q.1, shiftSpan k q.2)) (s.consumeName T txt)
      ((sh k s).consumeName T txt') := by
  unfold Stream.consumeName
  refine Sim.bind (skipName_sh T k txt txt' s) (fun a _ _ => ?_)
  obtain ⟨s1, name⟩ := a
  dsimp only [shiftSpan]
  refine Sim.ite (fun _ => Sim.errFrom) (fun _ => Sim.pure trivial rfl)

theorem qnameLoop_sh (start : Nat) : ∀ (fuel p : Nat) (r acc : Bytes) (split : Option Nat),
    OkTo (fun q => (sh k q.1, q.2.1, q.2.2.map (· + k)))
      (Stream.qnameLoop T txt start fuel ⟨p, r⟩ acc split)
      (Stream.qnameLoop T txt' (start + k) fuel ⟨p + k, r⟩ acc (split.map (· + k))) := by
  intro fuel
  induction fuel with
  | zero => intro p r acc split; exact Sim.fuel
  | succ fuel ih =>
    intro p r acc split
    cases r with
    | nil => exact OkTo.ok rfl
    | cons b r =>
      simp only [Stream.qnameLoop]
      refine Sim.ite (fun _ => ?_) (fun _ => ?_)
      · refine Sim.ite (fun _ => ?_) (fun _ => ?_)
        · cases split with
          | none =>
            simp only [Option.map_none]
            rw [Nat.add_right_comm p k 1]
            exact ih _ _ _ (some p)
          | some sp => exact Sim.errFrom
        · refine Sim.ite (fun _ => ?_) (fun _ => OkTo.ok rfl)
          rw [Nat.add_right_comm p k 1]
          exact ih _ _ _ _
      · cases hd : decodeChar (b :: r) with
        | none => exact Sim.panic
        | some cw =>
          obtain ⟨c, w⟩ := cw
          dsimp only
          refine Sim.ite (fun _ => ?_) (fun _ => OkTo.ok rfl)
          refine Sim.ite (fun _ => ?_) (fun _ => Sim.panic)
          rw [Nat.add_right_comm p k w]
          exact ih _ _ _ _

theorem consumeQName_sh (s : Stream) :
    OkTo (fun q => (sh k q.1, shiftSpan k q.2.1, shiftSpan k q.2.2)) (s.consumeQName T txt)
      ((sh k s).consumeQName T txt') := by
  unfold Stream.consumeQName
  dsimp only [sh_pos, sh_rest]
  refine Sim.bind (qnameLoop_sh T k txt txt' s.pos _ s.pos s.rest [] none) (fun a _ _ => ?_)
  obtain ⟨s1, all, split⟩ := a
  cases split with
  | none =>
    dsimp only [Option.map_none]
    refine Sim.ite (fun _ => Sim.errFrom) (fun _ => ?_)
    refine Sim.ite (fun _ => Sim.errFrom) (fun _ => Sim.pure trivial rfl)
  | some sp =>
    simp only [Option.map_some, Nat.add_sub_add_right]
    refine Sim.ite (fun _ => Sim.errFrom) (fun _ => ?_)
    refine Sim.ite (fun _ => Sim.errFrom) (fun _ => Sim.pure trivial ?_)
    sh_arith

/-- the reference of the shifted run -/
def shRef (k : Nat) : Reference → Reference
  | .entity name => .entity (shiftSpan k name)
  | .char c => .char c

theorem finishRef_sh (s : Stream) (r : Reference) :
    (sh k s).finishRef (shRef k r) =
      (sh k (s.finishRef r).1, (s.finishRef r).2.map (shRef k)) := by
  obtain ⟨p, rest⟩ := s
  cases rest with
  | nil => rfl
  | cons b r' =>
    simp only [Stream.finishRef, sh]
    by_cases h : (b == bSemi) = true
    · simp only [h, ↓reduceIte, Nat.add_right_comm, Option.map_some]
    · simp only [h, ↓reduceIte, Bool.false_eq_true, Option.map_none]

theorem numericRef_sh (s : Stream) (isHex : Bool) :
    (sh k s).numericRef T isHex =
      (sh k (s.numericRef T isHex).1, (s.numericRef T isHex).2.map (shRef k)) := by
  unfold Stream.numericRef
  cases isHex
  · simp only [Bool.false_eq_true, ↓reduceIte, consumeBytes_sh, shiftSpan_bytes]
    cases parseU32 (s.consumeBytes isDecDigit).2.bytes 10 with
    | none => rfl
    | some n =>
      dsimp only
      generalize (if isScalar n = true then n else 65533) = c
      by_cases hx : (!charIsXmlChar T c) = true
      · simp only [hx, ↓reduceIte]; rfl
      · simp only [hx, ↓reduceIte, Bool.false_eq_true]
        exact finishRef_sh k _ (.char _)
  · simp only [↓reduceIte, consumeBytes_sh, shiftSpan_bytes]
    cases parseU32 (s.consumeBytes isHexDigit).2.bytes 16 with
    | none => rfl
    | some n =>
      dsimp only
      generalize (if isScalar n = true then n else 65533) = c
      by_cases hx : (!charIsXmlChar T c) = true
      · simp only [hx, ↓reduceIte]; rfl
      · simp only [hx, ↓reduceIte, Bool.false_eq_true]
        exact finishRef_sh k _ (.char _)

/-- the result of `consume_reference` matters only when it is a reference -/
def RefTo (k : Nat) (r : Res (Stream × Option Reference)) (r' : Res (Stream × Option Reference)) :
    Prop :=
  ∀ s1 x, r = .ok (s1, some x) → r' = .ok (sh k s1, some (shRef k x))

theorem RefTo.of_pair (p : Stream × Option Reference) :
    RefTo k (.ok p) (.ok (sh k p.1, p.2.map (shRef k))) := by
  intro s1 x h
  cases h
  rfl

theorem namedRef_sh (s : Stream) : RefTo k (s.namedRef T txt) ((sh k s).namedRef T txt') := by
  unfold Stream.namedRef
  have h := consumeName_sh T k txt txt' s
  cases hc : s.consumeName T txt with
  | err e => intro s1 x hx; cases hx
  | panic p => intro s1 x hx; cases hx
  | fuel => intro s1 x hx; cases hx
  | ok q =>
    obtain ⟨s2, name⟩ := q
    rw [(h _ hc).2]
    dsimp only [shiftSpan]
    have := RefTo.of_pair k (s2.finishRef
      (if (name.bytes == Lit.quot) = true then Reference.char 34
        else if (name.bytes == Lit.amp) = true then Reference.char 38
        else if (name.bytes == Lit.apos) = true then Reference.char 39
        else if (name.bytes == Lit.lt) = true then Reference.char 60
        else if (name.bytes == Lit.gt) = true then Reference.char 62 else Reference.entity name))
    rw [← finishRef_sh] at this
    repeat' split
    all_goals first | exact this | skip
    all_goals simp only [*, ↓reduceIte, Bool.false_eq_true, shRef] at this
    all_goals exact this

theorem consumeReference_sh (s : Stream) :
    RefTo k (s.consumeReference T txt) ((sh k s).consumeReference T txt') := by
  unfold Stream.consumeReference
  simp only [tryConsumeByte_sh]
  by_cases h1 : (!(s.tryConsumeByte bAmp).2) = true
  · simp only [h1, ↓reduceIte]
    intro s1 x hx; cases hx
  · simp only [h1, ↓reduceIte, Bool.false_eq_true]
    by_cases h2 : ((s.tryConsumeByte bAmp).1.tryConsumeByte bHash).2 = true
    · simp only [h2, ↓reduceIte, numericRef_sh]
      exact RefTo.of_pair k _
    · simp only [h2, ↓reduceIte, Bool.false_eq_true]
      exact namedRef_sh T k txt txt' _

end

/-! ### Token level -/

def shEnd (k : Nat) : EndKind → EndKind
  | .open => .open
  | .close p l => .close (shiftSpan k p) (shiftSpan k l)
  | .empty => .empty

/-- the token of the shifted run -/
def shTok (k : Nat) : Token → Token
  | .pi t v r => .pi (shiftSpan k t) (v.map (shiftSpan k)) (shiftRange k r)
  | .comment t r => .comment (shiftSpan k t) (shiftRange k r)
  | .entityDecl n v => .entityDecl (shiftSpan k n) (shiftSpan k v)
  | .elementStart p l st => .elementStart (shiftSpan k p) (shiftSpan k l) (st + k)
  | .attribute r q e p l v =>
    .attribute (shiftRange k r) q e (shiftSpan k p) (shiftSpan k l) (shiftSpan k v)
  | .elementEnd e r => .elementEnd (shEnd k e) (shiftRange k r)
  | .text t r => .text (shiftSpan k t) (shiftRange k r)
  | .cdata t r => .cdata (shiftSpan k t) (shiftRange k r)

/-- if `m` succeeds with `a`, then `m'` emits the shifted tokens and succeeds with `f a` -/
def SimT {α β} (k : Nat) (f : α → β) (m : TM α) (m' : TM β) : Prop :=
  ∀ a, m.2 = .ok a → m' = (m.1.map (shTok k), .ok (f a))

theorem SimT.bind {α α' β β'} {k : Nat} {f : α → α'} {h : β → β'} {m : TM α} {m' : TM α'}
    {g : α → TM β} {g' : α' → TM β'}
    (hm : SimT k f m m') (hk : ∀ a, m.2 = .ok a → SimT k h (g a) (g' (f a))) :
    SimT k h (m >>= g) (m' >>= g') := by
  obtain ⟨t1, r⟩ := m
  cases r with
  | ok a =>
    have h1 := hm a rfl
    subst h1
    intro b hb
    have hb' : (g a).2 = .ok b := hb
    have h2 := hk a rfl b hb'
    show TM.bind' _ g' = (List.map (shTok k) (TM.bind' _ g).1, _)
    simp only [TM.bind', h2, List.map_append]
    rfl
  | err e => intro b hb; cases hb
  | panic s => intro b hb; cases hb
  | fuel => intro b hb; cases hb

theorem SimT.lift {α β} {k : Nat} {f : α → β} {r : Res α} {r' : Res β} (h : OkTo f r r') :
    SimT k f (TM.lift r) (TM.lift r') := by
  intro a ha
  have ha' : r = .ok a := ha
  have := (h a ha').2
  subst ha'
  simp only [TM.lift, this, List.map_nil]
  rfl

theorem SimT.pure {α β} {k : Nat} {f : α → β} {a : α} {a' : β} (h : a' = f a) :
    SimT k f (pure a : TM α) (pure a' : TM β) := by
  intro b hb
  have hb' : Res.ok a = .ok b := hb
  cases hb'
  subst h
  rfl

theorem SimT.emit {k : Nat} {t t' : Token} (h : t' = shTok k t) :
    SimT k (fun u : Unit => u) (TM.emit t) (TM.emit t') := by
  intro b hb
  subst h
  rfl

theorem SimT.ite {α β} {k : Nat} {f : α → β} {c : Prop} [Decidable c] {a b : TM α} {a' b' : TM β}
    (h1 : c → SimT k f a a') (h2 : ¬ c → SimT k f b b') :
    SimT k f (if c then a else b) (if c then a' else b') := by
  by_cases h : c
  · simp only [h, ↓reduceIte]; exact h1 h
  · simp only [h, ↓reduceIte]; exact h2 h

theorem SimT.errFrom_any {α β} {k : Nat} {f : α → β} {txt : Bytes} {mk : TextPos → Err} {p : Nat}
    {m' : TM β} : SimT k f (TM.lift (errFrom txt mk p) : TM α) m' := by
  intro a ha
  exact absurd ha (errFrom_ne_ok _ _ _ _)

section
variable (T : Tables) (k : Nat) (txt txt' : Bytes)

theorem isXmlStrAscii_sh : ∀ (l : Bytes) (p : Nat),
    OkTo (fun u : Unit => u) (isXmlStrAscii T txt p l) (isXmlStrAscii T txt' (p + k) l) := by
  intro l
  induction l with
  | nil => intro p; exact OkTo.ok rfl
  | cons b r ih =>
    intro p
    simp only [isXmlStrAscii]
    refine Sim.ite (fun _ => Sim.errFrom) (fun _ => ?_)
    rw [Nat.add_right_comm p k 1]
    exact ih _

theorem isXmlStrUnicode_sh : ∀ (fuel : Nat) (l : Bytes) (p : Nat),
    OkTo (fun u : Unit => u) (isXmlStrUnicode T txt fuel p l)
      (isXmlStrUnicode T txt' fuel (p + k) l) := by
  intro fuel
  induction fuel with
  | zero => intro l p; exact Sim.fuel
  | succ fuel ih =>
    intro l p
    cases l with
    | nil => exact OkTo.ok rfl
    | cons b r =>
      simp only [isXmlStrUnicode]
      cases hd : decodeChar (b :: r) with
      | none => exact Sim.panic
      | some cw =>
        obtain ⟨c, w⟩ := cw
        dsimp only
        refine Sim.ite (fun _ => Sim.errFrom) (fun _ => ?_)
        rw [Nat.add_right_comm p k w]
        exact ih _ _

theorem isXmlStr_sh (v : Span) :
    OkTo (fun u : Unit => u) (isXmlStr T txt v) (isXmlStr T txt' (shiftSpan k v)) := by
  unfold isXmlStr
  simp only [shiftSpan_bytes, shiftSpan_off]
  refine Sim.ite (fun _ => isXmlStrAscii_sh T k txt txt' _ _) (fun _ => isXmlStrUnicode_sh T k txt txt' _ _ _)

theorem parseComment_sh (s : Stream) :
    SimT k (sh k) (parseComment T txt s) (parseComment T txt' (sh k s)) := by
  unfold parseComment
  dsimp only
  refine SimT.bind (SimT.lift (advance_sh k s 4)) (fun s1 _ => ?_)
  refine SimT.bind (SimT.lift (consumeChars_sh T k txt txt' _ _ (fun _ _ _ => rfl) s1)) (fun a _ => ?_)
  obtain ⟨s2, text⟩ := a
  dsimp only
  refine SimT.bind (SimT.lift (skipString_sh k txt txt' s2 _)) (fun s3 _ => ?_)
  simp only [shiftSpan_bytes]
  refine SimT.ite (fun _ => SimT.lift Sim.errFrom) (fun _ => ?_)
  refine SimT.ite (fun _ => SimT.lift Sim.errFrom) (fun _ => ?_)
  refine SimT.bind (SimT.emit rfl) (fun _ _ => SimT.pure rfl)

theorem declConsumeSpaces_sh (s : Stream) :
    OkTo (sh k) (declConsumeSpaces T txt s) (declConsumeSpaces T txt' (sh k s)) := by
  unfold declConsumeSpaces
  have h1 : (sh k s).startsWithSpace T = s.startsWithSpace T := rfl
  have h2 : (sh k s).startsWith Lit.piEnd = s.startsWith Lit.piEnd := rfl
  have h3 : (sh k s).atEnd = s.atEnd := rfl
  rw [h1, h2, h3, skipSpaces_sh]
  refine Sim.ite (fun _ => OkTo.ok rfl) (fun _ => ?_)
  refine Sim.ite (fun _ => ?_) (fun _ => OkTo.ok rfl)
  simp only [sh_rest]
  cases s.rest with
  | nil => exact Sim.panic
  | cons b r => exact Sim.errAt

theorem parsePi_sh (s : Stream) :
    SimT k (sh k) (parsePi T txt s) (parsePi T txt' (sh k s)) := by
  unfold parsePi
  dsimp only
  refine SimT.ite (fun _ => SimT.lift Sim.errAt) (fun _ => ?_)
  refine SimT.bind (SimT.lift (advance_sh k s 2)) (fun s1 _ => ?_)
  refine SimT.bind (SimT.lift (consumeName_sh T k txt txt' s1)) (fun a _ => ?_)
  obtain ⟨s2, target⟩ := a
  dsimp only
  refine SimT.bind (SimT.lift (declConsumeSpaces_sh T k txt txt' s2)) (fun s2' _ => ?_)
  refine SimT.bind (SimT.lift (consumeChars_sh T k txt txt' _ _ (fun _ _ _ => rfl) _)) (fun a _ => ?_)
  obtain ⟨s3, content⟩ := a
  dsimp only
  refine SimT.bind (SimT.lift (skipString_sh k txt txt' s3 _)) (fun s4 _ => ?_)
  refine SimT.bind (SimT.emit ?_) (fun _ _ => SimT.pure rfl)
  simp only [shiftSpan_bytes, shTok]
  by_cases hc : (!content.bytes.isEmpty) = true
  · simp only [hc, ↓reduceIte]; rfl
  · simp only [hc, ↓reduceIte, Bool.false_eq_true]; rfl

theorem parseMisc_sh : ∀ (fuel : Nat) (s : Stream),
    SimT k (sh k) (parseMisc T txt fuel s) (parseMisc T txt' fuel (sh k s)) := by
  intro fuel
  induction fuel with
  | zero => intro s; exact SimT.lift Sim.fuel
  | succ fuel ih =>
    intro s
    simp only [parseMisc, skipSpaces_sh]
    refine SimT.ite (fun _ => SimT.pure rfl) (fun _ => ?_)
    refine SimT.ite (fun _ => ?_) (fun _ => ?_)
    · exact SimT.bind (parseComment_sh T k txt txt' _) (fun s1 _ => ih s1)
    · refine SimT.ite (fun _ => ?_) (fun _ => SimT.pure rfl)
      exact SimT.bind (parsePi_sh T k txt txt' _) (fun s1 _ => ih s1)

end

section
variable (T : Tables) (k : Nat) (txt txt' : Bytes)

theorem parseExternalId_sh (s : Stream) :
    OkTo (fun q => (sh k q.1, q.2)) (parseExternalId T txt s) (parseExternalId T txt' (sh k s)) := by
  unfold parseExternalId
  refine Sim.ite (fun _ => ?_) (fun _ => Sim.pure trivial rfl)
  dsimp only
  refine Sim.bind (advance_sh k s 6) (fun s1 _ _ => ?_)
  refine Sim.bind (consumeSpaces_sh T k txt txt' s1) (fun s2 _ _ => ?_)
  refine Sim.bind (consumeQuote_sh k txt txt' s2) (fun a _ _ => ?_)
  obtain ⟨s3, quote⟩ := a
  simp only [consumeBytes_sh]
  generalize s3.consumeBytes (fun c => c != quote) = q
  obtain ⟨s4, sp⟩ := q
  dsimp only
  refine Sim.bind (consumeByte_sh k txt txt' s4 _) (fun s5 _ _ => ?_)
  refine Sim.ite (fun _ => Sim.pure trivial rfl) (fun _ => ?_)
  refine Sim.bind (consumeSpaces_sh T k txt txt' s5) (fun s6 _ _ => ?_)
  refine Sim.bind (consumeQuote_sh k txt txt' s6) (fun a _ _ => ?_)
  obtain ⟨s7, quote2⟩ := a
  simp only [consumeBytes_sh]
  generalize s7.consumeBytes (fun c => c != quote2) = q
  obtain ⟨s8, sp2⟩ := q
  dsimp only
  refine Sim.bind (consumeByte_sh k txt txt' s8 _) (fun s9 _ _ => ?_)
  exact Sim.pure trivial rfl

theorem parseEntityDef_sh (s : Stream) (isGe : Bool) :
    OkTo (fun q => (sh k q.1, q.2.map (shiftSpan k))) (parseEntityDef T txt s isGe)
      (parseEntityDef T txt' (sh k s) isGe) := by
  unfold parseEntityDef
  have hcb : (sh k s).currByte = s.currByte := rfl
  rw [hcb]
  cases s.currByte with
  | err e => exact Sim.err
  | panic p => exact Sim.panic
  | fuel => exact Sim.fuel
  | ok c =>
    simp only [Res.bind_ok]
    refine Sim.ite (fun _ => ?_) (fun _ => ?_)
    · refine Sim.bind (consumeQuote_sh k txt txt' s) (fun a _ _ => ?_)
      obtain ⟨s3, quote⟩ := a
      simp only [consumeBytes_sh]
      generalize s3.consumeBytes (fun c => c != quote) = q
      obtain ⟨s4, sp⟩ := q
      dsimp only
      refine Sim.bind (consumeByte_sh k txt txt' s4 _) (fun s5 _ _ => ?_)
      exact Sim.pure trivial rfl
    · refine Sim.ite (fun _ => ?_) (fun _ => Sim.errAt)
      refine Sim.bind (parseExternalId_sh T k txt txt' s) (fun a _ _ => ?_)
      obtain ⟨s1, isExt⟩ := a
      dsimp only
      refine Sim.ite (fun _ => ?_) (fun _ => Sim.errAt)
      refine Sim.ite (fun _ => ?_) (fun _ => Sim.pure trivial rfl)
      rw [skipSpaces_sh]
      refine Sim.ite (fun _ => ?_) (fun _ => Sim.pure trivial rfl)
      refine Sim.bind (advance_sh k _ 5) (fun s2 _ _ => ?_)
      refine Sim.bind (consumeSpaces_sh T k txt txt' s2) (fun s3 _ _ => ?_)
      refine Sim.bind (skipName_sh T k txt txt' s3) (fun a _ _ => ?_)
      exact Sim.pure trivial rfl

theorem parseEntityDeclBody_sh (s : Stream) (isGe : Bool) :
    SimT k (sh k) (parseEntityDeclBody T txt s isGe) (parseEntityDeclBody T txt' (sh k s) isGe) := by
  unfold parseEntityDeclBody
  refine SimT.bind (SimT.lift (consumeName_sh T k txt txt' s)) (fun a _ => ?_)
  obtain ⟨s1, name⟩ := a
  dsimp only
  refine SimT.bind (SimT.lift (consumeSpaces_sh T k txt txt' s1)) (fun s2 _ => ?_)
  refine SimT.bind (SimT.lift (parseEntityDef_sh T k txt txt' s2 isGe)) (fun a _ => ?_)
  obtain ⟨s3, defn⟩ := a
  dsimp only
  have hlast : SimT k (sh k) (TM.lift (Stream.consumeByte txt (Stream.skipSpaces T s3) bGt))
      (TM.lift (Stream.consumeByte txt' (Stream.skipSpaces T (sh k s3)) bGt)) := by
    rw [skipSpaces_sh]
    exact SimT.lift (consumeByte_sh k txt txt' _ _)
  cases defn with
  | none => exact hlast
  | some d =>
    dsimp only [Option.map_some]
    refine SimT.ite (fun _ => ?_) (fun _ => hlast)
    exact SimT.bind (SimT.emit rfl) (fun _ _ => hlast)

theorem parseEntityDecl_sh (s : Stream) :
    SimT k (sh k) (parseEntityDecl T txt s) (parseEntityDecl T txt' (sh k s)) := by
  unfold parseEntityDecl
  refine SimT.bind (SimT.lift (advance_sh k s 8)) (fun s1 _ => ?_)
  refine SimT.bind (SimT.lift (consumeSpaces_sh T k txt txt' s1)) (fun s2 _ => ?_)
  simp only [tryConsumeByte_sh]
  refine SimT.ite (fun _ => ?_) (fun _ => parseEntityDeclBody_sh T k txt txt' _ _)
  refine SimT.bind (SimT.lift (consumeSpaces_sh T k txt txt' _)) (fun s3 _ => ?_)
  exact parseEntityDeclBody_sh T k txt txt' _ _

theorem consumeDecl_sh (s : Stream) (h : (consumeDecl txt s).2 = false) :
    consumeDecl txt' (sh k s) = (sh k (consumeDecl txt s).1, false) := by
  unfold consumeDecl at h ⊢
  simp only [consumeBytes_sh] at h ⊢
  have hs := consumeByte_sh k txt txt' (s.consumeBytes fun c => c != bGt).1 bGt
  cases hc : Stream.consumeByte txt (s.consumeBytes fun c => c != bGt).1 bGt with
  | ok s2 => rw [(hs _ hc).2]
  | err e => rw [hc] at h; cases h
  | panic p => rw [hc] at h; cases h
  | fuel => rw [hc] at h; cases h

theorem parseDoctypeStart_sh (s : Stream) :
    OkTo (sh k) (parseDoctypeStart T txt s) (parseDoctypeStart T txt' (sh k s)) := by
  unfold parseDoctypeStart
  refine Sim.bind (advance_sh k s 9) (fun s1 _ _ => ?_)
  refine Sim.bind (consumeSpaces_sh T k txt txt' s1) (fun s2 _ _ => ?_)
  refine Sim.bind (skipName_sh T k txt txt' s2) (fun a _ _ => ?_)
  obtain ⟨s3, nm⟩ := a
  dsimp only
  rw [skipSpaces_sh]
  refine Sim.bind (parseExternalId_sh T k txt txt' _) (fun a _ _ => ?_)
  obtain ⟨s4, ext⟩ := a
  dsimp only
  rw [skipSpaces_sh]
  have hcb : (sh k (Stream.skipSpaces T s4)).currByte = (Stream.skipSpaces T s4).currByte := rfl
  rw [hcb]
  refine Sim.bind (f := fun c : UInt8 => c) (fun a ha => ⟨trivial, ha⟩) (fun c _ _ => ?_)
  exact Sim.ite (fun _ => Sim.errAt) (fun _ => Sim.pure trivial rfl)

theorem doctypeLoop_sh (start : Nat) : ∀ (fuel : Nat) (s : Stream),
    SimT k (sh k) (doctypeLoop T txt start fuel s) (doctypeLoop T txt' (start + k) fuel (sh k s)) := by
  intro fuel
  induction fuel with
  | zero => intro s; exact SimT.lift Sim.fuel
  | succ fuel ih =>
    intro s
    simp only [doctypeLoop, skipSpaces_sh]
    refine SimT.ite (fun _ => SimT.pure rfl) (fun _ => ?_)
    refine SimT.ite (fun _ => ?_) (fun _ => ?_)
    · exact SimT.bind (parseEntityDecl_sh T k txt txt' _) (fun s1 _ => ih s1)
    refine SimT.ite (fun _ => ?_) (fun _ => ?_)
    · exact SimT.bind (parseComment_sh T k txt txt' _) (fun s1 _ => ih s1)
    refine SimT.ite (fun _ => ?_) (fun _ => ?_)
    · exact SimT.bind (parsePi_sh T k txt txt' _) (fun s1 _ => ih s1)
    refine SimT.ite (fun _ => ?_) (fun _ => ?_)
    · refine SimT.bind (SimT.lift (advance_sh k _ 1)) (fun s1 _ => ?_)
      simp only [skipSpaces_sh]
      generalize Stream.skipSpaces T s1 = s2
      obtain ⟨p, r⟩ := s2
      cases r with
      | nil => exact SimT.lift Sim.err
      | cons c r =>
        simp only [sh]
        refine SimT.ite (fun _ => SimT.pure ?_) (fun _ => SimT.lift Sim.errAt)
        sh_arith
    refine SimT.ite (fun _ => ?_) (fun _ => SimT.lift Sim.errAt)
    cases hf : (consumeDecl txt (Stream.skipSpaces T s)).2 with
    | true =>
      have : consumeDecl txt (Stream.skipSpaces T s) = ((consumeDecl txt (Stream.skipSpaces T s)).1, true) := by
        rw [← hf]
      rw [this]
      simp only [↓reduceIte]
      exact SimT.errFrom_any
    | false =>
      have h1 : consumeDecl txt (Stream.skipSpaces T s) = ((consumeDecl txt (Stream.skipSpaces T s)).1, false) := by
        rw [← hf]
      rw [consumeDecl_sh k txt txt' _ hf, h1]
      simp only [Bool.false_eq_true, ↓reduceIte]
      exact ih _

theorem parseDoctype_sh (s : Stream) :
    SimT k (sh k) (parseDoctype T txt s) (parseDoctype T txt' (sh k s)) := by
  unfold parseDoctype
  dsimp only
  refine SimT.bind (SimT.lift (parseDoctypeStart_sh T k txt txt' s)) (fun s1 _ => ?_)
  simp only [skipSpaces_sh]
  generalize Stream.skipSpaces T s1 = s2
  obtain ⟨p, r⟩ := s2
  cases r with
  | nil => exact SimT.lift Sim.panic
  | cons c r =>
    simp only [sh]
    refine SimT.ite (fun _ => SimT.pure ?_) (fun _ => ?_)
    · sh_arith
    · refine SimT.bind (SimT.lift (advance_sh k ⟨p, c :: r⟩ 1)) (fun s3 _ => ?_)
      exact doctypeLoop_sh T k txt txt' _ _ _

theorem startTagLoop_sh : ∀ (fuel : Nat) (s : Stream),
    SimT k (fun q => (sh k q.1, q.2)) (startTagLoop T txt fuel s) (startTagLoop T txt' fuel (sh k s)) := by
  intro fuel
  induction fuel with
  | zero => intro s; exact SimT.lift Sim.fuel
  | succ fuel ih =>
    intro s
    simp only [startTagLoop, skipSpaces_sh]
    refine SimT.ite (fun _ => SimT.pure rfl) (fun _ => ?_)
    have hcb : (sh k (Stream.skipSpaces T s)).currByte = (Stream.skipSpaces T s).currByte := rfl
    have hsp : (sh k s).startsWithSpace T = s.startsWithSpace T := rfl
    rw [hcb, hsp]
    generalize Stream.skipSpaces T s = s0
    refine SimT.bind (f := fun c : UInt8 => c) (SimT.lift (fun a ha => ⟨trivial, ha⟩)) (fun c _ => ?_)
    refine SimT.ite (fun _ => ?_) (fun _ => ?_)
    · refine SimT.bind (SimT.lift (advance_sh k s0 1)) (fun s1 _ => ?_)
      refine SimT.bind (SimT.lift (consumeByte_sh k txt txt' s1 _)) (fun s2 _ => ?_)
      exact SimT.bind (SimT.emit rfl) (fun _ _ => SimT.pure rfl)
    refine SimT.ite (fun _ => ?_) (fun _ => ?_)
    · refine SimT.bind (SimT.lift (advance_sh k s0 1)) (fun s1 _ => ?_)
      exact SimT.bind (SimT.emit rfl) (fun _ _ => SimT.pure rfl)
    refine SimT.bind (f := sh k) (SimT.lift ?_) (fun s1 _ => ?_)
    · exact Sim.ite (fun _ => consumeSpaces_sh T k txt txt' s0) (fun _ => OkTo.ok rfl)
    refine SimT.bind (SimT.lift (consumeQName_sh T k txt txt' s1)) (fun a _ => ?_)
    obtain ⟨s2, pfx, loc⟩ := a
    dsimp only
    refine SimT.bind (SimT.lift (consumeEq_sh T k txt txt' s2)) (fun s3 _ => ?_)
    refine SimT.bind (SimT.lift (consumeQuote_sh k txt txt' s3)) (fun a _ => ?_)
    obtain ⟨s4, quote⟩ := a
    dsimp only
    refine SimT.bind (SimT.lift (advanceUntil2_sh k s4 quote bLt)) (fun a _ => ?_)
    obtain ⟨s5, value⟩ := a
    dsimp only
    refine SimT.bind (SimT.lift (isXmlStr_sh T k txt txt' value)) (fun _ _ => ?_)
    refine SimT.bind (SimT.lift (consumeByte_sh k txt txt' s5 _)) (fun s6 _ => ?_)
    refine SimT.bind (SimT.emit ?_) (fun _ _ => ih s6)
    simp only [sh_pos, Nat.add_sub_add_right, shTok, shiftRange]

theorem parseStartTag_sh (s : Stream) :
    SimT k (fun q => (sh k q.1, q.2)) (parseStartTag T txt s) (parseStartTag T txt' (sh k s)) := by
  unfold parseStartTag
  dsimp only
  refine SimT.bind (SimT.lift (advance_sh k s 1)) (fun s1 _ => ?_)
  refine SimT.bind (SimT.lift (consumeQName_sh T k txt txt' s1)) (fun a _ => ?_)
  obtain ⟨s2, pfx, loc⟩ := a
  dsimp only
  refine SimT.bind (SimT.emit rfl) (fun _ _ => ?_)
  refine SimT.bind (startTagLoop_sh T k txt txt' _ s2) (fun a _ => ?_)
  obtain ⟨s3, fin⟩ := a
  cases fin with
  | none => exact SimT.lift Sim.err
  | some opened => exact SimT.pure rfl

theorem parseCdata_sh (s : Stream) :
    SimT k (sh k) (parseCdata T txt s) (parseCdata T txt' (sh k s)) := by
  unfold parseCdata
  dsimp only
  refine SimT.bind (SimT.lift (advance_sh k s 9)) (fun s1 _ => ?_)
  refine SimT.bind (SimT.lift (consumeChars_sh T k txt txt' _ _ (fun _ _ _ => rfl) s1)) (fun a _ => ?_)
  obtain ⟨s2, text⟩ := a
  dsimp only
  refine SimT.bind (SimT.lift (skipString_sh k txt txt' s2 _)) (fun s3 _ => ?_)
  exact SimT.bind (SimT.emit rfl) (fun _ _ => SimT.pure rfl)

theorem parseCloseElement_sh (s : Stream) :
    SimT k (sh k) (parseCloseElement T txt s) (parseCloseElement T txt' (sh k s)) := by
  unfold parseCloseElement
  dsimp only
  refine SimT.bind (SimT.lift (advance_sh k s 2)) (fun s1 _ => ?_)
  refine SimT.bind (SimT.lift (consumeQName_sh T k txt txt' s1)) (fun a _ => ?_)
  obtain ⟨s2, pfx, loc⟩ := a
  dsimp only
  rw [skipSpaces_sh]
  refine SimT.bind (SimT.lift (consumeByte_sh k txt txt' _ _)) (fun s3 _ => ?_)
  exact SimT.bind (SimT.emit rfl) (fun _ _ => SimT.pure rfl)

theorem parseText_sh (s : Stream) :
    SimT k (sh k) (parseText T txt s) (parseText T txt' (sh k s)) := by
  unfold parseText
  dsimp only
  refine SimT.bind (SimT.lift (consumeChars_sh T k txt txt' _ _ (fun _ _ _ => rfl) s)) (fun a _ => ?_)
  obtain ⟨s2, text⟩ := a
  dsimp only [shiftSpan_bytes]
  refine SimT.ite (fun _ => SimT.lift Sim.errAt) (fun _ => ?_)
  exact SimT.bind (SimT.emit rfl) (fun _ _ => SimT.pure rfl)

theorem parseContent_sh : ∀ (fuel depth : Nat) (s : Stream),
    SimT k (sh k) (parseContent T txt fuel depth s) (parseContent T txt' fuel depth (sh k s)) := by
  intro fuel
  induction fuel with
  | zero => intro depth s; exact SimT.lift Sim.fuel
  | succ fuel ih =>
    intro depth s
    simp only [parseContent, sh_rest]
    cases hr : s.rest with
    | nil => exact SimT.pure rfl
    | cons c r =>
      dsimp only
      have hnb : (sh k s).nextByte = s.nextByte := rfl
      have hsw : ∀ lit, (sh k s).startsWith lit = s.startsWith lit := fun _ => rfl
      rw [hnb]
      simp only [hsw]
      refine SimT.ite (fun _ => ?_) (fun _ => ?_)
      · cases hn : s.nextByte with
        | ok n =>
          dsimp only
          refine SimT.ite (fun _ => ?_) (fun _ => ?_)
          · refine SimT.ite (fun _ => ?_) (fun _ => ?_)
            · exact SimT.bind (parseComment_sh T k txt txt' _) (fun s1 _ => ih _ s1)
            refine SimT.ite (fun _ => ?_) (fun _ => SimT.lift Sim.errAt)
            exact SimT.bind (parseCdata_sh T k txt txt' _) (fun s1 _ => ih _ s1)
          refine SimT.ite (fun _ => ?_) (fun _ => ?_)
          · exact SimT.bind (parsePi_sh T k txt txt' _) (fun s1 _ => ih _ s1)
          refine SimT.ite (fun _ => ?_) (fun _ => ?_)
          · refine SimT.bind (parseCloseElement_sh T k txt txt' _) (fun s1 _ => ?_)
            exact SimT.ite (fun _ => SimT.pure rfl) (fun _ => ih _ s1)
          · refine SimT.bind (parseStartTag_sh T k txt txt' _) (fun a _ => ?_)
            obtain ⟨s1, opened⟩ := a
            exact ih _ s1
        | err e => exact SimT.lift Sim.errAt
        | panic p => exact SimT.lift Sim.errAt
        | fuel => exact SimT.lift Sim.errAt
      · exact SimT.bind (parseText_sh T k txt txt' _) (fun s1 _ => ih _ s1)

theorem parseElement_sh (s : Stream) :
    SimT k (sh k) (parseElement T txt s) (parseElement T txt' (sh k s)) := by
  unfold parseElement
  refine SimT.bind (parseStartTag_sh T k txt txt' s) (fun a _ => ?_)
  obtain ⟨s1, opened⟩ := a
  dsimp only
  exact SimT.ite (fun _ => parseContent_sh T k txt txt' _ _ s1) (fun _ => SimT.pure rfl)

theorem parseRootElement_sh (s : Stream) :
    SimT k (sh k) (parseRootElement T txt s) (parseRootElement T txt' (sh k s)) := by
  unfold parseRootElement
  have : (sh k s).currByte? = s.currByte? := rfl
  rw [this]
  exact SimT.ite (fun _ => parseElement_sh T k txt txt' s) (fun _ => SimT.pure rfl)

theorem parseBody_sh (s : Stream) :
    SimT k (fun u : Unit => u) (parseBody T txt s) (parseBody T txt' (sh k s)) := by
  unfold parseBody
  dsimp only
  rw [skipSpaces_sh]
  refine SimT.bind (parseRootElement_sh T k txt txt' _) (fun s1 _ => ?_)
  refine SimT.bind (parseMisc_sh T k txt txt' _ s1) (fun s2 _ => ?_)
  have : (sh k s2).atEnd = s2.atEnd := rfl
  rw [this]
  exact SimT.ite (fun _ => SimT.lift Sim.errAt) (fun _ => SimT.pure rfl)

/-- what parsing after the prolog does -/
def afterProlog (allowDtd : Bool) (s : Stream) : TM Unit :=
  if s.startsWith Lit.doctype then
    if !allowDtd then TM.lift (.err .dtdDetected)
    else do
      let s ← parseDoctype T txt s
      let s ← parseMisc T txt (s.rest.length + 1) s
      parseBody T txt s
  else parseBody T txt s

theorem parseDocument_eq (allowDtd : Bool) :
    parseDocument T txt allowDtd = (parseProlog T txt >>= afterProlog T txt allowDtd) := rfl

theorem afterProlog_sh (allowDtd : Bool) (s : Stream) :
    SimT k (fun u : Unit => u) (afterProlog T txt allowDtd s) (afterProlog T txt' allowDtd (sh k s)) := by
  unfold afterProlog
  have : (sh k s).startsWith Lit.doctype = s.startsWith Lit.doctype := rfl
  rw [this]
  refine SimT.ite (fun _ => ?_) (fun _ => parseBody_sh T k txt txt' s)
  refine SimT.ite (fun _ => SimT.lift Sim.err) (fun _ => ?_)
  refine SimT.bind (parseDoctype_sh T k txt txt' s) (fun s1 _ => ?_)
  refine SimT.bind (parseMisc_sh T k txt txt' _ s1) (fun s2 _ => ?_)
  exact parseBody_sh T k txt txt' s2

end

/-! ### The prolog: the `k` spaces are eaten by the first `skip_spaces` -/

theorem TM.bind_ok_inv {α β} {m : TM α} {g : α → TM β} {b : β} (h : (m >>= g).2 = .ok b) :
    ∃ a, m.2 = .ok a ∧ (g a).2 = .ok b := by
  obtain ⟨t1, r⟩ := m
  cases r with
  | ok a => exact ⟨a, rfl, h⟩
  | err e => cases h
  | panic s => cases h
  | fuel => cases h

theorem TM.bind_congr_ok {α β} {m : TM α} {g g' : α → TM β} (h : ∀ a, m.2 = .ok a → g' a = g a) :
    (m >>= g') = (m >>= g) := by
  obtain ⟨t1, r⟩ := m
  cases r with
  | ok a =>
    show TM.bind' _ g' = TM.bind' _ g
    simp only [TM.bind', h a rfl]
    rfl
  | err e => rfl
  | panic s => rfl
  | fuel => rfl

theorem TM.lift_ok_bind {α β} (a : α) (g : α → TM β) : (TM.lift (.ok a) >>= g) = g a := rfl

section
variable (T : Tables) (k : Nat) (txt txt' : Bytes)

theorem parseMisc_fuel_mono : ∀ (n : Nat) (s : Stream) (a : Stream),
    (parseMisc T txt n s).2 = .ok a → ∀ j, parseMisc T txt (n + j) s = parseMisc T txt n s := by
  intro n
  induction n with
  | zero => intro s a h; cases h
  | succ n ih =>
    intro s a h j
    rw [Nat.add_right_comm n 1 j]
    simp only [parseMisc] at h ⊢
    by_cases h1 : s.atEnd = true
    · simp only [h1, ↓reduceIte]
    · simp only [h1, ↓reduceIte, Bool.false_eq_true] at h ⊢
      by_cases h2 : (Stream.skipSpaces T s).startsWith Lit.commentStart = true
      · simp only [h2, ↓reduceIte] at h ⊢
        obtain ⟨b, hb, hg⟩ := TM.bind_ok_inv h
        refine TM.bind_congr_ok (fun b' hb' => ?_)
        rw [hb] at hb'
        cases hb'
        exact ih _ _ hg j
      · simp only [h2, ↓reduceIte, Bool.false_eq_true] at h ⊢
        by_cases h3 : (Stream.skipSpaces T s).startsWith Lit.piStart = true
        · simp only [h3, ↓reduceIte] at h ⊢
          obtain ⟨b, hb, hg⟩ := TM.bind_ok_inv h
          refine TM.bind_congr_ok (fun b' hb' => ?_)
          rw [hb] at hb'
          cases hb'
          exact ih _ _ hg j
        · simp only [h3, ↓reduceIte, Bool.false_eq_true]

theorem skipSpacesAux_ws (hsp : byteIsSpace T 32 = true) (r : Bytes) : ∀ (k p : Nat),
    Stream.skipSpacesAux T p (List.replicate k 32 ++ r) = Stream.skipSpacesAux T (p + k) r := by
  intro k
  induction k with
  | zero => intro p; simp
  | succ k ih =>
    intro p
    simp only [List.replicate_succ, List.cons_append, Stream.skipSpacesAux, hsp, ↓reduceIte, ih]
    congr 1; omega

theorem skipSpaces_ws (hsp : byteIsSpace T 32 = true) (p : Nat) (r : Bytes) :
    Stream.skipSpaces T ⟨p, List.replicate k 32 ++ r⟩ = sh k (Stream.skipSpaces T ⟨p, r⟩) := by
  simp only [Stream.skipSpaces, skipSpacesAux_ws T hsp, skipSpacesAux_sh]

theorem parseMisc_ws (hsp : byteIsSpace T 32 = true) (fuel p : Nat) (r : Bytes) :
    SimT k (sh k) (parseMisc T txt (fuel + 1) ⟨p, r⟩)
      (parseMisc T txt' (fuel + 1) ⟨p, List.replicate k 32 ++ r⟩) := by
  simp only [parseMisc, skipSpaces_ws T k hsp]
  cases r with
  | nil =>
    cases k with
    | zero => exact SimT.pure rfl
    | succ k =>
      simp [Stream.atEnd, List.replicate_succ, Stream.skipSpaces, Stream.skipSpacesAux, sh,
        Stream.startsWith, Lit.commentStart, Lit.piStart]
      exact SimT.pure rfl
  | cons b r =>
    have h1 : (Stream.mk p (b :: r)).atEnd = false := rfl
    have h2 : (Stream.mk p (List.replicate k 32 ++ b :: r)).atEnd = false := by
      simp [Stream.atEnd]
    simp only [h1, h2, Bool.false_eq_true, ↓reduceIte]
    have hsw : ∀ (s : Stream) lit, (sh k s).startsWith lit = s.startsWith lit := fun _ _ => rfl
    simp only [hsw]
    refine SimT.ite (fun _ => ?_) (fun _ => ?_)
    · exact SimT.bind (parseComment_sh T k txt txt' _) (fun s1 _ => parseMisc_sh T k txt txt' _ s1)
    · refine SimT.ite (fun _ => ?_) (fun _ => SimT.pure rfl)
      exact SimT.bind (parsePi_sh T k txt txt' _) (fun s1 _ => parseMisc_sh T k txt txt' _ s1)

theorem parseProlog_ws (hsp : byteIsSpace T 32 = true)
    (hbom : Stream.startsWith ⟨0, txt⟩ Lit.bom = false)
    (hdecl : Stream.startsWithXmlDecl T ⟨0, txt⟩ = false) :
    SimT k (sh k) (parseProlog T txt) (parseProlog T (List.replicate k 32 ++ txt)) := by
  have hbom' : Stream.startsWith ⟨0, List.replicate k 32 ++ txt⟩ Lit.bom = false := by
    cases k with
    | zero => simpa using hbom
    | succ k => simp [Stream.startsWith, Lit.bom, List.replicate_succ, List.isPrefixOf]
  have hdecl' : Stream.startsWithXmlDecl T ⟨0, List.replicate k 32 ++ txt⟩ = false := by
    cases k with
    | zero => simpa using hdecl
    | succ k =>
      simp [Stream.startsWithXmlDecl, Stream.startsWith, Lit.xmlDeclOpen, List.replicate_succ,
        List.isPrefixOf]
  unfold parseProlog
  simp only [Stream.new, hbom, hdecl, hbom', hdecl', Bool.false_eq_true, ↓reduceIte, TM.lift_ok_bind]
  intro a ha
  obtain ⟨b, hb, _⟩ := TM.bind_ok_inv ha
  have hmono := parseMisc_fuel_mono T txt _ _ _ hb k
  have hlen : (List.replicate k 32 ++ txt).length + 1 = txt.length + k + 1 := by
    simp; omega
  rw [hlen]
  rw [Nat.add_right_comm] at hmono
  rw [← hmono] at ha ⊢
  refine SimT.bind (parseMisc_ws T k txt _ hsp _ 0 txt) (fun s1 _ => ?_) a ha
  exact SimT.pure (skipSpaces_sh T k s1)

theorem parseDocument_ws (hsp : byteIsSpace T 32 = true)
    (hbom : Stream.startsWith ⟨0, txt⟩ Lit.bom = false)
    (hdecl : Stream.startsWithXmlDecl T ⟨0, txt⟩ = false) (allowDtd : Bool) :
    SimT k (fun u : Unit => u) (parseDocument T txt allowDtd)
      (parseDocument T (List.replicate k 32 ++ txt) allowDtd) := by
  rw [parseDocument_eq, parseDocument_eq]
  exact SimT.bind (parseProlog_ws T k txt hsp hbom hdecl) (fun s _ => afterProlog_sh T k txt _ allowDtd s)

end

/-! ### Builder level: the context of the shifted run -/

def shTA (k : Nat) (a : TempAttr) : TempAttr :=
  { a with pfx := shiftSpan k a.pfx, loc := shiftSpan k a.loc, value := shiftStr k a.value,
           range := shiftRange k a.range }

def shEnt (k : Nat) (e : Entity) : Entity := ⟨shiftSpan k e.name, shiftSpan k e.value⟩

/-- the tag name of the shifted run (the reset value `{}` is the same in both runs) -/
def shTag (k : Nat) (t : TagName) : TagName :=
  if t = {} then t
  else { t with nameSpan := shiftSpan k t.nameSpan, pos := t.pos + k, prefixPos := t.prefixPos + k }

def shEv (k : Nat) : Ev → Ev
  | .token t => .token (shTok k t)
  | .textFragment s r => .textFragment (shiftStr k s) (shiftRange k r)
  | .attrValue s => .attrValue (shiftStr k s)
  | .loop op ok d r => .loop op ok d r

def shNs (k : Nat) (v : Namespace) : Namespace :=
  { name := v.name.map (shiftSpan k), uri := shiftStr k v.uri }

def shNss (k : Nat) (ns : Namespaces) : Namespaces := { ns with values := shiftNsValues k ns.values }

/-- the context of the shifted run, as a function of the context of the original run -/
def shC (k : Nat) (c : Ctx) : Ctx :=
  { c with doc := shiftDoc k c.positions c.doc,
           curAttrs := c.curAttrs.map (shTA k),
           afterText := c.afterText.map (shiftStr k),
           entities := c.entities.map (shEnt k),
           tagName := shTag k c.tagName,
           trace := c.trace.map (shEv k) }

/-- the invariant the simulation needs of the original run: entry 0 of the namespace table exists
(it is what `shiftNsValues` leaves alone), and the `positions` flag is the one of the options -/
def NZ (pos : Bool) (c : Ctx) : Prop := 0 < c.doc.ns.values.size ∧ c.positions = pos

variable {pos : Bool}

@[simp] theorem shC_positions (k : Nat) (c : Ctx) : (shC k c).positions = c.positions := rfl
@[simp] theorem shC_doc (k : Nat) (c : Ctx) : (shC k c).doc = shiftDoc k c.positions c.doc := rfl
@[simp] theorem shC_nodesLimit (k : Nat) (c : Ctx) : (shC k c).nodesLimit = c.nodesLimit := rfl
@[simp] theorem shC_nsStartIdx (k : Nat) (c : Ctx) : (shC k c).nsStartIdx = c.nsStartIdx := rfl
@[simp] theorem shC_xmlDeclared (k : Nat) (c : Ctx) : (shC k c).xmlDeclared = c.xmlDeclared := rfl
@[simp] theorem shC_curAttrs (k : Nat) (c : Ctx) : (shC k c).curAttrs = c.curAttrs.map (shTA k) := rfl
@[simp] theorem shC_awaiting (k : Nat) (c : Ctx) : (shC k c).awaiting = c.awaiting := rfl
@[simp] theorem shC_parentPrefixes (k : Nat) (c : Ctx) : (shC k c).parentPrefixes = c.parentPrefixes := rfl
@[simp] theorem shC_entityFloor (k : Nat) (c : Ctx) : (shC k c).entityFloor = c.entityFloor := rfl
@[simp] theorem shC_entities (k : Nat) (c : Ctx) : (shC k c).entities = c.entities.map (shEnt k) := rfl
@[simp] theorem shC_afterText (k : Nat) (c : Ctx) : (shC k c).afterText = c.afterText.map (shiftStr k) := rfl
@[simp] theorem shC_parentId (k : Nat) (c : Ctx) : (shC k c).parentId = c.parentId := rfl
@[simp] theorem shC_tagName (k : Nat) (c : Ctx) : (shC k c).tagName = shTag k c.tagName := rfl
@[simp] theorem shC_ld (k : Nat) (c : Ctx) : (shC k c).ld = c.ld := rfl
@[simp] theorem shC_trace (k : Nat) (c : Ctx) : (shC k c).trace = c.trace.map (shEv k) := rfl
@[simp] theorem shC_maxDepth (k : Nat) (c : Ctx) : (shC k c).maxDepth = c.maxDepth := rfl

@[simp] theorem shiftDoc_nodes (k : Nat) (b : Bool) (d : Doc) :
    (shiftDoc k b d).nodes = d.nodes.map (shiftNode k b) := rfl
@[simp] theorem shiftDoc_attrs (k : Nat) (b : Bool) (d : Doc) :
    (shiftDoc k b d).attrs = d.attrs.map (shiftAttr k b) := rfl
@[simp] theorem shiftDoc_ns (k : Nat) (b : Bool) (d : Doc) : (shiftDoc k b d).ns = shNss k d.ns := rfl

@[simp] theorem shNss_treeOrder (k : Nat) (ns : Namespaces) : (shNss k ns).treeOrder = ns.treeOrder := rfl
@[simp] theorem shNss_sortedOrder (k : Nat) (ns : Namespaces) :
    (shNss k ns).sortedOrder = ns.sortedOrder := rfl
@[simp] theorem shNss_values (k : Nat) (ns : Namespaces) :
    (shNss k ns).values = shiftNsValues k ns.values := rfl

@[simp] theorem shiftNode_parent (k : Nat) (b : Bool) (n : NodeData) :
    (shiftNode k b n).parent = n.parent := rfl
@[simp] theorem shiftNode_prevSibling (k : Nat) (b : Bool) (n : NodeData) :
    (shiftNode k b n).prevSibling = n.prevSibling := rfl
@[simp] theorem shiftNode_nextSubtree (k : Nat) (b : Bool) (n : NodeData) :
    (shiftNode k b n).nextSubtree = n.nextSubtree := rfl
@[simp] theorem shiftNode_lastChild (k : Nat) (b : Bool) (n : NodeData) :
    (shiftNode k b n).lastChild = n.lastChild := rfl
@[simp] theorem shiftNode_kind (k : Nat) (b : Bool) (n : NodeData) :
    (shiftNode k b n).kind = shiftKind k n.kind := rfl

@[simp] theorem shiftKind_isElement (k : Nat) (kd : Kind) : (shiftKind k kd).isElement = kd.isElement := by
  cases kd <;> rfl

theorem isEmpty_map {α β} (f : α → β) (l : List α) : (l.map f).isEmpty = l.isEmpty := by
  cases l <;> rfl

theorem map_shiftStr_bytes (k : Nat) (l : List Str) :
    (l.map (shiftStr k)).map (·.bytes) = l.map (·.bytes) := by
  induction l with
  | nil => rfl
  | cons a r ih => simp only [List.map_cons, shiftStr_bytes, ih]

/-! #### the namespace table -/

/-- what `shiftNsValues` does to entry `i` -/
def shNsAt (k i : Nat) (v : Namespace) : Namespace := if i = 0 then v else shNs k v

@[simp] theorem shNs_nameBytes (k : Nat) (v : Namespace) : (shNs k v).nameBytes = v.nameBytes := by
  unfold Namespace.nameBytes shNs
  cases v.name <;> rfl

@[simp] theorem shNs_uriBytes (k : Nat) (v : Namespace) : (shNs k v).uri.bytes = v.uri.bytes :=
  shiftStr_bytes k v.uri

@[simp] theorem shNsAt_nameBytes (k i : Nat) (v : Namespace) : (shNsAt k i v).nameBytes = v.nameBytes := by
  unfold shNsAt; split <;> simp

@[simp] theorem shNsAt_uriBytes (k i : Nat) (v : Namespace) : (shNsAt k i v).uri.bytes = v.uri.bytes := by
  unfold shNsAt; split <;> simp

@[simp] theorem shiftNsValues_size (k : Nat) (vs : Array Namespace) :
    (shiftNsValues k vs).size = vs.size := by
  simp [shiftNsValues]

theorem shiftNsValues_getElem? (k : Nat) (vs : Array Namespace) (i : Nat) :
    (shiftNsValues k vs)[i]? = (vs[i]?).map (shNsAt k i) := by
  simp only [shiftNsValues, List.getElem?_toArray, List.getElem?_map, List.getElem?_zipIdx,
    Array.getElem?_toList, Option.map_map]
  cases vs[i]? with
  | none => rfl
  | some v => simp [shNsAt, shNs]

theorem shiftNsValues_push (k : Nat) (vs : Array Namespace) (v : Namespace) (h : 0 < vs.size) :
    shiftNsValues k (vs.push v) = (shiftNsValues k vs).push (shNs k v) := by
  apply Array.ext'
  simp only [shiftNsValues, Array.toList_push, List.zipIdx_append, List.map_append, List.zipIdx_cons,
    List.zipIdx_nil, List.map_cons, List.map_nil, Array.length_toList, Nat.zero_add]
  have : vs.size ≠ 0 := by omega
  simp [this, shNs]

/-! #### slices of the two texts -/

/-- the only relation between the two texts that the builder needs -/
def SliceSh (k : Nat) (txt txt' : Bytes) : Prop :=
  ∀ a b, sliceBytes txt' (a + k) (b + k) = sliceBytes txt a b

theorem sliceSh_ws (k : Nat) (txt : Bytes) : SliceSh k txt (List.replicate k 32 ++ txt) := by
  intro a b
  unfold sliceBytes
  have h1 : (List.replicate k 32 ++ txt).drop (a + k) = txt.drop a := by
    rw [List.drop_append]
    simp
  rw [h1, Nat.add_sub_add_right]

theorem ofRange_sh {k : Nat} {txt txt' : Bytes} (h : SliceSh k txt txt') (a b : Nat) :
    Stream.ofRange txt' (a + k) (b + k) = sh k (Stream.ofRange txt a b) := by
  simp only [Stream.ofRange, sh, h a b]

theorem tokenizeContent_sh (T : Tables) {k : Nat} {txt txt' : Bytes} (h : SliceSh k txt txt') (a b : Nat) :
    SimT k (sh k) (tokenizeContent T txt a b) (tokenizeContent T txt' (a + k) (b + k)) := by
  unfold tokenizeContent
  simp only [ofRange_sh h, sh_rest]
  exact parseContent_sh T k txt txt' _ _ _

/-! #### nodes -/

theorem ite_inst_irrel {α} {p : Prop} (i1 i2 : Decidable p) (a b : α) :
    @ite α p i1 a b = @ite α p i2 a b := by
  congr

theorem nodeAt_sh (k : Nat) (c : Ctx) (i : Nat) :
    OkTo (shiftNode k c.positions) (c.nodeAt i) ((shC k c).nodeAt i) := by
  unfold Ctx.nodeAt
  simp only [shC_doc, shiftDoc_nodes, Array.getElem?_map]
  cases c.doc.nodes[i]? with
  | none => exact Sim.panic
  | some n => exact OkTo.ok rfl

theorem setNode_sh (k : Nat) (c : Ctx) (i : Nat) (n : NodeData) :
    (shC k c).setNode i (shiftNode k c.positions n) = shC k (c.setNode i n) := by
  simp only [Ctx.setNode, shC, shiftDoc, Array.map_setIfInBounds]

theorem setNextSubtree_sh (k : Nat) (b : Bool) (new : Nat) (l : List Nat) (nodes : Array NodeData) :
    OkTo (·.map (shiftNode k b)) (Ctx.setNextSubtree nodes new l)
      (Ctx.setNextSubtree (nodes.map (shiftNode k b)) new l) := by
  induction l generalizing nodes with
  | nil => exact OkTo.ok rfl
  | cons id r ih =>
    simp only [Ctx.setNextSubtree, Array.getElem?_map]
    cases h : nodes[id]? with
    | none => exact Sim.panic
    | some n =>
      simp only [Option.map_some]
      have := ih (nodes.setIfInBounds id { n with nextSubtree := some new })
      simp only [Array.map_setIfInBounds] at this
      exact this

theorem set_sh (k : Nat) (b : Bool) (arr : Array NodeData) (i : Nat) (m m' : NodeData)
    (h : m = shiftNode k b m') :
    (arr.map (shiftNode k b)).setIfInBounds i m = (arr.setIfInBounds i m').map (shiftNode k b) := by
  rw [Array.map_setIfInBounds, h]

theorem shiftNode_new (k : Nat) (b : Bool) (parent : Option Nat) (kind : Kind) (range : Range)
    (hk : kind.isRoot = false) :
    shiftNode k b { parent := parent, prevSibling := none, nextSubtree := none, lastChild := none,
                    kind := kind, range := if b = true then range else (0, 0) } =
      { parent := parent, prevSibling := none, nextSubtree := none, lastChild := none,
        kind := shiftKind k kind, range := if b = true then shiftRange k range else (0, 0) } := by
  cases b <;> cases kind <;> simp [shiftNode, Kind.isRoot] at hk ⊢

theorem appendNode_sh (k : Nat) (c : Ctx) (kind : Kind) (range : Range) (hk : kind.isRoot = false)
    (hnz : NZ pos c) :
    Sim (fun p => NZ pos p.1) (fun p => (shC k p.1, p.2)) (c.appendNode kind range)
      ((shC k c).appendNode (shiftKind k kind) (shiftRange k range)) := by
  unfold Ctx.appendNode
  dsimp only [shC_doc, shiftDoc_nodes, shC_nodesLimit, shC_positions, shC_parentId, shC_awaiting]
  simp only [Array.size_map, shiftKind_isElement]
  refine Sim.ite (fun _ => Sim.err) (fun _ => ?_)
  refine Sim.bind (f := fun n : Nat => n) (I := fun _ => True) (fun a ha => ⟨trivial, ha⟩)
    (fun newId _ _ => ?_)
  rw [ite_inst_irrel (p := c.positions = true) (instDecidableEqBool (shC k c).positions true)
      (instDecidableEqBool c.positions true),
    ← shiftNode_new k c.positions (some c.parentId) kind range hk, ← Array.map_push]
  generalize c.doc.nodes.push _ = nodes
  simp only [Array.getElem?_map]
  cases nodes[c.parentId]? with
  | none => exact Sim.panic
  | some p =>
    cases nodes[newId]? with
    | none => exact Sim.panic
    | some n =>
      simp only [Option.map_some]
      rw [set_sh (m' := { n with prevSibling := p.lastChild })]
      rotate_left
      · rfl
      generalize nodes.setIfInBounds newId _ = nodes2
      simp only [Array.getElem?_map]
      cases nodes2[c.parentId]? with
      | none => exact Sim.panic
      | some p2 =>
        simp only [Option.map_some]
        rw [set_sh (m' := { p2 with lastChild := some newId })]
        rotate_left
        · rfl
        refine Sim.bind (setNextSubtree_sh k c.positions _ _ _) (fun nodes3 _ _ => ?_)
        exact Sim.pure hnz rfl

theorem log_sh (k : Nat) (c : Ctx) (e : Ev) : (shC k c).log (shEv k e) = shC k (c.log e) := rfl

theorem appendText_sh (k : Nat) (c : Ctx) (text : Str) (range : Range) (hnz : NZ pos c) :
    Sim (NZ pos) (shC k) (c.appendText text range)
      ((shC k c).appendText (shiftStr k text) (shiftRange k range)) := by
  unfold Ctx.appendText
  dsimp only
  have hl := log_sh k c (.textFragment text range)
  simp only [shEv] at hl
  rw [hl]
  have hnz' : NZ pos (c.log (.textFragment text range)) := hnz
  generalize c.log _ = c' at hnz' ⊢
  simp only [shC_afterText, isEmpty_map]
  refine Sim.ite (fun _ => ?_) (fun _ => ?_)
  · refine Sim.bind (appendNode_sh k c' (.text text) range rfl hnz') (fun a _ ha => ?_)
    refine Sim.pure ha ?_
    simp only [shC, List.map_append, List.map_cons, List.map_nil]
  · refine Sim.pure hnz' ?_
    simp only [shC, List.map_append, List.map_cons, List.map_nil]

theorem mergeText_sh (k : Nat) (c : Ctx) (hnz : NZ pos c) :
    Sim (NZ pos) (shC k) c.mergeText (shC k c).mergeText := by
  unfold Ctx.mergeText
  simp only [shC_doc, shiftDoc_nodes, Array.size_map, Array.getElem?_map, shC_afterText,
    map_shiftStr_bytes]
  refine Sim.ite (fun _ => Sim.panic) (fun _ => ?_)
  cases c.doc.nodes[c.doc.nodes.size - 1]? with
  | none => exact Sim.panic
  | some n =>
    simp only [Option.map_some, shiftNode_kind]
    cases hk : n.kind <;> simp only [shiftKind] <;> try exact Sim.panic
    refine Sim.ok hnz ?_
    rw [← setNode_sh]
    congr 1
    simp only [shiftNode, hk, shiftKind, shiftStr]

theorem resetAfterText_sh (k : Nat) (c : Ctx) (hnz : NZ pos c) :
    Sim (NZ pos) (shC k) c.resetAfterText (shC k c).resetAfterText := by
  unfold Ctx.resetAfterText
  simp only [shC_afterText, isEmpty_map, List.length_map]
  refine Sim.ite (fun _ => OkTo.ok rfl |>.weaken (fun _ h _ => by cases h; exact hnz)) (fun _ => ?_)
  refine Sim.ite (fun _ => ?_) (fun _ => Sim.pure hnz rfl)
  exact Sim.bind (mergeText_sh k c hnz) (fun c1 _ h1 => Sim.pure h1 rfl)

/-! #### namespaces and attributes -/

theorem searchGo_sh (k : Nat) (ns : Namespaces) (name : Option Bytes) (uri : Bytes) :
    ∀ (fuel i : Nat), (shNss k ns).searchGo name uri fuel i = ns.searchGo name uri fuel i := by
  intro fuel
  induction fuel with
  | zero => intro i; rfl
  | succ fuel ih =>
    intro i
    simp only [Namespaces.searchGo, shNss_sortedOrder, shNss_values, shiftNsValues_getElem?]
    cases ns.sortedOrder[i]? with
    | none => rfl
    | some vi =>
      dsimp only
      cases ns.values[vi]? with
      | none => rfl
      | some v =>
        simp only [Option.map_some, shNsAt_nameBytes, shNsAt_uriBytes, ih]

theorem pushNs_sh (k : Nat) (ns : Namespaces) (name : Option Span) (uri : Str) (hnz : 0 < ns.values.size) :
    Sim (fun ns' : Namespaces => 0 < ns'.values.size) (shNss k) (ns.pushNs name uri)
      ((shNss k ns).pushNs (name.map (shiftSpan k)) (shiftStr k uri)) := by
  unfold Namespaces.pushNs Namespaces.search
  have hname : Option.map (fun x : Span => x.bytes) (Option.map (shiftSpan k) name) =
      Option.map (fun x : Span => x.bytes) name := by
    cases name <;> rfl
  simp only [searchGo_sh, shNss_sortedOrder, shNss_values, shiftNsValues_size, shiftStr_bytes, hname,
    shNss_treeOrder]
  refine Sim.bind (f := fun q : Nat × Bool => q) (I := fun _ => True) (fun a ha => ⟨trivial, ha⟩)
    (fun q _ _ => ?_)
  obtain ⟨si, found⟩ := q
  dsimp only
  refine Sim.ite (fun _ => ?_) (fun _ => ?_)
  · cases ns.sortedOrder[si]? with
    | none => exact Sim.panic
    | some idx => exact Sim.pure hnz rfl
  · refine Sim.ite (fun _ => Sim.err) (fun _ => ?_)
    refine Sim.pure (by simp) ?_
    simp only [shNss, shiftNsValues_push k _ _ hnz]
    rfl

theorem pushRef_sh (k : Nat) (ns : Namespaces) (i : Nat) :
    OkTo (shNss k) (ns.pushRef i) ((shNss k ns).pushRef i) := by
  unfold Namespaces.pushRef
  simp only [shNss_treeOrder]
  cases ns.treeOrder[i]? with
  | none => exact Sim.panic
  | some idx => exact OkTo.ok rfl

theorem existsAux_sh (k : Nat) (vs : Array Namespace) (pfx : Option Bytes) (l : List Nat) :
    Namespaces.existsAux (shiftNsValues k vs) pfx l = Namespaces.existsAux vs pfx l := by
  induction l with
  | nil => rfl
  | cons idx r ih =>
    simp only [Namespaces.existsAux, shiftNsValues_getElem?]
    cases vs[idx]? with
    | none => rfl
    | some v => simp only [Option.map_some, shNsAt_nameBytes, ih]

theorem exists_sh (k : Nat) (ns : Namespaces) (start : Nat) (pfx : Option Bytes) :
    (shNss k ns).exists start pfx = ns.exists start pfx := by
  unfold Namespaces.exists
  simp only [shNss_treeOrder, shNss_values, existsAux_sh]

theorem find_sh (k : Nat) (b : Bool) (d : Doc) (p : Option Bytes) (l : List Nat) :
    getNsIdxByPrefix.find (shiftDoc k b d) p l = getNsIdxByPrefix.find d p l := by
  induction l with
  | nil => rfl
  | cons i r ih =>
    simp only [getNsIdxByPrefix.find, shiftDoc_ns, shNss_values, shiftNsValues_getElem?]
    cases d.ns.values[i]? with
    | none => rfl
    | some v => simp only [Option.map_some, shNsAt_nameBytes, ih]

theorem getNsIdxByPrefix_sh (k : Nat) (txt txt' : Bytes) (b : Bool) (d : Doc) (nss : Range)
    (pp pp' : Nat) (pfx : Bytes) :
    OkTo (fun r : Option Nat => r) (getNsIdxByPrefix txt d nss pp pfx)
      (getNsIdxByPrefix txt' (shiftDoc k b d) nss pp' pfx) := by
  unfold getNsIdxByPrefix
  simp only [shiftDoc_ns, shNss_treeOrder, find_sh]
  refine Sim.ite (fun _ => OkTo.ok rfl) (fun _ => ?_)
  refine Sim.ite (fun _ => Sim.panic) (fun _ => ?_)
  refine Sim.bind (f := fun r : Option Nat => r) (I := fun _ => True) (fun a ha => ⟨trivial, ha⟩)
    (fun r _ _ => ?_)
  cases r with
  | some idx => exact Sim.pure trivial rfl
  | none => exact Sim.ite (fun _ => Sim.errPos) (fun _ => Sim.pure trivial rfl)

theorem inheritLoop_sh (k : Nat) (startIdx : Nat) (l : List Nat) (ns : Namespaces) :
    OkTo (shNss k) (inheritLoop startIdx l ns) (inheritLoop startIdx l (shNss k ns)) := by
  induction l generalizing ns with
  | nil => exact OkTo.ok rfl
  | cons i r ih =>
    simp only [inheritLoop, shNss_treeOrder, shNss_values, shiftNsValues_getElem?]
    cases ns.treeOrder[i]? with
    | none => exact Sim.panic
    | some vi =>
      dsimp only
      cases ns.values[vi]? with
      | none => exact Sim.panic
      | some v =>
        simp only [Option.map_some, shNsAt_nameBytes]
        rw [exists_sh k ns startIdx v.nameBytes]
        refine Sim.bind (f := fun b : Bool => b) (I := fun _ => True) (fun a ha => ⟨trivial, ha⟩)
          (fun ex _ _ => ?_)
        refine Sim.ite (fun _ => ?_) (fun _ => ih ns)
        exact Sim.bind (pushRef_sh k ns i) (fun ns1 _ _ => ih ns1)

theorem inheritLoop_values' (st : Nat) : ∀ (l : List Nat) (ns ns' : Namespaces),
    inheritLoop st l ns = .ok ns' → ns'.values = ns.values := by
  intro l
  induction l with
  | nil => intro ns ns' h; simp only [inheritLoop, Res.ok.injEq] at h; rw [← h]
  | cons i r ih =>
    intro ns ns' h
    simp only [inheritLoop] at h
    split at h
    · cases h
    · split at h
      · cases h
      · rw [Res.bind_eq_ok] at h
        obtain ⟨ex, _, h⟩ := h
        split at h
        · rw [Res.bind_eq_ok] at h
          obtain ⟨ns1, h1, h⟩ := h
          rw [ih _ _ h]
          unfold Namespaces.pushRef at h1
          split at h1
          · simp only [Res.ok.injEq] at h1; rw [← h1]
          · cases h1
        · exact ih _ _ h

theorem resolveNamespaces_sh (k : Nat) (c : Ctx) (hnz : NZ pos c) :
    Sim (fun p => NZ pos p.1 ∧ p.1.tagName = c.tagName) (fun p => (shC k p.1, p.2)) (resolveNamespaces c)
      (resolveNamespaces (shC k c)) := by
  unfold resolveNamespaces
  refine Sim.bind (nodeAt_sh k c c.parentId) (fun p _ _ => ?_)
  simp only [shiftNode_kind]
  cases p.kind with
  | element a b c' parentNs =>
    simp only [shiftKind, shC_nsStartIdx, shC_doc, shiftDoc_ns, shNss_treeOrder]
    refine Sim.ite (fun _ => Sim.pure ⟨hnz, rfl⟩ rfl) (fun _ => ?_)
    refine Sim.bind (inheritLoop_sh k _ _ c.doc.ns) (fun ns hns _ => ?_)
    refine Sim.pure ⟨⟨?_, hnz.2⟩, rfl⟩ rfl
    have := inheritLoop_values' _ _ _ _ hns
    show 0 < ns.values.size
    rw [this]; exact hnz.1
  | root => exact Sim.pure ⟨hnz, rfl⟩ rfl
  | pi a b => exact Sim.pure ⟨hnz, rfl⟩ rfl
  | comment a => exact Sim.pure ⟨hnz, rfl⟩ rfl
  | text a => exact Sim.pure ⟨hnz, rfl⟩ rfl

theorem expandedName_sh (k : Nat) (b : Bool) (d : Doc) (nsIdx : Option Nat) (loc : Span) :
    Api.expandedName (shiftDoc k b d) nsIdx (shiftSpan k loc) = Api.expandedName d nsIdx loc := by
  unfold Api.expandedName Api.nsByIdx
  cases nsIdx with
  | none => rfl
  | some vi =>
    simp only [shiftDoc_ns, shNss_values, shiftNsValues_getElem?, shiftSpan_bytes]
    cases d.ns.values[vi]? with
    | none => rfl
    | some v => simp only [Option.map_some, Res.bind_ok, shNsAt_uriBytes]

theorem attrExpanded_sh (k : Nat) (b : Bool) (d : Doc) (i : Nat) :
    Api.attrExpanded (shiftDoc k b d) i = Api.attrExpanded d i := by
  unfold Api.attrExpanded Api.attrAt
  simp only [shiftDoc_attrs, Array.getElem?_map]
  cases d.attrs[i]? with
  | none => rfl
  | some a =>
    simp only [Option.map_some, Res.bind_ok]
    exact expandedName_sh k b d a.nsIdx a.localName

theorem attrNsIdx_sh (k : Nat) (txt txt' : Bytes) (b : Bool) (d : Doc) (nss : Range) (a : TempAttr) :
    OkTo (fun r : Option Nat => r) (attrNsIdx txt d nss a)
      (attrNsIdx txt' (shiftDoc k b d) nss (shTA k a)) := by
  unfold attrNsIdx
  simp only [shTA, shiftSpan_bytes]
  refine Sim.ite (fun _ => OkTo.ok rfl) (fun _ => ?_)
  refine Sim.ite (fun _ => OkTo.ok rfl) (fun _ => ?_)
  exact getNsIdxByPrefix_sh k txt txt' b d nss _ _ _

theorem resolveAttrsLoop_sh (k : Nat) (txt txt' : Bytes) (pos : Bool) (nss : Range) (startIdx : Nat)
    (l : List TempAttr) (d : Doc) :
    OkTo (shiftDoc k pos) (resolveAttrsLoop txt pos nss startIdx l d)
      (resolveAttrsLoop txt' pos nss startIdx (l.map (shTA k)) (shiftDoc k pos d)) := by
  induction l generalizing d with
  | nil => exact OkTo.ok rfl
  | cons a r ih =>
    simp only [List.map_cons, resolveAttrsLoop]
    refine Sim.bind (attrNsIdx_sh k txt txt' pos d nss a) (fun nsIdx _ _ => ?_)
    have hloc : (shTA k a).loc = shiftSpan k a.loc := rfl
    simp only [hloc, expandedName_sh, attrExpanded_sh, shiftDoc_attrs, Array.size_map, shiftSpan_bytes]
    refine Sim.bind (f := fun q : Option Bytes × Bytes => q) (I := fun _ => True)
      (fun a ha => ⟨trivial, ha⟩) (fun en _ _ => ?_)
    refine Sim.bind (f := fun q : Bool => q) (I := fun _ => True)
      (fun a ha => ⟨trivial, ha⟩) (fun dup _ _ => ?_)
    refine Sim.ite (fun _ => Sim.errPos) (fun _ => ?_)
    have hval : (shTA k a).value = shiftStr k a.value := rfl
    have hrange : (shTA k a).range = shiftRange k a.range := rfl
    have hq : (shTA k a).qnameLen = a.qnameLen := rfl
    have he : (shTA k a).eqLen = a.eqLen := rfl
    simp only [hval, hrange, hq, he]
    have had : ∀ ad : AttrData,
        ({ nodes := (shiftDoc k pos d).nodes,
           attrs := (d.attrs.map (shiftAttr k pos)).push (shiftAttr k pos ad),
           ns := (shiftDoc k pos d).ns } : Doc) =
          shiftDoc k pos { nodes := d.nodes, attrs := d.attrs.push ad, ns := d.ns } := by
      intro ad
      simp only [shiftDoc, Array.map_push]
    cases pos
    · simp only [Bool.false_eq_true, ↓reduceIte]
      have := had { nsIdx := nsIdx, localName := a.loc, value := a.value, range := (0, 0),
                    qnameLen := 0, eqLen := 0 }
      simp only [shiftAttr, Bool.false_eq_true, ↓reduceIte] at this
      rw [this]
      exact ih _
    · simp only [↓reduceIte]
      have := had { nsIdx := nsIdx, localName := a.loc, value := a.value, range := a.range,
                    qnameLen := a.qnameLen, eqLen := a.eqLen }
      simp only [shiftAttr, ↓reduceIte] at this
      rw [this]
      exact ih _

theorem resolveAttrsLoop_ns (txt : Bytes) (pos : Bool) (nss : Range) (st : Nat) :
    ∀ (l : List TempAttr) (d d' : Doc), resolveAttrsLoop txt pos nss st l d = .ok d' →
      d'.ns = d.ns := by
  intro l
  induction l with
  | nil => intro d d' h; simp [resolveAttrsLoop] at h; subst h; rfl
  | cons a r ih =>
    intro d d' h
    simp only [resolveAttrsLoop] at h
    rw [Res.bind_eq_ok] at h
    obtain ⟨nsIdx, _, h⟩ := h
    rw [Res.bind_eq_ok] at h
    obtain ⟨en, _, h⟩ := h
    rw [Res.bind_eq_ok] at h
    obtain ⟨dup, _, h⟩ := h
    split at h
    · exact absurd h (errPos_ne_ok _ _ _ _)
    · have := ih _ _ h; simpa using this

theorem resolveAttributes_sh (k : Nat) (txt txt' : Bytes) (c : Ctx) (nss : Range) (hnz : NZ pos c) :
    Sim (fun p => NZ pos p.1 ∧ p.1.tagName = c.tagName) (fun p => (shC k p.1, p.2))
      (resolveAttributes txt c nss)
      (resolveAttributes txt' (shC k c) nss) := by
  unfold resolveAttributes
  simp only [shC_curAttrs, isEmpty_map, List.length_map, shC_doc, shiftDoc_attrs, Array.size_map,
    shC_positions]
  refine Sim.ite (fun _ => Sim.ok ⟨hnz, rfl⟩ rfl) (fun _ => ?_)
  refine Sim.ite (fun _ => Sim.err) (fun _ => ?_)
  refine Sim.bind (resolveAttrsLoop_sh k txt txt' c.positions nss _ _ c.doc) (fun d hd _ => ?_)
  refine Sim.pure ⟨⟨?_, hnz.2⟩, rfl⟩ ?_
  · show 0 < d.ns.values.size
    rw [resolveAttrsLoop_ns _ _ _ _ _ _ _ hd]; exact hnz.1
  · simp only [shiftDoc_attrs, Array.size_map]
    rfl

/-! #### elements -/

@[simp] theorem shTag_name (k : Nat) (t : TagName) : (shTag k t).name = t.name := by
  unfold shTag; split <;> rfl

@[simp] theorem shTag_pfx (k : Nat) (t : TagName) : (shTag k t).pfx = t.pfx := by
  unfold shTag; split <;> rfl

theorem shTag_of_ne (k : Nat) (t : TagName) (h : ¬ t.name.isEmpty = true) :
    shTag k t = { t with nameSpan := shiftSpan k t.nameSpan, pos := t.pos + k,
                         prefixPos := t.prefixPos + k } := by
  unfold shTag
  have : t ≠ {} := by
    intro ht; apply h; rw [ht]; rfl
  simp only [this, ↓reduceIte]

theorem processElement_sh (k : Nat) (txt txt' : Bytes) (c : Ctx) (e : EndKind) (tokRange : Range)
    (hnz : NZ pos c) :
    Sim (NZ pos) (shC k) (processElement txt c e tokRange)
      (processElement txt' (shC k c) (shEnd k e) (shiftRange k tokRange)) := by
  unfold processElement
  simp only [shC_tagName, shTag_name]
  refine Sim.ite (fun _ => ?_) (fun hne => ?_)
  · cases e <;> simp only [shEnd] <;> first | exact Sim.errPos | exact Sim.panic
  refine Sim.bind (resolveNamespaces_sh k c hnz) (fun a _ h1 => ?_)
  obtain ⟨c1, nss⟩ := a
  obtain ⟨h1, ht1⟩ := h1
  dsimp only at h1 ht1 ⊢
  have hnz1 : NZ pos { c1 with nsStartIdx := c1.doc.ns.treeOrder.size, xmlDeclared := false } := h1
  refine Sim.bind (m' := resolveAttributes txt' _ nss)
    (resolveAttributes_sh k txt txt'
      { c1 with nsStartIdx := c1.doc.ns.treeOrder.size, xmlDeclared := false } nss hnz1)
    (fun a _ h2 => ?_)
  obtain ⟨c2, attrs⟩ := a
  obtain ⟨h2, ht2⟩ := h2
  dsimp only at h2 ht2 ⊢
  have htag : c2.tagName = c.tagName := by rw [ht2, ht1]
  have hne2 : ¬ c2.tagName.name.isEmpty = true := by rw [htag]; exact hne
  have hsh := shTag_of_ne k c2.tagName hne2
  cases e with
  | empty =>
    simp only [shEnd, shC_doc, shC_tagName, shTag_pfx]
    refine Sim.bind (getNsIdxByPrefix_sh k txt txt' _ c2.doc nss _ _ _) (fun tagNs _ _ => ?_)
    rw [hsh]
    dsimp only
    refine Sim.bind (appendNode_sh k c2 (.element tagNs c2.tagName.nameSpan attrs nss)
      (c2.tagName.pos, tokRange.2) rfl h2) (fun a _ h3 => ?_)
    obtain ⟨c3, newId⟩ := a
    exact Sim.pure h3 rfl
  | «open» =>
    simp only [shEnd, shC_doc, shC_tagName, shTag_pfx]
    refine Sim.bind (getNsIdxByPrefix_sh k txt txt' _ c2.doc nss _ _ _) (fun tagNs _ _ => ?_)
    rw [hsh]
    dsimp only
    refine Sim.bind (appendNode_sh k c2 (.element tagNs c2.tagName.nameSpan attrs nss)
      (c2.tagName.pos, tokRange.2) rfl h2) (fun a _ h3 => ?_)
    obtain ⟨c3, newId⟩ := a
    refine Sim.pure h3 ?_
    dsimp only
    rw [shC_tagName, shTag_pfx]
    rfl
  | close pfx loc =>
    simp only [shEnd, shC_parentPrefixes, shC_entityFloor, shC_parentId, shiftSpan_bytes]
    refine Sim.ite (fun _ => Sim.errPos) (fun _ => ?_)
    refine Sim.bind (nodeAt_sh k c2 c2.parentId) (fun p _ _ => ?_)
    cases c2.parentPrefixes with
    | nil => exact Sim.panic
    | cons parentPrefix restPrefixes =>
      dsimp only
      have hset : ∀ q : NodeData,
          (shC k c2).setNode c2.parentId (shiftNode k c2.positions q) = shC k (c2.setNode c2.parentId q) :=
        fun q => setNode_sh k c2 _ q
      by_cases hpos : c2.positions = true
      · simp only [shC_positions, hpos, ↓reduceIte]
        have hq : ({ shiftNode k true p with
              range := ((shiftNode k true p).range.1, (shiftRange k tokRange).2) } : NodeData) =
            shiftNode k true { p with range := (p.range.1, tokRange.2) } := by
          simp only [shiftNode, ↓reduceIte, shiftRange]
          cases p.kind <;> rfl
        rw [hpos] at hset
        rw [hq, hset]
        simp only [shiftNode_kind, shiftNode_parent]
        cases p.kind with
        | element a tn b c' =>
          simp only [shiftKind, shiftSpan_bytes]
          by_cases hc : (pfx.bytes != parentPrefix || loc.bytes != tn.bytes) = true
          · simp only [hc, ↓reduceIte]; exact Sim.errPos
          · simp only [hc, ↓reduceIte, Bool.false_eq_true]
            cases p.parent with
            | some id => exact Sim.pure h2 rfl
            | none => exact Sim.errPos
        | root =>
          simp only [shiftKind]
          cases p.parent with
          | some id => exact Sim.pure h2 rfl
          | none => exact Sim.errPos
        | pi a b =>
          simp only [shiftKind]
          cases p.parent with
          | some id => exact Sim.pure h2 rfl
          | none => exact Sim.errPos
        | comment a =>
          simp only [shiftKind]
          cases p.parent with
          | some id => exact Sim.pure h2 rfl
          | none => exact Sim.errPos
        | text a =>
          simp only [shiftKind]
          cases p.parent with
          | some id => exact Sim.pure h2 rfl
          | none => exact Sim.errPos
      · have hposf : c2.positions = false := by simpa using hpos
        simp only [shC_positions, hposf, ↓reduceIte, Bool.false_eq_true]
        rw [hposf] at hset
        rw [hset]
        simp only [shiftNode_kind, shiftNode_parent]
        cases p.kind with
        | element a tn b c' =>
          simp only [shiftKind, shiftSpan_bytes]
          by_cases hc : (pfx.bytes != parentPrefix || loc.bytes != tn.bytes) = true
          · simp only [hc, ↓reduceIte]; exact Sim.errPos
          · simp only [hc, ↓reduceIte, Bool.false_eq_true]
            cases p.parent with
            | some id => exact Sim.pure h2 rfl
            | none => exact Sim.errPos
        | root =>
          simp only [shiftKind]
          cases p.parent with
          | some id => exact Sim.pure h2 rfl
          | none => exact Sim.errPos
        | pi a b =>
          simp only [shiftKind]
          cases p.parent with
          | some id => exact Sim.pure h2 rfl
          | none => exact Sim.errPos
        | comment a =>
          simp only [shiftKind]
          cases p.parent with
          | some id => exact Sim.pure h2 rfl
          | none => exact Sim.errPos
        | text a =>
          simp only [shiftKind]
          cases p.parent with
          | some id => exact Sim.pure h2 rfl
          | none => exact Sim.errPos

/-! #### attribute values -/

theorem findEntity_sh (k : Nat) (ents : List Entity) (name : Bytes) :
    findEntity (ents.map (shEnt k)) name = (findEntity ents name).map (shEnt k) := by
  unfold findEntity
  induction ents with
  | nil => rfl
  | cons e r ih =>
    simp only [List.map_cons, List.find?_cons]
    have : (shEnt k e).name.bytes = e.name.bytes := rfl
    rw [this]
    cases (e.name.bytes == name) with
    | true => rfl
    | false => exact ih

/-- the result of the attribute loop in the shifted run -/
def shTr (k : Nat) (p : TextBuffer × LD × List Ev) : TextBuffer × LD × List Ev :=
  (p.1, p.2.1, p.2.2.map (shEv k))

theorem normAttrLoop_sh (T : Tables) (k : Nat) (txt txt' : Bytes) (ents : List Entity)
    (rec rec' : Span → TextBuffer → LD → List Ev → Res (TextBuffer × LD × List Ev))
    (hrec : ∀ sp buf ld tr, OkTo (shTr k) (rec sp buf ld tr)
      (rec' (shiftSpan k sp) buf ld (tr.map (shEv k)))) :
    ∀ (fuel : Nat) (s : Stream) (buf : TextBuffer) (ld : LD) (tr : List Ev),
      OkTo (shTr k) (normAttrLoop T txt ents rec fuel s buf ld tr)
        (normAttrLoop T txt' (ents.map (shEnt k)) rec' fuel (sh k s) buf ld (tr.map (shEv k))) := by
  intro fuel
  induction fuel with
  | zero => intro s buf ld tr; exact Sim.fuel
  | succ fuel ih =>
    intro s buf ld tr
    obtain ⟨p, r⟩ := s
    cases r with
    | nil => exact OkTo.ok rfl
    | cons c r =>
      simp only [normAttrLoop, sh_rest, sh_pos]
      refine Sim.ite (fun _ => ?_) (fun _ => ?_)
      · refine Sim.ite (fun _ => Sim.errAt) (fun _ => ?_)
        rw [Nat.add_right_comm p k 1]
        exact ih ⟨p + 1, r⟩ _ _ _
      · have hcr := consumeReference_sh T k txt txt' ⟨p, c :: r⟩
        cases hc : Stream.consumeReference T txt ⟨p, c :: r⟩ with
        | err e => exact Sim.err
        | panic e => exact Sim.panic
        | fuel => exact Sim.fuel
        | ok q =>
          obtain ⟨s1, ref⟩ := q
          cases ref with
          | none => exact Sim.errFrom
          | some x =>
            rw [hcr s1 x hc]
            simp only [Res.bind_ok]
            cases x with
            | char ch =>
              simp only [shRef]
              refine Sim.ite (fun _ => ?_) (fun _ => ih _ _ _ _)
              exact Sim.ite (fun _ => Sim.errFrom) (fun _ => ih _ _ _ _)
            | entity name =>
              simp only [shRef, shiftSpan_bytes, findEntity_sh]
              cases findEntity ents name.bytes with
              | none => exact Sim.errFrom
              | some ent =>
                simp only [Option.map_some]
                cases ld.incRefs with
                | none => exact Sim.errAt
                | some ld1 =>
                  dsimp only
                  cases ld1.incDepth with
                  | none => exact Sim.errAt
                  | some ld2 =>
                    dsimp only
                    refine Sim.bind (skipXmlChars_sh T k txt txt' ⟨ent.value.off, ent.value.bytes⟩)
                      (fun _ _ _ => ?_)
                    refine Sim.bind (hrec ent.value buf ld2
                      (Ev.loop 1 true ld2.depth ld2.refs :: Ev.loop 0 true ld1.depth ld1.refs :: tr))
                      (fun a _ _ => ?_)
                    obtain ⟨buf3, ld3, tr3⟩ := a
                    exact ih s1 buf3 ld3.decDepth
                      (Ev.loop 2 true ld3.decDepth.depth ld3.decDepth.refs :: tr3)

theorem normAttrRec_sh (T : Tables) (k : Nat) (txt txt' : Bytes) (ents : List Entity) :
    ∀ (d : Nat) (text : Span) (buf : TextBuffer) (ld : LD) (tr : List Ev),
      OkTo (shTr k) (normAttrRec T txt ents d text buf ld tr)
        (normAttrRec T txt' (ents.map (shEnt k)) d (shiftSpan k text) buf ld (tr.map (shEv k))) := by
  intro d
  induction d with
  | zero => intro text buf ld tr; exact Sim.fuel
  | succ d ih =>
    intro text buf ld tr
    simp only [normAttrRec, shiftSpan_bytes]
    exact normAttrLoop_sh T k txt txt' ents _ _ ih _ ⟨text.off, text.bytes⟩ buf ld tr

theorem normalizeAttribute_sh (T : Tables) (k : Nat) (txt txt' : Bytes) (c : Ctx) (value : Span)
    (hnz : NZ pos c) :
    Sim (fun p => NZ pos p.1) (fun p => (shC k p.1, shiftStr k p.2)) (normalizeAttribute T txt c value)
      (normalizeAttribute T txt' (shC k c) (shiftSpan k value)) := by
  unfold normalizeAttribute
  simp only [shiftSpan_bytes, shC_entities, shC_ld, shC_trace]
  refine Sim.ite (fun _ => ?_) (fun _ => Sim.ok hnz rfl)
  refine Sim.bind (normAttrRec_sh T k txt txt' c.entities depthFuel value {} c.ld c.trace)
    (fun a _ _ => ?_)
  obtain ⟨buf, ld, tr⟩ := a
  dsimp only [shTr]
  refine Sim.bind (f := fun b : Bytes => b) (I := fun _ => True) (fun a ha => ⟨trivial, ha⟩)
    (fun out _ _ => ?_)
  exact Sim.pure hnz rfl

theorem processAttribute_sh (T : Tables) (k : Nat) (txt txt' : Bytes) (c : Ctx) (range : Range)
    (qnameLen eqLen : Nat) (pfx loc value : Span) (hnz : NZ pos c) :
    Sim (NZ pos) (shC k) (processAttribute T txt c range qnameLen eqLen pfx loc value)
      (processAttribute T txt' (shC k c) (shiftRange k range) qnameLen eqLen (shiftSpan k pfx)
        (shiftSpan k loc) (shiftSpan k value)) := by
  unfold processAttribute
  refine Sim.bind (normalizeAttribute_sh T k txt txt' c value hnz) (fun a _ h1 => ?_)
  obtain ⟨c1, v⟩ := a
  dsimp only at h1 ⊢
  have hl : (shC k c1).log (.attrValue (shiftStr k v)) = shC k (c1.log (.attrValue v)) := rfl
  rw [hl]
  have h2 : NZ pos (c1.log (.attrValue v)) := h1
  generalize c1.log (.attrValue v) = c2 at h2 ⊢
  simp only [shiftSpan_bytes, shiftStr_bytes, shC_doc, shiftDoc_ns, exists_sh, shC_nsStartIdx,
    shC_xmlDeclared]
  refine Sim.ite (fun _ => ?_) (fun _ => ?_)
  · refine Sim.ite (fun _ => Sim.errPos) (fun _ => ?_)
    refine Sim.ite (fun _ => Sim.errPos) (fun _ => ?_)
    refine Sim.ite (fun _ => Sim.errPos) (fun _ => ?_)
    refine Sim.ite (fun _ => Sim.errPos) (fun _ => ?_)
    refine Sim.bind (f := fun b : Bool => b) (I := fun _ => True) (fun a ha => ⟨trivial, ha⟩)
      (fun ex _ _ => ?_)
    refine Sim.ite (fun _ => Sim.errPos) (fun _ => ?_)
    refine Sim.ite (fun _ => ?_) (fun _ => Sim.pure h2 rfl)
    refine Sim.bind (pushNs_sh k c2.doc.ns (some loc) v h2.1) (fun ns _ hns => ?_)
    exact Sim.pure ⟨hns, h2.2⟩ rfl
  · refine Sim.ite (fun _ => ?_) (fun _ => ?_)
    · refine Sim.ite (fun _ => Sim.errPos) (fun _ => ?_)
      refine Sim.ite (fun _ => Sim.errPos) (fun _ => ?_)
      refine Sim.bind (f := fun b : Bool => b) (I := fun _ => True) (fun a ha => ⟨trivial, ha⟩)
        (fun ex _ _ => ?_)
      refine Sim.ite (fun _ => Sim.errPos) (fun _ => ?_)
      refine Sim.bind (pushNs_sh k c2.doc.ns none v h2.1) (fun ns _ hns => ?_)
      exact Sim.pure ⟨hns, h2.2⟩ rfl
    · refine Sim.pure h2 ?_
      simp only [shC, List.map_append, List.map_cons, List.map_nil, shTA]

/-! #### text -/

theorem processCdata_sh (k : Nat) (c : Ctx) (text : Span) (range : Range) (hnz : NZ pos c) :
    Sim (NZ pos) (shC k) (processCdata c text range)
      (processCdata (shC k c) (shiftSpan k text) (shiftRange k range)) := by
  unfold processCdata
  simp only [shiftSpan_bytes]
  exact Sim.ite (fun _ => appendText_sh k c (.borrowed text) range hnz)
    (fun _ => appendText_sh k c (.owned _) range hnz)

def shChunk (k : Nat) : NextChunk → NextChunk
  | .byte c => .byte c
  | .char c => .char c
  | .text f => .text (shiftSpan k f)

theorem parseNextChunk_sh (T : Tables) (k : Nat) (txt txt' : Bytes) (ents : List Entity) (s : Stream) :
    OkTo (fun q => (sh k q.1, shChunk k q.2)) (parseNextChunk T txt ents s)
      (parseNextChunk T txt' (ents.map (shEnt k)) (sh k s)) := by
  obtain ⟨p, r⟩ := s
  cases r with
  | nil => exact Sim.panic
  | cons c r =>
    simp only [parseNextChunk, sh_rest, sh_pos]
    refine Sim.ite (fun _ => ?_) (fun _ => OkTo.ok ?_)
    · have hcr := consumeReference_sh T k txt txt' ⟨p, c :: r⟩
      cases hc : Stream.consumeReference T txt ⟨p, c :: r⟩ with
      | err e => exact Sim.err
      | panic e => exact Sim.panic
      | fuel => exact Sim.fuel
      | ok q =>
        obtain ⟨s1, ref⟩ := q
        cases ref with
        | none => exact Sim.errFrom
        | some x =>
          rw [hcr s1 x hc]
          simp only [Res.bind_ok]
          cases x with
          | char ch => exact Sim.pure trivial rfl
          | entity name =>
            simp only [shRef, shiftSpan_bytes, findEntity_sh]
            cases findEntity ents name.bytes with
            | none => exact Sim.errFrom
            | some ent => exact Sim.pure trivial rfl
    · simp only [sh, shChunk, Nat.add_right_comm]

/-- a builder step of the shifted run simulates the step of the original run -/
def StepSh (k : Nat) (pos : Bool) (step step' : Token → Ctx → Res Ctx) : Prop :=
  ∀ t c, NZ pos c → Sim (NZ pos) (shC k) (step t c) (step' (shTok k t) (shC k c))

theorem feed_cons' (step : Token → Ctx → Res Ctx) (t : Token) (ts : List Token) (c : Ctx) :
    feed step (t :: ts) c = (step t c >>= fun c' => feed step ts c') := by
  simp only [feed]; cases step t c <;> rfl

theorem feed_sh {k : Nat} {step step' : Token → Ctx → Res Ctx} (hs : StepSh k pos step step') :
    ∀ (toks : List Token) (c : Ctx), NZ pos c →
      Sim (NZ pos) (shC k) (feed step toks c) (feed step' (toks.map (shTok k)) (shC k c)) := by
  intro toks
  induction toks with
  | nil => intro c hnz; exact Sim.ok hnz rfl
  | cons t ts ih =>
    intro c hnz
    rw [List.map_cons, feed_cons', feed_cons']
    exact Sim.bind (hs t c hnz) (fun c1 _ h1 => ih c1 h1)

theorem runTokens_sh {α β} {k : Nat} {step step' : Token → Ctx → Res Ctx} (hs : StepSh k pos step step')
    (m : List Token × Res α) (m' : List Token × Res β) (f : α → β) (hm : SimT k f m m') (c : Ctx)
    (hnz : NZ pos c) :
    Sim (NZ pos) (shC k) (runTokens step m.1 m.2 c) (runTokens step' m'.1 m'.2 (shC k c)) := by
  intro c1 h
  unfold runTokens at h
  cases hf : feed step m.1 c with
  | ok c' =>
    rw [hf] at h
    cases hstop : m.2 with
    | ok a =>
      rw [hstop] at h
      simp only [Res.ok.injEq] at h
      subst h
      rw [hm a hstop]
      obtain ⟨hi, hf'⟩ := feed_sh hs m.1 c hnz c' hf
      refine ⟨hi, ?_⟩
      simp only [runTokens, hf']
    | err e => rw [hstop] at h; cases h
    | panic e => rw [hstop] at h; cases h
    | fuel => rw [hstop] at h; cases h
  | err e => rw [hf] at h; cases h
  | panic e => rw [hf] at h; cases h
  | fuel => rw [hf] at h; cases h

theorem flushBuffer_sh (k : Nat) (c : Ctx) (buf : TextBuffer) (range : Range) (hnz : NZ pos c) :
    Sim (NZ pos) (shC k) (flushBuffer c buf range) (flushBuffer (shC k c) buf (shiftRange k range)) := by
  unfold flushBuffer
  refine Sim.ite (fun _ => ?_) (fun _ => Sim.ok hnz rfl)
  refine Sim.bind (f := fun b : Bytes => b) (I := fun _ => True) (fun a ha => ⟨trivial, ha⟩)
    (fun out _ _ => ?_)
  exact appendText_sh k c (.owned out) range hnz

theorem shTag_default (k : Nat) : shTag k {} = {} := by
  simp [shTag]

theorem span_stop_sh (k : Nat) (f : Span) : (shiftSpan k f).stop = f.stop + k := by
  simp only [Span.stop, shiftSpan]; omega

theorem processTextLoop_sh (T : Tables) {k : Nat} {txt txt' : Bytes} (hsl : SliceSh k txt txt')
    {lower lower' : Token → Ctx → Res Ctx} (hl : StepSh k pos lower lower') (range : Range) :
    ∀ (fuel : Nat) (s : Stream) (buf : TextBuffer) (c : Ctx), NZ pos c →
      Sim (fun q => NZ pos q.2) (fun q => (q.1, shC k q.2))
        (processTextLoop T txt lower range fuel s buf c)
        (processTextLoop T txt' lower' (shiftRange k range) fuel (sh k s) buf (shC k c)) := by
  intro fuel
  induction fuel with
  | zero => intro s buf c hnz; exact Sim.fuel
  | succ fuel ih =>
    intro s buf c hnz
    simp only [processTextLoop]
    have hae : (sh k s).atEnd = s.atEnd := rfl
    rw [hae]
    refine Sim.ite (fun _ => Sim.ok hnz rfl) (fun _ => ?_)
    refine Sim.bind (parseNextChunk_sh T k txt txt' c.entities s) (fun a _ _ => ?_)
    obtain ⟨s1, chunk⟩ := a
    cases chunk with
    | byte b => exact ih _ _ _ hnz
    | char ch =>
      simp only [shChunk, shC_ld]
      exact Sim.ite (fun _ => ih _ _ _ hnz) (fun _ => ih _ _ _ hnz)
    | text fragment =>
      simp only [shChunk]
      refine Sim.bind (flushBuffer_sh k c buf range hnz) (fun c1 _ hnz1 => ?_)
      simp only [shC_ld]
      cases c1.ld.incRefs with
      | none => exact Sim.errAt
      | some ld1 =>
        dsimp only [Ctx.log]
        cases ld1.incDepth with
        | none => exact Sim.errAt
        | some ld2 =>
          dsimp only
          rw [span_stop_sh]
          have hm := tokenizeContent_sh T hsl fragment.off fragment.stop
          refine Sim.bind (runTokens_sh hl _ _ (sh k) hm _ ?_) (fun c2 _ h2 => ?_)
          · exact hnz1
          refine Sim.ite (fun _ => Sim.err) (fun _ => ?_)
          refine ih _ _ _ ?_
          exact h2

theorem processText_sh (T : Tables) {k : Nat} {txt txt' : Bytes} (hsl : SliceSh k txt txt')
    {lower lower' : Token → Ctx → Res Ctx} (hl : StepSh k pos lower lower') (c : Ctx) (text : Span)
    (range : Range) (hnz : NZ pos c) :
    Sim (NZ pos) (shC k) (processText T txt lower c text range)
      (processText T txt' lower' (shC k c) (shiftSpan k text) (shiftRange k range)) := by
  unfold processText
  simp only [shiftSpan_bytes]
  refine Sim.ite (fun _ => appendText_sh k c (.borrowed text) range hnz) (fun _ => ?_)
  have ho : Stream.ofRange txt' (shiftRange k range).1 (shiftRange k range).2 =
      sh k (Stream.ofRange txt range.1 range.2) := ofRange_sh hsl range.1 range.2
  rw [ho]
  refine Sim.bind (processTextLoop_sh T hsl hl range _ _ _ c hnz) (fun a _ h1 => ?_)
  obtain ⟨buf, c1⟩ := a
  exact flushBuffer_sh k c1 buf range h1

theorem tokenStep_sh (T : Tables) {k : Nat} {txt txt' : Bytes} (hsl : SliceSh k txt txt')
    {lower lower' : Token → Ctx → Res Ctx} (hl : StepSh k pos lower lower') :
    StepSh k pos (tokenStep T txt lower) (tokenStep T txt' lower') := by
  intro t c hnz
  unfold tokenStep
  dsimp only
  have hlog : (shC k c).log (.token (shTok k t)) = shC k (c.log (.token t)) := rfl
  rw [hlog]
  have hnz' : NZ pos (c.log (.token t)) := hnz
  generalize c.log (.token t) = c' at hnz' ⊢
  cases t with
  | pi target value range =>
    simp only [shTok]
    refine Sim.bind (resetAfterText_sh k c' hnz') (fun c1 _ h1 => ?_)
    refine Sim.bind (appendNode_sh k c1 (.pi target value) range rfl h1) (fun a _ h2 => ?_)
    exact Sim.pure h2 rfl
  | comment text range =>
    simp only [shTok]
    refine Sim.bind (resetAfterText_sh k c' hnz') (fun c1 _ h1 => ?_)
    refine Sim.bind (appendNode_sh k c1 (.comment (.borrowed text)) range rfl h1) (fun a _ h2 => ?_)
    exact Sim.pure h2 rfl
  | entityDecl name value =>
    simp only [shTok]
    refine Sim.pure hnz' ?_
    simp only [shC, List.map_append, List.map_cons, List.map_nil, shEnt]
  | elementStart pfx loc start =>
    simp only [shTok, shiftSpan_bytes]
    refine Sim.bind (resetAfterText_sh k c' hnz') (fun c1 _ h1 => ?_)
    refine Sim.ite (fun _ => Sim.errPos) (fun _ => Sim.pure h1 ?_)
    have hne : (⟨pfx.bytes, loc.bytes, loc, start, start + 1⟩ : TagName) ≠ {} := by
      intro h
      have := congrArg TagName.prefixPos h
      simp at this
    simp only [shC, shTag, hne, ↓reduceIte]
    congr 2
    omega
  | «attribute» range qnameLen eqLen pfx loc value =>
    exact processAttribute_sh T k txt txt' c' range qnameLen eqLen pfx loc value hnz'
  | elementEnd e range =>
    simp only [shTok]
    refine Sim.bind (resetAfterText_sh k c' hnz') (fun c1 _ h1 => ?_)
    exact processElement_sh k txt txt' c1 e range h1
  | text text range => exact processText_sh T hsl hl c' text range hnz'
  | cdata text range => exact processCdata_sh k c' text range hnz'

theorem token_sh (T : Tables) {k : Nat} {txt txt' : Bytes} (hsl : SliceSh k txt txt') :
    ∀ d, StepSh k pos (token T txt d) (token T txt' d) := by
  intro d
  induction d with
  | zero => intro t c _; exact Sim.fuel
  | succ d ih => exact tokenStep_sh T hsl ih

/-! #### the final checks read links and kinds only -/

theorem getNodeUnwrap_sh (k : Nat) (b : Bool) (d : Doc) (i : Nat) :
    Api.getNodeUnwrap (shiftDoc k b d) i = Res.mapOk (shiftNode k b) (Api.getNodeUnwrap d i) := by
  unfold Api.getNodeUnwrap
  simp only [shiftDoc_nodes, Array.getElem?_map]
  cases d.nodes[i]? <;> rfl

theorem follow_sh (k : Nat) (b : Bool) (d : Doc) (l : Option Nat) :
    Api.follow (shiftDoc k b d) l = Api.follow d l := by
  unfold Api.follow
  simp only [shiftDoc_nodes, Array.size_map]

theorem getNode_bind_sh {β} (k : Nat) (b : Bool) (d : Doc) (i : Nat) (k0 k1 : NodeData → Res β)
    (hk : ∀ n, k0 (shiftNode k b n) = k1 n) :
    (Api.getNodeUnwrap (shiftDoc k b d) i >>= k0) = (Api.getNodeUnwrap d i >>= k1) := by
  rw [getNodeUnwrap_sh]
  cases Api.getNodeUnwrap d i <;> simp [Res.mapOk, hk]

theorem lastChild_sh (k : Nat) (b : Bool) (d : Doc) (i : Nat) :
    Api.lastChild (shiftDoc k b d) i = Api.lastChild d i := by
  unfold Api.lastChild
  exact getNode_bind_sh k b d i _ _ (fun n => follow_sh k b d _)

theorem firstChild_sh (k : Nat) (b : Bool) (d : Doc) (i : Nat) :
    Api.firstChild (shiftDoc k b d) i = Api.firstChild d i := by
  unfold Api.firstChild
  refine getNode_bind_sh k b d i _ _ (fun n => ?_)
  simp only [shiftNode_lastChild, shiftDoc_nodes, Array.size_map]

theorem nextSibling_sh (k : Nat) (b : Bool) (d : Doc) (i : Nat) :
    Api.nextSibling (shiftDoc k b d) i = Api.nextSibling d i := by
  unfold Api.nextSibling
  refine getNode_bind_sh k b d i _ _ (fun n => ?_)
  simp only [shiftNode_nextSubtree]
  cases n.nextSubtree with
  | none => rfl
  | some j => exact getNode_bind_sh k b d j _ _ (fun m => rfl)

theorem kindOf_sh (k : Nat) (b : Bool) (d : Doc) (i : Nat) :
    Api.kindOf (shiftDoc k b d) i = Res.mapOk (shiftKind k) (Api.kindOf d i) := by
  unfold Api.kindOf
  rw [getNodeUnwrap_sh]
  cases Api.getNodeUnwrap d i <;> rfl

theorem isElement_sh (k : Nat) (b : Bool) (d : Doc) (i : Nat) :
    Api.isElement (shiftDoc k b d) i = Api.isElement d i := by
  unfold Api.isElement
  rw [kindOf_sh]
  cases Api.kindOf d i <;> simp [Res.mapOk]

theorem children_sh (k : Nat) (b : Bool) (d : Doc) (i : Nat) :
    Api.children (shiftDoc k b d) i = Api.children d i := by
  unfold Api.children
  simp only [firstChild_sh, lastChild_sh]

theorem childrenNext_sh (k : Nat) (b : Bool) (d : Doc) (it : Api.ChildrenIt) :
    it.next (shiftDoc k b d) = it.next d := by
  unfold Api.ChildrenIt.next
  simp only [nextSibling_sh]

theorem childrenList_sh (k : Nat) (b : Bool) (d : Doc) (fuel : Nat) (it : Api.ChildrenIt) :
    Api.childrenList (shiftDoc k b d) fuel it = Api.childrenList d fuel it := by
  induction fuel generalizing it with
  | zero => rfl
  | succ fuel ih =>
    unfold Api.childrenList
    simp only [childrenNext_sh, ih]

theorem findElement_sh (k : Nat) (b : Bool) (d : Doc) (l : List Nat) :
    Api.findElement (shiftDoc k b d) l = Api.findElement d l := by
  induction l with
  | nil => rfl
  | cons j r ih =>
    unfold Api.findElement
    simp only [isElement_sh, ih]

theorem rootHasElement_sh (k : Nat) (b : Bool) (d : Doc) :
    rootHasElement (shiftDoc k b d) = rootHasElement d := by
  unfold rootHasElement Api.fuelN
  simp only [children_sh, childrenList_sh, findElement_sh, shiftDoc_nodes, Array.size_map]

/-! ### `parse` -/

theorem finish_sh (k : Nat) (c : Ctx) : OkTo (shC k) (finish c) (finish (shC k c)) := by
  unfold finish
  simp only [shC_doc, rootHasElement_sh, shC_parentPrefixes]
  refine Sim.bind (f := fun b : Bool => b) (I := fun _ => True) (fun a ha => ⟨trivial, ha⟩)
    (fun has _ _ => ?_)
  refine Sim.ite (fun _ => Sim.err) (fun _ => ?_)
  refine Sim.ite (fun _ => Sim.err) (fun _ => Sim.pure trivial rfl)

theorem initCtx_sh (k : Nat) (txt txt' : Bytes) (hlen : txt'.length = txt.length + k) (opt : Opt) :
    Sim (NZ opt.positions) (shC k) (initCtx txt opt) (initCtx txt' opt) := by
  have hns : ({} : Namespaces).pushNs (some ⟨0, Lit.xml⟩) (.borrowed ⟨0, nsXmlUri⟩) =
      .ok { values := #[⟨some ⟨0, Lit.xml⟩, .borrowed ⟨0, nsXmlUri⟩⟩], treeOrder := #[0],
            sortedOrder := #[0] } := by
    simp [Namespaces.pushNs, Namespaces.search, Namespaces.searchGo, bind, Res.bind,
      Array.insertIdxIfInBounds]
  unfold initCtx
  rw [hns, hlen]
  simp only [Res.bind_ok]
  refine Sim.pure ⟨by simp, rfl⟩ ?_
  cases hp : opt.positions <;>
    simp [shC, shiftDoc, shiftNode, rootNode, shTag_default, shiftNsValues, shNss, shiftKind]

theorem parseCtx_sh (T : Tables) (hsp : byteIsSpace T 32 = true) (txt : Bytes) (opt : Opt) (k d : Nat)
    (hbom : Stream.startsWith ⟨0, txt⟩ Lit.bom = false)
    (hdecl : Stream.startsWithXmlDecl T ⟨0, txt⟩ = false) :
    Sim (NZ opt.positions) (shC k) (parseCtx T txt d opt)
      (parseCtx T (List.replicate k 32 ++ txt) d opt) := by
  unfold parseCtx
  refine Sim.bind (initCtx_sh k txt _ (by simp; omega) opt) (fun c0 _ h0 => ?_)
  dsimp only
  have hm : SimT k (fun u : Unit => u) (tokenize T txt opt.allowDtd)
      (tokenize T (List.replicate k 32 ++ txt) opt.allowDtd) :=
    parseDocument_ws T k txt hsp hbom hdecl opt.allowDtd
  refine Sim.bind (runTokens_sh (token_sh T (sliceSh_ws k txt) d) _ _ _ hm c0 h0) (fun c1 _ h1 => ?_)
  exact (finish_sh k c1).weaken (fun c2 hc2 _ => by
    unfold finish at hc2
    rw [Res.bind_eq_ok] at hc2
    obtain ⟨has, _, hc2⟩ := hc2
    split at hc2
    · cases hc2
    · split at hc2
      · cases hc2
      · simp only [pure, Res.ok.injEq] at hc2
        subst hc2
        exact h1)

end Shift

open Shift in
/-- **Shift equivariance of accepted documents** (every input that does not begin with a BOM or an
XML declaration — those must come first —, every `k`, every option value): -/
theorem parse_shift (T : Tables) (hsp : byteIsSpace T 32 = true) (txt : Bytes) (opt : Opt) (d : Doc)
    (k : Nat) (hbom : Stream.startsWith ⟨0, txt⟩ Lit.bom = false)
    (hdecl : Stream.startsWithXmlDecl T ⟨0, txt⟩ = false)
    (h : parse T txt opt = .ok d) :
    parse T (List.replicate k 32 ++ txt) opt = .ok (shiftDoc k opt.positions d) := by
  unfold parse at h ⊢
  rw [Res.bind_eq_ok] at h
  obtain ⟨c, hc, h⟩ := h
  simp only [pure, Res.ok.injEq] at h
  subst h
  obtain ⟨hinv, hc'⟩ := parseCtx_sh T hsp txt opt k depthFuel hbom hdecl c hc
  rw [hc']
  simp only [Res.bind_ok, pure, Res.ok.injEq, shC_doc]
  rw [hinv.2]

end Rox.Lemmas
