/-
  Rox.Lemmas.NoAdjText — C02: a parsed document never has two adjacent Text siblings (all
  character data between two markup constructs, entity expansions included, ends up in ONE text
  node).
-/
import Rox.Lemmas.BInv4
import Rox.Lemmas.Proto
import Rox.Lemmas.TreeApi

namespace Rox.Lemmas
open Rox Rox.Spec

/-- no two adjacent Text siblings -/
def NoAdj (a : Arena) : Prop :=
  ∀ i j, i < a.size → prevSib a i = some j →
    ¬ (kindIs a i Kind.isText = true ∧ kindIs a j Kind.isText = true)

/-! ### Arena level -/

/-- Two arenas with the same sibling / last-child links and the same Text nodes. -/
structure SameText (a a' : Arena) : Prop where
  size : a'.size = a.size
  par : ∀ i, par a' i = par a i
  prev : ∀ i, prevSib a' i = prevSib a i
  last : ∀ i, lastCh a' i = lastCh a i
  ktext : ∀ i, kindIs a' i Kind.isText = kindIs a i Kind.isText

theorem SameText.refl (a : Arena) : SameText a a := ⟨rfl, fun _ => rfl, fun _ => rfl, fun _ => rfl, fun _ => rfl⟩

theorem SameText.noAdj {a a' : Arena} (s : SameText a a') (h : NoAdj a) : NoAdj a' := by
  intro i j hi hp
  rw [s.size] at hi
  rw [s.prev] at hp
  rw [s.ktext, s.ktext]
  exact h i j hi hp

theorem sameText_set (a : Arena) (i : Nat) (m m' : NodeData) (hm : a[i]? = some m)
    (hp : m'.parent = m.parent) (hv : m'.prevSibling = m.prevSibling)
    (hl : m'.lastChild = m.lastChild) (hk : m'.kind.isText = m.kind.isText) :
    SameText a (a.setIfInBounds i m') := by
  have hi : i < a.size := (Array.getElem?_eq_some_iff.mp hm).1
  have key : ∀ j, (a.setIfInBounds i m')[j]? = if i = j then some m' else a[j]? := by
    intro j; rw [Array.getElem?_setIfInBounds]; split <;> simp_all
  refine ⟨by simp, ?_, ?_, ?_, ?_⟩ <;> intro j <;>
    simp only [Spec.par, Spec.prevSib, Spec.lastCh, Spec.kindIs, key j] <;>
    (by_cases hij : i = j
     · subst hij; simp [hm, hp, hv, hl, hk]
     · simp [hij])

/-- the last child of `p`, if any, is not a Text node -/
def LastNotText (a : Arena) (p : Nat) : Prop :=
  ∀ l, lastCh a p = some l → kindIs a l Kind.isText = false

theorem SameText.lastNotText {a a' : Arena} (s : SameText a a') (p : Nat) (h : LastNotText a p) :
    LastNotText a' p := by
  intro l hl
  rw [s.last] at hl
  rw [s.ktext]
  exact h l hl

/-- Appending a node keeps `NoAdj`, unless it is a Text node put after a Text node. -/
theorem noAdj_ext {a a' : Arena} {pid : Nat} {aw : List Nat} {k : Kind} (h : LinkWF a)
    (e : Ext a a' pid aw k) (hpid : pid < a.size) (hn : NoAdj a)
    (hk : k.isText = true → LastNotText a pid) : NoAdj a' := by
  intro i j hi hp
  rw [e.size] at hi
  by_cases hin : i < a.size
  · rw [e.prev_old i hin] at hp
    have hj : j < a.size := by
      rw [h.prev i hin] at hp
      split at hp
      · simp at hp
      · unfold prevSibSpec at hp; rw [find_rev_range_some] at hp; omega
    rw [e.kind_old i hin, e.kind_old j hj]
    exact hn i j hin hp
  · have : i = a.size := by omega
    subst this
    rw [e.prev_new] at hp
    rw [e.kind_new]
    rintro ⟨h1, h2⟩
    have hj : j < a.size := by
      rw [h.last pid hpid] at hp; unfold lastChildSpec at hp; rw [find_rev_range_some] at hp; omega
    rw [e.kind_old j hj] at h2
    rw [hk h1 j hp] at h2; simp at h2

/-- After an append under `pid`, the last child of `pid` is the new node. -/
theorem lastNotText_ext_same {a a' : Arena} {pid : Nat} {aw : List Nat} {k : Kind}
    (e : Ext a a' pid aw k) (hpid : pid < a.size) (hk : k.isText = false) : LastNotText a' pid := by
  intro l hl
  rw [e.last_old pid hpid] at hl
  simp only [if_true, Option.some.injEq] at hl
  subst hl
  rw [e.kind_new]; exact hk

/-- The new node has no children. -/
theorem lastNotText_ext_new {a a' : Arena} {pid : Nat} {aw : List Nat} {k : Kind}
    (e : Ext a a' pid aw k) : LastNotText a' a.size := by
  intro l hl
  rw [e.last_new] at hl; simp at hl

/-- At a close tag: the last child of the parent of the current element is the current element,
which is not a Text node. -/
theorem close_last {c : Ctx} (hb : BInv c) (q : Nat) (hq : par c.doc.nodes c.parentId = some q) :
    LastNotText c.doc.nodes q := by
  intro l hl
  have hPL := hb.wf.parentLt
  have hqlt : q < c.parentId := hPL _ _ hq
  have hpl := hb.pid_lt
  rw [hb.wf.last q (by omega)] at hl
  unfold lastChildSpec at hl
  rw [find_rev_range_some] at hl
  obtain ⟨h1, h2, h3⟩ := hl
  have h2' : par c.doc.nodes l = some q := by simpa using h2
  have hlp : l = c.parentId := by
    rcases Nat.lt_trichotomy l c.parentId with hlt | heq | hgt
    · have := h3 c.parentId hlt hpl
      rw [hq] at this; simp at this
    · exact heq
    · exfalso
      have hanc : Anc c.doc.nodes c.parentId l :=
        anc_between _ hPL hb.wf.preorder' hb.wf.hasParent (c.doc.nodes.size - 1) c.parentId (by omega)
          hb.pid_spine l (by omega) (by omega)
      rw [anc_step _ hPL _ _ _ h2'] at hanc
      rcases hanc with h | h
      · omega
      · have := anc_le _ hPL _ _ h; omega
  subst hlp
  have hk := hb.pid_kind
  unfold kindIs at hk ⊢
  cases hn : c.doc.nodes[c.parentId]? with
  | none => rfl
  | some n =>
    rw [hn] at hk
    simp only at hk ⊢
    cases hkk : n.kind <;> simp_all [canHaveChildren, Kind.isText, Kind.isRoot, Kind.isElement]

/-! ### Builder level -/

/-- The invariant, relative to the tag-protocol state `q` (`true` inside a start tag). -/
def TInv (q : Bool) (c : Ctx) : Prop :=
  NoAdj c.doc.nodes ∧ (q = false → c.afterText = [] → LastNotText c.doc.nodes c.parentId)

theorem TInv.congr {q : Bool} {c c' : Ctx} (h : TInv q c) (hn : c'.doc.nodes = c.doc.nodes)
    (hp : c'.parentId = c.parentId) (ha : c'.afterText = c.afterText) : TInv q c' := by
  unfold TInv; rw [hn, hp, ha]; exact h

theorem mergeText_same {c c' : Ctx} (h : c.mergeText = .ok c') :
    SameText c.doc.nodes c'.doc.nodes ∧ c'.parentId = c.parentId := by
  unfold Ctx.mergeText at h
  dsimp only at h
  split at h
  · simp at h
  · split at h
    · simp at h
    · rename_i n hn
      split at h
      · rename_i s hk
        simp only [Res.ok.injEq] at h
        subst h
        refine ⟨?_, rfl⟩
        show SameText c.doc.nodes (c.doc.nodes.setIfInBounds _ _)
        refine sameText_set _ _ n _ hn rfl rfl rfl ?_
        rw [hk]; rfl
      · simp at h

theorem resetAfterText_same {c c' : Ctx} (h : c.resetAfterText = .ok c') :
    SameText c.doc.nodes c'.doc.nodes ∧ c'.parentId = c.parentId := by
  unfold Ctx.resetAfterText at h
  dsimp only at h
  split at h
  · simp only [Res.ok.injEq] at h; subst h; exact ⟨SameText.refl _, rfl⟩
  · split at h
    · rw [Res.bind_eq_ok] at h
      obtain ⟨c1, h1, h⟩ := h
      res_norm at h
      subst h
      exact (mergeText_same h1 : _)
    · res_norm at h; subst h; exact ⟨SameText.refl _, rfl⟩

/-- Appending a node that is not a Text node. -/
theorem appendNode_nontext {c c' : Ctx} {k : Kind} {r : Range} {id : Nat} (hb : BInv c)
    (hn : NoAdj c.doc.nodes) (hk : k.isText = false) (h : c.appendNode k r = .ok (c', id)) :
    NoAdj c'.doc.nodes ∧ c'.parentId = c.parentId ∧ id = c.doc.nodes.size ∧
      LastNotText c'.doc.nodes c.parentId ∧ LastNotText c'.doc.nodes id := by
  obtain ⟨e, hid, hp, _⟩ := ext_of_appendNode c c' k r id hb h
  refine ⟨noAdj_ext hb.wf e hb.pid_lt hn (fun h1 => by rw [hk] at h1; simp at h1), hp, hid,
    lastNotText_ext_same e hb.pid_lt hk, ?_⟩
  rw [hid]; exact lastNotText_ext_new e

theorem tinv_appendText {c c' : Ctx} {t : Str} {r : Range} (hb : BInv c) (ht : TInv false c)
    (h : c.appendText t r = .ok c') : TInv false c' := by
  unfold Ctx.appendText at h
  dsimp only at h
  split at h
  · rename_i hemp
    rw [Res.bind_eq_ok] at h
    obtain ⟨⟨c2, id⟩, h2, h1⟩ := h
    res_norm at h1
    subst h1
    have hb1 : BInv (c.log (Ev.textFragment t r)) := hb.congr rfl rfl rfl
    obtain ⟨e, _, hp, _⟩ := ext_of_appendNode _ _ _ _ _ hb1 h2
    have hnil : c.afterText = [] := by simpa [Ctx.log] using hemp
    refine ⟨noAdj_ext hb.wf e hb.pid_lt ht.1 (fun _ => ht.2 rfl hnil), ?_⟩
    intro _ hx
    simp at hx
  · res_norm at h
    subst h
    refine ⟨ht.1, ?_⟩
    intro _ hx
    simp at hx

theorem tinv_flushBuffer {c c' : Ctx} {b : TextBuffer} {r : Range} (hb : BInv c) (ht : TInv false c)
    (h : flushBuffer c b r = .ok c') : TInv false c' := by
  unfold flushBuffer at h
  split at h
  · rw [Res.bind_eq_ok] at h
    obtain ⟨out, _, h⟩ := h
    exact tinv_appendText hb ht h
  · res_norm at h; subst h; exact ht

theorem tinv_processCdata {c c' : Ctx} {t : Span} {r : Range} (hb : BInv c) (ht : TInv false c)
    (h : processCdata c t r = .ok c') : TInv false c' := by
  unfold processCdata at h
  split at h <;> exact tinv_appendText hb ht h

/-- Any `ElementEnd`: afterwards the last child of the current parent is not a Text node. -/
theorem tinv_processElement {txt : Bytes} {c c' : Ctx} {e : EndKind} {r : Range} (hb : BInv c)
    (hn : NoAdj c.doc.nodes) (h : processElement txt c e r = .ok c') :
    NoAdj c'.doc.nodes ∧ LastNotText c'.doc.nodes c'.parentId := by
  unfold processElement at h
  split at h
  · split at h
    · exact absurd h (errPos_ne_ok _ _ _ _)
    · simp at h
  · rw [Res.bind_eq_ok] at h
    obtain ⟨⟨c1, nss⟩, h1, h⟩ := h
    try dsimp only at h
    rw [Res.bind_eq_ok] at h
    obtain ⟨⟨c2, attrs⟩, h2, h⟩ := h
    have t1 := resolveNamespaces_triEq _ _ _ h1
    have t2 := resolveAttributes_triEq _ _ _ _ _ h2
    have hb2 : BInv c2 := t2.binv ((t1.binv hb).congr rfl rfl rfl)
    have hn2 : NoAdj c2.doc.nodes := by
      have e2 : c2.doc.nodes = c.doc.nodes := t2.1.trans t1.1
      rw [e2]; exact hn
    try dsimp only at h
    split at h
    · -- empty element
      rw [Res.bind_eq_ok] at h
      obtain ⟨tagNs, _, h⟩ := h
      rw [Res.bind_eq_ok] at h
      obtain ⟨⟨c3, newId⟩, h3, h⟩ := h
      res_norm at h
      subst h
      obtain ⟨a1, a2, _, a4, _⟩ := appendNode_nontext hb2 hn2 rfl h3
      refine ⟨a1, ?_⟩
      show LastNotText c3.doc.nodes c3.parentId
      rw [a2]; exact a4
    · -- close tag
      split at h
      · exact absurd h (errPos_ne_ok _ _ _ _)
      · rw [Res.bind_eq_ok] at h
        obtain ⟨p, hp, h⟩ := h
        split at h
        · simp at h
        · split at h
          · exact absurd h (errPos_ne_ok _ _ _ _)
          · split at h
            · rename_i id hid
              res_norm at h
              subst h
              have hpn : c2.doc.nodes[c2.parentId]? = some p := by
                unfold Ctx.nodeAt at hp
                split at hp <;> simp at hp
                subst hp; assumption
              let pnew : NodeData := if c2.positions = true then
                { p with range := (p.range.1, r.2) } else p
              have hpar : pnew.parent = p.parent := by simp only [pnew]; split <;> rfl
              have hsl : SameText c2.doc.nodes (c2.setNode c2.parentId pnew).doc.nodes := by
                show SameText c2.doc.nodes (c2.doc.nodes.setIfInBounds _ _)
                refine sameText_set _ _ p _ hpn hpar ?_ ?_ ?_ <;> (simp only [pnew]; split <;> rfl)
              have hq : par c2.doc.nodes c2.parentId = some id := by
                simp only [Spec.par, hpn, Option.bind_some]
                rw [← hpar]; exact hid
              exact ⟨hsl.noAdj hn2, hsl.lastNotText id (close_last hb2 id hq)⟩
            · exact absurd h (errPos_ne_ok _ _ _ _)
    · -- open element
      rw [Res.bind_eq_ok] at h
      obtain ⟨tagNs, _, h⟩ := h
      rw [Res.bind_eq_ok] at h
      obtain ⟨⟨c3, newId⟩, h3, h⟩ := h
      res_norm at h
      subst h
      obtain ⟨a1, _, _, _, a5⟩ := appendNode_nontext hb2 hn2 rfl h3
      exact ⟨a1, a5⟩

/-- what is proved of a builder `step` -/
def TokT (step : Token → Ctx → Res Ctx) : Prop :=
  ∀ (q q' : Bool) (t : Token) (c c' : Ctx), protoStep q t = some q' → BInv c → TInv q c →
    step t c = .ok c' → TInv q' c'

theorem tinv_feed (step : Token → Ctx → Res Ctx)
    (hstepB : ∀ t c c', BInv c → step t c = .ok c' → BInv c') (hstep : TokT step) :
    ∀ (toks : List Token) (q qe : Bool) (c c' : Ctx), protoRun q toks = some qe → BInv c →
      TInv q c → feed step toks c = .ok c' → TInv qe c' := by
  intro toks
  induction toks with
  | nil =>
    intro q qe c c' hrun _ ht h
    simp only [protoRun, Option.some.injEq] at hrun
    simp [feed] at h
    subst h; subst hrun; exact ht
  | cons t ts ih =>
    intro q qe c c' hrun hb ht h
    simp only [protoRun] at hrun
    cases hps : protoStep q t with
    | none => rw [hps] at hrun; simp at hrun
    | some q1 =>
      rw [hps] at hrun
      simp only at hrun
      simp only [feed] at h
      split at h
      · rename_i c1 h1
        exact ih q1 qe c1 c' hrun (hstepB _ _ _ hb h1) (hstep q q1 t c c1 hps hb ht h1) h
      · simp at h
      · simp at h
      · simp at h

theorem runTokens_ok {α} (step : Token → Ctx → Res Ctx) (toks : List Token) (stop : Res α)
    (c c' : Ctx) (h : runTokens step toks stop c = .ok c') :
    (∃ s, stop = .ok s) ∧ feed step toks c = .ok c' := by
  unfold runTokens at h
  split at h
  · rename_i c1 h1
    split at h <;> simp at h
    subst h
    exact ⟨⟨_, rfl⟩, h1⟩
  · rename_i hne
    cases hf : feed step toks c <;> simp_all

section
variable (T : Tables) (txt : Bytes)

theorem tinv_processTextLoop (lower : Token → Ctx → Res Ctx)
    (hlowerB : ∀ t c c', BInv c → lower t c = .ok c' → BInv c') (hlower : TokT lower)
    (range : Range) :
    ∀ (fuel : Nat) (s : Stream) (buf buf' : TextBuffer) (c c' : Ctx), BInv c → TInv false c →
      processTextLoop T txt lower range fuel s buf c = .ok (buf', c') → BInv c' ∧ TInv false c' := by
  intro fuel
  induction fuel with
  | zero => intro s buf buf' c c' _ _ h; simp [processTextLoop] at h
  | succ fuel ih =>
    intro s buf buf' c c' hb ht h
    simp only [processTextLoop] at h
    split at h
    · res_norm at h; rw [← h.2]; exact ⟨hb, ht⟩
    · rw [Res.bind_eq_ok] at h
      obtain ⟨⟨s1, chunk⟩, hpc, h⟩ := h
      try dsimp only at h
      split at h
      · exact ih _ _ _ _ _ hb ht h
      · try dsimp only at h
        split at h <;> exact ih _ _ _ _ _ hb ht h
      · rename_i frag
        rw [Res.bind_eq_ok] at h
        obtain ⟨c1, hfl, h⟩ := h
        have hb1 := binv_flushBuffer hb hfl
        have ht1 := tinv_flushBuffer hb ht hfl
        split at h
        · exact absurd h (errAt_ne_ok _ _ _ _)
        · try dsimp only at h
          split at h
          · exact absurd h (errAt_ne_ok _ _ _ _)
          · try dsimp only at h
            rw [Res.bind_eq_ok] at h
            obtain ⟨c2, hrun, h⟩ := h
            have hb2 : BInv c2 := by
              refine binv_runTokens lower hlowerB _ _ _ _ ?_ hrun
              exact hb1.congr rfl rfl rfl
            have ht2 : TInv false c2 := by
              obtain ⟨⟨st, hst⟩, hfeed⟩ := runTokens_ok _ _ _ _ _ hrun
              obtain ⟨qe, hpr, hqe⟩ := tokenizeContent_proto T txt frag.off frag.stop
              have := hqe st hst
              subst this
              refine tinv_feed lower hlowerB hlower _ false false _ _ hpr ?_ ?_ hfeed
              · exact hb1.congr rfl rfl rfl
              · exact ht1.congr rfl rfl rfl
            split at h
            · simp at h
            · refine ih _ _ _ _ _ ?_ ?_ h
              · exact hb2.congr rfl rfl rfl
              · exact ht2.congr rfl rfl rfl

theorem tinv_processText (lower : Token → Ctx → Res Ctx)
    (hlowerB : ∀ t c c', BInv c → lower t c = .ok c' → BInv c') (hlower : TokT lower)
    (c c' : Ctx) (t : Span) (r : Range) (hb : BInv c) (ht : TInv false c)
    (h : processText T txt lower c t r = .ok c') : TInv false c' := by
  unfold processText at h
  split at h
  · exact tinv_appendText hb ht h
  · try dsimp only at h
    rw [Res.bind_eq_ok] at h
    obtain ⟨⟨buf, c1⟩, h1, h⟩ := h
    obtain ⟨hb1, ht1⟩ := tinv_processTextLoop T txt lower hlowerB hlower _ _ _ _ _ _ _ hb ht h1
    exact tinv_flushBuffer hb1 ht1 h

theorem tinv_tokenStep (lower : Token → Ctx → Res Ctx)
    (hlowerB : ∀ t c c', BInv c → lower t c = .ok c' → BInv c') (hlower : TokT lower) :
    TokT (tokenStep T txt lower) := by
  intro q q' t c c' hps hb ht h
  unfold tokenStep at h
  dsimp only at h
  have hb0 : BInv (c.log (.token t)) := hb.congr rfl rfl rfl
  have ht0 : TInv q (c.log (.token t)) := ht.congr rfl rfl rfl
  split at h
  · -- pi
    rw [Res.bind_eq_ok] at h
    obtain ⟨c1, h1, h⟩ := h
    rw [Res.bind_eq_ok] at h
    obtain ⟨⟨c2, id⟩, h2, h⟩ := h
    res_norm at h; subst h
    obtain ⟨s1, p1⟩ := resetAfterText_same h1
    obtain ⟨a1, a2, _, a4, _⟩ := appendNode_nontext (binv_resetAfterText hb0 h1) (s1.noAdj ht0.1) rfl h2
    refine ⟨a1, fun _ _ => ?_⟩
    rw [a2]; exact a4
  · -- comment
    rw [Res.bind_eq_ok] at h
    obtain ⟨c1, h1, h⟩ := h
    rw [Res.bind_eq_ok] at h
    obtain ⟨⟨c2, id⟩, h2, h⟩ := h
    res_norm at h; subst h
    obtain ⟨s1, p1⟩ := resetAfterText_same h1
    obtain ⟨a1, a2, _, a4, _⟩ := appendNode_nontext (binv_resetAfterText hb0 h1) (s1.noAdj ht0.1) rfl h2
    refine ⟨a1, fun _ _ => ?_⟩
    rw [a2]; exact a4
  · -- entityDecl
    res_norm at h; subst h
    have : q' = q := by
      cases q <;> simp [protoStep] at hps <;> exact hps
    subst this
    exact ht.congr rfl rfl rfl
  · -- elementStart
    rw [Res.bind_eq_ok] at h
    obtain ⟨c1, h1, h⟩ := h
    split at h
    · exact absurd h (errPos_ne_ok _ _ _ _)
    · res_norm at h; subst h
      have : q' = true := by
        cases q <;> simp [protoStep] at hps <;> exact hps
      subst this
      obtain ⟨s1, _⟩ := resetAfterText_same h1
      exact ⟨s1.noAdj ht0.1, fun hq => by simp at hq⟩
  · -- attribute
    have : q = true ∧ q' = true := by
      cases q <;> simp [protoStep] at hps
      exact ⟨rfl, hps⟩
    obtain ⟨rfl, rfl⟩ := this
    have te := processAttribute_triEq _ _ _ _ _ _ _ _ _ _ h
    refine ⟨?_, fun hq => by simp at hq⟩
    rw [te.1]; exact ht0.1
  · -- elementEnd
    rw [Res.bind_eq_ok] at h
    obtain ⟨c1, h1, h⟩ := h
    obtain ⟨s1, _⟩ := resetAfterText_same h1
    obtain ⟨a1, a2⟩ := tinv_processElement (binv_resetAfterText hb0 h1) (s1.noAdj ht0.1) h
    exact ⟨a1, fun _ _ => a2⟩
  · -- text
    have : q = false ∧ q' = false := by
      cases q <;> simp [protoStep] at hps
      exact ⟨rfl, hps⟩
    obtain ⟨rfl, rfl⟩ := this
    exact tinv_processText T txt lower hlowerB hlower _ _ _ _ hb0 ht0 h
  · -- cdata
    have : q = false ∧ q' = false := by
      cases q <;> simp [protoStep] at hps
      exact ⟨rfl, hps⟩
    obtain ⟨rfl, rfl⟩ := this
    exact tinv_processCdata hb0 ht0 h

theorem tinv_token : ∀ (d : Nat), TokT (token T txt d) := by
  intro d
  induction d with
  | zero => intro q q' t c c' _ _ _ h; simp [token] at h
  | succ d ih => exact tinv_tokenStep T txt (token T txt d) (binv_token T txt d) ih

theorem parseCtx_noAdj (d : Nat) (opt : Opt) (c : Ctx)
    (h : parseCtx T txt d opt = .ok c) : NoAdj c.doc.nodes := by
  unfold parseCtx at h
  rw [Res.bind_eq_ok] at h
  obtain ⟨c0, h0, h⟩ := h
  try dsimp only at h
  rw [Res.bind_eq_ok] at h
  obtain ⟨c1, h1, h⟩ := h
  have hb0 := binv_init txt opt c0 h0
  have ht0 : TInv false c0 := by
    unfold initCtx at h0
    rw [Res.bind_eq_ok] at h0
    obtain ⟨ns, _, h0⟩ := h0
    res_norm at h0
    subst h0
    refine ⟨?_, fun _ _ => ?_⟩
    · intro i j hi hp
      have : i = 0 := by simp at hi; omega
      subst this
      simp [Spec.prevSib, rootNode] at hp
    · intro l hl
      simp [Spec.lastCh, rootNode] at hl
  obtain ⟨_, hfeed⟩ := runTokens_ok _ _ _ _ _ h1
  obtain ⟨qe, hpr, _⟩ := parseDocument_proto T txt opt.allowDtd
  have ht1 : TInv qe c1 :=
    tinv_feed _ (binv_token T txt d) (tinv_token T txt d) _ false qe _ _ hpr hb0 ht0 hfeed
  unfold finish at h
  rw [Res.bind_eq_ok] at h
  obtain ⟨has, _, h⟩ := h
  split at h
  · simp at h
  · split at h
    · simp at h
    · res_norm at h; subst h; exact ht1.1

end

/-- **Every parsed document is free of adjacent Text siblings** (all inputs, all options). -/
theorem parse_noAdj (T : Tables) (txt : Bytes) (opt : Opt) (d : Doc)
    (h : parse T txt opt = .ok d) : NoAdj d.nodes := by
  unfold parse at h
  rw [Res.bind_eq_ok] at h
  obtain ⟨c, hc, h⟩ := h
  res_norm at h
  subst h
  exact parseCtx_noAdj T txt _ opt c hc

end Rox.Lemmas
