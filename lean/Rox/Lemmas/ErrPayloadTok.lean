/-
  Rox.Lemmas.ErrPayloadTok — the tokenizer in the payload logic: every error it raises carries bytes
  / characters of the input, every token it delivers (also before a failure, also while expanding an
  entity) carries pieces of the input, a qualified name being one piece.
-/
import Rox.Lemmas.ErrPayloadStream

namespace Rox.Lemmas.EP
open Rox Rox.TM

section
variable (T : Tables) (txt : Bytes)

theorem isXmlStrAscii_ht : ∀ (l : Bytes) (pos : Nat), (∀ b ∈ l, b < 128 ∧ b ∈ txt) →
    HT txt (isXmlStrAscii T txt pos l) (fun _ => True) := by
  intro l
  induction l with
  | nil => intro pos _; unfold isXmlStrAscii; ht
  | cons b r ih =>
    intro pos h
    unfold isXmlStrAscii
    split
    · refine ht_errFrom _ _ _ (fun _ => ?_)
      show encodeChar b.toNat <:+: txt
      rw [gp_encode_byte b (h b (by simp)).1]
      exact singleton_infix (h b (by simp)).2
    · exact ih _ (fun x hx => h x (by simp [hx]))

variable (hv : ValidUtf8 txt)
include hv
set_option linter.unusedSectionVars false

theorem isXmlStrUnicode_ht : ∀ (fuel pos : Nat) (l : Bytes), l <:+: txt →
    HT txt (isXmlStrUnicode T txt fuel pos l) (fun _ => True) := by
  intro fuel
  induction fuel with
  | zero => intro pos l _; unfold isXmlStrUnicode; ht
  | succ n ih =>
    intro pos l hl
    cases l with
    | nil => unfold isXmlStrUnicode; ht
    | cons b r =>
      unfold isXmlStrUnicode
      split
      · exact ht_panic _ _
      · rename_i c w hd
        split
        · exact ht_errFrom _ _ _ (fun _ => decode_infix txt hv _ hl c w hd)
        · exact ih _ _ (drop_infix _ hl)

theorem isXmlStr_ht (v : Span) (h : v.bytes <:+: txt) : HT txt (isXmlStr T txt v) (fun _ => True) := by
  unfold isXmlStr
  split
  · rename_i ha
    apply isXmlStrAscii_ht
    intro b hb
    refine ⟨?_, mem_of_infix h hb⟩
    simp only [isAscii, List.all_eq_true, decide_eq_true_eq] at ha
    exact ha b hb
  · exact isXmlStrUnicode_ht T txt hv _ _ _ h

theorem parseAttribute_ht {s : Stream} (hs : Sub txt s) :
    HT txt (parseAttribute T txt s) (fun p => Sub txt p.1) := by
  unfold parseAttribute
  ht using consumeQName_ht, consumeEq_ht, consumeQuote_ht, consumeChars_ht, consumeByte_ht

theorem parsePseudoAttribute_ht {s : Stream} (hs : Sub txt s) (name : Bytes) :
    HT txt (parsePseudoAttribute T txt s name) (Sub txt) := by
  unfold parsePseudoAttribute
  ht using parseAttribute_ht

omit hv in
theorem declConsumeSpaces_ht {s : Stream} (hs : Sub txt s) :
    HT txt (declConsumeSpaces T txt s) (Sub txt) := by
  unfold declConsumeSpaces
  split
  · exact ht_ok _ _ (skipSpaces_sub T txt hs)
  · split
    · split
      · rename_i b r hr
        exact ht_errAt _ _ _ (fun _ => head_mem txt hs hr)
      · exact ht_panic _ _
    · exact ht_ok _ _ hs

omit hv in
theorem declEnd_ht {s : Stream} (hs : Sub txt s) : HT txt (declEnd T txt s) (Sub txt) := by
  unfold declEnd
  exact skipString_ht txt (skipSpaces_sub T txt hs) _

theorem declStandalone_ht {s : Stream} (hs : Sub txt s) :
    HT txt (declStandalone T txt s) (Sub txt) := by
  unfold declStandalone
  ht using parsePseudoAttribute_ht, declEnd_ht

theorem declEncoding_ht {s : Stream} (hs : Sub txt s) :
    HT txt (declEncoding T txt s) (Sub txt) := by
  unfold declEncoding
  ht using parsePseudoAttribute_ht, declConsumeSpaces_ht, declStandalone_ht

theorem parseDeclaration_ht {s : Stream} (hs : Sub txt s) :
    HT txt (parseDeclaration T txt s) (Sub txt) := by
  unfold parseDeclaration
  ht using advance_ht, declConsumeSpaces_ht, skipString_ht, parsePseudoAttribute_ht, declEncoding_ht

theorem parseComment_ht {s : Stream} (hs : Sub txt s) :
    HTT txt (parseComment T txt s) (Sub txt) := by
  unfold parseComment
  ht using advance_ht, consumeChars_ht, skipString_ht

theorem parsePi_ht {s : Stream} (hs : Sub txt s) : HTT txt (parsePi T txt s) (Sub txt) := by
  unfold parsePi
  ht using advance_ht, consumeName_ht, declConsumeSpaces_ht, consumeChars_ht, skipString_ht

theorem parseMisc_ht : ∀ (fuel : Nat) (s : Stream), Sub txt s →
    HTT txt (parseMisc T txt fuel s) (Sub txt) := by
  intro fuel
  induction fuel with
  | zero => intro s _; unfold parseMisc; ht
  | succ n ih =>
    intro s hs
    unfold parseMisc
    have h1 := skipSpaces_sub T txt hs
    ht using ih, parseComment_ht, parsePi_ht

theorem parseExternalId_ht {s : Stream} (hs : Sub txt s) :
    HT txt (parseExternalId T txt s) (fun p => Sub txt p.1) := by
  unfold parseExternalId
  split
  · apply ht_bind _ _ _ (advance_ht txt hs _)
    intro s1 h1
    apply ht_bind _ _ _ (consumeSpaces_ht T txt h1)
    intro s2 h2
    apply ht_bind _ _ _ (consumeQuote_ht txt h2)
    rintro ⟨s3, q⟩ h3
    have h4 := (consumeBytes_sub txt h3 (fun c => c != q)).1
    dsimp only
    apply ht_bind _ _ _ (consumeByte_ht txt h4 _)
    intro s5 h5
    split
    · exact ht_pure _ _ h5
    · apply ht_bind _ _ _ (consumeSpaces_ht T txt h5)
      intro s6 h6
      apply ht_bind _ _ _ (consumeQuote_ht txt h6)
      rintro ⟨s7, q2⟩ h7
      have h8 := (consumeBytes_sub txt h7 (fun c => c != q2)).1
      dsimp only
      apply ht_bind _ _ _ (consumeByte_ht txt h8 _)
      intro s9 h9
      exact ht_pure _ _ h9
  · exact ht_pure _ _ hs

theorem parseEntityDef_ht {s : Stream} (hs : Sub txt s) (isGe : Bool) :
    HT txt (parseEntityDef T txt s isGe)
      (fun p => Sub txt p.1 ∧ ∀ v, p.2 = some v → v.bytes <:+: txt) := by
  unfold parseEntityDef
  have hc : HT txt s.currByte (fun b => b ∈ txt) := by
    unfold Stream.currByte
    split
    · ht
    · rename_i b r hr; exact ht_ok _ _ (head_mem txt hs hr)
  apply ht_bind _ _ _ hc
  intro c hcm
  split
  · apply ht_bind _ _ _ (consumeQuote_ht txt hs)
    rintro ⟨s1, q⟩ h1
    have h2 := consumeBytes_sub txt h1 (fun c => c != q)
    dsimp only
    apply ht_bind _ _ _ (consumeByte_ht txt h2.1 _)
    intro s3 h3
    exact ht_pure _ _ ⟨h3, by intro v hv'; cases hv'; exact h2.2⟩
  · split
    · apply ht_bind _ _ _ (parseExternalId_ht T txt hv hs)
      rintro ⟨s1, isExt⟩ h1
      dsimp only
      split
      · split
        · have h2 := skipSpaces_sub T txt h1
          split
          · apply ht_bind _ _ _ (advance_ht txt h2 _)
            intro s3 h3
            apply ht_bind _ _ _ (consumeSpaces_ht T txt h3)
            intro s4 h4
            apply ht_bind _ _ _ (skipName_ht T txt h4)
            rintro ⟨s5, _⟩ h5
            exact ht_pure _ _ ⟨h5.1, by intro v hv'; cases hv'⟩
          · exact ht_pure _ _ ⟨h2, by intro v hv'; cases hv'⟩
        · exact ht_pure _ _ ⟨h1, by intro v hv'; cases hv'⟩
      · ht
    · exact ht_errAt _ _ _ (fun _ => hcm)

theorem parseEntityDeclBody_ht {s : Stream} (hs : Sub txt s) (isGe : Bool) :
    HTT txt (parseEntityDeclBody T txt s isGe) (Sub txt) := by
  unfold parseEntityDeclBody
  apply htt_bind _ _ _ (htt_lift _ _ (consumeName_ht T txt hs))
  rintro ⟨s1, name⟩ ⟨h1, _⟩
  apply htt_bind _ _ _ (htt_lift _ _ (consumeSpaces_ht T txt h1))
  intro s2 h2
  apply htt_bind _ _ _ (htt_lift _ _ (parseEntityDef_ht T txt hv h2 isGe))
  rintro ⟨s3, defn⟩ ⟨h3, hd⟩
  dsimp only at h3 hd ⊢
  have hfin : HTT txt (lift ((s3.skipSpaces T).consumeByte txt bGt)) (Sub txt) :=
    htt_lift _ _ (consumeByte_ht txt (skipSpaces_sub T txt h3) _)
  split
  · rename_i d
    split
    · apply htt_bind _ _ _ (htt_emit _ _ (by exact hd d rfl))
      intro _ _
      exact hfin
    · exact hfin
  · exact hfin

theorem parseEntityDecl_ht {s : Stream} (hs : Sub txt s) :
    HTT txt (parseEntityDecl T txt s) (Sub txt) := by
  unfold parseEntityDecl
  apply htt_bind _ _ _ (htt_lift _ _ (advance_ht txt hs _))
  intro s1 h1
  apply htt_bind _ _ _ (htt_lift _ _ (consumeSpaces_ht T txt h1))
  intro s2 h2
  have h3 := tryConsumeByte_sub txt h2 bPct
  dsimp only
  split
  · apply htt_bind _ _ _ (htt_lift _ _ (consumeSpaces_ht T txt h3))
    intro s4 h4
    exact parseEntityDeclBody_ht T txt hv h4 _
  · exact parseEntityDeclBody_ht T txt hv h3 _

omit hv in
theorem consumeDecl_sub {s : Stream} (hs : Sub txt s) : Sub txt (consumeDecl txt s).1 := by
  unfold consumeDecl
  have h1 := (consumeBytes_sub txt hs (fun c => c != bGt)).1
  have h2 := consumeByte_ht txt h1 bGt
  dsimp only
  split
  · rename_i s2 heq; exact h2.ok _ heq
  · exact h1

theorem parseDoctypeStart_ht {s : Stream} (hs : Sub txt s) :
    HT txt (parseDoctypeStart T txt s) (Sub txt) := by
  unfold parseDoctypeStart
  apply ht_bind _ _ _ (advance_ht txt hs _)
  intro s1 h1
  apply ht_bind _ _ _ (consumeSpaces_ht T txt h1)
  intro s2 h2
  apply ht_bind _ _ _ (skipName_ht T txt h2)
  rintro ⟨s3, _⟩ ⟨h3, _⟩
  have h4 := skipSpaces_sub T txt h3
  dsimp only
  apply ht_bind _ _ _ (parseExternalId_ht T txt hv h4)
  rintro ⟨s5, _⟩ h5
  have h6 := skipSpaces_sub T txt h5
  try dsimp only at h6 ⊢
  have hc : HT txt (s5.skipSpaces T).currByte (fun b => b ∈ txt) := by
    unfold Stream.currByte
    split
    · ht
    · rename_i b r hr; exact ht_ok _ _ (head_mem txt h6 hr)
  apply ht_bind _ _ _ hc
  intro c hcm
  split
  · exact ht_errAt _ _ _ (fun _ => hcm)
  · exact ht_pure _ _ h6

theorem doctypeLoop_ht (start : Nat) : ∀ (fuel : Nat) (s : Stream), Sub txt s →
    HTT txt (doctypeLoop T txt start fuel s) (Sub txt) := by
  intro fuel
  induction fuel with
  | zero => intro s _; unfold doctypeLoop; ht
  | succ n ih =>
    intro s hs
    unfold doctypeLoop
    have h1 := skipSpaces_sub T txt hs
    split
    · exact htt_pure _ _ hs
    · dsimp only
      split
      · ht using ih, parseEntityDecl_ht
      · split
        · ht using ih, parseComment_ht
        · split
          · ht using ih, parsePi_ht
          · split
            · apply htt_bind _ _ _ (htt_lift _ _ (advance_ht txt h1 _))
              intro s2 h2
              have h3 := skipSpaces_sub T txt h2
              split
              · ht
              · rename_i c r hr
                split
                · exact htt_pure _ _ (tail_sub txt h3 hr _)
                · exact htt_lift _ _ (ht_errAt _ _ _ (fun _ => head_mem txt h3 hr))
            · split
              · have h2 := consumeDecl_sub txt h1
                revert h2
                cases consumeDecl txt (s.skipSpaces T) with
                | mk s2 failed =>
                  intro h2
                  try dsimp only at h2 ⊢
                  split
                  · ht
                  · exact ih _ h2
              · ht

theorem parseDoctype_ht {s : Stream} (hs : Sub txt s) :
    HTT txt (parseDoctype T txt s) (Sub txt) := by
  unfold parseDoctype
  apply htt_bind _ _ _ (htt_lift _ _ (parseDoctypeStart_ht T txt hv hs))
  intro s1 h1
  have h2 := skipSpaces_sub T txt h1
  dsimp only
  split
  · rename_i c r hr
    split
    · exact htt_pure _ _ (tail_sub txt h2 hr _)
    · ht using advance_ht, doctypeLoop_ht
  · ht

theorem startTagLoop_ht : ∀ (fuel : Nat) (s : Stream), Sub txt s →
    HTT txt (startTagLoop T txt fuel s) (fun p => Sub txt p.1) := by
  intro fuel
  induction fuel with
  | zero => intro s _; unfold startTagLoop; ht
  | succ n ih =>
    intro s hs
    unfold startTagLoop
    have h1 := skipSpaces_sub T txt hs
    split
    · exact htt_pure _ _ hs
    · dsimp only
      apply htt_bind _ _ _ (htt_lift _ _ (currByte_ht txt _))
      intro c _
      split
      · ht using advance_ht, consumeByte_ht
      · split
        · ht using advance_ht
        · apply htt_bind (Q := Sub txt)
          · apply htt_lift
            split
            · exact consumeSpaces_ht T txt h1
            · exact ht_ok _ _ h1
          intro s2 h2
          apply htt_bind _ _ _ (htt_lift _ _ (consumeQName_ht T txt h2))
          rintro ⟨s3, pfx, loc⟩ ⟨h3, hp, hl, _⟩
          dsimp only at h3 hp hl ⊢
          apply htt_bind _ _ _ (htt_lift _ _ (consumeEq_ht T txt h3))
          intro s4 h4
          apply htt_bind _ _ _ (htt_lift _ _ (consumeQuote_ht txt h4))
          rintro ⟨s5, q⟩ h5
          dsimp only at h5 ⊢
          apply htt_bind _ _ _ (htt_lift _ _ (advanceUntil2_ht txt h5 q bLt))
          rintro ⟨s6, value⟩ ⟨h6, hval⟩
          dsimp only at h6 hval ⊢
          apply htt_bind _ _ _ (htt_lift _ _ (isXmlStr_ht T txt hv value hval))
          intro _ _
          apply htt_bind _ _ _ (htt_lift _ _ (consumeByte_ht txt h6 q))
          intro s7 h7
          apply htt_bind _ _ _ (htt_emit _ _ (by exact ⟨hp, hl, hval⟩))
          intro _ _
          exact ih _ h7

theorem parseStartTag_ht {s : Stream} (hs : Sub txt s) :
    HTT txt (parseStartTag T txt s) (fun p => Sub txt p.1) := by
  unfold parseStartTag
  apply htt_bind _ _ _ (htt_lift _ _ (advance_ht txt hs _))
  intro s1 h1
  apply htt_bind _ _ _ (htt_lift _ _ (consumeQName_ht T txt h1))
  rintro ⟨s2, pfx, loc⟩ ⟨h2, hp, _, hq⟩
  dsimp only at h2 hp hq ⊢
  apply htt_bind _ _ _ (htt_emit _ _ (by exact ⟨hp, hq⟩))
  intro _ _
  apply htt_bind _ _ _ (startTagLoop_ht T txt hv _ _ h2)
  rintro ⟨s3, fin⟩ h3
  dsimp only
  split
  · ht
  · exact htt_pure _ _ h3

theorem parseCdata_ht {s : Stream} (hs : Sub txt s) : HTT txt (parseCdata T txt s) (Sub txt) := by
  unfold parseCdata
  ht using advance_ht, consumeChars_ht, skipString_ht

theorem parseCloseElement_ht {s : Stream} (hs : Sub txt s) :
    HTT txt (parseCloseElement T txt s) (Sub txt) := by
  unfold parseCloseElement
  apply htt_bind _ _ _ (htt_lift _ _ (advance_ht txt hs _))
  intro s1 h1
  apply htt_bind _ _ _ (htt_lift _ _ (consumeQName_ht T txt h1))
  rintro ⟨s2, pfx, loc⟩ ⟨h2, _, _, hq⟩
  dsimp only at h2 hq ⊢
  apply htt_bind _ _ _ (htt_lift _ _ (consumeByte_ht txt (skipSpaces_sub T txt h2) _))
  intro s4 h4
  apply htt_bind _ _ _ (htt_emit _ _ (by exact hq))
  intro _ _
  exact htt_pure _ _ h4

theorem parseText_ht {s : Stream} (hs : Sub txt s) : HTT txt (parseText T txt s) (Sub txt) := by
  unfold parseText
  ht using consumeChars_ht

theorem parseContent_ht : ∀ (fuel depth : Nat) (s : Stream), Sub txt s →
    HTT txt (parseContent T txt fuel depth s) (Sub txt) := by
  intro fuel
  induction fuel with
  | zero => intro d s _; unfold parseContent; ht
  | succ n ih =>
    intro depth s hs
    unfold parseContent
    ht using ih, parseComment_ht, parseCdata_ht, parsePi_ht, parseCloseElement_ht, parseStartTag_ht,
      parseText_ht

theorem parseElement_ht {s : Stream} (hs : Sub txt s) : HTT txt (parseElement T txt s) (Sub txt) := by
  unfold parseElement
  ht using parseStartTag_ht, parseContent_ht

theorem parseProlog_ht : HTT txt (parseProlog T txt) (Sub txt) := by
  unfold parseProlog
  have h0 := sub_new txt
  dsimp only
  apply htt_bind (Q := Sub txt)
  · apply htt_lift
    split
    · exact advance_ht txt h0 _
    · exact ht_ok _ _ h0
  intro s1 h1
  apply htt_bind (Q := Sub txt)
  · apply htt_lift
    split
    · exact parseDeclaration_ht T txt hv h1
    · exact ht_ok _ _ h1
  intro s2 h2
  apply htt_bind _ _ _ (parseMisc_ht T txt hv _ _ h2)
  intro s3 h3
  exact htt_pure _ _ (skipSpaces_sub T txt h3)

theorem parseRootElement_ht {s : Stream} (hs : Sub txt s) :
    HTT txt (parseRootElement T txt s) (Sub txt) := by
  unfold parseRootElement
  ht using parseElement_ht

theorem parseBody_ht {s : Stream} (hs : Sub txt s) :
    HTT txt (parseBody T txt s) (fun _ => True) := by
  unfold parseBody
  have h1 := skipSpaces_sub T txt hs
  ht using parseRootElement_ht, parseMisc_ht

theorem parseDocument_ht (allowDtd : Bool) :
    HTT txt (parseDocument T txt allowDtd) (fun _ => True) := by
  unfold parseDocument
  ht using parseProlog_ht, parseDoctype_ht, parseMisc_ht, parseBody_ht

/-- the tokenizer: tokens and the way it stopped -/
theorem tokenize_ht (allowDtd : Bool) : HTT txt (tokenize T txt allowDtd) (fun _ => True) :=
  parseDocument_ht T txt hv allowDtd

/-- the tokenizer on an entity value (any range of the input) -/
theorem tokenizeContent_ht (a b : Nat) : HTT txt (tokenizeContent T txt a b) (Sub txt) :=
  parseContent_ht T txt hv _ _ _ (sub_ofRange txt a b)

end

end Rox.Lemmas.EP
