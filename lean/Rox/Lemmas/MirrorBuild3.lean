/-
  Rox.Lemmas.MirrorBuild3 — Stage B' of the proof of `accepted_tree_mirrors`, part 3: start tags.
  The attribute tokens fill `curAttrs` with the attributes that are not namespace declarations, in
  order, with local names and normalised values (`MTInv`); `process_element` then appends the element
  node whose attribute range holds exactly these.
-/
import Rox.Lemmas.MirrorBuild1
import Rox.Lemmas.AttrNs

namespace Rox.Lemmas.MB
open Rox Rox.Spec Rox.Spec.Grammar Rox.Spec.Canon4 Rox.Spec.Mirror Rox.Lemmas.RtB Rox.Lemmas.GB

/-- inside a start tag, after the attributes `seenA` (as written) -/
structure MTInv (a : AS) (seenA : List AttrC) (c : Ctx) : Prop where
  core : MCore a c
  pnone : a.pend = none
  cur : (c.curAttrs.map fun x => (x.loc.bytes, x.value.bytes)) = attrsOfC seenA

/-- what `Rox.Lemmas.MirrorDecode.normalizeAttribute_mirror` provides -/
def NormOk (T : Tables) (txt : Bytes) : Prop :=
  ∀ (c c' : Ctx) (v : Span) (s : Str), c.entities = [] → c.ld.depth = 0 → bLt ∉ v.bytes →
    normalizeAttribute T txt c v = .ok (c', s) →
    s.bytes = decodeAttr v.bytes ∧ ∃ tr, c' = { c with trace := tr }

/-! ### Auxiliary facts -/

/-- like `MCore.congr`, but the document may differ outside the arena and the attribute table
(the namespace table is not read by the correspondence) -/
theorem MCore.congr' {a : AS} {c c' : Ctx} (h : MCore a c) (hn : c'.doc.nodes = c.doc.nodes)
    (hat : c'.doc.attrs = c.doc.attrs) (hl : c'.ld = c.ld) (hp : c'.parentId = c.parentId)
    (ha : c'.afterText = c.afterText) : MCore a c' := by
  have hk : kps c' = kps c := by unfold kps; rw [hn]
  refine ⟨by rw [hl]; exact h.ld, by rw [hp]; exact h.pid, h.chain, ?_, ?_⟩
  · rw [hk, hat]; exact h.good
  · have hp := h.pend
    unfold PendOk at hp ⊢
    rw [hk, hat, ha]
    exact hp

theorem attrsOfC_snoc (l : List AttrC) (x : AttrC) :
    attrsOfC (l ++ [x]) =
      attrsOfC l ++ (if isNsDecl x.n = true then [] else [((qparts x.n).2, decodeAttr x.v)]) := by
  unfold attrsOfC attrsOf
  simp only [List.map_append, List.filter_append, List.map_cons, List.map_nil, List.filter_cons,
    List.filter_nil]
  cases isNsDecl x.n <;> simp

theorem flushed_none (out : List V) (ids : List Nat) : AS.flushed ⟨out, none, ids⟩ = out := by
  simp [AS.flushed]

/-- `resolve_attributes` only appends to the attribute table, and the range it returns lies inside
the table -/
theorem mb_resolveAttributes {txt : Bytes} {c c2 : Ctx} {nss attrs : Range}
    (h : resolveAttributes txt c nss = .ok (c2, attrs)) :
    (∃ new, c2.doc.attrs.toList = c.doc.attrs.toList ++ new) ∧ attrs.2 ≤ c2.doc.attrs.size := by
  unfold resolveAttributes at h
  split at h
  · res_norm at h
    obtain ⟨rfl, rfl⟩ := h
    exact ⟨⟨[], by simp⟩, Nat.zero_le _⟩
  · split at h
    · simp at h
    · rw [Res.bind_eq_ok] at h
      obtain ⟨doc, hd, h⟩ := h
      res_norm at h
      obtain ⟨rfl, rfl⟩ := h
      obtain ⟨_, ⟨new, g2, _⟩, _⟩ := resolveAttrsLoop_spec txt _ _ _ _ _ _ hd
      exact ⟨⟨new, g2⟩, Nat.le_refl _⟩

/-- the preparatory steps of `process_element`, as far as the correspondence reads them -/
theorem mb_prelude {txt : Bytes} {c c1 c2 : Ctx} {nss attrs : Range} (hb : BInv c)
    (h1 : resolveNamespaces c = .ok (c1, nss))
    (h2 : resolveAttributes txt { c1 with nsStartIdx := c1.doc.ns.treeOrder.size, xmlDeclared := false }
      nss = .ok (c2, attrs)) :
    BInv c2 ∧ c2.doc.nodes = c.doc.nodes ∧ c2.parentId = c.parentId ∧ c2.afterText = c.afterText ∧
      c2.ld = c.ld ∧ c2.tagName = c.tagName ∧
      (∃ new, c2.doc.attrs.toList = c.doc.attrs.toList ++ new) ∧
      ((c2.doc.attrs.toList.drop attrs.1).take (attrs.2 - attrs.1)).map
          (fun a => (a.localName.bytes, a.value.bytes)) =
        c.curAttrs.map (fun x => (x.loc.bytes, x.value.bytes)) ∧
      attrs.2 ≤ c2.doc.attrs.size := by
  have t1 := resolveNamespaces_triEq _ _ _ h1
  have t2 := resolveAttributes_triEq _ _ _ _ _ h2
  have hb2 : BInv c2 := t2.binv ((t1.binv hb).congr rfl rfl rfl)
  obtain ⟨hnew, hle⟩ := mb_resolveAttributes h2
  obtain ⟨hmap, _⟩ := resolveAttributes_spec txt _ c2 nss attrs h2
  have hmap' := congrArg (List.map fun (t : Option Nat × Span × Str) => (t.2.1.bytes, t.2.2.bytes)) hmap
  simp only [List.map_map] at hmap'
  obtain ⟨ns, e1⟩ := gb_resolveNamespaces_sh h1
  obtain ⟨ats, e2⟩ := gb_resolveAttributes_sh h2
  refine ⟨hb2, by rw [e2, e1], by rw [e2, e1], by rw [e2, e1], by rw [e2, e1], by rw [e2, e1], ?_, ?_,
    hle⟩
  · obtain ⟨new, hnew⟩ := hnew
    refine ⟨new, ?_⟩
    rw [hnew, e1]
  · have : c1.curAttrs = c.curAttrs := by rw [e1]
    rw [← this]
    exact hmap'

/-- an element node is appended below the current parent; its attribute range shows `avs` -/
theorem mcore_appendElem {out : List V} {ids : List Nat} {c c2 c3 : Ctx} {tagNs : Option Nat}
    {name : Span} {attrs nss rg : Range} {id : Nat} {avs : List (Bytes × Bytes)}
    (hm : MCore ⟨out, none, ids⟩ c) (hb2 : BInv c2) (hn : c2.doc.nodes = c.doc.nodes)
    (hp : c2.parentId = c.parentId) (haf : c2.afterText = c.afterText) (hld : c2.ld = c.ld)
    (hnew : ∃ new, c2.doc.attrs.toList = c.doc.attrs.toList ++ new)
    (hsl : ((c2.doc.attrs.toList.drop attrs.1).take (attrs.2 - attrs.1)).map
      (fun a => (a.localName.bytes, a.value.bytes)) = avs)
    (hle : attrs.2 ≤ c2.doc.attrs.size)
    (h3 : c2.appendNode (.element tagNs name attrs nss) rg = .ok (c3, id)) :
    id = out.length ∧
      MCore ⟨out ++ [(some (AS.top ⟨out, none, ids⟩), .elem name.bytes avs)], none, ids⟩ c3 := by
  obtain ⟨hkps, hid, hattrs, haft, hpid, hld3, _, _⟩ := appendNode_kps hb2 h3
  obtain ⟨ha, hv⟩ := hm.pend.none
  obtain ⟨new, hnew⟩ := hnew
  have hk2 : kps c2 = kps c := by unfold kps; rw [hn]
  have hsz : c2.doc.attrs.size = c.doc.attrs.size + new.length := by
    rw [← Array.length_toList, hnew, List.length_append, Array.length_toList]
  have hgood : ∀ x ∈ kps c, goodK c.doc.attrs.toList.length x.1 := by
    intro x hx
    rw [Array.length_toList]
    exact hm.good x hx
  refine ⟨by rw [hid, hn]; exact hm.size, ?_⟩
  refine ⟨by rw [hld3, hld]; exact hm.ld, by rw [hpid, hp]; exact hm.pid,
    ChainO.mono _ _ hm.chain, ?_, ?_⟩
  · intro x hx
    rw [hkps, hk2, List.mem_append, List.mem_singleton] at hx
    rw [hattrs]
    rcases hx with hx | rfl
    · exact goodK_mono (hm.good x hx) (by omega)
    · exact hle
  · show c3.afterText = [] ∧ (kps c3).map (viewK c3.doc.attrs.toList) = _
    refine ⟨by rw [haft, haf]; exact ha, ?_⟩
    rw [hkps, hk2, hattrs, List.map_append]
    congr 1
    · rw [hnew, viewK_map_stable _ new _ hgood]
      exact hv
    · rw [hp, hm.pid, ← hsl]
      rfl

section
variable (T : Tables) (txt : Bytes)

/-- `process_attribute` -/
theorem mb_attr (hN : NormOk T txt) {a : AS} {seenA : List AttrC} {c c' : Ctx} {at_ : AttrC}
    {r : Range} {q e : Nat} {pfx loc v : Span} (hents : c.entities = []) (hm : MTInv a seenA c)
    (hat : qparts at_.n = (pfx.bytes, loc.bytes) ∧ v.bytes = at_.v) (hlt : bLt ∉ v.bytes)
    (h : processAttribute T txt c r q e pfx loc v = .ok c') : MTInv a (seenA ++ [at_]) c' := by
  unfold processAttribute at h
  rw [Res.bind_eq_ok] at h
  obtain ⟨⟨c1, value⟩, h1, h⟩ := h
  obtain ⟨hs, tr, e1⟩ := hN c c1 v value hents hm.core.ld hlt h1
  have hm1 : MTInv a seenA (c1.log (.attrValue value)) := by
    subst e1
    exact ⟨hm.core.congr rfl rfl rfl rfl, hm.pnone, hm.cur⟩
  have hq1 : (qparts at_.n).1 = pfx.bytes := by rw [hat.1]
  have hq2 : (qparts at_.n).2 = loc.bytes := by rw [hat.1]
  clear h1 e1 hm
  try dsimp only at h
  generalize c1.log (.attrValue value) = cL at h hm1
  have hdecl : isNsDecl at_.n = true → ∀ cx : Ctx, cx.doc.nodes = cL.doc.nodes →
      cx.doc.attrs = cL.doc.attrs → cx.ld = cL.ld → cx.parentId = cL.parentId →
      cx.afterText = cL.afterText → cx.curAttrs = cL.curAttrs → MTInv a (seenA ++ [at_]) cx := by
    intro hd cx g1 g2 g3 g4 g5 g6
    refine ⟨hm1.core.congr' g1 g2 g3 g4 g5, hm1.pnone, ?_⟩
    rw [attrsOfC_snoc, if_pos hd, List.append_nil, g6]
    exact hm1.cur
  split at h
  · rename_i hpfx
    have hd : isNsDecl at_.n = true := by
      unfold isNsDecl
      rw [hq1, hpfx]
      rfl
    split at h
    · exact absurd h (errPos_ne_ok _ _ _ _)
    · split at h
      · exact absurd h (errPos_ne_ok _ _ _ _)
      · try dsimp only at h
        split at h
        · exact absurd h (errPos_ne_ok _ _ _ _)
        · split at h
          · exact absurd h (errPos_ne_ok _ _ _ _)
          · rw [Res.bind_eq_ok] at h
            obtain ⟨ex, hex, h⟩ := h
            split at h
            · exact absurd h (errPos_ne_ok _ _ _ _)
            · split at h
              · rw [Res.bind_eq_ok] at h
                obtain ⟨ns, hns, h⟩ := h
                res_norm at h; subst h
                exact hdecl hd _ rfl rfl rfl rfl rfl rfl
              · res_norm at h; subst h
                exact hdecl hd _ rfl rfl rfl rfl rfl rfl
  · rename_i hpfx
    split at h
    · rename_i hb
      have hd : isNsDecl at_.n = true := by
        unfold isNsDecl
        rw [hq1, hq2, hb]
        simp
      split at h
      · exact absurd h (errPos_ne_ok _ _ _ _)
      · split at h
        · exact absurd h (errPos_ne_ok _ _ _ _)
        · rw [Res.bind_eq_ok] at h
          obtain ⟨ex, hex, h⟩ := h
          split at h
          · exact absurd h (errPos_ne_ok _ _ _ _)
          · rw [Res.bind_eq_ok] at h
            obtain ⟨ns, hns, h⟩ := h
            res_norm at h; subst h
            exact hdecl hd _ rfl rfl rfl rfl rfl rfl
    · rename_i hb
      res_norm at h; subst h
      have hd : ¬ isNsDecl at_.n = true := by
        unfold isNsDecl
        rw [hq1, hq2]
        simp only [Bool.or_eq_true, not_or]
        exact ⟨hpfx, hb⟩
      refine ⟨hm1.core.congr rfl rfl rfl rfl, hm1.pnone, ?_⟩
      rw [attrsOfC_snoc, if_neg hd]
      show List.map _ (cL.curAttrs ++ [_]) = _
      rw [List.map_append, hm1.cur, hq2]
      simp only [List.map_cons, List.map_nil]
      rw [hs, hat.2]

/-- `process_element` for `>` -/
theorem mb_open {stk : List QP} {tn : TagName} {seen : List QP} {out : List V} {ids : List Nat}
    {avs : List (Bytes × Bytes)} {c c' : Ctx} {r : Range} (hi : TInv stk tn seen c)
    (hm : MCore ⟨out, none, ids⟩ c)
    (hcur : (c.curAttrs.map fun x => (x.loc.bytes, x.value.bytes)) = avs)
    (h : processElement txt c .open r = .ok c') :
    MCore ⟨out ++ [(some (AS.top ⟨out, none, ids⟩), .elem tn.nameSpan.bytes avs)], none,
      out.length :: ids⟩ c' := by
  unfold processElement at h
  split at h
  · simp at h
  · rw [Res.bind_eq_ok] at h
    obtain ⟨⟨c1, nss⟩, h1, h⟩ := h
    try dsimp only at h
    rw [Res.bind_eq_ok] at h
    obtain ⟨⟨c2, attrs⟩, h2, h⟩ := h
    obtain ⟨hb2, hn, hp, haf, hld, htag, hnew, hsl, hle⟩ := mb_prelude hi.core.binv h1 h2
    clear h1 h2
    try dsimp only at h
    rw [Res.bind_eq_ok] at h
    obtain ⟨tagNs, _, h⟩ := h
    rw [Res.bind_eq_ok] at h
    obtain ⟨⟨c3, newId⟩, h3, h⟩ := h
    res_norm at h
    subst h
    obtain ⟨hid, hm3⟩ := mcore_appendElem hm hb2 hn hp haf hld hnew (hsl.trans hcur) hle h3
    rw [htag, hi.tag] at hm3
    refine ⟨hm3.ld, hid, ?_, hm3.good, hm3.pend.none⟩
    show ChainO _ (out.length :: ids)
    cases ids with
    | nil => trivial
    | cons j rest =>
      refine ⟨⟨YKind.elem tn.nameSpan.bytes avs, ?_⟩, hm3.chain⟩
      rw [List.getElem?_append_right (Nat.le_refl _)]
      simp [AS.top]

/-- `process_element` for `/>` -/
theorem mb_empty {stk : List QP} {tn : TagName} {seen : List QP} {out : List V} {ids : List Nat}
    {avs : List (Bytes × Bytes)} {c c' : Ctx} {r : Range} (hi : TInv stk tn seen c)
    (hm : MCore ⟨out, none, ids⟩ c)
    (hcur : (c.curAttrs.map fun x => (x.loc.bytes, x.value.bytes)) = avs)
    (h : processElement txt c .empty r = .ok c') :
    MCore ⟨out ++ [(some (AS.top ⟨out, none, ids⟩), .elem tn.nameSpan.bytes avs)], none, ids⟩ c' := by
  unfold processElement at h
  split at h
  · simp at h
  · rw [Res.bind_eq_ok] at h
    obtain ⟨⟨c1, nss⟩, h1, h⟩ := h
    try dsimp only at h
    rw [Res.bind_eq_ok] at h
    obtain ⟨⟨c2, attrs⟩, h2, h⟩ := h
    obtain ⟨hb2, hn, hp, haf, hld, htag, hnew, hsl, hle⟩ := mb_prelude hi.core.binv h1 h2
    clear h1 h2
    try dsimp only at h
    rw [Res.bind_eq_ok] at h
    obtain ⟨tagNs, _, h⟩ := h
    rw [Res.bind_eq_ok] at h
    obtain ⟨⟨c3, newId⟩, h3, h⟩ := h
    res_norm at h
    subst h
    obtain ⟨_, hm3⟩ := mcore_appendElem hm hb2 hn hp haf hld hnew (hsl.trans hcur) hle h3
    rw [htag, hi.tag] at hm3
    exact hm3.congr rfl rfl rfl rfl

variable (lower : Token → Ctx → Res Ctx)

/-- `ElementStart`: the text run in progress is finished, the tag name recorded -/
theorem mb_tok_start {stk : List QP} {a : AS} {c c' : Ctx} {p l : Span} {st : Nat}
    (hg : GInv stk c) (hm : MCore a c)
    (h : tokenStep T txt lower (.elementStart p l st) c = .ok c') :
    MTInv ⟨a.flushed, none, a.stk⟩ [] c' := by
  unfold tokenStep at h
  dsimp only at h
  rw [Res.bind_eq_ok] at h
  obtain ⟨c1, h1, h⟩ := h
  obtain ⟨hm1, hcur, _⟩ := mcore_logreset hm h1
  split at h
  · exact absurd h (errPos_ne_ok _ _ _ _)
  · res_norm at h
    subst h
    refine ⟨hm1.congr rfl rfl rfl rfl, rfl, ?_⟩
    show List.map _ c1.curAttrs = _
    rw [hcur, hg.cur]
    rfl

/-- one `Attribute` token -/
theorem mb_tok_attr (hN : NormOk T txt) {stk : List QP} {tn : TagName} {seen : List QP} {a : AS}
    {seenA : List AttrC} {c c' : Ctx} {at_ : AttrC} {r : Range} {q e : Nat} {pfx loc v : Span}
    (hi : TInv stk tn seen c) (hm : MTInv a seenA c)
    (hat : AttrTok at_ (.attribute r q e pfx loc v)) (hlt : bLt ∉ v.bytes)
    (h : tokenStep T txt lower (.attribute r q e pfx loc v) c = .ok c') :
    MTInv a (seenA ++ [at_]) c' := by
  unfold tokenStep at h
  dsimp only at h
  have hm0 : MTInv a seenA (c.log (.token (.attribute r q e pfx loc v))) :=
    ⟨hm.core.congr rfl rfl rfl rfl, hm.pnone, hm.cur⟩
  exact mb_attr T txt hN (c := c.log (.token (.attribute r q e pfx loc v))) hi.core.ents hm0 hat hlt h

/-- the attribute tokens of a start tag (`TInv` is carried along with `gb_tok_attr`) -/
theorem mb_attrs (hN : NormOk T txt)
    (hB : ∀ t c c', BInv c → tokenStep T txt lower t c = .ok c' → BInv c')
    {stk : List QP} {tn : TagName} {a : AS} :
    ∀ (attrs : List AttrC) (ats : List Token), AttrToks attrs ats → (∀ x ∈ attrs, bLt ∉ x.v) →
      ∀ (seen : List QP) (seenA : List AttrC) (c c' : Ctx), TInv stk tn seen c → MTInv a seenA c →
        feed (tokenStep T txt lower) ats c = .ok c' → MTInv a (seenA ++ attrs) c' := by
  intro attrs ats hat
  induction hat with
  | nil =>
    intro _ seen seenA c c' _ hm h
    simp only [feed, Res.ok.injEq] at h
    subst h
    rw [List.append_nil]
    exact hm
  | cons x t as ts hat _ ih =>
    intro hlt seen seenA c c' hi hm h
    simp only [feed] at h
    split at h
    · rename_i c1 h1
      have hb1 := hB _ _ _ hi.core.binv h1
      cases t with
      | «attribute» r q e pfx loc v =>
        have hlt1 : bLt ∉ v.bytes := by rw [hat.2]; exact hlt x (by simp)
        obtain ⟨hi1, _⟩ := gb_tok_attr T txt lower hi hb1 hlt1 h1
        have hm1 := mb_tok_attr T txt lower hN hi hm hat hlt1 h1
        have := ih (fun b hb => hlt b (by simp [hb])) _ _ _ _ hi1 hm1 h
        rw [List.append_assoc] at this
        exact this
      | _ => exact absurd hat (by simp [AttrTok])
    · simp at h
    · simp at h
    · simp at h

/-- `ElementEnd(Open)`: the element node is appended and becomes the current parent -/
theorem mb_tok_open {stk : List QP} {tn : TagName} {seen : List QP} {out : List V}
    {ids : List Nat} {seenA : List AttrC} {c c' : Ctx} {r : Range}
    (hi : TInv stk tn seen c) (hm : MTInv ⟨out, none, ids⟩ seenA c)
    (h : tokenStep T txt lower (.elementEnd .open r) c = .ok c') :
    MCore ⟨out ++ [(some (AS.top ⟨out, none, ids⟩), .elem tn.nameSpan.bytes (attrsOfC seenA))], none,
      out.length :: ids⟩ c' := by
  unfold tokenStep at h
  dsimp only at h
  rw [Res.bind_eq_ok] at h
  obtain ⟨c1, h1, h⟩ := h
  obtain ⟨hm1, hcur1, _⟩ := mcore_logreset hm.core h1
  rw [flushed_none] at hm1
  exact mb_open txt (gb_treset hi h1) hm1 (by rw [hcur1]; exact hm.cur) h

/-- `ElementEnd(Empty)`: the element node is appended, the current parent stays -/
theorem mb_tok_empty {stk : List QP} {tn : TagName} {seen : List QP} {out : List V}
    {ids : List Nat} {seenA : List AttrC} {c c' : Ctx} {r : Range}
    (hi : TInv stk tn seen c) (hm : MTInv ⟨out, none, ids⟩ seenA c)
    (h : tokenStep T txt lower (.elementEnd .empty r) c = .ok c') :
    MCore ⟨out ++ [(some (AS.top ⟨out, none, ids⟩), .elem tn.nameSpan.bytes (attrsOfC seenA))], none,
      ids⟩ c' := by
  unfold tokenStep at h
  dsimp only at h
  rw [Res.bind_eq_ok] at h
  obtain ⟨c1, h1, h⟩ := h
  obtain ⟨hm1, hcur1, _⟩ := mcore_logreset hm.core h1
  rw [flushed_none] at hm1
  exact mb_empty txt (gb_treset hi h1) hm1 (by rw [hcur1]; exact hm.cur) h

end

end Rox.Lemmas.MB
