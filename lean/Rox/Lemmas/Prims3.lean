/-
  Rox.Lemmas.Prims3 — qualified names, references, `is_xml_str`.
-/
import Rox.Lemmas.Prims2

namespace Rox.Lemmas
open Rox

section
variable (T : Tables) (txt : Bytes)

/-- The scanning loop of `consume_qname`. -/
theorem qnameLoop_spec (start : Nat) :
    ∀ (fuel : Nat) (s : Stream) (acc : Bytes) (split : Option Nat), s.rest.length < fuel → SOk txt s →
      RSpec (Stream.qnameLoop T txt start fuel s acc split)
        (fun p => ∃ run, Took s p.1 run ∧ SOk txt p.1 ∧ p.2.1 = acc.reverse ++ run ∧
          (∀ sp, p.2.2 = some sp → split = some sp ∨ (s.pos ≤ sp ∧ sp < p.1.pos))) := by
  intro fuel
  induction fuel with
  | zero => intro s acc split h; omega
  | succ n ih =>
    intro s acc split hf hs
    unfold Stream.qnameLoop
    split
    · exact rspec_ok _ _ ⟨[], Took.nil s, hs, by simp, fun sp h => Or.inl h⟩
    · rename_i b r hr
      split
      · rename_i hb
        have hstep := step_ascii hs b r hr hb
        have ht1 : Took s ⟨s.pos + 1, r⟩ [b] := ⟨by rw [hr]; simp, rfl, by rw [hr]; rfl, by rw [hr]; rfl⟩
        split
        · split
          · have := ih ⟨s.pos + 1, r⟩ (b :: acc) (some s.pos) (by rw [hr] at hf; simp at hf ⊢; omega) hstep.2
            refine rspec_weaken this ?_
            rintro ⟨s', out, sp⟩ ⟨run, ht, hso, he, hsp⟩
            refine ⟨b :: run, Took.trans ht1 ht, hso, by simp only at he ⊢; rw [he]; simp, ?_⟩
            intro q hq
            have hle : s.pos + 1 ≤ s'.pos := ht.adv.pos_le
            rcases hsp q hq with h | h
            · simp only [Option.some.injEq] at h; subst h; right; exact ⟨Nat.le_refl _, by simp only; omega⟩
            · right; simp only at h; exact ⟨by omega, h.2⟩
          · exact errFrom_safe _ _ _ _
        · split
          · have := ih ⟨s.pos + 1, r⟩ (b :: acc) split (by rw [hr] at hf; simp at hf ⊢; omega) hstep.2
            refine rspec_weaken this ?_
            rintro ⟨s', out, sp⟩ ⟨run, ht, hso, he, hsp⟩
            refine ⟨b :: run, Took.trans ht1 ht, hso, by simp only at he ⊢; rw [he]; simp, ?_⟩
            intro q hq
            rcases hsp q hq with h | h
            · exact Or.inl h
            · right; simp only at h; exact ⟨by omega, h.2⟩
          · exact rspec_ok _ _ ⟨[], Took.nil s, hs, by simp, fun sp h => Or.inl h⟩
      · obtain ⟨c, w, hd⟩ := decode_some hs b r hr
        simp only [hd]
        split
        · obtain ⟨hw, hstep⟩ := step_char hs c w hd
          have hw1 := (decodeChar_width _ _ _ hd).1
          simp only [hw, if_true]
          have := ih ⟨s.pos + w, s.rest.drop w⟩ ((s.rest.take w).reverse ++ acc) split
            (by simp only [List.length_drop]; omega) hstep.2
          refine rspec_weaken this ?_
          rintro ⟨s', out, sp⟩ ⟨run, ht, hso, he, hsp⟩
          refine ⟨s.rest.take w ++ run, Took.trans (took_char w hw) ht, hso, ?_, ?_⟩
          · simp only at he ⊢
            rw [he]; simp
          · intro q hq
            rcases hsp q hq with h | h
            · exact Or.inl h
            · right; simp only at h; exact ⟨by omega, h.2⟩
        · exact rspec_ok _ _ ⟨[], Took.nil s, hs, by simp, fun sp h => Or.inl h⟩

theorem spanOk_sub {sp : Span} (h : SpanOk txt sp) (i j : Nat) (hij : i ≤ j) (hj : j ≤ sp.bytes.length) :
    SpanOk txt ⟨sp.off + i, (sp.bytes.take j).drop i⟩ := by
  obtain ⟨h1, h2⟩ := h
  unfold SpanOk
  simp only [List.length_drop, List.length_take, Nat.min_eq_left hj]
  refine ⟨?_, by omega⟩
  conv => lhs; rw [h1]
  unfold sliceBytes
  rw [List.take_take, List.drop_take, List.drop_drop]
  have e1 : min j (sp.off + sp.bytes.length - sp.off) = j := by omega
  rw [e1]
  congr 1
  omega

/-- `consume_qname`: a step of the cursor; prefix and local name are slices of the input. -/
theorem consumeQName_spec {s : Stream} (hs : SOk txt s) :
    RSpec (s.consumeQName T txt) (fun p => Step txt s p.1 ∧ SpanOk txt p.2.1 ∧ SpanOk txt p.2.2 ∧
      p.2.2.bytes ≠ []) := by
  unfold Stream.consumeQName
  apply rspec_bind _ _ _ _ (qnameLoop_spec T txt s.pos _ s [] none (by omega) hs)
  rintro ⟨s', all, split⟩ ⟨run, ht, hso, he, hsp⟩
  simp only [List.reverse_nil, List.nil_append] at he
  subst he
  have hall : SpanOk txt ⟨s.pos, all⟩ := ht.spanOk hs
  have hpos : s'.pos = s.pos + all.length := ht.2.1
  simp only
  split
  · rename_i sp
    have hb : s.pos ≤ sp ∧ sp < s'.pos := by
      rcases hsp sp rfl with h | h
      · simp at h
      · exact h
    have hp : SpanOk txt ⟨s.pos, all.take (sp - s.pos)⟩ := by
      have := spanOk_sub txt hall 0 (sp - s.pos) (by omega) (by show sp - s.pos ≤ all.length; omega)
      simpa using this
    have hl : SpanOk txt ⟨sp + 1, all.drop (sp - s.pos + 1)⟩ := by
      have := spanOk_sub txt hall (sp - s.pos + 1) all.length (by show sp - s.pos + 1 ≤ all.length; omega) (Nat.le_refl _)
      simp only [List.take_length] at this
      have e : s.pos + (sp - s.pos + 1) = sp + 1 := by omega
      rw [e] at this; exact this
    split
    · exact errFrom_safe _ _ _ _
    · split
      · exact errFrom_safe _ _ _ _
      · rename_i hns
        refine rspec_ok _ _ ⟨⟨ht.adv, hso⟩, hp, hl, ?_⟩
        intro h0
        simp only at h0
        rw [h0] at hns
        simp [Stream.strIsNameStart] at hns
  · have hp : SpanOk txt ⟨s.pos, []⟩ := by
      have := spanOk_sub txt hall 0 0 (Nat.le_refl _) (by simp)
      simpa using this
    split
    · exact errFrom_safe _ _ _ _
    · split
      · exact errFrom_safe _ _ _ _
      · rename_i hns
        refine rspec_ok _ _ ⟨⟨ht.adv, hso⟩, hp, hall, ?_⟩
        intro h0
        simp only at h0
        rw [h0] at hns
        simp [Stream.strIsNameStart] at hns

theorem finishRef_step {s0 s : Stream} (h : Step txt s0 s) (r : Reference) :
    (s.finishRef r).2.isSome → Step txt s0 (s.finishRef r).1 := by
  unfold Stream.finishRef
  split
  · rename_i b r' hr
    split
    · rename_i hb
      have : b = bSemi := by simpa using hb
      subst this
      intro _
      exact Step.trans h (step_ascii h.2 bSemi r' hr (by decide))
    · simp
  · simp

theorem numericRef_step {s0 s : Stream} (h : Step txt s0 s) (isHex : Bool) :
    (s.numericRef T isHex).2.isSome → Step txt s0 (s.numericRef T isHex).1 := by
  have hhex : ∀ b, isHexDigit b = true → b < 128 := by
    intro b hb
    unfold isHexDigit at hb
    simp only [Bool.or_eq_true, Bool.and_eq_true, decide_eq_true_eq] at hb
    have : b ≤ 102 := by
      rcases hb with (⟨_, h⟩ | ⟨_, h⟩) | ⟨_, h⟩
      · exact UInt8.le_trans h (by decide)
      · exact h
      · exact UInt8.le_trans h (by decide)
    exact UInt8.lt_of_le_of_lt this (by decide)
  have hdec : ∀ b, isDecDigit b = true → b < 128 := by
    intro b hb
    unfold isDecDigit at hb
    simp only [Bool.and_eq_true, decide_eq_true_eq] at hb
    exact UInt8.lt_of_le_of_lt hb.2 (by decide)
  unfold Stream.numericRef
  have hsv : Step txt s0 (if isHex then s.consumeBytes isHexDigit else s.consumeBytes isDecDigit).1 := by
    cases isHex
    · exact Step.trans h (spanBytes_ascii_step isDecDigit hdec s.rest s.pos [] h.2)
    · exact Step.trans h (spanBytes_ascii_step isHexDigit hhex s.rest s.pos [] h.2)
  generalize (if isHex then s.consumeBytes isHexDigit else s.consumeBytes isDecDigit) = sv at hsv
  simp only
  split
  · simp
  · rename_i n hn
    generalize (if isScalar n = true then n else 0xFFFD) = c
    by_cases hx : charIsXmlChar T c = true
    · simp only [hx, Bool.not_true, Bool.false_eq_true, if_false]
      exact finishRef_step txt hsv _
    · simp [hx]

/-- `consume_reference`: never panics; when it recognises a reference the cursor has moved over it. -/
theorem consumeReference_spec {s : Stream} (hs : SOk txt s) :
    RSpec (s.consumeReference T txt) (fun p => p.2.isSome → Step txt s p.1) := by
  unfold Stream.consumeReference
  have h1 := tryConsumeByte_step hs bAmp (by decide)
  simp only
  split
  · exact rspec_ok _ _ (by simp)
  · have h2 := Step.trans h1 (tryConsumeByte_step h1.2 bHash (by decide))
    split
    · have h3 := Step.trans h2 (tryConsumeByte_step h2.2 bX (by decide))
      exact rspec_ok _ _ (numericRef_step T txt h3 _)
    · unfold Stream.namedRef
      have hn := consumeName_spec T txt h2.2
      cases hc : (s.tryConsumeByte bAmp).1.tryConsumeByte bHash |>.1.consumeName T txt with
      | err e => exact rspec_ok _ _ (by simp)
      | panic p => rw [hc] at hn; exact absurd hn.safe (by simp [Res.Safe])
      | fuel => rw [hc] at hn; exact absurd hn.safe (by simp [Res.Safe])
      | ok p =>
        obtain ⟨s3, name⟩ := p
        have h3 := Step.trans h2 (hn.post _ hc).1
        exact rspec_ok _ _ (finishRef_step txt h3 _)

/-- `is_xml_str` never panics (positions are computed with `gen_text_pos_from`). -/
theorem isXmlStrAscii_safe : ∀ (l : Bytes) (pos : Nat), RSpec (isXmlStrAscii T txt pos l) (fun _ => True) := by
  intro l
  induction l with
  | nil => intro pos; exact rspec_ok _ _ trivial
  | cons b r ih =>
    intro pos
    simp only [isXmlStrAscii]
    split
    · exact errFrom_safe _ _ _ _
    · exact ih _

theorem isXmlStrUnicode_safe : ∀ (fuel : Nat) (l : Bytes) (pos : Nat), l.length < fuel → ValidUtf8 l →
    RSpec (isXmlStrUnicode T txt fuel pos l) (fun _ => True) := by
  intro fuel
  induction fuel with
  | zero => intro l pos h; omega
  | succ n ih =>
    intro l pos hf hv
    cases l with
    | nil => simp only [isXmlStrUnicode]; exact rspec_ok _ _ trivial
    | cons b r =>
      obtain ⟨c, w, hd, _, hrest⟩ := (valid_cons b r).mp hv
      have hw := decodeChar_width _ _ _ hd
      simp only [List.length_cons] at hw hf
      simp only [isXmlStrUnicode, hd]
      split
      · exact errFrom_safe _ _ _ _
      · exact ih _ _ (by simp only [List.length_drop, List.length_cons]; omega) hrest

theorem isXmlStr_safe (v : Span) (hv : ValidUtf8 v.bytes) : RSpec (isXmlStr T txt v) (fun _ => True) := by
  unfold isXmlStr
  split
  · exact isXmlStrAscii_safe T txt _ _
  · exact isXmlStrUnicode_safe T txt _ _ _ (by omega) hv

end
end Rox.Lemmas
