/-
  Rox.Lemmas.MirrorDefs — the interface between the stages of the proof of
  `Rox.Lemmas.accepted_tree_mirrors` (`Rox.Lemmas.MirrorAll`): the strengthened item/token
  correspondence for processing instructions, and the abstract arena machine `runA` that reads the
  flat list of lexical items (`Rox.Lemmas.GrammarDefs`) and produces the nodes in id order.

    Stage A' (MirrorTok):    `tokenize` succeeds → items with `Lex`, `PiN`, `ItemsToksM`
    Stage B' (MirrorBuild*): the builder's arena, read back with `viewM`, is `(runA initA items).out`
    Stage C' (MirrorAsm):    `(runA initA items).out = (none, root) :: expectAllY 0 1 (docTree x)` for
                             the abstract document `x` assembled from the items
-/
import Rox.Spec.Mirror
import Rox.Lemmas.GrammarDefs

namespace Rox.Lemmas
open Rox Rox.Spec Rox.Spec.Grammar Rox.Spec.Canon4 Rox.Spec.Mirror

/-! ### Processing instructions: what Stage A' adds -/

/-- the value of a PI item does not begin with white space (the tokenizer skips all white space
after the target) -/
def Item.PiN (T : Tables) : Item → Prop
  | .pi _ _ (b :: _) => byteIsSpace T b = false
  | _ => True

/-- the PI token carries the value of the item, `none` for an empty one -/
def PiTok : Item → List Token → Prop
  | .pi _ _ v, ts => ∃ tsp vo r, ts = [Token.pi tsp vo r] ∧
      vo.map Span.bytes = (if v.isEmpty then none else some v)
  | _, _ => True

/-- `ItemsToks` with `PiTok` for every item -/
inductive ItemsToksM : List Item → List Token → Prop where
  | nil : ItemsToksM [] []
  | cons (it : Item) (its : List Item) (ts tss : List Token) :
      ItemToks it ts → PiTok it ts → ItemsToksM its tss → ItemsToksM (it :: its) (ts ++ tss)

theorem ItemsToksM.toItemsToks {its : List Item} {toks : List Token} (h : ItemsToksM its toks) :
    ItemsToks its toks := by
  induction h with
  | nil => exact .nil
  | cons it its ts tss h1 _ _ ih => exact .cons it its ts tss h1 ih

/-! ### The abstract arena machine -/

/-- what `viewM` reads of a node -/
abbrev V := Option Nat × YKind

/-- the attributes of a start tag as the tree shows them -/
def attrsOfC (attrs : List AttrC) : List (Bytes × Bytes) :=
  attrsOf (attrs.map fun a => (a.n, a.v))

/-- state of the abstract machine: the finished nodes in id order (the root node first), the text
run being collected (its node has the next id), the ids of the open elements (innermost first,
the root node `0` last) -/
structure AS where
  out : List V
  pend : Option Bytes
  stk : List Nat

/-- the current parent -/
def AS.top (a : AS) : Nat := a.stk.headD 0

/-- the nodes once the run being collected is finished -/
def AS.flushed (a : AS) : List V :=
  a.out ++ (match a.pend with
            | some t => [(some a.top, YKind.text t)]
            | none => [])

def stepA (a : AS) : Item → AS
  | .sp _ => a
  | .comment b => ⟨a.flushed ++ [(some a.top, .comment b)], none, a.stk⟩
  | .pi t _ v => ⟨a.flushed ++ [(some a.top, .pi t (if v.isEmpty then none else some v))], none, a.stk⟩
  | .cdata b => ⟨a.out, some (a.pend.getD [] ++ lineEnds b), a.stk⟩
  | .text t => ⟨a.out, some (a.pend.getD [] ++ decodeText t), a.stk⟩
  | .stag q attrs _ e =>
    ⟨a.flushed ++ [(some a.top, .elem (qparts q).2 (attrsOfC attrs))], none,
      if e then a.stk else a.flushed.length :: a.stk⟩
  | .etag _ _ => ⟨a.flushed, none, a.stk.tail⟩

def runA : AS → List Item → AS
  | a, [] => a
  | a, it :: r => runA (stepA a it) r

/-- the root node alone -/
def initA : AS := ⟨[(none, YKind.root)], none, [0]⟩

theorem runA_append (a : AS) (l1 l2 : List Item) : runA a (l1 ++ l2) = runA (runA a l1) l2 := by
  induction l1 generalizing a with
  | nil => rfl
  | cons x r ih => exact ih (stepA a x)

end Rox.Lemmas
