/-
  Rox.Lemmas.LimitMono — C15: raising `nodes_limit` never changes the result of a parse that did
  not hit the limit.
-/
import Rox.Parse
import Rox.Lemmas.Size

namespace Rox.Lemmas
open Rox

namespace LimitMono

/-- The same context with another limit. -/
def wl (L' : Nat) (c : Ctx) : Ctx := { c with nodesLimit := L' }

/-- `wl` on the context component of a pair `(ctx, x)`. -/
def wl1 {β} (L' : Nat) (p : Ctx × β) : Ctx × β := (wl L' p.1, p.2)

/-- `wl` on the context component of a pair `(x, ctx)`. -/
def wl2 {β} (L' : Nat) (p : β × Ctx) : β × Ctx := (p.1, wl L' p.2)

def mapL {α β} (f : α → β) : Res α → Res β
  | .ok a => .ok (f a)
  | .err e => .err e
  | .panic s => .panic s
  | .fuel => .fuel

/-- The simulation: unless the run `r` (small limit) stops with `NodesLimitReached`, the run `r'`
(large limit) gives the same outcome, up to `w` (which resets the limit field). -/
def SimR {α} (w : α → α) (r r' : Res α) : Prop :=
  r ≠ .err .nodesLimitReached → r' = mapL w r

theorem SimR.of_eq {α} {w : α → α} {r r' : Res α} (h : r' = mapL w r) : SimR w r r' := fun _ => h

theorem SimR.bind {α β} {w : α → α} {w2 : β → β} {m m' : Res α} {k k' : α → Res β}
    (hm : SimR w m m') (hk : ∀ a, m = .ok a → SimR w2 (k a) (k' (w a))) :
    SimR w2 (m >>= k) (m' >>= k') := by
  intro h
  cases m with
  | ok a =>
    have := hm (by simp)
    subst this
    exact hk a rfl h
  | err e =>
    have := hm (by intro h'; apply h; rw [h']; rfl)
    subst this; rfl
  | panic s => have := hm (by simp); subst this; rfl
  | fuel => have := hm (by simp); subst this; rfl

theorem SimR.bind_same {α β} {w2 : β → β} {m : Res α} {k k' : α → Res β}
    (hk : ∀ a, m = .ok a → SimR w2 (k a) (k' a)) :
    SimR w2 (m >>= k) (m >>= k') := by
  intro h
  cases m with
  | ok a => exact hk a rfl h
  | err e => rfl
  | panic s => rfl
  | fuel => rfl

theorem mapL_bind_congr {α β γ} {w : β → γ} {m : Res α} {k : α → Res γ} {k' : α → Res β}
    (hk : ∀ a, k a = mapL w (k' a)) : (m >>= k) = mapL w (m >>= k') := by
  cases m with
  | ok a => exact hk a
  | err e => rfl
  | panic s => rfl
  | fuel => rfl

@[simp] theorem wl_positions (L' : Nat) (c : Ctx) : (wl L' c).positions = c.positions := rfl
@[simp] theorem wl_nsStartIdx (L' : Nat) (c : Ctx) : (wl L' c).nsStartIdx = c.nsStartIdx := rfl
@[simp] theorem wl_curAttrs (L' : Nat) (c : Ctx) : (wl L' c).curAttrs = c.curAttrs := rfl
@[simp] theorem wl_awaiting (L' : Nat) (c : Ctx) : (wl L' c).awaiting = c.awaiting := rfl
@[simp] theorem wl_parentPrefixes (L' : Nat) (c : Ctx) : (wl L' c).parentPrefixes = c.parentPrefixes := rfl
@[simp] theorem wl_entityFloor (L' : Nat) (c : Ctx) : (wl L' c).entityFloor = c.entityFloor := rfl
@[simp] theorem wl_entities (L' : Nat) (c : Ctx) : (wl L' c).entities = c.entities := rfl
@[simp] theorem wl_afterText (L' : Nat) (c : Ctx) : (wl L' c).afterText = c.afterText := rfl
@[simp] theorem wl_parentId (L' : Nat) (c : Ctx) : (wl L' c).parentId = c.parentId := rfl
@[simp] theorem wl_tagName (L' : Nat) (c : Ctx) : (wl L' c).tagName = c.tagName := rfl
@[simp] theorem wl_ld (L' : Nat) (c : Ctx) : (wl L' c).ld = c.ld := rfl
@[simp] theorem wl_doc (L' : Nat) (c : Ctx) : (wl L' c).doc = c.doc := rfl
@[simp] theorem wl_trace (L' : Nat) (c : Ctx) : (wl L' c).trace = c.trace := rfl
@[simp] theorem wl_maxDepth (L' : Nat) (c : Ctx) : (wl L' c).maxDepth = c.maxDepth := rfl
@[simp] theorem wl_nodesLimit (L' : Nat) (c : Ctx) : (wl L' c).nodesLimit = L' := rfl

macro "wl_proj" : tactic => `(tactic| simp +instances only [wl_positions, wl_nsStartIdx, wl_curAttrs, wl_awaiting, wl_parentPrefixes, wl_entityFloor, wl_entities, wl_afterText, wl_parentId, wl_tagName, wl_ld, wl_doc, wl_trace, wl_maxDepth])

theorem mapL_bind_congr2 {α β} {w : α → α} {w2 : β → β} {m : Res α} {k k' : α → Res β}
    (hk : ∀ a, k (w a) = mapL w2 (k' a)) : (mapL w m >>= k) = mapL w2 (m >>= k') := by
  cases m with
  | ok a => exact hk a
  | err e => rfl
  | panic s => rfl
  | fuel => rfl

theorem mapL_bind_congr2p {β γ} {L' : Nat} {w2 : γ → γ} {m : Res (Ctx × β)} {k k' : Ctx × β → Res γ}
    (hk : ∀ a b, k (wl L' a, b) = mapL w2 (k' (a, b))) :
    (mapL (wl1 L') m >>= k) = mapL w2 (m >>= k') := by
  cases m with
  | ok a => exact hk a.1 a.2
  | err e => rfl
  | panic s => rfl
  | fuel => rfl

theorem mapL_errPos {α β} (w : α → β) (txt : Bytes) (mk : TextPos → Err) (p : Nat) :
    (errPos txt mk p : Res β) = mapL w (errPos txt mk p) := by
  unfold errPos errFrom; split <;> rfl

theorem mapL_errFrom {α β} (w : α → β) (txt : Bytes) (mk : TextPos → Err) (p : Nat) :
    (errFrom txt mk p : Res β) = mapL w (errFrom txt mk p) := by
  unfold errFrom; split <;> rfl

theorem mapL_errAt {α β} (w : α → β) (txt : Bytes) (mk : TextPos → Err) (p : Nat) :
    (errAt txt mk p : Res β) = mapL w (errAt txt mk p) := by
  unfold errAt; split <;> rfl

theorem log_wl (L' : Nat) (c : Ctx) (e : Ev) : (wl L' c).log e = wl L' (c.log e) := rfl

theorem nodeAt_wl (L' : Nat) (c : Ctx) (i : Nat) : (wl L' c).nodeAt i = c.nodeAt i := rfl

theorem setNode_wl (L' : Nat) (c : Ctx) (i : Nat) (n : NodeData) :
    (wl L' c).setNode i n = wl L' (c.setNode i n) := rfl

macro "wl_norm" : tactic =>
  `(tactic| (try dsimp +instances only
             try simp +instances only [log_wl, nodeAt_wl, setNode_wl, wl_positions, wl_nsStartIdx, wl_curAttrs, wl_awaiting, wl_parentPrefixes, wl_entityFloor, wl_entities, wl_afterText, wl_parentId, wl_tagName, wl_ld, wl_doc, wl_trace, wl_maxDepth]))

/-- case bash for the functions that never look at the limit -/
macro "lim_bash" : tactic =>
  `(tactic| repeat' (first
      | rfl
      | exact mapL_errPos _ _ _ _
      | exact mapL_errFrom _ _ _ _
      | exact mapL_errAt _ _ _ _
      | (refine mapL_bind_congr (fun _ => ?_); wl_norm)
      | (refine mapL_bind_congr2p (fun _ _ => ?_); wl_norm)
      | (refine mapL_bind_congr2 (fun _ => ?_); wl_norm)
      | (split <;> try simp only [*, ↓reduceIte, Bool.false_eq_true, reduceCtorEq])))

theorem mergeText_wl (L' : Nat) (c : Ctx) : (wl L' c).mergeText = mapL (wl L') c.mergeText := by
  unfold Ctx.mergeText
  wl_proj
  lim_bash

theorem resetAfterText_wl (L' : Nat) (c : Ctx) :
    (wl L' c).resetAfterText = mapL (wl L') c.resetAfterText := by
  unfold Ctx.resetAfterText
  wl_proj
  simp only [mergeText_wl]
  lim_bash

theorem resolveNamespaces_wl (L' : Nat) (c : Ctx) :
    resolveNamespaces (wl L' c) = mapL (wl1 L') (resolveNamespaces c) := by
  unfold resolveNamespaces
  simp only [nodeAt_wl]
  wl_proj
  lim_bash

theorem resolveAttributes_wl (txt : Bytes) (L' : Nat) (c : Ctx) (nss : Range) :
    resolveAttributes txt (wl L' c) nss = mapL (wl1 L') (resolveAttributes txt c nss) := by
  unfold resolveAttributes
  wl_proj
  lim_bash

theorem normalizeAttribute_wl (T : Tables) (txt : Bytes) (L' : Nat) (c : Ctx) (v : Span) :
    normalizeAttribute T txt (wl L' c) v = mapL (wl1 L') (normalizeAttribute T txt c v) := by
  unfold normalizeAttribute
  wl_proj
  lim_bash

theorem processAttribute_wl (T : Tables) (txt : Bytes) (L' : Nat) (c : Ctx) (r : Range) (q e : Nat)
    (pfx loc v : Span) :
    processAttribute T txt (wl L' c) r q e pfx loc v =
      mapL (wl L') (processAttribute T txt c r q e pfx loc v) := by
  unfold processAttribute
  simp only [normalizeAttribute_wl]
  lim_bash

/-! ### The functions that reach `append_node` -/

theorem SimR.bindp {β γ} {L' : Nat} {w2 : γ → γ} {m m' : Res (Ctx × β)} {k k' : Ctx × β → Res γ}
    (hm : SimR (wl1 L') m m') (hk : ∀ a b, m = .ok (a, b) → SimR w2 (k (a, b)) (k' (wl L' a, b))) :
    SimR w2 (m >>= k) (m' >>= k') :=
  SimR.bind hm (fun a h => hk a.1 a.2 h)

theorem appendNode_sim (L' : Nat) (c : Ctx) (k : Kind) (r : Range) (hL : c.nodesLimit ≤ L') :
    SimR (wl1 L') (c.appendNode k r) ((wl L' c).appendNode k r) := by
  intro h
  unfold Ctx.appendNode at h ⊢
  split at h
  · exact absurd rfl h
  · rename_i h1
    have h2 : ¬ ((wl L' c).doc.nodes.size ≥ (wl L' c).nodesLimit) := by
      show ¬ (c.doc.nodes.size ≥ L'); omega
    rw [if_neg h1, if_neg h2]
    clear h h1 h2 hL
    wl_norm
    lim_bash

theorem appendText_sim (L' : Nat) (c : Ctx) (t : Str) (r : Range) (hL : c.nodesLimit ≤ L') :
    SimR (wl L') (c.appendText t r) ((wl L' c).appendText t r) := by
  unfold Ctx.appendText
  wl_norm
  split
  · refine SimR.bind (SimR.bindp (appendNode_sim L' _ _ _ hL) (fun a b _ => SimR.of_eq rfl))
      (fun a _ => SimR.of_eq rfl)
  · exact SimR.of_eq rfl

end LimitMono

/-- **Monotonicity in the limit** (all inputs, all other options): unless the parse with limit `L`
fails with `NodesLimitReached`, the parse with any larger limit `L'` returns exactly the same
result (the same document, or the same error). -/
theorem parse_limit_mono (T : Tables) (txt : Bytes) (opt : Opt) (L L' : Nat) (hle : L ≤ L')
    (h : parse T txt { opt with nodesLimit := L } ≠ .err .nodesLimitReached) :
    parse T txt { opt with nodesLimit := L' } = parse T txt { opt with nodesLimit := L } := by
  sorry

end Rox.Lemmas
