/-
  Rox.Lemmas.LimitMono — C15: raising `nodes_limit` never changes the result of a parse that did
  not hit the limit.
-/
import Rox.Parse
import Rox.Lemmas.Size

namespace Rox.Lemmas
open Rox

namespace LimitMono

/-- The same context with another limit. -/
@[reducible] def wl (L' : Nat) (c : Ctx) : Ctx := { c with nodesLimit := L' }

/-- `wl` on the context component of a pair `(ctx, x)`. -/
def wl1 {β} (L' : Nat) (p : Ctx × β) : Ctx × β := (wl L' p.1, p.2)

/-- `wl` on the context component of a pair `(x, ctx)`. -/
def wl2 {β} (L' : Nat) (p : β × Ctx) : β × Ctx := (p.1, wl L' p.2)

def mapL {α β} (f : α → β) : Res α → Res β
  | .ok a => .ok (f a)
  | .err e => .err e
  | .panic s => .panic s
  | .fuel => .fuel

/-- The simulation: unless the run `r` (small limit) stops with `NodesLimitReached`, the run `r'`
(large limit) gives the same outcome, up to `w` (which resets the limit field). -/
def SimR {α} (w : α → α) (r r' : Res α) : Prop :=
  r ≠ .err .nodesLimitReached → r' = mapL w r

theorem SimR.of_eq {α} {w : α → α} {r r' : Res α} (h : r' = mapL w r) : SimR w r r' := fun _ => h

theorem SimR.bind {α β} {w : α → α} {w2 : β → β} {m m' : Res α} {k k' : α → Res β}
    (hm : SimR w m m') (hk : ∀ a, m = .ok a → SimR w2 (k a) (k' (w a))) :
    SimR w2 (m >>= k) (m' >>= k') := by
  intro h
  cases m with
  | ok a =>
    have := hm (by simp)
    subst this
    exact hk a rfl h
  | err e =>
    have := hm (by intro h'; apply h; rw [h']; rfl)
    subst this; rfl
  | panic s => have := hm (by simp); subst this; rfl
  | fuel => have := hm (by simp); subst this; rfl

theorem SimR.bind_same {α β} {w2 : β → β} {m : Res α} {k k' : α → Res β}
    (hk : ∀ a, m = .ok a → SimR w2 (k a) (k' a)) :
    SimR w2 (m >>= k) (m >>= k') := by
  intro h
  cases m with
  | ok a => exact hk a rfl h
  | err e => rfl
  | panic s => rfl
  | fuel => rfl

theorem mapL_bind_congr {α β γ} {w : β → γ} {m : Res α} {k : α → Res γ} {k' : α → Res β}
    (hk : ∀ a, k a = mapL w (k' a)) : (m >>= k) = mapL w (m >>= k') := by
  cases m with
  | ok a => exact hk a
  | err e => rfl
  | panic s => rfl
  | fuel => rfl

theorem wl_positions (L' : Nat) (c : Ctx) : (wl L' c).positions = c.positions := rfl
theorem wl_nsStartIdx (L' : Nat) (c : Ctx) : (wl L' c).nsStartIdx = c.nsStartIdx := rfl
theorem wl_curAttrs (L' : Nat) (c : Ctx) : (wl L' c).curAttrs = c.curAttrs := rfl
theorem wl_awaiting (L' : Nat) (c : Ctx) : (wl L' c).awaiting = c.awaiting := rfl
theorem wl_parentPrefixes (L' : Nat) (c : Ctx) : (wl L' c).parentPrefixes = c.parentPrefixes := rfl
theorem wl_entityFloor (L' : Nat) (c : Ctx) : (wl L' c).entityFloor = c.entityFloor := rfl
theorem wl_entities (L' : Nat) (c : Ctx) : (wl L' c).entities = c.entities := rfl
theorem wl_afterText (L' : Nat) (c : Ctx) : (wl L' c).afterText = c.afterText := rfl
theorem wl_parentId (L' : Nat) (c : Ctx) : (wl L' c).parentId = c.parentId := rfl
theorem wl_tagName (L' : Nat) (c : Ctx) : (wl L' c).tagName = c.tagName := rfl
theorem wl_ld (L' : Nat) (c : Ctx) : (wl L' c).ld = c.ld := rfl
theorem wl_doc (L' : Nat) (c : Ctx) : (wl L' c).doc = c.doc := rfl
theorem wl_trace (L' : Nat) (c : Ctx) : (wl L' c).trace = c.trace := rfl
theorem wl_maxDepth (L' : Nat) (c : Ctx) : (wl L' c).maxDepth = c.maxDepth := rfl
theorem wl_nodesLimit (L' : Nat) (c : Ctx) : (wl L' c).nodesLimit = L' := rfl

theorem mapL_bind_congr2 {α β} {w : α → α} {w2 : β → β} {m : Res α} {k k' : α → Res β}
    (hk : ∀ a, k (w a) = mapL w2 (k' a)) : (mapL w m >>= k) = mapL w2 (m >>= k') := by
  cases m with
  | ok a => exact hk a
  | err e => rfl
  | panic s => rfl
  | fuel => rfl

theorem mapL_bind_congr2p {β γ} {L' : Nat} {w2 : γ → γ} {m : Res (Ctx × β)} {k k' : Ctx × β → Res γ}
    (hk : ∀ a b, k (wl L' a, b) = mapL w2 (k' (a, b))) :
    (mapL (wl1 L') m >>= k) = mapL w2 (m >>= k') := by
  cases m with
  | ok a => exact hk a.1 a.2
  | err e => rfl
  | panic s => rfl
  | fuel => rfl

theorem mapL_errPos {α β} (w : α → β) (txt : Bytes) (mk : TextPos → Err) (p : Nat) :
    (errPos txt mk p : Res β) = mapL w (errPos txt mk p) := by
  unfold errPos errFrom; split <;> rfl

theorem mapL_errFrom {α β} (w : α → β) (txt : Bytes) (mk : TextPos → Err) (p : Nat) :
    (errFrom txt mk p : Res β) = mapL w (errFrom txt mk p) := by
  unfold errFrom; split <;> rfl

theorem mapL_errAt {α β} (w : α → β) (txt : Bytes) (mk : TextPos → Err) (p : Nat) :
    (errAt txt mk p : Res β) = mapL w (errAt txt mk p) := by
  unfold errAt; split <;> rfl

theorem log_wl (L' : Nat) (c : Ctx) (e : Ev) : (wl L' c).log e = wl L' (c.log e) := rfl

theorem nodeAt_wl (L' : Nat) (c : Ctx) (i : Nat) : (wl L' c).nodeAt i = c.nodeAt i := rfl

theorem setNode_wl (L' : Nat) (c : Ctx) (i : Nat) (n : NodeData) :
    (wl L' c).setNode i n = wl L' (c.setNode i n) := rfl

macro "wl_norm" : tactic =>
  `(tactic| (try dsimp +instances only [wl1, wl2, Ctx.log, Ctx.setNode]
             try simp +instances only [log_wl, nodeAt_wl, setNode_wl, wl_positions, wl_nsStartIdx, wl_curAttrs, wl_awaiting, wl_parentPrefixes, wl_entityFloor, wl_entities, wl_afterText, wl_parentId, wl_tagName, wl_ld, wl_doc, wl_trace, wl_maxDepth]))

/-- case bash for the functions that never look at the limit -/
macro "lim_bash" : tactic =>
  `(tactic| repeat' (first
      | rfl
      | exact mapL_errPos _ _ _ _
      | exact mapL_errFrom _ _ _ _
      | exact mapL_errAt _ _ _ _
      | (refine mapL_bind_congr (fun _ => ?_); wl_norm)
      | (refine mapL_bind_congr2p (fun _ _ => ?_); wl_norm)
      | (refine mapL_bind_congr2 (fun _ => ?_); wl_norm)
      | (split <;> try simp only [*, ↓reduceIte, Bool.false_eq_true, reduceCtorEq])))

theorem mergeText_wl (L' : Nat) (c : Ctx) : (wl L' c).mergeText = mapL (wl L') c.mergeText := by
  unfold Ctx.mergeText
  wl_norm
  lim_bash

theorem resetAfterText_wl (L' : Nat) (c : Ctx) :
    (wl L' c).resetAfterText = mapL (wl L') c.resetAfterText := by
  unfold Ctx.resetAfterText
  wl_norm
  simp only [mergeText_wl]
  lim_bash

theorem resolveNamespaces_wl (L' : Nat) (c : Ctx) :
    resolveNamespaces (wl L' c) = mapL (wl1 L') (resolveNamespaces c) := by
  unfold resolveNamespaces
  simp only [nodeAt_wl]
  wl_norm
  lim_bash

theorem resolveAttributes_wl (txt : Bytes) (L' : Nat) (c : Ctx) (nss : Range) :
    resolveAttributes txt (wl L' c) nss = mapL (wl1 L') (resolveAttributes txt c nss) := by
  unfold resolveAttributes
  wl_norm
  lim_bash

theorem normalizeAttribute_wl (T : Tables) (txt : Bytes) (L' : Nat) (c : Ctx) (v : Span) :
    normalizeAttribute T txt (wl L' c) v = mapL (wl1 L') (normalizeAttribute T txt c v) := by
  unfold normalizeAttribute
  wl_norm
  lim_bash

theorem processAttribute_wl (T : Tables) (txt : Bytes) (L' : Nat) (c : Ctx) (r : Range) (q e : Nat)
    (pfx loc v : Span) :
    processAttribute T txt (wl L' c) r q e pfx loc v =
      mapL (wl L') (processAttribute T txt c r q e pfx loc v) := by
  unfold processAttribute
  simp only [normalizeAttribute_wl]
  lim_bash

/-! ### The functions that reach `append_node` -/

theorem SimR.bindp {β γ} {L' : Nat} {w2 : γ → γ} {m m' : Res (Ctx × β)} {k k' : Ctx × β → Res γ}
    (hm : SimR (wl1 L') m m') (hk : ∀ a b, m = .ok (a, b) → SimR w2 (k (a, b)) (k' (wl L' a, b))) :
    SimR w2 (m >>= k) (m' >>= k') :=
  SimR.bind hm (fun a h => hk a.1 a.2 h)

theorem appendNode_sim (L' : Nat) (c : Ctx) (k : Kind) (r : Range) (hL : c.nodesLimit ≤ L') :
    SimR (wl1 L') (c.appendNode k r) ((wl L' c).appendNode k r) := by
  intro h
  unfold Ctx.appendNode at h ⊢
  split at h
  · exact absurd rfl h
  · rename_i h1
    have h2 : ¬ ((wl L' c).doc.nodes.size ≥ (wl L' c).nodesLimit) := by
      show ¬ (c.doc.nodes.size ≥ L'); omega
    rw [if_neg h1, if_neg h2]
    clear h h1 h2 hL
    wl_norm
    lim_bash

macro "sim_split" : tactic =>
  `(tactic| (split <;> try (rename_i hsplit; simp only [hsplit, ↓reduceIte, Bool.false_eq_true, reduceCtorEq])))

theorem appendText_sim (L' : Nat) (c : Ctx) (t : Str) (r : Range) (hL : c.nodesLimit ≤ L') :
    SimR (wl L') (c.appendText t r) ((wl L' c).appendText t r) := by
  unfold Ctx.appendText
  wl_norm
  sim_split
  · refine SimR.bind (appendNode_sim L' _ _ _ hL) (fun a _ => ?_)
    exact SimR.of_eq rfl
  · exact SimR.of_eq rfl

theorem processCdata_sim (L' : Nat) (c : Ctx) (t : Span) (r : Range) (hL : c.nodesLimit ≤ L') :
    SimR (wl L') (processCdata c t r) (processCdata (wl L' c) t r) := by
  unfold processCdata
  split <;> exact appendText_sim L' _ _ _ hL

theorem flushBuffer_sim (L' : Nat) (c : Ctx) (b : TextBuffer) (r : Range) (hL : c.nodesLimit ≤ L') :
    SimR (wl L') (flushBuffer c b r) (flushBuffer (wl L' c) b r) := by
  unfold flushBuffer
  split
  · exact SimR.bind_same (fun a _ => appendText_sim L' _ _ _ hL)
  · exact SimR.of_eq rfl

theorem processElement_sim (txt : Bytes) (L' : Nat) (c : Ctx) (e : EndKind) (r : Range)
    (hL : c.nodesLimit ≤ L') :
    SimR (wl L') (processElement txt c e r) (processElement txt (wl L' c) e r) := by
  unfold processElement
  wl_norm
  sim_split
  · sim_split
    · exact SimR.of_eq (mapL_errPos _ _ _ _)
    · exact SimR.of_eq rfl
  · refine SimR.bind (SimR.of_eq (resolveNamespaces_wl L' c)) (fun ⟨c1, nss⟩ h1 => ?_)
    have l1 := (resolveNamespaces_sizeOk _ _ _ h1).1
    wl_norm
    refine SimR.bind (SimR.of_eq (resolveAttributes_wl txt L'
      { c1 with nsStartIdx := c1.doc.ns.treeOrder.size, xmlDeclared := false } nss)) (fun ⟨c2, attrs⟩ h2 => ?_)
    have l2 := (resolveAttributes_sizeOk _ _ _ _ _ h2).1
    have hL2 : c2.nodesLimit ≤ L' := by rw [l2]; dsimp only; rw [l1]; exact hL
    wl_norm
    split
    · refine SimR.bind_same (fun tagNs _ => ?_)
      refine SimR.bind (appendNode_sim L' c2 _ _ hL2) (fun a _ => ?_)
      exact SimR.of_eq rfl
    · refine SimR.of_eq ?_
      lim_bash
    · refine SimR.bind_same (fun tagNs _ => ?_)
      refine SimR.bind (appendNode_sim L' c2 _ _ hL2) (fun a _ => ?_)
      exact SimR.of_eq rfl

theorem feed_cons (step : Token → Ctx → Res Ctx) (t : Token) (ts : List Token) (c : Ctx) :
    feed step (t :: ts) c = (step t c >>= fun c' => feed step ts c') := by
  simp only [feed]; cases step t c <;> rfl

theorem runTokens_eq {α} (step : Token → Ctx → Res Ctx) (toks : List Token) (stop : Res α) (c : Ctx) :
    runTokens step toks stop c =
      (feed step toks c >>= fun c' =>
        match stop with
        | .ok _ => .ok c'
        | .err e => .err e
        | .panic s => .panic s
        | .fuel => .fuel) := by
  unfold runTokens; cases feed step toks c <;> rfl

/-- What the simulation needs from a builder step. -/
def StepOk (L' : Nat) (step : Token → Ctx → Res Ctx) : Prop :=
  (∀ t c, c.nodesLimit ≤ L' → SimR (wl L') (step t c) (step t (wl L' c))) ∧
  (∀ t c c', step t c = .ok c' → SizeOk c c')

theorem feed_sim (L' : Nat) (step : Token → Ctx → Res Ctx) (hstep : StepOk L' step) :
    ∀ (toks : List Token) (c : Ctx), c.nodesLimit ≤ L' →
      SimR (wl L') (feed step toks c) (feed step toks (wl L' c)) := by
  intro toks
  induction toks with
  | nil => intro c _; exact SimR.of_eq rfl
  | cons t ts ih =>
    intro c hL
    rw [feed_cons, feed_cons]
    refine SimR.bind (hstep.1 t c hL) (fun c1 h1 => ?_)
    exact ih c1 (by rw [(hstep.2 _ _ _ h1).1]; exact hL)

theorem runTokens_sim {α} (L' : Nat) (step : Token → Ctx → Res Ctx) (hstep : StepOk L' step)
    (toks : List Token) (stop : Res α) (c : Ctx) (hL : c.nodesLimit ≤ L') :
    SimR (wl L') (runTokens step toks stop c) (runTokens step toks stop (wl L' c)) := by
  rw [runTokens_eq, runTokens_eq]
  refine SimR.bind (feed_sim L' step hstep toks c hL) (fun c1 _ => ?_)
  exact SimR.of_eq (by cases stop <;> rfl)

theorem processTextLoop_sim (T : Tables) (txt : Bytes) (L' : Nat) (lower : Token → Ctx → Res Ctx)
    (hlower : StepOk L' lower) (range : Range) :
    ∀ (fuel : Nat) (s : Stream) (buf : TextBuffer) (c : Ctx), c.nodesLimit ≤ L' →
      SimR (wl2 L') (processTextLoop T txt lower range fuel s buf c)
        (processTextLoop T txt lower range fuel s buf (wl L' c)) := by
  intro fuel
  induction fuel with
  | zero => intro s buf c _; exact SimR.of_eq rfl
  | succ fuel ih =>
    intro s buf c hL
    simp only [processTextLoop]
    wl_norm
    sim_split
    · exact SimR.of_eq rfl
    · refine SimR.bind_same (fun ⟨s1, chunk⟩ _ => ?_)
      wl_norm
      split
      · exact ih _ _ _ hL
      · sim_split
        · exact ih _ _ _ hL
        · exact ih _ _ _ hL
      · refine SimR.bind (flushBuffer_sim L' c buf range hL) (fun c1 h1 => ?_)
        have l1 := (flushBuffer_sizeOk _ _ _ _ h1).1
        have hL1 : c1.nodesLimit ≤ L' := by rw [l1]; exact hL
        wl_norm
        split
        · exact SimR.of_eq (mapL_errAt _ _ _ _)
        · wl_norm
          split
          · exact SimR.of_eq (mapL_errAt _ _ _ _)
          · wl_norm
            refine SimR.bind (runTokens_sim L' lower hlower _ _ _ hL1) (fun c2 h2 => ?_)
            have l2 := (runTokens_sizeOk lower hlower.2 _ _ _ _ h2).1
            have hL2 : c2.nodesLimit ≤ L' := by rw [l2]; exact hL1
            wl_norm
            sim_split
            · exact SimR.of_eq rfl
            · exact ih _ _ _ hL2

theorem processText_sim (T : Tables) (txt : Bytes) (L' : Nat) (lower : Token → Ctx → Res Ctx)
    (hlower : StepOk L' lower) (c : Ctx) (t : Span) (r : Range) (hL : c.nodesLimit ≤ L') :
    SimR (wl L') (processText T txt lower c t r) (processText T txt lower (wl L' c) t r) := by
  unfold processText
  split
  · exact appendText_sim L' _ _ _ hL
  · dsimp only
    refine SimR.bind (processTextLoop_sim T txt L' lower hlower r _ _ _ c hL) (fun ⟨buf, c1⟩ h1 => ?_)
    have l1 := (processTextLoop_sizeOk T txt lower hlower.2 _ _ _ _ _ _ _ h1).1
    exact flushBuffer_sim L' c1 buf r (by rw [l1]; exact hL)

theorem tokenStep_sim (T : Tables) (txt : Bytes) (L' : Nat) (lower : Token → Ctx → Res Ctx)
    (hlower : StepOk L' lower) (t : Token) (c : Ctx) (hL : c.nodesLimit ≤ L') :
    SimR (wl L') (tokenStep T txt lower t c) (tokenStep T txt lower t (wl L' c)) := by
  unfold tokenStep
  dsimp only
  simp only [log_wl]
  have hL0 : (c.log (.token t)).nodesLimit ≤ L' := hL
  generalize c.log (.token t) = c0 at hL0 ⊢
  split
  · refine SimR.bind (SimR.of_eq (resetAfterText_wl L' c0)) (fun c1 h1 => ?_)
    have l1 := (resetAfterText_sizeOk _ _ h1).1
    refine SimR.bind (appendNode_sim L' c1 _ _ (by rw [l1]; exact hL0)) (fun a _ => ?_)
    exact SimR.of_eq rfl
  · refine SimR.bind (SimR.of_eq (resetAfterText_wl L' c0)) (fun c1 h1 => ?_)
    have l1 := (resetAfterText_sizeOk _ _ h1).1
    refine SimR.bind (appendNode_sim L' c1 _ _ (by rw [l1]; exact hL0)) (fun a _ => ?_)
    exact SimR.of_eq rfl
  · exact SimR.of_eq rfl
  · refine SimR.bind (SimR.of_eq (resetAfterText_wl L' c0)) (fun c1 h1 => ?_)
    sim_split
    · exact SimR.of_eq (mapL_errPos _ _ _ _)
    · exact SimR.of_eq rfl
  · exact SimR.of_eq (processAttribute_wl T txt L' c0 _ _ _ _ _ _)
  · refine SimR.bind (SimR.of_eq (resetAfterText_wl L' c0)) (fun c1 h1 => ?_)
    have l1 := (resetAfterText_sizeOk _ _ h1).1
    exact processElement_sim txt L' c1 _ _ (by rw [l1]; exact hL0)
  · exact processText_sim T txt L' lower hlower c0 _ _ hL0
  · exact processCdata_sim L' c0 _ _ hL0

theorem token_stepOk (T : Tables) (txt : Bytes) (L' : Nat) : ∀ d, StepOk L' (token T txt d) := by
  intro d
  induction d with
  | zero => exact ⟨fun t c _ => SimR.of_eq rfl, token_sizeOk T txt 0⟩
  | succ d ih =>
    exact ⟨fun t c hL => tokenStep_sim T txt L' (token T txt d) ih t c hL, token_sizeOk T txt (d + 1)⟩

theorem initCtx_wl (txt : Bytes) (opt : Opt) (L L' : Nat) :
    initCtx txt { opt with nodesLimit := L' } =
      mapL (wl L') (initCtx txt { opt with nodesLimit := L }) := by
  unfold initCtx
  dsimp only
  lim_bash

theorem initCtx_limit (txt : Bytes) (opt : Opt) (c : Ctx) (h : initCtx txt opt = .ok c) :
    c.nodesLimit = opt.nodesLimit := by
  unfold initCtx at h
  rw [Res.bind_eq_ok] at h
  obtain ⟨ns, _, h⟩ := h
  res_norm at h
  subst h
  rfl

theorem finish_wl (L' : Nat) (c : Ctx) : finish (wl L' c) = mapL (wl L') (finish c) := by
  unfold finish
  wl_norm
  lim_bash

theorem parseCtx_sim (T : Tables) (txt : Bytes) (d : Nat) (opt : Opt) (L L' : Nat) (hle : L ≤ L') :
    SimR (wl L') (parseCtx T txt d { opt with nodesLimit := L })
      (parseCtx T txt d { opt with nodesLimit := L' }) := by
  unfold parseCtx
  refine SimR.bind (SimR.of_eq (initCtx_wl txt opt L L')) (fun c0 h0 => ?_)
  have l0 : c0.nodesLimit = L := initCtx_limit _ _ _ h0
  dsimp only
  refine SimR.bind (runTokens_sim L' _ (token_stepOk T txt L' d) _ _ c0 (by rw [l0]; exact hle))
    (fun c1 _ => ?_)
  exact SimR.of_eq (finish_wl L' c1)

end LimitMono

open LimitMono in
/-- **Monotonicity in the limit** (all inputs, all other options): unless the parse with limit `L`
fails with `NodesLimitReached`, the parse with any larger limit `L'` returns exactly the same
result (the same document, or the same error). -/
theorem parse_limit_mono (T : Tables) (txt : Bytes) (opt : Opt) (L L' : Nat) (hle : L ≤ L')
    (h : parse T txt { opt with nodesLimit := L } ≠ .err .nodesLimitReached) :
    parse T txt { opt with nodesLimit := L' } = parse T txt { opt with nodesLimit := L } := by
  have hsim : SimR (fun d : Doc => d) (parse T txt { opt with nodesLimit := L })
      (parse T txt { opt with nodesLimit := L' }) := by
    unfold parse
    refine SimR.bind (parseCtx_sim T txt depthFuel opt L L' hle) (fun c _ => ?_)
    exact SimR.of_eq rfl
  rw [hsim h]
  cases parse T txt { opt with nodesLimit := L } <;> rfl

end Rox.Lemmas
