/-
  Rox.Lemmas.Size — how every builder function acts on (nodes.size, nodesLimit).
-/
import Rox.Parse

namespace Rox.Lemmas
open Rox

/-- What a builder function may do to the size of the arena and to the limit: the limit is kept,
the arena never shrinks, and if it grew it is within the limit. -/
def SizeOk (c c' : Ctx) : Prop :=
  c'.nodesLimit = c.nodesLimit ∧ c.doc.nodes.size ≤ c'.doc.nodes.size ∧
  (c'.doc.nodes.size = c.doc.nodes.size ∨ c'.doc.nodes.size ≤ c'.nodesLimit)

theorem SizeOk.refl (c : Ctx) : SizeOk c c := ⟨rfl, Nat.le_refl _, Or.inl rfl⟩

theorem SizeOk.trans {a b c : Ctx} (h1 : SizeOk a b) (h2 : SizeOk b c) : SizeOk a c := by
  obtain ⟨l1, s1, g1⟩ := h1
  obtain ⟨l2, s2, g2⟩ := h2
  refine ⟨by rw [l2, l1], Nat.le_trans s1 s2, ?_⟩
  rcases g2 with g2 | g2
  · rcases g1 with g1 | g1
    · left; omega
    · right; rw [l2]; omega
  · right; exact g2

/-- Same nodes array size and same limit. -/
theorem SizeOk.of_eq {c c' : Ctx} (hl : c'.nodesLimit = c.nodesLimit)
    (hs : c'.doc.nodes.size = c.doc.nodes.size) : SizeOk c c' := ⟨hl, by omega, Or.inl hs⟩

theorem setNextSubtree_size (new : Nat) : ∀ (l : List Nat) (nodes nodes' : Array NodeData),
    Ctx.setNextSubtree nodes new l = .ok nodes' → nodes'.size = nodes.size := by
  intro l
  induction l with
  | nil => intro nodes nodes' h; simp [Ctx.setNextSubtree] at h; subst h; rfl
  | cons id r ih =>
    intro nodes nodes' h
    simp only [Ctx.setNextSubtree] at h
    split at h
    · simp at h
    · have := ih _ _ h; simpa using this

theorem appendNode_size (c c' : Ctx) (k : Kind) (r : Range) (id : Nat)
    (h : c.appendNode k r = .ok (c', id)) :
    c.doc.nodes.size < c.nodesLimit ∧ c'.doc.nodes.size = c.doc.nodes.size + 1 ∧
    c'.doc.nodes.size ≤ c.nodesLimit ∧ c'.nodesLimit = c.nodesLimit ∧ id = c.doc.nodes.size := by
  unfold Ctx.appendNode at h
  split at h
  · simp at h
  · rename_i hlt
    rw [Res.bind_eq_ok] at h
    obtain ⟨newId, hid, h⟩ := h
    unfold Api.nodeIdNew at hid
    split at hid <;> simp at hid
    subst hid
    simp only at h
    split at h
    · simp at h
    · split at h
      · simp at h
      · split at h
        · simp at h
        · rw [Res.bind_eq_ok] at h
          obtain ⟨nodes', hs, h⟩ := h
          simp only [pure, Res.ok.injEq, Prod.mk.injEq] at h
          obtain ⟨hc, hi⟩ := h
          have hsz := setNextSubtree_size _ _ _ _ hs
          subst hc
          simp only [Array.size_setIfInBounds, Array.size_push] at hsz
          simp [hsz]; omega

theorem appendNode_sizeOk (c c' : Ctx) (k : Kind) (r : Range) (id : Nat)
    (h : c.appendNode k r = .ok (c', id)) : SizeOk c c' := by
  obtain ⟨_, h2, h3, h4, _⟩ := appendNode_size c c' k r id h
  exact ⟨h4, by omega, Or.inr (by rw [h4]; exact h3)⟩

theorem log_sizeOk (c : Ctx) (e : Ev) : SizeOk c (c.log e) := SizeOk.of_eq rfl rfl

theorem setNode_sizeOk (c : Ctx) (i : Nat) (n : NodeData) : SizeOk c (c.setNode i n) :=
  SizeOk.of_eq rfl (by simp [Ctx.setNode])

theorem appendText_sizeOk (c c' : Ctx) (t : Str) (r : Range) (h : c.appendText t r = .ok c') :
    SizeOk c c' := by
  unfold Ctx.appendText at h
  try dsimp only at h
  split at h
  · rw [Res.bind_eq_ok] at h
    obtain ⟨⟨c2, id⟩, h2, h1⟩ := h
    res_norm at h1
    subst h1
    exact SizeOk.trans (log_sizeOk c _) (SizeOk.trans (appendNode_sizeOk _ _ _ _ _ h2) (SizeOk.of_eq rfl rfl))
  · res_norm at h
    subst h
    exact SizeOk.of_eq rfl rfl

theorem mergeText_sizeOk (c c' : Ctx) (h : c.mergeText = .ok c') : SizeOk c c' := by
  unfold Ctx.mergeText at h
  try dsimp only at h
  split at h
  · simp at h
  · split at h
    · simp at h
    · split at h
      · simp only [Res.ok.injEq] at h; subst h; exact setNode_sizeOk _ _ _
      · simp at h

theorem resetAfterText_sizeOk (c c' : Ctx) (h : c.resetAfterText = .ok c') : SizeOk c c' := by
  unfold Ctx.resetAfterText at h
  try dsimp only at h
  split at h
  · simp only [Res.ok.injEq] at h; subst h; exact SizeOk.refl _
  · split at h
    · rw [Res.bind_eq_ok] at h
      obtain ⟨c1, h1, h⟩ := h
      res_norm at h
      subst h
      exact SizeOk.trans (mergeText_sizeOk _ _ h1) (SizeOk.of_eq rfl rfl)
    · res_norm at h; subst h; exact SizeOk.of_eq rfl rfl

theorem resolveNamespaces_sizeOk (c c' : Ctx) (r : Range) (h : resolveNamespaces c = .ok (c', r)) :
    SizeOk c c' := by
  unfold resolveNamespaces at h
  rw [Res.bind_eq_ok] at h
  obtain ⟨p, _, h⟩ := h
  split at h
  · split at h
    · res_norm at h; rw [← h.1]; exact SizeOk.refl _
    · rw [Res.bind_eq_ok] at h
      obtain ⟨ns, _, h⟩ := h
      res_norm at h
      rw [← h.1]; exact SizeOk.of_eq rfl rfl
  · res_norm at h; rw [← h.1]; exact SizeOk.refl _

theorem errPos_ne_ok {α} (txt : Bytes) (mk : TextPos → Err) (p : Nat) (a : α) :
    (errPos txt mk p : Res α) ≠ .ok a := by
  unfold errPos errFrom; split <;> simp

theorem errFrom_ne_ok {α} (txt : Bytes) (mk : TextPos → Err) (p : Nat) (a : α) :
    (errFrom txt mk p : Res α) ≠ .ok a := by
  unfold errFrom; split <;> simp

theorem errAt_ne_ok {α} (txt : Bytes) (mk : TextPos → Err) (p : Nat) (a : α) :
    (errAt txt mk p : Res α) ≠ .ok a := by
  unfold errAt; split <;> simp

theorem resolveAttrsLoop_nodes (txt : Bytes) (pos : Bool) (nss : Range) (st : Nat) :
    ∀ (l : List TempAttr) (d d' : Doc), resolveAttrsLoop txt pos nss st l d = .ok d' →
      d'.nodes = d.nodes := by
  intro l
  induction l with
  | nil => intro d d' h; simp [resolveAttrsLoop] at h; subst h; rfl
  | cons a r ih =>
    intro d d' h
    simp only [resolveAttrsLoop] at h
    rw [Res.bind_eq_ok] at h
    obtain ⟨nsIdx, _, h⟩ := h
    rw [Res.bind_eq_ok] at h
    obtain ⟨en, _, h⟩ := h
    rw [Res.bind_eq_ok] at h
    obtain ⟨dup, _, h⟩ := h
    split at h
    · exact absurd h (errPos_ne_ok _ _ _ _)
    · have := ih _ _ h; simpa using this

theorem resolveAttributes_sizeOk (txt : Bytes) (c c' : Ctx) (nss r : Range)
    (h : resolveAttributes txt c nss = .ok (c', r)) : SizeOk c c' := by
  unfold resolveAttributes at h
  split at h
  · res_norm at h; rw [← h.1]; exact SizeOk.refl _
  · split at h
    · simp at h
    · rw [Res.bind_eq_ok] at h
      obtain ⟨doc, hd, h⟩ := h
      res_norm at h
      have := resolveAttrsLoop_nodes _ _ _ _ _ _ _ hd
      rw [← h.1]
      exact SizeOk.of_eq rfl (by simp [this])

theorem processElement_sizeOk (txt : Bytes) (c c' : Ctx) (e : EndKind) (r : Range)
    (h : processElement txt c e r = .ok c') : SizeOk c c' := by
  unfold processElement at h
  split at h
  · split at h
    · exact absurd h (errPos_ne_ok _ _ _ _)
    · simp at h
  · rw [Res.bind_eq_ok] at h
    obtain ⟨⟨c1, nss⟩, h1, h⟩ := h
    try dsimp only at h
    rw [Res.bind_eq_ok] at h
    obtain ⟨⟨c2, attrs⟩, h2, h⟩ := h
    have s1 := resolveNamespaces_sizeOk _ _ _ h1
    have s2 := resolveAttributes_sizeOk _ _ _ _ _ h2
    have s12 : SizeOk c c2 := SizeOk.trans s1 (SizeOk.trans (SizeOk.of_eq rfl rfl) s2)
    try dsimp only at h
    split at h
    · -- empty
      rw [Res.bind_eq_ok] at h
      obtain ⟨tagNs, _, h⟩ := h
      rw [Res.bind_eq_ok] at h
      obtain ⟨⟨c3, newId⟩, h3, h⟩ := h
      res_norm at h
      subst h
      exact SizeOk.trans s12 (SizeOk.trans (appendNode_sizeOk _ _ _ _ _ h3) (SizeOk.of_eq rfl rfl))
    · -- close
      split at h
      · exact absurd h (errPos_ne_ok _ _ _ _)
      · rw [Res.bind_eq_ok] at h
        obtain ⟨p, _, h⟩ := h
        split at h
        · simp at h
        · split at h
          · exact absurd h (errPos_ne_ok _ _ _ _)
          · split at h
            · res_norm at h
              subst h
              exact SizeOk.trans s12 (SizeOk.of_eq rfl (by simp [Ctx.setNode]))
            · exact absurd h (errPos_ne_ok _ _ _ _)
    · -- open
      rw [Res.bind_eq_ok] at h
      obtain ⟨tagNs, _, h⟩ := h
      rw [Res.bind_eq_ok] at h
      obtain ⟨⟨c3, newId⟩, h3, h⟩ := h
      res_norm at h
      subst h
      exact SizeOk.trans s12 (SizeOk.trans (appendNode_sizeOk _ _ _ _ _ h3) (SizeOk.of_eq rfl rfl))


theorem normalizeAttribute_sizeOk (T : Tables) (txt : Bytes) (c c' : Ctx) (v : Span) (s : Str)
    (h : normalizeAttribute T txt c v = .ok (c', s)) : SizeOk c c' := by
  unfold normalizeAttribute at h
  split at h
  · rw [Res.bind_eq_ok] at h
    obtain ⟨⟨buf, ld, tr⟩, _, h⟩ := h
    rw [Res.bind_eq_ok] at h
    obtain ⟨out, _, h⟩ := h
    res_norm at h
    rw [← h.1]; exact SizeOk.of_eq rfl rfl
  · res_norm at h; rw [← h.1]; exact SizeOk.refl _

theorem processAttribute_sizeOk (T : Tables) (txt : Bytes) (c c' : Ctx) (r : Range) (q e : Nat)
    (pfx loc v : Span) (h : processAttribute T txt c r q e pfx loc v = .ok c') : SizeOk c c' := by
  unfold processAttribute at h
  rw [Res.bind_eq_ok] at h
  obtain ⟨⟨c1, value⟩, h1, h⟩ := h
  have s1 := normalizeAttribute_sizeOk _ _ _ _ _ _ h1
  try dsimp only at h
  split at h
  · split at h
    · exact absurd h (errPos_ne_ok _ _ _ _)
    · split at h
      · exact absurd h (errPos_ne_ok _ _ _ _)
      · try dsimp only at h
        split at h
        · exact absurd h (errPos_ne_ok _ _ _ _)
        · split at h
          · exact absurd h (errPos_ne_ok _ _ _ _)
          · rw [Res.bind_eq_ok] at h
            obtain ⟨ex, _, h⟩ := h
            split at h
            · exact absurd h (errPos_ne_ok _ _ _ _)
            · split at h
              · rw [Res.bind_eq_ok] at h
                obtain ⟨ns, _, h⟩ := h
                res_norm at h; subst h
                exact SizeOk.trans s1 (SizeOk.of_eq rfl rfl)
              · res_norm at h; subst h
                exact SizeOk.trans s1 (SizeOk.of_eq rfl rfl)
  · split at h
    · split at h
      · exact absurd h (errPos_ne_ok _ _ _ _)
      · split at h
        · exact absurd h (errPos_ne_ok _ _ _ _)
        · rw [Res.bind_eq_ok] at h
          obtain ⟨ex, _, h⟩ := h
          split at h
          · exact absurd h (errPos_ne_ok _ _ _ _)
          · rw [Res.bind_eq_ok] at h
            obtain ⟨ns, _, h⟩ := h
            res_norm at h; subst h
            exact SizeOk.trans s1 (SizeOk.of_eq rfl rfl)
    · res_norm at h; subst h
      exact SizeOk.trans s1 (SizeOk.of_eq rfl rfl)

theorem processCdata_sizeOk (c c' : Ctx) (t : Span) (r : Range) (h : processCdata c t r = .ok c') :
    SizeOk c c' := by
  unfold processCdata at h
  split at h <;> exact appendText_sizeOk _ _ _ _ h

theorem flushBuffer_sizeOk (c c' : Ctx) (b : TextBuffer) (r : Range) (h : flushBuffer c b r = .ok c') :
    SizeOk c c' := by
  unfold flushBuffer at h
  split at h
  · rw [Res.bind_eq_ok] at h
    obtain ⟨out, _, h⟩ := h
    exact appendText_sizeOk _ _ _ _ h
  · res_norm at h; subst h; exact SizeOk.refl _

theorem feed_sizeOk (step : Token → Ctx → Res Ctx)
    (hstep : ∀ t c c', step t c = .ok c' → SizeOk c c') :
    ∀ (toks : List Token) (c c' : Ctx), feed step toks c = .ok c' → SizeOk c c' := by
  intro toks
  induction toks with
  | nil => intro c c' h; simp [feed] at h; subst h; exact SizeOk.refl _
  | cons t ts ih =>
    intro c c' h
    simp only [feed] at h
    split at h
    · rename_i c1 h1
      exact SizeOk.trans (hstep _ _ _ h1) (ih _ _ h)
    · simp at h
    · simp at h
    · simp at h

theorem runTokens_sizeOk {α} (step : Token → Ctx → Res Ctx)
    (hstep : ∀ t c c', step t c = .ok c' → SizeOk c c')
    (toks : List Token) (stop : Res α) (c c' : Ctx) (h : runTokens step toks stop c = .ok c') :
    SizeOk c c' := by
  unfold runTokens at h
  split at h
  · rename_i c1 h1
    split at h <;> simp at h
    subst h
    exact feed_sizeOk step hstep _ _ _ h1
  · rename_i hne
    cases hf : feed step toks c <;> simp_all

theorem processTextLoop_sizeOk (T : Tables) (txt : Bytes) (lower : Token → Ctx → Res Ctx)
    (hlower : ∀ t c c', lower t c = .ok c' → SizeOk c c') (range : Range) :
    ∀ (fuel : Nat) (s : Stream) (buf buf' : TextBuffer) (c c' : Ctx),
      processTextLoop T txt lower range fuel s buf c = .ok (buf', c') → SizeOk c c' := by
  intro fuel
  induction fuel with
  | zero => intro s buf buf' c c' h; simp [processTextLoop] at h
  | succ fuel ih =>
    intro s buf buf' c c' h
    simp only [processTextLoop] at h
    split at h
    · res_norm at h; rw [← h.2]; exact SizeOk.refl _
    · rw [Res.bind_eq_ok] at h
      obtain ⟨⟨s1, chunk⟩, _, h⟩ := h
      try dsimp only at h
      split at h
      · exact ih _ _ _ _ _ h
      · try dsimp only at h
        split at h <;> exact ih _ _ _ _ _ h
      · rw [Res.bind_eq_ok] at h
        obtain ⟨c1, hfl, h⟩ := h
        have sfl := flushBuffer_sizeOk _ _ _ _ hfl
        split at h
        · exact absurd h (errAt_ne_ok _ _ _ _)
        · try dsimp only at h
          split at h
          · exact absurd h (errAt_ne_ok _ _ _ _)
          · try dsimp only at h
            rw [Res.bind_eq_ok] at h
            obtain ⟨c2, hrun, h⟩ := h
            have srun := runTokens_sizeOk lower hlower _ _ _ _ hrun
            split at h
            · simp at h
            · have := ih _ _ _ _ _ h
              exact SizeOk.trans sfl (SizeOk.trans (SizeOk.trans (SizeOk.of_eq rfl rfl) srun)
                (SizeOk.trans (SizeOk.of_eq rfl rfl) this))

theorem processText_sizeOk (T : Tables) (txt : Bytes) (lower : Token → Ctx → Res Ctx)
    (hlower : ∀ t c c', lower t c = .ok c' → SizeOk c c') (c c' : Ctx) (t : Span) (r : Range)
    (h : processText T txt lower c t r = .ok c') : SizeOk c c' := by
  unfold processText at h
  split at h
  · exact appendText_sizeOk _ _ _ _ h
  · dsimp only at h
    rw [Res.bind_eq_ok] at h
    obtain ⟨⟨buf, c1⟩, h1, h⟩ := h
    exact SizeOk.trans (processTextLoop_sizeOk T txt lower hlower _ _ _ _ _ _ _ h1)
      (flushBuffer_sizeOk _ _ _ _ h)

theorem tokenStep_sizeOk (T : Tables) (txt : Bytes) (lower : Token → Ctx → Res Ctx)
    (hlower : ∀ t c c', lower t c = .ok c' → SizeOk c c') (t : Token) (c c' : Ctx)
    (h : tokenStep T txt lower t c = .ok c') : SizeOk c c' := by
  unfold tokenStep at h
  try dsimp only at h
  have slog : SizeOk c (c.log (.token t)) := log_sizeOk _ _
  split at h
  · rw [Res.bind_eq_ok] at h
    obtain ⟨c1, h1, h⟩ := h
    rw [Res.bind_eq_ok] at h
    obtain ⟨⟨c2, id⟩, h2, h⟩ := h
    res_norm at h; subst h
    exact SizeOk.trans slog (SizeOk.trans (resetAfterText_sizeOk _ _ h1) (appendNode_sizeOk _ _ _ _ _ h2))
  · rw [Res.bind_eq_ok] at h
    obtain ⟨c1, h1, h⟩ := h
    rw [Res.bind_eq_ok] at h
    obtain ⟨⟨c2, id⟩, h2, h⟩ := h
    res_norm at h; subst h
    exact SizeOk.trans slog (SizeOk.trans (resetAfterText_sizeOk _ _ h1) (appendNode_sizeOk _ _ _ _ _ h2))
  · res_norm at h; subst h; exact SizeOk.of_eq rfl rfl
  · rw [Res.bind_eq_ok] at h
    obtain ⟨c1, h1, h⟩ := h
    split at h
    · exact absurd h (errPos_ne_ok _ _ _ _)
    · res_norm at h; subst h
      exact SizeOk.trans slog (SizeOk.trans (resetAfterText_sizeOk _ _ h1) (SizeOk.of_eq rfl rfl))
  · exact SizeOk.trans slog (processAttribute_sizeOk _ _ _ _ _ _ _ _ _ _ h)
  · rw [Res.bind_eq_ok] at h
    obtain ⟨c1, h1, h⟩ := h
    exact SizeOk.trans slog (SizeOk.trans (resetAfterText_sizeOk _ _ h1) (processElement_sizeOk _ _ _ _ _ h))
  · exact SizeOk.trans slog (processText_sizeOk T txt lower hlower _ _ _ _ h)
  · exact SizeOk.trans slog (processCdata_sizeOk _ _ _ _ h)

theorem token_sizeOk (T : Tables) (txt : Bytes) :
    ∀ (d : Nat) (t : Token) (c c' : Ctx), token T txt d t c = .ok c' → SizeOk c c' := by
  intro d
  induction d with
  | zero => intro t c c' h; simp [token] at h
  | succ d ih => intro t c c' h; exact tokenStep_sizeOk T txt (token T txt d) ih t c c' h

/-- C15 hard cap, for every input, every option value. -/
theorem parse_size_le_limit (T : Tables) (txt : Bytes) (opt : Opt) (d : Doc)
    (h : parse T txt opt = .ok d) : d.nodes.size ≤ opt.nodesLimit := by
  unfold parse at h
  rw [Res.bind_eq_ok] at h
  obtain ⟨c, hc, h⟩ := h
  res_norm at h
  subst h
  unfold parseCtx at hc
  rw [Res.bind_eq_ok] at hc
  obtain ⟨c0, h0, hc⟩ := hc
  try dsimp only at hc
  rw [Res.bind_eq_ok] at hc
  obtain ⟨c1, h1, hc⟩ := hc
  have s01 := runTokens_sizeOk _ (token_sizeOk T txt depthFuel) _ _ _ _ h1
  -- the initial context: one node, the given limit
  unfold initCtx at h0
  rw [Res.bind_eq_ok] at h0
  obtain ⟨ns, _, h0⟩ := h0
  res_norm at h0
  subst h0
  -- the final checks need an element under the root, hence a second node
  unfold finish at hc
  rw [Res.bind_eq_ok] at hc
  obtain ⟨has, hhas, hc⟩ := hc
  split at hc
  · simp at hc
  · split at hc
    · simp at hc
    · res_norm at hc
      subst hc
      obtain ⟨hl, hs, hg⟩ := s01
      simp only at hl hs hg ⊢
      rcases hg with hg | hg
      · -- no node was added: then the root has no child, contradiction with `has`
        exfalso
        rename_i hnot _
        have hsz : c1.doc.nodes.size = 1 := by simpa using hg
        have : has = false := by
          unfold rootHasElement at hhas
          rw [Res.bind_eq_ok] at hhas
          obtain ⟨it, hit, hhas⟩ := hhas
          rw [Res.bind_eq_ok] at hhas
          obtain ⟨l, hl', hhas⟩ := hhas
          rw [Res.bind_eq_ok] at hhas
          obtain ⟨e, he, hhas⟩ := hhas
          res_norm at hhas
          subst hhas
          -- first_child of node 0 needs node 1 to exist
          unfold Api.children at hit
          rw [Res.bind_eq_ok] at hit
          obtain ⟨f, hf, hit⟩ := hit
          rw [Res.bind_eq_ok] at hit
          obtain ⟨b, hb, hit⟩ := hit
          res_norm at hit
          subst hit
          unfold Api.firstChild at hf
          rw [Res.bind_eq_ok] at hf
          obtain ⟨n0, hn0, hf⟩ := hf
          split at hf
          · res_norm at hf
            subst hf
            -- lastChild of the root is none: follow gives none
            unfold Api.lastChild at hb
            rw [Res.bind_eq_ok] at hb
            obtain ⟨n0', hn0', hb⟩ := hb
            rw [hn0] at hn0'
            simp only [Res.ok.injEq] at hn0'
            subst hn0'
            rename_i hlc
            rw [hlc] at hb
            simp only [Api.follow, Res.ok.injEq] at hb
            subst hb
            simp only [Api.childrenList, Api.fuelN, hsz] at hl'
            simp [Api.ChildrenIt.next, bind, Res.bind] at hl'
            subst hl'
            simp [Api.findElement] at he
            simp [← he]
          · rw [Res.bind_eq_ok] at hf
            obtain ⟨k, hk, hf⟩ := hf
            unfold Api.nodeIdNew at hk
            split at hk <;> simp at hk
            subst hk
            split at hf
            · omega
            · simp at hf
        simp [this] at hnot
      · rw [hl] at hg; exact hg

theorem appendNode_mono (c c' : Ctx) (k : Kind) (r : Range) (id : Nat) (L' : Nat)
    (h : c.appendNode k r = .ok (c', id)) (hL : c.nodesLimit ≤ L') :
    ({ c with nodesLimit := L' }).appendNode k r = .ok ({ c' with nodesLimit := L' }, id) := by
  have hs := (appendNode_size c c' k r id h).1
  unfold Ctx.appendNode at h ⊢
  have h1 : ¬ (c.doc.nodes.size ≥ c.nodesLimit) := by omega
  have h2 : ¬ (c.doc.nodes.size ≥ L') := by omega
  simp only [h1, h2, if_false] at h ⊢
  rw [Res.bind_eq_ok] at h ⊢
  obtain ⟨newId, hid, h⟩ := h
  refine ⟨newId, hid, ?_⟩
  try dsimp only at h ⊢
  split at h
  · simp at h
  · split at h
    · simp at h
    · split at h
      · simp at h
      · rename_i h3 _ _ h4 _ _ h5
        rw [Res.bind_eq_ok] at h
        obtain ⟨nodes', hs', h⟩ := h
        res_norm at h
        simp only [h3, h4, h5, hs', Res.bind_ok, pure, Res.ok.injEq, Prod.mk.injEq]
        rw [← h.1]
        exact ⟨rfl, h.2⟩

end Rox.Lemmas
