/-
  Rox.Lemmas.RtTok — the tokenizer on a canonical rendering delivers exactly the expected tokens
  (`Rox.Spec.Canon.toks`), every span offset and range included, and succeeds.
-/
import Rox.Spec.Canon
import Rox.Lemmas.TokSpec

namespace Rox.Lemmas
open Rox Rox.Spec.Canon Rox.TM

/-! ### Byte facts -/

theorem isLower_bounds {b : UInt8} (h : isLower b = true) : 97 ≤ b.toNat ∧ b.toNat ≤ 122 := by
  simpa [isLower, UInt8.le_iff_toNat_le] using h

theorem isPlain_bounds {b : UInt8} (h : isPlain b = true) : 32 ≤ b.toNat ∧ b.toNat ≤ 126 := by
  simpa [isPlain, UInt8.le_iff_toNat_le] using h

theorem lower_lt128 {b : UInt8} (h : isLower b = true) : b < 128 := by
  have := isLower_bounds h
  rw [UInt8.lt_iff_toNat_lt]
  show b.toNat < 128
  omega

theorem plain_lt128 {b : UInt8} (h : isPlain b = true) : b < 128 := by
  have := isPlain_bounds h
  rw [UInt8.lt_iff_toNat_lt]
  show b.toNat < 128
  omega

theorem lower_plain {b : UInt8} (h : isLower b = true) : isPlain b = true := by
  have := isLower_bounds h
  simp [isPlain, UInt8.le_iff_toNat_le]
  omega

/-- a lower-case letter differs from every byte below `a` -/
theorem lower_bne {b c : UInt8} (hb : isLower b = true) (hc : c.toNat < 97) : (b == c) = false := by
  rw [beq_eq_false_iff_ne]
  rintro rfl
  have := isLower_bounds hb
  omega

theorem nameOk_cons {n : Bytes} (h : nameOk n = true) :
    ∃ b n', n = b :: n' ∧ isLower b = true ∧ (∀ x ∈ n', isLower x = true) := by
  cases n with
  | nil => simp [nameOk] at h
  | cons b n' =>
    simp [nameOk] at h
    exact ⟨b, n', rfl, h.1, h.2⟩

theorem nameOk_all {n : Bytes} (h : nameOk n = true) : ∀ x ∈ n, isLower x = true := by
  simp [nameOk] at h
  exact h.2

section
variable (T : Tables) (txt : Bytes)

/-! ### Cursor primitives on literal prefixes -/

theorem skipSpaces_ns (p : Nat) (b : UInt8) (r : Bytes) (h : byteIsSpace T b = false) :
    Stream.skipSpaces T ⟨p, b :: r⟩ = ⟨p, b :: r⟩ := by
  simp [Stream.skipSpaces, Stream.skipSpacesAux, h]

theorem skipSpaces_sp (hC : TablesCanon T) (p : Nat) (b : UInt8) (r : Bytes)
    (h : byteIsSpace T b = false) :
    Stream.skipSpaces T ⟨p, 32 :: b :: r⟩ = ⟨p + 1, b :: r⟩ := by
  simp [Stream.skipSpaces, Stream.skipSpacesAux, h, hC.space_is_space]

/-- the scanning loop of `consume_qname` over lower-case letters up to a delimiter -/
theorem qnameLoop_lower (hC : TablesCanon T) (start : Nat) (c : UInt8) (rest : Bytes)
    (hc : c ∈ [32, 34, 47, 60, 61, 62]) :
    ∀ (name : Bytes), (∀ x ∈ name, isLower x = true) → ∀ (fuel p : Nat) (acc : Bytes),
      name.length < fuel →
      Stream.qnameLoop T txt start fuel ⟨p, name ++ c :: rest⟩ acc none =
        .ok (⟨p + name.length, c :: rest⟩, acc.reverse ++ name, none) := by
  have hcn : byteIsName T c = false := hC.delims_not_name c hc
  have hc128 : c < 128 := by
    simp only [List.mem_cons, List.not_mem_nil, or_false] at hc
    rcases hc with rfl | rfl | rfl | rfl | rfl | rfl <;> decide
  have hcc : (c == bColon) = false := by
    simp only [List.mem_cons, List.not_mem_nil, or_false] at hc
    rcases hc with rfl | rfl | rfl | rfl | rfl | rfl <;> decide
  intro name
  induction name with
  | nil =>
    intro _ fuel p acc hf
    obtain ⟨fuel, rfl⟩ : ∃ f, fuel = f + 1 := ⟨fuel - 1, by simp at hf; omega⟩
    simp [Stream.qnameLoop, hc128, hcc, hcn]
  | cons b name ih =>
    intro hl fuel p acc hf
    obtain ⟨fuel, rfl⟩ : ∃ f, fuel = f + 1 := ⟨fuel - 1, by simp at hf; omega⟩
    have hb : isLower b = true := hl b (by simp)
    have hb128 := lower_lt128 hb
    have hbc : (b == bColon) = false := lower_bne hb (by decide)
    have hbn := hC.lower_name b hb
    simp only [List.cons_append, Stream.qnameLoop, hb128, hbc, hbn, if_true, Bool.false_eq_true,
      if_false]
    rw [ih (fun x hx => hl x (by simp [hx])) fuel (p + 1) (b :: acc) (by simp at hf; omega)]
    simp
    omega

theorem consumeQName_lower (hC : TablesCanon T) (c : UInt8) (rest : Bytes)
    (hc : c ∈ [32, 34, 47, 60, 61, 62]) (name : Bytes) (hn : nameOk name = true) (p : Nat) :
    Stream.consumeQName T txt ⟨p, name ++ c :: rest⟩ =
      .ok (⟨p + name.length, c :: rest⟩, ⟨p, []⟩, ⟨p, name⟩) := by
  unfold Stream.consumeQName
  dsimp only
  rw [qnameLoop_lower T txt hC p c rest hc name (nameOk_all hn) _ p [] (by simp; omega)]
  obtain ⟨b, n', rfl, hb, _⟩ := nameOk_cons hn
  simp [Stream.strIsNameStart, lower_lt128 hb, hC.lower_nameStart b hb]

theorem spanBytesAux_run (f : UInt8 → Bool) (c : UInt8) (rest : Bytes) (hc : f c = false) :
    ∀ (v : Bytes), (∀ x ∈ v, f x = true) → ∀ (p : Nat) (acc : Bytes),
      Stream.spanBytesAux f p acc (v ++ c :: rest) =
        (⟨p + v.length, c :: rest⟩, acc.reverse ++ v) := by
  intro v
  induction v with
  | nil => intro _ p acc; simp [Stream.spanBytesAux, hc]
  | cons b v ih =>
    intro hv p acc
    have hb : f b = true := hv b (by simp)
    simp only [List.cons_append, Stream.spanBytesAux, hb, if_true]
    rw [ih (fun x hx => hv x (by simp [hx]))]
    simp
    omega

theorem valueOk_all {v : Bytes} (h : valueOk v = true) :
    ∀ x ∈ v, isPlain x = true ∧ x ≠ 60 ∧ x ≠ 38 ∧ x ≠ 34 := by
  intro x hx
  simp [valueOk] at h
  have := h x hx
  exact ⟨this.1.1.1, this.1.1.2, this.1.2, this.2⟩

theorem advanceUntil2_value (v rest : Bytes) (hv : valueOk v = true) (p : Nat) :
    Stream.advanceUntil2 ⟨p, v ++ 34 :: rest⟩ 34 bLt =
      .ok (⟨p + v.length, 34 :: rest⟩, ⟨p, v⟩) := by
  unfold Stream.advanceUntil2
  dsimp only
  rw [spanBytesAux_run (fun b => b != 34 && b != bLt) 34 rest (by decide) v
    (by
      intro x hx
      obtain ⟨_, h1, _, h3⟩ := valueOk_all hv x hx
      simp [bLt, h1, h3])]
  simp [Stream.atEnd]

theorem isXmlStrAscii_plain (hC : TablesCanon T) :
    ∀ (v : Bytes), (∀ x ∈ v, isPlain x = true) → ∀ pos, isXmlStrAscii T txt pos v = .ok () := by
  intro v
  induction v with
  | nil => intro _ pos; rfl
  | cons b v ih =>
    intro hv pos
    simp only [isXmlStrAscii, hC.plain_xmlChar b (hv b (by simp)), Bool.not_true,
      Bool.false_eq_true, if_false]
    exact ih (fun x hx => hv x (by simp [hx])) _

theorem isXmlStr_plain (hC : TablesCanon T) (v : Bytes) (hv : ∀ x ∈ v, isPlain x = true) (p : Nat) :
    isXmlStr T txt ⟨p, v⟩ = .ok () := by
  unfold isXmlStr
  have : isAscii v = true := by
    simp only [isAscii, List.all_eq_true, decide_eq_true_eq]
    intro x hx
    exact plain_lt128 (hv x hx)
  simp only [this, if_true]
  exact isXmlStrAscii_plain T txt hC v hv p

/-- `skip_chars` over a run of plain ASCII characters accepted by `f`, up to an ASCII character
`f` rejects -/
theorem skipCharsAux_run (hC : TablesCanon T) (f : Stream → Nat → Bool) (c : UInt8) (rest : Bytes)
    (hcp : isPlain c = true) (hstop : ∀ p, f ⟨p, c :: rest⟩ c.toNat = false) :
    ∀ (t : Bytes), (∀ x ∈ t, isPlain x = true ∧ ∀ s, f s x.toNat = true) →
      ∀ (fuel p : Nat) (acc : Bytes), t.length < fuel →
      Stream.skipCharsAux T txt f fuel ⟨p, t ++ c :: rest⟩ acc =
        .ok (⟨p + t.length, c :: rest⟩, acc.reverse ++ t) := by
  intro t
  induction t with
  | nil =>
    intro _ fuel p acc hf
    obtain ⟨fuel, rfl⟩ : ∃ f, fuel = f + 1 := ⟨fuel - 1, by simp at hf; omega⟩
    simp [Stream.skipCharsAux, decodeChar_ascii c rest (plain_lt128 hcp), hC.plain_xmlCharC c hcp,
      hstop]
  | cons b t ih =>
    intro ht fuel p acc hf
    obtain ⟨fuel, rfl⟩ : ∃ f, fuel = f + 1 := ⟨fuel - 1, by simp at hf; omega⟩
    obtain ⟨hbp, hbf⟩ := ht b (by simp)
    simp only [List.cons_append, Stream.skipCharsAux, decodeChar_ascii b _ (plain_lt128 hbp),
      hC.plain_xmlCharC b hbp, hbf, Bool.not_true, Bool.false_eq_true, if_false, if_true]
    have h1 : 1 ≤ (b :: (t ++ c :: rest)).length := by simp
    simp only [h1, if_true, List.drop_succ_cons, List.drop_zero, List.take_succ_cons,
      List.take_zero, List.reverse_cons, List.reverse_nil, List.nil_append, List.cons_append]
    rw [ih (fun x hx => ht x (by simp [hx])) fuel (p + 1) (b :: acc) (by simp at hf; omega)]
    simp
    omega

theorem consumeChars_run (hC : TablesCanon T) (f : Stream → Nat → Bool) (c : UInt8) (rest : Bytes)
    (hcp : isPlain c = true) (hstop : ∀ p, f ⟨p, c :: rest⟩ c.toNat = false)
    (t : Bytes) (ht : ∀ x ∈ t, isPlain x = true ∧ ∀ s, f s x.toNat = true) (p : Nat) :
    Stream.consumeChars T txt ⟨p, t ++ c :: rest⟩ f =
      .ok (⟨p + t.length, c :: rest⟩, ⟨p, t⟩) := by
  unfold Stream.consumeChars
  dsimp only
  rw [skipCharsAux_run T txt hC f c rest hcp hstop t ht _ p [] (by simp; omega)]
  simp

end

/-! ### The writer monad -/

/-- prepend already-emitted tokens -/
def pre {α} (l : List Token) (m : TM α) : TM α := (l ++ m.1, m.2)

theorem pre_nil {α} (m : TM α) : pre [] m = m := rfl
theorem pre_pre {α} (l1 l2 : List Token) (m : TM α) : pre l1 (pre l2 m) = pre (l1 ++ l2) m := by
  show (l1 ++ (l2 ++ m.1), m.2) = ((l1 ++ l2) ++ m.1, m.2)
  rw [List.append_assoc]
/-- emit `l`, return `a` -/
def ret {α} (l : List Token) (a : α) : TM α := (l, .ok a)

theorem pre_mk {α} (l1 l2 : List Token) (a : α) : pre l1 (ret l2 a) = ret (l1 ++ l2) a := rfl

theorem lift_ok_bind {α β} (a : α) (k : α → TM β) : (lift (.ok a) >>= k) = k a := rfl

theorem emit_bind {β} (t : Token) (k : Unit → TM β) : (emit t >>= k) = pre [t] (k ()) := rfl

theorem ok_bind {α β} (l : List Token) (a : α) (k : α → TM β) :
    (ret l a >>= k) = pre l (k a) := rfl

theorem pre_bind {α β} (l : List Token) (m : TM α) (k : α → TM β) :
    (pre l m >>= k) = pre l (m >>= k) := by
  obtain ⟨l', r⟩ := m
  cases r with
  | ok a =>
    show (l ++ l' ++ (k a).1, (k a).2) = (l ++ (l' ++ (k a).1), (k a).2)
    rw [List.append_assoc]
  | err e => rfl
  | panic s => rfl
  | fuel => rfl

theorem pre_pure {α} (l : List Token) (a : α) : pre l (pure a : TM α) = ret l a := by
  show (l ++ [], Res.ok a) = (l, Res.ok a)
  rw [List.append_nil]

section
variable (T : Tables) (txt : Bytes)

/-! ### Tokens -/

theorem toNat_ne {x c : UInt8} (h : x ≠ c) : x.toNat ≠ c.toNat := fun e => h (UInt8.toNat_inj.mp e)

theorem commentOk_all {c : Bytes} (h : commentOk c = true) :
    ∀ x ∈ c, isPlain x = true ∧ x ≠ 45 := by
  intro x hx
  simp [commentOk] at h
  exact h x hx

theorem textOk_all {t : Bytes} (h : textOk t = true) :
    ∀ x ∈ t, isPlain x = true ∧ x ≠ 60 ∧ x ≠ 38 ∧ x ≠ 62 := by
  intro x hx
  simp [textOk] at h
  have := h.2 x hx
  exact ⟨this.1.1.1, this.1.1.2, this.1.2, this.2⟩

theorem containsSub_dashDash : ∀ (body : Bytes), (∀ x ∈ body, x ≠ 45) →
    containsSub body Lit.dashDash = false := by
  intro body
  induction body with
  | nil => intro _; rfl
  | cons b r ih =>
    intro h
    have hb : b ≠ 45 := h b (by simp)
    have : ((45 : UInt8) == b) = false := by
      rw [beq_eq_false_iff_ne]; exact fun e => hb e.symm
    simp only [containsSub, Lit.dashDash, List.isPrefixOf, this, Bool.false_and, Bool.false_or]
    exact ih (fun x hx => h x (by simp [hx]))

theorem parseComment_run (hC : TablesCanon T) (body rest : Bytes) (hb : commentOk body = true)
    (p : Nat) :
    parseComment T txt ⟨p, 60 :: 33 :: 45 :: 45 :: (body ++ 45 :: 45 :: 62 :: rest)⟩ =
      ret [.comment ⟨p + 4, body⟩ (p, p + 7 + body.length)] ⟨p + 7 + body.length, rest⟩ := by
  have hall := commentOk_all hb
  have h1 : Stream.advance ⟨p, 60 :: 33 :: 45 :: 45 :: (body ++ 45 :: 45 :: 62 :: rest)⟩ 4 =
      .ok ⟨p + 4, body ++ 45 :: 45 :: 62 :: rest⟩ := by
    simp [Stream.advance]
  have h2 := consumeChars_run T txt hC (fun s c => !(c == 45 && s.startsWith Lit.commentEnd)) 45
    (45 :: 62 :: rest) (by decide) (by intro q; simp [Stream.startsWith, Lit.commentEnd]) body
    (by
      intro x hx
      obtain ⟨hp, hne⟩ := hall x hx
      refine ⟨hp, fun s => ?_⟩
      have : (x.toNat == 45) = false := by
        rw [beq_eq_false_iff_ne]; exact toNat_ne hne
      simp [this]) (p + 4)
  have h3 : Stream.skipString txt ⟨p + 4 + body.length, 45 :: 45 :: 62 :: rest⟩ Lit.commentEnd =
      .ok ⟨p + 4 + body.length + 3, rest⟩ := by
    simp [Stream.skipString, Stream.startsWith, Lit.commentEnd, Stream.advance]
  have h4 := containsSub_dashDash body (fun x hx => (hall x hx).2)
  have h5 : (body.getLast? == some bDash) = false := by
    rw [beq_eq_false_iff_ne]
    intro h
    exact (hall _ (List.mem_of_getLast? h)).2 rfl
  unfold parseComment
  simp only [h1, lift_ok_bind, h2, h3, h4, h5, Bool.false_eq_true, if_false, emit_bind]
  have e : p + 4 + body.length + 3 = p + 7 + body.length := by omega
  rw [e]
  rfl

theorem parseText_run (hC : TablesCanon T) (t rest : Bytes) (ht : textOk t = true) (p : Nat) :
    parseText T txt ⟨p, t ++ 60 :: rest⟩ =
      ret [.text ⟨p, t⟩ (p, p + t.length)] ⟨p + t.length, 60 :: rest⟩ := by
  have hall := textOk_all ht
  have h2 := consumeChars_run T txt hC (fun _ c => c != 60) 60 rest (by decide)
    (by intro q; simp) t
    (by
      intro x hx
      obtain ⟨hp, hne, _⟩ := hall x hx
      refine ⟨hp, fun s => ?_⟩
      have : (x.toNat == 60) = false := by
        rw [beq_eq_false_iff_ne]; exact toNat_ne hne
      simp [bne, this]) p
  have h3 : t.contains bGt = false := by
    rw [Bool.eq_false_iff]
    intro h
    rw [List.contains_iff_mem] at h
    exact (hall _ h).2.2.2 rfl
  unfold parseText
  simp only [h2, lift_ok_bind, h3, Bool.false_and, Bool.false_eq_true, if_false, emit_bind]
  rfl

/-! ### Tags -/

theorem name_head {n : Bytes} (hn : nameOk n = true) (X : Bytes) :
    ∃ b r, isLower b = true ∧ n ++ X = b :: r := by
  obtain ⟨b, n', rfl, hb, _⟩ := nameOk_cons hn
  exact ⟨b, n' ++ X, hb, rfl⟩

theorem skipSpaces_sp_name (hC : TablesCanon T) (p : Nat) (n X : Bytes) (hn : nameOk n = true) :
    Stream.skipSpaces T ⟨p, 32 :: (n ++ X)⟩ = ⟨p + 1, n ++ X⟩ := by
  obtain ⟨b, r, hb, e⟩ := name_head hn X
  rw [e]
  exact skipSpaces_sp T hC p b r (hC.lower_not_space b hb)

theorem startTagLoop_gt (hC : TablesCanon T) (fuel p : Nat) (rest : Bytes) :
    startTagLoop T txt (fuel + 1) ⟨p, 62 :: rest⟩ =
      ret [.elementEnd .open (p, p + 1)] (⟨p + 1, rest⟩, some true) := by
  have hsk := skipSpaces_ns T p 62 rest (hC.delims_not_space 62 (by simp))
  have hcb : Stream.currByte ⟨p, 62 :: rest⟩ = .ok 62 := rfl
  have h1 : ((62 : UInt8) == bSlash) = false := by decide
  have h2 : ((62 : UInt8) == bGt) = true := by decide
  have h3 : Stream.advance ⟨p, 62 :: rest⟩ 1 = .ok ⟨p + 1, rest⟩ := by simp [Stream.advance]
  simp only [startTagLoop, Stream.atEnd, List.isEmpty_cons, Bool.false_eq_true, if_false, hsk, hcb,
    lift_ok_bind, h1, h2, if_true, h3, emit_bind]
  rfl

theorem consumeEq_run (hC : TablesCanon T) (q : Nat) (Y : Bytes) :
    Stream.consumeEq T txt ⟨q, 61 :: 34 :: Y⟩ = .ok ⟨q + 1, 34 :: Y⟩ := by
  have h1 := skipSpaces_ns T q 61 (34 :: Y) (hC.delims_not_space 61 (by simp))
  have h2 := skipSpaces_ns T (q + 1) 34 Y (hC.delims_not_space 34 (by simp))
  have h3 : Stream.consumeByte txt ⟨q, 61 :: 34 :: Y⟩ bEq = .ok ⟨q + 1, 34 :: Y⟩ := by
    simp [Stream.consumeByte, bEq]
  simp only [Stream.consumeEq, h1, h3, Res.bind_ok, h2, Res.pure_eq]

theorem startTagLoop_attr (hC : TablesCanon T) (fuel p : Nat) (n v rest' : Bytes)
    (hn : nameOk n = true) (hv : valueOk v = true) :
    startTagLoop T txt (fuel + 1) ⟨p, 32 :: (n ++ 61 :: 34 :: (v ++ 34 :: rest'))⟩ =
      pre [Token.attribute (p + 1, p + 1 + n.length + 2 + v.length + 1) (min n.length 65535) 1
            ⟨p + 1, []⟩ ⟨p + 1, n⟩ ⟨p + 1 + n.length + 2, v⟩]
        (startTagLoop T txt fuel ⟨p + 1 + n.length + 2 + v.length + 1, rest'⟩) := by
  have hsp : Stream.startsWithSpace T ⟨p, 32 :: (n ++ 61 :: 34 :: (v ++ 34 :: rest'))⟩ = true := by
    simp [Stream.startsWithSpace, hC.space_is_space]
  have hsk := skipSpaces_sp_name T hC p n (61 :: 34 :: (v ++ 34 :: rest')) hn
  obtain ⟨b, r, hb, e⟩ := name_head hn (61 :: 34 :: (v ++ 34 :: rest'))
  have hcb : Stream.currByte ⟨p + 1, n ++ 61 :: 34 :: (v ++ 34 :: rest')⟩ = .ok b := by
    rw [e]; rfl
  have h1 : (b == bSlash) = false := lower_bne hb (by decide)
  have h2 : (b == bGt) = false := lower_bne hb (by decide)
  have hq := consumeQName_lower T txt hC 61 (34 :: (v ++ 34 :: rest')) (by simp) n hn (p + 1)
  have heq := consumeEq_run T txt hC (p + 1 + n.length) (v ++ 34 :: rest')
  have hqu : Stream.consumeQuote txt ⟨p + 1 + n.length + 1, 34 :: (v ++ 34 :: rest')⟩ =
      .ok (⟨p + 1 + n.length + 1 + 1, v ++ 34 :: rest'⟩, 34) := by
    simp [Stream.consumeQuote, bApos, bQuot]
  have hadv := advanceUntil2_value v rest' hv (p + 1 + n.length + 1 + 1)
  have hxs := isXmlStr_plain T txt hC v (fun x hx => (valueOk_all hv x hx).1) (p + 1 + n.length + 1 + 1)
  have hcq : Stream.consumeByte txt ⟨p + 1 + n.length + 1 + 1 + v.length, 34 :: rest'⟩ 34 =
      .ok ⟨p + 1 + n.length + 1 + 1 + v.length + 1, rest'⟩ := by
    simp [Stream.consumeByte]
  simp only [startTagLoop, Stream.atEnd, List.isEmpty_cons, Bool.false_eq_true, if_false, hsp, hsk,
    hcb, lift_ok_bind, h1, h2, Bool.not_true, hq, heq, hqu, hadv, hxs, hcq, emit_bind]
  have e1 : p + 1 + n.length - (p + 1) = n.length := by omega
  have e2 : p + 1 + n.length + 1 - (p + 1 + n.length) = 1 := by omega
  have e3 : p + 1 + n.length + 1 + 1 + v.length + 1 = p + 1 + n.length + 2 + v.length + 1 := by omega
  have e4 : p + 1 + n.length + 1 + 1 = p + 1 + n.length + 2 := by omega
  rw [e1, e2, e3, e4]
  rfl

theorem attr_ok_of {as : List (Bytes × Bytes)} (h : attrsOk as = true) :
    ∀ a ∈ as, nameOk a.1 = true ∧ valueOk a.2 = true := by
  intro a ha
  simp [attrsOk] at h
  have := h.1 a.1 a.2 ha
  exact ⟨this.1.1, this.2⟩

theorem renderAttrs_length : ∀ as, (renderAttrs as).length = attrsLen as := by
  intro as
  induction as with
  | nil => rfl
  | cons a r ih =>
    obtain ⟨n, v⟩ := a
    simp [renderAttrs, attrsLen, ih]
    omega

theorem attrsLen_ge : ∀ as, as.length ≤ attrsLen as := by
  intro as
  induction as with
  | nil => simp [attrsLen]
  | cons a r ih =>
    obtain ⟨n, v⟩ := a
    simp [attrsLen]
    omega

theorem startTagLoop_run (hC : TablesCanon T) (rest : Bytes) :
    ∀ (as : List (Bytes × Bytes)), (∀ a ∈ as, nameOk a.1 = true ∧ valueOk a.2 = true) →
      ∀ (fuel p : Nat), as.length < fuel →
      startTagLoop T txt fuel ⟨p, renderAttrs as ++ 62 :: rest⟩ =
        ret (attrToks p as ++ [.elementEnd .open (p + attrsLen as, p + attrsLen as + 1)])
          (⟨p + attrsLen as + 1, rest⟩, some true) := by
  intro as
  induction as with
  | nil =>
    intro _ fuel p hf
    obtain ⟨fuel, rfl⟩ : ∃ f, fuel = f + 1 := ⟨fuel - 1, by simp at hf; omega⟩
    simp only [renderAttrs, List.nil_append, attrToks, attrsLen, Nat.add_zero]
    exact startTagLoop_gt T txt hC fuel p rest
  | cons a r ih =>
    intro hall fuel p hf
    obtain ⟨n, v⟩ := a
    obtain ⟨fuel, rfl⟩ : ∃ f, fuel = f + 1 := ⟨fuel - 1, by simp at hf; omega⟩
    obtain ⟨hn, hv⟩ := hall (n, v) (by simp)
    simp only [renderAttrs, List.append_assoc, List.cons_append, List.nil_append]
    rw [startTagLoop_attr T txt hC fuel p n v _ hn hv,
      ih (fun x hx => hall x (by simp [hx])) fuel _ (by simp at hf; omega), pre_mk]
    simp only [attrToks, attrsLen, List.cons_append, List.nil_append]
    have e : p + 1 + n.length + 2 + v.length + 1 + attrsLen r =
        p + (1 + n.length + 2 + v.length + 1 + attrsLen r) := by omega
    rw [e]

theorem parseStartTag_run (hC : TablesCanon T) (n : Bytes) (as : List (Bytes × Bytes))
    (rest : Bytes) (hn : nameOk n = true) (has : attrsOk as = true) (p : Nat) :
    parseStartTag T txt ⟨p, 60 :: (n ++ (renderAttrs as ++ 62 :: rest))⟩ =
      ret ([.elementStart ⟨p + 1, []⟩ ⟨p + 1, n⟩ p] ++ attrToks (p + 1 + n.length) as ++
        [.elementEnd .open (p + 1 + n.length + attrsLen as, p + 1 + n.length + attrsLen as + 1)])
        (⟨p + 1 + n.length + attrsLen as + 1, rest⟩, true) := by
  have h1 : Stream.advance ⟨p, 60 :: (n ++ (renderAttrs as ++ 62 :: rest))⟩ 1 =
      .ok ⟨p + 1, n ++ (renderAttrs as ++ 62 :: rest)⟩ := by simp [Stream.advance]
  obtain ⟨c, r', hc, e⟩ : ∃ c r', c ∈ ([32, 34, 47, 60, 61, 62] : List UInt8) ∧
      renderAttrs as ++ 62 :: rest = c :: r' := by
    cases as with
    | nil => exact ⟨62, rest, by simp, rfl⟩
    | cons a r =>
      obtain ⟨an, av⟩ := a
      exact ⟨32, an ++ 61 :: 34 :: (av ++ 34 :: (renderAttrs r ++ 62 :: rest)), by simp,
        by simp only [renderAttrs, List.append_assoc, List.cons_append, List.nil_append]⟩
  have hq := consumeQName_lower T txt hC c r' hc n hn (p + 1)
  rw [← e] at hq
  have hl := startTagLoop_run T txt hC rest as (attr_ok_of has)
    ((renderAttrs as ++ 62 :: rest).length + 1) (p + 1 + n.length)
    (by have := attrsLen_ge as; simp [renderAttrs_length]; omega)
  unfold parseStartTag
  simp only [h1, lift_ok_bind, hq, emit_bind, hl, ok_bind, pre_pure, pre_mk]
  rfl

theorem parseCloseElement_run (hC : TablesCanon T) (n rest : Bytes) (hn : nameOk n = true)
    (p : Nat) :
    parseCloseElement T txt ⟨p, 60 :: 47 :: (n ++ 62 :: rest)⟩ =
      ret [.elementEnd (.close ⟨p + 2, []⟩ ⟨p + 2, n⟩) (p, p + 3 + n.length)]
        ⟨p + 3 + n.length, rest⟩ := by
  have h1 : Stream.advance ⟨p, 60 :: 47 :: (n ++ 62 :: rest)⟩ 2 = .ok ⟨p + 2, n ++ 62 :: rest⟩ := by
    simp [Stream.advance]
  have hq := consumeQName_lower T txt hC 62 rest (by simp) n hn (p + 2)
  have hsk := skipSpaces_ns T (p + 2 + n.length) 62 rest (hC.delims_not_space 62 (by simp))
  have hcb : Stream.consumeByte txt ⟨p + 2 + n.length, 62 :: rest⟩ bGt =
      .ok ⟨p + 2 + n.length + 1, rest⟩ := by
    simp [Stream.consumeByte, bGt]
  unfold parseCloseElement
  simp only [h1, lift_ok_bind, hq, hsk, hcb, emit_bind]
  have e : p + 2 + n.length + 1 = p + 3 + n.length := by omega
  rw [e]
  rfl

/-! ### One round of the content loop -/

theorem parseContent_comment (hC : TablesCanon T) (fuel d p : Nat) (body rest : Bytes)
    (hb : commentOk body = true) :
    parseContent T txt (fuel + 1) d ⟨p, 60 :: 33 :: 45 :: 45 :: (body ++ 45 :: 45 :: 62 :: rest)⟩ =
      pre [.comment ⟨p + 4, body⟩ (p, p + 7 + body.length)]
        (parseContent T txt fuel d ⟨p + 7 + body.length, rest⟩) := by
  have h1 : ((60 : UInt8) == bLt) = true := by decide
  have h2 : Stream.nextByte ⟨p, 60 :: 33 :: 45 :: 45 :: (body ++ 45 :: 45 :: 62 :: rest)⟩ = .ok 33 :=
    rfl
  have h3 : ((33 : UInt8) == bBang) = true := by decide
  have h4 : Stream.startsWith ⟨p, 60 :: 33 :: 45 :: 45 :: (body ++ 45 :: 45 :: 62 :: rest)⟩
      Lit.commentStart = true := by
    simp [Stream.startsWith, Lit.commentStart]
  simp only [parseContent, h1, h2, h3, h4, if_true, parseComment_run T txt hC body rest hb p, ok_bind]

theorem parseContent_text (hC : TablesCanon T) (fuel d p : Nat) (t rest : Bytes)
    (ht : textOk t = true) :
    parseContent T txt (fuel + 1) d ⟨p, t ++ 60 :: rest⟩ =
      pre [.text ⟨p, t⟩ (p, p + t.length)]
        (parseContent T txt fuel d ⟨p + t.length, 60 :: rest⟩) := by
  obtain ⟨b, r, hb, e⟩ : ∃ b r, (b == bLt) = false ∧ t ++ 60 :: rest = b :: r := by
    cases t with
    | nil => simp [textOk] at ht
    | cons b t' =>
      refine ⟨b, t' ++ 60 :: rest, ?_, rfl⟩
      rw [beq_eq_false_iff_ne]
      exact (textOk_all ht b (by simp)).2.1
  have hstep : ∀ s : Stream, s.rest = b :: r →
      parseContent T txt (fuel + 1) d s =
        (parseText T txt s >>= fun s => parseContent T txt fuel d s) := by
    intro s hs
    simp only [parseContent, hs, hb, Bool.false_eq_true, if_false]
  rw [hstep _ e, parseText_run T txt hC t rest ht p, ok_bind]

theorem parseContent_open (hC : TablesCanon T) (fuel d p : Nat) (n : Bytes)
    (as : List (Bytes × Bytes)) (rest : Bytes) (hn : nameOk n = true) (has : attrsOk as = true) :
    parseContent T txt (fuel + 1) d ⟨p, 60 :: (n ++ (renderAttrs as ++ 62 :: rest))⟩ =
      pre ([.elementStart ⟨p + 1, []⟩ ⟨p + 1, n⟩ p] ++ attrToks (p + 1 + n.length) as ++
          [.elementEnd .open (p + 1 + n.length + attrsLen as, p + 1 + n.length + attrsLen as + 1)])
        (parseContent T txt fuel (d + 1) ⟨p + 1 + n.length + attrsLen as + 1, rest⟩) := by
  obtain ⟨b, r, hb, e⟩ := name_head hn (renderAttrs as ++ 62 :: rest)
  have h1 : ((60 : UInt8) == bLt) = true := by decide
  have h2 : Stream.nextByte ⟨p, 60 :: (n ++ (renderAttrs as ++ 62 :: rest))⟩ = .ok b := by
    rw [e]; rfl
  have h3 : (b == bBang) = false := lower_bne hb (by decide)
  have h4 : (b == bQuest) = false := lower_bne hb (by decide)
  have h5 : (b == bSlash) = false := lower_bne hb (by decide)
  simp only [parseContent, h1, h2, h3, h4, h5, if_true, Bool.false_eq_true, if_false,
    parseStartTag_run T txt hC n as rest hn has p, ok_bind]

theorem parseContent_close (hC : TablesCanon T) (fuel d p : Nat) (n rest : Bytes)
    (hn : nameOk n = true) :
    parseContent T txt (fuel + 1) (d + 1) ⟨p, 60 :: 47 :: (n ++ 62 :: rest)⟩ =
      pre [.elementEnd (.close ⟨p + 2, []⟩ ⟨p + 2, n⟩) (p, p + 3 + n.length)]
        (parseContent T txt fuel d ⟨p + 3 + n.length, rest⟩) := by
  have h1 : ((60 : UInt8) == bLt) = true := by decide
  have h2 : Stream.nextByte ⟨p, 60 :: 47 :: (n ++ 62 :: rest)⟩ = .ok 47 := rfl
  have h3 : ((47 : UInt8) == bBang) = false := by decide
  have h4 : ((47 : UInt8) == bQuest) = false := by decide
  have h5 : ((47 : UInt8) == bSlash) = true := by decide
  have h6 : (d + 1 == 0) = false := by simp
  simp only [parseContent, h1, h2, h3, h4, h5, h6, if_true, Bool.false_eq_true, if_false,
    parseCloseElement_run T txt hC n rest hn p, ok_bind, Nat.add_sub_cancel]

theorem parseContent_close0 (hC : TablesCanon T) (fuel p : Nat) (n rest : Bytes)
    (hn : nameOk n = true) :
    parseContent T txt (fuel + 1) 0 ⟨p, 60 :: 47 :: (n ++ 62 :: rest)⟩ =
      ret [.elementEnd (.close ⟨p + 2, []⟩ ⟨p + 2, n⟩) (p, p + 3 + n.length)]
        ⟨p + 3 + n.length, rest⟩ := by
  have h1 : ((60 : UInt8) == bLt) = true := by decide
  have h2 : Stream.nextByte ⟨p, 60 :: 47 :: (n ++ 62 :: rest)⟩ = .ok 47 := rfl
  have h3 : ((47 : UInt8) == bBang) = false := by decide
  have h4 : ((47 : UInt8) == bQuest) = false := by decide
  have h5 : ((47 : UInt8) == bSlash) = true := by decide
  have h6 : ((0 : Nat) == 0) = true := by simp
  simp only [parseContent, h1, h2, h3, h4, h5, h6, if_true, Bool.false_eq_true, if_false,
    parseCloseElement_run T txt hC n rest hn p, ok_bind]
  rfl

end

/-! ### The content loop over a rendered forest -/

mutual
  /-- rounds of the content loop spent on a node -/
  def steps : XNode → Nat
    | .elem _ _ ks => 2 + stepsAll ks
    | .comment _ => 1
    | .text _ => 1
  def stepsAll : List XNode → Nat
    | [] => 0
    | k :: ks => steps k + stepsAll ks
end

mutual
  theorem steps_le : ∀ (k : XNode), ok k = true → steps k ≤ (render k).length
    | .elem n as ks, h => by
      have hk : okAll ks = true := by
        simp only [ok, Bool.and_eq_true] at h; exact h.2
      have := stepsAll_le ks hk
      simp only [steps, render, List.length_append, List.length_cons, List.length_nil]
      omega
    | .comment c, _ => by
      simp only [steps, render, List.length_append, List.length_cons, List.length_nil]
      omega
    | .text t, h => by
      simp only [ok] at h
      cases t with
      | nil => simp [textOk] at h
      | cons b t' => simp [steps, render]
  theorem stepsAll_le : ∀ (ks : List XNode), okAll ks = true → stepsAll ks ≤ (renderAll ks).length
    | [], _ => by simp [stepsAll]
    | k :: ks, h => by
      simp only [okAll, Bool.and_eq_true] at h
      have h1 := steps_le k h.1
      have h2 := stepsAll_le ks h.2
      simp only [stepsAll, renderAll, List.length_append]
      omega
end

theorem noAdj_tail {k : XNode} {ks : List XNode} (h : noAdjText (k :: ks) = true) :
    noAdjText ks = true := by
  cases ks with
  | nil => rfl
  | cons k' r =>
    simp only [noAdjText, Bool.and_eq_true] at h
    exact h.2

theorem render_head_lt {k : XNode} (h : isText k = false) : ∃ r, render k = 60 :: r := by
  cases k with
  | elem n as ks =>
    simp only [render, List.append_assoc, List.cons_append, List.nil_append]
    exact ⟨_, rfl⟩
  | comment c =>
    simp only [render, List.cons_append, List.nil_append]
    exact ⟨_, rfl⟩
  | text t => simp [isText] at h

theorem next_lt {k : XNode} {ks : List XNode} {rest : Bytes} (h : noAdjText (k :: ks) = true)
    (ht : isText k = true) (hr : ∃ r, rest = 60 :: r) : ∃ r, renderAll ks ++ rest = 60 :: r := by
  cases ks with
  | nil => simpa [renderAll] using hr
  | cons k' r =>
    simp only [noAdjText, Bool.and_eq_true, ht, Bool.true_and, Bool.not_eq_true'] at h
    obtain ⟨r', e⟩ := render_head_lt h.1
    exact ⟨r' ++ (renderAll r ++ rest), by simp only [renderAll, e, List.append_assoc, List.cons_append]⟩

section
variable (T : Tables) (txt : Bytes)

mutual
  theorem pc_node (hC : TablesCanon T) : ∀ (k : XNode), ok k = true →
      ∀ (fuel d p : Nat) (rest : Bytes), (isText k = true → ∃ r, rest = 60 :: r) →
      parseContent T txt (steps k + fuel) d ⟨p, render k ++ rest⟩ =
        pre (toks p k) (parseContent T txt fuel d ⟨p + (render k).length, rest⟩)
    | .elem n as ks, h, fuel, d, p, rest, _ => by
      simp only [ok, Bool.and_eq_true] at h
      obtain ⟨⟨⟨hn, has⟩, hadj⟩, hks⟩ := h
      have hr : render (.elem n as ks) ++ rest =
          60 :: (n ++ (renderAttrs as ++ 62 :: (renderAll ks ++ 60 :: 47 :: (n ++ 62 :: rest)))) := by
        simp only [render, List.append_assoc, List.cons_append, List.nil_append]
      have hs : steps (.elem n as ks) + fuel = (stepsAll ks + (fuel + 1)) + 1 := by
        simp only [steps]; omega
      have hlen : (render (.elem n as ks)).length =
          n.length + attrsLen as + (renderAll ks).length + n.length + 5 := by
        simp only [render, List.length_append, List.length_cons, List.length_nil,
          renderAttrs_length]
        omega
      rw [hr, hs, parseContent_open T txt hC _ d p n as _ hn has,
        pc_all hC ks hks hadj (fuel + 1) (d + 1) _ _ ⟨_, rfl⟩,
        parseContent_close T txt hC fuel d _ n rest hn, pre_pre, pre_pre, hlen]
      simp only [toks]
      have e : p + 1 + n.length + attrsLen as + 1 + (renderAll ks).length + 3 + n.length =
          p + (n.length + attrsLen as + (renderAll ks).length + n.length + 5) := by omega
      rw [e]
    | .comment c, h, fuel, d, p, rest, _ => by
      simp only [ok] at h
      have hr : render (.comment c) ++ rest = 60 :: 33 :: 45 :: 45 :: (c ++ 45 :: 45 :: 62 :: rest) := by
        simp only [render, List.append_assoc, List.cons_append, List.nil_append]
      have hs : steps (.comment c) + fuel = fuel + 1 := by simp only [steps]; omega
      have hlen : (render (.comment c)).length = 7 + c.length := by
        simp only [render, List.length_append, List.length_cons, List.length_nil]
        omega
      rw [hr, hs, parseContent_comment T txt hC fuel d p c rest h, hlen]
      simp only [toks]
      have e : p + 7 + c.length = p + (7 + c.length) := by omega
      rw [e]
    | .text t, h, fuel, d, p, rest, hnext => by
      simp only [ok] at h
      obtain ⟨r, rfl⟩ := hnext rfl
      have hs : steps (.text t) + fuel = fuel + 1 := by simp only [steps]; omega
      simp only [render, toks]
      rw [hs, parseContent_text T txt hC fuel d p t r h]
  theorem pc_all (hC : TablesCanon T) : ∀ (ks : List XNode), okAll ks = true → noAdjText ks = true →
      ∀ (fuel d p : Nat) (rest : Bytes), (∃ r, rest = 60 :: r) →
      parseContent T txt (stepsAll ks + fuel) d ⟨p, renderAll ks ++ rest⟩ =
        pre (toksAll p ks) (parseContent T txt fuel d ⟨p + (renderAll ks).length, rest⟩)
    | [], _, _, fuel, d, p, rest, _ => by
      simp only [stepsAll, renderAll, toksAll, List.nil_append, List.length_nil, Nat.zero_add,
        Nat.add_zero, pre_nil]
    | k :: ks, h, hadj, fuel, d, p, rest, hr => by
      simp only [okAll, Bool.and_eq_true] at h
      have hs : stepsAll (k :: ks) + fuel = steps k + (stepsAll ks + fuel) := by
        simp only [stepsAll]; omega
      have hrr : renderAll (k :: ks) ++ rest = render k ++ (renderAll ks ++ rest) := by
        simp only [renderAll, List.append_assoc]
      rw [hs, hrr, pc_node hC k h.1 _ d p _ (fun ht => next_lt hadj ht hr),
        pc_all hC ks h.2 (noAdj_tail hadj) fuel d _ rest hr, pre_pre]
      simp only [toksAll, renderAll, List.length_append, Nat.add_assoc]
end

end

/-! ### The root element and the document -/

section
variable (T : Tables) (txt : Bytes)

theorem parseElement_run (hC : TablesCanon T) (n : Bytes) (as : List (Bytes × Bytes))
    (ks : List XNode) (hx : ok (.elem n as ks) = true) (p : Nat) :
    parseElement T txt ⟨p, render (.elem n as ks)⟩ =
      ret (toks p (.elem n as ks)) ⟨p + (render (.elem n as ks)).length, []⟩ := by
  simp only [ok, Bool.and_eq_true] at hx
  obtain ⟨⟨⟨hn, has⟩, hadj⟩, hks⟩ := hx
  have hr : render (.elem n as ks) =
      60 :: (n ++ (renderAttrs as ++ 62 :: (renderAll ks ++ 60 :: 47 :: (n ++ 62 :: [])))) := by
    simp only [render, List.append_assoc, List.cons_append, List.nil_append]
  have hlen : (render (.elem n as ks)).length =
      n.length + attrsLen as + (renderAll ks).length + n.length + 5 := by
    simp only [render, List.length_append, List.length_cons, List.length_nil, renderAttrs_length]
    omega
  obtain ⟨F, hF⟩ : ∃ F, (renderAll ks ++ 60 :: 47 :: (n ++ 62 :: [])).length + 1 =
      stepsAll ks + (F + 1) := by
    have := stepsAll_le ks hks
    refine ⟨(renderAll ks ++ 60 :: 47 :: (n ++ 62 :: [])).length - stepsAll ks, ?_⟩
    simp only [List.length_append]
    omega
  rw [hlen, hr]
  unfold parseElement
  simp only [parseStartTag_run T txt hC n as _ hn has p, ok_bind, if_true]
  rw [hF, pc_all T txt hC ks hks hadj (F + 1) 0 _ _ ⟨_, rfl⟩,
    parseContent_close0 T txt hC F _ n [] hn, pre_mk, pre_mk]
  simp only [toks]
  have e : p + 1 + n.length + attrsLen as + 1 + (renderAll ks).length + 3 + n.length =
      p + (n.length + attrsLen as + (renderAll ks).length + n.length + 5) := by omega
  rw [e]
  simp only [List.append_assoc]

theorem startsWith_tag (p : Nat) (b : UInt8) (r : Bytes) (hb : isLower b = true) (c : UInt8)
    (l : Bytes) (hc : c.toNat < 97) : Stream.startsWith ⟨p, 60 :: b :: r⟩ (60 :: c :: l) = false := by
  have : (c == b) = false := by
    rw [beq_eq_false_iff_ne]
    rintro rfl
    have := isLower_bounds hb
    omega
  simp [Stream.startsWith, List.isPrefixOf, this]

theorem parseMisc_tag (hC : TablesCanon T) (fuel p : Nat) (b : UInt8) (r : Bytes)
    (hb : isLower b = true) :
    parseMisc T txt (fuel + 1) ⟨p, 60 :: b :: r⟩ = ret [] ⟨p, 60 :: b :: r⟩ := by
  have hsk := skipSpaces_ns T p 60 (b :: r) (hC.delims_not_space 60 (by simp))
  have h1 : Stream.startsWith ⟨p, 60 :: b :: r⟩ Lit.commentStart = false :=
    startsWith_tag p b r hb 33 _ (by decide)
  have h2 : Stream.startsWith ⟨p, 60 :: b :: r⟩ Lit.piStart = false :=
    startsWith_tag p b r hb 63 _ (by decide)
  simp only [parseMisc, Stream.atEnd, List.isEmpty_cons, Bool.false_eq_true, if_false, hsk, h1, h2]
  rfl

theorem parseMisc_end (fuel q : Nat) : parseMisc T txt (fuel + 1) ⟨q, []⟩ = ret [] ⟨q, []⟩ := by
  simp only [parseMisc, Stream.atEnd, List.isEmpty_nil, if_true]
  rfl

end

set_option linter.unusedVariables false in
/-- **Tokenizer, canonical form**: for every abstract document in the class `ok` whose root is an
element, the tokenizer run on its rendering returns exactly `toks 0 x` and `Ok`. -/
theorem tokenize_render (T : Tables) (hT : TablesOK T) (hC : TablesCanon T)
    (n : Bytes) (as : List (Bytes × Bytes)) (ks : List XNode)
    (hx : ok (.elem n as ks) = true) (allowDtd : Bool) :
    tokenize T (render (.elem n as ks)) allowDtd = (toks 0 (.elem n as ks), .ok ()) := by
  have hn : nameOk n = true := by
    simp only [ok, Bool.and_eq_true] at hx; exact hx.1.1.1
  have hel := fun txt => parseElement_run T txt hC n as ks hx 0
  obtain ⟨b, r, hb, eR⟩ : ∃ b r, isLower b = true ∧ render (.elem n as ks) = 60 :: b :: r := by
    obtain ⟨b, r, hb, e⟩ := name_head hn
      (renderAttrs as ++ 62 :: (renderAll ks ++ 60 :: 47 :: (n ++ 62 :: [])))
    refine ⟨b, r, hb, ?_⟩
    rw [← e]
    simp only [render, List.append_assoc, List.cons_append, List.nil_append]
  generalize render (.elem n as ks) = R at hel eR ⊢
  have hbom : Stream.startsWith ⟨0, R⟩ Lit.bom = false := by
    rw [eR]; simp [Stream.startsWith, Lit.bom, List.isPrefixOf]
  have hdecl : Stream.startsWithXmlDecl T ⟨0, R⟩ = false := by
    rw [eR]; exact startsWithXmlDecl_false_of_open T (startsWith_tag 0 b r hb 63 _ (by decide))
  have hdoc : Stream.startsWith ⟨0, R⟩ Lit.doctype = false := by
    rw [eR]; exact startsWith_tag 0 b r hb 33 _ (by decide)
  have hmisc : parseMisc T R (R.length + 1) ⟨0, R⟩ = ret [] ⟨0, R⟩ := by
    rw [eR]; exact parseMisc_tag T _ hC _ 0 b r hb
  have hsk : Stream.skipSpaces T ⟨0, R⟩ = ⟨0, R⟩ := by
    rw [eR]; exact skipSpaces_ns T 0 60 (b :: r) (hC.delims_not_space 60 (by simp))
  have hcb : (Stream.currByte? ⟨0, R⟩ == some bLt) = true := by
    rw [eR]; rfl
  have hprolog : parseProlog T R = ret [] ⟨0, R⟩ := by
    unfold parseProlog
    simp only [Stream.new, hbom, hdecl, Bool.false_eq_true, if_false, lift_ok_bind, hmisc, ok_bind,
      hsk, pre_nil]
    rfl
  have hbody : parseBody T R ⟨0, R⟩ = ret (toks 0 (.elem n as ks)) () := by
    unfold parseBody parseRootElement
    simp only [hsk, hcb, if_true, hel R, ok_bind, List.length_nil, parseMisc_end, Stream.atEnd,
      List.isEmpty_nil, Bool.not_true, Bool.false_eq_true, if_false, pre_nil]
    exact pre_pure _ _
  show tokenize T R allowDtd = ret (toks 0 (.elem n as ks)) ()
  unfold tokenize parseDocument
  simp only [hprolog, ok_bind, hdoc, Bool.false_eq_true, if_false, hbody, pre_nil]
  rfl

end Rox.Lemmas
