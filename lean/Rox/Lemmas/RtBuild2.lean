/-
  Rox.Lemmas.RtBuild2 — the builder fed with ANY token list that presents an abstract document
  (`TokFor`: arbitrary offsets, ranges, length fields; `<e/>` or `<e></e>`) builds exactly the
  expected arena, and `parse` succeeds.
-/
import Rox.Spec.Canon2
import Rox.Lemmas.RtBuild

namespace Rox.Lemmas
open Rox Rox.Spec.Canon

namespace RtB2
open RtB

/-! ### Inversion of `TokFor` / `TokForAll` -/

theorem tokFor_elem_inv {n : Bytes} {as : List (Bytes × Bytes)} {ks : List XNode} {ts : List Token}
    (h : TokFor (.elem n as ks) ts) :
    (∃ (o1 o2 st o3 o4 : Nat) (r1 r2 : Range) (ats kts : List Token),
      AttrToks as ats ∧ TokForAll ks kts ∧
      ts = [Token.elementStart ⟨o1, []⟩ ⟨o2, n⟩ st] ++ ats ++ [Token.elementEnd .open r1] ++ kts ++
            [Token.elementEnd (.close ⟨o3, []⟩ ⟨o4, n⟩) r2]) ∨
    (ks = [] ∧ ∃ (o1 o2 st : Nat) (r : Range) (ats : List Token), AttrToks as ats ∧
      ts = [Token.elementStart ⟨o1, []⟩ ⟨o2, n⟩ st] ++ ats ++ [Token.elementEnd .empty r]) := by
  cases h with
  | elemOpen _ o1 o2 st o3 o4 r1 r2 ha hk =>
    exact Or.inl ⟨o1, o2, st, o3, o4, r1, r2, _, _, ha, hk, rfl⟩
  | elemEmpty _ o1 o2 st r ha => exact Or.inr ⟨rfl, o1, o2, st, r, _, ha, rfl⟩

theorem tokFor_comment_inv {b : Bytes} {ts : List Token} (h : TokFor (.comment b) ts) :
    ∃ (o : Nat) (r : Range), ts = [Token.comment ⟨o, b⟩ r] := by
  cases h with
  | comment _ o r => exact ⟨o, r, rfl⟩

theorem tokFor_text_inv {b : Bytes} {ts : List Token} (h : TokFor (.text b) ts) :
    ∃ (o : Nat) (r : Range), ts = [Token.text ⟨o, b⟩ r] := by
  cases h with
  | text _ o r => exact ⟨o, r, rfl⟩

theorem tokForAll_nil_inv {ts : List Token} (h : TokForAll [] ts) : ts = [] := by
  cases h with
  | nil => rfl

theorem tokForAll_cons_inv {k : XNode} {ks : List XNode} {ts : List Token}
    (h : TokForAll (k :: ks) ts) :
    ∃ t1 t2, TokFor k t1 ∧ TokForAll ks t2 ∧ ts = t1 ++ t2 := by
  cases h with
  | cons h1 h2 => exact ⟨_, _, h1, h2, rfl⟩

section steps
variable (T : Tables) (txt : Bytes) (lower : Token → Ctx → Res Ctx)

theorem feed_attrs2 {as : List (Bytes × Bytes)} {ats : List Token} (h : AttrToks as ats) :
    ∀ (c : Ctx), (∀ a ∈ as, a.1 ≠ Lit.xmlns ∧ valueOk a.2 = true) →
    ∃ c', feed (tokenStep T txt lower) ats c = .ok c' ∧
      ∃ new, core c' = { core c with curAttrs := c.curAttrs ++ new } ∧
        (∀ a ∈ new, a.pfx.bytes = []) ∧
        new.map (fun a => (a.loc.bytes, a.value.bytes)) = as := by
  induction h with
  | nil =>
    intro c _
    refine ⟨c, rfl, [], ?_, by simp, rfl⟩
    simp [core]
  | cons an v rg q e o1 o2 o3 _ ih =>
    intro c h
    obtain ⟨h1, h2⟩ := h (an, v) (by simp)
    obtain ⟨c1, hs, hc1⟩ := step_attr T txt lower c rg q e o1 o2 o3 an v h1 h2
    obtain ⟨c2, hf, new, hc2, hp, hm⟩ := ih c1 (fun x hx => h x (by simp [hx]))
    refine ⟨c2, ?_, (⟨⟨o1, []⟩, ⟨o2, an⟩, .borrowed ⟨o3, v⟩, rg, q, e⟩ : TempAttr) :: new, ?_, ?_, ?_⟩
    · rw [feed_cons_ok hs]; exact hf
    · rw [hc2, hc1]
      have : c1.curAttrs =
          c.curAttrs ++ [(⟨⟨o1, []⟩, ⟨o2, an⟩, .borrowed ⟨o3, v⟩, rg, q, e⟩ : TempAttr)] :=
        congrArg Core.curAttrs hc1
      rw [this]
      simp
    · intro x hx
      rcases List.mem_cons.mp hx with rfl | hx
      · rfl
      · exact hp x hx
    · simp only [List.map_cons, hm]
      rfl

theorem processElement_empty (c : Ctx) (s : Nat) (r : Range) (o' p : Nat) (n : Bytes) (hn : n ≠ [])
    (hb : BInv c) (hl : c.nodesLimit ≤ 4294967295) (hroom : c.doc.nodes.size < c.nodesLimit)
    (htag : c.tagName = ⟨[], n, ⟨o', n⟩, p, p + 1⟩)
    (hns1 : c.nsStartIdx = s) (hns2 : c.doc.ns.treeOrder.size = s)
    (hgood : ∀ x ∈ kps c, good s c.doc.attrs.size x.1)
    (hpfx : ∀ a ∈ c.curAttrs, a.pfx.bytes = []) (hnd : (c.curAttrs.map (·.loc.bytes)).Nodup)
    (hlim : c.doc.attrs.size + c.curAttrs.length < 4294967295) :
    ∃ c', processElement txt c .empty r = .ok c' ∧
      ∃ rg new,
        core c' = { core c with nsStartIdx := c.doc.ns.treeOrder.size, curAttrs := [],
                                doc := c'.doc } ∧
        kps c' = kps c ++ [(.element none ⟨o', n⟩ rg (s, s), some c.parentId)] ∧
        c'.doc.ns = c.doc.ns ∧
        c'.doc.attrs.toList = c.doc.attrs.toList ++ new ∧
        new.map akey = c.curAttrs.map (fun a => (none, a.loc.bytes, a.value.bytes)) ∧
        rg.2 ≤ c'.doc.attrs.size ∧ (c'.doc.attrs.toList.drop rg.1).take (rg.2 - rg.1) = new := by
  unfold processElement
  have hne : c.tagName.name.isEmpty = false := by
    rw [htag]; cases n with
    | nil => exact absurd rfl hn
    | cons _ _ => rfl
  simp only [hne, Bool.false_eq_true, if_false]
  obtain ⟨pn, hpn⟩ : ∃ pn, c.doc.nodes[c.parentId]? = some pn :=
    ⟨_, Array.getElem?_eq_getElem hb.pid_lt⟩
  have hg := hgood _ (mem_kps c _ _ hpn)
  rw [resolveNamespaces_flat c s pn hpn (good_flat hg) hns1 hns2]
  simp only [Res.bind_ok]
  obtain ⟨c3, rg, h3, hc3, hn3, hns3, new, hnew, hmap, hrg, htake⟩ :=
    resolveAttributes_ok txt { c with nsStartIdx := c.doc.ns.treeOrder.size, xmlDeclared := false } (s, s) hpfx hnd hlim
  rw [h3]
  simp only [Res.bind_ok]
  have hb3 : BInv c3 := (resolveAttributes_triEq txt _ c3 _ _ h3).binv (hb.congr rfl rfl rfl)
  have ht3 : c3.tagName = c.tagName := by rw [hc3]
  have hs3 : s ≤ c3.doc.ns.treeOrder.size := by rw [hns3]; exact Nat.le_of_eq hns2.symm
  rw [ht3, htag]
  simp only
  rw [getNs_empty txt c3.doc s _ hs3]
  simp only [Res.bind_ok]
  have hl3 : c3.nodesLimit = c.nodesLimit := by rw [hc3]
  obtain ⟨c4, h4, hk4, hc4, ha4, hns4⟩ := appendNode_fwd c3 (.element none ⟨o', n⟩ rg (s, s)) (p, r.2) hb3
    (by rw [hl3]; exact hl) (by rw [hl3, hn3]; exact hroom)
  rw [h4]
  simp only [Res.bind_ok, Res.pure_eq]
  have hpid3 : c3.parentId = c.parentId := by rw [hc3]
  have hcore3 : core c3 =
      { core c with nsStartIdx := c.doc.ns.treeOrder.size, curAttrs := [], doc := c3.doc } := by
    rw [hc3]; rfl
  have hk3 : kps c3 = kps c := by unfold kps; rw [hn3]
  refine ⟨_, rfl, rg, new, ?_, ?_, ?_, ?_, hmap, ?_, ?_⟩
  · show core c4 = _
    rw [hc4, hcore3]
  · show kps c4 = _
    rw [hk4, hk3, hpid3]
  · show c4.doc.ns = _
    rw [hns4, hns3]
  · show c4.doc.attrs.toList = _
    rw [ha4, hnew]
  · show rg.2 ≤ c4.doc.attrs.size
    rw [ha4]; exact hrg
  · show (c4.doc.attrs.toList.drop rg.1).take (rg.2 - rg.1) = new
    rw [ha4]; exact htake

theorem step_empty (c : Ctx) (s : Nat) (r : Range) (o' p : Nat) (n : Bytes) (hn : n ≠ [])
    (hb : BInv c) (hl : c.nodesLimit ≤ 4294967295) (hroom : c.doc.nodes.size < c.nodesLimit)
    (hat : c.afterText.length ≤ 1)
    (htag : c.tagName = ⟨[], n, ⟨o', n⟩, p, p + 1⟩)
    (hns1 : c.nsStartIdx = s) (hns2 : c.doc.ns.treeOrder.size = s)
    (hgood : ∀ x ∈ kps c, good s c.doc.attrs.size x.1)
    (hpfx : ∀ a ∈ c.curAttrs, a.pfx.bytes = []) (hnd : (c.curAttrs.map (·.loc.bytes)).Nodup)
    (hlim : c.doc.attrs.size + c.curAttrs.length < 4294967295) :
    ∃ c', tokenStep T txt lower (.elementEnd .empty r) c = .ok c' ∧
      ∃ rg new,
        core c' = { core c with nsStartIdx := c.doc.ns.treeOrder.size, curAttrs := [],
                                doc := c'.doc, afterText := [] } ∧
        kps c' = kps c ++ [(.element none ⟨o', n⟩ rg (s, s), some c.parentId)] ∧
        c'.doc.ns = c.doc.ns ∧
        c'.doc.attrs.toList = c.doc.attrs.toList ++ new ∧
        new.map akey = c.curAttrs.map (fun a => (none, a.loc.bytes, a.value.bytes)) ∧
        rg.2 ≤ c'.doc.attrs.size ∧ (c'.doc.attrs.toList.drop rg.1).take (rg.2 - rg.1) = new := by
  unfold tokenStep
  dsimp only
  rw [resetAfterText_ok _ (by simpa [Ctx.log] using hat)]
  simp only [Res.bind_ok]
  obtain ⟨c', h, rg, new, hc, hk, h1, h2, h3, h4, h5⟩ :=
    processElement_empty txt { c.log (.token (.elementEnd .empty r)) with afterText := [] } s r o' p n hn
      (hb.congr rfl rfl rfl) hl hroom htag hns1 hns2 hgood hpfx hnd hlim
  exact ⟨c', h, rg, new, hc, hk, h1, h2, h3, h4, h5⟩

end steps

section main
variable (T : Tables) (txt : Bytes) (lower : Token → Ctx → Res Ctx)
  (hlower : ∀ t c c', BInv c → lower t c = .ok c' → BInv c')
include hlower

/-- start tag and attributes -/
theorem build_head (s : Nat) (c : Ctx) (n : Bytes) (as : List (Bytes × Bytes)) (o1 o2 st : Nat)
    (ats : List Token) (hats : AttrToks as ats) (has : attrsOk as = true) (hi : Inv s c) :
    ∃ c2 new, feed (tokenStep T txt lower) (Token.elementStart ⟨o1, []⟩ ⟨o2, n⟩ st :: ats) c = .ok c2 ∧
      BInv c2 ∧
      core c2 = { core c with afterText := [], tagName := ⟨[], n, ⟨o2, n⟩, st, st + 1⟩,
                              curAttrs := new } ∧
      (∀ a ∈ new, a.pfx.bytes = []) ∧ new.map (fun a => (a.loc.bytes, a.value.bytes)) = as := by
  have has' : ∀ a ∈ as, a.1 ≠ Lit.xmlns ∧ valueOk a.2 = true := by
    intro a ha
    simp only [attrsOk, Bool.and_eq_true, List.all_eq_true, bne_iff_ne, ne_eq,
      decide_eq_true_eq] at has
    have := has.1 a ha
    exact ⟨this.1.2, this.2⟩
  obtain ⟨c1, hs1, hc1⟩ := step_start T txt lower c o1 o2 st n hi.at1
  have hb1 := binv_tokenStep T txt lower hlower _ c c1 hi.binv hs1
  obtain ⟨c2, hs2, new, hc2, hpfx, hmap⟩ := feed_attrs2 T txt lower hats c1 has'
  have hb2 := binv_feed _ (binv_tokenStep T txt lower hlower) _ _ _ hb1 hs2
  have cur1 : c1.curAttrs = [] := (congrArg Core.curAttrs hc1).trans hi.cur
  refine ⟨c2, new, ?_, hb2, ?_, hpfx, hmap⟩
  · rw [feed_cons_ok hs1]; exact hs2
  · rw [hc2, hc1, cur1]
    rfl

theorem build_comment2 (s : Nat) (c : Ctx) (body : Bytes) (o : Nat) (r : Range) (hi : Inv s c)
    (hroom : c.doc.nodes.size + 1 ≤ c.nodesLimit) :
    ∃ c', feed (tokenStep T txt lower) [Token.comment ⟨o, body⟩ r] c = .ok c' ∧
      Built s c c' 1 0 (expect c.parentId c.doc.nodes.size (.comment body)) ∧
      c'.afterText = [] := by
  obtain ⟨c', hs, hc, hk, ha, hns⟩ := step_comment T txt lower c o body r
    hi.binv hi.lim (by omega) hi.at1
  have hb' : BInv c' := binv_tokenStep T txt lower hlower _ c c' hi.binv hs
  refine ⟨c', ?_, ?_, congrArg Core.afterText hc⟩
  · rw [feed_cons_ok hs]; rfl
  · simp only [expect]
    exact built_leaf hi hb' (by simp) hc hk ha hns (fun _ => trivial) (fun _ => rfl)

theorem build_text2 (s : Nat) (c : Ctx) (t : Bytes) (o : Nat) (r : Range) (hi : Inv s c)
    (ht : textOk t = true) (hat : c.afterText = [])
    (hroom : c.doc.nodes.size + 1 ≤ c.nodesLimit) :
    ∃ c', feed (tokenStep T txt lower) [Token.text ⟨o, t⟩ r] c = .ok c' ∧
      Built s c c' 1 0 (expect c.parentId c.doc.nodes.size (.text t)) := by
  obtain ⟨c', hs, hc, hk, ha, hns⟩ := step_text T txt lower c o t r
    hi.binv hi.lim (by omega) hat ht
  have hb' : BInv c' := binv_tokenStep T txt lower hlower _ c c' hi.binv hs
  refine ⟨c', ?_, ?_⟩
  · rw [feed_cons_ok hs]; rfl
  · simp only [expect]
    exact built_leaf hi hb' (by simp) hc hk ha hns (fun _ => trivial) (fun _ => rfl)

theorem build_elem_open (s : Nat) (c : Ctx) (n : Bytes) (as : List (Bytes × Bytes)) (ks : List XNode)
    (o1 o2 st o3 o4 : Nat) (r1 r2 : Range) (ats kts : List Token) (hats : AttrToks as ats)
    (ih : ∀ (c : Ctx), Inv s c →
      (∀ k r, ks = k :: r → isText k = true → c.afterText = []) →
      c.doc.nodes.size + countAll ks ≤ c.nodesLimit →
      c.doc.attrs.size + attrCountAll ks < 4294967295 →
      ∃ c', feed (tokenStep T txt lower) kts c = .ok c' ∧
        Built s c c' (countAll ks) (attrCountAll ks) (expectAll c.parentId c.doc.nodes.size ks))
    (hn : nameOk n = true) (has : attrsOk as = true) (hi : Inv s c)
    (hroom : c.doc.nodes.size + (1 + countAll ks) ≤ c.nodesLimit)
    (haroom : c.doc.attrs.size + (as.length + attrCountAll ks) < 4294967295) :
    ∃ c', feed (tokenStep T txt lower)
        ([Token.elementStart ⟨o1, []⟩ ⟨o2, n⟩ st] ++ ats ++ [Token.elementEnd .open r1] ++ kts ++
            [Token.elementEnd (.close ⟨o3, []⟩ ⟨o4, n⟩) r2]) c = .ok c' ∧
      Built s c c' (1 + countAll ks) (as.length + attrCountAll ks)
        (expect c.parentId c.doc.nodes.size (.elem n as ks)) ∧
      c'.afterText = [] := by
  have hn0 : n ≠ [] := by
    intro h; subst h; simp [nameOk] at hn
  have hnd : (as.map (·.1)).Nodup := by
    simp only [attrsOk, Bool.and_eq_true, decide_eq_true_eq] at has
    exact has.2
  -- start tag
  obtain ⟨c2, new, hs2, hb2, hc2, hpfx, hmap⟩ :=
    build_head T txt lower hlower s c n as o1 o2 st ats hats has hi
  have d2 : c2.doc = c.doc := congrArg Core.doc hc2
  have cur2 : c2.curAttrs = new := congrArg Core.curAttrs hc2
  have lim2 : c2.nodesLimit = c.nodesLimit := congrArg Core.nodesLimit hc2
  have at2 : c2.afterText = [] := congrArg Core.afterText hc2
  have tag2 : c2.tagName = ⟨[], n, ⟨o2, n⟩, st, st + 1⟩ := congrArg Core.tagName hc2
  have ns2 : c2.nsStartIdx = c.nsStartIdx := congrArg Core.nsStartIdx hc2
  have pid2 : c2.parentId = c.parentId := congrArg Core.parentId hc2
  have pp2 : c2.parentPrefixes = c.parentPrefixes := congrArg Core.parentPrefixes hc2
  have fl2 : c2.entityFloor = c.entityFloor := congrArg Core.entityFloor hc2
  have k2 : kps c2 = kps c := by unfold kps; rw [d2]
  have hnames : new.map (·.loc.bytes) = as.map (·.1) := by
    rw [← hmap, List.map_map]; rfl
  have hnewlen : new.length = as.length := by
    have := congrArg List.length hmap
    simpa using this
  obtain ⟨c3, hs3, rg, new3, hc3, hk3, hns3, hat3, hmap3, hrg, htake⟩ :=
    step_open T txt lower c2 s r1 o2 st n hn0 hb2 (by rw [lim2]; exact hi.lim)
      (by rw [lim2, d2]; omega) (by rw [at2]; simp) tag2 (by rw [ns2]; exact hi.ns1)
      (by rw [d2]; exact hi.ns2) (by rw [k2, d2]; exact hi.good) (by rw [cur2]; exact hpfx)
      (by rw [cur2, hnames]; exact hnd) (by rw [cur2, d2, hnewlen]; omega)
  have hb3 := binv_tokenStep T txt lower hlower _ c2 c3 hb2 hs3
  obtain ⟨hany, hvals⟩ := akey_split new3 c2.curAttrs hmap3
  have hvals' : new3.map (fun a => (a.localName.bytes, a.value.bytes)) = as := by
    rw [hvals, cur2]; exact hmap
  have hnew3len : new3.length = as.length := by
    have := congrArg List.length hvals'
    simpa using this
  have hview : viewKP c3.doc.attrs.toList
      (Kind.element none ⟨o2, n⟩ rg (s, s), some c2.parentId) =
      some (some c.parentId, XKind.elem n as) := by
    simp only [viewKP, htake, hany, hvals', pid2]
    rfl
  have d3n : c3.doc.nodes.size = c.doc.nodes.size + 1 := by
    have := congrArg List.length hk3
    rw [k2] at this
    simpa [kps_length] using this
  have d3a : c3.doc.attrs.size = c.doc.attrs.size + as.length := by
    have := congrArg List.length hat3
    rw [d2] at this
    simpa [hnew3len] using this
  have lim3 : c3.nodesLimit = c.nodesLimit := (congrArg Core.nodesLimit hc3).trans lim2
  have at3 : c3.afterText = [] := congrArg Core.afterText hc3
  have pid3 : c3.parentId = c.doc.nodes.size := by
    have : c3.parentId = c2.doc.nodes.size := congrArg Core.parentId hc3
    rw [this, d2]
  have pp3 : c3.parentPrefixes = [] :: c.parentPrefixes := by
    have : c3.parentPrefixes = [] :: c2.parentPrefixes := congrArg Core.parentPrefixes hc3
    rw [this, pp2]
  have tag3 : c3.tagName = c2.tagName := congrArg Core.tagName hc3
  have fl3 : c3.entityFloor = c.entityFloor := (congrArg Core.entityFloor hc3).trans fl2
  have hi3 : Inv s c3 := by
    refine ⟨hb3, by rw [lim3]; exact hi.lim, congrArg Core.curAttrs hc3, ?_, by rw [hns3, d2]; exact hi.ns2,
      by rw [fl3, pp3]; exact Nat.le_succ_of_le hi.floor, by rw [at3]; simp, ?_⟩
    · have : c3.nsStartIdx = c2.doc.ns.treeOrder.size := congrArg Core.nsStartIdx hc3
      rw [this, d2]; exact hi.ns2
    · intro x hx
      rw [hk3, k2] at hx
      rcases List.mem_append.mp hx with hx | hx
      · exact good_mono (hi.good x hx) (by rw [d3a]; omega)
      · simp only [List.mem_singleton] at hx
        subst hx
        exact ⟨hrg, rfl⟩
  -- children
  obtain ⟨c4, hs4, hB4⟩ := ih c3 hi3 (fun _ _ _ _ => at3) (by rw [d3n, lim3]; omega)
    (by rw [d3a]; omega)
  obtain ⟨K4, more4, hk4, ha4, hv4⟩ := hB4.grow
  have hi4 := hB4.inv
  have pid4 : c4.parentId = c.doc.nodes.size := hB4.pid.trans pid3
  have hnode : (kps c4)[c.doc.nodes.size]? =
      some (Kind.element none ⟨o2, n⟩ rg (s, s), some c2.parentId) := by
    rw [hk4, hk3, k2]
    rw [List.getElem?_append_left (by simp [kps_length])]
    rw [List.getElem?_append_right (by simp [kps_length])]
    simp [kps_length]
  rw [kps_getElem?] at hnode
  obtain ⟨pn, hpn, hkp⟩ := Option.map_eq_some_iff.mp hnode
  simp only [kp, Prod.mk.injEq] at hkp
  have tag4 : c4.tagName.name ≠ [] := by
    apply hB4.tag
    rw [tag3, tag2]; exact hn0
  -- end tag
  obtain ⟨c5, hs5, hc5, hk5, ha5, hns5⟩ :=
    step_close T txt lower c4 s c.parentId r2 o3 o4 n c.parentPrefixes
      pn none ⟨o2, n⟩ rg (s, s) hi4.at1 tag4 hi4.ns1 hi4.ns2 hi4.cur
      (by rw [hB4.fl, fl3]; exact hi.floor) (hB4.pp.trans pp3)
      (by rw [pid4]; exact hpn) hkp.1 rfl rfl (by rw [hkp.2, pid2])
  have hb5 := binv_tokenStep T txt lower hlower _ c4 c5 hi4.binv hs5
  have at5 : c5.afterText = [] := congrArg Core.afterText hc5
  have lim5 : c5.nodesLimit = c.nodesLimit := (congrArg Core.nodesLimit hc5).trans (hB4.lim.trans lim3)
  have tag5 : c5.tagName = c4.tagName := congrArg Core.tagName hc5
  have fl5 : c5.entityFloor = c.entityFloor :=
    (congrArg Core.entityFloor hc5).trans (hB4.fl.trans fl3)
  have pp5 : c5.parentPrefixes = c.parentPrefixes := congrArg Core.parentPrefixes hc5
  have hi5 : Inv s c5 := by
    refine ⟨hb5, by rw [lim5]; exact hi.lim, (congrArg Core.curAttrs hc5).trans hi4.cur, ?_,
      by rw [hns5]; exact hi4.ns2, by rw [fl5, pp5]; exact hi.floor,
      by rw [at5]; simp, by rw [hk5, ha5]; exact hi4.good⟩
    have : c5.nsStartIdx = c4.doc.ns.treeOrder.size := congrArg Core.nsStartIdx hc5
    rw [this]; exact hi4.ns2
  refine ⟨c5, ?_, ⟨hi5, congrArg Core.parentId hc5, pp5, fl5, lim5,
    fun _ => by rw [tag5]; exact tag4, ?_, ?_, ?_⟩, at5⟩
  · refine feed_append_ok _ _ c c4 c5 ?_ (by rw [feed_cons_ok hs5]; rfl)
    refine feed_append_ok _ _ c c3 c4 ?_ hs4
    refine feed_append_ok _ _ c c2 c3 ?_ (by rw [feed_cons_ok hs3]; rfl)
    exact hs2
  · have h5 : c5.doc.nodes.size = c4.doc.nodes.size := by
      have := congrArg List.length hk5
      simpa [kps_length] using this
    rw [h5, hB4.size, d3n]; omega
  · rw [ha5, hB4.asize, d3a]; omega
  · refine ⟨(Kind.element none ⟨o2, n⟩ rg (s, s), some c2.parentId) :: K4, new3 ++ more4, ?_, ?_, ?_⟩
    · rw [hk5, hk4, hk3, k2]; simp
    · rw [ha5, ha4, hat3, d2]; simp
    · rw [expect, List.map_cons, List.map_cons, ha5]
      congr 1
      · rw [ha4, viewKP_stable s c3.doc.attrs.toList more4
          (Kind.element none ⟨o2, n⟩ rg (s, s), some c2.parentId) ⟨by simpa using hrg, rfl⟩]
        exact hview
      · rw [hv4, pid3, d3n]

theorem build_elem_empty (s : Nat) (c : Ctx) (n : Bytes) (as : List (Bytes × Bytes))
    (o1 o2 st : Nat) (r1 : Range) (ats : List Token) (hats : AttrToks as ats)
    (hn : nameOk n = true) (has : attrsOk as = true) (hi : Inv s c)
    (hroom : c.doc.nodes.size + (1 + countAll []) ≤ c.nodesLimit)
    (haroom : c.doc.attrs.size + (as.length + attrCountAll []) < 4294967295) :
    ∃ c', feed (tokenStep T txt lower)
        ([Token.elementStart ⟨o1, []⟩ ⟨o2, n⟩ st] ++ ats ++ [Token.elementEnd .empty r1]) c = .ok c' ∧
      Built s c c' (1 + countAll []) (as.length + attrCountAll [])
        (expect c.parentId c.doc.nodes.size (.elem n as [])) ∧
      c'.afterText = [] := by
  simp only [countAll, attrCountAll, Nat.add_zero] at hroom haroom ⊢
  have hn0 : n ≠ [] := by
    intro h; subst h; simp [nameOk] at hn
  have hnd : (as.map (·.1)).Nodup := by
    simp only [attrsOk, Bool.and_eq_true, decide_eq_true_eq] at has
    exact has.2
  obtain ⟨c2, new, hs2, hb2, hc2, hpfx, hmap⟩ :=
    build_head T txt lower hlower s c n as o1 o2 st ats hats has hi
  have d2 : c2.doc = c.doc := congrArg Core.doc hc2
  have cur2 : c2.curAttrs = new := congrArg Core.curAttrs hc2
  have lim2 : c2.nodesLimit = c.nodesLimit := congrArg Core.nodesLimit hc2
  have at2 : c2.afterText = [] := congrArg Core.afterText hc2
  have tag2 : c2.tagName = ⟨[], n, ⟨o2, n⟩, st, st + 1⟩ := congrArg Core.tagName hc2
  have ns2 : c2.nsStartIdx = c.nsStartIdx := congrArg Core.nsStartIdx hc2
  have pid2 : c2.parentId = c.parentId := congrArg Core.parentId hc2
  have pp2 : c2.parentPrefixes = c.parentPrefixes := congrArg Core.parentPrefixes hc2
  have fl2 : c2.entityFloor = c.entityFloor := congrArg Core.entityFloor hc2
  have k2 : kps c2 = kps c := by unfold kps; rw [d2]
  have hnames : new.map (·.loc.bytes) = as.map (·.1) := by
    rw [← hmap, List.map_map]; rfl
  have hnewlen : new.length = as.length := by
    have := congrArg List.length hmap
    simpa using this
  obtain ⟨c3, hs3, rg, new3, hc3, hk3, hns3, hat3, hmap3, hrg, htake⟩ :=
    step_empty T txt lower c2 s r1 o2 st n hn0 hb2 (by rw [lim2]; exact hi.lim)
      (by rw [lim2, d2]; omega) (by rw [at2]; simp) tag2 (by rw [ns2]; exact hi.ns1)
      (by rw [d2]; exact hi.ns2) (by rw [k2, d2]; exact hi.good) (by rw [cur2]; exact hpfx)
      (by rw [cur2, hnames]; exact hnd) (by rw [cur2, d2, hnewlen]; omega)
  have hb3 := binv_tokenStep T txt lower hlower _ c2 c3 hb2 hs3
  obtain ⟨hany, hvals⟩ := akey_split new3 c2.curAttrs hmap3
  have hvals' : new3.map (fun a => (a.localName.bytes, a.value.bytes)) = as := by
    rw [hvals, cur2]; exact hmap
  have hnew3len : new3.length = as.length := by
    have := congrArg List.length hvals'
    simpa using this
  have hview : viewKP c3.doc.attrs.toList
      (Kind.element none ⟨o2, n⟩ rg (s, s), some c2.parentId) =
      some (some c.parentId, XKind.elem n as) := by
    simp only [viewKP, htake, hany, hvals', pid2]
    rfl
  have d3n : c3.doc.nodes.size = c.doc.nodes.size + 1 := by
    have := congrArg List.length hk3
    rw [k2] at this
    simpa [kps_length] using this
  have d3a : c3.doc.attrs.size = c.doc.attrs.size + as.length := by
    have := congrArg List.length hat3
    rw [d2] at this
    simpa [hnew3len] using this
  have lim3 : c3.nodesLimit = c.nodesLimit := (congrArg Core.nodesLimit hc3).trans lim2
  have at3 : c3.afterText = [] := congrArg Core.afterText hc3
  have pid3 : c3.parentId = c.parentId := (congrArg Core.parentId hc3).trans pid2
  have pp3 : c3.parentPrefixes = c.parentPrefixes := (congrArg Core.parentPrefixes hc3).trans pp2
  have tag3 : c3.tagName = c2.tagName := congrArg Core.tagName hc3
  have fl3 : c3.entityFloor = c.entityFloor := (congrArg Core.entityFloor hc3).trans fl2
  have hi3 : Inv s c3 := by
    refine ⟨hb3, by rw [lim3]; exact hi.lim, congrArg Core.curAttrs hc3, ?_, by rw [hns3, d2]; exact hi.ns2,
      by rw [fl3, pp3]; exact hi.floor, by rw [at3]; simp, ?_⟩
    · have : c3.nsStartIdx = c2.doc.ns.treeOrder.size := congrArg Core.nsStartIdx hc3
      rw [this, d2]; exact hi.ns2
    · intro x hx
      rw [hk3, k2] at hx
      rcases List.mem_append.mp hx with hx | hx
      · exact good_mono (hi.good x hx) (by rw [d3a]; omega)
      · simp only [List.mem_singleton] at hx
        subst hx
        exact ⟨hrg, rfl⟩
  refine ⟨c3, ?_, ⟨hi3, pid3, pp3, fl3, lim3, fun _ => by rw [tag3, tag2]; exact hn0, ?_, d3a, ?_⟩, at3⟩
  · refine feed_append_ok _ _ c c2 c3 ?_ (by rw [feed_cons_ok hs3]; rfl)
    exact hs2
  · rw [d3n]
  · refine ⟨[(Kind.element none ⟨o2, n⟩ rg (s, s), some c2.parentId)], new3, ?_, ?_, ?_⟩
    · rw [hk3, k2]
    · rw [hat3, d2]
    · rw [expect, expectAll, List.map_cons, List.map_cons, hview]
      rfl

set_option linter.unusedSectionVars false in
mutual
  theorem build_node2 (s : Nat) : ∀ (k : XNode) (ts : List Token) (c : Ctx), TokFor k ts →
      ok k = true → Inv s c →
      (isText k = true → c.afterText = []) →
      c.doc.nodes.size + count k ≤ c.nodesLimit →
      c.doc.attrs.size + attrCount k < 4294967295 →
      ∃ c', feed (tokenStep T txt lower) ts c = .ok c' ∧
        Built s c c' (count k) (attrCount k) (expect c.parentId c.doc.nodes.size k) ∧
        (isText k = false → c'.afterText = [])
    | .elem n as ks, ts, c, hrel, hok, hi, _, hroom, haroom => by
      simp only [ok, Bool.and_eq_true] at hok
      obtain ⟨⟨⟨hn, has⟩, hadj⟩, hks⟩ := hok
      simp only [count] at hroom
      simp only [attrCount] at haroom
      rcases tokFor_elem_inv hrel with
        ⟨o1, o2, st, o3, o4, r1, r2, ats, kts, hats, hkts, rfl⟩ | ⟨hnil, o1, o2, st, r1, ats, hats, rfl⟩
      · obtain ⟨c', h1, h2, h3⟩ := build_elem_open T txt lower hlower s c n as ks o1 o2 st o3 o4 r1 r2
          ats kts hats
          (fun c hi hat hr har => build_all2 s ks kts c hkts hks hadj hi hat hr har) hn has hi hroom
          haroom
        exact ⟨c', h1, by simpa only [count, attrCount] using h2, fun _ => h3⟩
      · subst hnil
        obtain ⟨c', h1, h2, h3⟩ := build_elem_empty T txt lower hlower s c n as o1 o2 st r1
          ats hats hn has hi hroom haroom
        exact ⟨c', h1, by simpa only [count, attrCount] using h2, fun _ => h3⟩
    | .comment b, ts, c, hrel, _, hi, _, hroom, _ => by
      simp only [count] at hroom
      obtain ⟨o, r, rfl⟩ := tokFor_comment_inv hrel
      obtain ⟨c', h1, h2, h3⟩ := build_comment2 T txt lower hlower s c b o r hi hroom
      exact ⟨c', h1, by simpa only [count, attrCount] using h2, fun _ => h3⟩
    | .text t, ts, c, hrel, hok, hi, hat, hroom, _ => by
      simp only [ok] at hok
      simp only [count] at hroom
      obtain ⟨o, r, rfl⟩ := tokFor_text_inv hrel
      obtain ⟨c', h1, h2⟩ := build_text2 T txt lower hlower s c t o r hi hok (hat rfl) hroom
      exact ⟨c', h1, by simpa only [count, attrCount] using h2, fun h => by simp [isText] at h⟩
  theorem build_all2 (s : Nat) : ∀ (ks : List XNode) (ts : List Token) (c : Ctx), TokForAll ks ts →
      okAll ks = true →
      noAdjText ks = true → Inv s c →
      (∀ k r, ks = k :: r → isText k = true → c.afterText = []) →
      c.doc.nodes.size + countAll ks ≤ c.nodesLimit →
      c.doc.attrs.size + attrCountAll ks < 4294967295 →
      ∃ c', feed (tokenStep T txt lower) ts c = .ok c' ∧
        Built s c c' (countAll ks) (attrCountAll ks) (expectAll c.parentId c.doc.nodes.size ks)
    | [], ts, c, hrel, _, _, hi, _, _, _ => by
      have := tokForAll_nil_inv hrel
      subst this
      simp only [countAll, attrCountAll, expectAll]
      exact ⟨c, rfl, Built.refl hi⟩
    | k :: ks, ts, c, hrel, hok, hadj, hi, hat, hroom, haroom => by
      simp only [okAll, Bool.and_eq_true] at hok
      simp only [countAll] at hroom
      simp only [attrCountAll] at haroom
      obtain ⟨t1, t2, hr1, hr2, rfl⟩ := tokForAll_cons_inv hrel
      obtain ⟨c1, h1, hB1, hat1⟩ := build_node2 s k t1 c hr1 hok.1 hi (hat k ks rfl) (by omega) (by omega)
      have hadj' : noAdjText ks = true := by
        cases ks with
        | nil => rfl
        | cons k2 r =>
          simp only [noAdjText, Bool.and_eq_true] at hadj
          exact hadj.2
      obtain ⟨c2, h2, hB2⟩ := build_all2 s ks t2 c1 hr2 hok.2 hadj' hB1.inv
        (by
          intro k2 r hks ht2
          subst hks
          simp only [noAdjText, Bool.and_eq_true, Bool.not_eq_true', Bool.and_eq_false_iff] at hadj
          rcases hadj.1 with h | h
          · exact hat1 h
          · rw [ht2] at h; cases h)
        (by rw [hB1.size, hB1.lim]; omega) (by rw [hB1.asize]; omega)
      rw [hB1.pid, hB1.size] at hB2
      simp only [countAll, attrCountAll, expectAll]
      exact ⟨c2, feed_append_ok _ _ _ _ _ h1 h2, hB1.trans hB2⟩
end

end main

end RtB2

open RtB RtB2

/-- **Builder, every presentation**: if the tokenizer delivered a token list presenting `x` and
succeeded, then `parse` succeeds and the arena, read back in id order, is the root followed by the
nodes of `x` in document order (parents, names, attribute lists, comment bodies, texts). -/
theorem parse_of_tokFor (T : Tables) (txt : Bytes) (opt : Opt)
    (n : Bytes) (as : List (Bytes × Bytes)) (ks : List XNode)
    (hx : ok (.elem n as ks) = true) (toks : List Token) (hrel : TokFor (.elem n as ks) toks)
    (htok : tokenize T txt opt.allowDtd = (toks, .ok ()))
    (hlim : count (.elem n as ks) + 1 ≤ opt.nodesLimit) (hl32 : opt.nodesLimit ≤ 4294967295)
    (hattrs : attrCount (.elem n as ks) < 4294967295) :
    ∃ d, parse T txt opt = .ok d ∧
      d.nodes.toList.map (view d) =
        some (none, XKind.root) :: (expect 0 1 (.elem n as ks)).map some := by
  obtain ⟨c0, h0, l0, ns0, ts0, cur0, fl0, at0, pid0, pp0, attrs0, k0, sz0⟩ := initCtx_ok txt opt
  have hb0 : BInv c0 := binv_init txt opt c0 h0
  have hi0 : Inv 1 c0 := by
    refine ⟨hb0, by rw [l0]; exact hl32, cur0, ns0, ts0, by rw [fl0]; exact Nat.zero_le _,
      by rw [at0]; simp, ?_⟩
    intro x hx
    rw [k0] at hx
    simp only [List.mem_singleton] at hx
    subst hx
    trivial
  obtain ⟨c1, hf, hB, _⟩ := build_node2 T txt (token T txt 11) (binv_token T txt 11) 1 (.elem n as ks)
    toks c0 hrel hx hi0 (by intro h; simp [isText] at h) (by rw [sz0, l0]; omega)
    (by rw [attrs0]; simpa using hattrs)
  obtain ⟨K, more, hk, ha, hv⟩ := hB.grow
  rw [pid0, sz0] at hv
  have hrun : runTokens (token T txt depthFuel) toks (.ok ()) c0 = .ok c1 := by
    unfold runTokens
    have : token T txt depthFuel = tokenStep T txt (token T txt 11) := rfl
    rw [this, hf]
  have hb1 : BInv c1 := hB.inv.binv
  have hhas : rootHasElement c1.doc = .ok true := by
    rw [expect, List.map_cons] at hv
    cases K with
    | nil => simp at hv
    | cons x K' =>
      simp only [List.map_cons, List.cons.injEq] at hv
      obtain ⟨he, hpar⟩ := viewKP_elem hv.1
      have hnode : (kps c1)[1]? = some x := by
        rw [hk, k0]; rfl
      rw [kps_getElem?] at hnode
      obtain ⟨n1, hn1, hkp⟩ := Option.map_eq_some_iff.mp hnode
      subst hkp
      exact rootHasElement_ok c1.doc hb1.wf n1 hn1 hpar he
  refine ⟨{ c1.doc with ns := { c1.doc.ns with sortedOrder := #[] } }, ?_, ?_⟩
  · unfold parse parseCtx
    rw [h0]
    simp only [Res.bind_ok]
    rw [htok]
    simp only
    rw [hrun]
    simp only [Res.bind_ok]
    unfold finish
    rw [hhas]
    have : c1.parentPrefixes.length = 1 := by rw [hB.pp, pp0]; rfl
    simp [this]
  · have hview : ∀ (D : Doc), D.attrs = c1.doc.attrs →
        List.map (view D) c1.doc.nodes.toList = (kps c1).map (viewKP c1.doc.attrs.toList) := by
      intro D hD
      unfold kps
      rw [List.map_map]
      apply List.map_congr_left
      intro nd _
      rw [view_eq, hD]; rfl
    refine (hview _ rfl).trans ?_
    rw [hk, k0, List.map_append, hv]
    rfl

end Rox.Lemmas
