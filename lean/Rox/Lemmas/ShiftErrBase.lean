/-
  Rox.Lemmas.ShiftErrBase — the simulation of `Rox.Lemmas.Shift` strengthened to the error outcome
  and generalised to an arbitrary prefix `ws` of prolog white space: if the original run succeeds
  the shifted run succeeds with the shifted result, and if the original run is rejected with `e`
  the shifted run is rejected with `e.mapPos g`, where `g` is the position map of the prefix.
  This file: the logic, the position facts, the cursor and token levels, the prolog.
-/
import Rox.Lemmas.Shift
import Rox.Props.C14Base

namespace Rox

/-- the error with its position (if it carries one) replaced -/
def Err.mapPos (f : TextPos → TextPos) : Err → Err
  | .invalidXmlPrefixUri p => .invalidXmlPrefixUri (f p)
  | .unexpectedXmlUri p => .unexpectedXmlUri (f p)
  | .unexpectedXmlnsUri p => .unexpectedXmlnsUri (f p)
  | .invalidElementNamePrefix p => .invalidElementNamePrefix (f p)
  | .duplicatedNamespace n p => .duplicatedNamespace n (f p)
  | .unknownNamespace n p => .unknownNamespace n (f p)
  | .unexpectedCloseTag a b p => .unexpectedCloseTag a b (f p)
  | .unexpectedEntityCloseTag p => .unexpectedEntityCloseTag (f p)
  | .unknownEntityReference n p => .unknownEntityReference n (f p)
  | .malformedEntityReference p => .malformedEntityReference (f p)
  | .entityReferenceLoop p => .entityReferenceLoop (f p)
  | .invalidAttributeValue p => .invalidAttributeValue (f p)
  | .duplicatedAttribute n p => .duplicatedAttribute n (f p)
  | .unexpectedDeclaration p => .unexpectedDeclaration (f p)
  | .invalidName p => .invalidName (f p)
  | .nonXmlChar c p => .nonXmlChar c (f p)
  | .invalidChar a b p => .invalidChar a b (f p)
  | .invalidChar2 a b p => .invalidChar2 a b (f p)
  | .invalidString a p => .invalidString a (f p)
  | .invalidExternalID p => .invalidExternalID (f p)
  | .invalidComment p => .invalidComment (f p)
  | .invalidCharacterData p => .invalidCharacterData (f p)
  | .unknownToken p => .unknownToken (f p)
  | e => e

namespace Lemmas

/-- `k` more spaces at the beginning of the first line -/
def shPosSp (k : Nat) (p : TextPos) : TextPos := if p.row = 1 then ⟨1, p.col + k⟩ else p

/-- `k` more line breaks at the beginning -/
def shPosNl (k : Nat) (p : TextPos) : TextPos := ⟨p.row + k, p.col⟩

namespace ShiftE
open Shift
set_option linter.unusedSimpArgs false
set_option linter.unusedVariables false
set_option linter.unusedSectionVars false

/-! ### The simulation with the error clause -/

/-- if `r` succeeds with `a` then `I a` holds and `r'` succeeds with `f a`; if `r` is rejected with
`e` then `r'` is rejected with `e` moved by `g` -/
def ESim {α β} (g : TextPos → TextPos) (I : α → Prop) (f : α → β) (r : Res α) (r' : Res β) : Prop :=
  (∀ a, r = .ok a → I a ∧ r' = .ok (f a)) ∧ (∀ e, r = .err e → r' = .err (e.mapPos g))

abbrev EOkTo {α β} (g : TextPos → TextPos) (f : α → β) (r : Res α) (r' : Res β) : Prop :=
  ESim g (fun _ => True) f r r'

variable {g : TextPos → TextPos}

theorem ESim.ok {α β} {I : α → Prop} {f : α → β} {a : α} {a' : β} (hi : I a) (h : a' = f a) :
    ESim g I f (.ok a) (.ok a') :=
  ⟨fun b hb => (by cases hb; exact ⟨hi, by rw [h]⟩), fun e he => (by cases he)⟩

theorem EOkTo.ok {α β} {f : α → β} {a : α} {a' : β} (h : a' = f a) : EOkTo g f (.ok a) (.ok a') :=
  ESim.ok trivial h

theorem ESim.pure {α β} {I : α → Prop} {f : α → β} {a : α} {a' : β} (hi : I a) (h : a' = f a) :
    ESim g I f (pure a) (pure a') := ESim.ok hi h

/-- the same position-less error on both sides -/
theorem ESim.err {α β} {I : α → Prop} {f : α → β} {e : Err} (he : e.mapPos g = e := by rfl) :
    ESim g I f (.err e) (.err e) :=
  ⟨fun b hb => (by cases hb), fun e' he' => (by cases he'; rw [he])⟩

theorem ESim.err' {α β} {I : α → Prop} {f : α → β} {e e' : Err} (he : e' = e.mapPos g) :
    ESim g I f (.err e) (.err e') :=
  ⟨fun b hb => (by cases hb), fun e' he' => (by cases he'; rw [he])⟩

theorem ESim.panic {α β} {I : α → Prop} {f : α → β} {s : String} {r' : Res β} :
    ESim g I f (.panic s) r' :=
  ⟨fun b hb => (by cases hb), fun e he => (by cases he)⟩
theorem ESim.fuel {α β} {I : α → Prop} {f : α → β} {r' : Res β} : ESim g I f .fuel r' :=
  ⟨fun b hb => (by cases hb), fun e he => (by cases he)⟩

theorem ESim.bind {α α' β β'} {I : α → Prop} {J : β → Prop} {f : α → α'} {h : β → β'}
    {m : Res α} {m' : Res α'} {k : α → Res β} {k' : α' → Res β'}
    (hm : ESim g I f m m') (hk : ∀ a, m = .ok a → I a → ESim g J h (k a) (k' (f a))) :
    ESim g J h (m >>= k) (m' >>= k') := by
  cases m with
  | ok a =>
    obtain ⟨hi, hm'⟩ := hm.1 a rfl
    subst hm'
    exact hk a rfl hi
  | err e =>
    have := hm.2 e rfl
    subst this
    exact ⟨fun b hb => (by cases hb), fun e' he' => (by cases he'; rfl)⟩
  | panic s => exact ESim.panic
  | fuel => exact ESim.fuel

theorem ESim.ite {α β} {I : α → Prop} {f : α → β} {c : Prop} [Decidable c] {a b : Res α}
    {a' b' : Res β} (h1 : c → ESim g I f a a') (h2 : ¬ c → ESim g I f b b') :
    ESim g I f (if c then a else b) (if c then a' else b') := by
  by_cases h : c
  · simp only [h, ↓reduceIte]; exact h1 h
  · simp only [h, ↓reduceIte]; exact h2 h

theorem ESim.weaken {α β} {I J : α → Prop} {f : α → β} {r : Res α} {r' : Res β}
    (h : ESim g I f r r') (hij : ∀ a, r = .ok a → I a → J a) : ESim g J f r r' := by
  refine ⟨?_, h.2⟩
  intro a ha
  obtain ⟨hi, h'⟩ := h.1 a ha
  exact ⟨hij a ha hi, h'⟩

/-- the same computation on both sides, one that is never rejected -/
theorem ESim.same {α} {r : Res α} (h : ∀ e, r ≠ .err e) : EOkTo g (fun a : α => a) r r :=
  ⟨fun a ha => ⟨trivial, ha⟩, fun e he => absurd he (h e)⟩

/-! ### What the simulation needs of the two texts -/

/-- `txt'` is `txt` moved `k` bytes to the right, and `g` is what this does to text positions -/
structure PosSh (g : TextPos → TextPos) (k : Nat) (txt txt' : Bytes) : Prop where
  at_ : ∀ p tp, genTextPos txt p = .ok tp → genTextPos txt' (p + k) = .ok (g tp)
  from_ : ∀ p tp, genTextPosFrom txt p = .ok tp → genTextPosFrom txt' (p + k) = .ok (g tp)
  slice : SliceSh k txt txt'
  len : txt'.length = txt.length + k

theorem genTextPos_noerr (txt : Bytes) (p : Nat) (e : Err) : genTextPos txt p ≠ .err e := by
  unfold genTextPos; split <;> intro h <;> cases h

section
variable {k : Nat} {txt txt' : Bytes}

theorem ESim.errAt {α β} {I : α → Prop} {f : α → β} (H : PosSh g k txt txt') {mk : TextPos → Err}
    {p : Nat} (hmk : ∀ q, (mk q).mapPos g = mk (g q) := by intro _; rfl) :
    ESim g I f (errAt txt mk p) (errAt txt' mk (p + k)) := by
  refine ⟨fun b hb => absurd hb (errAt_ne_ok _ _ _ _), ?_⟩
  intro e he
  unfold Rox.errAt at he ⊢
  cases hp : genTextPos txt p with
  | ok tp =>
    rw [hp] at he
    rw [H.at_ p tp hp]
    cases he
    simp only [hmk]
  | err e' => exact absurd hp (genTextPos_noerr _ _ _)
  | panic s => rw [hp] at he; cases he
  | fuel => rw [hp] at he; cases he

theorem ESim.errFrom {α β} {I : α → Prop} {f : α → β} (H : PosSh g k txt txt') {mk : TextPos → Err}
    {p : Nat} (hmk : ∀ q, (mk q).mapPos g = mk (g q) := by intro _; rfl) :
    ESim g I f (errFrom txt mk p) (errFrom txt' mk (p + k)) := by
  refine ⟨fun b hb => absurd hb (errFrom_ne_ok _ _ _ _), ?_⟩
  intro e he
  unfold Rox.errFrom at he ⊢
  cases hp : genTextPosFrom txt p with
  | ok tp =>
    rw [hp] at he
    rw [H.from_ p tp hp]
    cases he
    simp only [hmk]
  | err e' => exact absurd hp (genTextPos_noerr _ _ _)
  | panic s => rw [hp] at he; cases he
  | fuel => rw [hp] at he; cases he

theorem ESim.errPos {α β} {I : α → Prop} {f : α → β} (H : PosSh g k txt txt') {mk : TextPos → Err}
    {p : Nat} (hmk : ∀ q, (mk q).mapPos g = mk (g q) := by intro _; rfl) :
    ESim g I f (errPos txt mk p) (errPos txt' mk (p + k)) := ESim.errFrom H hmk

end


/-- the first byte of the text, if any, starts a character (true of every valid UTF-8 text) -/
def HeadOk (txt : Bytes) : Prop := ∀ b r, txt = b :: r → isCont b = false

theorem drop_ws (ws txt : Bytes) (p : Nat) : (ws ++ txt).drop (p + ws.length) = txt.drop p := by
  rw [Nat.add_comm, List.drop_append]; simp

theorem isCharBoundary_ws (ws txt : Bytes) (hh : HeadOk txt) (p : Nat) :
    isCharBoundary (ws ++ txt) (p + ws.length) = isCharBoundary txt p := by
  unfold isCharBoundary
  rw [drop_ws]
  cases p with
  | zero =>
    simp only [Nat.zero_add, beq_self_eq_true, ↓reduceIte, List.drop_zero]
    split
    · rfl
    · cases txt with
      | nil => simp
      | cons b r => simp [hh b r rfl]
  | succ p =>
    have h1 : (p + 1 + ws.length == 0) = false := by simp
    have h2 : (p + 1 == 0) = false := by simp
    simp only [h1, h2, Bool.false_eq_true, ↓reduceIte]
    cases txt.drop (p + 1) with
    | nil =>
      simp only [List.length_append]
      rw [Bool.eq_iff_iff]; simp; omega
    | cons b r => rfl

theorem floorBoundary_ws (ws txt : Bytes) (hh : HeadOk txt) (p : Nat) :
    floorBoundary (ws ++ txt) (p + ws.length) = floorBoundary txt p + ws.length := by
  induction p with
  | zero =>
    rw [Rox.Props.C14.floorBoundary_of_boundary]
    · simp [floorBoundary]
    · rw [isCharBoundary_ws ws txt hh 0]; exact Rox.Props.C14.boundary_zero txt
  | succ p ih =>
    rw [Nat.add_right_comm p 1 ws.length]
    unfold floorBoundary
    rw [← Nat.add_right_comm p 1 ws.length, isCharBoundary_ws ws txt hh (p + 1)]
    split
    · rfl
    · exact ih

theorem genTextPos_ok_iff (txt : Bytes) (p : Nat) (tp : TextPos) (h : genTextPos txt p = .ok tp) :
    p ≤ txt.length ∧ isCharBoundary txt p = true ∧ tp = ⟨calcRow txt p, calcCol txt p⟩ := by
  unfold genTextPos at h
  split at h
  · rename_i hc
    simp only [Bool.and_eq_true, decide_eq_true_eq] at hc
    cases h; exact ⟨hc.1, hc.2, rfl⟩
  · cases h

theorem sliceSh_gen (ws txt : Bytes) : SliceSh ws.length txt (ws ++ txt) := by
  intro a b
  unfold sliceBytes
  rw [drop_ws, Nat.add_sub_add_right]

theorem posSh_of (ws txt : Bytes) (hh : HeadOk txt) (g : TextPos → TextPos)
    (hrc : ∀ p, (⟨calcRow (ws ++ txt) (p + ws.length), calcCol (ws ++ txt) (p + ws.length)⟩ : TextPos) =
      g ⟨calcRow txt p, calcCol txt p⟩) : PosSh g ws.length txt (ws ++ txt) := by
  have hat : ∀ p tp, genTextPos txt p = .ok tp → genTextPos (ws ++ txt) (p + ws.length) = .ok (g tp) := by
    intro p tp h
    obtain ⟨h1, h2, h3⟩ := genTextPos_ok_iff txt p tp h
    unfold genTextPos
    have hl : p + ws.length ≤ (ws ++ txt).length := by simp; omega
    simp only [hl, decide_true, isCharBoundary_ws ws txt hh p, h2, Bool.and_self, ↓reduceIte, hrc, h3]
  refine ⟨hat, ?_, sliceSh_gen ws txt, by simp; omega⟩
  intro p tp h
  unfold genTextPosFrom at h ⊢
  have hm : min (p + ws.length) (ws ++ txt).length = min p txt.length + ws.length := by
    simp only [List.length_append]; omega
  rw [hm, floorBoundary_ws ws txt hh]
  exact hat _ _ h

/-! #### line feeds -/

theorem posSh_nl (k : Nat) (txt : Bytes) (hh : HeadOk txt) :
    PosSh (shPosNl k) k txt (List.replicate k 10 ++ txt) := by
  have := posSh_of (List.replicate k 10) txt hh (shPosNl k) (by
    intro p
    simp only [List.length_replicate]
    obtain ⟨h1, h2⟩ := Rox.Props.C14.shift_rows txt k p
    rw [Nat.add_comm p k, h1, h2]
    rfl)
  simpa using this

/-! #### spaces -/

theorem takeWhile_append_of_stop {α} (q : α → Bool) (l r : List α) (h : ∃ b ∈ l, q b = false) :
    (l ++ r).takeWhile q = l.takeWhile q := by
  induction l with
  | nil => obtain ⟨b, hb, _⟩ := h; cases hb
  | cons a l ih =>
    simp only [List.cons_append, List.takeWhile]
    cases hq : q a with
    | false => rfl
    | true =>
      dsimp only
      rw [ih]
      obtain ⟨b, hb, hqb⟩ := h
      cases hb with
      | head => rw [hq] at hqb; cases hqb
      | tail _ hb => exact ⟨b, hb, hqb⟩

theorem posSh_sp (k : Nat) (txt : Bytes) (hh : HeadOk txt) :
    PosSh (shPosSp k) k txt (List.replicate k 32 ++ txt) := by
  have := posSh_of (List.replicate k 32) txt hh (shPosSp k) (by
    intro p
    simp only [List.length_replicate]
    rw [Nat.add_comm p k]
    by_cases hline : ∀ b ∈ txt.take p, b ≠ 10
    · obtain ⟨h1, h2⟩ := Rox.Props.C14.shift_cols txt k p hline
      have hrow : calcRow txt p = 1 := by
        unfold calcRow
        have : (txt.take p).count 10 = 0 := List.count_eq_zero.mpr (fun hm => hline 10 hm rfl)
        omega
      rw [h1, h2, hrow]
      simp [shPosSp]
    · have hex : ∃ b ∈ txt.take p, b = 10 := by
        simpa using hline
      obtain ⟨b, hb, hb10⟩ := hex
      subst hb10
      have htake : (List.replicate k (32 : UInt8) ++ txt).take (k + p) = List.replicate k 32 ++ txt.take p := by
        rw [List.take_append]; simp
      have hrow : calcRow (List.replicate k 32 ++ txt) (k + p) = calcRow txt p := by
        unfold calcRow; rw [htake]; simp [List.count_append, List.count_replicate]
      have hcol : calcCol (List.replicate k 32 ++ txt) (k + p) = calcCol txt p := by
        unfold calcCol; rw [htake]
        simp only [List.reverse_append]
        rw [takeWhile_append_of_stop]
        exact ⟨10, by simpa using hb, by decide⟩
      have hne : calcRow txt p ≠ 1 := by
        unfold calcRow
        have : 0 < (txt.take p).count 10 := List.count_pos_iff.mpr hb
        omega
      rw [hrow, hcol]
      simp [shPosSp, hne])
  simpa using this


/-! ### Cursor level -/

section
variable (T : Tables) {g : TextPos → TextPos} {k : Nat} {txt txt' : Bytes} (H : PosSh g k txt txt')
include H

theorem advance_she (s : Stream) (n : Nat) : EOkTo g (sh k) (s.advance n) ((sh k s).advance n) := by
  unfold Stream.advance
  simp only [sh_rest, sh_pos]
  refine ESim.ite (fun _ => EOkTo.ok ?_) (fun _ => ESim.panic)
  simp only [sh, Nat.add_right_comm]

theorem consumeByte_she (s : Stream) (c : UInt8) :
    EOkTo g (sh k) (s.consumeByte txt c) ((sh k s).consumeByte txt' c) := by
  obtain ⟨p, r⟩ := s
  cases r with
  | nil => exact ESim.err
  | cons b r =>
    simp only [Stream.consumeByte, sh]
    refine ESim.ite (fun _ => (ESim.errAt H)) (fun _ => EOkTo.ok ?_)
    sh_arith

theorem skipString_she (s : Stream) (lit : Bytes) :
    EOkTo g (sh k) (s.skipString txt lit) ((sh k s).skipString txt' lit) := by
  unfold Stream.skipString
  refine ESim.ite (fun _ => (ESim.errAt H)) (fun _ => advance_she H s _)

theorem consumeSpaces_she (s : Stream) :
    EOkTo g (sh k) (s.consumeSpaces T txt) ((sh k s).consumeSpaces T txt') := by
  unfold Stream.consumeSpaces
  simp only [sh_rest]
  cases hr : s.rest with
  | nil => exact ESim.err
  | cons b r =>
    dsimp only
    refine ESim.ite (fun _ => (ESim.errAt H)) (fun _ => EOkTo.ok (skipSpaces_sh T k s))

theorem consumeEq_she (s : Stream) :
    EOkTo g (sh k) (s.consumeEq T txt) ((sh k s).consumeEq T txt') := by
  unfold Stream.consumeEq
  simp only [skipSpaces_sh]
  refine ESim.bind (consumeByte_she H _ _) (fun a _ _ => ?_)
  exact ESim.pure trivial (skipSpaces_sh T k a)

theorem consumeQuote_she (s : Stream) :
    EOkTo g (fun p => (sh k p.1, p.2)) (s.consumeQuote txt) ((sh k s).consumeQuote txt') := by
  obtain ⟨p, r⟩ := s
  cases r with
  | nil => exact ESim.err
  | cons b r =>
    simp only [Stream.consumeQuote, sh]
    refine ESim.ite (fun _ => EOkTo.ok ?_) (fun _ => (ESim.errAt H))
    simp only [Nat.add_right_comm]

end
section
variable (T : Tables) {g : TextPos → TextPos} {k : Nat} {txt txt' : Bytes} (H : PosSh g k txt txt')
include H

theorem skipCharsAux_she (f f' : Stream → Nat → Bool) (hf : ∀ p r c, f' ⟨p + k, r⟩ c = f ⟨p, r⟩ c) :
    ∀ (fuel p : Nat) (r acc : Bytes),
      EOkTo g (fun q => (sh k q.1, q.2)) (Stream.skipCharsAux T txt f fuel ⟨p, r⟩ acc)
        (Stream.skipCharsAux T txt' f' fuel ⟨p + k, r⟩ acc) := by
  intro fuel
  induction fuel with
  | zero => intro p r acc; exact ESim.fuel
  | succ fuel ih =>
    intro p r acc
    cases r with
    | nil => exact EOkTo.ok rfl
    | cons b r =>
      simp only [Stream.skipCharsAux]
      cases hd : decodeChar (b :: r) with
      | none => exact ESim.panic
      | some cw =>
        obtain ⟨c, w⟩ := cw
        dsimp only
        refine ESim.ite (fun _ => (ESim.errAt H)) (fun _ => ?_)
        rw [hf]
        refine ESim.ite (fun _ => ?_) (fun _ => EOkTo.ok rfl)
        refine ESim.ite (fun _ => ?_) (fun _ => ESim.panic)
        rw [Nat.add_right_comm p k w]
        exact ih _ _ _

theorem consumeChars_she (f f' : Stream → Nat → Bool) (hf : ∀ p r c, f' ⟨p + k, r⟩ c = f ⟨p, r⟩ c)
    (s : Stream) :
    EOkTo g (fun q => (sh k q.1, shiftSpan k q.2)) (s.consumeChars T txt f)
      ((sh k s).consumeChars T txt' f') := by
  unfold Stream.consumeChars
  refine ESim.bind (skipCharsAux_she T H f f' hf _ s.pos s.rest []) (fun a _ _ => ?_)
  exact ESim.pure trivial rfl

theorem skipXmlChars_she (s : Stream) :
    EOkTo g (sh k) (s.skipXmlChars T txt) ((sh k s).skipXmlChars T txt') := by
  unfold Stream.skipXmlChars
  refine ESim.bind (skipCharsAux_she T H _ _ (fun _ _ _ => rfl) _ s.pos s.rest [])
    (fun a _ _ => ?_)
  exact ESim.pure trivial rfl

theorem advanceUntil2_she (s : Stream) (n1 n2 : UInt8) :
    EOkTo g (fun q => (sh k q.1, shiftSpan k q.2)) (s.advanceUntil2 n1 n2)
      ((sh k s).advanceUntil2 n1 n2) := by
  unfold Stream.advanceUntil2
  simp only [sh_pos, sh_rest, spanBytesAux_sh]
  refine ESim.ite (fun _ => ESim.err) (fun _ => EOkTo.ok rfl)

theorem skipNameTail_she : ∀ (fuel p : Nat) (r acc : Bytes),
    EOkTo g (fun q => (sh k q.1, q.2)) (Stream.skipNameTail T fuel ⟨p, r⟩ acc)
      (Stream.skipNameTail T fuel ⟨p + k, r⟩ acc) := by
  intro fuel
  induction fuel with
  | zero => intro p r acc; exact ESim.fuel
  | succ fuel ih =>
    intro p r acc
    cases r with
    | nil => exact EOkTo.ok rfl
    | cons b r =>
      simp only [Stream.skipNameTail]
      cases hd : decodeChar (b :: r) with
      | none => exact ESim.panic
      | some cw =>
        obtain ⟨c, w⟩ := cw
        dsimp only
        refine ESim.ite (fun _ => ?_) (fun _ => EOkTo.ok rfl)
        refine ESim.ite (fun _ => ?_) (fun _ => ESim.panic)
        rw [Nat.add_right_comm p k w]
        exact ih _ _ _

theorem skipName_she (s : Stream) :
    EOkTo g (fun q => (sh k q.1, shiftSpan k q.2)) (s.skipName T txt) ((sh k s).skipName T txt') := by
  obtain ⟨p, r⟩ := s
  cases r with
  | nil => exact EOkTo.ok rfl
  | cons b r =>
    simp only [Stream.skipName, sh]
    cases hd : decodeChar (b :: r) with
    | none => exact ESim.panic
    | some cw =>
      obtain ⟨c, w⟩ := cw
      dsimp only
      refine ESim.ite (fun _ => ?_) (fun _ => (ESim.errFrom H))
      refine ESim.ite (fun _ => ?_) (fun _ => ESim.panic)
      rw [Nat.add_right_comm p k w]
      refine ESim.bind (skipNameTail_she T H _ _ _ _) (fun a _ _ => ?_)
      exact ESim.pure trivial rfl

theorem consumeName_she (s : Stream) :
    EOkTo g (fun q => (sh k q.1, shiftSpan k q.2)) (s.consumeName T txt)
      ((sh k s).consumeName T txt') := by
  unfold Stream.consumeName
  refine ESim.bind (skipName_she T H s) (fun a _ _ => ?_)
  obtain ⟨s1, name⟩ := a
  dsimp only [shiftSpan]
  refine ESim.ite (fun _ => (ESim.errFrom H)) (fun _ => ESim.pure trivial rfl)

theorem qnameLoop_she (start : Nat) : ∀ (fuel p : Nat) (r acc : Bytes) (split : Option Nat),
    EOkTo g (fun q => (sh k q.1, q.2.1, q.2.2.map (· + k)))
      (Stream.qnameLoop T txt start fuel ⟨p, r⟩ acc split)
      (Stream.qnameLoop T txt' (start + k) fuel ⟨p + k, r⟩ acc (split.map (· + k))) := by
  intro fuel
  induction fuel with
  | zero => intro p r acc split; exact ESim.fuel
  | succ fuel ih =>
    intro p r acc split
    cases r with
    | nil => exact EOkTo.ok rfl
    | cons b r =>
      simp only [Stream.qnameLoop]
      refine ESim.ite (fun _ => ?_) (fun _ => ?_)
      · refine ESim.ite (fun _ => ?_) (fun _ => ?_)
        · cases split with
          | none =>
            simp only [Option.map_none]
            rw [Nat.add_right_comm p k 1]
            exact ih _ _ _ (some p)
          | some sp => exact (ESim.errFrom H)
        · refine ESim.ite (fun _ => ?_) (fun _ => EOkTo.ok rfl)
          rw [Nat.add_right_comm p k 1]
          exact ih _ _ _ _
      · cases hd : decodeChar (b :: r) with
        | none => exact ESim.panic
        | some cw =>
          obtain ⟨c, w⟩ := cw
          dsimp only
          refine ESim.ite (fun _ => ?_) (fun _ => EOkTo.ok rfl)
          refine ESim.ite (fun _ => ?_) (fun _ => ESim.panic)
          rw [Nat.add_right_comm p k w]
          exact ih _ _ _ _

theorem consumeQName_she (s : Stream) :
    EOkTo g (fun q => (sh k q.1, shiftSpan k q.2.1, shiftSpan k q.2.2)) (s.consumeQName T txt)
      ((sh k s).consumeQName T txt') := by
  unfold Stream.consumeQName
  dsimp only [sh_pos, sh_rest]
  refine ESim.bind (qnameLoop_she T H s.pos _ s.pos s.rest [] none) (fun a _ _ => ?_)
  obtain ⟨s1, all, split⟩ := a
  cases split with
  | none =>
    dsimp only [Option.map_none]
    refine ESim.ite (fun _ => (ESim.errFrom H)) (fun _ => ?_)
    refine ESim.ite (fun _ => (ESim.errFrom H)) (fun _ => ESim.pure trivial rfl)
  | some sp =>
    simp only [Option.map_some, Nat.add_sub_add_right]
    refine ESim.ite (fun _ => (ESim.errFrom H)) (fun _ => ?_)
    refine ESim.ite (fun _ => (ESim.errFrom H)) (fun _ => ESim.pure trivial ?_)
    sh_arith

theorem namedRef_she (s : Stream) :
    EOkTo g (fun q => (sh k q.1, q.2.map (shRef k))) (s.namedRef T txt) ((sh k s).namedRef T txt') := by
  unfold Stream.namedRef
  have h := consumeName_she T H s
  cases hc : s.consumeName T txt with
  | err e =>
    rw [h.2 e hc]
    exact EOkTo.ok rfl
  | panic p => exact ESim.panic
  | fuel => exact ESim.fuel
  | ok q =>
    obtain ⟨s2, name⟩ := q
    rw [(h.1 _ hc).2]
    dsimp only [shiftSpan]
    refine EOkTo.ok ?_
    rw [← finishRef_sh]
    congr 1
    repeat' split
    all_goals first | rfl | skip
    all_goals simp_all

theorem consumeReference_she (s : Stream) :
    EOkTo g (fun q => (sh k q.1, q.2.map (shRef k))) (s.consumeReference T txt)
      ((sh k s).consumeReference T txt') := by
  unfold Stream.consumeReference
  simp only [tryConsumeByte_sh]
  by_cases h1 : (!(s.tryConsumeByte bAmp).2) = true
  · simp only [h1, ↓reduceIte]
    exact EOkTo.ok rfl
  · simp only [h1, ↓reduceIte, Bool.false_eq_true]
    by_cases h2 : ((s.tryConsumeByte bAmp).1.tryConsumeByte bHash).2 = true
    · simp only [h2, ↓reduceIte, numericRef_sh]
      exact EOkTo.ok rfl
    · simp only [h2, ↓reduceIte, Bool.false_eq_true]
      exact namedRef_she T H _

end

/-! ### Token level -/

/-- if `m` succeeds with `a`, then `m'` emits the shifted tokens and succeeds with `f a`; if `m` is
rejected with `e`, then `m'` emits the shifted tokens and is rejected with `e` moved by `g`; however
`m` stops, `m'` begins with the shifted tokens of `m` (the builder sees them first, and its failure
has priority over the way the tokenizer stops) -/
def ESimT {α β} (g : TextPos → TextPos) (k : Nat) (f : α → β) (m : TM α) (m' : TM β) : Prop :=
  (∀ a, m.2 = .ok a → m' = (m.1.map (shTok k), .ok (f a))) ∧
  (∀ e, m.2 = .err e → m' = (m.1.map (shTok k), .err (e.mapPos g))) ∧
  (∃ rest, m'.1 = m.1.map (shTok k) ++ rest)

theorem ESimT.bind {α α' β β'} {k : Nat} {f : α → α'} {h : β → β'} {m : TM α} {m' : TM α'}
    {j : α → TM β} {j' : α' → TM β'}
    (hm : ESimT g k f m m') (hk : ∀ a, m.2 = .ok a → ESimT g k h (j a) (j' (f a))) :
    ESimT g k h (m >>= j) (m' >>= j') := by
  obtain ⟨t1, r⟩ := m
  cases r with
  | ok a =>
    have h1 := hm.1 a rfl
    subst h1
    have h2 := hk a rfl
    refine ⟨?_, ?_, ?_⟩
    · intro b hb
      have hb' : (j a).2 = .ok b := hb
      have h3 := h2.1 b hb'
      show TM.bind' _ j' = (List.map (shTok k) (TM.bind' _ j).1, _)
      simp only [TM.bind', h3, List.map_append]
      rfl
    · intro e he
      have he' : (j a).2 = .err e := he
      have h3 := h2.2.1 e he'
      show TM.bind' _ j' = (List.map (shTok k) (TM.bind' _ j).1, _)
      simp only [TM.bind', h3, List.map_append]
      rfl
    · obtain ⟨rest, h3⟩ := h2.2.2
      refine ⟨rest, ?_⟩
      show (TM.bind' _ j').1 = List.map (shTok k) (TM.bind' _ j).1 ++ rest
      simp only [TM.bind', h3, List.map_append, List.append_assoc]
  | err e =>
    have h1 := hm.2.1 e rfl
    subst h1
    refine ⟨?_, ?_, ⟨[], ?_⟩⟩
    · intro b hb; cases hb
    · intro e' he'
      have : (Res.err e : Res β) = .err e' := he'
      cases this
      rfl
    · show (TM.bind' _ j').1 = List.map (shTok k) (TM.bind' _ j).1 ++ []
      simp only [TM.bind', List.append_nil]
  | panic s =>
    refine ⟨fun b hb => (by cases hb), fun e he => (by cases he), ?_⟩
    obtain ⟨rest, h3⟩ := hm.2.2
    obtain ⟨t1', r'⟩ := m'
    have h3' : t1' = List.map (shTok k) t1 ++ rest := h3
    subst h3'
    show ∃ rest', (TM.bind' _ j').1 = List.map (shTok k) (TM.bind' _ j).1 ++ rest'
    cases r' with
    | ok a' => exact ⟨rest ++ (j' a').1, by simp only [TM.bind', List.append_assoc]⟩
    | err e => exact ⟨rest, rfl⟩
    | panic s' => exact ⟨rest, rfl⟩
    | fuel => exact ⟨rest, rfl⟩
  | fuel =>
    refine ⟨fun b hb => (by cases hb), fun e he => (by cases he), ?_⟩
    obtain ⟨rest, h3⟩ := hm.2.2
    obtain ⟨t1', r'⟩ := m'
    have h3' : t1' = List.map (shTok k) t1 ++ rest := h3
    subst h3'
    show ∃ rest', (TM.bind' _ j').1 = List.map (shTok k) (TM.bind' _ j).1 ++ rest'
    cases r' with
    | ok a' => exact ⟨rest ++ (j' a').1, by simp only [TM.bind', List.append_assoc]⟩
    | err e => exact ⟨rest, rfl⟩
    | panic s' => exact ⟨rest, rfl⟩
    | fuel => exact ⟨rest, rfl⟩

theorem ESimT.lift {α β} {k : Nat} {f : α → β} {r : Res α} {r' : Res β}
    (h : EOkTo g f r r') : ESimT g k f (TM.lift r) (TM.lift r') := by
  refine ⟨?_, ?_, ⟨[], rfl⟩⟩
  · intro a ha
    have ha' : r = .ok a := ha
    have := (h.1 a ha').2
    subst ha'
    simp only [TM.lift, this, List.map_nil]
    rfl
  · intro e he
    have he' : r = .err e := he
    have := h.2 e he'
    subst he'
    simp only [TM.lift, this, List.map_nil]
    rfl

theorem ESimT.pure {α β} {k : Nat} {f : α → β} {a : α} {a' : β} (h : a' = f a) :
    ESimT g k f (pure a : TM α) (pure a' : TM β) := by
  refine ⟨?_, ?_, ⟨[], rfl⟩⟩
  · intro b hb
    have hb' : Res.ok a = .ok b := hb
    cases hb'
    subst h
    rfl
  · intro e he
    have he' : Res.ok a = .err e := he
    cases he'

theorem ESimT.emit {k : Nat} {t t' : Token} (h : t' = shTok k t) :
    ESimT g k (fun u : Unit => u) (TM.emit t) (TM.emit t') := by
  subst h
  refine ⟨?_, ?_, ⟨[], rfl⟩⟩
  · intro b hb
    rfl
  · intro e he
    have he' : Res.ok () = .err e := he
    cases he'

theorem ESimT.ite {α β} {k : Nat} {f : α → β} {c : Prop} [Decidable c] {a b : TM α} {a' b' : TM β}
    (h1 : c → ESimT g k f a a') (h2 : ¬ c → ESimT g k f b b') :
    ESimT g k f (if c then a else b) (if c then a' else b') := by
  by_cases h : c
  · simp only [h, ↓reduceIte]; exact h1 h
  · simp only [h, ↓reduceIte]; exact h2 h

/-- a computation may be replaced by one that agrees with it unless it ran out of fuel, and that
emits at least its tokens in any case -/
theorem ESimT.of_eq {α β} {k : Nat} {f : α → β} {m m2 : TM α} {m' : TM β}
    (h : m.2 ≠ .fuel → m2 = m) (hp : ∃ rest, m2.1 = m.1 ++ rest) (hs : ESimT g k f m2 m') :
    ESimT g k f m m' := by
  refine ⟨?_, ?_, ?_⟩
  · intro a ha
    have : m2 = m := h (by rw [ha]; intro hc; cases hc)
    subst this
    exact hs.1 a ha
  · intro e he
    have : m2 = m := h (by rw [he]; intro hc; cases hc)
    subst this
    exact hs.2.1 e he
  · obtain ⟨r1, h1⟩ := hp
    obtain ⟨r2, h2⟩ := hs.2.2
    exact ⟨r1.map (shTok k) ++ r2, by rw [h2, h1, List.map_append, List.append_assoc]⟩

section
variable (T : Tables) {g : TextPos → TextPos} {k : Nat} {txt txt' : Bytes} (H : PosSh g k txt txt')
include H

theorem isXmlStrAscii_she : ∀ (l : Bytes) (p : Nat),
    EOkTo g (fun u : Unit => u) (isXmlStrAscii T txt p l) (isXmlStrAscii T txt' (p + k) l) := by
  intro l
  induction l with
  | nil => intro p; exact EOkTo.ok rfl
  | cons b r ih =>
    intro p
    simp only [isXmlStrAscii]
    refine ESim.ite (fun _ => (ESim.errFrom H)) (fun _ => ?_)
    rw [Nat.add_right_comm p k 1]
    exact ih _

theorem isXmlStrUnicode_she : ∀ (fuel : Nat) (l : Bytes) (p : Nat),
    EOkTo g (fun u : Unit => u) (isXmlStrUnicode T txt fuel p l)
      (isXmlStrUnicode T txt' fuel (p + k) l) := by
  intro fuel
  induction fuel with
  | zero => intro l p; exact ESim.fuel
  | succ fuel ih =>
    intro l p
    cases l with
    | nil => exact EOkTo.ok rfl
    | cons b r =>
      simp only [isXmlStrUnicode]
      cases hd : decodeChar (b :: r) with
      | none => exact ESim.panic
      | some cw =>
        obtain ⟨c, w⟩ := cw
        dsimp only
        refine ESim.ite (fun _ => (ESim.errFrom H)) (fun _ => ?_)
        rw [Nat.add_right_comm p k w]
        exact ih _ _

theorem isXmlStr_she (v : Span) :
    EOkTo g (fun u : Unit => u) (isXmlStr T txt v) (isXmlStr T txt' (shiftSpan k v)) := by
  unfold isXmlStr
  simp only [shiftSpan_bytes, shiftSpan_off]
  refine ESim.ite (fun _ => isXmlStrAscii_she T H _ _) (fun _ => isXmlStrUnicode_she T H _ _ _)

theorem parseComment_she (s : Stream) :
    ESimT g k (sh k) (parseComment T txt s) (parseComment T txt' (sh k s)) := by
  unfold parseComment
  dsimp only
  refine ESimT.bind (ESimT.lift (advance_she H s 4)) (fun s1 _ => ?_)
  refine ESimT.bind (ESimT.lift (consumeChars_she T H _ _ (fun _ _ _ => rfl) s1)) (fun a _ => ?_)
  obtain ⟨s2, text⟩ := a
  dsimp only
  refine ESimT.bind (ESimT.lift (skipString_she H s2 _)) (fun s3 _ => ?_)
  simp only [shiftSpan_bytes]
  refine ESimT.ite (fun _ => ESimT.lift (ESim.errFrom H)) (fun _ => ?_)
  refine ESimT.ite (fun _ => ESimT.lift (ESim.errFrom H)) (fun _ => ?_)
  refine ESimT.bind (ESimT.emit rfl) (fun _ _ => ESimT.pure rfl)

theorem declConsumeSpaces_she (s : Stream) :
    EOkTo g (sh k) (declConsumeSpaces T txt s) (declConsumeSpaces T txt' (sh k s)) := by
  unfold declConsumeSpaces
  have h1 : (sh k s).startsWithSpace T = s.startsWithSpace T := rfl
  have h2 : (sh k s).startsWith Lit.piEnd = s.startsWith Lit.piEnd := rfl
  have h3 : (sh k s).atEnd = s.atEnd := rfl
  rw [h1, h2, h3, skipSpaces_sh]
  refine ESim.ite (fun _ => EOkTo.ok rfl) (fun _ => ?_)
  refine ESim.ite (fun _ => ?_) (fun _ => EOkTo.ok rfl)
  simp only [sh_rest, sh_pos]
  cases s.rest with
  | nil => exact ESim.panic
  | cons b r => exact ESim.errAt H

theorem parsePi_she (s : Stream) :
    ESimT g k (sh k) (parsePi T txt s) (parsePi T txt' (sh k s)) := by
  unfold parsePi
  dsimp only
  refine ESimT.ite (fun _ => ESimT.lift (ESim.errAt H)) (fun _ => ?_)
  refine ESimT.bind (ESimT.lift (advance_she H s 2)) (fun s1 _ => ?_)
  refine ESimT.bind (ESimT.lift (consumeName_she T H s1)) (fun a _ => ?_)
  obtain ⟨s2, target⟩ := a
  dsimp only
  refine ESimT.bind (ESimT.lift (declConsumeSpaces_she T H s2)) (fun s2' _ => ?_)
  refine ESimT.bind (ESimT.lift (consumeChars_she T H _ _ (fun _ _ _ => rfl) _)) (fun a _ => ?_)
  obtain ⟨s3, content⟩ := a
  dsimp only
  refine ESimT.bind (ESimT.lift (skipString_she H s3 _)) (fun s4 _ => ?_)
  refine ESimT.bind (ESimT.emit ?_) (fun _ _ => ESimT.pure rfl)
  simp only [shiftSpan_bytes, shTok]
  by_cases hc : (!content.bytes.isEmpty) = true
  · simp only [hc, ↓reduceIte]; rfl
  · simp only [hc, ↓reduceIte, Bool.false_eq_true]; rfl

theorem parseMisc_she : ∀ (fuel : Nat) (s : Stream),
    ESimT g k (sh k) (parseMisc T txt fuel s) (parseMisc T txt' fuel (sh k s)) := by
  intro fuel
  induction fuel with
  | zero => intro s; exact ESimT.lift ESim.fuel
  | succ fuel ih =>
    intro s
    simp only [parseMisc, skipSpaces_sh]
    refine ESimT.ite (fun _ => ESimT.pure rfl) (fun _ => ?_)
    refine ESimT.ite (fun _ => ?_) (fun _ => ?_)
    · exact ESimT.bind (parseComment_she T H _) (fun s1 _ => ih s1)
    · refine ESimT.ite (fun _ => ?_) (fun _ => ESimT.pure rfl)
      exact ESimT.bind (parsePi_she T H _) (fun s1 _ => ih s1)

end

section
variable (T : Tables) {g : TextPos → TextPos} {k : Nat} {txt txt' : Bytes} (H : PosSh g k txt txt')
include H

omit H in
theorem currByte_nopos {s : Stream} {e : Err} (h : s.currByte = .err e) : e.mapPos g = e := by
  unfold Stream.currByte at h
  split at h
  · cases h; rfl
  · cases h

omit H in
theorem currByte_she (s : Stream) : EOkTo g (fun c : UInt8 => c) s.currByte s.currByte :=
  ⟨fun a ha => ⟨trivial, ha⟩, fun e he => (by rw [currByte_nopos he]; exact he)⟩

theorem parseExternalId_she (s : Stream) :
    EOkTo g (fun q => (sh k q.1, q.2)) (parseExternalId T txt s) (parseExternalId T txt' (sh k s)) := by
  unfold parseExternalId
  refine ESim.ite (fun _ => ?_) (fun _ => ESim.pure trivial rfl)
  dsimp only
  refine ESim.bind (advance_she H s 6) (fun s1 _ _ => ?_)
  refine ESim.bind (consumeSpaces_she T H s1) (fun s2 _ _ => ?_)
  refine ESim.bind (consumeQuote_she H s2) (fun a _ _ => ?_)
  obtain ⟨s3, quote⟩ := a
  simp only [consumeBytes_sh]
  generalize s3.consumeBytes (fun c => c != quote) = q
  obtain ⟨s4, sp⟩ := q
  dsimp only
  refine ESim.bind (consumeByte_she H s4 _) (fun s5 _ _ => ?_)
  refine ESim.ite (fun _ => ESim.pure trivial rfl) (fun _ => ?_)
  refine ESim.bind (consumeSpaces_she T H s5) (fun s6 _ _ => ?_)
  refine ESim.bind (consumeQuote_she H s6) (fun a _ _ => ?_)
  obtain ⟨s7, quote2⟩ := a
  simp only [consumeBytes_sh]
  generalize s7.consumeBytes (fun c => c != quote2) = q
  obtain ⟨s8, sp2⟩ := q
  dsimp only
  refine ESim.bind (consumeByte_she H s8 _) (fun s9 _ _ => ?_)
  exact ESim.pure trivial rfl

theorem parseEntityDef_she (s : Stream) (isGe : Bool) :
    EOkTo g (fun q => (sh k q.1, q.2.map (shiftSpan k))) (parseEntityDef T txt s isGe)
      (parseEntityDef T txt' (sh k s) isGe) := by
  unfold parseEntityDef
  have hcb : (sh k s).currByte = s.currByte := rfl
  rw [hcb]
  cases hcc : s.currByte with
  | err e => exact ESim.err (currByte_nopos hcc)
  | panic p => exact ESim.panic
  | fuel => exact ESim.fuel
  | ok c =>
    simp only [Res.bind_ok]
    refine ESim.ite (fun _ => ?_) (fun _ => ?_)
    · refine ESim.bind (consumeQuote_she H s) (fun a _ _ => ?_)
      obtain ⟨s3, quote⟩ := a
      simp only [consumeBytes_sh]
      generalize s3.consumeBytes (fun c => c != quote) = q
      obtain ⟨s4, sp⟩ := q
      dsimp only
      refine ESim.bind (consumeByte_she H s4 _) (fun s5 _ _ => ?_)
      exact ESim.pure trivial rfl
    · refine ESim.ite (fun _ => ?_) (fun _ => (ESim.errAt H))
      refine ESim.bind (parseExternalId_she T H s) (fun a _ _ => ?_)
      obtain ⟨s1, isExt⟩ := a
      dsimp only
      refine ESim.ite (fun _ => ?_) (fun _ => (ESim.errAt H))
      refine ESim.ite (fun _ => ?_) (fun _ => ESim.pure trivial rfl)
      rw [skipSpaces_sh]
      refine ESim.ite (fun _ => ?_) (fun _ => ESim.pure trivial rfl)
      refine ESim.bind (advance_she H _ 5) (fun s2 _ _ => ?_)
      refine ESim.bind (consumeSpaces_she T H s2) (fun s3 _ _ => ?_)
      refine ESim.bind (skipName_she T H s3) (fun a _ _ => ?_)
      exact ESim.pure trivial rfl

theorem parseEntityDeclBody_she (s : Stream) (isGe : Bool) :
    ESimT g k (sh k) (parseEntityDeclBody T txt s isGe) (parseEntityDeclBody T txt' (sh k s) isGe) := by
  unfold parseEntityDeclBody
  refine ESimT.bind (ESimT.lift (consumeName_she T H s)) (fun a _ => ?_)
  obtain ⟨s1, name⟩ := a
  dsimp only
  refine ESimT.bind (ESimT.lift (consumeSpaces_she T H s1)) (fun s2 _ => ?_)
  refine ESimT.bind (ESimT.lift (parseEntityDef_she T H s2 isGe)) (fun a _ => ?_)
  obtain ⟨s3, defn⟩ := a
  dsimp only
  have hlast : ESimT g k (sh k) (TM.lift (Stream.consumeByte txt (Stream.skipSpaces T s3) bGt))
      (TM.lift (Stream.consumeByte txt' (Stream.skipSpaces T (sh k s3)) bGt)) := by
    rw [skipSpaces_sh]
    exact ESimT.lift (consumeByte_she H _ _)
  cases defn with
  | none => exact hlast
  | some d =>
    dsimp only [Option.map_some]
    refine ESimT.ite (fun _ => ?_) (fun _ => hlast)
    exact ESimT.bind (ESimT.emit rfl) (fun _ _ => hlast)

theorem parseEntityDecl_she (s : Stream) :
    ESimT g k (sh k) (parseEntityDecl T txt s) (parseEntityDecl T txt' (sh k s)) := by
  unfold parseEntityDecl
  refine ESimT.bind (ESimT.lift (advance_she H s 8)) (fun s1 _ => ?_)
  refine ESimT.bind (ESimT.lift (consumeSpaces_she T H s1)) (fun s2 _ => ?_)
  simp only [tryConsumeByte_sh]
  refine ESimT.ite (fun _ => ?_) (fun _ => parseEntityDeclBody_she T H _ _)
  refine ESimT.bind (ESimT.lift (consumeSpaces_she T H _)) (fun s3 _ => ?_)
  exact parseEntityDeclBody_she T H _ _

theorem consumeDecl_she (s : Stream) :
    consumeDecl txt' (sh k s) = (sh k (consumeDecl txt s).1, (consumeDecl txt s).2) := by
  unfold consumeDecl
  simp only [consumeBytes_sh]
  have hs := consumeByte_she H (s.consumeBytes fun c => c != bGt).1 bGt
  cases hc : Stream.consumeByte txt (s.consumeBytes fun c => c != bGt).1 bGt with
  | ok s2 => rw [(hs.1 _ hc).2]
  | err e => rw [hs.2 _ hc]
  | panic p =>
    -- the shifted `consume_byte` is not `ok` either: that depends on the bytes only
    generalize (s.consumeBytes fun c => c != bGt).1 = s1 at hc ⊢
    obtain ⟨q, r⟩ := s1
    cases r with
    | nil => cases hc
    | cons b r =>
      simp only [Stream.consumeByte, sh] at hc ⊢
      by_cases hb : (b != bGt) = true
      · simp only [hb, ↓reduceIte]
        cases he : (errAt txt' (Err.invalidChar bGt b) (q + k) : Res Stream) with
        | ok s2 => exact absurd he (errAt_ne_ok _ _ _ _)
        | err e => rfl
        | panic p => rfl
        | fuel => rfl
      · simp only [hb, ↓reduceIte] at hc; cases hc
  | fuel =>
    generalize (s.consumeBytes fun c => c != bGt).1 = s1 at hc ⊢
    obtain ⟨q, r⟩ := s1
    cases r with
    | nil => cases hc
    | cons b r =>
      simp only [Stream.consumeByte, sh] at hc ⊢
      by_cases hb : (b != bGt) = true
      · simp only [hb, ↓reduceIte]
        cases he : (errAt txt' (Err.invalidChar bGt b) (q + k) : Res Stream) with
        | ok s2 => exact absurd he (errAt_ne_ok _ _ _ _)
        | err e => rfl
        | panic p => rfl
        | fuel => rfl
      · simp only [hb, ↓reduceIte] at hc; cases hc

theorem parseDoctypeStart_she (s : Stream) :
    EOkTo g (sh k) (parseDoctypeStart T txt s) (parseDoctypeStart T txt' (sh k s)) := by
  unfold parseDoctypeStart
  refine ESim.bind (advance_she H s 9) (fun s1 _ _ => ?_)
  refine ESim.bind (consumeSpaces_she T H s1) (fun s2 _ _ => ?_)
  refine ESim.bind (skipName_she T H s2) (fun a _ _ => ?_)
  obtain ⟨s3, nm⟩ := a
  dsimp only
  rw [skipSpaces_sh]
  refine ESim.bind (parseExternalId_she T H _) (fun a _ _ => ?_)
  obtain ⟨s4, ext⟩ := a
  dsimp only
  rw [skipSpaces_sh]
  have hcb : (sh k (Stream.skipSpaces T s4)).currByte = (Stream.skipSpaces T s4).currByte := rfl
  rw [hcb]
  refine ESim.bind (f := fun c : UInt8 => c) (currByte_she _) (fun c _ _ => ?_)
  exact ESim.ite (fun _ => (ESim.errAt H)) (fun _ => ESim.pure trivial rfl)

theorem doctypeLoop_she (start : Nat) : ∀ (fuel : Nat) (s : Stream),
    ESimT g k (sh k) (doctypeLoop T txt start fuel s) (doctypeLoop T txt' (start + k) fuel (sh k s)) := by
  intro fuel
  induction fuel with
  | zero => intro s; exact ESimT.lift ESim.fuel
  | succ fuel ih =>
    intro s
    simp only [doctypeLoop, skipSpaces_sh]
    refine ESimT.ite (fun _ => ESimT.pure rfl) (fun _ => ?_)
    refine ESimT.ite (fun _ => ?_) (fun _ => ?_)
    · exact ESimT.bind (parseEntityDecl_she T H _) (fun s1 _ => ih s1)
    refine ESimT.ite (fun _ => ?_) (fun _ => ?_)
    · exact ESimT.bind (parseComment_she T H _) (fun s1 _ => ih s1)
    refine ESimT.ite (fun _ => ?_) (fun _ => ?_)
    · exact ESimT.bind (parsePi_she T H _) (fun s1 _ => ih s1)
    refine ESimT.ite (fun _ => ?_) (fun _ => ?_)
    · refine ESimT.bind (ESimT.lift (advance_she H _ 1)) (fun s1 _ => ?_)
      simp only [skipSpaces_sh]
      generalize Stream.skipSpaces T s1 = s2
      obtain ⟨p, r⟩ := s2
      cases r with
      | nil => exact ESimT.lift ESim.err
      | cons c r =>
        simp only [sh]
        refine ESimT.ite (fun _ => ESimT.pure ?_) (fun _ => ESimT.lift (ESim.errAt H))
        sh_arith
    refine ESimT.ite (fun _ => ?_) (fun _ => ESimT.lift (ESim.errAt H))
    rw [consumeDecl_she H]
    generalize consumeDecl txt (Stream.skipSpaces T s) = q
    obtain ⟨s1, failed⟩ := q
    dsimp only
    exact ESimT.ite (fun _ => ESimT.lift (ESim.errFrom H)) (fun _ => ih _)

theorem parseDoctype_she (s : Stream) :
    ESimT g k (sh k) (parseDoctype T txt s) (parseDoctype T txt' (sh k s)) := by
  unfold parseDoctype
  dsimp only
  refine ESimT.bind (ESimT.lift (parseDoctypeStart_she T H s)) (fun s1 _ => ?_)
  simp only [skipSpaces_sh]
  generalize Stream.skipSpaces T s1 = s2
  obtain ⟨p, r⟩ := s2
  cases r with
  | nil => exact ESimT.lift ESim.panic
  | cons c r =>
    simp only [sh]
    refine ESimT.ite (fun _ => ESimT.pure ?_) (fun _ => ?_)
    · sh_arith
    · refine ESimT.bind (ESimT.lift (advance_she H ⟨p, c :: r⟩ 1)) (fun s3 _ => ?_)
      exact doctypeLoop_she T H _ _ _

theorem startTagLoop_she : ∀ (fuel : Nat) (s : Stream),
    ESimT g k (fun q => (sh k q.1, q.2)) (startTagLoop T txt fuel s) (startTagLoop T txt' fuel (sh k s)) := by
  intro fuel
  induction fuel with
  | zero => intro s; exact ESimT.lift ESim.fuel
  | succ fuel ih =>
    intro s
    simp only [startTagLoop, skipSpaces_sh]
    refine ESimT.ite (fun _ => ESimT.pure rfl) (fun _ => ?_)
    have hcb : (sh k (Stream.skipSpaces T s)).currByte = (Stream.skipSpaces T s).currByte := rfl
    have hsp : (sh k s).startsWithSpace T = s.startsWithSpace T := rfl
    rw [hcb, hsp]
    generalize Stream.skipSpaces T s = s0
    refine ESimT.bind (f := fun c : UInt8 => c) (ESimT.lift (currByte_she _)) (fun c _ => ?_)
    refine ESimT.ite (fun _ => ?_) (fun _ => ?_)
    · refine ESimT.bind (ESimT.lift (advance_she H s0 1)) (fun s1 _ => ?_)
      refine ESimT.bind (ESimT.lift (consumeByte_she H s1 _)) (fun s2 _ => ?_)
      exact ESimT.bind (ESimT.emit rfl) (fun _ _ => ESimT.pure rfl)
    refine ESimT.ite (fun _ => ?_) (fun _ => ?_)
    · refine ESimT.bind (ESimT.lift (advance_she H s0 1)) (fun s1 _ => ?_)
      exact ESimT.bind (ESimT.emit rfl) (fun _ _ => ESimT.pure rfl)
    refine ESimT.bind (f := sh k) (ESimT.lift ?_) (fun s1 _ => ?_)
    · exact ESim.ite (fun _ => consumeSpaces_she T H s0) (fun _ => EOkTo.ok rfl)
    refine ESimT.bind (ESimT.lift (consumeQName_she T H s1)) (fun a _ => ?_)
    obtain ⟨s2, pfx, loc⟩ := a
    dsimp only
    refine ESimT.bind (ESimT.lift (consumeEq_she T H s2)) (fun s3 _ => ?_)
    refine ESimT.bind (ESimT.lift (consumeQuote_she H s3)) (fun a _ => ?_)
    obtain ⟨s4, quote⟩ := a
    dsimp only
    refine ESimT.bind (ESimT.lift (advanceUntil2_she H s4 quote bLt)) (fun a _ => ?_)
    obtain ⟨s5, value⟩ := a
    dsimp only
    refine ESimT.bind (ESimT.lift (isXmlStr_she T H value)) (fun _ _ => ?_)
    refine ESimT.bind (ESimT.lift (consumeByte_she H s5 _)) (fun s6 _ => ?_)
    refine ESimT.bind (ESimT.emit ?_) (fun _ _ => ih s6)
    simp only [sh_pos, Nat.add_sub_add_right, shTok, shiftRange]

theorem parseStartTag_she (s : Stream) :
    ESimT g k (fun q => (sh k q.1, q.2)) (parseStartTag T txt s) (parseStartTag T txt' (sh k s)) := by
  unfold parseStartTag
  dsimp only
  refine ESimT.bind (ESimT.lift (advance_she H s 1)) (fun s1 _ => ?_)
  refine ESimT.bind (ESimT.lift (consumeQName_she T H s1)) (fun a _ => ?_)
  obtain ⟨s2, pfx, loc⟩ := a
  dsimp only
  refine ESimT.bind (ESimT.emit rfl) (fun _ _ => ?_)
  refine ESimT.bind (startTagLoop_she T H _ s2) (fun a _ => ?_)
  obtain ⟨s3, fin⟩ := a
  cases fin with
  | none => exact ESimT.lift ESim.err
  | some opened => exact ESimT.pure rfl

theorem parseCdata_she (s : Stream) :
    ESimT g k (sh k) (parseCdata T txt s) (parseCdata T txt' (sh k s)) := by
  unfold parseCdata
  dsimp only
  refine ESimT.bind (ESimT.lift (advance_she H s 9)) (fun s1 _ => ?_)
  refine ESimT.bind (ESimT.lift (consumeChars_she T H _ _ (fun _ _ _ => rfl) s1)) (fun a _ => ?_)
  obtain ⟨s2, text⟩ := a
  dsimp only
  refine ESimT.bind (ESimT.lift (skipString_she H s2 _)) (fun s3 _ => ?_)
  exact ESimT.bind (ESimT.emit rfl) (fun _ _ => ESimT.pure rfl)

theorem parseCloseElement_she (s : Stream) :
    ESimT g k (sh k) (parseCloseElement T txt s) (parseCloseElement T txt' (sh k s)) := by
  unfold parseCloseElement
  dsimp only
  refine ESimT.bind (ESimT.lift (advance_she H s 2)) (fun s1 _ => ?_)
  refine ESimT.bind (ESimT.lift (consumeQName_she T H s1)) (fun a _ => ?_)
  obtain ⟨s2, pfx, loc⟩ := a
  dsimp only
  rw [skipSpaces_sh]
  refine ESimT.bind (ESimT.lift (consumeByte_she H _ _)) (fun s3 _ => ?_)
  exact ESimT.bind (ESimT.emit rfl) (fun _ _ => ESimT.pure rfl)

theorem parseText_she (s : Stream) :
    ESimT g k (sh k) (parseText T txt s) (parseText T txt' (sh k s)) := by
  unfold parseText
  dsimp only
  refine ESimT.bind (ESimT.lift (consumeChars_she T H _ _ (fun _ _ _ => rfl) s)) (fun a _ => ?_)
  obtain ⟨s2, text⟩ := a
  dsimp only [shiftSpan_bytes]
  refine ESimT.ite (fun _ => ESimT.lift (ESim.errAt H)) (fun _ => ?_)
  exact ESimT.bind (ESimT.emit rfl) (fun _ _ => ESimT.pure rfl)

theorem parseContent_she : ∀ (fuel depth : Nat) (s : Stream),
    ESimT g k (sh k) (parseContent T txt fuel depth s) (parseContent T txt' fuel depth (sh k s)) := by
  intro fuel
  induction fuel with
  | zero => intro depth s; exact ESimT.lift ESim.fuel
  | succ fuel ih =>
    intro depth s
    simp only [parseContent, sh_rest]
    cases hr : s.rest with
    | nil => exact ESimT.pure rfl
    | cons c r =>
      dsimp only
      have hnb : (sh k s).nextByte = s.nextByte := rfl
      have hsw : ∀ lit, (sh k s).startsWith lit = s.startsWith lit := fun _ => rfl
      rw [hnb]
      simp only [hsw]
      refine ESimT.ite (fun _ => ?_) (fun _ => ?_)
      · cases hn : s.nextByte with
        | ok n =>
          dsimp only
          refine ESimT.ite (fun _ => ?_) (fun _ => ?_)
          · refine ESimT.ite (fun _ => ?_) (fun _ => ?_)
            · exact ESimT.bind (parseComment_she T H _) (fun s1 _ => ih _ s1)
            refine ESimT.ite (fun _ => ?_) (fun _ => ESimT.lift (ESim.errAt H))
            exact ESimT.bind (parseCdata_she T H _) (fun s1 _ => ih _ s1)
          refine ESimT.ite (fun _ => ?_) (fun _ => ?_)
          · exact ESimT.bind (parsePi_she T H _) (fun s1 _ => ih _ s1)
          refine ESimT.ite (fun _ => ?_) (fun _ => ?_)
          · refine ESimT.bind (parseCloseElement_she T H _) (fun s1 _ => ?_)
            exact ESimT.ite (fun _ => ESimT.pure rfl) (fun _ => ih _ s1)
          · refine ESimT.bind (parseStartTag_she T H _) (fun a _ => ?_)
            obtain ⟨s1, opened⟩ := a
            exact ih _ s1
        | err e => exact ESimT.lift (ESim.errAt H)
        | panic p => exact ESimT.lift (ESim.errAt H)
        | fuel => exact ESimT.lift (ESim.errAt H)
      · exact ESimT.bind (parseText_she T H _) (fun s1 _ => ih _ s1)

theorem parseElement_she (s : Stream) :
    ESimT g k (sh k) (parseElement T txt s) (parseElement T txt' (sh k s)) := by
  unfold parseElement
  refine ESimT.bind (parseStartTag_she T H s) (fun a _ => ?_)
  obtain ⟨s1, opened⟩ := a
  dsimp only
  exact ESimT.ite (fun _ => parseContent_she T H _ _ s1) (fun _ => ESimT.pure rfl)

theorem parseRootElement_she (s : Stream) :
    ESimT g k (sh k) (parseRootElement T txt s) (parseRootElement T txt' (sh k s)) := by
  unfold parseRootElement
  have : (sh k s).currByte? = s.currByte? := rfl
  rw [this]
  exact ESimT.ite (fun _ => parseElement_she T H s) (fun _ => ESimT.pure rfl)

theorem parseBody_she (s : Stream) :
    ESimT g k (fun u : Unit => u) (parseBody T txt s) (parseBody T txt' (sh k s)) := by
  unfold parseBody
  dsimp only
  rw [skipSpaces_sh]
  refine ESimT.bind (parseRootElement_she T H _) (fun s1 _ => ?_)
  refine ESimT.bind (parseMisc_she T H _ s1) (fun s2 _ => ?_)
  have : (sh k s2).atEnd = s2.atEnd := rfl
  rw [this]
  exact ESimT.ite (fun _ => ESimT.lift (ESim.errAt H)) (fun _ => ESimT.pure rfl)

theorem afterProlog_she (allowDtd : Bool) (s : Stream) :
    ESimT g k (fun u : Unit => u) (afterProlog T txt allowDtd s) (afterProlog T txt' allowDtd (sh k s)) := by
  unfold afterProlog
  have : (sh k s).startsWith Lit.doctype = s.startsWith Lit.doctype := rfl
  rw [this]
  refine ESimT.ite (fun _ => ?_) (fun _ => parseBody_she T H s)
  refine ESimT.ite (fun _ => ESimT.lift ESim.err) (fun _ => ?_)
  refine ESimT.bind (parseDoctype_she T H s) (fun s1 _ => ?_)
  refine ESimT.bind (parseMisc_she T H _ s1) (fun s2 _ => ?_)
  exact parseBody_she T H s2

end

/-! ### The prolog: the prefix is eaten by the first `skip_spaces` -/

theorem TM.bind_ne_fuel {α β} {m : TM α} {j : α → TM β} (h : (m >>= j).2 ≠ .fuel) (a : α)
    (ha : m.2 = .ok a) : (j a).2 ≠ .fuel := by
  obtain ⟨t1, r⟩ := m
  have : r = .ok a := ha
  subst this
  exact h

section
variable (T : Tables) (txt : Bytes)

theorem parseMisc_fuel_mono' : ∀ (n : Nat) (s : Stream),
    (parseMisc T txt n s).2 ≠ .fuel → ∀ j, parseMisc T txt (n + j) s = parseMisc T txt n s := by
  intro n
  induction n with
  | zero => intro s h; exact absurd rfl h
  | succ n ih =>
    intro s h j
    rw [Nat.add_right_comm n 1 j]
    simp only [parseMisc] at h ⊢
    by_cases h1 : s.atEnd = true
    · simp only [h1, ↓reduceIte]
    · simp only [h1, ↓reduceIte, Bool.false_eq_true] at h ⊢
      by_cases h2 : (Stream.skipSpaces T s).startsWith Lit.commentStart = true
      · simp only [h2, ↓reduceIte] at h ⊢
        refine TM.bind_congr_ok (fun b hb => ?_)
        exact ih _ (TM.bind_ne_fuel h b hb) j
      · simp only [h2, ↓reduceIte, Bool.false_eq_true] at h ⊢
        by_cases h3 : (Stream.skipSpaces T s).startsWith Lit.piStart = true
        · simp only [h3, ↓reduceIte] at h ⊢
          refine TM.bind_congr_ok (fun b hb => ?_)
          exact ih _ (TM.bind_ne_fuel h b hb) j
        · simp only [h3, ↓reduceIte, Bool.false_eq_true]

theorem TM.bind_prefix {α β} {m : TM α} {j j' : α → TM β}
    (h : ∀ a, m.2 = .ok a → ∃ rest, (j' a).1 = (j a).1 ++ rest) :
    ∃ rest, (m >>= j').1 = (m >>= j).1 ++ rest := by
  obtain ⟨t1, r⟩ := m
  cases r with
  | ok a =>
    obtain ⟨rest, hr⟩ := h a rfl
    refine ⟨rest, ?_⟩
    show (TM.bind' _ j').1 = (TM.bind' _ j).1 ++ rest
    simp only [TM.bind', hr, List.append_assoc]
  | err e => exact ⟨[], (List.append_nil _).symm⟩
  | panic s => exact ⟨[], (List.append_nil _).symm⟩
  | fuel => exact ⟨[], (List.append_nil _).symm⟩

theorem parseMisc_tokens_mono : ∀ (n : Nat) (s : Stream) (j : Nat),
    ∃ rest, (parseMisc T txt (n + j) s).1 = (parseMisc T txt n s).1 ++ rest := by
  intro n
  induction n with
  | zero => intro s j; exact ⟨_, rfl⟩
  | succ n ih =>
    intro s j
    rw [Nat.add_right_comm n 1 j]
    simp only [parseMisc]
    by_cases h1 : s.atEnd = true
    · simp only [h1, ↓reduceIte]; exact ⟨[], (List.append_nil _).symm⟩
    · simp only [h1, ↓reduceIte, Bool.false_eq_true]
      by_cases h2 : (Stream.skipSpaces T s).startsWith Lit.commentStart = true
      · simp only [h2, ↓reduceIte]
        exact TM.bind_prefix (fun b _ => ih b j)
      · simp only [h2, ↓reduceIte, Bool.false_eq_true]
        by_cases h3 : (Stream.skipSpaces T s).startsWith Lit.piStart = true
        · simp only [h3, ↓reduceIte]
          exact TM.bind_prefix (fun b _ => ih b j)
        · simp only [h3, ↓reduceIte, Bool.false_eq_true]; exact ⟨[], (List.append_nil _).symm⟩

theorem skipSpacesAux_wsg (ws : Bytes) (hws : ∀ b ∈ ws, byteIsSpace T b = true) (r : Bytes) :
    ∀ p : Nat, Stream.skipSpacesAux T p (ws ++ r) = Stream.skipSpacesAux T (p + ws.length) r := by
  induction ws with
  | nil => intro p; rfl
  | cons b ws ih =>
    intro p
    have hb : byteIsSpace T b = true := hws b (by simp)
    simp only [List.cons_append, Stream.skipSpacesAux, hb, ↓reduceIte, List.length_cons]
    rw [ih (fun c hc => hws c (by simp [hc]))]
    congr 1; omega

theorem skipSpaces_wsg (ws : Bytes) (hws : ∀ b ∈ ws, byteIsSpace T b = true) (p : Nat) (r : Bytes) :
    Stream.skipSpaces T ⟨p, ws ++ r⟩ = sh ws.length (Stream.skipSpaces T ⟨p, r⟩) := by
  simp only [Stream.skipSpaces, skipSpacesAux_wsg T ws hws, skipSpacesAux_sh]

variable {g : TextPos → TextPos} {txt' : Bytes}

theorem parseMisc_wsg (ws : Bytes) (hws : ∀ b ∈ ws, byteIsSpace T b = true)
    (H : PosSh g ws.length txt txt') (fuel p : Nat) (r : Bytes) :
    ESimT g ws.length (sh ws.length) (parseMisc T txt (fuel + 1) ⟨p, r⟩)
      (parseMisc T txt' (fuel + 1) ⟨p, ws ++ r⟩) := by
  cases r with
  | nil =>
    cases ws with
    | nil =>
      simp only [parseMisc, List.append_nil, Stream.atEnd, List.isEmpty_nil, ↓reduceIte]
      exact ESimT.pure rfl
    | cons b ws =>
      have hsk := skipSpaces_wsg T (b :: ws) hws p []
      simp only [List.append_nil] at hsk
      simp only [parseMisc, List.append_nil, hsk]
      simp [Stream.atEnd, Stream.skipSpaces, Stream.skipSpacesAux, sh, Stream.startsWith,
        Lit.commentStart, Lit.piStart]
      exact ESimT.pure rfl
  | cons b r =>
    simp only [parseMisc, skipSpaces_wsg T ws hws]
    have h1 : (Stream.mk p (b :: r)).atEnd = false := rfl
    have h2 : (Stream.mk p (ws ++ b :: r)).atEnd = false := by
      simp [Stream.atEnd]
    simp only [h1, h2, Bool.false_eq_true, ↓reduceIte]
    have hsw : ∀ (s : Stream) lit, (sh ws.length s).startsWith lit = s.startsWith lit := fun _ _ => rfl
    simp only [hsw]
    refine ESimT.ite (fun _ => ?_) (fun _ => ?_)
    · exact ESimT.bind (parseComment_she T H _) (fun s1 _ => parseMisc_she T H _ s1)
    · refine ESimT.ite (fun _ => ?_) (fun _ => ESimT.pure rfl)
      exact ESimT.bind (parsePi_she T H _) (fun s1 _ => parseMisc_she T H _ s1)

theorem parseProlog_wsg (ws : Bytes) (hws : ∀ b ∈ ws, byteIsSpace T b = true)
    (H : PosSh g ws.length txt (ws ++ txt))
    (hbom : Stream.startsWith ⟨0, txt⟩ Lit.bom = false)
    (hdecl : Stream.startsWithXmlDecl T ⟨0, txt⟩ = false)
    (hbom' : Stream.startsWith ⟨0, ws ++ txt⟩ Lit.bom = false)
    (hdecl' : Stream.startsWithXmlDecl T ⟨0, ws ++ txt⟩ = false) :
    ESimT g ws.length (sh ws.length) (parseProlog T txt) (parseProlog T (ws ++ txt)) := by
  unfold parseProlog
  simp only [Stream.new, hbom, hdecl, hbom', hdecl', Bool.false_eq_true, ↓reduceIte, TM.lift_ok_bind]
  have hlen : (ws ++ txt).length + 1 = txt.length + ws.length + 1 := by
    simp; omega
  rw [hlen]
  refine ESimT.bind ?_ (fun s1 _ => ESimT.pure (skipSpaces_sh T ws.length s1))
  refine ESimT.of_eq (m2 := parseMisc T txt (txt.length + ws.length + 1) ⟨0, txt⟩) (fun hne => ?_) ?_
    (parseMisc_wsg T txt ws hws H _ 0 txt)
  rotate_left
  · have := parseMisc_tokens_mono T txt (txt.length + 1) ⟨0, txt⟩ ws.length
    rw [Nat.add_right_comm] at this
    exact this
  have := parseMisc_fuel_mono' T txt _ _ hne ws.length
  rw [Nat.add_right_comm] at this
  exact this

theorem parseDocument_wsg (ws : Bytes) (hws : ∀ b ∈ ws, byteIsSpace T b = true)
    (H : PosSh g ws.length txt (ws ++ txt))
    (hbom : Stream.startsWith ⟨0, txt⟩ Lit.bom = false)
    (hdecl : Stream.startsWithXmlDecl T ⟨0, txt⟩ = false)
    (hbom' : Stream.startsWith ⟨0, ws ++ txt⟩ Lit.bom = false)
    (hdecl' : Stream.startsWithXmlDecl T ⟨0, ws ++ txt⟩ = false) (allowDtd : Bool) :
    ESimT g ws.length (fun u : Unit => u) (parseDocument T txt allowDtd)
      (parseDocument T (ws ++ txt) allowDtd) := by
  rw [parseDocument_eq, parseDocument_eq]
  exact ESimT.bind (parseProlog_wsg T txt ws hws H hbom hdecl hbom' hdecl')
    (fun s _ => afterProlog_she T H allowDtd s)

end

end ShiftE
end Lemmas
end Rox
