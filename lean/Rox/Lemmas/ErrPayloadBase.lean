/-
  Rox.Lemmas.ErrPayloadBase — the logic used by `ErrPayload`: "every error outcome carries a payload
  taken from the input, every ok outcome satisfies a postcondition", the cursor invariant
  (`Sub`: the remaining bytes are a contiguous piece of the input) and the UTF-8 fact behind
  `nonXmlChar`.
-/
import Rox.Parse
import Rox.Lemmas.Size
import Rox.Lemmas.GrammarUtf8

namespace Rox.Lemmas.EP
open Rox

/-- what an error's payload must be, relative to the input (the same as `PayloadOk`) -/
def POk (txt : Bytes) : Err → Prop
  | .duplicatedNamespace n _ => n <:+: txt
  | .unknownNamespace n _ => n <:+: txt
  | .unknownEntityReference n _ => n <:+: txt
  | .duplicatedAttribute n _ => n <:+: txt
  | .unexpectedCloseTag expected actual _ => expected <:+: txt ∧ actual <:+: txt
  | .nonXmlChar c _ => encodeChar c <:+: txt
  | .invalidChar _ actual _ => actual ∈ txt
  | .invalidChar2 _ actual _ => actual ∈ txt
  | _ => True

/-! ### lists -/

theorem mem_of_infix {b : UInt8} {l txt : Bytes} (h : l <:+: txt) (hb : b ∈ l) : b ∈ txt :=
  h.subset hb

theorem singleton_infix {b : UInt8} {txt : Bytes} (h : b ∈ txt) : [b] <:+: txt := by
  obtain ⟨s, t, rfl⟩ := List.mem_iff_append.mp h
  exact ⟨s, t, by simp⟩

theorem infix_of_append_left {a b txt : Bytes} (h : (a ++ b) <:+: txt) : a <:+: txt :=
  (List.prefix_append a b).isInfix.trans h

theorem infix_of_append_right {a b txt : Bytes} (h : (a ++ b) <:+: txt) : b <:+: txt :=
  (List.suffix_append a b).isInfix.trans h

theorem slice_infix (txt : Bytes) (a b : Nat) : sliceBytes txt a b <:+: txt :=
  (List.take_prefix _ _).isInfix.trans (List.drop_suffix _ _).isInfix

theorem drop_infix {l txt : Bytes} (n : Nat) (h : l <:+: txt) : l.drop n <:+: txt :=
  (List.drop_suffix _ _).isInfix.trans h

theorem take_infix {l txt : Bytes} (n : Nat) (h : l <:+: txt) : l.take n <:+: txt :=
  (List.take_prefix _ _).isInfix.trans h

theorem tail_infix {b : UInt8} {l txt : Bytes} (h : (b :: l) <:+: txt) : l <:+: txt :=
  (List.suffix_cons b l).isInfix.trans h

/-! ### UTF-8: a character decoded anywhere inside a valid text is written there -/

theorem take_encode_of_valid : ∀ (n : Nat) (pre m : Bytes) (c w : Nat), pre.length ≤ n →
    ValidUtf8 (pre ++ m) → decodeChar m = some (c, w) → m.take w = encodeChar c := by
  intro n
  induction n using Nat.strongRecOn with
  | _ n ih =>
    intro pre m c w hn hv hd
    cases pre with
    | nil =>
      simp only [List.nil_append] at hv
      exact (gp_decode_facts m hv c w hd).2.2.1
    | cons b pre' =>
      obtain ⟨c0, w0, hd0, _, hrest⟩ := (valid_cons b (pre' ++ m)).mp hv
      have hw0 := decodeChar_width _ _ _ hd0
      by_cases hle : w0 ≤ (b :: pre').length
      · have hdrop : (b :: (pre' ++ m)).drop w0 = (b :: pre').drop w0 ++ m := by
          rw [← List.cons_append, List.drop_append_of_le_length hle]
        rw [hdrop] at hrest
        have hlen : ((b :: pre').drop w0).length < n := by
          simp only [List.length_drop, List.length_cons] at hn ⊢; omega
        exact ih _ hlen _ m c w (Nat.le_refl _) hrest hd
      · exfalso
        have hk : (b :: pre').length < w0 := by omega
        obtain ⟨b', r', hdr, hc⟩ := decodeChar_cont _ c0 w0 (b :: pre').length hd0 (by simp) hk
        rw [← List.cons_append, List.drop_left] at hdr
        rw [hdr] at hd
        have := decodeChar_head b' r' c w hd
        rw [this] at hc; cases hc

theorem decode_infix (txt : Bytes) (hv : ValidUtf8 txt) (l : Bytes) (hl : l <:+: txt) (c w : Nat)
    (hd : decodeChar l = some (c, w)) : encodeChar c <:+: txt := by
  obtain ⟨pre, post, rfl⟩ := hl
  have hw := decodeChar_width l c w hd
  have hd' : decodeChar (l ++ post) = some (c, w) := by
    have := decodeChar_take l (l.drop w ++ post) c w hd
    rwa [← List.append_assoc, List.take_append_drop] at this
  have hv' : ValidUtf8 (pre ++ (l ++ post)) := by rwa [← List.append_assoc]
  have h := take_encode_of_valid _ pre (l ++ post) c w (Nat.le_refl _) hv' hd'
  rw [List.take_append_of_le_length hw.2.2] at h
  rw [← h]
  exact ⟨pre, l.drop w ++ post, by rw [List.append_assoc, ← List.append_assoc (l.take w), List.take_append_drop, List.append_assoc]⟩

/-! ### The logic -/

/-- every error outcome has a payload from the input, every ok outcome satisfies `Q` -/
structure HT (txt : Bytes) {α : Type} (r : Res α) (Q : α → Prop) : Prop where
  ok : ∀ a, r = .ok a → Q a
  err : ∀ e, r = .err e → POk txt e

theorem ht_ok (txt : Bytes) {α} {Q : α → Prop} (a : α) (h : Q a) : HT txt (Res.ok a) Q :=
  ⟨(by intro a' h'; cases h'; exact h), (by intro e h'; cases h')⟩
theorem ht_pure (txt : Bytes) {α} {Q : α → Prop} (a : α) (h : Q a) : HT txt (pure a : Res α) Q :=
  ht_ok txt a h
theorem ht_panic (txt : Bytes) {α} {Q : α → Prop} (s : String) : HT txt (Res.panic s : Res α) Q :=
  ⟨(by intro a' h'; cases h'), (by intro e h'; cases h')⟩
theorem ht_fuel (txt : Bytes) {α} {Q : α → Prop} : HT txt (Res.fuel : Res α) Q :=
  ⟨(by intro a' h'; cases h'), (by intro e h'; cases h')⟩
theorem ht_err (txt : Bytes) {α} {Q : α → Prop} (e : Err) (h : POk txt e) :
    HT txt (Res.err e : Res α) Q :=
  ⟨(by intro a' h'; cases h'), (by intro e' h'; cases h'; exact h)⟩

theorem genTextPos_noerr (txt : Bytes) (p : Nat) (e : Err) : genTextPos txt p ≠ .err e := by
  unfold genTextPos; split <;> intro h <;> cases h

theorem ht_errAt (txt : Bytes) {α} {Q : α → Prop} (mk : TextPos → Err) (p : Nat)
    (hmk : ∀ tp, POk txt (mk tp)) : HT txt (errAt txt mk p : Res α) Q := by
  constructor
  · intro a h; exact absurd h (errAt_ne_ok _ _ _ _)
  · intro e h
    unfold errAt at h
    split at h
    · cases h; exact hmk _
    · rename_i e' he; exact absurd he (genTextPos_noerr _ _ _)
    · cases h
    · cases h

theorem ht_errFrom (txt : Bytes) {α} {Q : α → Prop} (mk : TextPos → Err) (p : Nat)
    (hmk : ∀ tp, POk txt (mk tp)) : HT txt (errFrom txt mk p : Res α) Q := by
  constructor
  · intro a h; exact absurd h (errFrom_ne_ok _ _ _ _)
  · intro e h
    unfold errFrom genTextPosFrom at h
    split at h
    · cases h; exact hmk _
    · rename_i e' he; exact absurd he (genTextPos_noerr _ _ _)
    · cases h
    · cases h

theorem ht_errPos (txt : Bytes) {α} {Q : α → Prop} (mk : TextPos → Err) (p : Nat)
    (hmk : ∀ tp, POk txt (mk tp)) : HT txt (errPos txt mk p : Res α) Q := ht_errFrom txt mk p hmk

theorem ht_bind (txt : Bytes) {α β} {Q : α → Prop} {R : β → Prop} (m : Res α) (k : α → Res β)
    (hm : HT txt m Q) (hk : ∀ a, Q a → HT txt (k a) R) : HT txt (m >>= k) R := by
  cases m with
  | ok a => exact hk a (hm.ok a rfl)
  | err e =>
    exact ⟨(by intro b h; cases h), fun e' h => by rw [Res.bind_err] at h; cases h; exact hm.err e rfl⟩
  | panic s => exact ⟨(by intro b h; cases h), (by intro e h; cases h)⟩
  | fuel => exact ⟨(by intro b h; cases h), (by intro e h; cases h)⟩

/-- the same, keeping the equation -/
theorem ht_bind_eq (txt : Bytes) {α β} {Q : α → Prop} {R : β → Prop} (m : Res α) (k : α → Res β)
    (hm : HT txt m Q) (hk : ∀ a, m = .ok a → Q a → HT txt (k a) R) : HT txt (m >>= k) R := by
  cases m with
  | ok a => exact hk a rfl (hm.ok a rfl)
  | err e =>
    exact ⟨(by intro b h; cases h), fun e' h => by rw [Res.bind_err] at h; cases h; exact hm.err e rfl⟩
  | panic s => exact ⟨(by intro b h; cases h), (by intro e h; cases h)⟩
  | fuel => exact ⟨(by intro b h; cases h), (by intro e h; cases h)⟩

theorem ht_weaken (txt : Bytes) {α} {Q Q' : α → Prop} {r : Res α} (h : HT txt r Q)
    (hq : ∀ a, Q a → Q' a) : HT txt r Q' :=
  ⟨fun a ha => hq a (h.ok a ha), h.err⟩

theorem ht_true (txt : Bytes) {α} {Q : α → Prop} {r : Res α} (h : HT txt r Q) :
    HT txt r (fun _ => True) := ht_weaken txt h (fun _ _ => trivial)

/-- add what the equation gives -/
theorem ht_and_ok (txt : Bytes) {α} {Q Q' : α → Prop} {r : Res α} (h : HT txt r Q)
    (hq : ∀ a, r = .ok a → Q' a) : HT txt r (fun a => Q a ∧ Q' a) :=
  ⟨fun a ha => ⟨h.ok a ha, hq a ha⟩, h.err⟩

/-! ### Tokens -/

/-- the strings of a token the builder may put into an error are pieces of the input; a qualified
name is one piece (`prefix:local`, or `local`) -/
def TokP (txt : Bytes) : Token → Prop
  | .entityDecl _ v => v.bytes <:+: txt
  | .elementStart p l _ => p.bytes <:+: txt ∧ genQNameString p.bytes l.bytes <:+: txt
  | .attribute _ _ _ p l v => p.bytes <:+: txt ∧ l.bytes <:+: txt ∧ v.bytes <:+: txt
  | .elementEnd (.close p l) _ => genQNameString p.bytes l.bytes <:+: txt
  | _ => True

/-- token-emitting computations: every token emitted (also before a failure) is `TokP` -/
structure HTT (txt : Bytes) {α : Type} (m : TM α) (Q : α → Prop) : Prop where
  toks : ∀ t ∈ m.1, TokP txt t
  res : HT txt m.2 Q

theorem htt_pure (txt : Bytes) {α} {Q : α → Prop} (a : α) (h : Q a) : HTT txt (pure a : TM α) Q :=
  ⟨(by intro t ht; cases ht), ht_ok txt a h⟩
theorem htt_emit (txt : Bytes) (t : Token) (h : TokP txt t) :
    HTT txt (TM.emit t) (fun _ => True) :=
  ⟨by intro t' ht; simp only [TM.emit, List.mem_singleton] at ht; subst ht; exact h,
   ht_ok txt () trivial⟩
theorem htt_lift (txt : Bytes) {α} {Q : α → Prop} (r : Res α) (h : HT txt r Q) :
    HTT txt (TM.lift r) Q :=
  ⟨(by intro t ht; cases ht), h⟩

theorem htt_bind (txt : Bytes) {α β} {Q : α → Prop} {R : β → Prop} (m : TM α) (k : α → TM β)
    (hm : HTT txt m Q) (hk : ∀ a, Q a → HTT txt (k a) R) : HTT txt (m >>= k) R := by
  obtain ⟨t1, r⟩ := m
  cases r with
  | ok a =>
    have h2 := hk a (hm.res.ok a rfl)
    constructor
    · intro t ht
      have ht' : t ∈ t1 ++ (k a).1 := ht
      rcases List.mem_append.mp ht' with h | h
      · exact hm.toks t h
      · exact h2.toks t h
    · exact h2.res
  | err e =>
    exact ⟨hm.toks, ⟨(by intro b h; cases h), fun e' h => by
      have h' : (Res.err e : Res β) = .err e' := h
      cases h'; exact hm.res.err e rfl⟩⟩
  | panic s => exact ⟨hm.toks, ⟨(by intro b h; cases h), (by intro e h; cases h)⟩⟩
  | fuel => exact ⟨hm.toks, ⟨(by intro b h; cases h), (by intro e h; cases h)⟩⟩

theorem htt_weaken (txt : Bytes) {α} {Q Q' : α → Prop} {m : TM α} (h : HTT txt m Q)
    (hq : ∀ a, Q a → Q' a) : HTT txt m Q' :=
  ⟨h.toks, ht_weaken txt h.res hq⟩

/-! ### The cursor invariant -/

/-- the remaining bytes are a contiguous piece of the input -/
def Sub (txt : Bytes) (s : Stream) : Prop := s.rest <:+: txt

theorem sub_mk {txt : Bytes} {p : Nat} {l : Bytes} (h : l <:+: txt) : Sub txt ⟨p, l⟩ := h

theorem sub_new (txt : Bytes) : Sub txt (Stream.new txt) := List.infix_refl _

theorem sub_ofRange (txt : Bytes) (a b : Nat) : Sub txt (Stream.ofRange txt a b) :=
  slice_infix txt a b

/-! ### Automation -/

/-- try the given lemmas / induction hypotheses -/
syntax "ht_try" term,* : tactic
macro_rules
  | `(tactic| ht_try) => `(tactic| fail "no lemma")
  | `(tactic| ht_try $t:term) => `(tactic| (apply $t <;> assumption))
  | `(tactic| ht_try $t:term, $ts:term,*) => `(tactic| first | (apply $t <;> assumption) | ht_try $ts,*)

/-- close a side goal -/
syntax "ht_side" : tactic
macro_rules
  | `(tactic| ht_side) => `(tactic| first
    | assumption
    | trivial
    | exact List.nil_infix
    | exact ⟨by assumption, by assumption⟩
    | exact ⟨by assumption, by assumption, by assumption⟩
    | exact ⟨by assumption, by assumption, by assumption, by assumption⟩)

/-- one step -/
syntax "ht_step" term,* : tactic
macro_rules
  | `(tactic| ht_step $ts:term,*) => `(tactic| first
    | (rename_i h; have h1 := And.left h; have h2 := And.right h; clear h)
    | (refine ht_ok _ _ ?_; ht_side)
    | (refine ht_pure _ _ ?_; ht_side)
    | exact ht_panic _ _
    | exact ht_fuel _
    | (refine ht_err _ _ ?_; ht_side)
    | (refine ht_errAt _ _ _ (fun _ => ?_); ht_side)
    | (refine ht_errFrom _ _ _ (fun _ => ?_); ht_side)
    | (refine ht_errPos _ _ _ (fun _ => ?_); ht_side)
    | (refine htt_pure _ _ ?_; ht_side)
    | (refine htt_emit _ _ ?_; ht_side)
    | assumption
    | ht_try $ts,*
    | with_reducible apply ht_bind
    | with_reducible apply htt_bind
    | with_reducible apply htt_lift
    | intro _
    | split
    | dsimp only)

syntax "ht" ("using" term,*)? : tactic
macro_rules
  | `(tactic| ht) => `(tactic| repeat' ht_step)
  | `(tactic| ht using $ts:term,*) => `(tactic| repeat' ht_step $ts,*)

end Rox.Lemmas.EP
