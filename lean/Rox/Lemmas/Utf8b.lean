/-
  Rox.Lemmas.Utf8b — more UTF-8 theory: concatenation, splitting at ASCII bytes, and
  `char::encode_utf8` followed by decoding.
-/
import Rox.Lemmas.StreamCalc

namespace Rox.Lemmas
open Rox

theorem valid_append : ∀ (n : Nat) (a b : Bytes), a.length ≤ n → ValidUtf8 a → ValidUtf8 b →
    ValidUtf8 (a ++ b) := by
  intro n
  induction n with
  | zero =>
    intro a b hl _ hb
    have : a = [] := List.eq_nil_of_length_eq_zero (by omega)
    subst this; simpa using hb
  | succ n ih =>
    intro a b hl ha hb
    cases a with
    | nil => simpa using hb
    | cons x r =>
      obtain ⟨c, w, hd, hok, hrest⟩ := (valid_cons x r).mp ha
      have hw := decodeChar_width _ _ _ hd
      simp only [List.length_cons] at hw hl
      have hsplit : (x :: r) ++ b = (x :: r).take w ++ ((x :: r).drop w ++ b) := by
        rw [← List.append_assoc, List.take_append_drop]
      have hd' := decodeChar_take (x :: r) ((x :: r).drop w ++ b) c w hd
      rw [← hsplit] at hd'
      rw [List.cons_append, valid_cons]
      refine ⟨c, w, by rw [← List.cons_append]; exact hd', hok, ?_⟩
      rw [← List.cons_append, List.drop_append_of_le_length (by simp only [List.length_cons]; omega)]
      apply ih _ _ _ hrest hb
      simp only [List.length_drop, List.length_cons]; omega

theorem valid_app {a b : Bytes} (ha : ValidUtf8 a) (hb : ValidUtf8 b) : ValidUtf8 (a ++ b) :=
  valid_append a.length a b (Nat.le_refl _) ha hb

theorem isCont_ascii (a : UInt8) (h : a < 128) : isCont a = false := by
  unfold isCont
  have : ¬ (0x80 : UInt8) ≤ a := by
    intro h2; exact absurd (UInt8.lt_of_lt_of_le h h2) (UInt8.lt_irrefl _)
  simp [this]

theorem valid_ascii_cons (a : UInt8) (y : Bytes) (h : a < 128) (hy : ValidUtf8 y) : ValidUtf8 (a :: y) := by
  rw [valid_cons]
  refine ⟨a.toNat, 1, decodeChar_ascii a y h, ?_, by simpa using hy⟩
  have : a.toNat < 128 := by
    have := UInt8.lt_iff_toNat_lt.mp h; simpa using this
  simp [charOk, isScalar]; omega

/-- A valid string splits at every ASCII byte (ASCII bytes are never inside a character). -/
theorem valid_split_ascii (x : Bytes) (a : UInt8) (y : Bytes) (h : a < 128) :
    ValidUtf8 (x ++ a :: y) ↔ ValidUtf8 x ∧ ValidUtf8 y := by
  constructor
  · intro hv
    have hay : ValidUtf8 (a :: y) := by
      have := valid_drop_boundary (x ++ a :: y).length (x ++ a :: y) x.length (Nat.le_refl _) hv
        (by intro b r hbr; simp at hbr; rw [← hbr.1]; exact isCont_ascii a h)
      simpa using this
    refine ⟨?_, valid_ascii_tail a y h hay⟩
    have := valid_prefix (x ++ a :: y) x.length hv (by simpa using hay)
    simpa using this
  · rintro ⟨hx, hy⟩
    exact valid_app hx (valid_ascii_cons a y h hy)

/-- What precedes an ASCII byte (or the end) of a valid string is valid. -/
theorem valid_before_ascii (x : Bytes) (a : UInt8) (y : Bytes) (h : a < 128)
    (hv : ValidUtf8 (x ++ a :: y)) : ValidUtf8 x := ((valid_split_ascii x a y h).mp hv).1

/-! ### `encode_utf8` -/

theorem ofNat_toNat (n : Nat) (h : n < 256) : (UInt8.ofNat n).toNat = n := by
  simp [UInt8.toNat_ofNat']; omega

theorem lt_lit (n : Nat) (k : UInt8) (kn : Nat) (hk : k.toNat = kn) (h : n < 256) :
    UInt8.ofNat n < k ↔ n < kn := by
  rw [UInt8.lt_iff_toNat_lt, ofNat_toNat n h, hk]

theorem isCont_ofNat (n : Nat) (h1 : 128 ≤ n) (h2 : n < 192) : isCont (UInt8.ofNat n) = true := by
  unfold isCont
  have a : (0x80 : UInt8) ≤ UInt8.ofNat n := by
    rw [UInt8.le_iff_toNat_le, ofNat_toNat n (by omega)]; exact h1
  have b : UInt8.ofNat n < (0xC0 : UInt8) := (lt_lit n _ 192 (by decide) (by omega)).mpr h2
  simp [a, b]

/-- Decoding what `encode_utf8` wrote gives the character back, with its width. -/
theorem decode_encode (c : Nat) (hc : c < 0x110000) (r : Bytes) :
    decodeChar (encodeChar c ++ r) = some (c, charLen c) := by
  unfold encodeChar charLen
  split
  · rename_i h
    have a : UInt8.ofNat c < (0x80 : UInt8) := (lt_lit c _ 128 (by decide) (by omega)).mpr h
    simp [decodeChar, a, ofNat_toNat c (by omega)]
  · rename_i h1
    split
    · rename_i h2
      have n0 : 0xC0 + c / 64 < 256 := by omega
      have a1 : ¬ UInt8.ofNat (0xC0 + c / 64) < (0x80 : UInt8) := by
        rw [lt_lit _ _ 128 (by decide) n0]; omega
      have a2 : ¬ UInt8.ofNat (0xC0 + c / 64) < (0xC0 : UInt8) := by
        rw [lt_lit _ _ 192 (by decide) n0]; omega
      have a3 : UInt8.ofNat (0xC0 + c / 64) < (0xE0 : UInt8) := by
        rw [lt_lit _ _ 224 (by decide) n0]; omega
      have c1 := isCont_ofNat (0x80 + c % 64) (by omega) (by omega)
      simp only [List.cons_append, List.nil_append, decodeChar, a1, a2, a3, if_false, if_true, c1,
        ofNat_toNat _ n0, ofNat_toNat (0x80 + c % 64) (by omega)]
      simp only [Option.some.injEq, Prod.mk.injEq, and_true]
      omega
    · rename_i h2
      split
      · rename_i h3
        have n0 : 0xE0 + c / 4096 < 256 := by omega
        have a1 : ¬ UInt8.ofNat (0xE0 + c / 4096) < (0x80 : UInt8) := by
          rw [lt_lit _ _ 128 (by decide) n0]; omega
        have a2 : ¬ UInt8.ofNat (0xE0 + c / 4096) < (0xC0 : UInt8) := by
          rw [lt_lit _ _ 192 (by decide) n0]; omega
        have a3 : ¬ UInt8.ofNat (0xE0 + c / 4096) < (0xE0 : UInt8) := by
          rw [lt_lit _ _ 224 (by decide) n0]; omega
        have a4 : UInt8.ofNat (0xE0 + c / 4096) < (0xF0 : UInt8) := by
          rw [lt_lit _ _ 240 (by decide) n0]; omega
        have c1 := isCont_ofNat (0x80 + (c / 64) % 64) (by omega) (by omega)
        have c2 := isCont_ofNat (0x80 + c % 64) (by omega) (by omega)
        simp only [List.cons_append, List.nil_append, decodeChar, a1, a2, a3, a4, if_false, if_true, c1, c2,
          Bool.and_self, ofNat_toNat _ n0, ofNat_toNat (0x80 + (c / 64) % 64) (by omega),
          ofNat_toNat (0x80 + c % 64) (by omega)]
        simp only [Option.some.injEq, Prod.mk.injEq, and_true]
        omega
      · rename_i h3
        have n0 : 0xF0 + c / 262144 < 256 := by omega
        have a1 : ¬ UInt8.ofNat (0xF0 + c / 262144) < (0x80 : UInt8) := by
          rw [lt_lit _ _ 128 (by decide) n0]; omega
        have a2 : ¬ UInt8.ofNat (0xF0 + c / 262144) < (0xC0 : UInt8) := by
          rw [lt_lit _ _ 192 (by decide) n0]; omega
        have a3 : ¬ UInt8.ofNat (0xF0 + c / 262144) < (0xE0 : UInt8) := by
          rw [lt_lit _ _ 224 (by decide) n0]; omega
        have a4 : ¬ UInt8.ofNat (0xF0 + c / 262144) < (0xF0 : UInt8) := by
          rw [lt_lit _ _ 240 (by decide) n0]; omega
        have a5 : UInt8.ofNat (0xF0 + c / 262144) < (0xF8 : UInt8) := by
          rw [lt_lit _ _ 248 (by decide) n0]; omega
        have c1 := isCont_ofNat (0x80 + (c / 4096) % 64) (by omega) (by omega)
        have c2 := isCont_ofNat (0x80 + (c / 64) % 64) (by omega) (by omega)
        have c3 := isCont_ofNat (0x80 + c % 64) (by omega) (by omega)
        simp only [List.cons_append, List.nil_append, decodeChar, a1, a2, a3, a4, a5, if_false, if_true,
          c1, c2, c3, Bool.and_self, ofNat_toNat _ n0, ofNat_toNat (0x80 + (c / 4096) % 64) (by omega),
          ofNat_toNat (0x80 + (c / 64) % 64) (by omega), ofNat_toNat (0x80 + c % 64) (by omega)]
        simp only [Option.some.injEq, Prod.mk.injEq, and_true]
        omega

theorem encodeChar_length (c : Nat) : (encodeChar c).length = charLen c := by
  unfold encodeChar charLen
  split
  · rfl
  · split
    · rfl
    · split <;> rfl

/-- The encoding of a scalar value is a valid string of one character. -/
theorem encodeChar_valid (c : Nat) (hs : isScalar c = true) : ValidUtf8 (encodeChar c) := by
  have hc : c < 0x110000 := by
    simp only [isScalar, Bool.or_eq_true, Bool.and_eq_true, decide_eq_true_eq] at hs; omega
  have hd := decode_encode c hc []
  rw [List.append_nil] at hd
  have hlen := encodeChar_length c
  cases he : encodeChar c with
  | nil => rw [he] at hlen; simp [charLen] at hlen; split at hlen <;> (try split at hlen) <;> (try split at hlen) <;> omega
  | cons b r =>
    rw [valid_cons]
    rw [he] at hd hlen
    refine ⟨c, charLen c, hd, ?_, ?_⟩
    · simp only [charOk, hs, Bool.and_true]
      unfold charLen
      split
      · simp
      · split
        · simp; omega
        · split
          · simp; omega
          · simp; omega
    · rw [List.drop_of_length_le (by omega)]; exact valid_nil

end Rox.Lemmas
