/-
  Rox.Lemmas.AttrNs — the attributes of an element, end to end at the level of `process_element`:
  when a start tag is completed, the new element's attribute list is exactly the pending attributes
  (those that are not namespace declarations) in source order, each with its local name, its
  normalised value, and the namespace its prefix resolves to in the element's own scope: none for an
  unprefixed attribute (the default namespace does not apply to attributes), the XML namespace for
  `xml:`, otherwise the element's own declaration of the prefix and else the parent's resolution.
-/
import Rox.Lemmas.ElemNs

namespace Rox.Lemmas
open Rox

/-- what the namespace of an attribute with prefix `pfx` must be, for an element completed in
context `c` (table index; `none` = no namespace) -/
def attrNsSpec (c : Ctx) (pfx : Bytes) : Option Nat :=
  if pfx = Lit.xml then some 0
  else if pfx.isEmpty then none
  else
    (scopeFind c.doc.ns (rangeList c.doc.ns (c.nsStartIdx, c.doc.ns.treeOrder.size)) (some pfx)).orElse
      (fun _ => scopeFind c.doc.ns (rangeList c.doc.ns (parentRange c)) (some pfx))

/-- the same lookup, stated over the element's finished in-scope range `nss` (what the loop of
`resolve_attributes` sees) -/
def attrNsLocal (ns : Namespaces) (nss : Range) (pfx : Bytes) : Option Nat :=
  if pfx = Lit.xml then some 0
  else if pfx.isEmpty then none
  else scopeFind ns (rangeList ns nss) (some pfx)

/-- A successful lookup of a non-empty prefix finds a binding (an undeclared prefix is an error). -/
theorem getNsIdxByPrefix_isSome (txt : Bytes) (doc : Doc) (nss : Range) (pp : Nat) (pfx : Bytes)
    (hne : pfx.isEmpty = false) (r : Option Nat) (h : getNsIdxByPrefix txt doc nss pp pfx = .ok r) :
    r.isSome = true := by
  unfold getNsIdxByPrefix at h
  dsimp only at h
  split at h
  · simp only [Res.ok.injEq] at h
    subst h; rfl
  · split at h
    · cases h
    · obtain ⟨r0, _, hr⟩ := Res.bind_eq_ok.mp h
      split at hr
      · simp only [Res.pure_eq, Res.ok.injEq] at hr
        subst hr; rfl
      · split at hr
        · exact absurd hr (errPos_ne_ok _ _ _ _)
        · rename_i hc
          simp [hne] at hc

/-- The namespace the loop computes for one attribute. -/
theorem attrNsIdx_spec (txt : Bytes) (doc : Doc) (nss : Range) (a : TempAttr) (r : Option Nat)
    (h : attrNsIdx txt doc nss a = .ok r) :
    r = attrNsLocal doc.ns nss a.pfx.bytes ∧ (a.pfx.bytes ≠ [] → r.isSome = true) := by
  unfold attrNsIdx at h
  unfold attrNsLocal
  split at h
  · rename_i hx
    have hx' : a.pfx.bytes = Lit.xml := by simpa using hx
    simp only [Res.ok.injEq] at h
    subst h
    rw [if_pos hx']
    exact ⟨rfl, fun _ => rfl⟩
  · rename_i hx
    have hx' : a.pfx.bytes ≠ Lit.xml := by simpa using hx
    rw [if_neg hx']
    split at h
    · rename_i he
      simp only [Res.ok.injEq] at h
      subst h
      rw [if_pos he]
      exact ⟨rfl, fun hne => absurd (by simpa using he) hne⟩
    · rename_i he
      rw [if_neg he]
      have hs := getNsIdxByPrefix_scope txt doc nss _ _ hx' r h
      rw [if_neg he] at hs
      exact ⟨hs, fun _ => getNsIdxByPrefix_isSome txt doc nss _ _ (by simpa using he) r h⟩

/-- The loop of `resolve_attributes`: it leaves the namespace table alone and appends, for each
pending attribute in order, one entry with the resolved namespace, the local name and the value;
it succeeds only if every prefixed attribute's prefix is bound. -/
theorem resolveAttrsLoop_spec (txt : Bytes) (pos : Bool) (nss : Range) (st : Nat) :
    ∀ (l : List TempAttr) (d d' : Doc), resolveAttrsLoop txt pos nss st l d = .ok d' →
      d'.ns = d.ns ∧
      (∃ new : List AttrData, d'.attrs.toList = d.attrs.toList ++ new ∧
        new.map (fun a => (a.nsIdx, a.localName, a.value)) =
          l.map (fun a => (attrNsLocal d.ns nss a.pfx.bytes, a.loc, a.value))) ∧
      (∀ a ∈ l, a.pfx.bytes ≠ [] → (attrNsLocal d.ns nss a.pfx.bytes).isSome = true) := by
  intro l
  induction l with
  | nil =>
    intro d d' h
    simp only [resolveAttrsLoop, Res.ok.injEq] at h
    subst h
    exact ⟨rfl, ⟨[], by simp, rfl⟩, by simp⟩
  | cons a r ih =>
    intro d d' h
    simp only [resolveAttrsLoop] at h
    obtain ⟨nsIdx, hns, h⟩ := Res.bind_eq_ok.mp h
    obtain ⟨en, _, h⟩ := Res.bind_eq_ok.mp h
    obtain ⟨dup, _, h⟩ := Res.bind_eq_ok.mp h
    split at h
    · exact absurd h (errPos_ne_ok _ _ _ _)
    · obtain ⟨hsp, hsome⟩ := attrNsIdx_spec txt d nss a nsIdx hns
      generalize had : (if pos = true then
            ({ nsIdx := nsIdx, localName := a.loc, value := a.value, range := a.range,
               qnameLen := a.qnameLen, eqLen := a.eqLen } : AttrData)
          else
            { nsIdx := nsIdx, localName := a.loc, value := a.value, range := (0, 0),
              qnameLen := 0, eqLen := 0 }) = ad at h
      have hadt : (ad.nsIdx, ad.localName, ad.value) = (nsIdx, a.loc, a.value) := by
        rw [← had]; split <;> rfl
      obtain ⟨g1, ⟨new, g2, g3⟩, g4⟩ := ih _ _ h
      refine ⟨g1, ⟨ad :: new, ?_, ?_⟩, ?_⟩
      · rw [g2]
        show (d.attrs.push ad).toList ++ new = _
        rw [Array.toList_push, List.append_assoc]
        rfl
      · rw [List.map_cons, List.map_cons, g3, hadt, hsp]
      · intro b hb hne
        rcases List.mem_cons.mp hb with rfl | hb
        · rw [← hsp]; exact hsome hne
        · exact g4 b hb hne

/-- `resolve_attributes`: the slice of `attrs` it returns holds the pending attributes in order. -/
theorem resolveAttributes_spec (txt : Bytes) (c c2 : Ctx) (nss attrs : Range)
    (h : resolveAttributes txt c nss = .ok (c2, attrs)) :
    ((c2.doc.attrs.toList.drop attrs.1).take (attrs.2 - attrs.1)).map
        (fun a => (a.nsIdx, a.localName, a.value)) =
      c.curAttrs.map (fun a => (attrNsLocal c.doc.ns nss a.pfx.bytes, a.loc, a.value)) ∧
    (∀ a ∈ c.curAttrs, a.pfx.bytes ≠ [] → (attrNsLocal c.doc.ns nss a.pfx.bytes).isSome = true) := by
  unfold resolveAttributes at h
  split at h
  · rename_i hemp
    have hnil : c.curAttrs = [] := by simpa using hemp
    simp only [Res.ok.injEq, Prod.mk.injEq] at h
    obtain ⟨rfl, rfl⟩ := h
    rw [hnil]
    exact ⟨by simp, by simp⟩
  · split at h
    · cases h
    · obtain ⟨doc, hd, h⟩ := Res.bind_eq_ok.mp h
      simp only [Res.pure_eq, Res.ok.injEq, Prod.mk.injEq] at h
      obtain ⟨rfl, rfl⟩ := h
      obtain ⟨_, ⟨new, g2, g3⟩, g4⟩ := resolveAttrsLoop_spec txt _ _ _ _ _ _ hd
      refine ⟨?_, g4⟩
      show ((doc.attrs.toList.drop c.doc.attrs.size).take (doc.attrs.size - c.doc.attrs.size)).map _ = _
      have hsz : doc.attrs.size = c.doc.attrs.size + new.length := by
        rw [← Array.length_toList, g2, List.length_append, Array.length_toList]
      have hdrop : doc.attrs.toList.drop c.doc.attrs.size = new := by
        rw [g2]
        exact List.drop_left' (Array.length_toList)
      rw [hdrop, hsz, Nat.add_sub_cancel_left, List.take_length, g3]

/-- The tail of `process_element` for `ElementEnd(Open|Empty)`: the appended node, and the
attribute table is not touched any more. -/
theorem processElement_append_tail_attrs (txt : Bytes) (c2 c' : Ctx) (nss attrs : Range) (r : Range)
    (hb2 : BInv c2) (k : Ctx → Nat → Ctx) (hk : ∀ c3 id, (k c3 id).doc = c3.doc)
    (h : (do
        let tagNs ← getNsIdxByPrefix txt c2.doc nss c2.tagName.prefixPos c2.tagName.pfx
        let (c, newId) ← c2.appendNode (.element tagNs c2.tagName.nameSpan attrs nss)
                            (c2.tagName.pos, r.2)
        (pure (k c newId) : Res Ctx)) = .ok c') :
    ∃ (tagNs : Option Nat) (n : NodeData),
      c'.doc.nodes[c2.doc.nodes.size]? = some n ∧
      n.kind = .element tagNs c2.tagName.nameSpan attrs nss ∧ c'.doc.attrs = c2.doc.attrs := by
  obtain ⟨tagNs, _, h⟩ := Res.bind_eq_ok.mp h
  obtain ⟨⟨c3, newId⟩, happ, h⟩ := Res.bind_eq_ok.mp h
  simp only [Res.pure_eq, Res.ok.injEq] at h
  subst h
  have haw : ∀ x ∈ c2.awaiting, x < c2.doc.nodes.size := fun x hx => ((hb2.awaiting x).mp hx).1
  obtain ⟨_, _, _, ⟨p, _, hnew⟩, _, _, _, _, hattrs, _⟩ :=
    appendNode_spec c2 c3 _ _ newId hb2.pid_lt haw happ
  rw [← hk c3 newId] at hnew hattrs
  exact ⟨tagNs, _, hnew, rfl, hattrs⟩

/-- The lookup in the element's finished range is the specified one: own declaration first, else
the parent's resolution. -/
theorem attrNsLocal_eq_spec (c c1 : Ctx) (nss : Range) (hp : c.parentId < c.doc.nodes.size)
    (hn : NsOk c.doc c.nsStartIdx) (h1 : resolveNamespaces c = .ok (c1, nss)) (pfx : Bytes) :
    attrNsLocal c1.doc.ns nss pfx = attrNsSpec c pfx := by
  unfold attrNsLocal attrNsSpec
  split
  · rfl
  · split
    · rfl
    · exact resolveNamespaces_scope c c1 nss hp hn h1 (some pfx)

/-- **Attribute list of a completed start tag** (every context the parser can be in). -/
theorem processElement_attributes (txt : Bytes) (c c' : Ctx) (e : EndKind) (r : Range)
    (he : e = .open ∨ e = .empty) (hb : BInv c) (hn : NsOk c.doc c.nsStartIdx)
    (h : processElement txt c e r = .ok c') :
    ∃ (n : NodeData) (tn : Option Nat) (name : Span) (attrs nss : Range),
      c'.doc.nodes[c.doc.nodes.size]? = some n ∧ n.kind = .element tn name attrs nss ∧
      ((c'.doc.attrs.toList.drop attrs.1).take (attrs.2 - attrs.1)).map
          (fun a => (a.nsIdx, a.localName, a.value)) =
        c.curAttrs.map (fun a => (attrNsSpec c a.pfx.bytes, a.loc, a.value)) ∧
      /- every prefixed attribute's prefix is declared in scope (else the tag is rejected) -/
      (∀ a ∈ c.curAttrs, a.pfx.bytes ≠ [] → (attrNsSpec c a.pfx.bytes).isSome = true) := by
  unfold processElement at h
  split at h
  · rcases he with rfl | rfl <;> cases h
  · obtain ⟨⟨c1, nss⟩, h1, h⟩ := Res.bind_eq_ok.mp h
    dsimp only at h
    obtain ⟨⟨c2, attrs⟩, h2, h⟩ := Res.bind_eq_ok.mp h
    dsimp only at h
    obtain ⟨hns1, hn1, hn2, hfr1⟩ := (resolveNamespaces_safe c hb.pid_lt hn).post _ h1
    dsimp only at hns1 hn1 hn2 hfr1
    have hns1' : NsOk ({ c1 with nsStartIdx := c1.doc.ns.treeOrder.size, xmlDeclared := false } : Ctx).doc
        c1.doc.ns.treeOrder.size :=
      ⟨hns1.ns, hns1.xml0, Nat.le_refl _, hns1.elem, hns1.attrNs⟩
    obtain ⟨_, _, _, hnodes2, hnsEq2, hfr2⟩ := (resolveAttributes_safe txt
      { c1 with nsStartIdx := c1.doc.ns.treeOrder.size, xmlDeclared := false }
      nss c1.doc.ns.treeOrder.size hns1' ⟨hn1, hn2⟩).post _ h2
    dsimp only at hnodes2 hnsEq2 hfr2
    have hc2 : c2 = { c with doc := c2.doc, curAttrs := c2.curAttrs,
                               nsStartIdx := c2.doc.ns.treeOrder.size, xmlDeclared := false } := by
      rw [hfr2, hfr1]
      simp only [hnsEq2]
    have hnodes : c2.doc.nodes = c.doc.nodes := by
      rw [hnodes2]; show c1.doc.nodes = _; rw [hfr1]
    have hb2 : BInv c2 := hb.congr hnodes (by rw [hc2]) (by rw [hc2])
    have htag : c2.tagName = c.tagName := by rw [hc2]
    have hcur : c1.curAttrs = c.curAttrs := by rw [hfr1]
    obtain ⟨hmap, hsome⟩ := resolveAttributes_spec txt _ c2 nss attrs h2
    dsimp only at hmap hsome
    rw [hcur] at hmap hsome
    have hloc := attrNsLocal_eq_spec c c1 nss hb.pid_lt hn h1
    simp only [hloc] at hmap hsome
    have key : ∀ (k : Ctx → Nat → Ctx), (∀ c3 id, (k c3 id).doc = c3.doc) →
        (do
          let tagNs ← getNsIdxByPrefix txt c2.doc nss c2.tagName.prefixPos c2.tagName.pfx
          let (c, newId) ← c2.appendNode (.element tagNs c2.tagName.nameSpan attrs nss)
                              (c2.tagName.pos, r.2)
          (pure (k c newId) : Res Ctx)) = .ok c' →
        ∃ (n : NodeData) (tn : Option Nat) (name : Span) (attrs nss : Range),
          c'.doc.nodes[c.doc.nodes.size]? = some n ∧ n.kind = .element tn name attrs nss ∧
          ((c'.doc.attrs.toList.drop attrs.1).take (attrs.2 - attrs.1)).map
              (fun a => (a.nsIdx, a.localName, a.value)) =
            c.curAttrs.map (fun a => (attrNsSpec c a.pfx.bytes, a.loc, a.value)) ∧
          (∀ a ∈ c.curAttrs, a.pfx.bytes ≠ [] → (attrNsSpec c a.pfx.bytes).isSome = true) := by
      intro k hk h
      obtain ⟨tagNs, n, g2, g3, g5⟩ :=
        processElement_append_tail_attrs txt c2 c' nss attrs r hb2 k hk h
      rw [hnodes] at g2
      refine ⟨n, tagNs, _, attrs, nss, g2, g3, ?_, hsome⟩
      rw [g5]
      exact hmap
    rcases he with rfl | rfl
    · exact key (fun c newId => { c with parentId := newId, parentPrefixes := c.tagName.pfx :: c.parentPrefixes })
        (fun _ _ => rfl) h
    · exact key (fun c newId => { c with awaiting := c.awaiting ++ [newId] }) (fun _ _ => rfl) h

end Rox.Lemmas
