/-
  Rox.Lemmas.Rt7Defs — the general entity round trip (`Rox.Spec.Canon7`), preparations on the
  specification side: content with the runs of character data and references grouped (`GNode`: a
  run is what the tokenizer delivers as ONE text token), the token lists that present it
  (`GTokFor`), `mergeList` in accumulator form (`mergeAcc`: the completed nodes and the run still
  pending), and the tables of expansions and reference forests entry by entry.
-/
import Rox.Spec.Canon7
import Rox.Spec.Canon2
import Rox.Lemmas.RtBuild

namespace Rox.Lemmas
open Rox Rox.Spec Rox.Spec.Canon Rox.Spec.Canon7

namespace Rt7

/-! ### Grouped content -/

/-- a piece of a run of character data: literal text or a reference -/
inductive Item where
  | text (t : Bytes)
  | ref (i : Nat)

/-- content in which maximal runs of text and references are one node -/
inductive GNode where
  | elem (name : Bytes) (attrs : List (Bytes × Bytes)) (kids : List GNode)
  | comment (body : Bytes)
  | run (items : List Item)

/-- `&name;` -/
def refBytes (i : Nat) : Bytes := 38 :: (entName i ++ [59])

def renderItems : List Item → Bytes
  | [] => []
  | .text t :: r => t ++ renderItems r
  | .ref i :: r => refBytes i ++ renderItems r

def okItems (bound : Nat) : List Item → Bool
  | [] => true
  | .text t :: r => textOk t && okItems bound r
  | .ref i :: r => decide (i < bound) && okItems bound r

def hasRef : List Item → Bool
  | [] => false
  | .text _ :: r => hasRef r
  | .ref _ :: _ => true

def expandItems (tbl : List (List XNode)) : List Item → List XNode
  | [] => []
  | .text t :: r => .text t :: expandItems tbl r
  | .ref i :: r => tbl.getD i [] ++ expandItems tbl r

def forestItems (ftbl : List Forest) : List Item → Forest
  | [] => .nil
  | .text _ :: r => forestItems ftbl r
  | .ref i :: r => .cons (ftbl.getD i .nil) (forestItems ftbl r)

mutual
  def renderG : GNode → Bytes
    | .elem n as ks => [60] ++ n ++ renderAttrs as ++ [62] ++ renderGAll ks ++ [60, 47] ++ n ++ [62]
    | .comment c => [60, 33, 45, 45] ++ c ++ [45, 45, 62]
    | .run items => renderItems items
  def renderGAll : List GNode → Bytes
    | [] => []
    | k :: ks => renderG k ++ renderGAll ks
end

mutual
  def okG (bound : Nat) : GNode → Bool
    | .elem n as ks => nameOk n && attrsOk as && okGAll bound ks
    | .comment c => commentOk c
    | .run items => okItems bound items
  def okGAll (bound : Nat) : List GNode → Bool
    | [] => true
    | k :: ks => okG bound k && okGAll bound ks
end

def isRun : GNode → Bool
  | .run _ => true
  | _ => false

/-- no two adjacent runs -/
def altG : List GNode → Bool
  | a :: b :: r => !(isRun a && isRun b) && altG (b :: r)
  | _ => true

mutual
  /-- runs are non-empty and maximal, at every level -/
  def wfG : GNode → Bool
    | .elem _ _ ks => wfGAll ks && altG ks
    | .comment _ => true
    | .run items => !items.isEmpty
  def wfGAll : List GNode → Bool
    | [] => true
    | k :: ks => wfG k && wfGAll ks
end

mutual
  def expandG (tbl : List (List XNode)) : GNode → List XNode
    | .elem n as ks => [.elem n as (expandGAll tbl ks)]
    | .comment c => [.comment c]
    | .run items => expandItems tbl items
  def expandGAll (tbl : List (List XNode)) : List GNode → List XNode
    | [] => []
    | k :: ks => expandG tbl k ++ expandGAll tbl ks
end

mutual
  def forestG (ftbl : List Forest) : GNode → Forest
    | .elem _ _ ks => forestGAll ftbl ks
    | .comment _ => .nil
    | .run items => forestItems ftbl items
  def forestGAll (ftbl : List Forest) : List GNode → Forest
    | [] => .nil
    | k :: ks => Canon7.Forest.append (forestG ftbl k) (forestGAll ftbl ks)
end

/-! ### Grouping -/

def flushRun (acc : List Item) : List GNode :=
  match acc with
  | [] => []
  | _ :: _ => [.run acc]

/-- group the text and reference children into runs; `acc` is the run being collected -/
def groupAll (acc : List Item) : List ENode → List GNode
  | [] => flushRun acc
  | .text t :: r => groupAll (acc ++ [.text t]) r
  | .ref i :: r => groupAll (acc ++ [.ref i]) r
  | .comment c :: r => flushRun acc ++ .comment c :: groupAll [] r
  | .elem n as ks :: r => flushRun acc ++ .elem n as (groupAll [] ks) :: groupAll [] r

theorem renderItems_append : ∀ (a b : List Item), renderItems (a ++ b) = renderItems a ++ renderItems b
  | [], b => rfl
  | .text t :: a, b => by simp only [List.cons_append, renderItems, renderItems_append a b, List.append_assoc]
  | .ref i :: a, b => by simp only [List.cons_append, renderItems, renderItems_append a b, List.append_assoc]

theorem expandItems_append (tbl : List (List XNode)) : ∀ (a b : List Item),
    expandItems tbl (a ++ b) = expandItems tbl a ++ expandItems tbl b
  | [], b => rfl
  | .text t :: a, b => by simp only [List.cons_append, expandItems, expandItems_append tbl a b]
  | .ref i :: a, b => by
    simp only [List.cons_append, expandItems, expandItems_append tbl a b, List.append_assoc]

theorem okItems_append (bound : Nat) : ∀ (a b : List Item),
    okItems bound (a ++ b) = (okItems bound a && okItems bound b)
  | [], b => rfl
  | .text t :: a, b => by simp only [List.cons_append, okItems, okItems_append bound a b, Bool.and_assoc]
  | .ref i :: a, b => by simp only [List.cons_append, okItems, okItems_append bound a b, Bool.and_assoc]

theorem fappend_nil : ∀ (f : Forest), Canon7.Forest.append f .nil = f
  | .nil => rfl
  | .cons k r => by simp only [Canon7.Forest.append, fappend_nil r]

theorem fappend_assoc : ∀ (f g h : Forest),
    Canon7.Forest.append (Canon7.Forest.append f g) h = Canon7.Forest.append f (Canon7.Forest.append g h)
  | .nil, g, h => rfl
  | .cons k r, g, h => by simp only [Canon7.Forest.append, fappend_assoc r g h]

theorem forestItems_append (ftbl : List Forest) : ∀ (a b : List Item),
    forestItems ftbl (a ++ b) = Canon7.Forest.append (forestItems ftbl a) (forestItems ftbl b)
  | [], b => rfl
  | .text t :: a, b => by simp only [List.cons_append, forestItems, forestItems_append ftbl a b]
  | .ref i :: a, b => by
    simp only [List.cons_append, forestItems, forestItems_append ftbl a b, Canon7.Forest.append]

theorem renderGAll_append : ∀ (a b : List GNode), renderGAll (a ++ b) = renderGAll a ++ renderGAll b
  | [], b => rfl
  | k :: a, b => by simp only [List.cons_append, renderGAll, renderGAll_append a b, List.append_assoc]

theorem expandGAll_append (tbl : List (List XNode)) : ∀ (a b : List GNode),
    expandGAll tbl (a ++ b) = expandGAll tbl a ++ expandGAll tbl b
  | [], b => rfl
  | k :: a, b => by simp only [List.cons_append, expandGAll, expandGAll_append tbl a b, List.append_assoc]

theorem forestGAll_append (ftbl : List Forest) : ∀ (a b : List GNode),
    forestGAll ftbl (a ++ b) = Canon7.Forest.append (forestGAll ftbl a) (forestGAll ftbl b)
  | [], b => rfl
  | k :: a, b => by simp only [List.cons_append, forestGAll, forestGAll_append ftbl a b, fappend_assoc]

theorem okGAll_append (bound : Nat) : ∀ (a b : List GNode),
    okGAll bound (a ++ b) = (okGAll bound a && okGAll bound b)
  | [], b => rfl
  | k :: a, b => by simp only [List.cons_append, okGAll, okGAll_append bound a b, Bool.and_assoc]

theorem wfGAll_append : ∀ (a b : List GNode), wfGAll (a ++ b) = (wfGAll a && wfGAll b)
  | [], b => rfl
  | k :: a, b => by simp only [List.cons_append, wfGAll, wfGAll_append a b, Bool.and_assoc]

theorem renderGAll_flushRun (acc : List Item) : renderGAll (flushRun acc) = renderItems acc := by
  cases acc with
  | nil => rfl
  | cons a r => simp only [flushRun, renderGAll, renderG, List.append_nil]

theorem expandGAll_flushRun (tbl : List (List XNode)) (acc : List Item) :
    expandGAll tbl (flushRun acc) = expandItems tbl acc := by
  cases acc with
  | nil => rfl
  | cons a r => simp only [flushRun, expandGAll, expandG, List.append_nil]

theorem forestGAll_flushRun (ftbl : List Forest) (acc : List Item) :
    forestGAll ftbl (flushRun acc) = forestItems ftbl acc := by
  cases acc with
  | nil => rfl
  | cons a r => simp only [flushRun, forestGAll, forestG, fappend_nil]

theorem okGAll_flushRun (bound : Nat) (acc : List Item) :
    okGAll bound (flushRun acc) = okItems bound acc := by
  cases acc with
  | nil => rfl
  | cons a r => simp only [flushRun, okGAll, okG, Bool.and_true]

theorem wfGAll_flushRun (acc : List Item) : wfGAll (flushRun acc) = true := by
  cases acc with
  | nil => rfl
  | cons a r => simp [flushRun, wfGAll, wfG]

theorem renderE_ref (i : Nat) : renderE (.ref i) = refBytes i := by
  simp only [renderE, refBytes, List.cons_append, List.nil_append]

theorem render_group : ∀ (acc : List Item) (ks : List ENode),
    renderGAll (groupAll acc ks) = renderItems acc ++ renderAllE ks := by
  intro acc ks
  induction acc, ks using groupAll.induct with
  | case1 acc => simp only [groupAll, renderGAll_flushRun, renderAllE, List.append_nil]
  | case2 acc t r ih =>
    simp only [groupAll, ih, renderItems_append, renderItems, renderAllE, renderE, List.append_nil,
      List.append_assoc]
  | case3 acc i r ih =>
    simp only [groupAll, ih, renderItems_append, renderItems, renderAllE, renderE_ref, List.append_nil,
      List.append_assoc]
  | case4 acc c r ih =>
    simp only [groupAll, renderGAll_append, renderGAll_flushRun, renderGAll, renderG, ih, renderItems,
      renderAllE, renderE, List.nil_append]
  | case5 acc n as ks r ih1 ih2 =>
    simp only [groupAll, renderGAll_append, renderGAll_flushRun, renderGAll, renderG, ih1, ih2,
      renderItems, renderAllE, renderE, List.nil_append]

theorem expand_group (tbl : List (List XNode)) : ∀ (acc : List Item) (ks : List ENode),
    expandGAll tbl (groupAll acc ks) = expandItems tbl acc ++ expandAllE tbl ks := by
  intro acc ks
  induction acc, ks using groupAll.induct with
  | case1 acc => simp only [groupAll, expandGAll_flushRun, expandAllE, List.append_nil]
  | case2 acc t r ih =>
    simp only [groupAll, ih, expandItems_append, expandItems, expandAllE, expandE, List.append_assoc, List.cons_append, List.nil_append]
  | case3 acc i r ih =>
    simp only [groupAll, ih, expandItems_append, expandItems, expandAllE, expandE, List.append_nil,
      List.append_assoc]
  | case4 acc c r ih =>
    simp only [groupAll, expandGAll_append, expandGAll_flushRun, expandGAll, expandG, ih, expandItems,
      expandAllE, expandE, List.nil_append, List.cons_append]
  | case5 acc n as ks r ih1 ih2 =>
    simp only [groupAll, expandGAll_append, expandGAll_flushRun, expandGAll, expandG, ih1, ih2,
      expandItems, expandAllE, expandE, List.nil_append, List.cons_append]

theorem forest_group (ftbl : List Forest) : ∀ (acc : List Item) (ks : List ENode),
    forestGAll ftbl (groupAll acc ks) =
      Canon7.Forest.append (forestItems ftbl acc) (forestAllE ftbl ks) := by
  intro acc ks
  induction acc, ks using groupAll.induct with
  | case1 acc => simp only [groupAll, forestGAll_flushRun, forestAllE, fappend_nil]
  | case2 acc t r ih =>
    simp only [groupAll, ih, forestItems_append, forestItems, forestAllE, forestE, fappend_nil,
      Canon7.Forest.append]
  | case3 acc i r ih =>
    simp only [groupAll, ih, forestItems_append, forestItems, forestAllE, forestE, fappend_assoc,
      Canon7.Forest.append]
  | case4 acc c r ih =>
    simp only [groupAll, forestGAll_append, forestGAll_flushRun, forestGAll, forestG, ih, forestItems,
      forestAllE, forestE, Canon7.Forest.append]
  | case5 acc n as ks r ih1 ih2 =>
    simp only [groupAll, forestGAll_append, forestGAll_flushRun, forestGAll, forestG, ih1, ih2,
      forestItems, forestAllE, forestE, Canon7.Forest.append]

theorem ok_group (bound : Nat) : ∀ (acc : List Item) (ks : List ENode),
    okGAll bound (groupAll acc ks) = (okItems bound acc && okAllE bound ks) := by
  intro acc ks
  induction acc, ks using groupAll.induct with
  | case1 acc => simp only [groupAll, okGAll_flushRun, okAllE, Bool.and_true]
  | case2 acc t r ih =>
    simp only [groupAll, ih, okItems_append, okItems, okAllE, okE, Bool.and_true, Bool.and_assoc]
  | case3 acc i r ih =>
    simp only [groupAll, ih, okItems_append, okItems, okAllE, okE, Bool.and_true, Bool.and_assoc]
  | case4 acc c r ih =>
    simp only [groupAll, okGAll_append, okGAll_flushRun, okGAll, okG, ih, okItems, okAllE, okE,
      Bool.true_and]
  | case5 acc n as ks r ih1 ih2 =>
    simp only [groupAll, okGAll_append, okGAll_flushRun, okGAll, okG, ih1, ih2, okItems, okAllE, okE,
      Bool.true_and]

theorem altG_cons_markup {a : GNode} {l : List GNode} (ha : isRun a = false) :
    altG (a :: l) = altG l := by
  cases l with
  | nil => rfl
  | cons b r => simp only [altG, ha, Bool.false_and, Bool.not_false, Bool.true_and]

theorem altG_flush_markup (acc : List Item) {a : GNode} {l : List GNode} (ha : isRun a = false) :
    altG (flushRun acc ++ a :: l) = altG l := by
  cases acc with
  | nil => simp only [flushRun, List.nil_append, altG_cons_markup ha]
  | cons x r =>
    simp only [flushRun, List.cons_append, List.nil_append, altG, ha, Bool.and_false, Bool.not_false,
      Bool.true_and, altG_cons_markup ha]

theorem altG_flushRun (acc : List Item) : altG (flushRun acc) = true := by
  cases acc <;> rfl

theorem wf_group : ∀ (acc : List Item) (ks : List ENode),
    wfGAll (groupAll acc ks) = true ∧ altG (groupAll acc ks) = true := by
  intro acc ks
  induction acc, ks using groupAll.induct with
  | case1 acc => exact ⟨by simp only [groupAll, wfGAll_flushRun], by simp only [groupAll, altG_flushRun]⟩
  | case2 acc t r ih => simpa only [groupAll] using ih
  | case3 acc i r ih => simpa only [groupAll] using ih
  | case4 acc c r ih =>
    refine ⟨?_, ?_⟩
    · simp only [groupAll, wfGAll_append, wfGAll_flushRun, wfGAll, wfG, ih.1, Bool.and_self]
    · simp only [groupAll]
      rw [altG_flush_markup acc (by rfl)]
      exact ih.2
  | case5 acc n as ks r ih1 ih2 =>
    refine ⟨?_, ?_⟩
    · simp only [groupAll, wfGAll_append, wfGAll_flushRun, wfGAll, wfG, ih1.1, ih1.2, ih2.1,
        Bool.and_self]
    · simp only [groupAll]
      rw [altG_flush_markup acc (by rfl)]
      exact ih2.2

/-! ### Token lists that present grouped content -/

mutual
  /-- the tokens of grouped content in the text `txt`: like `TokFor`, and a run is ONE text token
  whose range holds the run's bytes -/
  inductive GTokFor (txt : Bytes) : GNode → List Token → Prop
    | elem (n : Bytes) (o1 o2 s o3 o4 : Nat) (r1 r2 : Range) {as : List (Bytes × Bytes)}
        {ks : List GNode} {ats kts : List Token} :
        AttrToks as ats → GTokForAll txt ks kts →
        GTokFor txt (.elem n as ks)
          ([Token.elementStart ⟨o1, []⟩ ⟨o2, n⟩ s] ++ ats ++ [Token.elementEnd .open r1] ++ kts ++
            [Token.elementEnd (.close ⟨o3, []⟩ ⟨o4, n⟩) r2])
    | comment (c : Bytes) (o : Nat) (r : Range) : GTokFor txt (.comment c) [Token.comment ⟨o, c⟩ r]
    | run (items : List Item) (q : Nat) :
        sliceBytes txt q (q + (renderItems items).length) = renderItems items →
        GTokFor txt (.run items)
          [Token.text ⟨q, renderItems items⟩ (q, q + (renderItems items).length)]
  inductive GTokForAll (txt : Bytes) : List GNode → List Token → Prop
    | nil : GTokForAll txt [] []
    | cons {k : GNode} {ks : List GNode} {t1 t2 : List Token} :
        GTokFor txt k t1 → GTokForAll txt ks t2 → GTokForAll txt (k :: ks) (t1 ++ t2)
end

theorem gtokFor_elem_inv {txt : Bytes} {n : Bytes} {as : List (Bytes × Bytes)} {ks : List GNode}
    {ts : List Token} (h : GTokFor txt (.elem n as ks) ts) :
    ∃ o1 o2 s o3 o4 r1 r2 ats kts, AttrToks as ats ∧ GTokForAll txt ks kts ∧
      ts = [Token.elementStart ⟨o1, []⟩ ⟨o2, n⟩ s] ++ ats ++ [Token.elementEnd .open r1] ++ kts ++
            [Token.elementEnd (.close ⟨o3, []⟩ ⟨o4, n⟩) r2] := by
  cases h with
  | elem _ o1 o2 s o3 o4 r1 r2 ha hk => exact ⟨o1, o2, s, o3, o4, r1, r2, _, _, ha, hk, rfl⟩

theorem gtokFor_comment_inv {txt : Bytes} {b : Bytes} {ts : List Token}
    (h : GTokFor txt (.comment b) ts) : ∃ o r, ts = [Token.comment ⟨o, b⟩ r] := by
  cases h with
  | comment _ o r => exact ⟨o, r, rfl⟩

theorem gtokFor_run_inv {txt : Bytes} {items : List Item} {ts : List Token}
    (h : GTokFor txt (.run items) ts) :
    ∃ q, sliceBytes txt q (q + (renderItems items).length) = renderItems items ∧
      ts = [Token.text ⟨q, renderItems items⟩ (q, q + (renderItems items).length)] := by
  cases h with
  | run _ q hs => exact ⟨q, hs, rfl⟩

theorem gtokForAll_nil_inv {txt : Bytes} {ts : List Token} (h : GTokForAll txt [] ts) : ts = [] := by
  cases h with
  | nil => rfl

theorem gtokForAll_cons_inv {txt : Bytes} {k : GNode} {ks : List GNode} {ts : List Token}
    (h : GTokForAll txt (k :: ks) ts) :
    ∃ t1 t2, GTokFor txt k t1 ∧ GTokForAll txt ks t2 ∧ ts = t1 ++ t2 := by
  cases h with
  | cons h1 h2 => exact ⟨_, _, h1, h2, rfl⟩

/-! ### `mergeList` with the pending run made explicit -/

def flushP : Option Bytes → List XNode
  | some t => [.text t]
  | none => []

/-- the nodes completed by a list of children, and the run still pending after it -/
def mergeAcc (p : Option Bytes) : List XNode → List XNode × Option Bytes
  | [] => ([], p)
  | .text b :: r => mergeAcc (some (p.getD [] ++ b)) r
  | .comment c :: r => (flushP p ++ .comment c :: (mergeAcc none r).1, (mergeAcc none r).2)
  | .elem n as ks :: r =>
    (flushP p ++ .elem n as (mergeList none ks) :: (mergeAcc none r).1, (mergeAcc none r).2)

theorem flushP_eq (p : Option Bytes) :
    (match p with
     | some t => [XNode.text t]
     | none => []) = flushP p := by
  cases p <;> rfl

theorem mergeList_eq : ∀ (xs : List XNode) (p : Option Bytes),
    mergeList p xs = (mergeAcc p xs).1 ++ flushP (mergeAcc p xs).2
  | [], p => by
    rw [mergeList.eq_def]
    cases p <;> rfl
  | .text b :: r, p => by
    rw [mergeList.eq_def, mergeAcc]
    exact mergeList_eq r _
  | .comment c :: r, p => by
    rw [mergeList.eq_def, mergeAcc]
    simp only
    rw [mergeList_eq r]
    cases p <;> simp only [flushP, List.cons_append, List.nil_append]
  | .elem n as ks :: r, p => by
    rw [mergeList.eq_def, mergeAcc]
    simp only
    rw [mergeList_eq r]
    cases p <;> simp only [flushP, List.cons_append, List.nil_append]

theorem mergeAcc_append : ∀ (xs ys : List XNode) (p : Option Bytes),
    mergeAcc p (xs ++ ys) =
      ((mergeAcc p xs).1 ++ (mergeAcc (mergeAcc p xs).2 ys).1, (mergeAcc (mergeAcc p xs).2 ys).2)
  | [], ys, p => by simp only [List.nil_append, mergeAcc]
  | .text b :: r, ys, p => by
    simp only [List.cons_append, mergeAcc]
    exact mergeAcc_append r ys _
  | .comment c :: r, ys, p => by
    simp only [List.cons_append, mergeAcc, mergeAcc_append r ys none, List.append_assoc]
  | .elem n as ks :: r, ys, p => by
    simp only [List.cons_append, mergeAcc, mergeAcc_append r ys none, List.append_assoc]

/-- nodes in the arena once the content has been processed: the completed ones and the pending run -/
def cnt (x : List XNode × Option Bytes) : Nat := countAll x.1 + (if x.2.isSome then 1 else 0)

theorem countAll_append : ∀ (a b : List XNode), countAll (a ++ b) = countAll a + countAll b
  | [], b => by simp [countAll]
  | k :: a, b => by simp only [List.cons_append, countAll, countAll_append a b]; omega

theorem attrCountAll_append : ∀ (a b : List XNode),
    attrCountAll (a ++ b) = attrCountAll a + attrCountAll b
  | [], b => by simp [attrCountAll]
  | k :: a, b => by simp only [List.cons_append, attrCountAll, attrCountAll_append a b]; omega

theorem expectAll_append (P : Nat) : ∀ (a b : List XNode) (id : Nat),
    expectAll P id (a ++ b) = expectAll P id a ++ expectAll P (id + countAll a) b
  | [], b, id => by simp [expectAll, countAll]
  | k :: a, b, id => by
    simp only [List.cons_append, expectAll, countAll, expectAll_append P a b, List.append_assoc,
      Nat.add_assoc]

theorem countAll_flushP (p : Option Bytes) : countAll (flushP p) = if p.isSome then 1 else 0 := by
  cases p <;> simp [flushP, countAll, count]

theorem attrCountAll_flushP (p : Option Bytes) : attrCountAll (flushP p) = 0 := by
  cases p <;> simp [flushP, attrCountAll, attrCount]

theorem cnt_eq (p : Option Bytes) (xs : List XNode) : cnt (mergeAcc p xs) = countAll (mergeList p xs) := by
  rw [mergeList_eq, countAll_append, countAll_flushP]
  rfl

/-- a pending run stays or becomes a node -/
theorem cnt_pending : ∀ (xs : List XNode) (p : Option Bytes),
    (if p.isSome then 1 else 0) ≤ cnt (mergeAcc p xs)
  | [], p => by
    simp only [mergeAcc, cnt, countAll, Nat.zero_add]
    exact Nat.le_refl _
  | .text b :: r, p => by
    rw [mergeAcc]
    have := cnt_pending r (some (p.getD [] ++ b))
    simp only [Option.isSome_some, if_true] at this
    split <;> omega
  | .comment c :: r, p => by
    simp only [mergeAcc, cnt, countAll_append, countAll_flushP, countAll, count]
    split <;> omega
  | .elem n as ks :: r, p => by
    simp only [mergeAcc, cnt, countAll_append, countAll_flushP, countAll, count]
    split <;> omega

theorem cnt_append (xs ys : List XNode) (p : Option Bytes) :
    cnt (mergeAcc p (xs ++ ys)) = countAll (mergeAcc p xs).1 + cnt (mergeAcc (mergeAcc p xs).2 ys) := by
  rw [mergeAcc_append]
  simp only [cnt, countAll_append]
  omega

/-! ### The tables, entry by entry -/

theorem snoc_induction {α} {P : List α → Prop} (nil : P [])
    (append_singleton : ∀ l a, P l → P (l ++ [a])) : ∀ l, P l := by
  intro l
  rw [← List.reverse_reverse l]
  induction l.reverse with
  | nil => exact nil
  | cons a r ih =>
    rw [List.reverse_cons]
    exact append_singleton _ _ ih

theorem expandTable_snoc (ents : List (List ENode)) (v : List ENode) :
    expandTable (ents ++ [v]) = expandTable ents ++ [expandAllE (expandTable ents) v] := by
  simp [expandTable, List.foldl_append]

theorem forestTable_snoc (ents : List (List ENode)) (v : List ENode) :
    forestTable (ents ++ [v]) = forestTable ents ++ [forestAllE (forestTable ents) v] := by
  simp [forestTable, List.foldl_append]

theorem expandTable_length : ∀ (ents : List (List ENode)), (expandTable ents).length = ents.length := by
  intro ents
  induction ents using snoc_induction with
  | nil => rfl
  | append_singleton l v ih => rw [expandTable_snoc]; simp [ih]

theorem forestTable_length : ∀ (ents : List (List ENode)), (forestTable ents).length = ents.length := by
  intro ents
  induction ents using snoc_induction with
  | nil => rfl
  | append_singleton l v ih => rw [forestTable_snoc]; simp [ih]

mutual
  theorem expandE_stable (tbl more : List (List XNode)) : ∀ (k : ENode), okE tbl.length k = true →
      expandE (tbl ++ more) k = expandE tbl k
    | .elem n as ks, h => by
      simp only [okE, Bool.and_eq_true] at h
      simp only [expandE, expandAllE_stable tbl more ks h.2]
    | .comment c, _ => by simp only [expandE]
    | .text t, _ => by simp only [expandE]
    | .ref i, h => by
      simp only [okE, decide_eq_true_eq] at h
      simp only [expandE, List.getD_eq_getElem?_getD, List.getElem?_append_left h]
  theorem expandAllE_stable (tbl more : List (List XNode)) : ∀ (ks : List ENode),
      okAllE tbl.length ks = true → expandAllE (tbl ++ more) ks = expandAllE tbl ks
    | [], _ => by simp only [expandAllE]
    | k :: ks, h => by
      simp only [okAllE, Bool.and_eq_true] at h
      simp only [expandAllE, expandE_stable tbl more k h.1, expandAllE_stable tbl more ks h.2]
end

mutual
  theorem forestE_stable (tbl more : List Forest) : ∀ (k : ENode), okE tbl.length k = true →
      forestE (tbl ++ more) k = forestE tbl k
    | .elem n as ks, h => by
      simp only [okE, Bool.and_eq_true] at h
      simp only [forestE, forestAllE_stable tbl more ks h.2]
    | .comment c, _ => by simp only [forestE]
    | .text t, _ => by simp only [forestE]
    | .ref i, h => by
      simp only [okE, decide_eq_true_eq] at h
      simp only [forestE, List.getD_eq_getElem?_getD, List.getElem?_append_left h]
  theorem forestAllE_stable (tbl more : List Forest) : ∀ (ks : List ENode),
      okAllE tbl.length ks = true → forestAllE (tbl ++ more) ks = forestAllE tbl ks
    | [], _ => by simp only [forestAllE]
    | k :: ks, h => by
      simp only [okAllE, Bool.and_eq_true] at h
      simp only [forestAllE, forestE_stable tbl more k h.1, forestAllE_stable tbl more ks h.2]
end

mutual
  theorem okE_mono {a b : Nat} (hab : a ≤ b) : ∀ (k : ENode), okE a k = true → okE b k = true
    | .elem n as ks, h => by
      simp only [okE, Bool.and_eq_true] at h ⊢
      exact ⟨h.1, okAllE_mono' hab ks h.2⟩
    | .comment c, h => by simpa only [okE] using h
    | .text t, h => by simpa only [okE] using h
    | .ref i, h => by
      simp only [okE, decide_eq_true_eq] at h ⊢
      omega
  theorem okAllE_mono' {a b : Nat} (hab : a ≤ b) : ∀ (ks : List ENode), okAllE a ks = true →
      okAllE b ks = true
    | [], _ => by simp only [okAllE]
    | k :: ks, h => by
      simp only [okAllE, Bool.and_eq_true] at h ⊢
      exact ⟨okE_mono hab k h.1, okAllE_mono' hab ks h.2⟩
end

theorem okAllE_mono {a b : Nat} {ks : List ENode} (h : okAllE a ks = true) (hab : a ≤ b) :
    okAllE b ks = true := okAllE_mono' hab ks h

/-- what `entsOkFrom` says of each entry -/
theorem entsOk_get : ∀ (ents : List (List ENode)) (i : Nat), entsOkFrom i ents = true →
    ∀ j (hj : j < ents.length), okAllE (i + j) ents[j] = true ∧ (renderAllE ents[j]).contains 39 = false
  | [], _, _, j, hj => by simp at hj
  | v :: r, i, h, j, hj => by
    simp only [entsOkFrom, Bool.and_eq_true, Bool.not_eq_true'] at h
    cases j with
    | zero => exact ⟨h.1.1, h.1.2⟩
    | succ j =>
      have := entsOk_get r (i + 1) h.2 j (by simpa using hj)
      simp only [List.getElem_cons_succ]
      have e : i + (j + 1) = i + 1 + j := by omega
      rw [e]
      exact this

/-- the prefix of the entities up to `k` -/
theorem entsOk_take (ents : List (List ENode)) (h : entsOkFrom 0 ents = true) :
    ∀ j (hj : j < ents.length),
      (expandTable ents)[j]? = some (expandAllE (expandTable ents) ents[j]) ∧
      (forestTable ents)[j]? = some (forestAllE (forestTable ents) ents[j]) := by
  induction ents using snoc_induction with
  | nil => intro j hj; simp at hj
  | append_singleton l v ih =>
    intro j hj
    have hall := entsOk_get (l ++ [v]) 0 h
    have hl : entsOkFrom 0 l = true := by
      have : ∀ (a : List (List ENode)) (i : Nat), entsOkFrom i (a ++ [v]) = true → entsOkFrom i a = true := by
        intro a
        induction a with
        | nil => intro _ _; rfl
        | cons x a iha =>
          intro i hx
          simp only [List.cons_append, entsOkFrom, Bool.and_eq_true] at hx ⊢
          exact ⟨hx.1, iha _ hx.2⟩
      exact this l 0 h
    rw [expandTable_snoc, forestTable_snoc]
    by_cases hjl : j < l.length
    · obtain ⟨h1, h2⟩ := ih hl j hjl
      have hok := (hall j hj).1
      simp only [Nat.zero_add, List.getElem_append_left hjl] at hok
      have hok' : okAllE (expandTable l).length l[j] = true := by
        rw [expandTable_length]
        exact okAllE_mono hok (Nat.le_of_lt hjl)
      have hok'' : okAllE (forestTable l).length l[j] = true := by
        rw [forestTable_length]
        exact okAllE_mono hok (Nat.le_of_lt hjl)
      simp only [List.getElem_append_left hjl]
      rw [List.getElem?_append_left (by rw [expandTable_length]; exact hjl),
        List.getElem?_append_left (by rw [forestTable_length]; exact hjl),
        expandAllE_stable _ _ _ hok', forestAllE_stable _ _ _ hok'']
      exact ⟨h1, h2⟩
    · have hjl' : j = l.length := by simp at hj; omega
      subst hjl'
      have hok := (hall l.length hj).1
      simp only [Nat.zero_add, List.getElem_append_right (Nat.le_refl _), Nat.sub_self,
        List.getElem_cons_zero] at hok
      have hok' : okAllE (expandTable l).length v = true := by rw [expandTable_length]; exact hok
      have hok'' : okAllE (forestTable l).length v = true := by rw [forestTable_length]; exact hok
      simp only [List.getElem_append_right (Nat.le_refl _), Nat.sub_self, List.getElem_cons_zero]
      rw [List.getElem?_append_right (by rw [expandTable_length]; exact Nat.le_refl _),
        List.getElem?_append_right (by rw [forestTable_length]; exact Nat.le_refl _),
        expandAllE_stable _ _ _ hok', forestAllE_stable _ _ _ hok'', expandTable_length,
        forestTable_length]
      simp

end Rt7

end Rox.Lemmas
