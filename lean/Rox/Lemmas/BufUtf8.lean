/-
  Rox.Lemmas.BufUtf8 — `TextBuffer::finish` (`String::from_utf8(..).unwrap()`) cannot fail: what
  the builder pushes into the buffer, followed by what it has not read yet, is valid UTF-8.
-/
import Rox.Lemmas.Utf8b
import Rox.Build

namespace Rox.Lemmas
open Rox

def content (b : TextBuffer) : Bytes := b.rev.reverse

/-- `TJ b rest`: a pending CR is the last byte of the buffer, and the buffer followed by the
unread bytes `rest` is valid UTF-8. -/
def TJ (b : TextBuffer) (rest : Bytes) : Prop :=
  (b.pendingCr = true → ∃ r, b.rev = bCR :: r) ∧ ValidUtf8 (content b ++ rest)

theorem tj_empty (rest : Bytes) (h : ValidUtf8 rest) : TJ {} rest :=
  ⟨by intro h; simp at h, by simpa [content] using h⟩

/-- replacing / dropping an ASCII byte keeps validity -/
theorem valid_subst_ascii (x : Bytes) (a a' : UInt8) (y : Bytes) (h : a < 128) (h' : a' < 128)
    (hv : ValidUtf8 (x ++ a :: y)) : ValidUtf8 (x ++ a' :: y) :=
  (valid_split_ascii x a' y h').mpr ((valid_split_ascii x a y h).mp hv)

theorem valid_del_ascii (x : Bytes) (a : UInt8) (y : Bytes) (h : a < 128)
    (hv : ValidUtf8 (x ++ a :: y)) : ValidUtf8 (x ++ y) :=
  let ⟨hx, hy⟩ := (valid_split_ascii x a y h).mp hv
  valid_app hx hy

theorem tj_resolve (b : TextBuffer) (rest : Bytes) (h : TJ b rest) :
    TJ b.resolvePendingCr.1 rest ∧ b.resolvePendingCr.1.pendingCr = false := by
  unfold TextBuffer.resolvePendingCr
  split
  · rename_i hp
    obtain ⟨r, hr⟩ := h.1 hp
    rw [hr]
    refine ⟨⟨by intro h; simp at h, ?_⟩, rfl⟩
    have hv := h.2
    simp only [content, hr, List.reverse_cons, List.append_assoc, List.singleton_append] at hv ⊢
    exact valid_subst_ascii _ bCR bLF _ (by decide) (by decide) hv
  · rename_i hp
    exact ⟨h, by simpa using hp⟩

theorem tj_pushRaw (b : TextBuffer) (c : UInt8) (rest : Bytes) (h : TJ b (c :: rest)) :
    TJ (b.pushRaw c) rest := by
  obtain ⟨h1, hp⟩ := tj_resolve b _ h
  unfold TextBuffer.pushRaw
  simp only
  refine ⟨by intro hh; simp [hp] at hh, ?_⟩
  have hv := h1.2
  simp only [content, List.reverse_cons, List.append_assoc, List.singleton_append] at hv ⊢
  exact hv

theorem tj_pushBytesRaw : ∀ (l : Bytes) (b : TextBuffer) (rest : Bytes), TJ b (l ++ rest) →
    TJ (b.pushBytesRaw l) rest := by
  intro l
  induction l with
  | nil => intro b rest h; simpa [TextBuffer.pushBytesRaw] using h
  | cons x xs ih =>
    intro b rest h
    simp only [TextBuffer.pushBytesRaw, List.foldl_cons]
    exact ih _ _ (tj_pushRaw b x _ h)

theorem resolve_true (b : TextBuffer) (r : Bytes) (hp : b.pendingCr = true) (hr : b.rev = bCR :: r) :
    b.resolvePendingCr = (⟨bLF :: r, false⟩, true) := by
  simp [TextBuffer.resolvePendingCr, hp, hr]

theorem resolve_false (b : TextBuffer) (hp : b.pendingCr = false) : b.resolvePendingCr = (b, false) := by
  simp [TextBuffer.resolvePendingCr, hp]

theorem tj_pushFromText (b : TextBuffer) (c : UInt8) (rest : Bytes) (h : TJ b (c :: rest)) :
    TJ (b.pushFromText c) rest := by
  unfold TextBuffer.pushFromText
  cases hp : b.pendingCr with
  | true =>
    obtain ⟨r, hr⟩ := h.1 hp
    have hv := h.2
    simp only [content, hr, List.reverse_cons, List.append_assoc, List.singleton_append] at hv
    rw [resolve_true b r hp hr]
    simp only [Bool.true_and]
    split
    · rename_i hc
      have : c = bLF := by simpa using hc
      subst this
      refine ⟨by intro h; simp at h, ?_⟩
      simp only [content, List.reverse_cons, List.append_assoc, List.singleton_append]
      exact valid_del_ascii _ bCR _ (by decide) hv
    · refine ⟨?_, ?_⟩
      · intro hh
        have : c = bCR := by simpa using hh
        exact ⟨_, by rw [this]⟩
      · simp only [content, List.reverse_cons, List.append_assoc, List.singleton_append]
        exact valid_subst_ascii _ bCR bLF _ (by decide) (by decide) hv
  | false =>
    rw [resolve_false b hp]
    simp only [Bool.false_and, Bool.false_eq_true, if_false]
    refine ⟨?_, ?_⟩
    · intro hh
      have : c = bCR := by simpa using hh
      exact ⟨_, by rw [this]⟩
    · have hv := h.2
      simp only [content, List.reverse_cons, List.append_assoc, List.singleton_append] at hv ⊢
      exact hv

theorem tj_pushBytesText : ∀ (l : Bytes) (b : TextBuffer) (rest : Bytes), TJ b (l ++ rest) →
    TJ (b.pushBytesText l) rest := by
  intro l
  induction l with
  | nil => intro b rest h; simpa [TextBuffer.pushBytesText] using h
  | cons x xs ih =>
    intro b rest h
    simp only [TextBuffer.pushBytesText, List.foldl_cons]
    exact ih _ _ (tj_pushFromText b x _ h)

/-- The attribute buffer never has a pending CR. -/
def TA (b : TextBuffer) (rest : Bytes) : Prop :=
  b.pendingCr = false ∧ ValidUtf8 (content b ++ rest)

theorem TA.tj {b : TextBuffer} {rest : Bytes} (h : TA b rest) : TJ b rest :=
  ⟨by intro hh; rw [h.1] at hh; simp at hh, h.2⟩

/-- `push_from_attr(cur, next)` -/
theorem ta_pushFromAttr (b : TextBuffer) (c : UInt8) (rest : Bytes) (next : Option UInt8)
    (h : TA b (c :: rest)) : TA (b.pushFromAttr c next) rest := by
  unfold TextBuffer.pushFromAttr
  have hv := h.2
  split
  · rename_i hc
    have : c = bCR := by
      simp only [Bool.and_eq_true, beq_iff_eq] at hc; exact hc.1
    subst this
    exact ⟨h.1, valid_del_ascii _ bCR _ (by decide) hv⟩
  · refine ⟨h.1, ?_⟩
    simp only [content, List.reverse_cons, List.append_assoc, List.singleton_append] at hv ⊢
    split
    · rename_i hc
      have hlt : c < 128 := by
        simp only [Bool.or_eq_true, beq_iff_eq] at hc
        rcases hc with (rfl | rfl) | rfl <;> decide
      exact valid_subst_ascii _ c bSp _ hlt (by decide) hv
    · exact hv

theorem ta_foldAttr : ∀ (l : Bytes) (b : TextBuffer) (rest : Bytes), TA b (l ++ rest) →
    TA (l.foldl (fun b x => b.pushFromAttr x none) b) rest := by
  intro l
  induction l with
  | nil => intro b rest h; simpa using h
  | cons x xs ih =>
    intro b rest h
    simp only [List.foldl_cons]
    exact ih _ _ (ta_pushFromAttr b x _ none h)

theorem ta_pushRaw (b : TextBuffer) (c : UInt8) (rest : Bytes) (h : TA b (c :: rest)) :
    TA (b.pushRaw c) rest := by
  have := tj_pushRaw b c rest h.tj
  refine ⟨?_, this.2⟩
  unfold TextBuffer.pushRaw
  rw [resolve_false b h.1]
  exact h.1

theorem ta_pushBytesRaw : ∀ (l : Bytes) (b : TextBuffer) (rest : Bytes), TA b (l ++ rest) →
    TA (b.pushBytesRaw l) rest := by
  intro l
  induction l with
  | nil => intro b rest h; simpa [TextBuffer.pushBytesRaw] using h
  | cons x xs ih =>
    intro b rest h
    simp only [TextBuffer.pushBytesRaw, List.foldl_cons]
    exact ih _ _ (ta_pushRaw b x _ h)

/-- `finish` succeeds on a buffer whose content is valid. -/
theorem finish_ok (b : TextBuffer) (h : TJ b []) : ∃ out, b.finish = .ok out ∧ ValidUtf8 out := by
  obtain ⟨h1, _⟩ := tj_resolve b _ h
  unfold TextBuffer.finish
  simp only
  have hv := h1.2
  simp only [content, List.append_nil] at hv
  have : validUtf8 ((b.resolvePendingCr.1.rev.reverse).length + 1) b.resolvePendingCr.1.rev.reverse = true := hv
  rw [this]
  exact ⟨_, rfl, hv⟩

/-- The buffer is valid whenever the unread part starts with an ASCII byte. -/
theorem tj_cut (b : TextBuffer) (a : UInt8) (rest : Bytes) (ha : a < 128) (h : TJ b (a :: rest)) :
    TJ b [] :=
  ⟨h.1, by simpa using valid_before_ascii _ a rest ha h.2⟩

/-- Appending more unread input after a complete buffer. -/
theorem tj_extend (b : TextBuffer) (rest : Bytes) (h : TJ b []) (hr : ValidUtf8 rest) : TJ b rest :=
  ⟨h.1, valid_app (by simpa using h.2) hr⟩

end Rox.Lemmas
