/-
  Rox.Lemmas.CompleteExample — non-vacuity of `wellformed_is_accepted` (Rox.Lemmas.CompleteAll): a
  concrete document with a prefixed root, a namespace declaration, an attribute proper, character
  data with a reference, a comment, a processing instruction and an empty-element tag satisfies ALL
  hypotheses of the completeness theorem for the tables of the build; its acceptance is then obtained
  by APPLYING the theorem (the parser is not evaluated).
-/
import Rox.Lemmas.CompleteAll
import Rox.Lemmas.CompleteTables
import Rox.Lemmas.GrammarTables
import Rox.Generated
import Rox.Props.C01

namespace Rox.Lemmas
open Rox Rox.Spec.Grammar Rox.Spec.Mirror Rox.Spec.MirrorNs Rox.Spec.Complete

/-- `<p:a xmlns:p='u' b="1">x&amp;<!--c--><?q v?><e/></p:a>` -/
def completeExampleTxt : Bytes :=
  [60, 112, 58, 97,                                   -- <p:a
   32, 120, 109, 108, 110, 115, 58, 112, 61, 39, 117, 39,   -- ␣xmlns:p='u'
   32, 98, 61, 34, 49, 34,                            -- ␣b="1"
   62,                                                -- >
   120, 38, 97, 109, 112, 59,                         -- x&amp;
   60, 33, 45, 45, 99, 45, 45, 62,                    -- <!--c-->
   60, 63, 113, 32, 118, 63, 62,                      -- <?q v?>
   60, 101, 47, 62,                                   -- <e/>
   60, 47, 112, 58, 97, 62]                           -- </p:a>

/-- the abstract document of `completeExampleTxt`:
`elem "p:a" [("xmlns:p","u"), ("b","1")] [text "x&amp;", comment "c", pi "q" "v", elem "e" [] []]` -/
def completeExampleDoc : GDoc where
  pre := []
  root :=
    .elem [112, 58, 97]                                           -- p:a
      [([120, 109, 108, 110, 115, 58, 112], [117]),               -- xmlns:p = u
       ([98], [49])]                                              -- b = 1
      [.text [120, 38, 97, 109, 112, 59],                         -- x&amp;
       .comment [99],                                             -- c
       .pi [113] [118],                                           -- q v
       .elem [101] [] []]                                         -- e
  post := []

private abbrev GT : Tables := Rox.Generated.tables

/-! ### The concrete syntax (`RDoc`) -/

private theorem ex_sp : Sp GT [32] :=
  ⟨by decide, by show ∀ b ∈ ([32] : Bytes), byteIsSpace GT b = true; decide⟩
private theorem ex_sp0 : Sp0 GT [] := by intro b hb; cases hb

/-- ` xmlns:p='u' b="1"` -/
private theorem ex_attrs :
    RAttrs GT [([120, 109, 108, 110, 115, 58, 112], [117]), ([98], [49])]
      [32, 120, 109, 108, 110, 115, 58, 112, 61, 39, 117, 39, 32, 98, 61, 34, 49, 34] :=
  RAttrs.cons [120, 109, 108, 110, 115, 58, 112] [117] [([98], [49])] [32, 98, 61, 34, 49, 34]
    [32] [] [] 39 ex_sp ex_sp0 ex_sp0 (Or.inr rfl) (by decide)
    (RAttrs.cons [98] [49] [] [] [32] [] [] 34 ex_sp ex_sp0 ex_sp0 (Or.inl rfl) (by decide)
      RAttrs.nil)

/-- `x&amp;<!--c--><?q v?><e/>` -/
private theorem ex_kids :
    RKids GT [.text [120, 38, 97, 109, 112, 59], .comment [99], .pi [113] [118], .elem [101] [] []]
      [120, 38, 97, 109, 112, 59, 60, 33, 45, 45, 99, 45, 45, 62, 60, 63, 113, 32, 118, 63, 62,
       60, 101, 47, 62] :=
  RKids.cons (.text [120, 38, 97, 109, 112, 59]) _ [120, 38, 97, 109, 112, 59]
    [60, 33, 45, 45, 99, 45, 45, 62, 60, 63, 113, 32, 118, 63, 62, 60, 101, 47, 62]
    (RNode.text _)
    (RKids.cons (.comment [99]) _ [60, 33, 45, 45, 99, 45, 45, 62]
      [60, 63, 113, 32, 118, 63, 62, 60, 101, 47, 62]
      (RNode.comment [99])
      (RKids.cons (.pi [113] [118]) _ [60, 63, 113, 32, 118, 63, 62] [60, 101, 47, 62]
        (RNode.piSome [113] [32] [118] ex_sp (by decide))
        (RKids.cons (.elem [101] [] []) [] [60, 101, 47, 62] []
          (RNode.empty [101] [] [] [] RAttrs.nil ex_sp0)
          RKids.nil)))

private theorem ex_root : RNode GT completeExampleDoc.root completeExampleTxt :=
  RNode.elem [112, 58, 97] [112, 58, 97] _ _
    [32, 120, 109, 108, 110, 115, 58, 112, 61, 39, 117, 39, 32, 98, 61, 34, 49, 34] []
    [120, 38, 97, 109, 112, 59, 60, 33, 45, 45, 99, 45, 45, 62, 60, 63, 113, 32, 118, 63, 62,
     60, 101, 47, 62] []
    ex_attrs ex_sp0 ex_kids ex_sp0 rfl

private theorem ex_rdoc : RDoc GT completeExampleDoc completeExampleTxt :=
  RDoc.mk [] completeExampleDoc.root [] [] [] [] completeExampleTxt [] (Or.inl rfl) (Or.inl rfl)
    RMisc.nil ex_root RMisc.nil

/-! ### Well-formedness of the abstract document (`GDocWf`) -/

/-- a one-character ASCII name -/
private theorem ex_name1 (c : Nat) (b : UInt8) (hb : [b] = enc [c])
    (hc : charIsNameStart GT c = true) : Name GT [b] :=
  ⟨c, [], hb, hc, by intro d hd; cases hd⟩

private theorem ex_ncname_p : NCName GT [112] := ⟨ex_name1 112 112 (by decide) (by decide), by decide⟩
private theorem ex_ncname_a : NCName GT [97] := ⟨ex_name1 97 97 (by decide) (by decide), by decide⟩
private theorem ex_ncname_b : NCName GT [98] := ⟨ex_name1 98 98 (by decide) (by decide), by decide⟩
private theorem ex_ncname_e : NCName GT [101] := ⟨ex_name1 101 101 (by decide) (by decide), by decide⟩
private theorem ex_ncname_xmlns : NCName GT [120, 109, 108, 110, 115] :=
  ⟨⟨120, [109, 108, 110, 115], by decide, by decide, by decide⟩, by decide⟩

private theorem ex_chars (cs : List Nat) (bs : Bytes) (h1 : bs = enc cs)
    (h2 : ∀ c ∈ cs, charIsXmlChar GT c = true) : Rox.Spec.Grammar.Chars GT bs := ⟨cs, h1, h2⟩

/-- `x&amp;` = literal `x`, then the reference `&amp;` -/
private theorem ex_reftext : RefText GT [120, 38, 97, 109, 112, 59] :=
  RefText.lit 120 _ (by decide) (by decide)
    (RefText.ref [38, 97, 109, 112, 59] [] (Ref.named Lit.amp (by decide)) RefText.nil)

private theorem ex_wf : GDocWf GT completeExampleDoc := by
  refine ⟨rfl, ?_, (by intro k hk; cases hk), (by intro k hk; cases hk)⟩
  show GWf GT (.elem _ _ _)
  simp only [GWf, GWfAll]
  refine ⟨?_, ?_, by decide, by decide, ⟨?_, ?_, ?_, ?_, trivial⟩⟩
  · -- the element name `p:a`
    exact Or.inr (Or.inl ⟨[112], [97], ex_ncname_p, ex_ncname_a, rfl⟩)
  · -- the attributes
    intro a ha
    simp only [List.mem_cons, List.not_mem_nil, or_false] at ha
    rcases ha with rfl | rfl
    · exact ⟨Or.inr (Or.inl ⟨[120, 109, 108, 110, 115], [112], ex_ncname_xmlns, ex_ncname_p, rfl⟩),
        ex_chars [117] [117] (by decide) (by decide),
        RefText.lit 117 [] (by decide) (by decide) RefText.nil⟩
    · exact ⟨Or.inl ex_ncname_b,
        ex_chars [49] [49] (by decide) (by decide),
        RefText.lit 49 [] (by decide) (by decide) RefText.nil⟩
  · -- text `x&amp;`
    exact ⟨by decide, ex_chars [120, 38, 97, 109, 112, 59] [120, 38, 97, 109, 112, 59] (by decide) (by decide), ex_reftext,
      by decide⟩
  · -- comment `c`
    exact ⟨ex_chars [99] [99] (by decide) (by decide), by decide, by decide⟩
  · -- PI `q v`
    exact ⟨ex_name1 113 113 (by decide) (by decide), ex_chars [118] [118] (by decide) (by decide),
      by decide⟩
  · -- the empty element `e`
    exact ⟨Or.inl ex_ncname_e, (by intro a ha; cases ha), by decide, by decide, trivial⟩

/-! ### The remaining hypotheses -/

private theorem ex_strict : DocStrict completeExampleDoc := by
  refine ⟨?_, ?_, ?_⟩
  · show StrictAll []
    simp only [StrictAll]
  · show Strict (.elem _ _ _)
    simp only [Strict, StrictAll, and_true, true_and]
    decide
  · show StrictAll []
    simp only [StrictAll]

private theorem ex_nswf : DocNsWf completeExampleDoc := by
  unfold DocNsWf
  decide +kernel

/-- the expected tree has 5 nodes below the root node and 1 attribute proper (`treeKids` is compiled
by well-founded recursion: it is unfolded by its equations, the rest is evaluated) -/
private theorem ex_tree : ∃ t, docTree completeExampleDoc = t ∧ Spec.Canon4.countAllY t = 5 ∧
    Spec.Canon4.attrCountAllY t = 1 := by
  simp only [docTree, completeExampleDoc, treeKids, treeOf, flush, List.append_nil, List.nil_append,
    List.cons_append, exists_eq_left']
  decide +kernel

private theorem ex_limits : WithinLimits completeExampleDoc {} := by
  obtain ⟨t, ht, hc, ha⟩ := ex_tree
  unfold WithinLimits
  rw [ht, hc, ha]
  refine ⟨by decide, by decide, by decide, by decide +kernel⟩

/-- **Non-vacuity of completeness**: the example satisfies every hypothesis of
`wellformed_is_accepted` for the tables of the build. -/
theorem completeExample_hyps :
    ValidUtf8 completeExampleTxt ∧ GDocWf Rox.Generated.tables completeExampleDoc ∧
      RDoc Rox.Generated.tables completeExampleDoc completeExampleTxt ∧
      DocStrict completeExampleDoc ∧ DocNsWf completeExampleDoc ∧
      WithinLimits completeExampleDoc {} :=
  ⟨by unfold ValidUtf8; decide +kernel, ex_wf, ex_rdoc, ex_strict, ex_nswf, ex_limits⟩

/-- the example is accepted — by the completeness theorem, not by running the parser -/
theorem completeExample_accepted :
    ∃ d, parse Rox.Generated.tables completeExampleTxt {} = .ok d :=
  wellformed_is_accepted Rox.Generated.tables Rox.Props.C01.generated_tables_ok
    generated_tables_grammar generated_tables_complete completeExampleTxt completeExample_hyps.1
    completeExampleDoc completeExample_hyps.2.1 completeExample_hyps.2.2.1
    completeExample_hyps.2.2.2.1 completeExample_hyps.2.2.2.2.1 {} completeExample_hyps.2.2.2.2.2

end Rox.Lemmas
