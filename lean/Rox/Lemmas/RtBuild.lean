/-
  Rox.Lemmas.RtBuild — the builder fed with the expected tokens of a canonical rendering
  (`Rox.Spec.Canon.toks`) builds exactly the expected arena (`Rox.Spec.Canon.expect`, read back
  through `view`), and `parse` succeeds.
-/
import Rox.Spec.Canon
import Rox.Lemmas.Arena
import Rox.Lemmas.BInv4
import Rox.Lemmas.SingleRoot

namespace Rox.Lemmas
open Rox Rox.Spec.Canon

mutual
  /-- number of attributes of a subtree -/
  def attrCount : XNode → Nat
    | .elem _ as ks => as.length + attrCountAll ks
    | _ => 0
  def attrCountAll : List XNode → Nat
    | [] => 0
    | k :: ks => attrCount k + attrCountAll ks
end

namespace RtB

/-! ### `feed` -/

theorem feed_cons_ok {step : Token → Ctx → Res Ctx} {t : Token} {ts : List Token} {c c1 : Ctx}
    (h : step t c = .ok c1) : feed step (t :: ts) c = feed step ts c1 := by
  simp only [feed, h]

theorem feed_append_ok {step : Token → Ctx → Res Ctx} : ∀ (l1 l2 : List Token) (c c1 c2 : Ctx),
    feed step l1 c = .ok c1 → feed step l2 c1 = .ok c2 → feed step (l1 ++ l2) c = .ok c2 := by
  intro l1
  induction l1 with
  | nil => intro l2 c c1 c2 h1 h2; simp only [feed, Res.ok.injEq] at h1; subst h1; simpa using h2
  | cons t ts ih =>
    intro l2 c c1 c2 h1 h2
    simp only [feed, List.cons_append] at h1 ⊢
    cases hs : step t c with
    | ok c' => rw [hs] at h1; simp only at h1 ⊢; exact ih l2 c' c1 c2 h1 h2
    | err e => rw [hs] at h1; simp at h1
    | panic s => rw [hs] at h1; simp at h1
    | fuel => rw [hs] at h1; simp at h1

/-! ### What `view` reads of a node -/

def kp (n : NodeData) : Kind × Option Nat := (n.kind, n.parent)

def kps (c : Ctx) : List (Kind × Option Nat) := c.doc.nodes.toList.map kp

def viewKP (attrs : List AttrData) (x : Kind × Option Nat) : Option (Option Nat × XKind) :=
  match x.1 with
  | .root => some (x.2, .root)
  | .comment s => some (x.2, .comment s.bytes)
  | .text s => some (x.2, .text s.bytes)
  | .pi _ _ => none
  | .element nsIdx name at_ _ =>
    if nsIdx.isSome then none
    else
      let as := (attrs.drop at_.1).take (at_.2 - at_.1)
      if as.any (fun a => a.nsIdx.isSome) then none
      else some (x.2, .elem name.bytes (as.map fun a => (a.localName.bytes, a.value.bytes)))

theorem view_eq (d : Doc) (n : NodeData) : view d n = viewKP d.attrs.toList (kp n) := by
  obtain ⟨p, a, b, c, k, r⟩ := n
  cases k <;> rfl

/-- an element's attribute range lies inside the first `na` attributes and its namespace range is
the empty range `(s, s)` -/
def good (s na : Nat) : Kind → Prop
  | .element _ _ at_ nss => at_.2 ≤ na ∧ nss = (s, s)
  | _ => True

theorem good_mono {s na na' : Nat} {k : Kind} (h : good s na k) (hle : na ≤ na') : good s na' k := by
  cases k <;> simp_all [good]
  omega

theorem take_drop_append {α} (l more : List α) (a b : Nat) (hb : b ≤ l.length) :
    ((l ++ more).drop a).take (b - a) = (l.drop a).take (b - a) := by
  by_cases ha : a ≤ l.length
  · rw [List.drop_append_of_le_length ha, List.take_append_of_le_length]
    simp only [List.length_drop]; omega
  · have : b - a = 0 := by omega
    rw [this]; simp

theorem viewKP_stable (s : Nat) (l more : List AttrData) (x : Kind × Option Nat)
    (h : good s l.length x.1) : viewKP (l ++ more) x = viewKP l x := by
  obtain ⟨k, p⟩ := x
  cases k with
  | element ns name at_ nss =>
    simp only [good] at h
    simp only [viewKP, take_drop_append l more at_.1 at_.2 h.1]
  | _ => rfl

/-! ### Forward equations for the arena primitives -/

theorem resetAfterText_ok (c : Ctx) (h : c.afterText.length ≤ 1) :
    c.resetAfterText = .ok { c with afterText := [] } := by
  unfold Ctx.resetAfterText
  cases hat : c.afterText with
  | nil =>
    simp only [List.isEmpty_nil, if_true]
    cases c; simp_all
  | cons a r =>
    rw [hat] at h
    have hr : r = [] := by
      cases r with
      | nil => rfl
      | cons b r' => simp only [List.length_cons] at h; omega
    subst hr
    simp

theorem setNextSubtree_ok (new : Nat) : ∀ (l : List Nat) (nodes : Array NodeData),
    (∀ x ∈ l, x < nodes.size) → ∃ nodes', Ctx.setNextSubtree nodes new l = .ok nodes' := by
  intro l
  induction l with
  | nil => intro nodes _; exact ⟨nodes, rfl⟩
  | cons x xs ih =>
    intro nodes h
    simp only [Ctx.setNextSubtree]
    have hx : x < nodes.size := h x (by simp)
    have : nodes[x]? = some nodes[x] := by simp [hx]
    rw [this]
    simp only
    apply ih
    intro y hy
    simp only [Array.size_setIfInBounds]
    exact h y (by simp [hy])

theorem appendNode_ok (c : Ctx) (k : Kind) (r : Range) (hb : BInv c) (hl : c.nodesLimit ≤ 4294967295)
    (hroom : c.doc.nodes.size < c.nodesLimit) :
    ∃ c', c.appendNode k r = .ok (c', c.doc.nodes.size) := by
  unfold Ctx.appendNode
  have hge : ¬ c.doc.nodes.size ≥ c.nodesLimit := by omega
  simp only [hge, if_false]
  have hid : Api.nodeIdNew c.doc.nodes.size = .ok c.doc.nodes.size := by
    unfold Api.nodeIdNew
    have : c.doc.nodes.size < 4294967295 := by omega
    simp [this]
  rw [hid]
  simp only [Res.bind_ok]
  have hpid := hb.pid_lt
  have hne : c.parentId ≠ c.doc.nodes.size := by omega
  have h1 : (c.doc.nodes.push (NodeData.mk (some c.parentId) none none none k (if c.positions then r else (0, 0))))[c.parentId]? = some c.doc.nodes[c.parentId] := by
    rw [Array.getElem?_push]; simp [hne, hpid]
  rw [h1]
  simp only
  have h3 : (c.doc.nodes.push (NodeData.mk (some c.parentId) none none none k (if c.positions then r else (0, 0))))[c.doc.nodes.size]? =
        some (NodeData.mk (some c.parentId) none none none k (if c.positions then r else (0, 0))) := by
    rw [Array.getElem?_push]; simp
  rw [h3]
  simp only
  have h2 : ∀ (n : NodeData), ((c.doc.nodes.push (NodeData.mk (some c.parentId) none none none k (if c.positions then r else (0, 0)))).setIfInBounds c.doc.nodes.size n)[c.parentId]? =
        some c.doc.nodes[c.parentId] := by
    intro n
    rw [Array.getElem?_setIfInBounds]
    simp only [hne.symm, if_false]
    exact h1
  rw [h2]
  simp only
  obtain ⟨nodes', hs⟩ := setNextSubtree_ok c.doc.nodes.size c.awaiting
    (((c.doc.nodes.push (NodeData.mk (some c.parentId) none none none k (if c.positions then r else (0, 0)))).setIfInBounds
      c.doc.nodes.size { parent := some c.parentId, prevSibling := c.doc.nodes[c.parentId].lastChild, nextSubtree := none, lastChild := none, kind := k, range := (if c.positions then r else (0, 0)) }).setIfInBounds
      c.parentId { c.doc.nodes[c.parentId] with lastChild := some c.doc.nodes.size })
    (by
      intro x hx
      have := hb.awaiting_lt x hx
      simp only [Array.size_setIfInBounds, Array.size_push]
      omega)
  rw [hs]
  exact ⟨_, rfl⟩

/-! ### The part of the context that matters on this path -/

structure Core where
  nodesLimit : Nat
  nsStartIdx : Nat
  curAttrs : List TempAttr
  parentPrefixes : List Bytes
  entityFloor : Nat
  afterText : List Str
  parentId : Nat
  tagName : TagName
  doc : Doc

def core (c : Ctx) : Core :=
  ⟨c.nodesLimit, c.nsStartIdx, c.curAttrs, c.parentPrefixes, c.entityFloor, c.afterText, c.parentId,
    c.tagName, c.doc⟩

theorem appendNode_fwd (c : Ctx) (k : Kind) (r : Range) (hb : BInv c) (hl : c.nodesLimit ≤ 4294967295)
    (hroom : c.doc.nodes.size < c.nodesLimit) :
    ∃ c', c.appendNode k r = .ok (c', c.doc.nodes.size) ∧
      kps c' = kps c ++ [(k, some c.parentId)] ∧
      core c' = { core c with doc := c'.doc } ∧ c'.doc.attrs = c.doc.attrs ∧ c'.doc.ns = c.doc.ns := by
  obtain ⟨c', h⟩ := appendNode_ok c k r hb hl hroom
  have hc' : c' = { c with doc := { c.doc with nodes := c'.doc.nodes }, awaiting := c'.awaiting } :=
    (appendNode_safe c k r hb hl).post _ h
  refine ⟨c', h, ?_, by rw [hc']; rfl, by rw [hc'], by rw [hc']⟩
  obtain ⟨_, hsz, hold, ⟨p, hp, hnew⟩, _⟩ :=
    appendNode_spec c c' k r _ hb.pid_lt hb.awaiting_lt h
  apply List.ext_getElem?
  intro i
  unfold kps
  by_cases hi : i < c.doc.nodes.size
  · rw [List.getElem?_append_left (by simpa using hi)]
    simp only [List.getElem?_map, Array.getElem?_toList]
    rw [hold i hi]
    cases c.doc.nodes[i]? <;> simp [kp]
  · by_cases hi' : i = c.doc.nodes.size
    · subst hi'
      rw [List.getElem?_append_right (by simp)]
      simp only [List.getElem?_map, Array.getElem?_toList, hnew]
      simp [kp]
    · have h1 : c'.doc.nodes[i]? = none := by
        apply Array.getElem?_eq_none; omega
      rw [List.getElem?_append_right (by simp; omega)]
      simp only [List.getElem?_map, Array.getElem?_toList, h1]
      have : i - c.doc.nodes.size ≥ 1 := by omega
      simp
      omega

/-! ### Namespaces and attributes on this path -/

theorem getNs_empty (txt : Bytes) (doc : Doc) (s pos : Nat) (hs : s ≤ doc.ns.treeOrder.size) :
    getNsIdxByPrefix txt doc (s, s) pos [] = .ok none := by
  unfold getNsIdxByPrefix
  have h1 : (([] : Bytes) == Lit.xml) = false := by decide
  simp [h1, hs, getNsIdxByPrefix.find]

theorem resolveNamespaces_flat (c : Ctx) (s : Nat) (p : NodeData)
    (hp : c.doc.nodes[c.parentId]? = some p)
    (hg : ∀ a b at_ nss, p.kind = .element a b at_ nss → nss = (s, s))
    (h1 : c.nsStartIdx = s) (h2 : c.doc.ns.treeOrder.size = s) :
    resolveNamespaces c = .ok (c, (s, s)) := by
  unfold resolveNamespaces Ctx.nodeAt
  rw [hp]
  simp only [Res.bind_ok]
  cases hk : p.kind with
  | element a b at_ nss =>
    simp [h1, h2, hg a b at_ nss hk]
  | _ => simp [h1, h2]

theorem good_flat {s na : Nat} {k : Kind} (h : good s na k) :
    ∀ a b at_ nss, k = .element a b at_ nss → nss = (s, s) := by
  intro a b at_ nss hk
  subst hk
  exact h.2

theorem anyM_false {α} (f : α → Res Bool) : ∀ (l : List α), (∀ k ∈ l, f k = .ok false) →
    l.anyM f = .ok false
  | [], _ => by simp [List.anyM]
  | k :: r, h => by
    simp only [List.anyM]
    rw [h k (by simp)]
    simp only [Res.bind_ok]
    exact anyM_false f r (fun k hk => h k (by simp [hk]))

/-- what `view` reads of an attribute -/
def akey (a : AttrData) : Option Nat × Bytes × Bytes := (a.nsIdx, a.localName.bytes, a.value.bytes)

def mkAd (positions : Bool) (a : TempAttr) : AttrData :=
  if positions then
    { nsIdx := none, localName := a.loc, value := a.value, range := a.range,
      qnameLen := a.qnameLen, eqLen := a.eqLen }
  else
    { nsIdx := none, localName := a.loc, value := a.value, range := (0, 0),
      qnameLen := 0, eqLen := 0 }

theorem resolveAttrsLoop_ok (txt : Bytes) (positions : Bool) (nss : Range) (startIdx : Nat) :
    ∀ (l : List TempAttr) (doc : Doc),
    (∀ a ∈ l, a.pfx.bytes = []) →
    (∀ k, startIdx ≤ k → k < doc.attrs.size → ∃ a, doc.attrs[k]? = some a ∧ a.nsIdx = none ∧
        a.localName.bytes ∉ l.map (·.loc.bytes)) →
    (l.map (·.loc.bytes)).Nodup →
    ∃ doc', resolveAttrsLoop txt positions nss startIdx l doc = .ok doc' ∧ doc'.nodes = doc.nodes ∧
      doc'.ns = doc.ns ∧
      ∃ new, doc'.attrs.toList = doc.attrs.toList ++ new ∧
        new.map akey = l.map (fun a => (none, a.loc.bytes, a.value.bytes)) := by
  intro l
  induction l with
  | nil =>
    intro doc _ _ _
    exact ⟨doc, rfl, rfl, rfl, [], by simp, rfl⟩
  | cons a r ih =>
    intro doc hpfx hex hnd
    have hap : a.pfx.bytes = [] := hpfx a (by simp)
    simp only [resolveAttrsLoop, attrNsIdx, hap]
    have h1 : (([] : Bytes) == Lit.xml) = false := by decide
    simp only [h1, Bool.false_eq_true, if_false, List.isEmpty_nil, if_true, Res.bind_ok,
      Api.expandedName]
    have hany : ((List.range (doc.attrs.size - startIdx)).map (· + startIdx)).anyM (fun k => do
        let e ← Api.attrExpanded doc k
        pure (e == ((none : Option Bytes), a.loc.bytes))) = .ok false := by
      apply anyM_false
      intro k hk
      simp only [List.mem_map, List.mem_range] at hk
      obtain ⟨j, hj, rfl⟩ := hk
      obtain ⟨b, hb, hbn, hbl⟩ := hex (j + startIdx) (by omega) (by omega)
      simp only [Api.attrExpanded, Api.attrAt, hb, Res.bind_ok, Api.expandedName, hbn, Res.pure_eq]
      have : b.localName.bytes ≠ a.loc.bytes := by
        intro he
        apply hbl
        simp [he]
      simp [this]
    rw [hany]
    simp only [Res.bind_ok, Bool.false_eq_true, if_false]
    have hnd' : a.loc.bytes ∉ r.map (·.loc.bytes) ∧ (r.map (·.loc.bytes)).Nodup :=
      List.nodup_cons.mp hnd
    obtain ⟨doc', hd, hn, hns, new, hnew, hmap⟩ := ih
      (Doc.mk doc.nodes (doc.attrs.push (mkAd positions a)) doc.ns)
      (fun x hx => hpfx x (by simp [hx]))
      (by
        intro k hk1 hk2
        simp only [Array.size_push] at hk2
        by_cases hk : k < doc.attrs.size
        · obtain ⟨b, hb, hbn, hbl⟩ := hex k hk1 hk
          refine ⟨b, ?_, hbn, ?_⟩
          · simp only [Array.getElem?_push]
            have : k ≠ doc.attrs.size := by omega
            simp [this, hb]
          · intro hm
            apply hbl
            simp only [List.map_cons, List.mem_cons]
            exact Or.inr hm
        · have hk' : k = doc.attrs.size := by omega
          subst hk'
          refine ⟨mkAd positions a, by simp only [Array.getElem?_push]; simp, ?_, ?_⟩
          · unfold mkAd; split <;> rfl
          · have : (mkAd positions a).localName = a.loc := by unfold mkAd; split <;> rfl
            rw [this]
            exact hnd'.1)
      hnd'.2
    refine ⟨doc', hd, hn, hns, mkAd positions a :: new, ?_, ?_⟩
    · rw [hnew]; simp
    · simp only [List.map_cons, hmap]
      congr 1
      unfold mkAd
      split <;> rfl

theorem resolveAttributes_ok (txt : Bytes) (c : Ctx) (nss : Range)
    (hpfx : ∀ a ∈ c.curAttrs, a.pfx.bytes = []) (hnd : (c.curAttrs.map (·.loc.bytes)).Nodup)
    (hlim : c.doc.attrs.size + c.curAttrs.length < 4294967295) :
    ∃ c' rg, resolveAttributes txt c nss = .ok (c', rg) ∧
      c' = { c with doc := c'.doc, curAttrs := [] } ∧ c'.doc.nodes = c.doc.nodes ∧
      c'.doc.ns = c.doc.ns ∧
      ∃ new, c'.doc.attrs.toList = c.doc.attrs.toList ++ new ∧
        new.map akey = c.curAttrs.map (fun a => (none, a.loc.bytes, a.value.bytes)) ∧
        rg.2 ≤ c'.doc.attrs.size ∧ (c'.doc.attrs.toList.drop rg.1).take (rg.2 - rg.1) = new := by
  unfold resolveAttributes
  cases hca : c.curAttrs with
  | nil =>
    refine ⟨c, (0, 0), by simp, ?_, rfl, rfl, [], by simp, by simp, by simp, by simp⟩
    cases c; simp_all
  | cons a r =>
    have hge : ¬ c.doc.attrs.size + (a :: r).length ≥ 4294967295 := by rw [hca] at hlim; omega
    simp only [List.isEmpty_cons, Bool.false_eq_true, if_false, hge]
    obtain ⟨doc', hd, hn, hns, new, hnew, hmap⟩ :=
      resolveAttrsLoop_ok txt c.positions nss c.doc.attrs.size (a :: r) c.doc
        (by rw [← hca]; exact hpfx) (by intro k h1 h2; omega) (by rw [← hca]; exact hnd)
    rw [hd]
    simp only [Res.bind_ok, Res.pure_eq]
    have hsz : doc'.attrs.size = c.doc.attrs.size + new.length := by
      have := congrArg List.length hnew
      simpa using this
    refine ⟨_, _, rfl, rfl, hn, hns, new, hnew, hmap, Nat.le_refl _, ?_⟩
    simp only [hnew]
    rw [List.drop_append_of_le_length (by simp)]
    have : List.drop c.doc.attrs.size c.doc.attrs.toList = [] := by simp
    simp [hsz, this]

/-! ### Byte facts -/

theorem isPlain_bounds {b : UInt8} (h : isPlain b = true) : 32 ≤ b.toNat ∧ b.toNat ≤ 126 := by
  simpa [isPlain, UInt8.le_iff_toNat_le] using h

theorem plain_bne {b c : UInt8} (hb : isPlain b = true) (hc : c.toNat < 32) : (b == c) = false := by
  rw [beq_eq_false_iff_ne]
  rintro rfl
  have := isPlain_bounds hb
  omega

theorem valueOk_fast {v : Bytes} (h : valueOk v = true) :
    v.any (fun b => b == bAmp || b == bTab || b == bLF || b == bCR) = false := by
  rw [List.any_eq_false]
  intro x hx
  simp only [valueOk, List.all_eq_true, Bool.and_eq_true, bne_iff_ne, ne_eq] at h
  obtain ⟨⟨⟨hp, _⟩, h38⟩, _⟩ := h x hx
  have h1 : (x == bAmp) = false := by rw [beq_eq_false_iff_ne]; exact h38
  simp [h1, plain_bne hp (c := bTab) (by decide), plain_bne hp (c := bLF) (by decide),
    plain_bne hp (c := bCR) (by decide)]

theorem textOk_fast {t : Bytes} (h : textOk t = true) :
    t.any (fun b => b == bAmp || b == bCR) = false := by
  rw [List.any_eq_false]
  intro x hx
  simp only [textOk, List.all_eq_true, Bool.and_eq_true, bne_iff_ne, ne_eq] at h
  obtain ⟨⟨⟨hp, _⟩, h38⟩, _⟩ := h.2 x hx
  have h1 : (x == bAmp) = false := by rw [beq_eq_false_iff_ne]; exact h38
  simp [h1, plain_bne hp (c := bCR) (by decide)]

section steps
variable (T : Tables) (txt : Bytes) (lower : Token → Ctx → Res Ctx)

theorem step_start (c : Ctx) (o o' p : Nat) (n : Bytes) (h : c.afterText.length ≤ 1) :
    ∃ c', tokenStep T txt lower (.elementStart ⟨o, []⟩ ⟨o', n⟩ p) c = .ok c' ∧
      core c' = { core c with afterText := [], tagName := ⟨[], n, ⟨o', n⟩, p, p + 1⟩ } := by
  unfold tokenStep
  dsimp only
  rw [resetAfterText_ok _ (by simpa [Ctx.log] using h)]
  have h1 : (([] : Bytes) == Lit.xmlns) = false := by decide
  simp only [Res.bind_ok, h1, Bool.false_eq_true, if_false, Res.pure_eq]
  exact ⟨_, rfl, rfl⟩

theorem step_attr (c : Ctx) (rg : Range) (q e o1 o2 o3 : Nat) (an v : Bytes)
    (han : an ≠ Lit.xmlns) (hv : valueOk v = true) :
    ∃ c', tokenStep T txt lower (.attribute rg q e ⟨o1, []⟩ ⟨o2, an⟩ ⟨o3, v⟩) c = .ok c' ∧
      core c' = { core c with
        curAttrs := c.curAttrs ++ [⟨⟨o1, []⟩, ⟨o2, an⟩, .borrowed ⟨o3, v⟩, rg, q, e⟩] } := by
  unfold tokenStep
  dsimp only
  unfold processAttribute normalizeAttribute
  have h1 : (([] : Bytes) == Lit.xmlns) = false := by decide
  have h2 : (an == Lit.xmlns) = false := by rw [beq_eq_false_iff_ne]; exact han
  simp only [valueOk_fast hv, Bool.false_eq_true, if_false, Res.bind_ok, h1, h2, Bool.and_false,
    Res.pure_eq]
  exact ⟨_, rfl, rfl⟩

def canonTA (p : Nat) (an v : Bytes) : TempAttr :=
  ⟨⟨p + 1, []⟩, ⟨p + 1, an⟩, .borrowed ⟨p + 1 + an.length + 2, v⟩,
    (p + 1, p + 1 + an.length + 2 + v.length + 1), min an.length 65535, 1⟩

theorem feed_attrs : ∀ (as : List (Bytes × Bytes)) (p : Nat) (c : Ctx),
    (∀ a ∈ as, a.1 ≠ Lit.xmlns ∧ valueOk a.2 = true) →
    ∃ c', feed (tokenStep T txt lower) (attrToks p as) c = .ok c' ∧
      ∃ new, core c' = { core c with curAttrs := c.curAttrs ++ new } ∧
        (∀ a ∈ new, a.pfx.bytes = []) ∧
        new.map (fun a => (a.loc.bytes, a.value.bytes)) = as := by
  intro as
  induction as with
  | nil =>
    intro p c _
    refine ⟨c, rfl, [], ?_, by simp, rfl⟩
    simp [core]
  | cons a r ih =>
    intro p c h
    obtain ⟨an, v⟩ := a
    obtain ⟨h1, h2⟩ := h (an, v) (by simp)
    simp only [attrToks]
    obtain ⟨c1, hs, hc1⟩ := step_attr T txt lower c
      (p + 1, p + 1 + an.length + 2 + v.length + 1) (min an.length 65535) 1 (p + 1) (p + 1)
      (p + 1 + an.length + 2) an v h1 h2
    obtain ⟨c2, hf, new, hc2, hp, hm⟩ := ih (p + 1 + an.length + 2 + v.length + 1) c1
      (fun x hx => h x (by simp [hx]))
    refine ⟨c2, ?_, canonTA p an v :: new, ?_, ?_, ?_⟩
    · rw [feed_cons_ok hs]; exact hf
    · rw [hc2, hc1]
      have : c1.curAttrs = c.curAttrs ++ [canonTA p an v] :=
        congrArg Core.curAttrs hc1
      rw [this]
      simp
    · intro x hx
      rcases List.mem_cons.mp hx with rfl | hx
      · rfl
      · exact hp x hx
    · simp only [List.map_cons, hm]
      rfl

theorem mem_kps (c : Ctx) (i : Nat) (n : NodeData) (h : c.doc.nodes[i]? = some n) : kp n ∈ kps c := by
  unfold kps
  apply List.mem_map_of_mem
  rw [Array.mem_toList_iff]
  exact Array.mem_of_getElem? h

theorem processElement_open (c : Ctx) (s : Nat) (r : Range) (o' p : Nat) (n : Bytes) (hn : n ≠ [])
    (hb : BInv c) (hl : c.nodesLimit ≤ 4294967295) (hroom : c.doc.nodes.size < c.nodesLimit)
    (htag : c.tagName = ⟨[], n, ⟨o', n⟩, p, p + 1⟩)
    (hns1 : c.nsStartIdx = s) (hns2 : c.doc.ns.treeOrder.size = s)
    (hgood : ∀ x ∈ kps c, good s c.doc.attrs.size x.1)
    (hpfx : ∀ a ∈ c.curAttrs, a.pfx.bytes = []) (hnd : (c.curAttrs.map (·.loc.bytes)).Nodup)
    (hlim : c.doc.attrs.size + c.curAttrs.length < 4294967295) :
    ∃ c', processElement txt c .open r = .ok c' ∧
      ∃ rg new,
        core c' = { core c with nsStartIdx := c.doc.ns.treeOrder.size, curAttrs := [], doc := c'.doc,
                                parentId := c.doc.nodes.size,
                                parentPrefixes := [] :: c.parentPrefixes } ∧
        kps c' = kps c ++ [(.element none ⟨o', n⟩ rg (s, s), some c.parentId)] ∧
        c'.doc.ns = c.doc.ns ∧
        c'.doc.attrs.toList = c.doc.attrs.toList ++ new ∧
        new.map akey = c.curAttrs.map (fun a => (none, a.loc.bytes, a.value.bytes)) ∧
        rg.2 ≤ c'.doc.attrs.size ∧ (c'.doc.attrs.toList.drop rg.1).take (rg.2 - rg.1) = new := by
  unfold processElement
  have hne : c.tagName.name.isEmpty = false := by
    rw [htag]; cases n with
    | nil => exact absurd rfl hn
    | cons _ _ => rfl
  simp only [hne, Bool.false_eq_true, if_false]
  obtain ⟨pn, hpn⟩ : ∃ pn, c.doc.nodes[c.parentId]? = some pn :=
    ⟨_, Array.getElem?_eq_getElem hb.pid_lt⟩
  have hg := hgood _ (mem_kps c _ _ hpn)
  rw [resolveNamespaces_flat c s pn hpn (good_flat hg) hns1 hns2]
  simp only [Res.bind_ok]
  obtain ⟨c3, rg, h3, hc3, hn3, hns3, new, hnew, hmap, hrg, htake⟩ :=
    resolveAttributes_ok txt { c with nsStartIdx := c.doc.ns.treeOrder.size, xmlDeclared := false } (s, s) hpfx hnd hlim
  rw [h3]
  simp only [Res.bind_ok]
  have hb3 : BInv c3 := (resolveAttributes_triEq txt _ c3 _ _ h3).binv (hb.congr rfl rfl rfl)
  have ht3 : c3.tagName = c.tagName := by rw [hc3]
  have hs3 : s ≤ c3.doc.ns.treeOrder.size := by rw [hns3]; exact Nat.le_of_eq hns2.symm
  rw [ht3, htag]
  simp only
  rw [getNs_empty txt c3.doc s _ hs3]
  simp only [Res.bind_ok]
  have hl3 : c3.nodesLimit = c.nodesLimit := by rw [hc3]
  obtain ⟨c4, h4, hk4, hc4, ha4, hns4⟩ := appendNode_fwd c3 (.element none ⟨o', n⟩ rg (s, s)) (p, r.2) hb3
    (by rw [hl3]; exact hl) (by rw [hl3, hn3]; exact hroom)
  rw [h4]
  simp only [Res.bind_ok, Res.pure_eq]
  have hpid3 : c3.parentId = c.parentId := by rw [hc3]
  have hcore3 : core c3 =
      { core c with nsStartIdx := c.doc.ns.treeOrder.size, curAttrs := [], doc := c3.doc } := by
    rw [hc3]; rfl
  have hk3 : kps c3 = kps c := by unfold kps; rw [hn3]
  refine ⟨_, rfl, rg, new, ?_, ?_, ?_, ?_, hmap, ?_, ?_⟩
  · have h4t : c4.tagName = c3.tagName := congrArg Core.tagName hc4
    have h4p : c4.parentPrefixes = c3.parentPrefixes := congrArg Core.parentPrefixes hc4
    show { core c4 with parentId := c3.doc.nodes.size,
                        parentPrefixes := c4.tagName.pfx :: c4.parentPrefixes } = _
    have h3p : c3.parentPrefixes = c.parentPrefixes := by rw [hc3]
    rw [h4t, ht3, htag, h4p, h3p, hc4, hcore3, hn3]
  · show kps c4 = _
    rw [hk4, hk3, hpid3]
  · show c4.doc.ns = _
    rw [hns4, hns3]
  · show c4.doc.attrs.toList = _
    rw [ha4, hnew]
  · show rg.2 ≤ c4.doc.attrs.size
    rw [ha4]; exact hrg
  · show (c4.doc.attrs.toList.drop rg.1).take (rg.2 - rg.1) = new
    rw [ha4]; exact htake

theorem step_open (c : Ctx) (s : Nat) (r : Range) (o' p : Nat) (n : Bytes) (hn : n ≠ [])
    (hb : BInv c) (hl : c.nodesLimit ≤ 4294967295) (hroom : c.doc.nodes.size < c.nodesLimit)
    (hat : c.afterText.length ≤ 1)
    (htag : c.tagName = ⟨[], n, ⟨o', n⟩, p, p + 1⟩)
    (hns1 : c.nsStartIdx = s) (hns2 : c.doc.ns.treeOrder.size = s)
    (hgood : ∀ x ∈ kps c, good s c.doc.attrs.size x.1)
    (hpfx : ∀ a ∈ c.curAttrs, a.pfx.bytes = []) (hnd : (c.curAttrs.map (·.loc.bytes)).Nodup)
    (hlim : c.doc.attrs.size + c.curAttrs.length < 4294967295) :
    ∃ c', tokenStep T txt lower (.elementEnd .open r) c = .ok c' ∧
      ∃ rg new,
        core c' = { core c with nsStartIdx := c.doc.ns.treeOrder.size, curAttrs := [], doc := c'.doc,
                                parentId := c.doc.nodes.size, afterText := [],
                                parentPrefixes := [] :: c.parentPrefixes } ∧
        kps c' = kps c ++ [(.element none ⟨o', n⟩ rg (s, s), some c.parentId)] ∧
        c'.doc.ns = c.doc.ns ∧
        c'.doc.attrs.toList = c.doc.attrs.toList ++ new ∧
        new.map akey = c.curAttrs.map (fun a => (none, a.loc.bytes, a.value.bytes)) ∧
        rg.2 ≤ c'.doc.attrs.size ∧ (c'.doc.attrs.toList.drop rg.1).take (rg.2 - rg.1) = new := by
  unfold tokenStep
  dsimp only
  rw [resetAfterText_ok _ (by simpa [Ctx.log] using hat)]
  simp only [Res.bind_ok]
  obtain ⟨c', h, rg, new, hc, hk, h1, h2, h3, h4, h5⟩ :=
    processElement_open txt { c.log (.token (.elementEnd .open r)) with afterText := [] } s r o' p n hn
      (hb.congr rfl rfl rfl) hl hroom htag hns1 hns2 hgood hpfx hnd hlim
  exact ⟨c', h, rg, new, hc, hk, h1, h2, h3, h4, h5⟩

theorem toList_set_kp (a : Array NodeData) (i : Nat) (p p' : NodeData) (hp : a[i]? = some p)
    (hk : kp p' = kp p) : (a.setIfInBounds i p').toList.map kp = a.toList.map kp := by
  apply List.ext_getElem?
  intro j
  simp only [List.getElem?_map, Array.getElem?_toList, Array.getElem?_setIfInBounds]
  by_cases hij : i = j
  · subst hij
    obtain ⟨hi, hpe⟩ := Array.getElem?_eq_some_iff.mp hp
    simp [hi, hk, hpe]
  · simp [hij]

theorem processElement_close (c : Ctx) (s P : Nat) (r : Range) (o1 o2 : Nat) (n : Bytes)
    (rest : List Bytes) (pn : NodeData) (a : Option Nat) (sp : Span) (b nss : Range)
    (htag : c.tagName.name ≠ [])
    (hns1 : c.nsStartIdx = s) (hns2 : c.doc.ns.treeOrder.size = s)
    (hcur : c.curAttrs = []) (hfl : c.entityFloor ≤ rest.length) (hpp : c.parentPrefixes = [] :: rest)
    (hpn : c.doc.nodes[c.parentId]? = some pn) (hkind : pn.kind = .element a sp b nss)
    (hsp : sp.bytes = n) (hnss : nss = (s, s)) (hpar : pn.parent = some P) :
    ∃ c', processElement txt c (.close ⟨o1, []⟩ ⟨o2, n⟩) r = .ok c' ∧
      core c' = { core c with nsStartIdx := c.doc.ns.treeOrder.size, doc := c'.doc, parentId := P,
                              parentPrefixes := rest } ∧
      kps c' = kps c ∧ c'.doc.attrs = c.doc.attrs ∧ c'.doc.ns = c.doc.ns := by
  unfold processElement
  have hne : c.tagName.name.isEmpty = false := by
    cases h : c.tagName.name with
    | nil => exact absurd h htag
    | cons _ _ => rfl
  simp only [hne, Bool.false_eq_true, if_false]
  have hg : ∀ a b at_ nss, pn.kind = .element a b at_ nss → nss = (s, s) := by
    intro a' b' at' nss' hk
    rw [hkind] at hk
    simp only [Kind.element.injEq] at hk
    rw [← hk.2.2.2]; exact hnss
  rw [resolveNamespaces_flat c s pn hpn hg hns1 hns2]
  simp only [Res.bind_ok]
  unfold resolveAttributes
  have hlen : ¬ (([] : Bytes) :: rest).length ≤ c.entityFloor := by
    simp only [List.length_cons]; omega
  have h1 : (([] : Bytes) != []) = false := by decide
  have h2 : (n != sp.bytes) = false := by rw [hsp]; simp
  simp only [hcur, List.isEmpty_nil, if_true, Res.bind_ok, hpp, hlen, if_false, Ctx.nodeAt, hpn,
    Ctx.setNode]
  by_cases hpos : c.positions = true
  · simp only [hpos, if_true, hkind, hpar, h1, h2, Bool.or_self, Bool.false_eq_true, if_false,
      Res.pure_eq]
    refine ⟨_, rfl, ?_, ?_, rfl, rfl⟩
    · simp [core, hcur]
    · unfold kps; exact toList_set_kp _ _ pn _ hpn (by simp [kp, hkind, hpar])
  · simp only [hpos, if_false, hkind, hpar, h1, h2, Bool.or_self, Bool.false_eq_true,
      Res.pure_eq]
    refine ⟨_, rfl, ?_, ?_, rfl, rfl⟩
    · simp [core, hcur]
    · unfold kps; exact toList_set_kp _ _ pn _ hpn rfl

theorem step_close (c : Ctx) (s P : Nat) (r : Range) (o1 o2 : Nat) (n : Bytes)
    (rest : List Bytes) (pn : NodeData) (a : Option Nat) (sp : Span) (b nss : Range)
    (hat : c.afterText.length ≤ 1)
    (htag : c.tagName.name ≠ [])
    (hns1 : c.nsStartIdx = s) (hns2 : c.doc.ns.treeOrder.size = s)
    (hcur : c.curAttrs = []) (hfl : c.entityFloor ≤ rest.length) (hpp : c.parentPrefixes = [] :: rest)
    (hpn : c.doc.nodes[c.parentId]? = some pn) (hkind : pn.kind = .element a sp b nss)
    (hsp : sp.bytes = n) (hnss : nss = (s, s)) (hpar : pn.parent = some P) :
    ∃ c', tokenStep T txt lower (.elementEnd (.close ⟨o1, []⟩ ⟨o2, n⟩) r) c = .ok c' ∧
      core c' = { core c with nsStartIdx := c.doc.ns.treeOrder.size, doc := c'.doc, parentId := P,
                              parentPrefixes := rest, afterText := [] } ∧
      kps c' = kps c ∧ c'.doc.attrs = c.doc.attrs ∧ c'.doc.ns = c.doc.ns := by
  unfold tokenStep
  dsimp only
  rw [resetAfterText_ok _ (by simpa [Ctx.log] using hat)]
  simp only [Res.bind_ok]
  obtain ⟨c', h, hc, hk, h1, h2⟩ :=
    processElement_close txt
      { c.log (.token (.elementEnd (.close ⟨o1, []⟩ ⟨o2, n⟩) r)) with afterText := [] } s P r o1 o2 n
      rest pn a sp b nss htag hns1 hns2 hcur hfl hpp hpn hkind hsp hnss hpar
  exact ⟨c', h, hc, hk, h1, h2⟩

theorem step_comment (c : Ctx) (o : Nat) (body : Bytes) (r : Range)
    (hb : BInv c) (hl : c.nodesLimit ≤ 4294967295) (hroom : c.doc.nodes.size < c.nodesLimit)
    (hat : c.afterText.length ≤ 1) :
    ∃ c', tokenStep T txt lower (.comment ⟨o, body⟩ r) c = .ok c' ∧
      core c' = { core c with doc := c'.doc, afterText := [] } ∧
      kps c' = kps c ++ [(.comment (.borrowed ⟨o, body⟩), some c.parentId)] ∧
      c'.doc.attrs = c.doc.attrs ∧ c'.doc.ns = c.doc.ns := by
  unfold tokenStep
  dsimp only
  rw [resetAfterText_ok _ (by simpa [Ctx.log] using hat)]
  simp only [Res.bind_ok]
  obtain ⟨c', h, hk, hc, h1, h2⟩ := appendNode_fwd
    { c.log (.token (.comment ⟨o, body⟩ r)) with afterText := [] } (.comment (.borrowed ⟨o, body⟩)) r
    (hb.congr rfl rfl rfl) hl hroom
  rw [h]
  exact ⟨c', rfl, hc, hk, h1, h2⟩

theorem step_text (c : Ctx) (o : Nat) (t : Bytes) (r : Range)
    (hb : BInv c) (hl : c.nodesLimit ≤ 4294967295) (hroom : c.doc.nodes.size < c.nodesLimit)
    (hat : c.afterText = []) (ht : textOk t = true) :
    ∃ c', tokenStep T txt lower (.text ⟨o, t⟩ r) c = .ok c' ∧
      core c' = { core c with doc := c'.doc, afterText := [.borrowed ⟨o, t⟩] } ∧
      kps c' = kps c ++ [(.text (.borrowed ⟨o, t⟩), some c.parentId)] ∧
      c'.doc.attrs = c.doc.attrs ∧ c'.doc.ns = c.doc.ns := by
  unfold tokenStep
  dsimp only
  unfold processText
  simp only [textOk_fast ht, Bool.not_false, if_true]
  unfold Ctx.appendText
  obtain ⟨c', h, hk, hc, h1, h2⟩ := appendNode_fwd
    ((c.log (.token (.text ⟨o, t⟩ r))).log (.textFragment (.borrowed ⟨o, t⟩) r))
    (.text (.borrowed ⟨o, t⟩)) r (hb.congr rfl rfl rfl) hl hroom
  have he : ((c.log (.token (.text ⟨o, t⟩ r))).log (.textFragment (.borrowed ⟨o, t⟩) r)).afterText.isEmpty
      = true := by
    show c.afterText.isEmpty = true
    rw [hat]; rfl
  simp only [he, if_true, h, Res.bind_ok, Res.pure_eq]
  have hat' : c'.afterText = [] := by
    have := congrArg Core.afterText hc
    exact this.trans hat
  refine ⟨_, rfl, ?_, hk, h1, h2⟩
  show { core c' with afterText := c'.afterText ++ [Str.borrowed ⟨o, t⟩] } = _
  rw [hat', hc]
  rfl

end steps

/-! ### The invariant between two nodes, and what feeding the tokens of a subtree achieves -/

structure Inv (s : Nat) (c : Ctx) : Prop where
  binv : BInv c
  lim : c.nodesLimit ≤ 4294967295
  cur : c.curAttrs = []
  ns1 : c.nsStartIdx = s
  ns2 : c.doc.ns.treeOrder.size = s
  floor : c.entityFloor ≤ c.parentPrefixes.length
  at1 : c.afterText.length ≤ 1
  good : ∀ x ∈ kps c, good s c.doc.attrs.size x.1

structure Built (s : Nat) (c c' : Ctx) (N A : Nat) (L : List (Option Nat × XKind)) : Prop where
  inv : Inv s c'
  pid : c'.parentId = c.parentId
  pp : c'.parentPrefixes = c.parentPrefixes
  fl : c'.entityFloor = c.entityFloor
  lim : c'.nodesLimit = c.nodesLimit
  tag : c.tagName.name ≠ [] → c'.tagName.name ≠ []
  size : c'.doc.nodes.size = c.doc.nodes.size + N
  asize : c'.doc.attrs.size = c.doc.attrs.size + A
  grow : ∃ K more, kps c' = kps c ++ K ∧ c'.doc.attrs.toList = c.doc.attrs.toList ++ more ∧
    K.map (viewKP c'.doc.attrs.toList) = L.map some

theorem kps_getElem? (c : Ctx) (i : Nat) : (kps c)[i]? = (c.doc.nodes[i]?).map kp := by
  simp [kps]

theorem kps_length (c : Ctx) : (kps c).length = c.doc.nodes.size := by simp [kps]

theorem Built.refl {s : Nat} {c : Ctx} (h : Inv s c) : Built s c c 0 0 [] :=
  ⟨h, rfl, rfl, rfl, rfl, id, rfl, rfl, [], [], by simp, by simp, rfl⟩

theorem Built.trans {s : Nat} {c c1 c2 : Ctx} {N1 N2 A1 A2 : Nat} {L1 L2 : List (Option Nat × XKind)}
    (h1 : Built s c c1 N1 A1 L1) (h2 : Built s c1 c2 N2 A2 L2) :
    Built s c c2 (N1 + N2) (A1 + A2) (L1 ++ L2) := by
  obtain ⟨K1, m1, hk1, ha1, hv1⟩ := h1.grow
  obtain ⟨K2, m2, hk2, ha2, hv2⟩ := h2.grow
  refine ⟨h2.inv, h2.pid.trans h1.pid, h2.pp.trans h1.pp, h2.fl.trans h1.fl, h2.lim.trans h1.lim,
    fun h => h2.tag (h1.tag h), by rw [h2.size, h1.size]; omega, by rw [h2.asize, h1.asize]; omega,
    K1 ++ K2, m1 ++ m2, by rw [hk2, hk1, List.append_assoc], by rw [ha2, ha1, List.append_assoc], ?_⟩
  rw [List.map_append, List.map_append, hv2, ← hv1]
  congr 1
  apply List.map_congr_left
  intro x hx
  rw [ha2]
  apply viewKP_stable s
  have : x ∈ kps c1 := by rw [hk1]; exact List.mem_append_right _ hx
  have := h1.inv.good x this
  simpa using this

theorem akey_split : ∀ (new : List AttrData) (l : List TempAttr),
    new.map akey = l.map (fun a => (none, a.loc.bytes, a.value.bytes)) →
    new.any (fun a => a.nsIdx.isSome) = false ∧
      new.map (fun a => (a.localName.bytes, a.value.bytes)) =
        l.map (fun a => (a.loc.bytes, a.value.bytes)) := by
  intro new
  induction new with
  | nil =>
    intro l h
    cases l with
    | nil => simp
    | cons b l => simp at h
  | cons a new ih =>
    intro l h
    cases l with
    | nil => simp at h
    | cons b l =>
      simp only [List.map_cons, List.cons.injEq, akey, Prod.mk.injEq] at h
      obtain ⟨⟨h1, h2, h3⟩, h'⟩ := h
      obtain ⟨i1, i2⟩ := ih l h'
      simp [h1, h2, h3, i1, i2]

theorem built_leaf {s : Nat} {c c' : Ctx} {k : Kind} {X : List Str} {v : Option Nat × XKind}
    (hi : Inv s c) (hb' : BInv c') (hX : X.length ≤ 1)
    (hc : core c' = { core c with doc := c'.doc, afterText := X })
    (hk : kps c' = kps c ++ [(k, some c.parentId)]) (ha : c'.doc.attrs = c.doc.attrs)
    (hns : c'.doc.ns = c.doc.ns)
    (hg : ∀ na, good s na k) (hv : ∀ l, viewKP l (k, some c.parentId) = some v) :
    Built s c c' 1 0 [v] := by
  have e1 : c'.nodesLimit = c.nodesLimit := congrArg Core.nodesLimit hc
  have e2 : c'.curAttrs = c.curAttrs := congrArg Core.curAttrs hc
  have e3 : c'.nsStartIdx = c.nsStartIdx := congrArg Core.nsStartIdx hc
  have e4 : c'.entityFloor = c.entityFloor := congrArg Core.entityFloor hc
  have e5 : c'.afterText = X := congrArg Core.afterText hc
  have e6 : c'.parentId = c.parentId := congrArg Core.parentId hc
  have e7 : c'.parentPrefixes = c.parentPrefixes := congrArg Core.parentPrefixes hc
  have e8 : c'.tagName = c.tagName := congrArg Core.tagName hc
  have hsz : c'.doc.nodes.size = c.doc.nodes.size + 1 := by
    have := congrArg List.length hk
    simpa [kps_length] using this
  refine ⟨⟨hb', by rw [e1]; exact hi.lim, by rw [e2]; exact hi.cur, by rw [e3]; exact hi.ns1,
      by rw [hns]; exact hi.ns2, by rw [e4, e7]; exact hi.floor, by rw [e5]; exact hX, ?_⟩,
    e6, e7, e4, e1, by rw [e8]; exact id, hsz, by rw [ha]; rfl, [(k, some c.parentId)], [], hk,
    by rw [ha]; simp, by simp [hv]⟩
  intro x hx
  rw [hk] at hx
  rw [ha]
  rcases List.mem_append.mp hx with hx | hx
  · exact hi.good x hx
  · simp only [List.mem_singleton] at hx
    subst hx
    exact hg _

section main
variable (T : Tables) (txt : Bytes) (lower : Token → Ctx → Res Ctx)
  (hlower : ∀ t c c', BInv c → lower t c = .ok c' → BInv c')
include hlower

theorem build_comment (s p : Nat) (c : Ctx) (body : Bytes) (hi : Inv s c)
    (hroom : c.doc.nodes.size + 1 ≤ c.nodesLimit) :
    ∃ c', feed (tokenStep T txt lower) (toks p (.comment body)) c = .ok c' ∧
      Built s c c' 1 0 (expect c.parentId c.doc.nodes.size (.comment body)) ∧
      c'.afterText = [] := by
  obtain ⟨c', hs, hc, hk, ha, hns⟩ := step_comment T txt lower c (p + 4) body (p, p + 7 + body.length)
    hi.binv hi.lim (by omega) hi.at1
  have hb' : BInv c' := binv_tokenStep T txt lower hlower _ c c' hi.binv hs
  refine ⟨c', ?_, ?_, congrArg Core.afterText hc⟩
  · simp only [toks]
    rw [feed_cons_ok hs]; rfl
  · simp only [expect]
    exact built_leaf hi hb' (by simp) hc hk ha hns (fun _ => trivial) (fun _ => rfl)

theorem build_text (s p : Nat) (c : Ctx) (t : Bytes) (hi : Inv s c) (ht : textOk t = true)
    (hat : c.afterText = [])
    (hroom : c.doc.nodes.size + 1 ≤ c.nodesLimit) :
    ∃ c', feed (tokenStep T txt lower) (toks p (.text t)) c = .ok c' ∧
      Built s c c' 1 0 (expect c.parentId c.doc.nodes.size (.text t)) := by
  obtain ⟨c', hs, hc, hk, ha, hns⟩ := step_text T txt lower c p t (p, p + t.length)
    hi.binv hi.lim (by omega) hat ht
  have hb' : BInv c' := binv_tokenStep T txt lower hlower _ c c' hi.binv hs
  refine ⟨c', ?_, ?_⟩
  · simp only [toks]
    rw [feed_cons_ok hs]; rfl
  · simp only [expect]
    exact built_leaf hi hb' (by simp) hc hk ha hns (fun _ => trivial) (fun _ => rfl)

theorem build_elem (s p : Nat) (c : Ctx) (n : Bytes) (as : List (Bytes × Bytes)) (ks : List XNode)
    (ih : ∀ (p : Nat) (c : Ctx), Inv s c →
      (∀ k r, ks = k :: r → isText k = true → c.afterText = []) →
      c.doc.nodes.size + countAll ks ≤ c.nodesLimit →
      c.doc.attrs.size + attrCountAll ks < 4294967295 →
      ∃ c', feed (tokenStep T txt lower) (toksAll p ks) c = .ok c' ∧
        Built s c c' (countAll ks) (attrCountAll ks) (expectAll c.parentId c.doc.nodes.size ks))
    (hn : nameOk n = true) (has : attrsOk as = true) (hi : Inv s c)
    (hroom : c.doc.nodes.size + (1 + countAll ks) ≤ c.nodesLimit)
    (haroom : c.doc.attrs.size + (as.length + attrCountAll ks) < 4294967295) :
    ∃ c', feed (tokenStep T txt lower) (toks p (.elem n as ks)) c = .ok c' ∧
      Built s c c' (1 + countAll ks) (as.length + attrCountAll ks)
        (expect c.parentId c.doc.nodes.size (.elem n as ks)) ∧
      c'.afterText = [] := by
  have hn0 : n ≠ [] := by
    intro h; subst h; simp [nameOk] at hn
  have has' : ∀ a ∈ as, a.1 ≠ Lit.xmlns ∧ valueOk a.2 = true := by
    intro a ha
    simp only [attrsOk, Bool.and_eq_true, List.all_eq_true, bne_iff_ne, ne_eq,
      decide_eq_true_eq] at has
    have := has.1 a ha
    exact ⟨this.1.2, this.2⟩
  have hnd : (as.map (·.1)).Nodup := by
    simp only [attrsOk, Bool.and_eq_true, decide_eq_true_eq] at has
    exact has.2
  obtain ⟨p2, hp2⟩ : ∃ p2, p2 = p + 1 + n.length + attrsLen as := ⟨_, rfl⟩
  obtain ⟨p3, hp3⟩ : ∃ p3, p3 = p2 + 1 + (renderAll ks).length := ⟨_, rfl⟩
  have htoks : toks p (.elem n as ks) =
      [Token.elementStart ⟨p + 1, []⟩ ⟨p + 1, n⟩ p] ++ attrToks (p + 1 + n.length) as ++
        [Token.elementEnd .open (p2, p2 + 1)] ++ toksAll (p2 + 1) ks ++
        [Token.elementEnd (.close ⟨p3 + 2, []⟩ ⟨p3 + 2, n⟩) (p3, p3 + 3 + n.length)] := by
    subst hp3; subst hp2; rw [toks]
  -- start tag
  obtain ⟨c1, hs1, hc1⟩ := step_start T txt lower c (p + 1) (p + 1) p n hi.at1
  have hb1 := binv_tokenStep T txt lower hlower _ c c1 hi.binv hs1
  obtain ⟨c2, hs2, new, hc2, hpfx, hmap⟩ := feed_attrs T txt lower as (p + 1 + n.length) c1 has'
  have hb2 := binv_feed _ (binv_tokenStep T txt lower hlower) _ _ _ hb1 hs2
  have d2 : c2.doc = c.doc := (congrArg Core.doc hc2).trans (congrArg Core.doc hc1)
  have cur1 : c1.curAttrs = [] := (congrArg Core.curAttrs hc1).trans hi.cur
  have cur2 : c2.curAttrs = new := by
    have : c2.curAttrs = c1.curAttrs ++ new := congrArg Core.curAttrs hc2
    rw [this, cur1]; rfl
  have lim2 : c2.nodesLimit = c.nodesLimit :=
    (congrArg Core.nodesLimit hc2).trans (congrArg Core.nodesLimit hc1)
  have at2 : c2.afterText = [] := (congrArg Core.afterText hc2).trans (congrArg Core.afterText hc1)
  have tag2 : c2.tagName = ⟨[], n, ⟨p + 1, n⟩, p, p + 1⟩ :=
    (congrArg Core.tagName hc2).trans (congrArg Core.tagName hc1)
  have ns2 : c2.nsStartIdx = c.nsStartIdx :=
    (congrArg Core.nsStartIdx hc2).trans (congrArg Core.nsStartIdx hc1)
  have pid2 : c2.parentId = c.parentId :=
    (congrArg Core.parentId hc2).trans (congrArg Core.parentId hc1)
  have pp2 : c2.parentPrefixes = c.parentPrefixes :=
    (congrArg Core.parentPrefixes hc2).trans (congrArg Core.parentPrefixes hc1)
  have fl2 : c2.entityFloor = c.entityFloor :=
    (congrArg Core.entityFloor hc2).trans (congrArg Core.entityFloor hc1)
  have k2 : kps c2 = kps c := by unfold kps; rw [d2]
  have hnames : new.map (·.loc.bytes) = as.map (·.1) := by
    rw [← hmap, List.map_map]; rfl
  have hnewlen : new.length = as.length := by
    have := congrArg List.length hmap
    simpa using this
  obtain ⟨c3, hs3, rg, new3, hc3, hk3, hns3, hat3, hmap3, hrg, htake⟩ :=
    step_open T txt lower c2 s (p2, p2 + 1) (p + 1) p n hn0 hb2 (by rw [lim2]; exact hi.lim)
      (by rw [lim2, d2]; omega) (by rw [at2]; simp) tag2 (by rw [ns2]; exact hi.ns1)
      (by rw [d2]; exact hi.ns2) (by rw [k2, d2]; exact hi.good) (by rw [cur2]; exact hpfx)
      (by rw [cur2, hnames]; exact hnd) (by rw [cur2, d2, hnewlen]; omega)
  have hb3 := binv_tokenStep T txt lower hlower _ c2 c3 hb2 hs3
  obtain ⟨hany, hvals⟩ := akey_split new3 c2.curAttrs hmap3
  have hvals' : new3.map (fun a => (a.localName.bytes, a.value.bytes)) = as := by
    rw [hvals, cur2]; exact hmap
  have hnew3len : new3.length = as.length := by
    have := congrArg List.length hvals'
    simpa using this
  have hview : viewKP c3.doc.attrs.toList
      (Kind.element none ⟨p + 1, n⟩ rg (s, s), some c2.parentId) =
      some (some c.parentId, XKind.elem n as) := by
    simp only [viewKP, htake, hany, hvals', pid2]
    rfl
  have d3n : c3.doc.nodes.size = c.doc.nodes.size + 1 := by
    have := congrArg List.length hk3
    rw [k2] at this
    simpa [kps_length] using this
  have d3a : c3.doc.attrs.size = c.doc.attrs.size + as.length := by
    have := congrArg List.length hat3
    rw [d2] at this
    simpa [hnew3len] using this
  have lim3 : c3.nodesLimit = c.nodesLimit := (congrArg Core.nodesLimit hc3).trans lim2
  have at3 : c3.afterText = [] := congrArg Core.afterText hc3
  have pid3 : c3.parentId = c.doc.nodes.size := by
    have : c3.parentId = c2.doc.nodes.size := congrArg Core.parentId hc3
    rw [this, d2]
  have pp3 : c3.parentPrefixes = [] :: c.parentPrefixes := by
    have : c3.parentPrefixes = [] :: c2.parentPrefixes := congrArg Core.parentPrefixes hc3
    rw [this, pp2]
  have tag3 : c3.tagName = c2.tagName := congrArg Core.tagName hc3
  have fl3 : c3.entityFloor = c.entityFloor := (congrArg Core.entityFloor hc3).trans fl2
  have hi3 : Inv s c3 := by
    refine ⟨hb3, by rw [lim3]; exact hi.lim, congrArg Core.curAttrs hc3, ?_, by rw [hns3, d2]; exact hi.ns2,
      by rw [fl3, pp3]; exact Nat.le_succ_of_le hi.floor, by rw [at3]; simp, ?_⟩
    · have : c3.nsStartIdx = c2.doc.ns.treeOrder.size := congrArg Core.nsStartIdx hc3
      rw [this, d2]; exact hi.ns2
    · intro x hx
      rw [hk3, k2] at hx
      rcases List.mem_append.mp hx with hx | hx
      · exact good_mono (hi.good x hx) (by rw [d3a]; omega)
      · simp only [List.mem_singleton] at hx
        subst hx
        exact ⟨hrg, rfl⟩
  -- children
  obtain ⟨c4, hs4, hB4⟩ := ih (p2 + 1) c3 hi3 (fun _ _ _ _ => at3) (by rw [d3n, lim3]; omega)
    (by rw [d3a]; omega)
  obtain ⟨K4, more4, hk4, ha4, hv4⟩ := hB4.grow
  have hi4 := hB4.inv
  have pid4 : c4.parentId = c.doc.nodes.size := hB4.pid.trans pid3
  have hnode : (kps c4)[c.doc.nodes.size]? =
      some (Kind.element none ⟨p + 1, n⟩ rg (s, s), some c2.parentId) := by
    rw [hk4, hk3, k2]
    rw [List.getElem?_append_left (by simp [kps_length])]
    rw [List.getElem?_append_right (by simp [kps_length])]
    simp [kps_length]
  rw [kps_getElem?] at hnode
  obtain ⟨pn, hpn, hkp⟩ := Option.map_eq_some_iff.mp hnode
  simp only [kp, Prod.mk.injEq] at hkp
  have tag4 : c4.tagName.name ≠ [] := by
    apply hB4.tag
    rw [tag3, tag2]; exact hn0
  -- end tag
  obtain ⟨c5, hs5, hc5, hk5, ha5, hns5⟩ :=
    step_close T txt lower c4 s c.parentId (p3, p3 + 3 + n.length) (p3 + 2) (p3 + 2) n c.parentPrefixes
      pn none ⟨p + 1, n⟩ rg (s, s) hi4.at1 tag4 hi4.ns1 hi4.ns2 hi4.cur
      (by rw [hB4.fl, fl3]; exact hi.floor) (hB4.pp.trans pp3)
      (by rw [pid4]; exact hpn) hkp.1 rfl rfl (by rw [hkp.2, pid2])
  have hb5 := binv_tokenStep T txt lower hlower _ c4 c5 hi4.binv hs5
  have at5 : c5.afterText = [] := congrArg Core.afterText hc5
  have lim5 : c5.nodesLimit = c.nodesLimit := (congrArg Core.nodesLimit hc5).trans (hB4.lim.trans lim3)
  have tag5 : c5.tagName = c4.tagName := congrArg Core.tagName hc5
  have fl5 : c5.entityFloor = c.entityFloor :=
    (congrArg Core.entityFloor hc5).trans (hB4.fl.trans fl3)
  have pp5 : c5.parentPrefixes = c.parentPrefixes := congrArg Core.parentPrefixes hc5
  have hi5 : Inv s c5 := by
    refine ⟨hb5, by rw [lim5]; exact hi.lim, (congrArg Core.curAttrs hc5).trans hi4.cur, ?_,
      by rw [hns5]; exact hi4.ns2, by rw [fl5, pp5]; exact hi.floor,
      by rw [at5]; simp, by rw [hk5, ha5]; exact hi4.good⟩
    have : c5.nsStartIdx = c4.doc.ns.treeOrder.size := congrArg Core.nsStartIdx hc5
    rw [this]; exact hi4.ns2
  refine ⟨c5, ?_, ⟨hi5, congrArg Core.parentId hc5, pp5, fl5, lim5,
    fun _ => by rw [tag5]; exact tag4, ?_, ?_, ?_⟩, at5⟩
  · rw [htoks]
    refine feed_append_ok _ _ c c4 c5 ?_ (by rw [feed_cons_ok hs5]; rfl)
    refine feed_append_ok _ _ c c3 c4 ?_ hs4
    refine feed_append_ok _ _ c c2 c3 ?_ (by rw [feed_cons_ok hs3]; rfl)
    show feed _ (_ :: attrToks _ as) c = _
    rw [feed_cons_ok hs1]; exact hs2
  · have h5 : c5.doc.nodes.size = c4.doc.nodes.size := by
      have := congrArg List.length hk5
      simpa [kps_length] using this
    rw [h5, hB4.size, d3n]; omega
  · rw [ha5, hB4.asize, d3a]; omega
  · refine ⟨(Kind.element none ⟨p + 1, n⟩ rg (s, s), some c2.parentId) :: K4, new3 ++ more4, ?_, ?_, ?_⟩
    · rw [hk5, hk4, hk3, k2]; simp
    · rw [ha5, ha4, hat3, d2]; simp
    · rw [expect, List.map_cons, List.map_cons, ha5]
      congr 1
      · rw [ha4, viewKP_stable s c3.doc.attrs.toList more4
          (Kind.element none ⟨p + 1, n⟩ rg (s, s), some c2.parentId) ⟨by simpa using hrg, rfl⟩]
        exact hview
      · rw [hv4, pid3, d3n]

set_option linter.unusedSectionVars false in
mutual
  theorem build_node (s : Nat) : ∀ (k : XNode) (p : Nat) (c : Ctx), ok k = true → Inv s c →
      (isText k = true → c.afterText = []) →
      c.doc.nodes.size + count k ≤ c.nodesLimit →
      c.doc.attrs.size + attrCount k < 4294967295 →
      ∃ c', feed (tokenStep T txt lower) (toks p k) c = .ok c' ∧
        Built s c c' (count k) (attrCount k) (expect c.parentId c.doc.nodes.size k) ∧
        (isText k = false → c'.afterText = [])
    | .elem n as ks, p, c, hok, hi, _, hroom, haroom => by
      simp only [ok, Bool.and_eq_true] at hok
      obtain ⟨⟨⟨hn, has⟩, hadj⟩, hks⟩ := hok
      simp only [count] at hroom
      simp only [attrCount] at haroom
      obtain ⟨c', h1, h2, h3⟩ := build_elem T txt lower hlower s p c n as ks
        (fun p c hi hat hr har => build_all s ks p c hks hadj hi hat hr har) hn has hi hroom haroom
      exact ⟨c', h1, by simpa only [count, attrCount] using h2, fun _ => h3⟩
    | .comment b, p, c, _, hi, _, hroom, _ => by
      simp only [count] at hroom
      obtain ⟨c', h1, h2, h3⟩ := build_comment T txt lower hlower s p c b hi hroom
      exact ⟨c', h1, by simpa only [count, attrCount] using h2, fun _ => h3⟩
    | .text t, p, c, hok, hi, hat, hroom, _ => by
      simp only [ok] at hok
      simp only [count] at hroom
      obtain ⟨c', h1, h2⟩ := build_text T txt lower hlower s p c t hi hok (hat rfl) hroom
      exact ⟨c', h1, by simpa only [count, attrCount] using h2, fun h => by simp [isText] at h⟩
  theorem build_all (s : Nat) : ∀ (ks : List XNode) (p : Nat) (c : Ctx), okAll ks = true →
      noAdjText ks = true → Inv s c →
      (∀ k r, ks = k :: r → isText k = true → c.afterText = []) →
      c.doc.nodes.size + countAll ks ≤ c.nodesLimit →
      c.doc.attrs.size + attrCountAll ks < 4294967295 →
      ∃ c', feed (tokenStep T txt lower) (toksAll p ks) c = .ok c' ∧
        Built s c c' (countAll ks) (attrCountAll ks) (expectAll c.parentId c.doc.nodes.size ks)
    | [], p, c, _, _, hi, _, _, _ => by
      simp only [toksAll, countAll, attrCountAll, expectAll]
      exact ⟨c, rfl, Built.refl hi⟩
    | k :: ks, p, c, hok, hadj, hi, hat, hroom, haroom => by
      simp only [okAll, Bool.and_eq_true] at hok
      simp only [countAll] at hroom
      simp only [attrCountAll] at haroom
      obtain ⟨c1, h1, hB1, hat1⟩ := build_node s k p c hok.1 hi (hat k ks rfl) (by omega) (by omega)
      have hadj' : noAdjText ks = true := by
        cases ks with
        | nil => rfl
        | cons k2 r =>
          simp only [noAdjText, Bool.and_eq_true] at hadj
          exact hadj.2
      obtain ⟨c2, h2, hB2⟩ := build_all s ks (p + (render k).length) c1 hok.2 hadj' hB1.inv
        (by
          intro k2 r hks ht2
          subst hks
          simp only [noAdjText, Bool.and_eq_true, Bool.not_eq_true', Bool.and_eq_false_iff] at hadj
          rcases hadj.1 with h | h
          · exact hat1 h
          · rw [ht2] at h; cases h)
        (by rw [hB1.size, hB1.lim]; omega) (by rw [hB1.asize]; omega)
      rw [hB1.pid, hB1.size] at hB2
      simp only [toksAll, countAll, attrCountAll, expectAll]
      exact ⟨c2, feed_append_ok _ _ _ _ _ h1 h2, hB1.trans hB2⟩
end

end main

/-! ### Start and end of `parse` -/

theorem viewKP_elem {l : List AttrData} {x : Kind × Option Nat} {p : Option Nat} {n : Bytes}
    {as : List (Bytes × Bytes)} (h : viewKP l x = some (p, XKind.elem n as)) :
    x.1.isElement = true ∧ x.2 = p := by
  obtain ⟨k, q⟩ := x
  cases k with
  | element a b c d =>
    simp only [viewKP] at h
    split at h
    · simp at h
    · split at h
      · simp at h
      · simp only [Option.some.injEq, Prod.mk.injEq] at h
        exact ⟨rfl, h.1⟩
  | _ => simp [viewKP] at h

theorem initCtx_ok (txt : Bytes) (opt : Opt) :
    ∃ c0, initCtx txt opt = .ok c0 ∧ c0.nodesLimit = opt.nodesLimit ∧ c0.nsStartIdx = 1 ∧
      c0.doc.ns.treeOrder.size = 1 ∧ c0.curAttrs = [] ∧ c0.entityFloor = 0 ∧ c0.afterText = [] ∧
      c0.parentId = 0 ∧ c0.parentPrefixes = [[]] ∧ c0.doc.attrs = #[] ∧
      kps c0 = [(Kind.root, none)] ∧ c0.doc.nodes.size = 1 := by
  obtain ⟨ns0, hp, hts⟩ : ∃ ns0, ({} : Namespaces).pushNs (some ⟨0, Lit.xml⟩) (.borrowed ⟨0, nsXmlUri⟩) =
      .ok ns0 ∧ ns0.treeOrder.size = 1 := by
    simp [Namespaces.pushNs, Namespaces.search, Namespaces.searchGo]
  unfold initCtx
  rw [hp]
  simp only [Res.bind_ok, Res.pure_eq]
  exact ⟨_, rfl, rfl, rfl, hts, rfl, rfl, rfl, rfl, rfl, rfl, rfl, rfl⟩

open Rox.Api Rox.Spec in
theorem rootHasElement_ok (d : Doc) (h : LinkWF d.nodes) (n1 : NodeData) (h1 : d.nodes[1]? = some n1)
    (hp : n1.parent = some 0) (hk : n1.kind.isElement = true) : rootHasElement d = .ok true := by
  obtain ⟨it, hc, hre, habs⟩ := children_init_root d h
  have hsz : 1 < d.nodes.size := (Array.getElem?_eq_some_iff.mp h1).1
  unfold rootHasElement
  simp only [hc, Res.bind_ok]
  have hlen : (absIt d.nodes 0 it).length < Api.fuelN d := by
    rw [habs]
    have := kidsIn_length d.nodes 0 0 (d.nodes.size - 1)
    unfold Api.fuelN; omega
  rw [childrenList_safe d h 0 _ it hre hlen, habs]
  have hp1 : par d.nodes 1 = some 0 := by simp [par, h1, hp]
  rw [kidsIn_skip d.nodes 0 0 1 (d.nodes.size - 1) (by omega) (by omega)
    (by
      intro k _ hk2
      have : k = 0 := by omega
      subst this
      rw [h.root.1]; rfl)]
  rw [kidsIn_cons d.nodes 0 1 (d.nodes.size - 1) (by omega) hp1]
  simp [findElement, isElement, kindOf, getNodeUnwrap, h1, hk]

end RtB

open RtB

/-- **Builder, canonical form**: if the tokenizer delivered `toks 0 x` and succeeded, then `parse`
succeeds and the arena, read back node by node in id order, is the root followed by the nodes of
`x` in document order, each with the right parent id, name, attribute list (names and values, in
source order, no namespace), comment body and text.

`hattrs` is the bound `resolve_attributes` enforces (`AttributesLimitReached` once the document has
2³² − 1 attributes); it is not implied by the node limit, and without it the statement is false. -/
theorem parse_of_toks (T : Tables) (txt : Bytes) (opt : Opt)
    (n : Bytes) (as : List (Bytes × Bytes)) (ks : List XNode)
    (hx : ok (.elem n as ks) = true)
    (htok : tokenize T txt opt.allowDtd = (toks 0 (.elem n as ks), .ok ()))
    (hlim : count (.elem n as ks) + 1 ≤ opt.nodesLimit) (hl32 : opt.nodesLimit ≤ 4294967295)
    (hattrs : attrCount (.elem n as ks) < 4294967295) :
    ∃ d, parse T txt opt = .ok d ∧
      d.nodes.toList.map (view d) =
        some (none, XKind.root) :: (expect 0 1 (.elem n as ks)).map some := by
  obtain ⟨c0, h0, l0, ns0, ts0, cur0, fl0, at0, pid0, pp0, attrs0, k0, sz0⟩ := initCtx_ok txt opt
  have hb0 : BInv c0 := binv_init txt opt c0 h0
  have hi0 : Inv 1 c0 := by
    refine ⟨hb0, by rw [l0]; exact hl32, cur0, ns0, ts0, by rw [fl0]; exact Nat.zero_le _,
      by rw [at0]; simp, ?_⟩
    intro x hx
    rw [k0] at hx
    simp only [List.mem_singleton] at hx
    subst hx
    trivial
  obtain ⟨c1, hf, hB, _⟩ := build_node T txt (token T txt 11) (binv_token T txt 11) 1 (.elem n as ks)
    0 c0 hx hi0 (by intro h; simp [isText] at h) (by rw [sz0, l0]; omega)
    (by rw [attrs0]; simpa using hattrs)
  obtain ⟨K, more, hk, ha, hv⟩ := hB.grow
  rw [pid0, sz0] at hv
  have hrun : runTokens (token T txt depthFuel) (toks 0 (.elem n as ks)) (.ok ()) c0 = .ok c1 := by
    unfold runTokens
    have : token T txt depthFuel = tokenStep T txt (token T txt 11) := rfl
    rw [this, hf]
  have hb1 : BInv c1 := hB.inv.binv
  have hhas : rootHasElement c1.doc = .ok true := by
    rw [expect, List.map_cons] at hv
    cases K with
    | nil => simp at hv
    | cons x K' =>
      simp only [List.map_cons, List.cons.injEq] at hv
      obtain ⟨he, hpar⟩ := viewKP_elem hv.1
      have hnode : (kps c1)[1]? = some x := by
        rw [hk, k0]; rfl
      rw [kps_getElem?] at hnode
      obtain ⟨n1, hn1, hkp⟩ := Option.map_eq_some_iff.mp hnode
      subst hkp
      exact rootHasElement_ok c1.doc hb1.wf n1 hn1 hpar he
  refine ⟨{ c1.doc with ns := { c1.doc.ns with sortedOrder := #[] } }, ?_, ?_⟩
  · unfold parse parseCtx
    rw [h0]
    simp only [Res.bind_ok]
    rw [htok]
    simp only
    rw [hrun]
    simp only [Res.bind_ok]
    unfold finish
    rw [hhas]
    have : c1.parentPrefixes.length = 1 := by rw [hB.pp, pp0]; rfl
    simp [this]
  · have hview : ∀ (D : Doc), D.attrs = c1.doc.attrs →
        List.map (view D) c1.doc.nodes.toList = (kps c1).map (viewKP c1.doc.attrs.toList) := by
      intro D hD
      unfold kps
      rw [List.map_map]
      apply List.map_congr_left
      intro nd _
      rw [view_eq, hD]; rfl
    refine (hview _ rfl).trans ?_
    rw [hk, k0, List.map_append, hv]
    rfl

end Rox.Lemmas
