/-
  Rox.Lemmas.GrammarBuild — Stage B of the grammar-soundness proof: what the tree builder checks.
  If the builder accepts the tokens of a list of items (and the final checks of `parse` pass) then
  start and end tags are balanced with matching names, there is a start tag, every run of
  character data and every attribute value has well-formed references only, and no start tag has
  two attributes with the same (prefix, local name).
-/
import Rox.Lemmas.GrammarBuild1
import Rox.Lemmas.GrammarBuild2

namespace Rox.Lemmas
open Rox Rox.Spec.Grammar

namespace GB

theorem gb_feed_append_ok {step : Token → Ctx → Res Ctx} (l1 l2 : List Token) (c c' : Ctx)
    (h : feed step (l1 ++ l2) c = .ok c') :
    ∃ c1, feed step l1 c = .ok c1 ∧ feed step l2 c1 = .ok c' := by
  rw [Rox.Props.C16.feed_append] at h
  split at h
  · rename_i c1 h1; exact ⟨c1, h1, h⟩
  · simp at h
  · simp at h
  · simp at h

theorem gb_feed_cons_ok {step : Token → Ctx → Res Ctx} (t : Token) (l : List Token) (c c' : Ctx)
    (h : feed step (t :: l) c = .ok c') :
    ∃ c1, step t c = .ok c1 ∧ feed step l c1 = .ok c' := by
  simp only [feed] at h
  split at h
  · rename_i c1 h1; exact ⟨c1, h1, h⟩
  · simp at h
  · simp at h
  · simp at h

theorem gb_feed_one {step : Token → Ctx → Res Ctx} (t : Token) (c c' : Ctx)
    (h : feed step [t] c = .ok c') : step t c = .ok c' := by
  obtain ⟨c1, h1, h2⟩ := gb_feed_cons_ok t [] c c' h
  simp only [feed, Res.ok.injEq] at h2
  subst h2; exact h1

section
variable (T : Tables) (txt : Bytes) (lower : Token → Ctx → Res Ctx)
  (hB : ∀ t c c', BInv c → tokenStep T txt lower t c = .ok c' → BInv c')
include hB

/-- one item -/
theorem gb_item (it : Item) (ts : List Token) (hit : ItemToks it ts) (hlex : it.Lex T)
    (htok : ∀ t ∈ ts, TokOk txt t) (stk : List QP) (c c' : Ctx) (hg : GInv stk c)
    (h : feed (tokenStep T txt lower) ts c = .ok c') :
    ∃ stk', stepStk stk it = some stk' ∧ GInv stk' c' ∧ it.Sem T ∧
      (it.isStag = false → NoElem c.doc.nodes → NoElem c'.doc.nodes) := by
  cases hit with
  | sp s =>
    simp only [feed, Res.ok.injEq] at h
    subst h
    exact ⟨stk, rfl, hg, trivial, fun _ hn => hn⟩
  | comment b sp r hb =>
    have h1 := gb_feed_one _ _ _ h
    obtain ⟨hg', hn'⟩ := gb_tok_comment T txt lower hg (hB _ _ _ hg.binv h1) h1
    exact ⟨stk, rfl, hg', trivial, fun _ hn => hn' hn⟩
  | pi t s v tsp vo r hb =>
    have h1 := gb_feed_one _ _ _ h
    obtain ⟨hg', hn'⟩ := gb_tok_pi T txt lower hg (hB _ _ _ hg.binv h1) h1
    exact ⟨stk, rfl, hg', trivial, fun _ hn => hn' hn⟩
  | cdata b sp r hb =>
    have h1 := gb_feed_one _ _ _ h
    obtain ⟨hg', hn'⟩ := gb_tok_cdata T txt lower hg (hB _ _ _ hg.binv h1) h1
    exact ⟨stk, rfl, hg', trivial, fun _ hn => hn' hn⟩
  | text t sp r hb =>
    have h1 := gb_feed_one _ _ _ h
    obtain ⟨hsu, _, hr, _⟩ := htok _ (List.mem_singleton.mpr rfl)
    obtain ⟨_, _, hlt, _⟩ := hlex
    have hsl : sliceBytes txt r.1 r.2 = sp.bytes := by
      rw [hr]; exact hsu.1.1.symm
    obtain ⟨hg', hn', hrt⟩ := gb_tok_text T txt lower hg (hB _ _ _ hg.binv h1) hsl
      (by rw [hb]; exact hlt) h1
    exact ⟨stk, rfl, hg', by rw [← hb]; exact hrt, fun _ hn => hn' hn⟩
  | etag q s2 p l r hq =>
    have h1 := gb_feed_one _ _ _ h
    obtain ⟨rest, e, hg', hn'⟩ := gb_tok_close T txt lower hg (hB _ _ _ hg.binv h1) h1
    subst e
    refine ⟨rest, ?_, hg', trivial, fun _ hn => hn' hn⟩
    simp only [stepStk, hq, if_true]
  | stag q attrs s1 e p l st ats r hq hat =>
    obtain ⟨c1, h1, h⟩ := gb_feed_cons_ok _ _ _ _ h
    obtain ⟨c2, h2, h⟩ := gb_feed_append_ok _ _ _ _ h
    have h3 := gb_feed_one _ _ _ h
    have hb1 := hB _ _ _ hg.binv h1
    have hi1 := gb_tok_start T txt lower hg hb1 h1
    obtain ⟨_, _, hla⟩ := hlex
    obtain ⟨hi2, hrt⟩ := gb_attrs T txt lower hB attrs ats hat
      (fun a ha => (hla a ha).2.2.2.2.2.2.1) [] c1 c2 hi1 h2
    rw [List.nil_append] at hi2
    have hb3 := hB _ _ _ hi2.core.binv h3
    cases e with
    | false =>
      obtain ⟨hnd, hg'⟩ := gb_tok_open T txt lower hi2 hb3 h3
      refine ⟨qparts q :: stk, rfl, ?_, ⟨hrt, hnd⟩, fun hs => by simp [Item.isStag] at hs⟩
      rw [hq]; exact hg'
    | true =>
      obtain ⟨hnd, hg'⟩ := gb_tok_empty T txt lower hi2 hb3 h3
      exact ⟨stk, rfl, hg', ⟨hrt, hnd⟩, fun hs => by simp [Item.isStag] at hs⟩

/-- all items -/
theorem gb_items : ∀ (its : List Item) (toks : List Token), ItemsToks its toks →
    (∀ it ∈ its, it.Lex T) → (∀ t ∈ toks, TokOk txt t) → ∀ (stk : List QP) (c c' : Ctx),
      GInv stk c → feed (tokenStep T txt lower) toks c = .ok c' →
      ∃ stk', runStk stk its = some stk' ∧ GInv stk' c' ∧ (∀ it ∈ its, it.Sem T) ∧
        ((∀ it ∈ its, it.isStag = false) → NoElem c.doc.nodes → NoElem c'.doc.nodes) := by
  intro its toks hit
  induction hit with
  | nil =>
    intro _ _ stk c c' hg h
    simp only [feed, Res.ok.injEq] at h
    subst h
    exact ⟨stk, rfl, hg, fun it hi => by simp at hi, fun _ hn => hn⟩
  | cons it its ts tss h1 _ ih =>
    intro hlex htok stk c c' hg h
    obtain ⟨c1, hf1, hf2⟩ := gb_feed_append_ok _ _ _ _ h
    obtain ⟨stk1, hs1, hg1, hsem1, hn1⟩ := gb_item T txt lower hB it ts h1 (hlex it (by simp))
      (fun t ht => htok t (by simp [ht])) stk c c1 hg hf1
    obtain ⟨stk2, hs2, hg2, hsem2, hn2⟩ := ih (fun x hx => hlex x (by simp [hx]))
      (fun t ht => htok t (by simp [ht])) stk1 c1 c' hg1 hf2
    refine ⟨stk2, ?_, hg2, ?_, ?_⟩
    · simp only [runStk, hs1]; exact hs2
    · intro x hx
      rw [List.mem_cons] at hx
      rcases hx with rfl | hx
      · exact hsem1
      · exact hsem2 x hx
    · intro hall hn
      exact hn2 (fun x hx => hall x (by simp [hx])) (hn1 (hall it (by simp)) hn)

end

theorem gb_noelem_count (a : Array NodeData) (hn : NoElem a) : elemCount a = 0 := by
  unfold elemCount
  rw [List.length_eq_zero_iff, List.filter_eq_nil_iff]
  intro j _
  unfold Rox.Spec.kindIs
  cases hj : a[j]? with
  | none => simp
  | some nd => simp [hn j nd hj]

theorem gb_init (txt : Bytes) (opt : Opt) (c0 : Ctx) (h0 : initCtx txt opt = .ok c0) :
    GInv [] c0 ∧ NoElem c0.doc.nodes := by
  have hb0 := binv_init txt opt c0 h0
  unfold initCtx at h0
  rw [Res.bind_eq_ok] at h0
  obtain ⟨ns, hns, h0⟩ := h0
  res_norm at h0
  subst h0
  have hts : ns.treeOrder.size = 1 := by
    simp [Namespaces.pushNs, Namespaces.search, Namespaces.searchGo] at hns
    subst hns
    rfl
  refine ⟨⟨⟨hb0, rfl, rfl, rfl, ⟨_, rfl, rfl⟩⟩, rfl, rfl, hts.symm⟩, ?_⟩
  intro i nd hi
  cases i with
  | zero =>
    simp only [List.getElem?_toArray, List.getElem?_cons_zero, Option.some.injEq] at hi
    subst hi; rfl
  | succ k => simp at hi

end GB


theorem parseCtx_items (T : Tables) (hT : TablesOK T) (txt : Bytes) (hv : ValidUtf8 txt) (opt : Opt)
    (hdtd : opt.allowDtd = false) (c : Ctx) (h : parseCtx T txt depthFuel opt = .ok c)
    (its : List Item) (hit : ItemsToks its (tokenize T txt false).1) (hlex : ∀ it ∈ its, it.Lex T) :
    runStk [] its = some [] ∧ (∀ it ∈ its, it.Sem T) ∧ (∃ it ∈ its, it.isStag = true) := by
  unfold parseCtx at h
  rw [Res.bind_eq_ok] at h
  obtain ⟨c0, h0, h⟩ := h
  try dsimp only at h
  rw [Res.bind_eq_ok] at h
  obtain ⟨c1, h1, h⟩ := h
  rw [hdtd] at h1
  have hb0 := binv_init txt opt c0 h0
  obtain ⟨hg0, hn0⟩ := GB.gb_init txt opt c0 h0
  obtain ⟨_, hfeed⟩ := runTokens_feed _ _ _ _ _ h1
  have hb1 : BInv c1 := binv_runTokens _ (binv_token T txt depthFuel) _ _ _ _ hb0 h1
  have htoks := (parseDocument_spec T hT txt hv false).toks
  have hstep : token T txt depthFuel = tokenStep T txt (token T txt 11) := rfl
  rw [hstep] at hfeed
  obtain ⟨stk', hrun, hg1, hsem, hne⟩ := GB.gb_items T txt (token T txt 11)
    (binv_tokenStep T txt _ (binv_token T txt 11)) its _ hit hlex htoks [] c0 c1 hg0 hfeed
  unfold finish at h
  rw [Res.bind_eq_ok] at h
  obtain ⟨has, hhas, h⟩ := h
  split at h
  · simp at h
  · rename_i hh
    have : has = true := by simpa using hh
    subst this
    split at h
    · simp at h
    · rename_i hlen
      have hge := rootHasElement_true c1.doc hb1.wf hhas
      have hstk : stk' = [] := by
        have hpp := hg1.pp
        rw [hpp] at hlen
        cases stk' with
        | nil => rfl
        | cons a r => simp at hlen
      subst hstk
      refine ⟨hrun, hsem, ?_⟩
      apply Classical.byContradiction
      intro hno
      have hall : ∀ it ∈ its, it.isStag = false := by
        intro it hi
        cases hs : it.isStag with
        | false => rfl
        | true => exact absurd ⟨it, hi, hs⟩ hno
      have := GB.gb_noelem_count _ (hne hall hn0)
      omega

end Rox.Lemmas
