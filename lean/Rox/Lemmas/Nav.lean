/-
  Rox.Lemmas.Nav — `next_sibling` computes the next node with the same parent; `first_child`
  is the node after its parent.
-/
import Rox.Lemmas.TreeApi

namespace Rox.Lemmas
open Rox Rox.Spec Rox.Api

/-- least `j > i` with the same parent as `i` -/
def nextSibSpec (a : Arena) (i : Nat) : Option Nat :=
  (List.range' (i + 1) (a.size - (i + 1))).find? fun j => par a j == par a i

/-- A proper descendant of `i` does not have the parent of `i` as its parent. -/
theorem desc_parent_ne {a : Arena} (h : LinkWF a) (i k : Nat) (hk : Anc a i k) (hne : k ≠ i)
    (hi0 : 0 < i) (hi : i < a.size) : par a k ≠ par a i := by
  have hPL := h.parentLt
  obtain ⟨p, hp, hpl, _⟩ := h.parent_lt i hi0 hi
  intro heq
  rw [hp] at heq
  -- then p would be i or a descendant of i (it is on the chain of k between k and i), but p < i
  have h1 : Anc a i k := hk
  rw [anc_step a hPL i k p heq] at h1
  rcases h1 with h1 | h1
  · exact hne h1.symm
  · have := anc_le a hPL p i h1; omega

/-- `next_sibling` is the next node with the same parent (or none). -/
theorem nextSibling_spec (d : Doc) (h : LinkWF d.nodes) (i : Nat) (hi : i < d.nodes.size) :
    nextSibling d i = .ok (nextSibSpec d.nodes i) := by
  have hPL := h.parentLt
  have hn : d.nodes[i]? = some d.nodes[i] := by simp [hi]
  have hnx : nextSub d.nodes i = d.nodes[i].nextSubtree := by simp [Spec.nextSub, hi]
  unfold nextSibling getNodeUnwrap
  simp only [hn, Res.bind_ok]
  cases hns : d.nodes[i].nextSubtree with
  | none =>
    -- no node after the subtree of i: every later node is a descendant of i
    simp only [pure, Res.pure_eq]
    have hspec : nextSubtreeSpec d.nodes i = none := by rw [← h.next i hi, hnx, hns]
    unfold nextSubtreeSpec at hspec
    rw [find_range'_none] at hspec
    congr 1
    symm
    unfold nextSibSpec
    rw [find_range'_none]
    intro k hk1 hk2
    have hanc : Anc d.nodes i k := by simpa [Anc] using hspec k hk1 hk2
    by_cases hi0 : i = 0
    · subst hi0
      rw [h.root.1]
      obtain ⟨p, hp, _⟩ := h.parent_lt k (by omega) (by omega)
      simp [hp]
    · have := desc_parent_ne h i k hanc (by omega) (by omega) hi
      simpa using this
  | some j =>
    have hspec : nextSubtreeSpec d.nodes i = some j := by rw [← h.next i hi, hnx, hns]
    have hspec' := hspec
    unfold nextSubtreeSpec at hspec
    rw [find_range'_some] at hspec
    obtain ⟨h1, h2, h3, h4⟩ := hspec
    have hj : j < d.nodes.size := by omega
    have hjn : d.nodes[j]? = some d.nodes[j] := by simp [hj]
    simp only [hjn, Res.bind_ok]
    obtain ⟨k, hk⟩ := next_has_prev h i j hi (by rw [hnx, hns])
    have hpj : d.nodes[j].prevSibling = some k := by simpa [Spec.prevSib, hj] using hk
    simp only [hpj, pure, Res.pure_eq]
    -- k is the greatest node before j with the parent of j
    have hkspec : prevSibSpec d.nodes j = some k := by
      have := h.prev j hj
      rw [hk] at this
      have hj0 : j ≠ 0 := by omega
      simp only [hj0, if_false] at this
      exact this.symm
    unfold prevSibSpec at hkspec
    rw [find_rev_range_some] at hkspec
    obtain ⟨hk1, hk2, hk3⟩ := hkspec
    have hk2' : par d.nodes k = par d.nodes j := by simpa using hk2
    -- nodes strictly between i and j are proper descendants of i
    have hbetween : ∀ m, i < m → m < j → Anc d.nodes i m := by
      intro m hm1 hm2
      simpa [Anc] using h4 m (by omega) hm2
    congr 1
    by_cases hpar : par d.nodes j = par d.nodes i
    · -- same parent: i itself is the previous sibling of j
      have hki : k = i := by
        by_cases hlt : k < i
        · have := hk3 i hlt (by omega)
          rw [hpar] at this; simp at this
        · by_cases hgt : i < k
          · exfalso
            have hanc := hbetween k hgt hk1
            by_cases hi0 : i = 0
            · subst hi0
              obtain ⟨p, hp, _⟩ := h.parent_lt k (by omega) (by omega)
              rw [hk2', hpar, h.root.1] at hp; simp at hp
            · exact desc_parent_ne h i k hanc (by omega) (by omega) hi (by rw [hk2', hpar])
          · omega
      simp only [hki, beq_self_eq_true, if_true]
      symm
      unfold nextSibSpec
      rw [find_range'_some]
      refine ⟨h1, h2, by simp [hpar], ?_⟩
      intro m hm1 hm2
      have hanc := hbetween m (by omega) hm2
      by_cases hi0 : i = 0
      · subst hi0
        rw [h.root.1]
        obtain ⟨p, hp, _⟩ := h.parent_lt m (by omega) (by omega)
        simp [hp]
      · have := desc_parent_ne h i m hanc (by omega) (by omega) hi
        simpa using this
    · -- different parent: i is not the previous sibling, and i has no later sibling at all
      have hki : k ≠ i := by
        rintro rfl; exact hpar hk2'.symm
      have : (k == i) = false := by simpa using hki
      simp only [this, Bool.false_eq_true, if_false]
      symm
      unfold nextSibSpec
      rw [find_range'_none]
      intro m hm1 hm2
      by_cases hmj : m < j
      · have hanc := hbetween m (by omega) hmj
        by_cases hi0 : i = 0
        · subst hi0
          rw [h.root.1]
          obtain ⟨p, hp, _⟩ := h.parent_lt m (by omega) (by omega)
          simp [hp]
        · have := desc_parent_ne h i m hanc (by omega) (by omega) hi
          simpa using this
      · -- m ≥ j: a node with the parent of i at or after j is impossible
        by_cases hi0 : i = 0
        · subst hi0
          rw [h.root.1]
          obtain ⟨p, hp, _⟩ := h.parent_lt m (by omega) (by omega)
          simp [hp]
        · obtain ⟨p, hp, hpl, _⟩ := h.parent_lt i (by omega) hi
          rw [hp]
          simp only [beq_eq_false_iff_ne, ne_eq]
          intro hpm
          -- p = parent i. j is outside the subtree of i; if m ≥ j had parent p, then by
          -- contiguity of the subtree of p every node between i and m, in particular j, is a
          -- descendant of p; the chain of j then passes through a child s of p with i < s ≤ j …
          have hancp_m : Anc d.nodes p m := (anc_step _ hPL p m p hpm).mpr (Or.inr (anc_refl _ _))
          have hancp_j : Anc d.nodes p j :=
            anc_between _ hPL h.preorder' h.hasParent m p (by omega) hancp_m j (by omega) (by omega)
          have hpj_ne : p ≠ j := by omega
          obtain ⟨s, hs, hps⟩ := child_on_chain _ hPL j p hancp_j hpj_ne
          -- s is a child of p on the chain of j, so s ≤ j; and s > i is impossible to be < j
          have hsj : s ≤ j := anc_le _ hPL j s hs
          by_cases hsi : s ≤ i
          · -- then i is between s and j, hence a descendant of s; but i's parent is p = parent s
            have hsi' : Anc d.nodes s i :=
              anc_between _ hPL h.preorder' h.hasParent j s hj hs i hsi (by omega)
            by_cases hse : s = i
            · subst hse
              -- then i is an ancestor-or-self of j: contradiction with j outside the subtree
              have : ¬ Anc d.nodes s j := by simpa [Anc] using h3
              exact this hs
            · have hs0 : 0 < s := by
                rcases Nat.eq_zero_or_pos s with h0 | h0
                · subst h0; rw [h.root.1] at hps; simp at hps
                · exact h0
              exact desc_parent_ne h s i hsi' (fun h => hse h.symm) hs0 (by omega) (by rw [hp, hps])
          · -- i < s ≤ j with parent p: s = j would make par j = par i; s < j is a descendant of i
            by_cases hsj' : s = j
            · subst hsj'; exact hpar (by rw [hps, hp])
            · have hanc := hbetween s (by omega) (by omega)
              exact desc_parent_ne h i s hanc (by omega) (by omega) hi (by rw [hps, hp])

end Rox.Lemmas
